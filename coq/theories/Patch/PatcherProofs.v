(** Lemmas about the patcher model that both C01 and C17 use: the fresh bowl's primitives on a
    prepared tree, "processing a file only touches that file's path and only depends on what
    is there" (as a relation between two runs), and "whatever a successful processing of a
    series consumes, skipping it consumes too". *)
From Coq Require Import ZifyBool ZifyNat.
From Wharf Require Import Base.Prelude Bowl.Fresh Bowl.FreshProofs Patch.Reinterp Patch.ReinterpProofs
     Patch.Stream Patch.Patcher Patch.Whitelist Patch.ApplyProofs.
Local Open Scope Z_scope.

(* ------------------------------------------------------------------ small facts *)

Lemma znth_Some {A} (l : list A) i x : znth l i = Some x -> 0 <= i < Z.of_nat (length l).
Proof.
  unfold znth. destruct (Z.ltb_spec i 0) as [Hlt|Hge]; [discriminate|]. intros Hn.
  assert (Hs : nth_error l (Z.to_nat i) <> None) by (rewrite Hn; discriminate).
  apply nth_error_Some in Hs. lia.
Qed.

Lemma znth_in_range {A} (l : list A) i : 0 <= i < Z.of_nat (length l) -> exists x, znth l i = Some x.
Proof.
  intros Hr. unfold znth. destruct (Z.ltb_spec i 0) as [Hlt|Hge]; [lia|].
  destruct (nth_error l (Z.to_nat i)) eqn:E; [eexists; reflexivity|].
  apply nth_error_None in E. lia.
Qed.

Lemma znth_In {A} (l : list A) i x : znth l i = Some x -> In x l.
Proof. unfold znth. destruct (i <? 0); [discriminate|]. apply nth_error_In. Qed.

Lemma znth_NoDup_fst {A B} (l : list (A * B)) i j a b b' :
  NoDup (map fst l) -> znth l i = Some (a, b) -> znth l j = Some (a, b') -> i = j.
Proof.
  intros ND Hi Hj. pose proof (znth_Some _ _ _ Hi) as Ri. pose proof (znth_Some _ _ _ Hj) as Rj.
  unfold znth in *. destruct (i <? 0); [discriminate|]. destruct (j <? 0); [discriminate|].
  assert (E : Z.to_nat i = Z.to_nat j).
  { apply (proj1 (NoDup_nth_error (map fst l)) ND).
    - rewrite map_length. lia.
    - rewrite !nth_error_map, Hi, Hj. reflexivity. }
  lia.
Qed.

(* ------------------------------------------------------------------ a file ready to be written *)

(** what Prepare leaves for every file of a well-formed container, and what processing keeps:
    the path holds a regular file and everything above it is a directory *)
Definition file_ready (t : tree) (p : path) : Prop :=
  p <> [] /\ (forall q, In q (proper_prefixes p) -> tlookup t q = Some Dir) /\ exists d, tlookup t p = Some (File d).

Lemma proper_prefix_neq p q : In q (proper_prefixes p) -> q <> p.
Proof.
  intros H ->. apply proper_prefixes_in in H. destruct H as (b & H & _ & Hb).
  apply Hb. apply (f_equal (@length N)) in H. rewrite app_length in H.
  destruct b; [reflexivity|cbn in H; lia].
Qed.

Lemma entry_open_ready t p : file_ready t p -> entry_open t p = Ok t.
Proof.
  intros (Hp & Hd & d & Hf). unfold entry_open. destruct p as [|x p']; [contradiction|].
  rewrite mkdir_all_noop by exact Hd. cbn [bind]. rewrite Hf. reflexivity.
Qed.

Lemma transpose_write_ready t p data : file_ready t p -> transpose_write t p data = Ok (tset t p (File data)).
Proof.
  intros (Hp & Hd & d & Hf). unfold transpose_write. destruct p as [|x p']; [contradiction|].
  rewrite mkdir_all_noop by exact Hd. cbn [bind]. rewrite Hf. reflexivity.
Qed.

Lemma entry_write_file t p off data d :
  tlookup t p = Some (File d) -> entry_write t p off data = Ok (tset t p (File (pwrite d off data))).
Proof. intros H. unfold entry_write. rewrite H. reflexivity. Qed.

(** a tree that differs from a ready one only at a path that holds a file on both sides is
    ready as well *)
Lemma file_ready_frame t t' p pj :
  file_ready t pj -> (forall q, q <> p -> tlookup t' q = tlookup t q) ->
  (exists d, tlookup t p = Some (File d)) -> (exists d', tlookup t' p = Some (File d')) ->
  file_ready t' pj.
Proof.
  intros (Hne & Hd & d & Hf) Hfr (d0 & H0) (d1 & H1). split; [assumption|]. split.
  - intros q Hq. destruct (path_eq_dec q p) as [->|Hn].
    + rewrite (Hd p Hq) in H0. discriminate.
    + rewrite Hfr by assumption. apply Hd. assumption.
  - destruct (path_eq_dec pj p) as [->|Hn]; [exists d1; assumption|].
    exists d. rewrite Hfr by assumption. assumption.
Qed.

(* ------------------------------------------------------------------ two runs side by side *)

Section Rel.
  Variables (bs : Z) (oldC newC : container) (olds : list (list byte)).
  Variables (p : path) (idx sz : Z).
  Variables (t10 t20 : tree) (tr1 tr2 : list event).
  Hypothesis Hidx : znth (c_files newC) idx = Some (p, sz).
  Hypothesis R10 : file_ready t10 p.
  Hypothesis R20 : file_ready t20 p.

  (** the two states hold the same file at [p], are unchanged elsewhere, and have logged the
      same calls since the start of this file, all of them about file [idx] *)
  Definition srel (s1 s2 : pst) : Prop :=
    (exists d, tlookup (p_tree s1) p = Some (File d) /\ tlookup (p_tree s2) p = Some (File d)) /\
    (forall q, q <> p -> tlookup (p_tree s1) q = tlookup t10 q) /\
    (forall q, q <> p -> tlookup (p_tree s2) q = tlookup t20 q) /\
    (exists e, p_trace s1 = tr1 ++ e /\ p_trace s2 = tr2 ++ e /\ Forall (bowl_ev_for idx) e).

  Definition wrel (w1 w2 : wst) : Prop :=
    w_path w1 = p /\ w_path w2 = p /\ w_off w1 = w_off w2 /\ srel (w_st w1) (w_st w2).

  Lemma srel_ready s1 s2 : srel s1 s2 -> file_ready (p_tree s1) p /\ file_ready (p_tree s2) p.
  Proof.
    intros ((d & H1 & H2) & F1 & F2 & _). split.
    - apply (file_ready_frame t10 _ p p R10 F1); [apply R10|exists d; assumption].
    - apply (file_ready_frame t20 _ p p R20 F2); [apply R20|exists d; assumption].
  Qed.

  Lemma srel_ev s1 s2 e : srel s1 s2 -> bowl_ev_for idx e -> srel (ev s1 e) (ev s2 e).
  Proof.
    intros (Hf & F1 & F2 & (e0 & E1 & E2 & Hall)) He. unfold ev. cbn [p_tree p_trace].
    repeat split; try assumption.
    exists (e0 ++ [e]). rewrite E1, E2, !app_assoc. repeat split. apply Forall_app. split; [assumption|repeat constructor; assumption].
  Qed.

  Lemma srel_set s1 s2 d :
    srel s1 s2 -> srel (mkP (tset (p_tree s1) p (File d)) (p_trace s1)) (mkP (tset (p_tree s2) p (File d)) (p_trace s2)).
  Proof.
    intros (Hf & F1 & F2 & He). unfold srel. cbn [p_tree p_trace]. repeat split.
    - exists d. rewrite !tlookup_tset_same. split; reflexivity.
    - intros q Hq. rewrite tlookup_tset_other by (intros E; apply Hq; symmetry; assumption). apply F1. assumption.
    - intros q Hq. rewrite tlookup_tset_other by (intros E; apply Hq; symmetry; assumption). apply F2. assumption.
    - assumption.
  Qed.

  Lemma w_write_rel w1 w2 data w1' :
    wrel w1 w2 -> w_write w1 data = Ok w1' -> exists w2', w_write w2 data = Ok w2' /\ wrel w1' w2'.
  Proof.
    intros (P1 & P2 & Ho & Hs) H. unfold w_write in *. destruct data as [|b data].
    - injection H as <-. exists w2. split; [reflexivity|]. exact (conj P1 (conj P2 (conj Ho Hs))).
    - destruct Hs as ((d & L1 & L2) & Hrest). rewrite P1, (entry_write_file _ _ _ _ _ L1) in H. cbn [bind] in H.
      injection H as <-. rewrite P2, (entry_write_file _ _ _ _ _ L2). cbn [bind].
      eexists. split; [reflexivity|]. unfold wrel. cbn [w_path w_off w_st]. rewrite Ho.
      split; [reflexivity|]. split; [reflexivity|]. split; [reflexivity|].
      apply (srel_set (w_st w1) (w_st w2)). split; [exists d; split; assumption|assumption].
  Qed.

  Lemma wrel_ev w1 w2 e :
    wrel w1 w2 -> bowl_ev_for idx e ->
    wrel (mkW (ev (w_st w1) e) (w_path w1) (w_off w1)) (mkW (ev (w_st w2) e) (w_path w2) (w_off w2)).
  Proof.
    intros (P1 & P2 & Ho & Hs) He. unfold wrel. cbn [w_path w_off w_st].
    split; [assumption|]. split; [assumption|]. split; [assumption|]. apply srel_ev; assumption.
  Qed.

  Lemma apply_range_rel w1 w2 f i s w1' :
    wrel w1 w2 -> apply_range bs oldC olds w1 f i s = Ok w1' ->
    exists w2', apply_range bs oldC olds w2 f i s = Ok w2' /\ wrel w1' w2'.
  Proof.
    intros Hw H. unfold apply_range in *.
    destruct (znth (c_files oldC) f) as [[pf fsz]|]; [|discriminate].
    destruct (znth olds f) as [d|]; [|discriminate].
    destruct (bs * i <? 0); [discriminate|].
    cbn [w_st w_path w_off] in *.
    refine (w_write_rel _ _ _ _ _ H).
    pose proof (wrel_ev _ _ (EvSize f) Hw I) as H1.
    pose proof (wrel_ev _ _ (EvRead f) H1 I) as H2.
    cbn [w_st w_path w_off] in H2. destruct Hw as (P1 & P2 & Ho & _).
    exact H2.
  Qed.

  Lemma apply_op_rel w1 w2 o w1' :
    wrel w1 w2 -> apply_op bs oldC olds w1 o = Ok w1' ->
    exists w2', apply_op bs oldC olds w2 o = Ok w2' /\ wrel w1' w2'.
  Proof.
    intros Hw H. unfold apply_op in *.
    destruct (so_type o =? T_BLOCK_RANGE); [eapply apply_range_rel; eassumption|].
    destruct (so_type o =? T_DATA); [eapply w_write_rel; eassumption|discriminate].
  Qed.

  Lemma relay_rel ms : forall w1 w2 r s1',
    wrel w1 w2 -> relay bs oldC olds ms w1 = Ok (r, s1') ->
    exists s2', relay bs oldC olds ms w2 = Ok (r, s2') /\ srel s1' s2'.
  Proof.
    induction ms as [|m ms IH]; intros w1 w2 r s1' Hw H; cbn [relay] in *; [discriminate|].
    destruct (so_type (as_so m) =? HEY).
    - injection H as <- <-. exists (w_st w2). split; [reflexivity|apply Hw].
    - destruct (negb (validate_op oldC (as_so m))); [discriminate|].
      destruct (apply_op bs oldC olds w1 (as_so m)) as [w1'| |] eqn:E; cbn [bind] in H; try discriminate.
      destruct (apply_op_rel _ _ _ _ Hw E) as (w2' & E2 & Hw').
      rewrite E2. cbn [bind]. eapply IH; eassumption.
  Qed.

  Lemma bs_apply_rel old off c w1 w2 off' w1' :
    wrel w1 w2 -> bs_apply old off c w1 = Ok (off', w1') ->
    exists w2', bs_apply old off c w2 = Ok (off', w2') /\ wrel w1' w2'.
  Proof.
    intros Hw H. unfold bs_apply in *.
    destruct ((off <? 0) || (off >? Z.of_nat (length old))); [discriminate|].
    destruct (off + Z.of_nat (length (ct_add c)) >? Z.of_nat (length old)); [discriminate|].
    destruct (w_write w1 (add_bytes (ct_add c) (skipn (Z.to_nat off) old))) as [wa| |] eqn:E1; cbn [bind] in H; try discriminate.
    destruct (w_write_rel _ _ _ _ Hw E1) as (wa2 & E1' & Hwa). rewrite E1'. cbn [bind].
    destruct (w_write wa (ct_copy c)) as [wb| |] eqn:E2; cbn [bind] in H; try discriminate.
    destruct (w_write_rel _ _ _ _ Hwa E2) as (wb2 & E2' & Hwb). rewrite E2'. cbn [bind].
    injection H as <- <-. exists wb2. split; [reflexivity|assumption].
  Qed.

  Lemma ctrl_loop_rel old ms : forall off w1 w2 r w1',
    wrel w1 w2 -> ctrl_loop old off ms w1 = Ok (r, w1') ->
    exists w2', ctrl_loop old off ms w2 = Ok (r, w2') /\ wrel w1' w2'.
  Proof.
    induction ms as [|m ms IH]; intros off w1 w2 r w1' Hw H; cbn [ctrl_loop] in *; [discriminate|].
    destruct (ct_eof (as_ct m)).
    - injection H as <- <-. exists w2. split; [reflexivity|assumption].
    - destruct (bs_apply old off (as_ct m) w1) as [[o' wa]| |] eqn:E; cbn [bind] in H; try discriminate.
      destruct (bs_apply_rel _ _ _ _ _ _ _ Hw E) as (wa2 & E' & Hwa). rewrite E'. cbn [bind fst snd] in *.
      eapply IH; eassumption.
  Qed.

  Lemma open_writer_rel s1 s2 w1 :
    srel s1 s2 -> open_writer newC s1 idx = Ok w1 ->
    exists w2, open_writer newC s2 idx = Ok w2 /\ wrel w1 w2.
  Proof.
    intros Hs H. unfold open_writer in *. rewrite Hidx in *.
    pose proof (srel_ev _ _ (EvWriter idx) Hs eq_refl) as Hs'.
    destruct (srel_ready _ _ Hs') as [Ra Rb].
    rewrite (entry_open_ready _ _ Ra) in H. rewrite (entry_open_ready _ _ Rb). cbn [bind] in *.
    injection H as <-. eexists. split; [reflexivity|].
    unfold wrel. cbn [w_path w_off w_st]. split; [reflexivity|]. split; [reflexivity|]. split; [reflexivity|].
    exact Hs'.
  Qed.

  Lemma transpose_rel s1 s2 tgt s1' :
    srel s1 s2 -> transpose oldC newC olds s1 idx tgt = Ok s1' ->
    exists s2', transpose oldC newC olds s2 idx tgt = Ok s2' /\ srel s1' s2'.
  Proof.
    intros Hs H. unfold transpose in *.
    destruct (pool_open oldC olds tgt) as [d| |]; cbn [bind] in *; try discriminate.
    rewrite Hidx in *.
    pose proof (srel_ev _ _ (EvTranspose idx tgt) Hs eq_refl) as Hs1.
    pose proof (srel_ev _ _ (EvRead tgt) Hs1 I) as Hs2.
    destruct (srel_ready _ _ Hs2) as [Ra Rb].
    rewrite (transpose_write_ready _ _ _ Ra) in H. rewrite (transpose_write_ready _ _ _ Rb). cbn [bind] in *.
    injection H as <-. eexists. split; [reflexivity|].
    apply (srel_set _ _ d) in Hs2. exact Hs2.
  Qed.

  Lemma process_rsync_rel ms s1 s2 r s1' :
    srel s1 s2 -> process_rsync bs oldC newC olds idx ms s1 = Ok (r, s1') ->
    exists s2', process_rsync bs oldC newC olds idx ms s2 = Ok (r, s2') /\ srel s1' s2'.
  Proof.
    intros Hs H. unfold process_rsync in *. destruct ms as [|m ms]; [discriminate|].
    destruct (negb (validate_op oldC (as_so m))); [discriminate|].
    destruct (is_full_file_op bs oldC newC idx (as_so m)) as [[|]| |]; cbn [bind] in *; try discriminate.
    - destruct (transpose oldC newC olds s1 idx (so_file (as_so m))) as [sa| |] eqn:E; cbn [bind] in H; try discriminate.
      destruct (transpose_rel _ _ _ _ Hs E) as (sb & E' & Hs'). rewrite E'. cbn [bind].
      destruct (until_marker ms) as [r'| |]; cbn [bind] in *; try discriminate.
      injection H as <- <-. exists sb. split; [reflexivity|assumption].
    - destruct (open_writer newC s1 idx) as [w1| |] eqn:E; cbn [bind] in H; try discriminate.
      destruct (open_writer_rel _ _ _ Hs E) as (w2 & E' & Hw). rewrite E'. cbn [bind].
      destruct (apply_op bs oldC olds w1 (as_so m)) as [w1'| |] eqn:Ea; cbn [bind] in H; try discriminate.
      destruct (apply_op_rel _ _ _ _ Hw Ea) as (w2' & Ea' & Hw'). rewrite Ea'. cbn [bind].
      eapply relay_rel; eassumption.
  Qed.

  Lemma process_bsdiff_rel ms s1 s2 r s1' :
    srel s1 s2 -> process_bsdiff oldC newC olds idx ms s1 = Ok (r, s1') ->
    exists s2', process_bsdiff oldC newC olds idx ms s2 = Ok (r, s2') /\ srel s1' s2'.
  Proof.
    intros Hs H. unfold process_bsdiff in *. destruct ms as [|m ms]; [discriminate|].
    destruct ((bh_target (as_bh m) <? 0) || (bh_target (as_bh m) >=? Z.of_nat (length (c_files oldC)))); [discriminate|].
    destruct (pool_open oldC olds (bh_target (as_bh m))) as [old| |]; cbn [bind] in *; try discriminate.
    pose proof (srel_ev _ _ (EvRead (bh_target (as_bh m))) Hs I) as Hs1.
    destruct (open_writer newC (ev s1 (EvRead (bh_target (as_bh m)))) idx) as [w1| |] eqn:E; cbn [bind] in H; try discriminate.
    destruct (open_writer_rel _ _ _ Hs1 E) as (w2 & E' & Hw). rewrite E'. cbn [bind].
    destruct (ctrl_loop old 0 ms w1) as [[r1 w1']| |] eqn:Ec; cbn [bind] in H; try discriminate.
    destruct (ctrl_loop_rel _ _ _ _ _ _ _ Hw Ec) as (w2' & Ec' & Hw'). rewrite Ec'. cbn [bind fst snd] in *.
    destruct r1 as [|m2 r2]; [discriminate|].
    destruct (negb (so_type (as_so m2) =? HEY)); [discriminate|].
    rewrite Hidx in *. destruct Hw' as (P1 & P2 & Ho & Hs').
    rewrite <- Ho. destruct (Z.of_nat (w_off w1') =? sz); [|discriminate].
    injection H as <- <-. exists (w_st w2'). split; [reflexivity|assumption].
  Qed.
End Rel.

(** the relation is reflexive on a state whose file is ready *)
Lemma srel_refl p idx t tr : file_ready t p -> srel p idx t t tr tr (mkP t tr) (mkP t tr).
Proof.
  intros (_ & _ & d & Hf). unfold srel. cbn [p_tree p_trace]. repeat split; try reflexivity.
  - exists d. split; assumption.
  - exists []. rewrite app_nil_r. repeat split. constructor.
Qed.

(* ------------------------------------------------------------------ processing vs skipping *)

Section Skip.
  Variables (bs : Z) (oldC newC : container) (olds : list (list byte)).

  Lemma until_marker_skip ms : until_marker ms = skip_rsync ms.
  Proof. induction ms as [|m ms IH]; cbn [until_marker skip_rsync]; [reflexivity|]. rewrite IH. reflexivity. Qed.

  Lemma relay_skip ms : forall w r s, relay bs oldC olds ms w = Ok (r, s) -> skip_rsync ms = Ok r.
  Proof.
    induction ms as [|m ms IH]; intros w r s H; cbn [relay skip_rsync] in *; [discriminate|].
    destruct (so_type (as_so m) =? HEY); [injection H as <- _; reflexivity|].
    destruct (negb (validate_op oldC (as_so m))); [discriminate|].
    destruct (apply_op bs oldC olds w (as_so m)) as [w'| |]; cbn [bind] in H; try discriminate.
    eapply IH; eassumption.
  Qed.

  Lemma apply_op_not_hey w o w' : apply_op bs oldC olds w o = Ok w' -> (so_type o =? HEY) = false.
  Proof.
    unfold apply_op. destruct (Z.eqb_spec (so_type o) T_BLOCK_RANGE) as [->|]; [reflexivity|].
    destruct (Z.eqb_spec (so_type o) T_DATA) as [->|]; [reflexivity|discriminate].
  Qed.

  Lemma process_rsync_skip idx ms s r s' :
    process_rsync bs oldC newC olds idx ms s = Ok (r, s') -> skip_rsync ms = Ok r.
  Proof.
    unfold process_rsync. destruct ms as [|m ms]; [discriminate|]. cbn [skip_rsync].
    destruct (negb (validate_op oldC (as_so m))); [discriminate|].
    destruct (is_full_file_op bs oldC newC idx (as_so m)) as [[|]| |] eqn:Ef; cbn [bind]; try discriminate.
    - assert (Et : (so_type (as_so m) =? HEY) = false).
      { unfold is_full_file_op in Ef. destruct (Z.eqb_spec (so_type (as_so m)) T_BLOCK_RANGE) as [->|]; [reflexivity|discriminate]. }
      rewrite Et. destruct (transpose oldC newC olds s idx (so_file (as_so m))); cbn [bind]; try discriminate.
      rewrite until_marker_skip. destruct (skip_rsync ms); cbn [bind]; try discriminate.
      intros [= <- _]. reflexivity.
    - destruct (open_writer newC s idx) as [w| |]; cbn [bind]; try discriminate.
      destruct (apply_op bs oldC olds w (as_so m)) as [w'| |] eqn:Ea; cbn [bind]; try discriminate.
      rewrite (apply_op_not_hey _ _ _ Ea). apply relay_skip.
  Qed.

  Lemma ctrl_loop_skip old ms : forall off w r w', ctrl_loop old off ms w = Ok (r, w') -> skip_ctrls ms = Ok r.
  Proof.
    induction ms as [|m ms IH]; intros off w r w' H; cbn [ctrl_loop skip_ctrls] in *; [discriminate|].
    destruct (ct_eof (as_ct m)); [injection H as <- _; reflexivity|].
    destruct (bs_apply old off (as_ct m) w) as [[o' wa]| |]; cbn [bind] in H; try discriminate.
    eapply IH; eassumption.
  Qed.

  Lemma process_bsdiff_skip idx ms s r s' :
    process_bsdiff oldC newC olds idx ms s = Ok (r, s') -> skip_bsdiff ms = Ok r.
  Proof.
    unfold process_bsdiff, skip_bsdiff. destruct ms as [|m ms]; [discriminate|].
    destruct ((bh_target (as_bh m) <? 0) || (bh_target (as_bh m) >=? Z.of_nat (length (c_files oldC)))); [discriminate|].
    destruct (pool_open oldC olds (bh_target (as_bh m))); cbn [bind]; try discriminate.
    destruct (open_writer newC _ idx) as [w| |]; cbn [bind]; try discriminate.
    destruct (ctrl_loop a 0 ms w) as [[r1 w1]| |] eqn:Ec; cbn [bind]; try discriminate.
    rewrite (ctrl_loop_skip _ _ _ _ _ _ Ec). cbn [bind fst snd].
    destruct r1 as [|m2 r2]; [discriminate|].
    destruct (so_type (as_so m2) =? HEY); cbn [negb]; [|discriminate].
    destruct (znth (c_files newC) idx) as [[pp size]|]; [|discriminate].
    destruct (Z.of_nat (w_off w1) =? size); [|discriminate].
    intros [= <- _]. reflexivity.
  Qed.
End Skip.

(* ------------------------------------------------------------------ after Prepare *)

(** every file of a well-formed container is ready in the tree Prepare lays out *)
Lemma prepared_ready c t0 j p sz :
  wf_container c -> (forall q, tlookup t0 q = tlookup (ctree c) q) ->
  znth (c_files c) j = Some (p, sz) ->
  file_ready t0 p /\ tlookup t0 p = Some (File (zeros (Z.to_nat sz))).
Proof.
  intros WF Ht Hj. apply znth_In in Hj.
  assert (Hpath : In p (c_paths c)) by (apply (file_in_paths c (p, sz)); assumption).
  destruct WF as (ND & NR & PC & SZ).
  assert (Hf : tlookup t0 p = Some (File (zeros (Z.to_nat sz)))).
  { rewrite Ht. apply ctree_file; [repeat split; assumption|assumption]. }
  split; [|assumption]. split; [intros ->; contradiction|]. split.
  - intros q Hq. rewrite Ht. apply ctree_dir. apply (PC p); assumption.
  - eexists. eassumption.
Qed.
