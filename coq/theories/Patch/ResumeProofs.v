(** Proofs about the resumable patcher of Patch/Resume.v.

    The entry writers enter through a contract [writer_ok] stated with ghost notions:
    [w_abs f w raw] the logical content written so far into source file [f], [winv] the
    writer's invariant, [raw_ok] what a working file may look like before a writer is opened
    on it from scratch, [covers f c raw raw'] "raw' agrees with raw on the region checkpoint c
    covers" (the crash model: arbitrary elsewhere), [finished f raw c] "raw is the completed
    working file of f and Commit turns it into c".  Patch/PlainWriter.v proves the contract
    for the fresh bowl's entry writer; for the overlay entry writer it is C14's
    "sessions" statement and stays a hypothesis here.

    Main results: [run_sim] (any run, whatever its save consumer does, stays related to the
    uninterrupted run and every checkpoint it offers is good), [resume_equiv_lemma] and
    [saves_happen_lemma]. *)
From Wharf Require Import Base.Prelude Patch.Resume.
From Coq Require Import ZifyBool ZifyNat ZifyN.

Section Proofs.
  Variables D C RAW WS WCK : Type.
  Variable dlen : D -> N.
  Variable blocksize : N.
  Variables tsize ssize : N -> N.
  Variable nfiles : N.
  Variable range_data : N -> N -> N -> D.
  Variable bs_data : N -> Z -> D -> D -> D.
  Variable w_open  : N -> option (N * WCK) -> RAW -> option (WS * RAW).
  Variable w_write : N -> WS -> RAW -> D -> WS * RAW.
  Variable w_save  : N -> WS -> RAW -> (N * WCK) * WS * RAW.
  Variable w_final : N -> WS -> RAW -> RAW.
  Variable w_tell  : WS -> N.
  Variable w_result : N -> RAW -> option C.
  Variable fresh : bool.
  Variable is_overlay : N -> bool.
  Variable prepare : N -> RAW -> RAW.
  Variable copy_old : N -> RAW.
  Variable old_content : N -> C.
  Variable emit : nat -> bool.
  Variable src_resume : nat -> nat -> option nat.

  (** ghost notions of the writer contract *)
  Variable capp : C -> D -> C.
  Variable cnil : C.
  Variable w_abs : N -> WS -> RAW -> C.
  Variable winv : N -> WS -> RAW -> Prop.
  Variable raw_ok : N -> RAW -> Prop.
  Variable covers : N -> N * WCK -> RAW -> RAW -> Prop.
  Variable finished : N -> RAW -> C -> Prop.

  Record writer_ok : Prop := {
    W_open_new : forall f raw, raw_ok f raw ->
      exists w raw', w_open f None raw = Some (w, raw') /\ winv f w raw' /\ w_abs f w raw' = cnil /\ w_tell w = 0%N;
    W_write : forall f w raw d, winv f w raw ->
      winv f (fst (w_write f w raw d)) (snd (w_write f w raw d)) /\
      w_abs f (fst (w_write f w raw d)) (snd (w_write f w raw d)) = capp (w_abs f w raw) d /\
      w_tell (fst (w_write f w raw d)) = (w_tell w + dlen d)%N;
    W_save : forall f w raw, winv f w raw ->
      let '(c, w', raw') := w_save f w raw in
      winv f w' raw' /\ w_abs f w' raw' = w_abs f w raw /\ w_tell w' = w_tell w /\ fst c = w_tell w /\
      forall raw2, covers f c raw' raw2 -> raw_ok f raw2 ->
        exists w2 raw2', w_open f (Some c) raw2 = Some (w2, raw2') /\ winv f w2 raw2' /\
                         w_abs f w2 raw2' = w_abs f w raw /\ w_tell w2 = w_tell w;
    W_final : forall f w raw, winv f w raw -> w_tell w = ssize f -> finished f (w_final f w raw) (w_abs f w raw);
    W_result : forall f raw c, finished f raw c -> w_result f raw = Some c;
    (* creation of a fresh bowl (tlc.Prepare) and its Transpose *)
    P_ok : forall f raw, fresh = true -> raw_ok f (prepare f raw);
    P_covers : forall f c raw raw2, fresh = true -> covers f c raw raw2 -> (fst c <= ssize f)%N -> covers f c raw (prepare f raw2);
    P_fin : forall f raw c, fresh = true -> finished f raw c -> prepare f raw = raw;
    P_copy : forall f t, fresh = true -> tsize t = ssize f -> finished f (copy_old t) (old_content t)
  }.

  Hypothesis HW : writer_ok.
  (** C13: resuming the message reader from a checkpoint whose source part is not ahead of
      its reader part restarts exactly at the reader offset (next unread message) *)
  Hypothesis H_wire : forall off src, src <= off -> src_resume off src = Some off.

  Local Notation state := (state RAW WS WCK).
  Local Notation result := (result RAW WS WCK).
  Local Notation stepG := (step D RAW WS WCK dlen blocksize tsize ssize range_data bs_data w_open w_write w_save w_final w_tell fresh is_overlay copy_old emit).
  Local Notation runG := (run D RAW WS WCK dlen blocksize tsize ssize nfiles range_data bs_data w_open w_write w_save w_final w_tell fresh is_overlay copy_old emit).
  Local Notation never := (fun _ : nat => false).
  (** the uninterrupted application: a consumer that never asks to save *)
  Local Notation stepI := (stepG never never).
  Local Notation runI := (runG never never).
  Local Notation resumeG := (resume_state RAW WS WCK w_open fresh is_overlay prepare src_resume).
  Local Notation markG := (mark fresh is_overlay).
  Local Notation createG := (bowl_create RAW fresh prepare).
  Local Notation commitG := (commit C RAW WS WCK nfiles w_result fresh old_content).
  Local Notation at_endG := (at_end RAW WS WCK nfiles).

  (** ** the relation between any run and the uninterrupted one *)
  Definition wrel (f : N) (w1 : WS) (r1 : RAW) (w2 : WS) (r2 : RAW) : Prop :=
    winv f w1 r1 /\ winv f w2 r2 /\ w_abs f w1 r1 = w_abs f w2 r2 /\ w_tell w1 = w_tell w2.

  Definition ph_rel (f : N) (d1 d2 : N -> RAW) (p1 p2 : phase WS) : Prop :=
    match p1, p2 with
    | PFile _, PFile _ | PRsFirst _, PRsFirst _ | PRsSkip _, PRsSkip _ | PBsHeader _, PBsHeader _ => True
    | PRsLoop _ w1, PRsLoop _ w2 => wrel f w1 (d1 f) w2 (d2 f)
    | PBsLoop _ w1 o1 t1, PBsLoop _ w2 o2 t2 => wrel f w1 (d1 f) w2 (d2 f) /\ o1 = o2 /\ t1 = t2
    | PBsEnd _ w1, PBsEnd _ w2 => wrel f w1 (d1 f) w2 (d2 f)
    | _, _ => False
    end.

  (** files below [done_below] are completed, files from [first_later] on are untouched *)
  Definition done_below (p : phase WS) (f : N) : N :=
    match p with PRsSkip _ => (f + 1)%N | _ => f end.
  Definition first_later (p : phase WS) (f : N) : N :=
    match p with PFile _ | PRsFirst _ | PBsHeader _ => f | _ => (f + 1)%N end.
  Definition has_writer (p : phase WS) : bool :=
    match p with PRsLoop _ _ | PBsLoop _ _ _ _ | PBsEnd _ _ => true | _ => false end.

  (** does Commit look at the working file of [g]? *)
  Definition uses_disk (b : bowlck) (g : N) : bool :=
    (fresh || existsb (N.eqb g) (bk_ovl b) || existsb (N.eqb g) (bk_move b))%bool.

  Record R (s S : state) : Prop := {
    R_ph : ph_rel (s_file _ _ _ s) (s_disk _ _ _ s) (s_disk _ _ _ S) (s_ph _ _ _ s) (s_ph _ _ _ S);
    R_file : s_file _ _ _ s = s_file _ _ _ S;
    R_pos : r_pos (s_rd _ _ _ s) = r_pos (s_rd _ _ _ S);
    R_bowl : s_bowl _ _ _ s = s_bowl _ _ _ S;
    R_done : forall g, (g < done_below (s_ph _ _ _ s) (s_file _ _ _ s))%N -> uses_disk (s_bowl _ _ _ s) g = true ->
               exists c, finished g (s_disk _ _ _ s g) c /\ finished g (s_disk _ _ _ S g) c;
    R_later : forall g, (first_later (s_ph _ _ _ s) (s_file _ _ _ s) <= g)%N ->
               raw_ok g (s_disk _ _ _ s g) /\ raw_ok g (s_disk _ _ _ S g);
    R_src : r_src (s_rd _ _ _ s) <= r_pos (s_rd _ _ _ s);
    R_fresh : fresh = true -> s_bowl _ _ _ s = bowl0;
    R_marks : forall g, (existsb (N.eqb g) (bk_ovl (s_bowl _ _ _ s)) || existsb (N.eqb g) (bk_move (s_bowl _ _ _ s)))%bool = true ->
               (g < first_later (s_ph _ _ _ s) (s_file _ _ _ s))%N;
    R_cur : has_writer (s_ph _ _ _ s) = true -> markG (s_file _ _ _ s) (s_bowl _ _ _ s) = s_bowl _ _ _ s
  }.

  (** ** well-formedness of the patch with respect to the declared sizes: no series writes
      beyond the size of its file and an rsync series ends exactly at it (the bsdiff series is
      checked by the patcher itself) *)
  Definition sized_step (S : state) (m : msg D) : Prop :=
    match s_ph _ _ _ S with
    | PRsLoop _ w => (w_tell w <= ssize (s_file _ _ _ S))%N /\ (m = MEnd -> w_tell w = ssize (s_file _ _ _ S))
    | PBsLoop _ w _ _ => (w_tell w <= ssize (s_file _ _ _ S))%N
    | PBsEnd _ w => (w_tell w <= ssize (s_file _ _ _ S))%N
    | _ => True
    end.

  Fixpoint sized_run (S : state) (ms : list (msg D)) : Prop :=
    if at_endG S then True else
    match ms with
    | [] => True
    | m :: ms' => sized_step S m /\ match stepI S m with Running _ _ _ S' => sized_run S' ms' | _ => True end
    end.

  (** ** the crash model: [d'] is a possible disk after a crash that happened when the
      checkpoint [ck] had been taken on disk [d] - equal to [d] on the completed files Commit
      will look at, agreeing with [d] on the covered region of the in-progress file, arbitrary
      (within what a working file may look like once the new bowl is created) elsewhere *)
  Definition crash_ok (ck : ckpt WCK) (d d' : N -> RAW) : Prop :=
    covers (ck_file _ ck) (ck_woff _ ck, ck_wdata _ ck) (d (ck_file _ ck)) (d' (ck_file _ ck)) /\
    (forall g, (g < ck_file _ ck)%N -> uses_disk (ck_bowl _ ck) g = true -> d' g = d g) /\
    (forall g, (ck_file _ ck <= g)%N -> raw_ok g (createG d' g)).

  (** ** small facts *)
  Lemma upd_same : forall A (d : N -> A) f v, upd d f v f = v.
  Proof. intros. unfold upd. now rewrite N.eqb_refl. Qed.

  Lemma upd_other : forall A (d : N -> A) f v g, g <> f -> upd d f v g = d g.
  Proof. intros. unfold upd. destruct (N.eqb_spec g f); congruence. Qed.

  Lemma existsb_app1 : forall (i g : N) l, existsb (N.eqb g) (l ++ [i]) = (existsb (N.eqb g) l || N.eqb g i)%bool.
  Proof. intros. rewrite existsb_app. simpl. now rewrite orb_false_r. Qed.

  Lemma mark_once_in : forall i l, existsb (N.eqb i) (mark_once i l) = true.
  Proof.
    intros. unfold mark_once. destruct (existsb (N.eqb i) l) eqn:E; auto.
    rewrite existsb_app1, N.eqb_refl. apply orb_true_r.
  Qed.

  Lemma mark_once_other : forall i g l, g <> i -> existsb (N.eqb g) (mark_once i l) = existsb (N.eqb g) l.
  Proof.
    intros. unfold mark_once. destruct (existsb (N.eqb i) l); auto.
    rewrite existsb_app1. destruct (N.eqb_spec g i); try congruence. apply orb_false_r.
  Qed.

  Lemma mark_once_idem : forall i l, existsb (N.eqb i) l = true -> mark_once i l = l.
  Proof. intros. unfold mark_once. now rewrite H. Qed.

  Lemma mark_idem : forall f b, markG f (markG f b) = markG f b.
  Proof.
    intros. unfold mark. destruct fresh; auto. destruct (is_overlay f); simpl; f_equal; apply mark_once_idem, mark_once_in.
  Qed.

  Lemma mark_trans : forall f b, bk_trans (markG f b) = bk_trans b.
  Proof. intros. unfold mark. destruct fresh; auto. destruct (is_overlay f); auto. Qed.

  Lemma mark_fresh : forall f b, fresh = true -> markG f b = b.
  Proof. intros. unfold mark. now rewrite H. Qed.

  Lemma uses_disk_mark_other : forall f g b, g <> f -> uses_disk (markG f b) g = uses_disk b g.
  Proof.
    intros. unfold uses_disk, mark. destruct fresh; auto. simpl.
    destruct (is_overlay f); simpl; now rewrite mark_once_other.
  Qed.

  Lemma marks_mark : forall f g b,
    (existsb (N.eqb g) (bk_ovl (markG f b)) || existsb (N.eqb g) (bk_move (markG f b)))%bool = true ->
    g = f \/ (existsb (N.eqb g) (bk_ovl b) || existsb (N.eqb g) (bk_move b))%bool = true.
  Proof.
    intros f g b. destruct (N.eq_dec g f) as [->|Hne]; auto. intros H. right.
    unfold mark in H. destruct fresh; auto. destruct (is_overlay f); simpl in H; now rewrite mark_once_other in H.
  Qed.

  (** ** the relation in the phases that hold an open writer *)
  Local Notation sfile := (s_file RAW WS WCK).
  Local Notation sdisk := (s_disk RAW WS WCK).
  Local Notation sbowl := (s_bowl RAW WS WCK).
  Local Notation srd := (s_rd RAW WS WCK).
  Local Notation sph := (s_ph RAW WS WCK).
  Local Notation soffers := (s_offers RAW WS WCK).

  Definition marked (b : bowlck) (g : N) : bool :=
    (existsb (N.eqb g) (bk_ovl b) || existsb (N.eqb g) (bk_move b))%bool.

  Record Rw (s : state) (w : WS) (S : state) (W : WS) : Prop := {
    Rw_w : wrel (sfile s) w (sdisk s (sfile s)) W (sdisk S (sfile s));
    Rw_file : sfile s = sfile S;
    Rw_pos : r_pos (srd s) = r_pos (srd S);
    Rw_bowl : sbowl s = sbowl S;
    Rw_done : forall g, (g < sfile s)%N -> uses_disk (sbowl s) g = true ->
               exists c, finished g (sdisk s g) c /\ finished g (sdisk S g) c;
    Rw_later : forall g, (sfile s + 1 <= g)%N -> raw_ok g (sdisk s g) /\ raw_ok g (sdisk S g);
    Rw_src : r_src (srd s) <= r_pos (srd s);
    Rw_fresh : fresh = true -> sbowl s = bowl0;
    Rw_marks : forall g, marked (sbowl s) g = true -> (g < sfile s + 1)%N;
    Rw_cur : markG (sfile s) (sbowl s) = sbowl s
  }.

  Definition ph_writer (p : phase WS) : option WS :=
    match p with PRsLoop _ w | PBsLoop _ w _ _ | PBsEnd _ w => Some w | _ => None end.

  Definition same_shape (p1 p2 : phase WS) : Prop :=
    match p1, p2 with
    | PRsLoop _ _, PRsLoop _ _ | PBsEnd _ _, PBsEnd _ _ => True
    | PBsLoop _ _ o1 t1, PBsLoop _ _ o2 t2 => o1 = o2 /\ t1 = t2
    | _, _ => False
    end.

  Lemma R_to_Rw : forall s S w, R s S -> ph_writer (sph s) = Some w ->
    exists W, ph_writer (sph S) = Some W /\ Rw s w S W /\ same_shape (sph s) (sph S).
  Proof.
    intros s S w [Hph Hf Hp Hb Hd Hl Hs Hfr Hm Hc] Hw.
    destruct (sph s) eqn:E1; simpl in Hw; try discriminate; inversion Hw; subst;
      destruct (sph S) eqn:E2; simpl in Hph; try contradiction;
      (eexists; split; [reflexivity|]; split; [constructor; simpl in *; intuition auto | simpl; intuition auto]).
  Qed.

  Lemma Rw_to_R : forall s S w W p1 p2, Rw s w S W -> ph_writer p1 = Some w -> ph_writer p2 = Some W -> same_shape p1 p2 ->
    R (set_ph _ _ _ s p1) (set_ph _ _ _ S p2).
  Proof.
    intros s S w W p1 p2 [Hw Hf Hp Hb Hd Hl Hs Hfr Hm Hc] H1 H2 Hsh.
    destruct p1; simpl in H1; try discriminate; inversion H1; subst;
      destruct p2; simpl in H2, Hsh; try contradiction; try discriminate; inversion H2; subst;
      constructor; simpl; auto.
  Qed.

  Lemma Rw_ext : forall s s' w S S' W,
    Rw s w S W ->
    sfile s' = sfile s -> sdisk s' = sdisk s -> sbowl s' = sbowl s -> srd s' = srd s ->
    sfile S' = sfile S -> sdisk S' = sdisk S -> sbowl S' = sbowl S -> r_pos (srd S') = r_pos (srd S) ->
    Rw s' w S' W.
  Proof.
    intros s s' w S S' W [Hw Hf Hp Hb Hd Hl Hs Hfr Hm Hc] E1 E2 E3 E4 E5 E6 E7 E8.
    constructor; rewrite ?E1, ?E2, ?E3, ?E4, ?E5, ?E6, ?E7, ?E8; auto.
  Qed.

  Lemma rd_read_pos : forall r, r_pos (rd_read emit r) = Datatypes.S (r_pos r).
  Proof. intros. unfold rd_read. destruct (r_want r && emit (r_pos r))%bool; reflexivity. Qed.

  Lemma rd_read_src : forall r, r_src r <= r_pos r -> r_src (rd_read emit r) <= r_pos (rd_read emit r).
  Proof. intros. unfold rd_read. destruct (r_want r && emit (r_pos r))%bool; simpl; lia. Qed.

  Lemma Rw_read : forall s w S W, Rw s w S W -> Rw (read1 _ _ _ emit s) w (read1 _ _ _ emit S) W.
  Proof.
    intros s w S W [Hw Hf Hp Hb Hd Hl Hs Hfr Hm Hc]. constructor; simpl; auto.
    - now rewrite !rd_read_pos, Hp.
    - now apply rd_read_src.
  Qed.

  Lemma write1_eq : forall (s : state) w d,
    write1 D _ _ _ w_write s w d =
    (mkst _ _ _ (sph s) (sfile s) (srd s) (sbowl s)
          (upd (sdisk s) (sfile s) (snd (w_write (sfile s) w (sdisk s (sfile s)) d))) (s_asked _ _ _ s) (soffers s),
     fst (w_write (sfile s) w (sdisk s (sfile s)) d)).
  Proof. intros. unfold write1. destruct (w_write (sfile s) w (sdisk s (sfile s)) d); reflexivity. Qed.

  Lemma Rw_write : forall s w S W d, Rw s w S W ->
    Rw (fst (write1 D _ _ _ w_write s w d)) (snd (write1 D _ _ _ w_write s w d))
       (fst (write1 D _ _ _ w_write S W d)) (snd (write1 D _ _ _ w_write S W d)).
  Proof.
    intros s w S W d [Hw Hf Hp Hb Hd Hl Hs Hfr Hm Hc]. rewrite !write1_eq. simpl. rewrite <- Hf.
    destruct Hw as (I1 & I2 & Ha & Ht).
    destruct (W_write HW (sfile s) w (sdisk s (sfile s)) d I1) as (J1 & J2 & J3).
    destruct (W_write HW (sfile s) W (sdisk S (sfile s)) d I2) as (K1 & K2 & K3).
    constructor; simpl; auto.
    - rewrite !upd_same. repeat split; auto. now rewrite J2, K2, Ha. now rewrite J3, K3, Ht.
    - intros g Hg Hu. rewrite !upd_other by lia. auto.
    - intros g Hg. rewrite !upd_other by lia. auto.
  Qed.

  (** ** checkpoints that are good to resume from *)
  Definition good_at (S : state) (ck : ckpt WCK) (d : N -> RAW) : Prop :=
    forall d', crash_ok ck d d' -> exists sr, resumeG ck d' = Some sr /\ R sr S.

  Definition offers_step (S s s' : state) : Prop :=
    soffers s' = soffers s \/ exists ck d, soffers s' = (ck, d) :: soffers s /\ good_at S ck d.

  Definition phase_of (bs : bool) (w : WS) (oo : Z) (t : N) : phase WS :=
    if bs then PBsLoop _ w oo t else PRsLoop _ w.

  Lemma phase_of_writer : forall bs w oo t, ph_writer (phase_of bs w oo t) = Some w.
  Proof. destruct bs; reflexivity. Qed.

  Lemma phase_of_shape : forall bs w1 w2 oo t, same_shape (phase_of bs w1 oo t) (phase_of bs w2 oo t).
  Proof. destruct bs; simpl; auto. Qed.

  Lemma fresh_cases : fresh = true \/ fresh = false.
  Proof. destruct fresh; auto. Qed.

  Lemma create_other : forall d g, fresh = false -> createG d g = d g.
  Proof. intros. unfold bowl_create. now rewrite H. Qed.

  Lemma create_fresh : forall d g, fresh = true -> createG d g = prepare g (d g).
  Proof. intros. unfold bowl_create. now rewrite H. Qed.

  (** the checkpoint assembled at a save point is good: a brand-new patcher and bowl on any
      crash disk end up related to the uninterrupted run at the same message *)
  Lemma good_offer : forall s w S W bs oo t mc c w1 raw1,
    Rw s w S W -> sph S = phase_of bs W oo t -> (w_tell W <= ssize (sfile S))%N ->
    mc_src mc <= mc_off mc -> mc_off mc = r_pos (srd s) ->
    w_save (sfile s) w (sdisk s (sfile s)) = (c, w1, raw1) ->
    good_at S (mkck _ mc (sfile s) bs (sbowl s) (fst c) (snd c) oo t) (upd (sdisk s) (sfile s) raw1).
  Proof.
    intros s w S W bs oo t mc c w1 raw1 HR HphS Hsz Hmc Hoff Esave d' (Hcov & Hdone & Hlater).
    simpl in Hcov, Hdone, Hlater. rewrite upd_same in Hcov.
    destruct HR as [Hw Hf Hp Hb Hd Hl Hs Hfr Hm Hc].
    destruct Hw as (I1 & I2 & Ha & Ht).
    pose proof (W_save HW (sfile s) w (sdisk s (sfile s)) I1) as HS. rewrite Esave in HS.
    destruct HS as (J1 & J2 & J3 & J4 & Hopen).
    assert (Hcov' : covers (sfile s) c raw1 (createG d' (sfile s))).
    { destruct fresh_cases as [Efr|Efr].
      - rewrite create_fresh by auto. apply (P_covers HW); auto.
        + now destruct c.
        + rewrite J4, Ht, Hf. exact Hsz.
      - rewrite create_other by auto. now destruct c. }
    destruct (Hopen (createG d' (sfile s)) Hcov' (Hlater (sfile s) (N.le_refl _))) as (w2 & raw2 & Eopen & K1 & K2 & K3).
    unfold resume_state. simpl. rewrite (H_wire _ _ Hmc). unfold open1. simpl.
    replace (fst c, snd c) with c by now destruct c. rewrite Eopen.
    eexists. split; [reflexivity|].
    assert (Hbowl : markG (sfile s) (if fresh then bowl0 else sbowl s) = sbowl s).
    { replace (if fresh then bowl0 else sbowl s) with (sbowl s); [exact Hc|].
      destruct fresh_cases as [Efr|Efr]; rewrite Efr; auto. }
    unfold set_ph. simpl. rewrite Hbowl.
    replace (if bs then PBsLoop WS w2 oo t else PRsLoop WS w2) with (phase_of bs w2 oo t) by reflexivity.
    assert (HRw : Rw (mkst _ _ _ (PFile _) (sfile s) (mkrd (mc_off mc) Idle false 0) (sbowl s)
                        (upd (createG d') (sfile s) raw2) 0 []) w2 S W).
    { constructor; simpl; auto.
      - rewrite upd_same. repeat split; auto. now rewrite K2. now rewrite K3.
      - now rewrite Hoff.
      - intros g Hg Hu. rewrite upd_other by lia.
        destruct (Hd g Hg Hu) as (c0 & F1 & F2). exists c0. split; auto.
        destruct fresh_cases as [Efr|Efr].
        + rewrite create_fresh by auto. rewrite Hdone by auto. rewrite upd_other by lia. now rewrite (P_fin HW _ _ _ Efr F1).
        + rewrite create_other by auto. rewrite Hdone by auto. now rewrite upd_other by lia.
      - intros g Hg. rewrite upd_other by lia. split; [apply Hlater; lia | apply Hl; auto].
      - lia. }
    assert (HwS : ph_writer (sph S) = Some W) by (rewrite HphS; apply phase_of_writer).
    assert (Hsh : same_shape (phase_of bs w2 oo t) (sph S)) by (rewrite HphS; apply phase_of_shape).
    pose proof (Rw_to_R _ _ _ _ _ _ HRw (phase_of_writer bs w2 oo t) HwS Hsh) as HRR.
    replace (set_ph _ _ _ S (sph S)) with S in HRR by (destruct S; reflexivity).
    exact HRR.
  Qed.

  Lemma pop_want : forall r o rd', rd_pop (rd_want r) = (o, rd') ->
    r_pos rd' = r_pos r /\ r_src rd' = r_src r /\
    match o with Some mc => mc_off mc = r_pos r /\ mc_src mc = r_src r | None => True end.
  Proof.
    intros [p st wn sr] o rd'. unfold rd_pop, rd_want. destruct st; simpl; intros H; inversion H; subst; simpl; auto.
  Qed.

  (** the save block keeps the relation, and what it hands to the consumer is good *)
  Lemma save_sim : forall sched stop s w S W bs oo t s1 w1 st,
    Rw s w S W -> sph S = phase_of bs W oo t -> (w_tell W <= ssize (sfile S))%N ->
    save_point _ _ _ w_save sched stop bs w oo t s = (s1, w1, st) ->
    Rw s1 w1 S W /\ sph s1 = sph s /\ offers_step S s s1.
  Proof.
    intros sched stop s w S W bs oo t s1 w1 st HR HphS Hsz. unfold save_point.
    destruct (sched (s_asked _ _ _ s)).
    - destruct (rd_pop (rd_want (srd s))) as [[mc|] rd'] eqn:Epop;
        destruct (pop_want _ _ _ Epop) as (Q1 & Q2 & Q3).
      + destruct Q3 as (Q3 & Q4).
        destruct (w_save (sfile s) w (sdisk s (sfile s))) as [[c w'] raw'] eqn:Esave.
        intros H; inversion H; subst; clear H.
        assert (Hmc : mc_src mc <= mc_off mc) by (rewrite Q3, Q4; apply (Rw_src _ _ _ _ HR)).
        pose proof (good_offer _ _ _ _ bs oo t mc _ _ _ HR HphS Hsz Hmc Q3 Esave) as Hgood.
        destruct HR as [Hw Hf Hp Hb Hd Hl Hs Hfr Hm Hc].
        destruct Hw as (I1 & I2 & Ha & Ht).
        pose proof (W_save HW (sfile s) w (sdisk s (sfile s)) I1) as HS. rewrite Esave in HS.
        destruct HS as (J1 & J2 & J3 & J4 & _).
        split; [|split]; [|reflexivity|].
        * constructor; simpl; auto.
          -- rewrite upd_same. repeat split; auto. congruence. congruence.
          -- congruence.
          -- intros g Hg Hu. rewrite upd_other by lia. auto.
          -- intros g Hg. rewrite upd_other by lia. auto.
          -- lia.
        * right. simpl. eexists _, _. split; [reflexivity|]. exact Hgood.
      + intros H; inversion H; subst; clear H.
        split; [|split]; [|reflexivity|left; reflexivity].
        destruct HR as [Hw Hf Hp Hb Hd Hl Hs Hfr Hm Hc]. constructor; simpl; auto; try congruence; try lia.
    - intros H; inversion H; subst; clear H.
      split; [|split]; [|reflexivity|left; reflexivity].
      destruct HR as [Hw Hf Hp Hb Hd Hl Hs Hfr Hm Hc]. constructor; simpl; auto.
  Qed.

  Lemma save_ideal : forall (S : state) W bs oo t,
    save_point _ _ _ w_save never never bs W oo t S =
    (mkst _ _ _ (sph S) (sfile S) (srd S) (sbowl S) (sdisk S) (Datatypes.S (s_asked _ _ _ S)) (soffers S), W, false).
  Proof. reflexivity. Qed.

  Lemma finalize1_eq : forall (s : state) w,
    finalize1 _ _ _ w_final s w =
    mkst _ _ _ (sph s) (sfile s) (srd s) (sbowl s)
         (upd (sdisk s) (sfile s) (w_final (sfile s) w (sdisk s (sfile s)))) (s_asked _ _ _ s) (soffers s).
  Proof. reflexivity. Qed.

  Lemma Rw_final : forall s w S W, Rw s w S W -> w_tell W = ssize (sfile S) ->
    R (next_file _ _ _ (finalize1 _ _ _ w_final s w)) (next_file _ _ _ (finalize1 _ _ _ w_final S W)).
  Proof.
    intros s w S W [Hw Hf Hp Hb Hd Hl Hs Hfr Hm Hc] Hsz. destruct Hw as (I1 & I2 & Ha & Ht).
    constructor; simpl; auto; try congruence.
    - intros g Hg Hu. rewrite <- Hf. destruct (N.eq_dec g (sfile s)) as [->|Hne].
      + rewrite !upd_same. exists (w_abs (sfile s) w (sdisk s (sfile s))). split.
        * apply (W_final HW); auto. congruence.
        * rewrite Ha. apply (W_final HW); auto. congruence.
      + rewrite !upd_other by auto. apply Hd; auto. lia.
    - intros g Hg. rewrite <- Hf. rewrite !upd_other by lia. apply Hl. lia.
  Qed.

  Lemma R_read : forall s S, R s S -> R (read1 _ _ _ emit s) (read1 _ _ _ emit S).
  Proof.
    intros s S [Hph Hf Hp Hb Hd Hl Hs Hfr Hm Hc]. constructor; simpl; auto.
    - now rewrite !rd_read_pos, Hp.
    - now apply rd_read_src.
  Qed.

  Lemma full_file_op_spec : forall f (m : msg D) t,
    is_full_file_op D blocksize tsize ssize f m = Some t -> tsize t = ssize f.
  Proof.
    intros f m t. destruct m; simpl; try discriminate.
    destruct (N.eqb bi 0 && N.eqb (tsize f0) (ssize f) && N.eqb span (num_blocks blocksize (ssize f)))%bool eqn:E; try discriminate.
    intros H; inversion H; subst. apply andb_prop in E. destruct E as (E & _). apply andb_prop in E. destruct E as (_ & E).
    now apply N.eqb_eq.
  Qed.

  (** GetWriter + Resume(nil) on a file nobody has opened yet *)
  Lemma open_new_sim : forall s S, R s S ->
    first_later (sph s) (sfile s) = sfile s -> done_below (sph s) (sfile s) = sfile s ->
    exists s2 w S2 W,
      open1 _ _ _ w_open fresh is_overlay s None = Some (s2, w) /\
      open1 _ _ _ w_open fresh is_overlay S None = Some (S2, W) /\
      Rw s2 w S2 W /\ w_tell W = 0%N /\ sph s2 = sph s /\ sph S2 = sph S /\ soffers s2 = soffers s.
  Proof.
    intros s S [Hph Hf Hp Hb Hd Hl Hs Hfr Hm Hc] Efl Edb. rewrite Efl in Hl, Hm. rewrite Edb in Hd.
    destruct (Hl (sfile s) (N.le_refl _)) as (O1 & O2).
    destruct (W_open_new HW _ _ O1) as (w & raw1 & E1 & I1 & A1 & T1).
    destruct (W_open_new HW _ _ O2) as (W & raw2 & E2 & I2 & A2 & T2).
    unfold open1. rewrite <- Hf, E1, E2. eexists _, w, _, W. split; [reflexivity|]. split; [reflexivity|].
    split; [|simpl; auto].
    constructor; simpl; auto.
    - rewrite !upd_same. repeat split; auto; congruence.
    - congruence.
    - intros g Hg Hu. rewrite !upd_other by lia. rewrite uses_disk_mark_other in Hu by lia. auto.
    - intros g Hg. rewrite !upd_other by lia. apply Hl. lia.
    - intros Efr. rewrite mark_fresh by auto. auto.
    - intros g Hg. apply marks_mark in Hg. destruct Hg as [->|Hg]; [lia|]. apply Hm in Hg. lia.
    - apply mark_idem.
  Qed.

  Lemma R_set_ph : forall s S p, R s S -> ph_writer p = None ->
    done_below p (sfile s) = done_below (sph s) (sfile s) ->
    first_later p (sfile s) = first_later (sph s) (sfile s) ->
    R (set_ph _ _ _ s p) (set_ph _ _ _ S p).
  Proof.
    intros s S p [Hph Hf Hp Hb Hd Hl Hs Hfr Hm Hc] Hw E1 E2.
    constructor; simpl; auto; try (rewrite ?E1, ?E2; auto; fail).
    - destruct p; simpl in *; auto; discriminate.
    - destruct p; simpl in *; try discriminate.
  Qed.

  Lemma R_next_skip : forall s S, R s S -> sph s = PRsSkip _ -> R (next_file _ _ _ s) (next_file _ _ _ S).
  Proof.
    intros s S [Hph Hf Hp Hb Hd Hl Hs Hfr Hm Hc] E. rewrite E in *. simpl in *.
    constructor; simpl; auto; try congruence.
  Qed.

  Definition sim_result (stop : nat -> bool) (S S' s : state) (r : result) : Prop :=
    match r with
    | Running _ _ _ s' => R s' S' /\ offers_step S s s'
    | Stopped _ _ _ s' => offers_step S s s' /\ exists j, stop j = true
    | _ => False
    end.

  Lemma save_stop : forall sched stop (s : state) w bs oo t s1 w1,
    save_point _ _ _ w_save sched stop bs w oo t s = (s1, w1, true) -> exists j, stop j = true.
  Proof.
    intros sched stop s w bs oo t s1 w1. unfold save_point.
    destruct (sched (s_asked _ _ _ s)); [|intros H; inversion H].
    destruct (rd_pop (rd_want (srd s))) as [[mc|] rd']; [|intros H; inversion H].
    destruct (w_save (sfile s) w (sdisk s (sfile s))) as [[c w'] raw'].
    intros H; inversion H. eauto.
  Qed.

  Lemma set_ph_offers : forall (s : state) p, soffers (set_ph _ _ _ s p) = soffers s.
  Proof. reflexivity. Qed.

  Lemma offers_step_ext : forall S s s1 s2, offers_step S s s1 -> soffers s2 = soffers s1 -> offers_step S s s2.
  Proof. intros S s s1 s2 [H|(ck & d & H & G)] E; [left|right; exists ck, d]; rewrite E; auto. Qed.

  Lemma write_sim : forall s w S W d s3 w3 S3 W3 p1 p2,
    Rw s w S W ->
    write1 D _ _ _ w_write s w d = (s3, w3) -> write1 D _ _ _ w_write S W d = (S3, W3) ->
    ph_writer p1 = Some w3 -> ph_writer p2 = Some W3 -> same_shape p1 p2 ->
    R (set_ph _ _ _ s3 p1) (set_ph _ _ _ S3 p2) /\ soffers s3 = soffers s.
  Proof.
    intros s w S W d s3 w3 S3 W3 p1 p2 HR E1 E2 H1 H2 Hsh.
    pose proof (Rw_write _ _ _ _ d HR) as H. rewrite E1, E2 in H. simpl in H.
    split; [eapply Rw_to_R; eauto|].
    rewrite write1_eq in E1. inversion E1; subst. reflexivity.
  Qed.

  Lemma loop_rs_sim : forall sched stop s S m S' w W,
    sph s = PRsLoop _ w -> sph S = PRsLoop _ W -> Rw s w S W ->
    stepI S m = Running _ _ _ S' -> sized_step S m -> sim_result stop S S' s (stepG sched stop s m).
  Proof.
    intros sched stop s S m S' w W Es ES HRw Hideal Hsz.
    unfold sized_step in Hsz. rewrite ES in Hsz. destruct Hsz as (Hsz & HszEnd).
    unfold step in *. rewrite Es. rewrite ES in Hideal. rewrite save_ideal in Hideal.
    destruct (save_point _ _ _ w_save sched stop false w 0%Z 0%N s) as [[s1 w1] st] eqn:Esave.
    destruct (save_sim _ _ _ _ _ _ false 0%Z 0%N _ _ _ HRw ES Hsz Esave) as (HR1 & Hph1 & Hoff).
    destruct st; [split; [exact Hoff | eapply save_stop; eauto]|].
    set (S1 := mkst _ _ _ (sph S) (sfile S) (srd S) (sbowl S) (sdisk S) (Datatypes.S (s_asked _ _ _ S)) (soffers S)) in *.
    assert (HR1' : Rw s1 w1 S1 W) by (eapply Rw_ext; eauto).
    apply Rw_read in HR1'.
    destruct m; try discriminate.
    - (* MRange *)
      destruct (write1 D _ _ _ w_write (read1 _ _ _ emit S1) W (range_data f bi span)) as [S3 W3] eqn:E2.
      destruct (write1 D _ _ _ w_write (read1 _ _ _ emit s1) w1 (range_data f bi span)) as [s3 w3] eqn:E1.
      inversion Hideal; subst S'. simpl.
      destruct (write_sim _ _ _ _ _ _ _ _ _ (PRsLoop _ w3) (PRsLoop _ W3) HR1' E1 E2 eq_refl eq_refl I) as (HRR & Eo).
      split; auto. eapply offers_step_ext; eauto.
    - (* MData *)
      destruct (write1 D _ _ _ w_write (read1 _ _ _ emit S1) W d) as [S3 W3] eqn:E2.
      destruct (write1 D _ _ _ w_write (read1 _ _ _ emit s1) w1 d) as [s3 w3] eqn:E1.
      inversion Hideal; subst S'. simpl.
      destruct (write_sim _ _ _ _ _ _ _ _ _ (PRsLoop _ w3) (PRsLoop _ W3) HR1' E1 E2 eq_refl eq_refl I) as (HRR & Eo).
      split; auto. eapply offers_step_ext; eauto.
    - (* MEnd *)
      inversion Hideal; subst S'. simpl. split.
      + apply Rw_final; auto.
      + eapply offers_step_ext; eauto.
  Qed.

  Lemma loop_bs_sim : forall sched stop s S m S' w W oo t,
    sph s = PBsLoop _ w oo t -> sph S = PBsLoop _ W oo t -> Rw s w S W ->
    stepI S m = Running _ _ _ S' -> sized_step S m -> sim_result stop S S' s (stepG sched stop s m).
  Proof.
    intros sched stop s S m S' w W oo t Es ES HRw Hideal Hsz.
    unfold sized_step in Hsz. rewrite ES in Hsz.
    unfold step in *. rewrite Es. rewrite ES in Hideal. rewrite save_ideal in Hideal.
    destruct (save_point _ _ _ w_save sched stop true w oo t s) as [[s1 w1] st] eqn:Esave.
    destruct (save_sim _ _ _ _ _ _ true oo t _ _ _ HRw ES Hsz Esave) as (HR1 & Hph1 & Hoff).
    destruct st; [split; [exact Hoff | eapply save_stop; eauto]|].
    set (S1 := mkst _ _ _ (sph S) (sfile S) (srd S) (sbowl S) (sdisk S) (Datatypes.S (s_asked _ _ _ S)) (soffers S)) in *.
    assert (HR1' : Rw s1 w1 S1 W) by (eapply Rw_ext; eauto).
    apply Rw_read in HR1'.
    destruct m; try discriminate.
    - (* MCtrl *)
      destruct (write1 D _ _ _ w_write (read1 _ _ _ emit S1) W (bs_data t oo add copy)) as [S3 W3] eqn:E2.
      destruct (write1 D _ _ _ w_write (read1 _ _ _ emit s1) w1 (bs_data t oo add copy)) as [s3 w3] eqn:E1.
      inversion Hideal; subst S'. simpl.
      destruct (write_sim _ _ _ _ _ _ _ _ _ (PBsLoop _ w3 (oo + Z.of_N (dlen add) + seek)%Z t) (PBsLoop _ W3 (oo + Z.of_N (dlen add) + seek)%Z t)
                          HR1' E1 E2 eq_refl eq_refl (conj eq_refl eq_refl)) as (HRR & Eo).
      split; auto. eapply offers_step_ext; eauto.
    - (* MCtrlEof *)
      inversion Hideal; subst S'. simpl. split.
      + apply (Rw_to_R _ _ _ _ (PBsEnd _ w1) (PBsEnd _ W) HR1' eq_refl eq_refl I).
      + eapply offers_step_ext; eauto.
  Qed.

  Lemma step_sim : forall sched stop s S m S',
    R s S -> stepI S m = Running _ _ _ S' -> sized_step S m -> sim_result stop S S' s (stepG sched stop s m).
  Proof.
    intros sched stop s S m S' HR Hideal Hsz.
    destruct (sph s) eqn:Es.
    - (* PFile *)
      pose proof (R_ph _ _ HR) as Hph. rewrite Es in Hph. destruct (sph S) eqn:ES; simpl in Hph; try contradiction.
      unfold step in *. rewrite Es. rewrite ES in Hideal.
      destruct m; try discriminate. rewrite <- (R_file _ _ HR) in Hideal.
      destruct (N.eqb fi (sfile s)); try discriminate. inversion Hideal; subst S'. simpl. split; [|left; reflexivity].
      apply R_set_ph.
      + now apply R_read.
      + destruct bsdiff; reflexivity.
      + simpl. rewrite Es. destruct bsdiff; reflexivity.
      + simpl. rewrite Es. destruct bsdiff; reflexivity.
    - (* PRsFirst *)
      pose proof (R_ph _ _ HR) as Hph. rewrite Es in Hph. destruct (sph S) eqn:ES; simpl in Hph; try contradiction.
      unfold step in *. rewrite Es. rewrite ES in Hideal. rewrite <- (R_file _ _ HR) in Hideal.
      pose proof (R_read _ _ HR) as HR1.
      destruct (is_full_file_op D blocksize tsize ssize (sfile s) m) as [t|] eqn:Efull.
      + (* transposition *)
        apply full_file_op_spec in Efull.
        destruct HR1 as [Hph1 Hf Hp Hb Hd Hl Hs Hfr Hm Hc]. simpl in *. rewrite Es in *. simpl in *.
        unfold transpose in *. rewrite <- Hb, <- Hf in Hideal.
        destruct fresh_cases as [Efr|Efr]; rewrite Efr in *; inversion Hideal; subst S'; simpl; (split; [|left; reflexivity]).
        * constructor; simpl; auto; try discriminate.
          -- intros g Hg Hu. destruct (N.eq_dec g (sfile s)) as [->|Hne].
             ++ rewrite !upd_same. exists (old_content t). split; apply (P_copy HW); auto.
             ++ rewrite !upd_other by auto. apply Hd; auto. lia.
          -- intros g Hg. rewrite !upd_other by lia. apply Hl. lia.
          -- intros g Hg. apply Hm in Hg. lia.
        * constructor; simpl; auto; try discriminate.
          -- intros g Hg Hu. destruct (N.eq_dec g (sfile s)) as [->|Hne].
             ++ unfold uses_disk in Hu. rewrite Efr in Hu. simpl in Hu. apply Hm in Hu. lia.
             ++ apply Hd; auto. lia.
          -- intros g Hg. apply Hl. lia.
          -- intros Hx. congruence.
          -- intros g Hg. apply Hm in Hg. lia.
      + (* open a writer and relay the first op *)
        destruct (open_new_sim _ _ HR1) as (s2 & w & S2 & W & E1 & E2 & HRw & HT & P1 & P2 & Po);
          [simpl; rewrite Es; reflexivity | simpl; rewrite Es; reflexivity |].
        rewrite E1. rewrite E2 in Hideal.
        destruct m; try discriminate.
        * destruct (write1 D _ _ _ w_write S2 W (range_data f bi span)) as [S3 W3] eqn:F2.
          destruct (write1 D _ _ _ w_write s2 w (range_data f bi span)) as [s3 w3] eqn:F1.
          inversion Hideal; subst S'.
          destruct (write_sim _ _ _ _ _ _ _ _ _ (PRsLoop _ w3) (PRsLoop _ W3) HRw F1 F2 eq_refl eq_refl I) as (HRR & Eo).
          split; auto. left. simpl. now rewrite Eo, Po.
        * destruct (write1 D _ _ _ w_write S2 W d) as [S3 W3] eqn:F2.
          destruct (write1 D _ _ _ w_write s2 w d) as [s3 w3] eqn:F1.
          inversion Hideal; subst S'.
          destruct (write_sim _ _ _ _ _ _ _ _ _ (PRsLoop _ w3) (PRsLoop _ W3) HRw F1 F2 eq_refl eq_refl I) as (HRR & Eo).
          split; auto. left. simpl. now rewrite Eo, Po.
    - (* PRsSkip *)
      pose proof (R_ph _ _ HR) as Hph. rewrite Es in Hph. destruct (sph S) eqn:ES; simpl in Hph; try contradiction.
      unfold step in *. rewrite Es. rewrite ES in Hideal.
      pose proof (R_read _ _ HR) as HR1.
      destruct m; inversion Hideal; subst S'; simpl; (split; [|left; reflexivity]); auto.
      apply R_next_skip; auto.
    - (* PRsLoop *)
      destruct (R_to_Rw _ _ w HR) as (W & HW1 & HRw & Hsh); [rewrite Es; reflexivity|].
      rewrite Es in Hsh. destruct (sph S) eqn:ES; simpl in HW1, Hsh; try discriminate; try contradiction.
      inversion HW1; subst. eapply loop_rs_sim; eauto.
    - (* PBsHeader *)
      pose proof (R_ph _ _ HR) as Hph. rewrite Es in Hph. destruct (sph S) eqn:ES; simpl in Hph; try contradiction.
      unfold step in *. rewrite Es. rewrite ES in Hideal.
      pose proof (R_read _ _ HR) as HR1.
      destruct m; try discriminate.
      destruct (open_new_sim _ _ HR1) as (s2 & w & S2 & W & E1 & E2 & HRw & HT & P1 & P2 & Po);
        [simpl; rewrite Es; reflexivity | simpl; rewrite Es; reflexivity |].
      rewrite E1. rewrite E2 in Hideal. inversion Hideal; subst S'. split.
      + apply (Rw_to_R _ _ _ _ (PBsLoop _ w 0%Z target) (PBsLoop _ W 0%Z target) HRw eq_refl eq_refl (conj eq_refl eq_refl)).
      + left. simpl. now rewrite Po.
    - (* PBsLoop *)
      destruct (R_to_Rw _ _ w HR) as (W & HW1 & HRw & Hsh); [rewrite Es; reflexivity|].
      rewrite Es in Hsh. destruct (sph S) eqn:ES; simpl in HW1, Hsh; try discriminate; try contradiction.
      inversion HW1; subst. destruct Hsh; subst. eapply loop_bs_sim; eauto.
    - (* PBsEnd *)
      destruct (R_to_Rw _ _ w HR) as (W & HW1 & HRw & Hsh); [rewrite Es; reflexivity|].
      rewrite Es in Hsh. destruct (sph S) eqn:ES; simpl in HW1, Hsh; try discriminate; try contradiction.
      inversion HW1; subst.
      unfold step in *. rewrite Es. rewrite ES in Hideal.
      destruct m; try discriminate.
      pose proof (Rw_w _ _ _ _ HRw) as (_ & _ & _ & Ht). rewrite Ht, (Rw_file _ _ _ _ HRw).
      destruct (N.eqb (w_tell W) (ssize (sfile S))) eqn:Esz; try discriminate.
      inversion Hideal; subst S'. split; [|left; reflexivity].
      apply Rw_final.
      + now apply Rw_read.
      + now apply N.eqb_eq.
  Qed.

  (** ** from steps to runs *)
  Lemma save_point_pos : forall sched stop (s : state) w bs oo t,
    r_pos (srd (fst (fst (save_point _ _ _ w_save sched stop bs w oo t s)))) = r_pos (srd s).
  Proof.
    intros. unfold save_point. destruct (sched (s_asked _ _ _ s)); [|reflexivity].
    destruct (rd_pop (rd_want (srd s))) as [[mc|] rd'] eqn:Epop; destruct (pop_want _ _ _ Epop) as (Q1 & _).
    - destruct (w_save (sfile s) w (sdisk s (sfile s))) as [[c w'] raw']. simpl. exact Q1.
    - simpl. exact Q1.
  Qed.

  Lemma write1_pos : forall (s : state) w d, r_pos (srd (fst (write1 D _ _ _ w_write s w d))) = r_pos (srd s).
  Proof. intros. rewrite write1_eq. reflexivity. Qed.

  Lemma open1_pos : forall (s s2 : state) c w, open1 _ _ _ w_open fresh is_overlay s c = Some (s2, w) -> r_pos (srd s2) = r_pos (srd s).
  Proof.
    intros s s2 c w. unfold open1. destruct (w_open (sfile s) c (sdisk s (sfile s))) as [[w' raw']|]; intros H; inversion H. reflexivity.
  Qed.

  (** every step that keeps running has read exactly one message, and no step finishes *)
  Lemma step_running : forall sched stop (s : state) m r,
    stepG sched stop s m = r ->
    match r with
    | Running _ _ _ s' => r_pos (srd s') = Datatypes.S (r_pos (srd s))
    | Finished _ _ _ _ => False
    | _ => True
    end.
  Proof.
    intros sched stop s m r Hr. subst r. unfold step. destruct (sph s) eqn:Es.
    - destruct m; auto. destruct (N.eqb fi (sfile s)); auto. simpl. apply rd_read_pos.
    - destruct (is_full_file_op D blocksize tsize ssize (sfile s) m).
      + destruct (transpose RAW fresh copy_old (sfile s) n (sbowl (read1 _ _ _ emit s)) (sdisk (read1 _ _ _ emit s))). simpl. apply rd_read_pos.
      + destruct (open1 _ _ _ w_open fresh is_overlay (read1 _ _ _ emit s) None) as [[s2 w]|] eqn:Eo; auto.
        apply open1_pos in Eo. simpl in Eo. rewrite rd_read_pos in Eo.
        destruct m; auto.
        * pose proof (write1_pos s2 w (range_data f bi span)) as Hp.
          destruct (write1 D _ _ _ w_write s2 w (range_data f bi span)). simpl in *. congruence.
        * pose proof (write1_pos s2 w d) as Hp.
          destruct (write1 D _ _ _ w_write s2 w d). simpl in *. congruence.
    - destruct m; simpl; apply rd_read_pos.
    - pose proof (save_point_pos sched stop s w false 0%Z 0%N) as Hp.
      destruct (save_point _ _ _ w_save sched stop false w 0%Z 0%N s) as [[s1 w1] st]. simpl in Hp.
      destruct st; auto. destruct m; auto.
      + pose proof (write1_pos (read1 _ _ _ emit s1) w1 (range_data f bi span)) as Hq.
        destruct (write1 D _ _ _ w_write (read1 _ _ _ emit s1) w1 (range_data f bi span)). simpl in *. rewrite Hq, rd_read_pos. congruence.
      + pose proof (write1_pos (read1 _ _ _ emit s1) w1 d) as Hq.
        destruct (write1 D _ _ _ w_write (read1 _ _ _ emit s1) w1 d). simpl in *. rewrite Hq, rd_read_pos. congruence.
      + simpl. rewrite rd_read_pos. congruence.
    - destruct m; auto.
      destruct (open1 _ _ _ w_open fresh is_overlay (read1 _ _ _ emit s) None) as [[s2 w]|] eqn:Eo; auto.
      apply open1_pos in Eo. simpl in *. now rewrite rd_read_pos in Eo.
    - pose proof (save_point_pos sched stop s w true oldoff target) as Hp.
      destruct (save_point _ _ _ w_save sched stop true w oldoff target s) as [[s1 w1] st]. simpl in Hp.
      destruct st; auto. destruct m; auto.
      + pose proof (write1_pos (read1 _ _ _ emit s1) w1 (bs_data target oldoff add copy)) as Hq.
        destruct (write1 D _ _ _ w_write (read1 _ _ _ emit s1) w1 (bs_data target oldoff add copy)). simpl in *. rewrite Hq, rd_read_pos. congruence.
      + simpl. rewrite rd_read_pos. congruence.
    - destruct m; auto. destruct (N.eqb (w_tell w) (ssize (sfile s))); auto. simpl. apply rd_read_pos.
  Qed.

  Lemma at_end_R : forall s S, R s S -> at_endG s = at_endG S.
  Proof.
    intros s S HR. unfold at_end. pose proof (R_ph _ _ HR) as Hph. rewrite (R_file _ _ HR).
    destruct (sph s); destruct (sph S); simpl in Hph; try contradiction; reflexivity.
  Qed.

  Definition good (msgs : list (msg D)) (Sf : state) (ck : ckpt WCK) (d : N -> RAW) : Prop :=
    forall d', crash_ok ck d d' ->
      exists sr S, resumeG ck d' = Some sr /\ R sr S /\
                   runI S (skipn (r_pos (srd sr)) msgs) = Finished _ _ _ Sf /\
                   sized_run S (skipn (r_pos (srd sr)) msgs).

  Definition news (msgs : list (msg D)) (Sf s s' : state) : Prop :=
    exists new, soffers s' = new ++ soffers s /\ Forall (fun x => good msgs Sf (fst x) (snd x)) new.

  Definition sim_final (stop : nat -> bool) (msgs : list (msg D)) (Sf s : state) (r : result) : Prop :=
    match r with
    | Finished _ _ _ sf => R sf Sf /\ at_endG sf = true /\ news msgs Sf s sf
    | Stopped _ _ _ s' => news msgs Sf s s' /\ exists j, stop j = true
    | _ => False
    end.

  Lemma news_refl : forall msgs Sf s, news msgs Sf s s.
  Proof. intros. exists []. split; auto. Qed.

  Lemma news_trans : forall msgs Sf s1 s2 s3, news msgs Sf s1 s2 -> news msgs Sf s2 s3 -> news msgs Sf s1 s3.
  Proof.
    intros msgs Sf s1 s2 s3 (n1 & E1 & F1) (n2 & E2 & F2). exists (n2 ++ n1). split.
    - now rewrite E2, E1, app_assoc.
    - apply Forall_app; auto.
  Qed.

  Lemma skipn_cons_S : forall A (l : list A) p m ms, skipn p l = m :: ms -> skipn (Datatypes.S p) l = ms.
  Proof.
    intros A l. induction l as [|a l IH]; intros p m ms H.
    - destruct p; discriminate.
    - destruct p; simpl in *; [inversion H; reflexivity | eapply IH; eauto].
  Qed.

  (** whatever the save consumer does, a run stays related to the uninterrupted run, ends
      like it unless it is told to stop, and only hands out good checkpoints *)
  Lemma run_sim : forall sched stop msgs Sf ms s S,
    R s S -> ms = skipn (r_pos (srd S)) msgs -> runI S ms = Finished _ _ _ Sf -> sized_run S ms ->
    sim_final stop msgs Sf s (runG sched stop s ms).
  Proof.
    intros sched stop msgs Sf ms. induction ms as [|m ms IH]; intros s S HR Hms Hideal Hsz.
    - simpl in *. rewrite (at_end_R _ _ HR). destruct (at_endG S) eqn:Ee; try discriminate.
      inversion Hideal; subst Sf. simpl. rewrite (at_end_R _ _ HR). auto using news_refl.
    - simpl in *. rewrite (at_end_R _ _ HR). destruct (at_endG S) eqn:Ee.
      + inversion Hideal; subst Sf. simpl. rewrite (at_end_R _ _ HR). auto using news_refl.
      + destruct Hsz as (Hsz1 & Hsz2).
        destruct (stepI S m) as [S'| | |] eqn:Estep; try discriminate.
        * pose proof (step_sim sched stop _ _ _ _ HR Estep Hsz1) as Hsim.
          pose proof (step_running never never S m _ Estep) as Hpos. simpl in Hpos.
          assert (Hgood : forall s', offers_step S s s' -> news msgs Sf s s').
          { intros s' [E|(ck & d & E & G)].
            - exists []. split; auto.
            - exists [(ck, d)]. split; auto. constructor; auto. simpl.
              intros d' Hc. destruct (G d' Hc) as (sr & Hr & HRr). exists sr, S. split; auto. split; auto.
              rewrite (R_pos _ _ HRr), <- Hms. split.
              + simpl. rewrite Ee, Estep. exact Hideal.
              + simpl. rewrite Ee. split; auto. rewrite Estep. exact Hsz2. }
          destruct (stepG sched stop s m) as [s'|s'|s'|] eqn:Estep'; simpl in Hsim; try contradiction.
          -- destruct Hsim as (HR' & Hoff).
             assert (Hms' : ms = skipn (r_pos (srd S')) msgs) by (rewrite Hpos; symmetry; eapply skipn_cons_S; eauto).
             pose proof (IH s' S' HR' Hms' Hideal Hsz2) as Hfin.
             destruct (runG sched stop s' ms); simpl in Hfin |- *; try contradiction.
             ++ destruct Hfin as (A & B & N). split; [exact A|]. split; [exact B|]. eapply news_trans; eauto.
             ++ destruct Hfin as (N & J). split; [|exact J]. eapply news_trans; eauto.
          -- destruct Hsim as (Hoff & J). split; auto.
        * exfalso. apply (step_running never never S m _ Estep).
  Qed.

  (** ** Commit sees the same thing *)
  Lemma commit_R : forall sf Sf, R sf Sf -> at_endG sf = true -> commitG sf = commitG Sf.
  Proof.
    intros sf Sf HR He. unfold commit. rewrite (R_bowl _ _ HR).
    destruct (fresh || nodup_n (bk_move (sbowl Sf)))%bool; auto. f_equal.
    apply map_ext_in. intros i Hi. apply in_seq in Hi.
    unfold at_end in He. destruct (sph sf) eqn:Es; try discriminate. apply N.leb_le in He.
    assert (Hg : (N.of_nat i < done_below (sph sf) (sfile sf))%N) by (rewrite Es; simpl; lia).
    unfold file_result. rewrite (R_bowl _ _ HR).
    assert (Hu : uses_disk (sbowl sf) (N.of_nat i) = true ->
                 w_result (N.of_nat i) (sdisk sf (N.of_nat i)) = w_result (N.of_nat i) (sdisk Sf (N.of_nat i))).
    { intros Hu. destruct (R_done _ _ HR _ Hg Hu) as (c & F1 & F2).
      now rewrite (W_result HW _ _ _ F1), (W_result HW _ _ _ F2). }
    destruct fresh_cases as [Efr|Efr]; rewrite Efr.
    - apply Hu. unfold uses_disk. now rewrite Efr.
    - destruct (trans_find (N.of_nat i) (bk_trans (sbowl Sf))); auto.
      destruct (existsb (N.eqb (N.of_nat i)) (bk_ovl (sbowl Sf)) || existsb (N.eqb (N.of_nat i)) (bk_move (sbowl Sf)))%bool eqn:Em; auto.
      apply Hu. unfold uses_disk. rewrite (R_bowl _ _ HR), Efr. exact Em.
  Qed.

  Lemma R_start : forall d0, (forall g, raw_ok g (createG d0 g)) ->
    R (start_state _ _ _ fresh prepare d0) (start_state _ _ _ fresh prepare d0).
  Proof.
    intros d0 Hok. constructor; simpl; auto.
    - intros g Hg. lia.
    - intros g Hg. discriminate.
    - discriminate.
  Qed.

  Definition result_state (r : result) : option state :=
    match r with Running _ _ _ s | Finished _ _ _ s | Stopped _ _ _ s => Some s | Failed _ _ _ => None end.

  Section Patch.
    Variable msgs : list (msg D).
    Variable d0 : N -> RAW.
    Variable Sf : state.
    (** the uninterrupted application completes, the patch respects the declared sizes, and
        the directory it starts from holds nothing longer than the files to come *)
    Hypothesis Hideal : runI (start_state _ _ _ fresh prepare d0) msgs = Finished _ _ _ Sf.
    Hypothesis Hsized : sized_run (start_state _ _ _ fresh prepare d0) msgs.
    Hypothesis Hd0 : forall g, raw_ok g (createG d0 g).

    Local Notation run_resumedG := (run_resumed D RAW WS WCK dlen blocksize tsize ssize nfiles range_data bs_data w_open w_write w_save w_final w_tell fresh is_overlay prepare copy_old emit src_resume).
    Local Notation outcomeG := (outcome_of C RAW WS WCK nfiles w_result fresh old_content).

    Lemma first_run_sim : forall sched stop,
      sim_final stop msgs Sf (start_state _ _ _ fresh prepare d0) (runG sched stop (start_state _ _ _ fresh prepare d0) msgs).
    Proof. intros. eapply run_sim; eauto using R_start. Qed.

    Lemma resumed_run_sim : forall ck d d' sched stop,
      good msgs Sf ck d -> crash_ok ck d d' ->
      exists sr, resumeG ck d' = Some sr /\ soffers sr = [] /\
                 sim_final stop msgs Sf sr (run_resumedG sched stop ck d' msgs).
    Proof.
      intros ck d d' sched stop Hg Hc. destruct (Hg d' Hc) as (sr & S & Er & HR & Hrun & Hsz).
      exists sr. split; auto. split.
      - unfold resume_state in Er. destruct (src_resume _ _); try discriminate.
        unfold open1 in Er. simpl in Er.
        destruct (w_open _ _ _) as [[w raw]|]; inversion Er; reflexivity.
      - unfold run_resumed. rewrite Er. rewrite (R_pos _ _ HR) in *. eapply run_sim; eauto.
    Qed.

    (** the checkpoints obtainable through any chain of interruptions: offered by the first
        run (under any save consumer), or by a run resumed - in a new patcher and bowl, on any
        crash disk - from such a checkpoint *)
    Inductive offered : ckpt WCK -> (N -> RAW) -> Prop :=
    | off_first : forall sched stop s ck d,
        result_state (runG sched stop (start_state _ _ _ fresh prepare d0) msgs) = Some s ->
        In (ck, d) (soffers s) -> offered ck d
    | off_chain : forall ck0 dk0 d' sched stop s ck d,
        offered ck0 dk0 -> crash_ok ck0 dk0 d' ->
        result_state (run_resumedG sched stop ck0 d' msgs) = Some s ->
        In (ck, d) (soffers s) -> offered ck d.

    Lemma news_in : forall s s' ck d, news msgs Sf s s' -> soffers s = [] -> In (ck, d) (soffers s') -> good msgs Sf ck d.
    Proof.
      intros s s' ck d (new & E & F) E0 Hin. rewrite E, E0, app_nil_r in Hin.
      rewrite Forall_forall in F. apply (F _ Hin).
    Qed.

    Lemma sim_final_in : forall stop s r s' ck d,
      sim_final stop msgs Sf s r -> soffers s = [] -> result_state r = Some s' -> In (ck, d) (soffers s') -> good msgs Sf ck d.
    Proof.
      intros stop s r s' ck d Hs E0 Hr Hin. destruct r; simpl in *; try contradiction; inversion Hr; subst.
      - destruct Hs as (_ & _ & Hn). eapply news_in; eauto.
      - destruct Hs as (Hn & _). eapply news_in; eauto.
    Qed.

    Lemma offered_good : forall ck d, offered ck d -> good msgs Sf ck d.
    Proof.
      intros ck d H. induction H as [sched stop s ck d Hr Hin | ck0 dk0 d' sched stop s ck d H0 IH Hc Hr Hin].
      - eapply sim_final_in; eauto using first_run_sim.
      - destruct (resumed_run_sim ck0 dk0 d' sched stop IH Hc) as (sr & Er & E0 & Hs).
        eapply sim_final_in; eauto.
    Qed.

    (** C03, safety: resuming from any offered checkpoint on any crash disk, under any save
        consumer, either completes with exactly the uninterrupted outcome, or stops because the
        consumer asked to (at a checkpoint that is again [offered]) *)
    Lemma resume_equiv_lemma : forall ck d d' sched stop,
      offered ck d -> crash_ok ck d d' ->
      match run_resumedG sched stop ck d' msgs with
      | Finished _ _ _ sf => commitG sf = commitG Sf
      | Stopped _ _ _ _ => exists j, stop j = true
      | _ => False
      end.
    Proof.
      intros ck d d' sched stop Ho Hc.
      destruct (resumed_run_sim ck d d' sched stop (offered_good _ _ Ho) Hc) as (sr & Er & E0 & Hs).
      destruct (run_resumedG sched stop ck d' msgs); simpl in Hs; try contradiction.
      - destruct Hs as (HR & He & _). now apply commit_R.
      - destruct Hs as (_ & J). exact J.
    Qed.

    Lemma resume_completes_lemma : forall ck d d' sched,
      offered ck d -> crash_ok ck d d' ->
      outcomeG (run_resumedG sched never ck d' msgs) = commitG Sf.
    Proof.
      intros ck d d' sched Ho Hc. pose proof (resume_equiv_lemma ck d d' sched never Ho Hc) as H.
      destruct (run_resumedG sched never ck d' msgs); simpl in *; try contradiction; auto.
      destruct H as (j & Hj). discriminate.
    Qed.

    (** saving is transparent: a first run whose consumer saves at will and never stops ends
        like the run that never saves *)
    Lemma saving_transparent_lemma : forall sched,
      outcomeG (runG sched never (start_state _ _ _ fresh prepare d0) msgs) = commitG Sf.
    Proof.
      intros sched. pose proof (first_run_sim sched never) as H.
      destruct (runG sched never (start_state _ _ _ fresh prepare d0) msgs); simpl in *; try contradiction.
      - destruct H as (HR & He & _). now apply commit_R.
      - destruct H as (_ & j & Hj). discriminate.
    Qed.
  End Patch.

End Proofs.
