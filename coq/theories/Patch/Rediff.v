(** Model of pwr/rediff/rediff.go.

    [analyzePatch]: per new file, the bytes each old file contributes according to the
    BLOCK_RANGE ops (with the arithmetic of the code: [lastBlockIndex := BlockIndex + BlockSpan],
    [otherBlocksSize := BlockSize*BlockSpan - 1]), the selection rule (most bytes; on a tie the
    old file with the same path), the same-path fallback, the size limits, [ForceMapAll].  The
    rule iterates a Go map; the iteration order is the explicit argument [ord].
    [Optimize]: per new file either the rsync series copied verbatim or a BSDIFF header with
    the target index and the series bsdiff computes from (old file, new file).

    Numbers are [Z] (protobuf int64 fields).  A container index out of range is a Go panic:
    [None].  Definitions only. *)
From Wharf Require Import Base.Prelude Val.Drip Val.VPool.
Local Open Scope Z_scope.

(** pwr.SyncOp of an rsync series (the end marker is implicit) *)
Inductive sop := SRange (fileIndex blockIndex blockSpan : Z) | SData (len : Z).

(** bytesReusedPerFileIndex[k] = bytesReusedPerFileIndex[k] + v; entries in first-insertion order *)
Fixpoint fo_add (m : list (Z * Z)) (k v : Z) : list (Z * Z) :=
  match m with
  | [] => [(k, v)]
  | (k', v') :: r => if k' =? k then (k', v' + v) :: r else (k', v') :: fo_add r k v
  end.

Record scan := mkscan { sm : list (Z * Z); nrange : Z; ndata : Z }.
Definition scan0 := mkscan [] 0 0.

Section Analyze.
  Variable bs : Z.                      (* pwr.BlockSize *)
  Variable force : bool.                (* Params.ForceMapAll *)
  Variable limit : Z.                   (* Params.RediffSizeLimit (after the default) *)
  Variable tsizes : list Z.             (* targetContainer.Files[i].Size *)

  Definition tsize (i : Z) : Z := nth (Z.to_nat i) tsizes 0.

  (** the [for readingOps] loop *)
  Fixpoint scan_ops (ops : list sop) (s : scan) : option scan :=
    match ops with
    | [] => Some s
    | SData _ :: r => scan_ops r (mkscan (sm s) (nrange s) (ndata s + 1))
    | SRange f b span :: r =>
      if f <? 0 then None
      else match nth_error tsizes (Z.to_nat f) with
           | None => None                       (* targetContainer.Files[rop.FileIndex] *)
           | Some size =>
             let lastBlockIndex := b + span in
             let lastBlockSize := compute_block_size bs size lastBlockIndex in
             let otherBlocksSize := bs * span - 1 in
             scan_ops r (mkscan (fo_add (sm s) f (otherBlocksSize + lastBlockSize)) (nrange s + 1) (ndata s))
           end
    end.

  (** [same i] = targetContainer.Files[i].Path == sourceFile.Path *)
  Definition better (same : Z -> bool) (cur : option (Z * Z)) (cand : Z * Z) : bool :=
    match cur with
    | None => true
    | Some (_, cb) => (snd cand >? cb) || ((snd cand =? cb) && same (fst cand))
    end.

  (** [for targetFileIndex, numBytes := range bytesReusedPerFileIndex], visited in the order [ord] *)
  Definition select (same : Z -> bool) (ord : list (Z * Z)) : option (Z * Z) :=
    fold_left (fun cur cand => if better same cur cand then Some cand else cur) ord None.

  Definition same_of (samePath : option Z) (i : Z) : bool :=
    match samePath with Some k => i =? k | None => false end.

  (** "even without any common blocks ... if the file is named the same" (old size > 0 only) *)
  Definition fallback (samePath : option Z) : option (Z * Z) :=
    match samePath with
    | Some k => if tsize k >? 0 then Some (k, 0) else None
    | None => None
    end.

  (** the two size limits *)
  Definition finish (ssize : Z) (dm : option (Z * Z)) : option (Z * Z) :=
    let dm := if ssize >? limit then None else dm in
    match dm with
    | Some (i, b) => if tsize i >? limit then None else Some (i, b)
    | None => None
    end.

  Definition skipped (ssize : Z) (s : scan) : bool :=
    ((ssize =? 0) && negb force) || ((nrange s =? 1) && (ndata s =? 0) && negb force).

  (** one new file: size, index of the old file with the same path, its ops; [ord] must be a
      permutation of the reused-bytes map.  [None] = panic, [Some None] = no mapping. *)
  Definition analyze_file (ssize : Z) (samePath : option Z) (ops : list sop) (ord : list (Z * Z)) : option (option (Z * Z)) :=
    match scan_ops ops scan0 with
    | None => None
    | Some s =>
      if skipped ssize s then Some None
      else
        let dm := match select (same_of samePath) ord with
                  | Some x => Some x
                  | None => fallback samePath
                  end in
        Some (finish ssize dm)
    end.

  (** the reused-bytes map of a file, for stating "[ord] is a permutation of it" *)
  Definition reused (ops : list sop) : option (list (Z * Z)) := option_map sm (scan_ops ops scan0).

  (** ---- order-free description of the results the rule allows (executable) ---- *)
  Definition is_choiceb (same : Z -> bool) (m : list (Z * Z)) (e : Z * Z) : bool :=
    existsb (fun x => (fst x =? fst e) && (snd x =? snd e)) m &&
    forallb (fun x => snd x <=? snd e) m &&
    (negb (existsb (fun x => (snd x =? snd e) && same (fst x)) m) || same (fst e)).

  Definition analyze_allowed (ssize : Z) (samePath : option Z) (ops : list sop) : option (list (option (Z * Z))) :=
    match scan_ops ops scan0 with
    | None => None
    | Some s =>
      if skipped ssize s then Some [None]
      else match sm s with
           | [] => Some [finish ssize (fallback samePath)]
           | m => Some (map (fun e => finish ssize (Some e)) (filter (is_choiceb (same_of samePath) m) m))
           end
    end.
End Analyze.

(** ---- Optimize, over abstract series ---- *)
Section Optimize.
  Context {Content RSeries BSeries : Type}.
  Variable bsdiff_do : Content -> Content -> BSeries.       (* bsdiff.DiffContext.Do(old, new) *)

  Inductive series := Rsync (s : RSeries) | Bsdiff (target : Z) (b : BSeries).

  (** one new file of the patch being rewritten: its rsync series, its content in the new
      build (SourcePool), the mapping chosen by the analysis *)
  Definition optimize_file (olds : list Content) (x : RSeries * Content * option (Z * Z)) : option series :=
    let '(orig, new, mapping) := x in
    match mapping with
    | None => Some (Rsync orig)                                 (* ops copied verbatim *)
    | Some (t, _) =>
      if t <? 0 then None
      else match nth_error olds (Z.to_nat t) with
           | Some old => Some (Bsdiff t (bsdiff_do old new))    (* BSDIFF header, target index, series *)
           | None => None                                       (* TargetPool.GetReadSeeker fails *)
           end
    end.

  Fixpoint optimize (olds : list Content) (xs : list (RSeries * Content * option (Z * Z))) : option (list series) :=
    match xs with
    | [] => Some []
    | x :: r => match optimize_file olds x, optimize olds r with
                | Some s, Some ss => Some (s :: ss)
                | _, _ => None
                end
    end.
End Optimize.
Arguments series : clear implicits.
