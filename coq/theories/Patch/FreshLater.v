(** The crash model contains every later disk of the same run (fresh bowl): if a checkpoint
    was offered when the disk was [d], then the disk of any later moment of that run - writes
    made after the checkpoint wholly on disk - satisfies [fresh_crash ck d].  (Partly written,
    torn or garbage data after the checkpointed offset is covered by the model being arbitrary
    there.) *)
From Wharf Require Import Base.Prelude Patch.Resume Patch.ResumeProofs Patch.PlainWriter.
From Coq Require Import ZifyBool ZifyNat ZifyN.

Section Later.
  Variable blocksize : N.
  Variables tsize ssize : N -> N.
  Variable old : N -> list byte.
  Variable range_data : N -> N -> N -> list byte.
  Variable bs_data : N -> Z -> list byte -> list byte -> list byte.
  Variable is_overlay : N -> bool.
  Variable emit : nat -> bool.
  Variables sched stop : nat -> bool.

  Local Notation state := (state (list byte) N unit).
  Local Notation stepF := (step (list byte) (list byte) N unit (fun d => N.of_nat (length d)) blocksize tsize ssize range_data bs_data
                                p_open p_write p_save p_final p_tell true is_overlay (p_copy_old old) emit sched stop).
  Local Notation sfile := (s_file (list byte) N unit).
  Local Notation sdisk := (s_disk (list byte) N unit).
  Local Notation sph := (s_ph (list byte) N unit).
  Local Notation soffers := (s_offers (list byte) N unit).

  Definition cur_writer (s : state) : option N :=
    match sph s with PRsLoop _ w | PBsLoop _ w _ _ | PBsEnd _ w => Some w | _ => None end.

  (** [ck], offered on disk [d], seen from a later moment: current file [f], disk [disk],
      offset [ow] of the open writer if there is one *)
  Definition later_ok (f : N) (disk : N -> list byte) (ow : option N) (ck : ckpt unit) (d : N -> list byte) : Prop :=
    let cf := ck_file _ ck in let o := N.to_nat (ck_woff _ ck) in
    (cf <= f)%N /\
    (forall g, (g < cf)%N -> disk g = d g) /\
    o <= length (disk cf) /\ firstn o (disk cf) = firstn o (d cf) /\
    (cf = f -> exists w, ow = Some w /\ (ck_woff _ ck <= w)%N).

  Definition linvw (f : N) (disk : N -> list byte) (offers : list (ckpt unit * (N -> list byte))) (ow : option N) : Prop :=
    (forall w, ow = Some w -> N.to_nat w <= length (disk f)) /\
    (forall ck d, In (ck, d) offers -> later_ok f disk ow ck d).

  Definition linv (s : state) : Prop := linvw (sfile s) (sdisk s) (soffers s) (cur_writer s).

  Lemma later_crash : forall f disk ow ck d, later_ok f disk ow ck d -> fresh_crash ck d disk.
  Proof. intros f disk ow ck d (H1 & H2 & H3 & H4 & _). unfold fresh_crash. auto. Qed.

  Lemma firstn_pwrite : forall raw w d o, o <= w -> w <= length raw -> firstn o (pwrite raw w d) = firstn o raw.
  Proof.
    intros. rewrite pwrite_inside by auto. rewrite firstn_app, firstn_firstn.
    replace (Nat.min o w) with o by lia. rewrite firstn_length.
    replace (o - Nat.min w (length raw)) with 0 by lia. simpl. apply app_nil_r.
  Qed.

  Lemma linvw_ext : forall f disk disk' offers ow, (forall g, disk' g = disk g) -> linvw f disk offers ow -> linvw f disk' offers ow.
  Proof.
    intros f disk disk' offers ow E (H1 & H2). split.
    - intros w Hw. rewrite E. auto.
    - intros ck d Hin. destruct (H2 ck d Hin) as (L1 & L2 & L3 & L4 & L5). unfold later_ok. rewrite !E.
      repeat split; auto. intros g Hg. rewrite E. auto.
  Qed.

  (** GetWriter + Resume(nil): the file's writer starts at 0 *)
  Lemma linvw_open : forall f disk offers, linvw f disk offers None -> linvw f disk offers (Some 0%N).
  Proof.
    intros f disk offers (H1 & H2). split.
    - intros w Hw. inversion Hw. simpl. lia.
    - intros ck d Hin. destruct (H2 ck d Hin) as (L1 & L2 & L3 & L4 & L5). repeat split; auto.
      intros E. destruct (L5 E) as (w & Hw & _). discriminate.
  Qed.

  Lemma linvw_write : forall f disk offers w dd,
    linvw f disk offers (Some w) ->
    linvw f (upd disk f (pwrite (disk f) (N.to_nat w) dd)) offers (Some (w + N.of_nat (length dd))%N).
  Proof.
    intros f disk offers w dd (H1 & H2). pose proof (H1 w eq_refl) as Hlen. split.
    - intros w' Hw'. inversion Hw'; subst. unfold upd. rewrite N.eqb_refl. rewrite pwrite_length by auto. lia.
    - intros ck d Hin. destruct (H2 ck d Hin) as (L1 & L2 & L3 & L4 & L5). unfold later_ok. split; auto. split.
      { intros g Hg. unfold upd. destruct (N.eqb_spec g f); [lia|]. auto. }
      unfold upd. destruct (N.eqb_spec (ck_file _ ck) f) as [Ef|Ef].
      + destruct (L5 Ef) as (w0 & Hc0 & Hle). inversion Hc0; subst w0. rewrite Ef in *.
        split; [rewrite pwrite_length by lia; lia|]. split.
        * rewrite firstn_pwrite by lia. auto.
        * intros _. exists (w + N.of_nat (length dd))%N. split; auto. lia.
      + split; auto. split; auto. intros Hx. contradiction.
  Qed.

  (** the save block hands out a checkpoint for the current file at the writer's offset *)
  Lemma linvw_offer : forall f disk offers w ck,
    linvw f disk offers (Some w) -> ck_file _ ck = f -> ck_woff _ ck = w ->
    linvw f disk ((ck, disk) :: offers) (Some w).
  Proof.
    intros f disk offers w ck (H1 & H2) Ef Ew. split; auto.
    intros ck' d [Hin|Hin]; [|auto]. inversion Hin; subst. pose proof (H1 _ eq_refl).
    repeat split; auto; try lia. intros _. exists (ck_woff _ ck'). split; auto. lia.
  Qed.

  (** the current file is done (finalized, or transposed) *)
  Lemma linvw_next : forall f disk offers ow, linvw f disk offers ow -> linvw (f + 1)%N disk offers None.
  Proof.
    intros f disk offers ow (H1 & H2). split; [discriminate|].
    intros ck d Hin. destruct (H2 ck d Hin) as (L1 & L2 & L3 & L4 & L5). repeat split; auto; try lia.
  Qed.

  (** freshBowl.Transpose overwrites the output file of the current (not yet opened) file *)
  Lemma linvw_upd_none : forall f disk offers v, linvw f disk offers None -> linvw f (upd disk f v) offers None.
  Proof.
    intros f disk offers v (H1 & H2). split; [discriminate|].
    intros ck d Hin. destruct (H2 ck d Hin) as (L1 & L2 & L3 & L4 & L5).
    assert (Hne : ck_file _ ck <> f) by (intros E; destruct (L5 E) as (w & Hw & _); discriminate).
    unfold later_ok, upd. destruct (N.eqb_spec (ck_file _ ck) f); [contradiction|].
    repeat split; auto. intros g Hg. destruct (N.eqb_spec g f); [lia|]. auto.
  Qed.

  Lemma linvw_same_raw : forall f disk offers ow, linvw f disk offers ow -> linvw f (upd disk f (disk f)) offers ow.
  Proof.
    intros f disk offers ow H. apply (linvw_ext f disk); auto. intros g. unfold upd. destruct (N.eqb_spec g f); subst; auto.
  Qed.

  Lemma linv_save : forall (s : state) w bs oo t s1 w1 st,
    linvw (sfile s) (sdisk s) (soffers s) (Some w) ->
    save_point _ _ _ p_save sched stop bs w oo t s = (s1, w1, st) ->
    w1 = w /\ sfile s1 = sfile s /\ sph s1 = sph s /\ linvw (sfile s) (sdisk s1) (soffers s1) (Some w).
  Proof.
    intros s w bs oo t s1 w1 st H. unfold save_point. destruct (sched (s_asked _ _ _ s)).
    - destruct (rd_pop (rd_want (s_rd _ _ _ s))) as [[mc|] rd'].
      + unfold p_save. intros E; inversion E; subst; clear E. simpl.
        split; [reflexivity|]. split; [reflexivity|]. split; [reflexivity|].
        apply linvw_offer; [apply linvw_same_raw; exact H | reflexivity | reflexivity].
      + intros E; inversion E; subst; clear E. simpl.
        split; [reflexivity|]. split; [reflexivity|]. split; [reflexivity|]. exact H.
    - intros E; inversion E; subst; clear E. simpl.
      split; [reflexivity|]. split; [reflexivity|]. split; [reflexivity|]. exact H.
  Qed.

  (** every step keeps the invariant: whatever was offered earlier stays within the crash
      model of the current disk *)
  Lemma linv_step : forall (s : state) m r, linv s -> stepF s m = r ->
    match r with Running _ _ _ s' | Stopped _ _ _ s' => linv s' | _ => True end.
  Proof.
    intros s m r H Hr. subst r. unfold linv, cur_writer in H. unfold step. destruct (sph s) eqn:Es.
    - (* PFile *)
      destruct m; auto. destruct (N.eqb fi (sfile s)); auto.
      unfold linv, cur_writer. simpl. destruct bsdiff; exact H.
    - (* PRsFirst *)
      destruct (is_full_file_op _ blocksize tsize ssize (sfile s) m) as [t|].
      + unfold transpose. simpl. unfold linv, cur_writer. simpl. now apply linvw_upd_none.
      + unfold open1, p_open. simpl.
        assert (H0 : linvw (sfile s) (upd (sdisk s) (sfile s) (sdisk s (sfile s))) (soffers s) (Some 0%N))
          by (apply linvw_open, linvw_same_raw; exact H).
        destruct m; auto; unfold write1, p_write; simpl; unfold linv, cur_writer; simpl;
          apply (linvw_write _ _ _ 0%N); exact H0.
    - (* PRsSkip *)
      destruct m; unfold linv, cur_writer; simpl; rewrite ?Es; try exact H. eapply linvw_next; eauto.
    - (* PRsLoop *)
      destruct (save_point _ _ _ p_save sched stop false w 0%Z 0%N s) as [[s1 w1] st] eqn:Esave.
      destruct (linv_save _ _ _ _ _ _ _ _ H Esave) as (-> & Ef & Ep & H1).
      destruct st.
      { unfold linv, cur_writer. rewrite Ep, Es, Ef. exact H1. }
      destruct m; auto.
      + unfold write1, p_write. simpl. unfold linv, cur_writer. simpl. rewrite Ef. now apply linvw_write.
      + unfold write1, p_write. simpl. unfold linv, cur_writer. simpl. rewrite Ef. now apply linvw_write.
      + unfold linv, cur_writer. simpl. rewrite Ef. unfold p_final. eapply linvw_next. apply linvw_same_raw. eauto.
    - (* PBsHeader *)
      destruct m; auto. unfold open1, p_open. simpl. unfold linv, cur_writer. simpl.
      apply linvw_open, linvw_same_raw; exact H.
    - (* PBsLoop *)
      destruct (save_point _ _ _ p_save sched stop true w oldoff target s) as [[s1 w1] st] eqn:Esave.
      destruct (linv_save _ _ _ _ _ _ _ _ H Esave) as (-> & Ef & Ep & H1).
      destruct st.
      { unfold linv, cur_writer. rewrite Ep, Es, Ef. exact H1. }
      destruct m; auto.
      + unfold write1, p_write. simpl. unfold linv, cur_writer. simpl. rewrite Ef. now apply linvw_write.
      + unfold linv, cur_writer. simpl. rewrite Ef. exact H1.
    - (* PBsEnd *)
      destruct m; auto. destruct (N.eqb (p_tell w) (ssize (sfile s))); auto.
      unfold linv, cur_writer. simpl. unfold p_final. eapply linvw_next. apply linvw_same_raw. eauto.
  Qed.

  Lemma linv_start : forall d0, linv (fresh_start ssize d0).
  Proof. intros d0. split; [discriminate|]. intros ck d []. Qed.

  (** along a run *)
  Fixpoint reach (s : state) (ms : list (msg (list byte))) (s' : state) : Prop :=
    s' = s \/
    match ms with
    | [] => False
    | m :: ms' => match stepF s m with Running _ _ _ s1 => reach s1 ms' s' | Stopped _ _ _ s1 => s' = s1 | _ => False end
    end.

  Lemma linv_reach : forall ms s s', linv s -> reach s ms s' -> linv s'.
  Proof.
    induction ms as [|m ms IH]; intros s s' H [->|Hr]; auto; try contradiction.
    pose proof (linv_step s m _ H eq_refl) as Hs. destruct (stepF s m); try contradiction.
    - eapply IH; eauto.
    - subst. auto.
  Qed.

  (** C03, the crash model is not vacuous: the disk of any moment of a run is a legitimate
      crash disk for every checkpoint the run has offered up to that moment *)
  Lemma later_states_in_crash_model : forall d0 ms s ck d,
    reach (fresh_start ssize d0) ms s -> In (ck, d) (soffers s) -> fresh_crash ck d (sdisk s).
  Proof.
    intros d0 ms s ck d Hr Hin. pose proof (linv_reach _ _ _ (linv_start d0) Hr) as (_ & H).
    eapply later_crash; eauto.
  Qed.
End Later.
