(** Model of the patch as a MESSAGE LIST (repo/pwr/diff.go:WritePatch; wire framing and codec
    are C13's): header, old ("target") container, new ("source") container, then per new file

        SyncHeader{RSYNC, fileIndex}  ++  one SyncOp per differ operation  ++  HEY_YOU_DID_IT

    The rsync differ itself (wsync.ComputeDiff + the block library built from the old
    signature) is modelled and proved elsewhere (C11); here it is an abstract function
    [differ pref data] (preferred old-file index, content of the new file) whose output is
    only constrained by the hypothesis [diff_ok] of Patch/PatcherProofs.v:
    "the ops of a file replay to that file against the old files, ranges in bounds".
    Definitions only. *)
From Wharf Require Import Base.Prelude Bowl.Fresh Patch.Reinterp.
Local Open Scope Z_scope.

(** wsync operations *)
Inductive op := OpRange (file index span : Z) | OpData (data : list byte).

Definition znth {A} (l : list A) (i : Z) : option A :=
  if i <? 0 then None else nth_error l (Z.to_nat i).

(** pwr.ComputeNumBlocks *)
Definition num_blocks (bs size : Z) : Z := Z.quot (size + bs - 1) bs.

(** the bytes an operation stands for: blocks [index, index+span) of old file [file], the last
    block of the file possibly short *)
Definition slice (d : list byte) (from len : Z) : list byte :=
  firstn (Z.to_nat len) (skipn (Z.to_nat from) d).
Definition denote (bs : Z) (olds : list (list byte)) (o : op) : list byte :=
  match o with
  | OpData d => d
  | OpRange f i s => match znth olds f with
                     | Some d => slice d (bs * i) (bs * s)
                     | None => []
                     end
  end.
Definition replay (bs : Z) (olds : list (list byte)) (ops : list op) : list byte :=
  flat_map (denote bs olds) ops.

(** a range is in bounds when it names an old file and blocks that exist, at least one *)
Definition range_ok (bs : Z) (olds : list (list byte)) (o : op) : Prop :=
  match o with
  | OpData _ => True
  | OpRange f i s => exists d, znth olds f = Some d /\ 0 <= i /\ 1 <= s /\ i + s <= num_blocks bs (Z.of_nat (length d))
  end.

(** what C01 assumes of the differ (proved of wsync.ComputeDiff by C11): for every new file
    it emits at least one operation (an empty DATA op for an empty file), the operations
    replay to the file against the old files, and every range is in bounds *)
Definition diff_ok (bs : Z) (olds : list (list byte)) (differ : Z -> list byte -> list op) : Prop :=
  forall pref data,
    differ pref data <> [] /\ replay bs olds (differ pref data) = data /\ Forall (range_ok bs olds) (differ pref data).

(** what Go's int64 fields can hold: fewer than 2^63 files, each shorter than 2^63 bytes *)
Definition fits63 (b : build) : Prop :=
  Z.of_nat (length (files_of b)) <= 2^63 /\ Forall (fun d => Z.of_nat (length d) < 2^63) (contents_of b).

(** makeOpsWriter: one SyncOp per operation *)
Definition op_msg (o : op) : pmsg :=
  match o with
  | OpRange f i s => MSO (mkSO T_BLOCK_RANGE f i s [])
  | OpData d => MSO (mkSO T_DATA 0 0 0 d)
  end.
Definition hey_msg : pmsg := MSO (mkSO HEY 0 0 0 []).

(** targetContainerPathToIndex: a Go map filled in index order, so the LAST old file with the
    path wins; -1 when the path is not in the old build *)
Fixpoint preferred_from (files : list (path * Z)) (p : path) (i acc : Z) : Z :=
  match files with
  | [] => acc
  | (q, _) :: r => preferred_from r p (i + 1) (if path_eqb q p then i else acc)
  end.
Definition preferred_index (oldC : container) (p : path) : Z := preferred_from (c_files oldC) p 0 (-1).

(** frames of a whole patch *)
Inductive frame := FHeader (algo quality : Z) | FContainer (c : container) | FMsg (m : pmsg).

Section Write.
  Variable differ : Z -> list byte -> list op.

  Definition file_series (oldC : container) (i : Z) (f : path * list byte) : list pmsg :=
    MSH (mkSH SH_RSYNC i) :: map op_msg (differ (preferred_index oldC (fst f)) (snd f)) ++ [hey_msg].

  Fixpoint all_series (oldC : container) (i : Z) (fs : list (path * list byte)) : list pmsg :=
    match fs with
    | [] => []
    | f :: r => file_series oldC i f ++ all_series oldC (i + 1) r
    end.

  (** WritePatch: the messages after the two containers *)
  Definition patch_msgs (old new : build) : list pmsg :=
    all_series (container_of old) 0 (files_of new).

  Definition write_patch (algo quality : Z) (old new : build) : list frame :=
    FHeader algo quality :: FContainer (container_of old) :: FContainer (container_of new)
    :: map FMsg (patch_msgs old new).
End Write.

(** patcher.New: header, two containers; everything after them is the per-file part *)
Fixpoint frames_msgs (fs : list frame) : option (list pmsg) :=
  match fs with
  | [] => Some []
  | FMsg m :: r => option_map (cons m) (frames_msgs r)
  | _ => None
  end.
Definition read_patch (fs : list frame) : option (Z * Z * container * container * list pmsg) :=
  match fs with
  | FHeader a q :: FContainer t :: FContainer s :: r =>
    option_map (fun ms => (a, q, t, s, ms)) (frames_msgs r)
  | _ => None
  end.
