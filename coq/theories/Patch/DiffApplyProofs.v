(** C01: applying [write_patch old new] to an empty directory lays out exactly [new]. *)
From Coq Require Import ZifyBool ZifyNat Permutation.
From Wharf Require Import Base.Prelude Bowl.Fresh Bowl.FreshProofs Patch.Reinterp Patch.ReinterpProofs
     Patch.Stream Patch.Patcher Patch.Whitelist Patch.ApplyProofs Patch.PatcherProofs.
Local Open Scope Z_scope.

(* ------------------------------------------------------------------ builds and their containers *)

Lemma in_dirs_of b q : In q (dirs_of b) <-> In (q, Dir) b.
Proof.
  unfold dirs_of. rewrite in_flat_map. split.
  - intros ([p n] & Hin & H). destruct n; cbn [snd fst] in H; try destruct H as [<-|[]]; try contradiction. assumption.
  - intros H. exists (q, Dir). split; [assumption|left; reflexivity].
Qed.
Lemma in_files_of b q d : In (q, d) (files_of b) <-> In (q, File d) b.
Proof.
  unfold files_of. rewrite in_flat_map. split.
  - intros ([p n] & Hin & H). destruct n; cbn [snd fst] in H; try contradiction. destruct H as [[= <- <-]|[]]. assumption.
  - intros H. exists (q, File d). split; [assumption|left; reflexivity].
Qed.
Lemma in_links_of b q d : In (q, d) (links_of b) <-> In (q, Link d) b.
Proof.
  unfold links_of. rewrite in_flat_map. split.
  - intros ([p n] & Hin & H). destruct n; cbn [snd fst] in H; try contradiction. destruct H as [[= <- <-]|[]]. assumption.
  - intros H. exists (q, Link d). split; [assumption|left; reflexivity].
Qed.

Lemma paths_permutation b :
  Permutation (map fst b) (dirs_of b ++ map fst (files_of b) ++ map fst (links_of b)).
Proof.
  induction b as [|[p n] b IH]; [constructor|].
  unfold dirs_of, files_of, links_of in *. cbn [map fst flat_map snd].
  destruct n; cbn [app map fst].
  - (* file *) apply Permutation_cons_app. exact IH.
  - (* dir *) constructor. exact IH.
  - (* link *) rewrite app_assoc. apply Permutation_cons_app. rewrite <- app_assoc. exact IH.
Qed.

Lemma c_paths_of b : c_paths (container_of b) = dirs_of b ++ map fst (files_of b) ++ map fst (links_of b).
Proof. unfold c_paths, container_of. cbn [c_dirs c_files c_links]. rewrite map_map. reflexivity. Qed.

Lemma wf_container_of b : wf_build b -> wf_container (container_of b).
Proof.
  intros (ND & NR & PC). unfold wf_container. rewrite c_paths_of.
  pose proof (paths_permutation b) as HP. repeat split.
  - eapply Permutation_NoDup; eassumption.
  - intros HI. apply NR. eapply Permutation_in; [apply Permutation_sym; eassumption|assumption].
  - intros p q Hp Hq. cbn [container_of c_dirs]. apply in_dirs_of.
    apply (Permutation_in _ (Permutation_sym HP)) in Hp. apply in_map_iff in Hp. destruct Hp as ([p' n] & <- & Hin).
    apply (PC p' n q); assumption.
  - intros f Hf. cbn [container_of c_files] in Hf. apply in_map_iff in Hf. destruct Hf as (x & <- & _). cbn [snd]. lia.
Qed.

(** what the finished tree must look like at a path that is not one of the files *)
Lemma ctree_of_build_nonfile b q :
  wf_build b -> (forall d, ~ In (q, d) (files_of b)) ->
  tlookup (ctree (container_of b)) q = tlookup b q.
Proof.
  intros WFB Hnf. pose proof (wf_container_of b WFB) as WFC. destruct WFB as (ND & NR & PC).
  destruct (tlookup b q) as [[d| |d]|] eqn:E.
  - apply tlookup_in in E. exfalso. apply (Hnf d). apply in_files_of. assumption.
  - apply tlookup_in in E. apply ctree_dir. cbn [container_of c_dirs]. apply in_dirs_of. assumption.
  - apply tlookup_in in E. apply (ctree_link _ WFC). cbn [container_of c_links]. apply in_links_of. assumption.
  - apply ctree_none. rewrite c_paths_of. intros HI.
    apply (Permutation_in _ (Permutation_sym (paths_permutation b))) in HI.
    apply tlookup_none in E. contradiction.
Qed.

Lemma znth_map {A B} (f : A -> B) l i : znth (map f l) i = option_map f (znth l i).
Proof. unfold znth. destruct (i <? 0); [reflexivity|]. apply nth_error_map. Qed.

Lemma files_of_container b i :
  znth (c_files (container_of b)) i = option_map (fun f => (fst f, Z.of_nat (length (snd f)))) (znth (files_of b) i).
Proof. cbn [container_of c_files]. apply znth_map. Qed.

Lemma contents_znth b i : znth (contents_of b) i = option_map snd (znth (files_of b) i).
Proof. unfold contents_of. apply znth_map. Qed.

(** the old pool serves what the old container announces *)
Lemma old_aligned b f d :
  znth (contents_of b) f = Some d -> exists pf, znth (c_files (container_of b)) f = Some (pf, Z.of_nat (length d)).
Proof.
  rewrite contents_znth, files_of_container. destruct (znth (files_of b) f) as [[pf d']|]; cbn [option_map snd fst]; [|discriminate].
  intros [= ->]. exists pf. reflexivity.
Qed.

(* ------------------------------------------------------------------ messages of well-formed ops *)

Lemma pow63 : 2^63 = 9223372036854775808. Proof. reflexivity. Qed.

Lemma as_so_hey : as_so hey_msg = mkSO HEY 0 0 0 [].
Proof. vm_compute. reflexivity. Qed.

Section Series.
  Variables (bs : Z) (old new : build).
  Hypothesis Hbs : 0 < bs.
  Hypothesis FO : fits63 old.

  Let oldC := container_of old.
  Let newC := container_of new.
  Let olds := contents_of old.

  Lemma range_fits f i s :
    range_ok bs olds (OpRange f i s) -> i64_ok f /\ i64_ok i /\ i64_ok s.
  Proof.
    intros (d & Hd & Hi & Hs & Hle). destruct FO as [Fn Fl].
    pose proof (znth_Some _ _ _ Hd) as Hr. unfold olds, contents_of in Hr. rewrite map_length in Hr.
    assert (Hlen : Z.of_nat (length d) < 2^63).
    { rewrite Forall_forall in Fl. apply Fl. eapply znth_In. eassumption. }
    pose proof (num_blocks_le bs (Z.of_nat (length d)) Hbs ltac:(lia)) as Hnb.
    rewrite pow63 in *. unfold i64_ok. rewrite pow63. lia.
  Qed.

  Lemma as_so_op o : range_ok bs olds o ->
    as_so (op_msg o) = match o with OpRange f i s => mkSO T_BLOCK_RANGE f i s [] | OpData d => mkSO T_DATA 0 0 0 d end.
  Proof.
    intros H. destruct o as [f i s|d]; cbn [op_msg]; apply as_so_own; cbn [pmsg_ok so_type so_file so_block so_span].
    - destruct (range_fits f i s H) as (A & B & C).
      split; [unfold i32_ok, T_BLOCK_RANGE; change (2^31) with 2147483648; lia|]. split; [assumption|]. split; assumption.
    - unfold i32_ok, i64_ok, T_DATA. rewrite pow63. change (2^31) with 2147483648. lia.
  Qed.

  Lemma op_type_not_hey o : range_ok bs olds o -> (so_type (as_so (op_msg o)) =? HEY) = false.
  Proof. intros H. rewrite as_so_op by assumption. destruct o; reflexivity. Qed.

  (** validateOp accepts every in-bounds op *)
  Lemma validate_op_ok o : range_ok bs olds o -> validate_op oldC (as_so (op_msg o)) = true.
  Proof.
    intros H. rewrite as_so_op by assumption. unfold validate_op. destruct o as [f i s|d]; cbn [so_type so_file]; [|reflexivity].
    cbn [T_BLOCK_RANGE Z.eqb]. destruct H as (d & Hd & _). apply znth_Some in Hd.
    unfold olds, contents_of in Hd. rewrite map_length in Hd.
    unfold oldC. cbn [container_of c_files]. rewrite map_length.
    apply andb_true_intro. split; [apply Z.leb_le|apply Z.ltb_lt]; lia.
  Qed.

  Lemma until_marker_ops ops rest :
    Forall (range_ok bs olds) ops -> until_marker (map op_msg ops ++ hey_msg :: rest) = Ok rest.
  Proof.
    induction 1 as [|o ops Ho _ IH]; cbn [map app until_marker].
    - rewrite as_so_hey. reflexivity.
    - rewrite op_type_not_hey by assumption. exact IH.
  Qed.

  (* ---------------------------------------------------------------- the writer *)

  Variable p : path.
  Variable L : nat.         (* declared size of the file being written *)

  (** the writer has written [written] so far into the pre-sized file *)
  Definition wgood (w : wst) (written : list byte) : Prop :=
    w_path w = p /\ w_off w = length written /\
    tlookup (p_tree (w_st w)) p = Some (File (written ++ zeros (L - length written))).

  Lemma w_write_next w written data :
    wgood w written -> (length written + length data <= L)%nat ->
    exists w', w_write w data = Ok w' /\ wgood w' (written ++ data) /\
      (forall q, q <> p -> tlookup (p_tree (w_st w')) q = tlookup (p_tree (w_st w)) q).
  Proof.
    intros (Hp & Ho & Hf) Hlen. unfold w_write. destruct data as [|b data].
    - exists w. rewrite app_nil_r. split; [reflexivity|]. split; [split; [|split]; assumption|reflexivity].
    - rewrite Hp, (entry_write_file _ _ _ _ _ Hf). cbn [bind]. eexists. split; [reflexivity|]. split.
      + unfold wgood. cbn [w_path w_off w_st p_tree]. split; [reflexivity|]. split; [rewrite Ho, app_length; reflexivity|].
        rewrite tlookup_tset_same, Ho, pwrite_next by assumption. reflexivity.
      + intros q Hq. cbn [w_st p_tree]. apply tlookup_tset_other. intros E. apply Hq. symmetry. assumption.
  Qed.

  Lemma wgood_ev w written e : wgood w written -> wgood (mkW (ev (w_st w) e) (w_path w) (w_off w)) written.
  Proof. intros (Hp & Ho & Hf). unfold wgood. cbn [w_path w_off w_st ev p_tree]. repeat split; assumption. Qed.

  Lemma denote_length_le o : forall ops, In o ops -> (length (denote bs olds o) <= length (replay bs olds ops))%nat.
  Proof.
    induction ops as [|o' ops IH]; intros HI; [destruct HI|]. unfold replay. cbn [flat_map]. rewrite app_length.
    destruct HI as [->|HI]; [lia|]. apply IH in HI. unfold replay in HI. lia.
  Qed.

  (** wsync.ApplySingle on a well-formed op writes what the op denotes *)
  Lemma apply_op_next w written o :
    range_ok bs olds o -> wgood w written -> (length written + length (denote bs olds o) <= L)%nat ->
    exists w', apply_op bs oldC olds w (as_so (op_msg o)) = Ok w' /\ wgood w' (written ++ denote bs olds o) /\
      (forall q, q <> p -> tlookup (p_tree (w_st w')) q = tlookup (p_tree (w_st w)) q).
  Proof.
    intros Ho Hw Hlen. rewrite as_so_op by assumption. unfold apply_op. destruct o as [f i s|d]; cbn [so_type so_file so_block so_span so_data].
    - cbn [T_BLOCK_RANGE Z.eqb]. destruct Ho as (d & Hd & Hi & Hs & Hle).
      destruct (old_aligned old f d Hd) as [pf Hc]. fold oldC in Hc.
      unfold apply_range. rewrite Hc. fold olds in Hd. rewrite Hd.
      destruct (Z.ltb_spec (bs * i) 0) as [Hneg|_]; [nia|].
      rewrite apply_slice_denote by assumption.
      cbn [denote] in *. rewrite Hd in *.
      cbn [w_st w_path w_off].
      pose proof (wgood_ev _ _ (EvSize f) Hw) as H1. pose proof (wgood_ev _ _ (EvRead f) H1) as H2. cbn [w_st w_path w_off] in H2.
      destruct (w_write_next _ _ _ H2 Hlen) as (w' & E & Hg & Hfr). exists w'. split; [exact E|]. split; [assumption|].
      intros q Hq. rewrite Hfr by assumption. reflexivity.
    - cbn [T_BLOCK_RANGE T_DATA Z.eqb Pos.eqb]. cbn [denote] in *. apply w_write_next; assumption.
  Qed.

  (** the relay loop over the ops of a series writes their replay *)
  Lemma relay_ops ops : forall w written rest,
    Forall (range_ok bs olds) ops -> wgood w written ->
    (length written + length (replay bs olds ops) <= L)%nat ->
    exists s', relay bs oldC olds (map op_msg ops ++ hey_msg :: rest) w = Ok (rest, s') /\
      tlookup (p_tree s') p = Some (File ((written ++ replay bs olds ops) ++ zeros (L - length (written ++ replay bs olds ops)))) /\
      (forall q, q <> p -> tlookup (p_tree s') q = tlookup (p_tree (w_st w)) q).
  Proof.
    induction ops as [|o ops IH]; intros w written rest Hall Hw Hlen; cbn [map app relay].
    - rewrite as_so_hey. cbn [so_type HEY Z.eqb Pos.eqb]. exists (w_st w).
      unfold replay. cbn [flat_map]. rewrite app_nil_r. split; [reflexivity|]. split; [apply Hw|reflexivity].
    - inversion Hall as [|? ? Ho Hall']; subst. rewrite op_type_not_hey by assumption.
      rewrite validate_op_ok by assumption. cbn [negb].
      unfold replay in Hlen. cbn [flat_map] in Hlen. rewrite app_length in Hlen. fold (replay bs olds ops) in Hlen.
      destruct (apply_op_next w written o Ho Hw) as (w' & E & Hg & Hfr); [lia|].
      rewrite E. cbn [bind].
      destruct (IH w' (written ++ denote bs olds o) rest Hall' Hg) as (s' & Er & Hf & Hfr'); [rewrite app_length; lia|].
      exists s'. split; [exact Er|]. unfold replay. cbn [flat_map]. fold (replay bs olds ops).
      rewrite app_assoc. split; [exact Hf|]. intros q Hq. rewrite Hfr', Hfr by assumption. reflexivity.
  Qed.
End Series.

(* ------------------------------------------------------------------ one series, then all of them *)

Lemma frames_msgs_map l : frames_msgs (map FMsg l) = Some l.
Proof. induction l as [|m l IH]; cbn [map frames_msgs]; [reflexivity|]. rewrite IH. reflexivity. Qed.

Section Main.
  Variables (bs : Z) (differ : Z -> list byte -> list op) (old new : build).
  Hypothesis Hbs : 0 < bs.
  Hypothesis WFN : wf_build new.
  Hypothesis FO : fits63 old.
  Hypothesis FN : fits63 new.
  Hypothesis DOK : diff_ok bs (contents_of old) differ.

  Let oldC := container_of old.
  Let newC := container_of new.
  Let olds := contents_of old.
  Let files := files_of new.

  Let WFC : wf_container newC := wf_container_of new WFN.

  Lemma files_nodup_new : NoDup (map fst files).
  Proof.
    pose proof (files_nodup newC WFC) as H. unfold newC in H. cbn [container_of c_files] in H.
    rewrite map_map in H. cbn [fst] in H. exact H.
  Qed.

  Lemma new_file_entry idx p data :
    znth files idx = Some (p, data) -> znth (c_files newC) idx = Some (p, Z.of_nat (length data)).
  Proof. intros H. unfold newC. rewrite files_of_container. fold files. rewrite H. reflexivity. Qed.

  (** processing the series WritePatch emits for new file [idx] turns the pre-sized file into
      that file and touches nothing else *)
  Lemma process_series_ok idx p data rest s :
    znth files idx = Some (p, data) ->
    file_ready (p_tree s) p -> tlookup (p_tree s) p = Some (File (zeros (length data))) ->
    exists s', process_rsync bs oldC newC olds idx
                 (map op_msg (differ (preferred_index oldC p) data) ++ hey_msg :: rest) s = Ok (rest, s') /\
      tlookup (p_tree s') p = Some (File data) /\
      (forall q, q <> p -> tlookup (p_tree s') q = tlookup (p_tree s) q).
  Proof.
    intros Hfile Hready Hzero.
    destruct (DOK (preferred_index oldC p) data) as (Hne & Hrep & Hall). fold olds in Hrep, Hall.
    set (ops := differ (preferred_index oldC p) data) in *.
    pose proof (new_file_entry idx p data Hfile) as Hentry.
    (* the branch that goes through the entry writer *)
    assert (Hwriter : exists s', bind (open_writer newC s idx) (fun w =>
                        relay bs oldC olds (map op_msg ops ++ hey_msg :: rest) w) = Ok (rest, s') /\
                      tlookup (p_tree s') p = Some (File data) /\
                      (forall q, q <> p -> tlookup (p_tree s') q = tlookup (p_tree s) q)).
    { unfold open_writer. rewrite Hentry.
      assert (Hr : file_ready (p_tree (ev s (EvWriter idx))) p) by exact Hready.
      rewrite (entry_open_ready _ _ Hr). cbn [bind].
      set (w0 := mkW (mkP (p_tree (ev s (EvWriter idx))) (p_trace (ev s (EvWriter idx)))) p 0).
      assert (Hg : wgood p (length data) w0 []).
      { unfold wgood, w0. cbn [w_path w_off w_st p_tree ev length app]. rewrite Nat.sub_0_r. repeat split. exact Hzero. }
      destruct (relay_ops bs old Hbs FO p (length data) ops w0 [] rest Hall Hg) as (s' & Er & Hf & Hfr);
        [fold olds; rewrite Hrep; cbn [length]; lia|].
      exists s'. fold oldC olds in Er. split; [exact Er|]. fold olds in Hf. rewrite Hrep in Hf. cbn [app] in Hf.
      rewrite Nat.sub_diag in Hf. cbn [zeros repeat] in Hf. rewrite app_nil_r in Hf. split; [exact Hf|].
      intros q Hq. rewrite Hfr by assumption. reflexivity. }
    destruct ops as [|o1 orest] eqn:Eops; [contradiction|].
    pose proof (Forall_inv Hall) as Ho1. pose proof (Forall_inv_tail Hall) as Hrest.
    cbn [map app]. unfold process_rsync.
    assert (Hv : validate_op oldC (as_so (op_msg o1)) = true) by (apply (validate_op_ok bs old Hbs FO o1 Ho1)).
    assert (Hrelay1 : forall w, relay bs oldC olds (op_msg o1 :: map op_msg orest ++ hey_msg :: rest) w =
                                bind (apply_op bs oldC olds w (as_so (op_msg o1))) (fun w' => relay bs oldC olds (map op_msg orest ++ hey_msg :: rest) w')).
    { intros w. cbn [relay]. rewrite (op_type_not_hey bs old Hbs FO o1 Ho1), Hv. reflexivity. }
    assert (Hnonfull :
      exists s', bind (open_writer newC s idx) (fun w => bind (apply_op bs oldC olds w (as_so (op_msg o1)))
                      (fun w' => relay bs oldC olds (map op_msg orest ++ hey_msg :: rest) w')) = Ok (rest, s') /\
        tlookup (p_tree s') p = Some (File data) /\ (forall q, q <> p -> tlookup (p_tree s') q = tlookup (p_tree s) q)).
    { destruct Hwriter as (s' & Hw & Hrest'). exists s'. split; [|exact Hrest'].
      cbn [map app] in Hw. destruct (open_writer newC s idx) as [w| |]; cbn [bind] in *; try discriminate.
      rewrite <- Hrelay1. exact Hw. }
    clear Hwriter Hrelay1.
    rewrite Hv. cbn [negb]. clear Hv.
    destruct (is_full_file_op bs oldC newC idx (as_so (op_msg o1))) as [[|]| |] eqn:Efull; cbn [bind]; [|exact Hnonfull| |].
    - (* a full-file op: Transpose *)
      clear Hnonfull. rewrite (as_so_op bs old Hbs FO o1 Ho1) in *.
      unfold is_full_file_op in Efull. destruct o1 as [f i sp|d]; cbn [so_type so_block so_file so_span T_BLOCK_RANGE T_DATA Z.eqb Pos.eqb negb] in *; [|discriminate].
      destruct (Z.eqb_spec i 0) as [->|Hi0]; cbn [negb] in Efull; [|discriminate].
      destruct Ho1 as (df & Hdf & Hi & Hsp & Hle). fold olds in Hdf.
      destruct (old_aligned old f df Hdf) as [pf Hc]. fold oldC in Hc.
      rewrite Hc, Hentry in Efull.
      destruct (Z.eqb_spec (Z.of_nat (length df)) (Z.of_nat (length data))) as [Hsz|Hsz]; cbn [negb] in Efull; [|discriminate].
      injection Efull as Hspan. apply Z.eqb_eq in Hspan.
      destruct (full_file_op bs olds f sp orest df data Hbs Hdf ltac:(lia) Hspan Hrep) as [Heq _]. subst df.
      unfold transpose, pool_open. rewrite Hc, Hdf. cbn [bind]. rewrite Hentry.
      assert (Hr : file_ready (p_tree (ev (ev s (EvTranspose idx f)) (EvRead f))) p) by exact Hready.
      rewrite (transpose_write_ready _ _ data Hr). cbn [bind].
      rewrite (until_marker_ops bs old Hbs FO orest rest Hrest). cbn [bind].
      eexists. split; [reflexivity|]. cbn [p_tree ev]. split; [apply tlookup_tset_same|].
      intros q Hq. apply tlookup_tset_other. intros E. apply Hq. symmetry. assumption.
    - (* isFullFileOp returns no error *)
      exfalso. unfold is_full_file_op in Efull.
      destruct (negb (so_type (as_so (op_msg o1)) =? T_BLOCK_RANGE)); [discriminate|].
      destruct (negb (so_block (as_so (op_msg o1)) =? 0)); [discriminate|].
      destruct (znth (c_files oldC) (so_file (as_so (op_msg o1)))) as [[? ?]|]; [|discriminate].
      destruct (znth (c_files newC) idx) as [[? ?]|]; [|discriminate].
      destruct (negb (z =? z0)); discriminate.
    - (* ... and does not index out of range: the range is in bounds *)
      exfalso. rewrite (as_so_op bs old Hbs FO o1 Ho1) in Efull. unfold is_full_file_op in Efull.
      destruct o1 as [f i sp|d]; cbn [so_type so_block so_file so_span T_BLOCK_RANGE T_DATA Z.eqb Pos.eqb negb] in *; [|discriminate].
      destruct (negb (i =? 0)); [discriminate|].
      destruct Ho1 as (df & Hdf & _). fold olds in Hdf.
      destruct (old_aligned old f df Hdf) as [pf Hc]. fold oldC in Hc.
      rewrite Hc, Hentry in Efull. destruct (negb (Z.of_nat (length df) =? Z.of_nat (length data))); discriminate.
  Qed.

  Variable t0 : tree.      (* the tree Prepare laid out *)

  (** before file [idx]: files below [idx] hold their content, the others are still the
      zero-filled files of Prepare, and nothing else has changed *)
  Definition Inv (idx : Z) (s : pst) : Prop :=
    (forall j p d, znth files j = Some (p, d) ->
       file_ready (p_tree s) p /\ tlookup (p_tree s) p = Some (File (if j <? idx then d else zeros (length d)))) /\
    (forall q, (forall d, ~ In (q, d) files) -> tlookup (p_tree s) q = tlookup t0 q).

  Lemma run_files_ok fs : forall idx s tch,
    0 <= idx -> idx + Z.of_nat (length fs) = Z.of_nat (length files) ->
    (forall k f, nth_error fs k = Some f -> znth files (idx + Z.of_nat k) = Some f) ->
    Inv idx s ->
    exists s', run_files bs oldC newC olds None (length fs) idx (all_series differ oldC idx fs) s tch
               = Ok (s', tch + Z.of_nat (length fs)) /\ Inv (Z.of_nat (length files)) s'.
  Proof.
    induction fs as [|[p data] fs IH]; intros idx s tch Hidx Hlen Hfs HI.
    - cbn [length run_files all_series]. exists s. rewrite Z.add_0_r. split; [reflexivity|].
      cbn [length] in Hlen. rewrite <- Hlen, Z.add_0_r. exact HI.
    - cbn [length all_series run_files]. unfold file_series. cbn [fst snd app].
      pose proof (Hfs 0%nat (p, data) eq_refl) as Hfile. rewrite Z.add_0_r in Hfile.
      assert (Hsh : as_sh (MSH (mkSH SH_RSYNC idx)) = mkSH SH_RSYNC idx).
      { apply as_sh_own. cbn [pmsg_ok sh_type sh_file]. destruct FN as [Fn _]. fold files in Fn.
        cbn [length] in Hlen. unfold i32_ok, i64_ok, SH_RSYNC. rewrite pow63 in *. change (2^31) with 2147483648. lia. }
      rewrite Hsh. cbn [sh_file sh_type]. rewrite Z.eqb_refl. unfold process_file. cbn [negb SH_RSYNC Z.eqb orb wl_skip].
      rewrite <- app_assoc. cbn [app].
      destruct HI as [HIf HIo]. destruct (HIf idx p data Hfile) as [Hready Hzero].
      rewrite Z.ltb_irrefl in Hzero.
      destruct (process_series_ok idx p data (all_series differ oldC (idx + 1) fs) s Hfile Hready Hzero) as (s1 & Ep & Hdata & Hfr).
      rewrite Ep. cbn [bind fst snd].
      assert (HI1 : Inv (idx + 1) s1).
      { split.
        - intros j pj dj Hj. destruct (Z.eq_dec j idx) as [->|Hne].
          + rewrite Hfile in Hj. injection Hj as <- <-.
            destruct (Z.ltb_spec idx (idx + 1)); [|lia]. split; [|exact Hdata].
            apply (file_ready_frame (p_tree s) _ p p Hready Hfr); [exists (zeros (length data))|exists data]; assumption.
          + assert (Hp : pj <> p).
            { intros ->. apply Hne. eapply (znth_NoDup_fst files); [apply files_nodup_new|eassumption|eassumption]. }
            destruct (HIf j pj dj Hj) as [Rj Lj]. split.
            * apply (file_ready_frame (p_tree s) _ p pj Rj Hfr); [exists (zeros (length data))|exists data]; assumption.
            * rewrite Hfr by assumption. rewrite Lj.
              destruct (Z.ltb_spec j idx), (Z.ltb_spec j (idx + 1)); try reflexivity; lia.
        - intros q Hq. rewrite Hfr; [apply HIo; assumption|].
          intros ->. apply (Hq data). eapply znth_In. eassumption. }
      destruct (IH (idx + 1) s1 (tch + 1)) as (s' & Er & HI'); [lia|cbn [length] in Hlen; lia| |exact HI1|].
      { intros k f Hk. replace (idx + 1 + Z.of_nat k) with (idx + Z.of_nat (S k)) by lia. apply Hfs. exact Hk. }
      exists s'. split; [|exact HI']. rewrite Er. f_equal. f_equal. lia.
  Qed.
End Main.

(** C01 on the model *)
Theorem diff_apply_fresh_lemma bs differ old new algo quality :
  0 < bs -> wf_build new -> fits63 old -> fits63 new -> diff_ok bs (contents_of old) differ ->
  exists t touched trace,
    apply_patch_fresh bs (contents_of old) None (write_patch differ algo quality old new) = Ok (t, touched, trace) /\
    touched = Z.of_nat (length (files_of new)) /\
    forall p, tlookup t p = tlookup new p.
Proof.
  intros Hbs WFN FO FN DOK. unfold apply_patch_fresh, write_patch, read_patch.
  rewrite frames_msgs_map. cbn [option_map]. unfold apply_fresh.
  pose proof (wf_container_of new WFN) as WFC.
  destruct (prepare_spec (container_of new) WFC) as (t0 & E0 & H0). rewrite E0. cbn [bind].
  assert (HI0 : Inv new t0 0 (mkP t0 [])).
  { split.
    - intros j p d Hj. pose proof (new_file_entry new j p d Hj) as He.
      destruct (prepared_ready (container_of new) t0 j p (Z.of_nat (length d)) WFC H0 He) as [R Lk].
      rewrite Nat2Z.id in Lk. cbn [p_tree]. split; [exact R|].
      destruct (Z.ltb_spec j 0) as [Hneg|_]; [apply znth_Some in Hj; lia|exact Lk].
    - reflexivity. }
  destruct (run_files_ok bs differ old new Hbs WFN FO FN DOK t0 (files_of new) 0 (mkP t0 []) 0) as (s' & Er & HI');
    [lia|lia| |exact HI0|].
  { intros k f Hk. unfold znth. cbn [Z.add]. destruct (Z.ltb_spec (Z.of_nat k) 0); [lia|]. rewrite Nat2Z.id. exact Hk. }
  unfold patch_msgs. cbn [container_of c_files] in *. rewrite map_length. rewrite Er. cbn [bind fst snd].
  eexists _, _, _. split; [reflexivity|]. split; [lia|].
  intros p. destruct HI' as [HIf HIo]. destruct WFN as (ND & NR & PC).
  destruct (tlookup new p) as [[d| |d]|] eqn:E.
  - apply tlookup_in in E. apply in_files_of in E. apply In_nth_error in E. destruct E as [k Hk].
    destruct (HIf (Z.of_nat k) p d) as [_ Lk].
    { unfold znth. destruct (Z.ltb_spec (Z.of_nat k) 0); [lia|]. rewrite Nat2Z.id. exact Hk. }
    rewrite Lk. assert (Hlt : (k < length (files_of new))%nat) by (apply nth_error_Some; rewrite Hk; discriminate).
    destruct (Z.ltb_spec (Z.of_nat k) (Z.of_nat (length (files_of new)))); [reflexivity|lia].
  - rewrite HIo, H0, <- E; [apply ctree_of_build_nonfile; [repeat split; assumption|]|];
      intros d Hd; apply in_files_of in Hd; apply (tlookup_nodup new p _ ND) in Hd; rewrite E in Hd; discriminate.
  - rewrite HIo, H0, <- E; [apply ctree_of_build_nonfile; [repeat split; assumption|]|];
      intros d' Hd; apply in_files_of in Hd; apply (tlookup_nodup new p _ ND) in Hd; rewrite E in Hd; discriminate.
  - rewrite HIo, H0, <- E; [apply ctree_of_build_nonfile; [repeat split; assumption|]|];
      intros d Hd; apply in_files_of in Hd; apply (tlookup_nodup new p _ ND) in Hd; rewrite E in Hd; discriminate.
Qed.

(** ... through any codec of the frame list that round-trips *)
Lemma diff_apply_fresh_any_codec_lemma :
  forall (B : Type) (encode : list frame -> B) (decode : B -> option (list frame)),
    (forall fs, decode (encode fs) = Some fs) ->
  forall (bs : Z) (differ : Z -> list byte -> list op) (old new : build) (algo quality : Z),
    0 < bs -> wf_build new -> fits63 old -> fits63 new -> diff_ok bs (contents_of old) differ ->
    exists fs t touched trace,
      decode (encode (write_patch differ algo quality old new)) = Some fs /\
      apply_patch_fresh bs (contents_of old) None fs = Ok (t, touched, trace) /\
      forall p, tlookup t p = tlookup new p.
Proof.
  intros B encode decode RT bs differ old new algo quality Hbs WF FO FN DOK.
  destruct (diff_apply_fresh_lemma bs differ old new algo quality Hbs WF FO FN DOK) as (t & touched & trace & H & _ & Ht).
  exists (write_patch differ algo quality old new), t, touched, trace. split; [apply RT|]. split; assumption.
Qed.

Lemma diff_ok_data_only bs olds : diff_ok bs olds (fun _ data => [OpData data]).
Proof.
  intros pref data. split; [discriminate|]. split; [cbn; apply app_nil_r|]. repeat constructor.
Qed.
