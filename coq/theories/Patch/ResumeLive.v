(** Liveness of checkpoint delivery (Patch/Resume.v) for a source that serves a pending
    request at its very next read (the seek source: [emit] always true) and a consumer that
    always asks ([sched] always true): of any two consecutive iterations of a relay loop
    (rsync or bsdiff series) at least one hands a checkpoint to the consumer.  (It cannot be
    every iteration: PopCheckpoint puts the reader back to Idle after WantSave has been called
    in the same iteration, so the next request is only issued one iteration later.) *)
From Wharf Require Import Base.Prelude Patch.Resume.

Section Live.
  Variables D RAW WS WCK : Type.
  Variable dlen : D -> N.
  Variable blocksize : N.
  Variables tsize ssize : N -> N.
  Variable range_data : N -> N -> N -> D.
  Variable bs_data : N -> Z -> D -> D -> D.
  Variable w_open  : N -> option (N * WCK) -> RAW -> option (WS * RAW).
  Variable w_write : N -> WS -> RAW -> D -> WS * RAW.
  Variable w_save  : N -> WS -> RAW -> (N * WCK) * WS * RAW.
  Variable w_final : N -> WS -> RAW -> RAW.
  Variable w_tell  : WS -> N.
  Variable fresh : bool.
  Variable is_overlay : N -> bool.
  Variable copy_old : N -> RAW.
  Variable stop : nat -> bool.

  Local Notation always := (fun _ : nat => true).
  Local Notation state := (state RAW WS WCK).
  Local Notation stepL := (step D RAW WS WCK dlen blocksize tsize ssize range_data bs_data w_open w_write w_save w_final w_tell fresh is_overlay copy_old always always stop).
  Local Notation sph := (s_ph RAW WS WCK).
  Local Notation srd := (s_rd RAW WS WCK).
  Local Notation soffers := (s_offers RAW WS WCK).

  Definition in_loop (p : phase WS) : bool :=
    match p with PRsLoop _ _ | PBsLoop _ _ _ _ => true | _ => false end.

  (** a reader that waits for its source has asked it *)
  Definition rd_inv (r : reader) : Prop := r_st r = Waiting -> r_want r = true.

  Lemma rd_read_inv : forall r, rd_inv r -> rd_inv (rd_read always r).
  Proof.
    intros [p st wn sr] H. unfold rd_read, rd_inv in *. simpl in *.
    rewrite andb_true_r. destruct wn; simpl; auto. discriminate.
  Qed.

  (** what one iteration of a relay loop does to the reader and to the offers *)
  Lemma save_point_live : forall (s : state) bs w oo t s1 w1 st,
    rd_inv (srd s) ->
    save_point _ _ _ w_save always stop bs w oo t s = (s1, w1, st) ->
    (r_st (srd s) = HasSrc /\ length (soffers s1) = S (length (soffers s)) /\ r_st (srd s1) = Idle /\ rd_inv (srd s1)) \/
    (r_st (srd s) <> HasSrc /\ soffers s1 = soffers s /\ r_st (srd s1) = Waiting /\ r_want (srd s1) = true).
  Proof.
    intros s bs w oo t s1 w1 st Hinv. unfold save_point. destruct (srd s) as [p rst wn sr] eqn:Er.
    unfold rd_inv in Hinv. simpl in Hinv.
    destruct rst; unfold rd_want, rd_pop; simpl.
    - intros H; inversion H; subst; simpl. right. repeat split; auto. discriminate.
    - intros H; inversion H; subst; simpl. right. repeat split; auto. discriminate.
    - destruct (w_save (s_file _ _ _ s) w (s_disk _ _ _ s (s_file _ _ _ s))) as [[c w'] raw'].
      intros H; inversion H; subst; simpl. left. repeat split; auto. unfold rd_inv. simpl. discriminate.
  Qed.

  Lemma write1_rd : forall (s : state) w d, srd (fst (write1 D _ _ _ w_write s w d)) = srd s /\ soffers (fst (write1 D _ _ _ w_write s w d)) = soffers s.
  Proof. intros. unfold write1. destruct (w_write _ _ _ _). simpl. auto. Qed.

  (** after one loop iteration that keeps running: either it offered a checkpoint, or the
      source checkpoint is now in hand (so the next iteration offers) *)
  Lemma loop_step_live : forall (s : state) m s',
    in_loop (sph s) = true -> rd_inv (srd s) -> stepL s m = Running _ _ _ s' ->
    rd_inv (srd s') /\
    (length (soffers s') = S (length (soffers s)) \/ (soffers s' = soffers s /\ r_st (srd s') = HasSrc)).
  Proof.
    intros s m s' Hl Hinv. unfold step. destruct (sph s) eqn:Es; simpl in Hl; try discriminate.
    - destruct (save_point _ _ _ w_save always stop false w 0%Z 0%N s) as [[s1 w1] st] eqn:Esave.
      pose proof (save_point_live _ _ _ _ _ _ _ _ Hinv Esave) as Hsp.
      destruct st; try discriminate.
      assert (Hrd : forall s2, srd s2 = srd (read1 _ _ _ always s1) -> soffers s2 = soffers s1 ->
                rd_inv (srd s2) /\ (length (soffers s2) = S (length (soffers s)) \/ (soffers s2 = soffers s /\ r_st (srd s2) = HasSrc))).
      { intros s2 E1 E2. rewrite E1, E2. simpl. destruct Hsp as [(A & B & C0 & I)|(A & B & C0 & W)].
        - split; [now apply rd_read_inv|]. left; auto.
        - split; [apply rd_read_inv; unfold rd_inv; auto|]. right. split; auto.
          unfold rd_read. rewrite W. reflexivity. }
      destruct m; try discriminate.
      + pose proof (write1_rd (read1 _ _ _ always s1) w1 (range_data f bi span)) as (Q1 & Q2).
        destruct (write1 D _ _ _ w_write (read1 _ _ _ always s1) w1 (range_data f bi span)) as [s3 w3].
        intros H; inversion H; subst. apply Hrd; simpl in *; auto.
      + pose proof (write1_rd (read1 _ _ _ always s1) w1 d) as (Q1 & Q2).
        destruct (write1 D _ _ _ w_write (read1 _ _ _ always s1) w1 d) as [s3 w3].
        intros H; inversion H; subst. apply Hrd; simpl in *; auto.
      + intros H; inversion H; subst. apply Hrd; reflexivity.
    - destruct (save_point _ _ _ w_save always stop true w oldoff target s) as [[s1 w1] st] eqn:Esave.
      pose proof (save_point_live _ _ _ _ _ _ _ _ Hinv Esave) as Hsp.
      destruct st; try discriminate.
      assert (Hrd : forall s2, srd s2 = srd (read1 _ _ _ always s1) -> soffers s2 = soffers s1 ->
                rd_inv (srd s2) /\ (length (soffers s2) = S (length (soffers s)) \/ (soffers s2 = soffers s /\ r_st (srd s2) = HasSrc))).
      { intros s2 E1 E2. rewrite E1, E2. simpl. destruct Hsp as [(A & B & C0 & I)|(A & B & C0 & W)].
        - split; [now apply rd_read_inv|]. left; auto.
        - split; [apply rd_read_inv; unfold rd_inv; auto|]. right. split; auto.
          unfold rd_read. rewrite W. reflexivity. }
      destruct m; try discriminate.
      + pose proof (write1_rd (read1 _ _ _ always s1) w1 (bs_data target oldoff add copy)) as (Q1 & Q2).
        destruct (write1 D _ _ _ w_write (read1 _ _ _ always s1) w1 (bs_data target oldoff add copy)) as [s3 w3].
        intros H; inversion H; subst. apply Hrd; simpl in *; auto.
      + intros H; inversion H; subst. apply Hrd; reflexivity.
  Qed.

  (** an iteration that starts with the source checkpoint in hand offers a checkpoint,
      whether it then continues or is told to stop *)
  Lemma loop_step_has : forall (s : state) m r,
    in_loop (sph s) = true -> r_st (srd s) = HasSrc -> stepL s m = r ->
    match r with
    | Running _ _ _ s' | Stopped _ _ _ s' => length (soffers s') = S (length (soffers s))
    | _ => True
    end.
  Proof.
    intros s m r Hl Hh Hr. subst r. unfold step. destruct (sph s) eqn:Es; simpl in Hl; try discriminate.
    - destruct (save_point _ _ _ w_save always stop false w 0%Z 0%N s) as [[s1 w1] st] eqn:Esave.
      assert (Hinv : rd_inv (srd s)) by (unfold rd_inv; rewrite Hh; discriminate).
      destruct (save_point_live _ _ _ _ _ _ _ _ Hinv Esave) as [(A & B & _)|(A & _)]; [|congruence].
      destruct st; auto. destruct m; auto.
      + pose proof (write1_rd (read1 _ _ _ always s1) w1 (range_data f bi span)) as (Q1 & Q2).
        destruct (write1 D _ _ _ w_write (read1 _ _ _ always s1) w1 (range_data f bi span)). simpl in *. congruence.
      + pose proof (write1_rd (read1 _ _ _ always s1) w1 d) as (Q1 & Q2).
        destruct (write1 D _ _ _ w_write (read1 _ _ _ always s1) w1 d). simpl in *. congruence.
    - destruct (save_point _ _ _ w_save always stop true w oldoff target s) as [[s1 w1] st] eqn:Esave.
      assert (Hinv : rd_inv (srd s)) by (unfold rd_inv; rewrite Hh; discriminate).
      destruct (save_point_live _ _ _ _ _ _ _ _ Hinv Esave) as [(A & B & _)|(A & _)]; [|congruence].
      destruct st; auto. destruct m; auto.
      pose proof (write1_rd (read1 _ _ _ always s1) w1 (bs_data target oldoff add copy)) as (Q1 & Q2).
      destruct (write1 D _ _ _ w_write (read1 _ _ _ always s1) w1 (bs_data target oldoff add copy)). simpl in *. congruence.
  Qed.

  (** C03, liveness for the seek source *)
  Lemma saves_happen_lemma : forall (s : state) m s' m' r,
    in_loop (sph s) = true -> rd_inv (srd s) ->
    stepL s m = Running _ _ _ s' -> in_loop (sph s') = true -> stepL s' m' = r ->
    match r with
    | Running _ _ _ s'' | Stopped _ _ _ s'' => length (soffers s) < length (soffers s'')
    | _ => True
    end.
  Proof.
    intros s m s' m' r Hl Hinv H1 Hl' H2.
    destruct (loop_step_live _ _ _ Hl Hinv H1) as (Hinv' & [Hoff|(Hsame & Hhas)]).
    - (* the first iteration offered; offers never shrink *)
      subst r. unfold step. destruct (sph s') eqn:Es; simpl in Hl'; try discriminate.
      + destruct (save_point _ _ _ w_save always stop false w 0%Z 0%N s') as [[s1 w1] st] eqn:Esave.
        assert (Hmono : length (soffers s') <= length (soffers s1)).
        { destruct (save_point_live _ _ _ _ _ _ _ _ Hinv' Esave) as [(_ & B & _)|(_ & B & _)]; rewrite B; auto. }
        destruct st; [simpl; lia|]. destruct m'; auto.
        * pose proof (write1_rd (read1 _ _ _ always s1) w1 (range_data f bi span)) as (Q1 & Q2).
          destruct (write1 D _ _ _ w_write (read1 _ _ _ always s1) w1 (range_data f bi span)). simpl in *. rewrite Q2. lia.
        * pose proof (write1_rd (read1 _ _ _ always s1) w1 d) as (Q1 & Q2).
          destruct (write1 D _ _ _ w_write (read1 _ _ _ always s1) w1 d). simpl in *. rewrite Q2. lia.
        * simpl. lia.
      + destruct (save_point _ _ _ w_save always stop true w oldoff target s') as [[s1 w1] st] eqn:Esave.
        assert (Hmono : length (soffers s') <= length (soffers s1)).
        { destruct (save_point_live _ _ _ _ _ _ _ _ Hinv' Esave) as [(_ & B & _)|(_ & B & _)]; rewrite B; auto. }
        destruct st; [simpl; lia|]. destruct m'; auto.
        * pose proof (write1_rd (read1 _ _ _ always s1) w1 (bs_data target oldoff add copy)) as (Q1 & Q2).
          destruct (write1 D _ _ _ w_write (read1 _ _ _ always s1) w1 (bs_data target oldoff add copy)). simpl in *. rewrite Q2. lia.
        * simpl. lia.
    - pose proof (loop_step_has _ _ _ Hl' Hhas H2) as H. rewrite Hsame in H.
      destruct r; auto; lia.
  Qed.

  (** the reader invariant holds along every run (it holds in [start_state] and in every
      [resume_state], whose readers are Idle) *)
  Lemma rd_inv_step : forall (s : state) m s', rd_inv (srd s) -> stepL s m = Running _ _ _ s' -> rd_inv (srd s').
  Proof.
    intros s m s' Hinv H. destruct (in_loop (sph s)) eqn:El.
    { eapply loop_step_live; eauto. }
    revert H. unfold step. destruct (sph s) eqn:Es; simpl in El; try discriminate.
    - destruct m; try discriminate. destruct (N.eqb fi (s_file _ _ _ s)); try discriminate.
      intros H; inversion H; subst. simpl. now apply rd_read_inv.
    - destruct (is_full_file_op D blocksize tsize ssize (s_file _ _ _ s) m).
      + destruct (transpose RAW fresh copy_old (s_file _ _ _ s) n (s_bowl _ _ _ (read1 _ _ _ always s)) (s_disk _ _ _ (read1 _ _ _ always s))).
        intros H; inversion H; subst. simpl. now apply rd_read_inv.
      + unfold open1. destruct (w_open _ _ _) as [[w raw']|]; try discriminate.
        destruct m; try discriminate.
        * match goal with |- context[write1 D _ _ _ w_write ?a ?b ?c] => pose proof (write1_rd a b c) as (Q1 & Q2); destruct (write1 D _ _ _ w_write a b c) end.
          intros H; inversion H; subst. simpl in *. rewrite Q1. now apply rd_read_inv.
        * match goal with |- context[write1 D _ _ _ w_write ?a ?b ?c] => pose proof (write1_rd a b c) as (Q1 & Q2); destruct (write1 D _ _ _ w_write a b c) end.
          intros H; inversion H; subst. simpl in *. rewrite Q1. now apply rd_read_inv.
    - destruct m; intros H; inversion H; subst; simpl; now apply rd_read_inv.
    - destruct m; try discriminate. unfold open1. destruct (w_open _ _ _) as [[w raw']|]; try discriminate.
      intros H; inversion H; subst. simpl. now apply rd_read_inv.
    - destruct m; try discriminate. destruct (N.eqb _ _); try discriminate.
      intros H; inversion H; subst. simpl. now apply rd_read_inv.
  Qed.
End Live.
