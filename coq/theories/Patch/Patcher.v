(** Model of repo/pwr/patcher: [savingPatcher.Resume] (from the start, no checkpoint) as a state
    machine over the message list, applied through a fresh bowl (Bowl/Fresh.v) and an old-build
    pool that serves [olds] (the actual old files, by index) under the old container's sizes.

      patcher.go        Resume loop: SyncHeader, index check, series kind, whitelist => skipFile
      patcher_rsync.go  first op; isFullFileOp => bowl.Transpose, then read up to the end
                        marker ignoring everything; otherwise bowl.GetWriter and every op is
                        applied by wsync.ApplySingleFull (opSize / lastSize arithmetic below)
      patcher_bsdiff.go BsdiffHeader, Control* until eof (bsdiff.IndividualPatchContext.Apply),
                        end marker, final size check
    Every frame is decoded as the type the reader's state expects (Patch/Reinterp.v).
    The trace records the calls a recording bowl / recording pool would see.
    Not modelled: checkpoints (C03), progress, int64 overflow of offsets.
    Definitions only; lemmas in Patch/PatcherProofs.v. *)
From Wharf Require Import Base.Prelude Bowl.Fresh Patch.Reinterp Patch.Stream.
Local Open Scope Z_scope.

Inductive event :=
| EvWriter (i : Z)                (* bowl.GetWriter(i) *)
| EvTranspose (src tgt : Z)       (* bowl.Transpose{SourceIndex: src, TargetIndex: tgt} *)
| EvSize (i : Z)                  (* targetPool.GetSize(i) *)
| EvRead (i : Z).                 (* targetPool.GetReader / GetReadSeeker(i) *)

Record pst := mkP { p_tree : tree; p_trace : list event }.
Definition ev (s : pst) (e : event) : pst := mkP (p_tree s) (p_trace s ++ [e]).

(** an open entry writer: its path and its offset (freshEntryWriter) *)
Record wst := mkW { w_st : pst; w_path : path; w_off : nat }.

Section Patcher.
  Variable bs : Z.                       (* pwr.BlockSize *)
  Variables oldC newC : container.       (* target / source container of the patch *)
  Variable olds : list (list byte).      (* the old build on disk, by old file index *)
  Variable whitelist : option (list Z).  (* SetSourceIndexWhitelist: keys mapped to true *)

  (** the old-build pool: fspool indexes container.Files (a panic when out of range), then
      opens the file on disk (an error when it is not there) *)
  Definition pool_open (i : Z) : res (list byte) :=
    match znth (c_files oldC) i with
    | None => Panic
    | Some _ => match znth olds i with None => Err | Some d => Ok d end
    end.

  (** writer.Write *)
  Definition w_write (w : wst) (data : list byte) : res wst :=
    match data with
    | [] => Ok w                      (* no Write call reaches the file *)
    | _ => bind (entry_write (p_tree (w_st w)) (w_path w) (w_off w) data) (fun t =>
           Ok (mkW (mkP t (p_trace (w_st w))) (w_path w) (w_off w + length data)))
    end.

  (** wsync.ApplySingleFull, OpBlockRange (failFast):
        fileSize := pool.GetSize(op.FileIndex)
        fixedSize := (op.BlockSpan - 1) * blockSize
        lastIndex := op.BlockIndex + (op.BlockSpan - 1)
        lastSize := blockSize; if blockSize*(lastIndex+1) > fileSize { lastSize = fileSize % blockSize }
        opSize := fixedSize + lastSize
        target := pool.GetReadSeeker(op.FileIndex); target.Seek(blockSize*op.BlockIndex)
        io.CopyBuffer(output, io.LimitReader(target, opSize))   -- fewer bytes at EOF, no error *)
  Definition op_size (fileSize blockIndex blockSpan : Z) : Z :=
    let fixedSize := (blockSpan - 1) * bs in
    let lastIndex := blockIndex + (blockSpan - 1) in
    let lastSize := if bs * (lastIndex + 1) >? fileSize then Z.rem fileSize bs else bs in
    fixedSize + lastSize.

  Definition apply_range (w : wst) (f i s : Z) : res wst :=
    let w1 := mkW (ev (w_st w) (EvSize f)) (w_path w) (w_off w) in
    match znth (c_files oldC) f with
    | None => Panic
    | Some (_, fileSize) =>
      let w2 := mkW (ev (w_st w1) (EvRead f)) (w_path w) (w_off w) in
      match znth olds f with
      | None => Err
      | Some d =>
        if bs * i <? 0 then Err
        else w_write w2 (slice d (bs * i) (op_size fileSize i s))
      end
    end.

  (** makeWop + ApplySingle *)
  Definition apply_op (w : wst) (o : sync_op) : res wst :=
    if so_type o =? T_BLOCK_RANGE then apply_range w (so_file o) (so_block o) (so_span o)
    else if so_type o =? T_DATA then w_write w (so_data o)
    else Err.

  (** validateOp (repo commit "fix: patcher returns an error for block range ops whose file index
      is outside the target container"): true = nil *)
  Definition validate_op (o : sync_op) : bool :=
    if so_type o =? T_BLOCK_RANGE
    then (0 <=? so_file o) && (so_file o <? Z.of_nat (length (c_files oldC)))
    else true.

  (** isFullFileOp (indexes targetContainer.Files[op.FileIndex]; validateOp ran before) *)
  Definition is_full_file_op (idx : Z) (o : sync_op) : res bool :=
    if negb (so_type o =? T_BLOCK_RANGE) then Ok false
    else if negb (so_block o =? 0) then Ok false
    else match znth (c_files oldC) (so_file o), znth (c_files newC) idx with
         | Some (_, tsize), Some (_, osize) =>
           if negb (tsize =? osize) then Ok false
           else Ok (so_span o =? num_blocks bs osize)
         | _, _ => Panic
         end.

  (** bowl.GetWriter(idx) + writer.Resume(nil) *)
  Definition open_writer (s : pst) (idx : Z) : res wst :=
    let s1 := ev s (EvWriter idx) in
    match znth (c_files newC) idx with
    | None => Panic
    | Some (p, _) => bind (entry_open (p_tree s1) p) (fun t => Ok (mkW (mkP t (p_trace s1)) p 0))
    end.

  (** freshBowl.Transpose: TargetPool.GetReader(tgt), OutputPool.GetWriter(src), io.Copy *)
  Definition transpose (s : pst) (src tgt : Z) : res pst :=
    let s1 := ev (ev s (EvTranspose src tgt)) (EvRead tgt) in
    bind (pool_open tgt) (fun d =>
    match znth (c_files newC) src with
    | None => Panic
    | Some (p, _) => bind (transpose_write (p_tree s1) p d) (fun t => Ok (mkP t (p_trace s1)))
    end).

  (** readUntilEndMarker after a full-file op: everything up to the marker is ignored *)
  Fixpoint until_marker (ms : list pmsg) : res (list pmsg) :=
    match ms with
    | [] => Err
    | m :: r => if so_type (as_so m) =? HEY then Ok r else until_marker r
    end.

  (** the relay loop of processRsync *)
  Fixpoint relay (ms : list pmsg) (w : wst) : res (list pmsg * pst) :=
    match ms with
    | [] => Err
    | m :: r => let o := as_so m in
                if so_type o =? HEY then Ok (r, w_st w)
                else if negb (validate_op o) then Err
                else bind (apply_op w o) (fun w' => relay r w')
    end.

  Definition process_rsync (idx : Z) (ms : list pmsg) (s : pst) : res (list pmsg * pst) :=
    match ms with
    | [] => Err
    | m :: r =>
      let o := as_so m in
      if negb (validate_op o) then Err else
      bind (is_full_file_op idx o) (fun full =>
      if full then
        bind (transpose s idx (so_file o)) (fun s' =>
        bind (until_marker r) (fun r' => Ok (r', s')))
      else
        bind (open_writer s idx) (fun w =>
        bind (apply_op w o) (fun w' => relay r w')))
    end.

  (** bsdiff.IndividualPatchContext.Apply: lrufile.Seek(OldOffset) must land inside [0,size];
      add = old bytes + ctrl.Add (mod 256), exactly len(Add) of them; copy; OldOffset += seek *)
  Fixpoint add_bytes (a b : list byte) : list byte :=
    match a, b with
    | x :: a', y :: b' => ((x + y) mod 256)%N :: add_bytes a' b'
    | _, _ => []
    end.
  Definition bs_apply (old : list byte) (off : Z) (c : control) (w : wst) : res (Z * wst) :=
    if (off <? 0) || (off >? Z.of_nat (length old)) then Err
    else
      let addlen := Z.of_nat (length (ct_add c)) in
      if off + addlen >? Z.of_nat (length old) then Err
      else bind (w_write w (add_bytes (ct_add c) (skipn (Z.to_nat off) old))) (fun w1 =>
           bind (w_write w1 (ct_copy c)) (fun w2 =>
           Ok (off + addlen + ct_seek c, w2))).

  Fixpoint ctrl_loop (old : list byte) (off : Z) (ms : list pmsg) (w : wst) : res (list pmsg * wst) :=
    match ms with
    | [] => Err
    | m :: r => let c := as_ct m in
                if ct_eof c then Ok (r, w)
                else bind (bs_apply old off c w) (fun ow => ctrl_loop old (fst ow) r (snd ow))
    end.

  Definition process_bsdiff (idx : Z) (ms : list pmsg) (s : pst) : res (list pmsg * pst) :=
    match ms with
    | [] => Err
    | m :: r =>
      let tgt := bh_target (as_bh m) in
      (* repo commit "fix: patcher returns an error for a bsdiff header whose target index is
         outside the target container" *)
      if (tgt <? 0) || (tgt >=? Z.of_nat (length (c_files oldC))) then Err else
      let s1 := ev s (EvRead tgt) in
      bind (pool_open tgt) (fun old =>
      bind (open_writer s1 idx) (fun w =>
      bind (ctrl_loop old 0 r w) (fun rw =>
      match fst rw with
      | [] => Err
      | m2 :: r2 =>
        if negb (so_type (as_so m2) =? HEY) then Err
        else match znth (c_files newC) idx with
             | Some (_, size) => if Z.of_nat (w_off (snd rw)) =? size then Ok (r2, w_st (snd rw)) else Err
             | None => Panic
             end
      end)))
    end.

  (** processFile: by series kind *)
  Definition process_file (kind idx : Z) (ms : list pmsg) (s : pst) : res (list pmsg * pst) :=
    if kind =? SH_RSYNC then process_rsync idx ms s else process_bsdiff idx ms s.

  (** skipFile (after repo commit "fix: skipFile follows the series kind announced by the sync
      header"): an rsync series is read as SyncOps up to the end marker; a bsdiff series as
      BsdiffHeader, Controls up to and including the one marked eof, then the end marker *)
  Fixpoint skip_rsync (ms : list pmsg) : res (list pmsg) :=
    match ms with
    | [] => Err
    | m :: r => if so_type (as_so m) =? HEY then Ok r else skip_rsync r
    end.
  Fixpoint skip_ctrls (ms : list pmsg) : res (list pmsg) :=
    match ms with
    | [] => Err
    | m :: r => if ct_eof (as_ct m) then Ok r else skip_ctrls r
    end.
  Definition skip_bsdiff (ms : list pmsg) : res (list pmsg) :=
    match ms with
    | [] => Err
    | _ :: r => bind (skip_ctrls r) (fun r' =>
                match r' with
                | [] => Err
                | m2 :: r2 => if so_type (as_so m2) =? HEY then Ok r2 else Err
                end)
    end.
  Definition skip_file (kind : Z) (ms : list pmsg) : res (list pmsg) :=
    if kind =? SH_BSDIFF then skip_bsdiff ms else skip_rsync ms.

  (** skipFile as it was before that commit: every frame decoded as a SyncOp, whatever the
      series kind (kept for [skip_v0_desync] in Patch/PatcherProofs.v, the recorded defect) *)
  Definition skip_file_v0 (kind : Z) (ms : list pmsg) : res (list pmsg) := skip_rsync ms.

  Definition wl_skip (fileIndex : Z) : bool :=
    match whitelist with
    | None => false
    | Some l => negb (existsb (Z.eqb fileIndex) l)
    end.

  (** the Resume loop: [n] files left, [idx] = c.FileIndex *)
  Fixpoint run_files (n : nat) (idx : Z) (ms : list pmsg) (s : pst) (touched : Z) : res (pst * Z) :=
    match n with
    | O => Ok (s, touched)
    | S n' =>
      match ms with
      | [] => Err
      | m :: r =>
        let sh := as_sh m in
        if negb (sh_file sh =? idx) then Err
        else if negb ((sh_type sh =? SH_RSYNC) || (sh_type sh =? SH_BSDIFF)) then Err
        else if wl_skip (sh_file sh) then
          bind (skip_file (sh_type sh) r) (fun r' => run_files n' (idx + 1) r' s touched)
        else
          bind (process_file (sh_type sh) idx r s)
               (fun rs => run_files n' (idx + 1) (fst rs) (snd rs) (touched + 1))
      end
    end.

  (** NewFreshBowl (Prepare into the empty output directory) + Resume(nil) + Commit *)
  Definition apply_fresh (ms : list pmsg) : res (tree * Z * list event) :=
    bind (prepare newC []) (fun t =>
    bind (run_files (length (c_files newC)) 0 ms (mkP t []) 0) (fun st =>
    Ok (p_tree (fst st), snd st, p_trace (fst st)))).
End Patcher.

(** a whole patch given as frames: patcher.New then the above *)
Definition apply_patch_fresh (bs : Z) (olds : list (list byte)) (whitelist : option (list Z)) (fs : list frame)
  : res (tree * Z * list event) :=
  match read_patch fs with
  | None => Err
  | Some (_, _, oldC, newC, ms) => apply_fresh bs oldC newC olds whitelist ms
  end.
