(** Model of the resumable patcher: pwr/patcher/patcher.go ([New], [Resume], the outer
    [for c.FileIndex < numFiles] loop), patcher_rsync.go ([processRsync], [isFullFileOp]),
    patcher_bsdiff.go ([processBsdiff]), the save blocks that assemble a [Checkpoint],
    wire/read_context.go ([WantSave], [PopCheckpoint], [Resume], the source's OnSave callback),
    and the bowl's work lists (bowl_overlay.go [markOverlay], [markMove], [Transpose], [Save],
    [Resume]; bowl_fresh.go [Transpose], creation = tlc [Prepare]).

    The patcher is a machine that consumes the message list one message per step.  Definitions
    only; the proofs are in Patch/ResumeProofs.v, the concrete entry writer of the fresh bowl
    (and of staged new files of the overlay bowl) in Patch/PlainWriter.v.

    What is abstract (section variables), and why:
    - payloads [D] with their length [dlen]: every offset the patcher computes depends on
      payloads only through their length.  The theorems hold for every [D]; the executable
      instance of the correspondence uses [D := N] (lengths only);
    - the old build: [range_data] is what [wsync.ApplySingle] copies for a BLOCK_RANGE op,
      [bs_data t off add copy] is what [bsdiff Apply] writes for a control when the old-file
      cursor is at [off].  The old build is not modified while patching (fresh bowl: other
      directory; overlay bowl: only at Commit), hence these are functions;
    - entry writers [w_*] (per source file, as handed out by [Bowl.GetWriter]), the raw working
      files [RAW] they act on and the logical content [C] that [Commit] makes of them
      ([w_result]).  Patch/PlainWriter.v instantiates them for [freshEntryWriter]; the overlay
      entry writer is the subject of C14 and enters the theorems through the contract
      [writer_ok] (Patch/ResumeProofs.v);
    - the source below the message reader: [emit p] says whether the source, once asked,
      hands its checkpoint out while message [p] is being read (seek source: always; a
      decompressor: at its next block boundary), [src_resume] is [ReadContext.Resume]
      (source resume + discard), characterised by C13 ([H_wire] in the theorems). *)
From Wharf Require Import Base.Prelude.

Section Resume.
  Variables D C RAW WS WCK : Type.
  Variable dlen : D -> N.

  (** containers and the old build *)
  Variable blocksize : N.
  Variables tsize ssize : N -> N.     (* sizes of the target (old) / source (new) files *)
  Variable nfiles : N.                (* len(sourceContainer.Files) *)
  Variable range_data : N -> N -> N -> D.
  Variable bs_data : N -> Z -> D -> D -> D.

  (** entry writers: GetWriter+Resume, Write, Save (flush, sync, checkpoint), Finalize+Close,
      Tell; [w_result f raw] = the content of source file [f] after Commit when its working
      file is [raw] *)
  Variable w_open  : N -> option (N * WCK) -> RAW -> option (WS * RAW).
  Variable w_write : N -> WS -> RAW -> D -> WS * RAW.
  Variable w_save  : N -> WS -> RAW -> (N * WCK) * WS * RAW.
  Variable w_final : N -> WS -> RAW -> RAW.
  Variable w_tell  : WS -> N.
  Variable w_result : N -> RAW -> option C.

  (** the bowl *)
  Variable fresh : bool.              (* fresh bowl / overlay bowl *)
  Variable is_overlay : N -> bool.    (* overlay bowl: the path of source file f exists in the old build *)
  Variable prepare : N -> RAW -> RAW. (* creation of a fresh bowl: tlc.Prepare on file f *)
  Variable copy_old : N -> RAW.       (* freshBowl.Transpose: truncating copy of old file t *)
  Variable old_content : N -> C.

  (** the source below the message reader *)
  Variable emit : nat -> bool.
  Variable src_resume : nat -> nat -> option nat.   (* reader offset, source offset -> where reading restarts *)

  Inductive msg :=
  | MHeader (fi : N) (bsdiff : bool)      (* SyncHeader *)
  | MRange (f bi span : N)                (* SyncOp BLOCK_RANGE *)
  | MData (d : D)                         (* SyncOp DATA *)
  | MEnd                                  (* SyncOp HEY_YOU_DID_IT *)
  | MBsHeader (target : N)                (* BsdiffHeader *)
  | MCtrl (add copy : D) (seek : Z)       (* bsdiff Control *)
  | MCtrlEof.                             (* bsdiff Control{eof} *)

  (** ** wire.ReadContext at message granularity *)
  Inductive savest := Idle | Waiting | HasSrc.
  Record reader := mkrd { r_pos : nat; r_st : savest; r_want : bool; r_src : nat }.

  (** ReadMessage: the source's Read runs [handleSave] first, so a pending request is served
      at the offset where this message starts; OnSave stores it and flips the state. *)
  Definition rd_read (r : reader) : reader :=
    if r_want r && emit (r_pos r)
    then mkrd (S (r_pos r)) HasSrc false (r_pos r)
    else mkrd (S (r_pos r)) (r_st r) (r_want r) (r_src r).

  Definition rd_want (r : reader) : reader :=
    match r_st r with
    | Idle => mkrd (r_pos r) Waiting true (r_src r)
    | _ => r
    end.

  Record mckpt := mkmc { mc_off : nat; mc_src : nat }.

  Definition rd_pop (r : reader) : option mckpt * reader :=
    match r_st r with
    | HasSrc => (Some (mkmc (r_pos r) (r_src r)), mkrd (r_pos r) Idle (r_want r) (r_src r))
    | _ => (None, r)
    end.

  (** ** the bowl's work lists *)
  Record bowlck := mkbk { bk_trans : list (N * N) (* source, target *); bk_ovl : list N; bk_move : list N }.
  Definition bowl0 := mkbk [] [] [].

  Definition mark_once (i : N) (l : list N) : list N :=
    if existsb (N.eqb i) l then l else l ++ [i].

  (** overlayBowl.GetWriter's marking (the fresh bowl keeps no lists) *)
  Definition mark (f : N) (b : bowlck) : bowlck :=
    if fresh then b
    else if is_overlay f then mkbk (bk_trans b) (mark_once f (bk_ovl b)) (bk_move b)
    else mkbk (bk_trans b) (bk_ovl b) (mark_once f (bk_move b)).

  Fixpoint trans_put (s t : N) (l : list (N * N)) : list (N * N) :=
    match l with
    | [] => [(s, t)]
    | (s', t') :: r => if N.eqb s' s then (s, t) :: r else (s', t') :: trans_put s t r
    end.

  Definition upd {A} (d : N -> A) (f : N) (v : A) : N -> A := fun g => if N.eqb g f then v else d g.

  (** Bowl.Transpose: the overlay bowl records (replacing an entry for the same source file),
      the fresh bowl copies right away *)
  Definition transpose (s t : N) (b : bowlck) (d : N -> RAW) : bowlck * (N -> RAW) :=
    if fresh then (b, upd d s (copy_old t))
    else (mkbk (trans_put s t (bk_trans b)) (bk_ovl b) (bk_move b), d).

  (** ** checkpoints *)
  Record ckpt := mkck {
    ck_msg : mckpt;        (* MessageCheckpoint *)
    ck_file : N;           (* FileIndex, also SyncHeader.FileIndex *)
    ck_bs : bool;          (* FileKind / SyncHeader.Type *)
    ck_bowl : bowlck;      (* BowlCheckpoint *)
    ck_woff : N;           (* WriterCheckpoint.Offset *)
    ck_wdata : WCK;        (* WriterCheckpoint.Data *)
    ck_old : Z;            (* BsdiffCheckpoint.OldOffset *)
    ck_target : N          (* BsdiffCheckpoint.TargetIndex *)
  }.

  (** ** the machine *)
  Inductive phase :=
  | PFile                                  (* top of the outer loop: the SyncHeader is next *)
  | PRsFirst                               (* processRsync from the beginning: first op is next *)
  | PRsSkip                                (* after a full-file op: read until the end marker *)
  | PRsLoop (w : WS)                       (* the relay loop, writer open *)
  | PBsHeader                              (* processBsdiff from the beginning: BsdiffHeader is next *)
  | PBsLoop (w : WS) (oldoff : Z) (target : N)
  | PBsEnd (w : WS).                       (* the sentinel SyncOp is next *)

  Record state := mkst {
    s_ph : phase;
    s_file : N;
    s_rd : reader;
    s_bowl : bowlck;
    s_disk : N -> RAW;
    s_asked : nat;                               (* ShouldSave calls so far *)
    s_offers : list (ckpt * (N -> RAW))          (* checkpoints handed to Save, newest first, each
                                                    with the disk at that moment (ghost) *)
  }.

  Inductive result :=
  | Running (s : state)
  | Finished (s : state)     (* Resume returned nil *)
  | Stopped (s : state)      (* Resume returned ErrStop *)
  | Failed.                  (* any other error *)

  (** the save consumer: [sched i] answers the i-th ShouldSave call, [stop j] says whether the
      j-th Save (counting from 1) returns AfterSaveStop *)
  Variable sched : nat -> bool.
  Variable stop : nat -> bool.

  Definition set_ph (s : state) (p : phase) : state :=
    mkst p (s_file s) (s_rd s) (s_bowl s) (s_disk s) (s_asked s) (s_offers s).
  Definition set_rd (s : state) (r : reader) : state :=
    mkst (s_ph s) (s_file s) r (s_bowl s) (s_disk s) (s_asked s) (s_offers s).
  Definition read1 (s : state) : state := set_rd s (rd_read (s_rd s)).
  Definition next_file (s : state) : state :=
    mkst PFile (s_file s + 1)%N (s_rd s) (s_bowl s) (s_disk s) (s_asked s) (s_offers s).
  Definition write1 (s : state) (w : WS) (d : D) : state * WS :=
    let f := s_file s in
    let '(w', raw') := w_write f w (s_disk s f) d in
    (mkst (s_ph s) f (s_rd s) (s_bowl s) (upd (s_disk s) f raw') (s_asked s) (s_offers s), w').
  Definition finalize1 (s : state) (w : WS) : state :=
    let f := s_file s in
    mkst (s_ph s) f (s_rd s) (s_bowl s) (upd (s_disk s) f (w_final f w (s_disk s f))) (s_asked s) (s_offers s).

  (** GetWriter + writer.Resume(c) *)
  Definition open1 (s : state) (c : option (N * WCK)) : option (state * WS) :=
    let f := s_file s in
    let b := mark f (s_bowl s) in
    match w_open f c (s_disk s f) with
    | None => None
    | Some (w, raw') => Some (mkst (s_ph s) f (s_rd s) b (upd (s_disk s) f raw') (s_asked s) (s_offers s), w)
    end.

  (** the save block at the top of both relay loops:
      [if sc.ShouldSave() { rctx.WantSave(); if mc := rctx.PopCheckpoint(); mc != nil {
         bowl.Save(); writer.Save(); sc.Save(checkpoint) -> maybe ErrStop } }] *)
  Definition save_point (bs : bool) (w : WS) (oo : Z) (t : N) (s : state) : state * WS * bool :=
    let f := s_file s in
    let asked' := S (s_asked s) in
    if sched (s_asked s) then
      match rd_pop (rd_want (s_rd s)) with
      | (Some mc, rd') =>
          let '(wc, w', raw') := w_save f w (s_disk s f) in
          let disk' := upd (s_disk s) f raw' in
          let ck := mkck mc f bs (s_bowl s) (fst wc) (snd wc) oo t in
          let offers' := (ck, disk') :: s_offers s in
          (mkst (s_ph s) f rd' (s_bowl s) disk' asked' offers', w', stop (length offers'))
      | (None, rd') => (mkst (s_ph s) f rd' (s_bowl s) (s_disk s) asked' (s_offers s), w, false)
      end
    else (mkst (s_ph s) f (s_rd s) (s_bowl s) (s_disk s) asked' (s_offers s), w, false).

  Definition num_blocks (size : N) : N := ((size + blocksize - 1) / blocksize)%N.

  (** patcher_rsync.go isFullFileOp (index bounds are C10's business) *)
  Definition is_full_file_op (file : N) (m : msg) : option N :=
    match m with
    | MRange f bi span =>
        if (N.eqb bi 0 && N.eqb (tsize f) (ssize file) && N.eqb span (num_blocks (ssize file)))%bool
        then Some f else None
    | _ => None
    end.

  (** one loop iteration: (save block,) ReadMessage, act on the message *)
  Definition step (s : state) (m : msg) : result :=
    match s_ph s with
    | PFile =>
        match m with
        | MHeader fi bs =>
            if N.eqb fi (s_file s)
            then Running (set_ph (read1 s) (if bs then PBsHeader else PRsFirst))
            else Failed
        | _ => Failed
        end
    | PRsFirst =>
        let s1 := read1 s in
        match is_full_file_op (s_file s) m with
        | Some t =>
            let '(b, d) := transpose (s_file s) t (s_bowl s1) (s_disk s1) in
            Running (mkst PRsSkip (s_file s1) (s_rd s1) b d (s_asked s1) (s_offers s1))
        | None =>
            match open1 s1 None with
            | None => Failed
            | Some (s2, w) =>
                match m with
                | MRange f bi span => let '(s3, w') := write1 s2 w (range_data f bi span) in Running (set_ph s3 (PRsLoop w'))
                | MData d => let '(s3, w') := write1 s2 w d in Running (set_ph s3 (PRsLoop w'))
                | _ => Failed                      (* makeWop: unknown sync op type *)
                end
            end
        end
    | PRsSkip =>
        match m with
        | MEnd => Running (next_file (read1 s))
        | _ => Running (read1 s)                   (* trailing ops after a full-file op are ignored *)
        end
    | PRsLoop w =>
        let '(s1, w1, stopped) := save_point false w 0%Z 0%N s in
        if stopped then Stopped s1 else
        let s2 := read1 s1 in
        match m with
        | MEnd => Running (next_file (finalize1 s2 w1))
        | MRange f bi span => let '(s3, w') := write1 s2 w1 (range_data f bi span) in Running (set_ph s3 (PRsLoop w'))
        | MData d => let '(s3, w') := write1 s2 w1 d in Running (set_ph s3 (PRsLoop w'))
        | _ => Failed
        end
    | PBsHeader =>
        match m with
        | MBsHeader t =>
            match open1 (read1 s) None with
            | None => Failed
            | Some (s2, w) => Running (set_ph s2 (PBsLoop w 0%Z t))
            end
        | _ => Failed
        end
    | PBsLoop w oo t =>
        let '(s1, w1, stopped) := save_point true w oo t s in
        if stopped then Stopped s1 else
        let s2 := read1 s1 in
        match m with
        | MCtrlEof => Running (set_ph s2 (PBsEnd w1))
        | MCtrl add copy seek =>
            (* ipc.Apply: write add(+old) and copy, then OldOffset += len(add) + seek *)
            let '(s3, w') := write1 s2 w1 (bs_data t oo add copy) in
            Running (set_ph s3 (PBsLoop w' (oo + Z.of_N (dlen add) + seek)%Z t))
        | _ => Failed
        end
    | PBsEnd w =>
        match m with
        | MEnd =>
            if N.eqb (w_tell w) (ssize (s_file s))       (* the final size check *)
            then Running (next_file (finalize1 (read1 s) w))
            else Failed
        | _ => Failed
        end
    end.

  Definition at_end (s : state) : bool :=
    match s_ph s with PFile => (nfiles <=? s_file s)%N | _ => false end.

  (** the outer loop; [ms] = the messages not yet read *)
  Fixpoint run (s : state) (ms : list msg) : result :=
    if at_end s then Finished s else
    match ms with
    | [] => Failed                                   (* unexpected EOF *)
    | m :: ms' =>
        match step s m with
        | Running s' => run s' ms'
        | r => r
        end
    end.

  (** creation of the bowl on disk [d] *)
  Definition bowl_create (d : N -> RAW) : N -> RAW :=
    if fresh then fun f => prepare f (d f) else d.

  (** patcher.New + Resume(nil) with a new bowl *)
  Definition start_state (d : N -> RAW) : state :=
    mkst PFile 0%N (mkrd 0 Idle false 0) bowl0 (bowl_create d) 0 [].

  (** patcher.New + new bowl on disk [d] + Resume(ck): rctx.Resume, bowl.Resume, then
      processRsync / processBsdiff take their "checkpoint != nil" branch *)
  Definition resume_state (ck : ckpt) (d : N -> RAW) : option state :=
    match src_resume (mc_off (ck_msg ck)) (mc_src (ck_msg ck)) with
    | None => None
    | Some p =>
        let s0 := mkst PFile (ck_file ck) (mkrd p Idle false 0)
                       (if fresh then bowl0 else ck_bowl ck) (bowl_create d) 0 [] in
        match open1 s0 (Some (ck_woff ck, ck_wdata ck)) with
        | None => None
        | Some (s1, w) =>
            Some (set_ph s1 (if ck_bs ck then PBsLoop w (ck_old ck) (ck_target ck) else PRsLoop w))
        end
    end.

  Definition run_fresh_start (d : N -> RAW) (ms : list msg) : result := run (start_state d) ms.

  Definition run_resumed (ck : ckpt) (d : N -> RAW) (ms : list msg) : result :=
    match resume_state ck d with
    | None => Failed
    | Some s => run s (skipn (r_pos (s_rd s)) ms)
    end.

  (** ** Commit, as far as the content of each source file goes (paths, renames and their
      ordering are C02's subject): a staged new file is moved, a second move of the same file
      fails because the first one consumed it *)
  Fixpoint nodup_n (l : list N) : bool :=
    match l with [] => true | x :: r => negb (existsb (N.eqb x) r) && nodup_n r end.

  Fixpoint trans_find (f : N) (l : list (N * N)) : option N :=
    match l with [] => None | (s, t) :: r => if N.eqb s f then Some t else trans_find f r end.

  Definition file_result (s : state) (f : N) : option C :=
    if fresh then w_result f (s_disk s f)
    else match trans_find f (bk_trans (s_bowl s)) with
         | Some t => Some (old_content t)
         | None =>
             if (existsb (N.eqb f) (bk_ovl (s_bowl s)) || existsb (N.eqb f) (bk_move (s_bowl s)))%bool
             then w_result f (s_disk s f) else None
         end.

  Definition commit (s : state) : option (list (option C)) :=
    if (fresh || nodup_n (bk_move (s_bowl s)))%bool      (* freshBowl.Commit has nothing to do *)
    then Some (map (fun i => file_result s (N.of_nat i)) (seq 0 (N.to_nat nfiles)))
    else None.

  (** Resume then Commit *)
  Definition outcome_of (r : result) : option (list (option C)) :=
    match r with Finished s => commit s | _ => None end.

End Resume.

Arguments MHeader {D}. Arguments MRange {D}. Arguments MData {D}. Arguments MEnd {D}.
Arguments MBsHeader {D}. Arguments MCtrl {D}. Arguments MCtrlEof {D}.
