(** C10 — the readers of itchio/wharf fed an ARBITRARY framed stream.

    Model (definitions only, executable) of
      - pwr/patcher: savingPatcher.Resume / skipFile / processRsync / isFullFileOp / makeWop /
        processBsdiff, wsync.Context.ApplySingleFull (block-range arithmetic in int64),
        bsdiff.IndividualPatchContext.Apply over bsdiff/lrufile (Seek range check);
      - pwr/rediff: analyzePatch and the second pass of Optimize;
      - pwr.ReadSignature and pwr.ComputeHashInfo;
      - pwr/overlay.OverlayPatchContext.Patch.

    A stream is the list of its frames after the magic number / header / containers (those are
    well-formed by the guard of the property).  A frame is either the generic protobuf field
    list of its payload (field number, wire type, varint value or payload LENGTH - byte
    contents never influence the outcome class) or [B], a frame that cannot be read (cut inside,
    undecodable).  The end of the list is a clean end of file.  Every reader decodes a frame as
    whatever message type its state expects: the decoders below are derived from the field
    numbers and wire types of pwr.proto / bsdiff.proto / overlay.proto (same number and same
    wire type: value carried over, last occurrence wins; anything else is an unknown field).

    Fields are [Z]: arbitrary.  int64 arithmetic on stream values wraps ([wrap64]).
    Every Go indexing / slicing / division site reached with a stream value is an explicit
    [Panic site]; every loop without an a-priori bound runs on fuel, [Hang] = out of fuel.

    [fx : bool] selects the code: [false] = the tree before, [true] = the tree after the commits
    "fix: patcher returns an error for block range ops ...", "fix: patcher returns an error for a
    bsdiff header ...", "fix: rediff returns an error for block range ops ...",
    "fix: ComputeHashInfo checks the number of hashes before slicing them". *)
From Wharf Require Import Base.Prelude.
Local Open Scope Z_scope.

(** * Outcomes *)

Inductive site :=
| SIsFullFileOp        (* patcher_rsync.go isFullFileOp: targetContainer.Files[op.FileIndex] *)
| SPoolGetSize         (* wsync/algo.go ApplySingleFull: pool.GetSize(op.FileIndex) -> container.Files[i] *)
| SPoolGetReadSeeker   (* patcher_bsdiff.go: targetPool.GetReadSeeker(bh.TargetIndex) -> container.Files[i] / nil reader *)
| SAnalyzePatch        (* rediff.go analyzePatch: targetContainer.Files[rop.FileIndex] *)
| SHashInfoSlice       (* hashinfo.go: sigInfo.Hashes[hashIndex : hashIndex+numBlocks] *)
| SDivZero.            (* wsync/algo.go: fileSize % blockSize *)

Inductive res := Ok | Err | Panic (s : site) | Hang.

Definition res_eqb (a b : res) : bool :=
  match a, b with
  | Ok, Ok | Err, Err | Hang, Hang => true
  | Panic _, Panic _ => true       (* the site is documentation, never compared *)
  | _, _ => false
  end.

(** [safe r] : what the property allows *)
Definition safe (r : res) : Prop := r = Ok \/ r = Err.

(** one step of a reader: go on with a state, or stop with an outcome *)
Inductive step (A : Type) := Cont (a : A) | Stop (r : res).
Arguments Cont {A} a.
Arguments Stop {A} r.

(** * Frames *)

Inductive fval := V (v : Z) | L (n : Z) | X.
Definition field := (Z * fval)%type.
Inductive frame := G (fs : list field) | B.
Definition stream := list frame.

(** wire.ReadContext.ReadMessage: next frame, or an error (end of stream, unreadable frame) *)
Definition read (s : stream) : option (list field * stream) :=
  match s with
  | G fs :: r => Some (fs, r)
  | _ => None
  end.

Definition wrap64 (z : Z) : Z := (z + 2^63) mod 2^64 - 2^63.
Definition wrap32 (z : Z) : Z := (z + 2^31) mod 2^32 - 2^31.

(** scalar field [num] of wire type varint / length-delimited; last occurrence wins *)
Fixpoint get_varint (num : Z) (fs : list field) (acc : Z) : Z :=
  match fs with
  | [] => acc
  | (n, V v) :: r => get_varint num r (if n =? num then v else acc)
  | _ :: r => get_varint num r acc
  end.
Fixpoint get_len (num : Z) (fs : list field) (acc : Z) : Z :=
  match fs with
  | [] => acc
  | (n, L l) :: r => get_len num r (if n =? num then l else acc)
  | _ :: r => get_len num r acc
  end.

Definition f_int64 (num : Z) (fs : list field) : Z := wrap64 (get_varint num fs 0).
Definition f_enum (num : Z) (fs : list field) : Z := wrap32 (get_varint num fs 0).
Definition f_bool (num : Z) (fs : list field) : bool := negb (get_varint num fs 0 =? 0).
Definition f_bytes (num : Z) (fs : list field) : Z := get_len num fs 0.

(** pwr.SyncHeader { Type type = 1; int64 fileIndex = 16 } *)
Record syncheader := mkSH { sh_type : Z; sh_file : Z }.
Definition dec_sh (fs : list field) := mkSH (f_enum 1 fs) (f_int64 16 fs).
(** pwr.SyncOp { Type type = 1; int64 fileIndex = 2, blockIndex = 3, blockSpan = 4; bytes data = 5 } *)
Record syncop := mkOp { op_type : Z; op_file : Z; op_block : Z; op_span : Z; op_data : Z }.
Definition dec_op (fs : list field) := mkOp (f_enum 1 fs) (f_int64 2 fs) (f_int64 3 fs) (f_int64 4 fs) (f_bytes 5 fs).
(** pwr.BsdiffHeader { int64 targetIndex = 1 } *)
Definition dec_bh (fs : list field) : Z := f_int64 1 fs.
(** bsdiff.Control { bytes add = 1, copy = 2; int64 seek = 3; bool eof = 4 } *)
Record control := mkCtl { c_add : Z; c_copy : Z; c_seek : Z; c_eof : bool }.
Definition dec_ctl (fs : list field) := mkCtl (f_bytes 1 fs) (f_bytes 2 fs) (f_int64 3 fs) (f_bool 4 fs).
(** overlay.OverlayOp { Type type = 1; int64 len = 2; bytes data = 3 } *)
Record ovlop := mkOv { ov_type : Z; ov_len : Z; ov_data : Z }.
Definition dec_ov (fs : list field) := mkOv (f_enum 1 fs) (f_int64 2 fs) (f_bytes 3 fs).

Definition BLOCK_RANGE : Z := 0.
Definition DATA : Z := 1.
Definition HEY : Z := 2049.          (* SyncOp_HEY_YOU_DID_IT *)
Definition RSYNC : Z := 0.
Definition BSDIFF : Z := 1.
Definition OV_SKIP : Z := 0.
Definition OV_FRESH : Z := 1.
Definition OV_HEY : Z := 2040.

(** * Containers: the list of the file sizes *)

Definition in_range (l : list Z) (i : Z) : bool := (0 <=? i) && (i <? Z.of_nat (length l)).
(** [l[i]]; the range test comes first so that an index like 2^62 is never turned into a unary
    number when the model is executed *)
Definition nth_size (l : list Z) (i : Z) : option Z :=
  if in_range l i then nth_error l (Z.to_nat i) else None.

(** pwr.ComputeNumBlocks (Go's [/] truncates: [Z.quot]) *)
Definition num_blocks (bs size : Z) : Z := Z.quot (size + bs - 1) bs.

(** * wsync.Context.ApplySingleFull, failFast = true, over a file-system pool whose files
      exist with the sizes of the container.  [maxoff]: largest offset the file system lets an
      *os.File seek to.  Returns the number of bytes handed to the writer. *)
Definition apply_block_range (bs maxoff : Z) (tgt : list Z) (fi bi span : Z) : step Z :=
  match nth_size tgt fi with
  | None => Stop (Panic SPoolGetSize)                 (* fileSize := pool.GetSize(op.FileIndex) *)
  | Some fileSize =>
    let fixedSize := wrap64 ((span - 1) * bs) in
    let lastIndex := wrap64 (bi + (span - 1)) in
    let tooFar := wrap64 (bs * (lastIndex + 1)) >? fileSize in
    if tooFar && (bs =? 0) then Stop (Panic SDivZero)  (* lastSize = fileSize % blockSize *)
    else
      let lastSize := if tooFar then Z.rem fileSize bs else bs in
      let opSize := wrap64 (fixedSize + lastSize) in
      (* target, err := pool.GetReadSeeker(op.FileIndex): the file exists *)
      let off := wrap64 (bs * bi) in                   (* target.Seek(blockSize*op.BlockIndex, SEEK_SET) *)
      if (off <? 0) || (off >? maxoff) then Stop Err
      else (* io.CopyBuffer(output, io.LimitReader(target, opSize), buffer): a negative limit reads
              nothing, a huge one is bounded by the file; a short copy is not an error *)
        Cont (Z.max 0 (Z.min opSize (fileSize - off)))
  end.

(** patcher_rsync.go makeWop + ApplySingle *)
Definition apply_op (fx : bool) (bs maxoff : Z) (tgt : list Z) (op : syncop) : step Z :=
  if fx && (op_type op =? BLOCK_RANGE) && negb (in_range tgt (op_file op)) then Stop Err   (* validateOp *)
  else if op_type op =? BLOCK_RANGE then apply_block_range bs maxoff tgt (op_file op) (op_block op) (op_span op)
  else if op_type op =? DATA then Cont (op_data op)
  else Stop Err.                                       (* unknown sync op type *)

(** patcher_rsync.go isFullFileOp; [None] = index out of range *)
Definition is_full_file_op (bs : Z) (tgt : list Z) (outSize : Z) (op : syncop) : option bool :=
  if negb (op_type op =? BLOCK_RANGE) then Some false
  else if negb (op_block op =? 0) then Some false
  else match nth_size tgt (op_file op) with
       | None => None
       | Some tsz => if negb (tsz =? outSize) then Some false
                     else Some (op_span op =? num_blocks bs outSize)
       end.

(** "for { ReadMessage(op); if op.Type == HEY_YOU_DID_IT { break } }" : skipFile, the loop after a
    full-file op, both passes of rediff.Optimize *)
Fixpoint until_hey (fuel : nat) (s : stream) : step stream :=
  match fuel with
  | O => Stop Hang
  | S f => match read s with
           | None => Stop Err
           | Some (fs, s1) => if op_type (dec_op fs) =? HEY then Cont s1 else until_hey f s1
           end
  end.

(** the relay loop of processRsync; [w] = bytes written so far (writer.Tell) *)
Fixpoint relay (fuel : nat) (fx : bool) (bs maxoff : Z) (tgt : list Z) (w : Z) (s : stream) : step stream :=
  match fuel with
  | O => Stop Hang
  | S f => match read s with
           | None => Stop Err
           | Some (fs, s1) =>
             let op := dec_op fs in
             if op_type op =? HEY then Cont s1           (* writer.Finalize() *)
             else match apply_op fx bs maxoff tgt op with
                  | Stop r => Stop r
                  | Cont n => relay f fx bs maxoff tgt (w + n) s1
                  end
           end
  end.

(** processRsync from the start of a file (no checkpoint) *)
Definition process_rsync (fuel : nat) (fx : bool) (bs maxoff : Z) (tgt : list Z) (outSize : Z) (s : stream) : step stream :=
  match read s with
  | None => Stop Err
  | Some (fs, s1) =>
    let op := dec_op fs in
    if fx && (op_type op =? BLOCK_RANGE) && negb (in_range tgt (op_file op)) then Stop Err   (* validateOp *)
    else match is_full_file_op bs tgt outSize op with
         | None => Stop (Panic SIsFullFileOp)
         | Some true => until_hey fuel s1                (* bwl.Transpose, then read up to the end marker *)
         | Some false =>
           (* bwl.GetWriter, writer.Resume(nil); the first op is relayed, then the others *)
           match apply_op fx bs maxoff tgt op with
           | Stop r => Stop r
           | Cont n => relay fuel fx bs maxoff tgt n s1
           end
         end
  end.

(** the control loop of processBsdiff with bsdiff.IndividualPatchContext.Apply inlined;
    [oldSize] size of the old file (lrufile.Reset), [off] = ipc.OldOffset, [w] = writer.Tell *)
Fixpoint controls (fuel : nat) (oldSize off w : Z) (s : stream) : step (Z * stream) :=
  match fuel with
  | O => Stop Hang
  | S f => match read s with
           | None => Stop Err
           | Some (fs, s1) =>
             let c := dec_ctl fs in
             if c_eof c then Cont (w, s1)
             else if (off <? 0) || (off >? oldSize) then Stop Err      (* old.Seek(ipc.OldOffset, io.SeekStart) *)
             else if (0 <? c_add c) && (off + c_add c >? oldSize) then Stop Err   (* copied != addlen *)
             else
               let off1 := if 0 <? c_add c then off + c_add c else off in
               let w1 := w + Z.max 0 (c_add c) + Z.max 0 (c_copy c) in
               controls f oldSize (wrap64 (off1 + c_seek c)) w1 s1
           end
  end.

Definition process_bsdiff (fuel : nat) (fx : bool) (tgt : list Z) (outSize : Z) (s : stream) : step stream :=
  match read s with
  | None => Stop Err
  | Some (fs, s1) =>
    let ti := dec_bh fs in
    match nth_size tgt ti with
    | None => if fx then Stop Err                       (* the check added by the fix *)
              else Stop (Panic SPoolGetReadSeeker)       (* targetPool.GetReadSeeker(targetIndex) *)
    | Some oldSize =>
      (* GetWriter, Resume(nil), NewIndividualPatchContext(old, 0, writer) *)
      match controls fuel oldSize 0 0 s1 with
      | Stop r => Stop r
      | Cont (w, s2) =>
        match read s2 with                               (* the sentinel SyncOp *)
        | None => Stop Err
        | Some (fs2, s3) =>
          if negb (op_type (dec_op fs2) =? HEY) then Stop Err
          else if negb (w =? outSize) then Stop Err      (* final size check *)
          else Cont s3
        end
      end
    end
  end.

(** savingPatcher.skipFile (a series of a file that is not whitelisted).  A bsdiff series is read
    as what it is (fix "skipFile follows the series kind announced by the sync header"): one
    BsdiffHeader, Control messages up to and including the one marked eof, then a SyncOp that
    must be the sentinel; an rsync series is read op by op up to the end marker *)
Fixpoint until_eof (fuel : nat) (s : stream) : step stream :=
  match fuel with
  | O => Stop Hang
  | S f => match read s with
           | None => Stop Err
           | Some (fs, s1) => if c_eof (dec_ctl fs) then Cont s1 else until_eof f s1
           end
  end.

Definition skip_file (fuel : nat) (kind : Z) (s : stream) : step stream :=
  if kind =? BSDIFF then
    match read s with                                    (* the BsdiffHeader (its fields are not used) *)
    | None => Stop Err
    | Some (_, s1) =>
      match until_eof fuel s1 with
      | Stop r => Stop r
      | Cont s2 =>
        match read s2 with                               (* the sentinel SyncOp *)
        | None => Stop Err
        | Some (fs2, s3) => if op_type (dec_op fs2) =? HEY then Cont s3 else Stop Err
        end
      end
    end
  else until_hey fuel s.

Definition whitelisted (wl : option (list Z)) (i : Z) : bool :=
  match wl with
  | None => true
  | Some l => existsb (Z.eqb i) l
  end.

(** savingPatcher.Resume(nil, ...) : one series per file of the new container *)
Fixpoint resume (fuel : nat) (fx : bool) (bs maxoff : Z) (tgt : list Z) (wl : option (list Z))
         (idx : Z) (srcs : list Z) (s : stream) : res :=
  match srcs with
  | [] => Ok
  | outSize :: rest =>
    match read s with
    | None => Err
    | Some (fs, s1) =>
      let sh := dec_sh fs in
      if negb (sh_file sh =? idx) then Err               (* expected file idx *)
      else if negb ((sh_type sh =? RSYNC) || (sh_type sh =? BSDIFF)) then Err   (* unknown series kind *)
      else
        let r := if negb (whitelisted wl idx) then skip_file fuel (sh_type sh) s1   (* skipFile *)
                 else if sh_type sh =? RSYNC then process_rsync fuel fx bs maxoff tgt outSize s1
                 else process_bsdiff fuel fx tgt outSize s1 in
        match r with
        | Stop x => x
        | Cont s2 => resume fuel fx bs maxoff tgt wl (idx + 1) rest s2
        end
    end
  end.

Definition patcher (fuel : nat) (fx : bool) (bs maxoff : Z) (tgt src : list Z) (wl : option (list Z)) (s : stream) : res :=
  resume fuel fx bs maxoff tgt wl 0 src s.

(** * rediff *)

(** the op loop of analyzePatch for one file *)
Fixpoint analyze_ops (fuel : nat) (fx : bool) (tgt : list Z) (s : stream) : step stream :=
  match fuel with
  | O => Stop Hang
  | S f => match read s with
           | None => Stop Err
           | Some (fs, s1) =>
             let op := dec_op fs in
             if op_type op =? BLOCK_RANGE then
               if in_range tgt (op_file op) then analyze_ops f fx tgt s1
               else if fx then Stop Err else Stop (Panic SAnalyzePatch)   (* targetContainer.Files[rop.FileIndex] *)
             else if op_type op =? DATA then analyze_ops f fx tgt s1
             else if op_type op =? HEY then Cont s1
             else Stop Err                               (* unknown sync type op *)
           end
  end.

Fixpoint analyze (fuel : nat) (fx : bool) (tgt : list Z) (idx : Z) (srcs : list Z) (s : stream) : res :=
  match srcs with
  | [] => Ok
  | _ :: rest =>
    match read s with
    | None => Err
    | Some (fs, s1) =>
      if negb (sh_file (dec_sh fs) =? idx) then Err      (* expected index idx (the series kind is not looked at) *)
      else match analyze_ops fuel fx tgt s1 with
           | Stop r => r
           | Cont s2 => analyze fuel fx tgt (idx + 1) rest s2
           end
    end
  end.

(** second pass (Optimize) over the same stream: ops are copied or thrown away up to the end
    marker; for mapped files bsdiff.Do runs on two well-formed files (outside this model: C12) *)
Fixpoint optimize_pass (fuel : nat) (idx : Z) (srcs : list Z) (s : stream) : res :=
  match srcs with
  | [] => Ok
  | _ :: rest =>
    match read s with
    | None => Err
    | Some (fs, s1) =>
      if negb (sh_file (dec_sh fs) =? idx) then Err
      else match until_hey fuel s1 with
           | Stop r => r
           | Cont s2 => optimize_pass fuel (idx + 1) rest s2
           end
    end
  end.

(** rediff.NewContext then Optimize *)
Definition rediff (fuel : nat) (fx : bool) (tgt src : list Z) (s : stream) : res :=
  match analyze fuel fx tgt 0 src s with
  | Ok => optimize_pass fuel 0 src s
  | r => r
  end.

(** * signature reader and hash grouping *)

(** one ReadMessage(hash) of ReadSignature: a hash, a clean end of file, or another error *)
Inductive hread := HGot (s : stream) | HEof | HBad.
Definition read_hash (s : stream) : hread :=
  match s with
  | [] => HEof
  | G _ :: r => HGot r
  | B :: _ => HBad
  end.

(** the inner loop "for blockIndex := 0; blockIndex < numBlocks" : [k] hashes still to read;
    a clean EOF breaks out of this loop only *)
Fixpoint read_blocks (k : nat) (n : Z) (s : stream) : step (Z * stream) :=
  match k with
  | O => Cont (n, s)
  | S k' => match read_hash s with
            | HGot s1 => read_blocks k' (n + 1) s1
            | HEof => Cont (n, s)
            | HBad => Stop Err
            end
  end.

(** ReadSignature over the files of the container; returns the number of hashes read *)
Fixpoint read_signature (bs : Z) (sizes : list Z) (n : Z) (s : stream) : step Z :=
  match sizes with
  | [] => Cont n
  | sz :: rest =>
    let nb := num_blocks bs sz in
    if nb =? 0 then
      match read_hash s with            (* empty files have one hash; a clean EOF here ends the WHOLE loop *)
      | HGot s1 => read_signature bs rest (n + 1) s1
      | HEof => Cont n
      | HBad => Stop Err
      end
    else
      match read_blocks (Z.to_nat nb) n s with
      | Stop r => Stop r
      | Cont (n1, s1) => read_signature bs rest n1 s1
      end
  end.

(** ComputeHashInfo: [n] = len(Hashes), [cap] = cap(Hashes) *)
Fixpoint hash_info (fx : bool) (bs : Z) (sizes : list Z) (hashIndex n cap : Z) : res :=
  match sizes with
  | [] => if hashIndex =? n then Ok else Err
  | sz :: rest =>
    if sz =? 0 then hash_info fx bs rest (hashIndex + 1) n cap
    else
      let nb := num_blocks bs sz in
      if fx && (hashIndex + nb >? n) then Err                     (* the check added by the fix *)
      else if hashIndex + nb >? cap then Panic SHashInfoSlice      (* Hashes[hashIndex : hashIndex+numBlocks] *)
      else hash_info fx bs rest (hashIndex + nb) n cap
  end.

(** ReadSignature then ComputeHashInfo; [capf] gives the capacity of the slice append built *)
Definition signature (fx : bool) (bs : Z) (capf : Z -> Z) (sizes : list Z) (s : stream) : res :=
  match read_signature bs sizes 0 s with
  | Stop r => r
  | Cont n => hash_info fx bs sizes 0 n (capf n)
  end.

(** * overlay Patch over an *os.File positioned at [pos]; [seekmax] / [writemax]: what the file
      system allows (lseek beyond seekmax: EINVAL; a write ending beyond writemax: EFBIG) *)
Fixpoint overlay_patch (fuel : nat) (seekmax writemax pos : Z) (s : stream) : res :=
  match fuel with
  | O => Hang
  | S f => match read s with
           | None => Err
           | Some (fs, s1) =>
             let op := dec_ov fs in
             if ov_type op =? OV_HEY then Ok
             else if ov_type op =? OV_SKIP then           (* w.Seek(op.Len, io.SeekCurrent) *)
               if ov_len op =? 0 then overlay_patch f seekmax writemax pos s1
               else if (pos + ov_len op <? 0) || (pos + ov_len op >? seekmax) then Err
               else overlay_patch f seekmax writemax (pos + ov_len op) s1
             else if ov_type op =? OV_FRESH then          (* w.Write(op.Data) *)
               if ov_data op <=? 0 then overlay_patch f seekmax writemax pos s1
               else if pos + ov_data op >? writemax then Err
               else overlay_patch f seekmax writemax (pos + ov_data op) s1
             else overlay_patch f seekmax writemax pos s1   (* any other type: ignored *)
           end
  end.
