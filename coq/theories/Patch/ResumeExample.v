(** A concrete instance of the C03 theorems (non-vacuity): block size 4, one old file, one
    new file patched by four ops; the run that always saves offers two checkpoints; a crash
    disk that lost the tail of the output file and has garbage after the checkpointed offset
    satisfies the crash model, differs from the disk of checkpoint time, and the resumed run
    completes with the new file. *)
From Wharf Require Import Base.Prelude Patch.Resume Patch.ResumeProofs Patch.PlainWriter.

Definition ex_old (t : N) : list byte := if N.eqb t 0 then [1; 2; 3; 4; 5; 6]%N else [].
Definition ex_tsize (t : N) : N := if N.eqb t 0 then 6%N else 0%N.
Definition ex_ssize (f : N) : N := if N.eqb f 0 then 9%N else 0%N.
Definition ex_range (f bi span : N) : list byte :=
  firstn (N.to_nat (span * 4)) (skipn (N.to_nat (bi * 4)) (ex_old f)).
Definition ex_bs (t : N) (off : Z) (add copy : list byte) : list byte := add ++ copy.
Definition ex_src_resume (off src : nat) : option nat := if Nat.leb src off then Some off else None.
Definition ex_msgs : list (msg (list byte)) :=
  [MHeader 0 false; MData [9; 9]%N; MRange 0 0 1; MData [7]%N; MRange 0 1 1; MEnd].
Definition ex_d0 : N -> list byte := fun _ => [].
Definition ex_new : list byte := [9; 9; 1; 2; 3; 4; 7; 5; 6]%N.

Definition ex_run (sched stop : nat -> bool) :=
  fresh_run 4 ex_tsize ex_ssize 1 ex_old ex_range ex_bs (fun _ => false) (fun _ => true) sched stop.

Definition ex_first := ex_run (fun _ => true) (fun _ => false) (fresh_start ex_ssize ex_d0) ex_msgs.

Definition ex_offer : ckpt unit * (N -> list byte) :=
  match ex_first with
  | Finished _ _ _ s => nth 1 (s_offers _ _ _ s) (mkck unit (mkmc 0 0) 0 false bowl0 0 tt 0%Z 0, ex_d0)
  | _ => (mkck unit (mkmc 0 0) 0 false bowl0 0 tt 0%Z 0, ex_d0)
  end.

Definition ex_crash : N -> list byte := fun g => if N.eqb g 0 then [9; 9; 1; 2; 3; 4; 42; 42]%N else [77]%N.

Lemma ex_hold : forall t, length (ex_old t) = N.to_nat (ex_tsize t).
Proof. intros t. unfold ex_old, ex_tsize. destruct (N.eqb t 0); reflexivity. Qed.

Lemma ex_wire : forall off src, src <= off -> ex_src_resume off src = Some off.
Proof. intros off src H. unfold ex_src_resume. apply Nat.leb_le in H. now rewrite H. Qed.

Lemma resume_example_lemma :
  exists Sf,
    (* the hypotheses of the theorems hold *)
    ex_run (fun _ => false) (fun _ => false) (fresh_start ex_ssize ex_d0) ex_msgs = Finished _ _ _ Sf /\
    fresh_sized 4 ex_tsize ex_ssize 1 ex_old ex_range ex_bs (fun _ => false) (fun _ => true) (fresh_start ex_ssize ex_d0) ex_msgs /\
    s_disk _ _ _ Sf 0%N = ex_new /\
    (* a checkpoint is offered, in the middle of the file *)
    fresh_offered 4 ex_tsize ex_ssize 1 ex_old ex_range ex_bs (fun _ => false) (fun _ => true) ex_src_resume
                  ex_msgs ex_d0 (fst ex_offer) (snd ex_offer) /\
    ck_woff _ (fst ex_offer) = 6%N /\ mc_off (ck_msg _ (fst ex_offer)) = 3 /\
    (* the crash disk is within the crash model and is not the disk of checkpoint time *)
    fresh_crash (fst ex_offer) (snd ex_offer) ex_crash /\
    snd ex_offer 0%N = [9; 9; 1; 2; 3; 4; 0; 0; 0]%N /\
    (* and the resumed run completes with the new file *)
    exists sf, fresh_resumed 4 ex_tsize ex_ssize 1 ex_old ex_range ex_bs (fun _ => false) (fun _ => true) ex_src_resume
                 (fun _ => false) (fun _ => false) (fst ex_offer) ex_crash ex_msgs = Finished _ _ _ sf /\
               s_disk _ _ _ sf 0%N = ex_new.
Proof.
  eexists. split; [vm_compute; reflexivity|].
  split. { vm_compute. repeat split; auto; discriminate. }
  split; [vm_compute; reflexivity|].
  split.
  { eapply (off_first _ _ _ _ _ _ _ _ _ _ _ _ _ _ _ _ _ _ _ _ _ _ _ _ _ _ (fun _ => true) (fun _ => false)).
    - unfold ex_offer, ex_first, ex_run, fresh_run, fresh_start. vm_compute. reflexivity.
    - unfold ex_offer, ex_first, ex_run, fresh_run, fresh_start. vm_compute. right. left. reflexivity. }
  split; [vm_compute; reflexivity|]. split; [vm_compute; reflexivity|].
  split. { unfold fresh_crash. vm_compute. repeat split; auto. intros g Hg. destruct g; discriminate. }
  split; [vm_compute; reflexivity|].
  eexists. split; vm_compute; reflexivity.
Qed.

(** DESIGN.md planned [saves_happen] as "every loop iteration after the first ReadMessage of a
    series delivers a checkpoint".  The faithful model refutes that reading: in the run above
    the consumer is asked four times (four relay-loop iterations, always answering true, seek
    source) and receives two checkpoints - PopCheckpoint resets the reader to Idle after
    WantSave has already been called in that iteration.  The correspondence shows the Go code
    doing exactly this (offers at every second iteration). *)
Lemma saves_every_iteration_refuted_lemma :
  exists s, ex_first = Finished _ _ _ s /\ s_asked _ _ _ s = 4 /\ length (s_offers _ _ _ s) = 2.
Proof. eexists. split; [vm_compute; reflexivity|]. split; vm_compute; reflexivity. Qed.
