(** Vocabulary of the C17 statement: membership in the whitelist (a Go map[int64]bool, given
    as the list of keys mapped to true), the number of selected indices in a range, the part
    of a per-file segmented trace that belongs to selected files, and "this recorded call is
    about new file [idx]" for bowl calls.  Definitions only. *)
From Wharf Require Import Base.Prelude Bowl.Fresh Patch.Reinterp Patch.Stream Patch.Patcher.
Local Open Scope Z_scope.

Definition wl_mem (W : list Z) (i : Z) : bool := existsb (Z.eqb i) W.

(** how many of the indices i, i+1, ..., i+k-1 are selected *)
Fixpoint wl_count (W : list Z) (i : Z) (k : nat) : Z :=
  match k with
  | O => 0
  | S k' => (if wl_mem W i then 1 else 0) + wl_count W (i + 1) k'
  end.

(** [segs] = one trace segment per file i, i+1, ...: keep those of selected files *)
Fixpoint wl_select (W : list Z) (i : Z) (segs : list (list event)) : list event :=
  match segs with
  | [] => []
  | s :: r => (if wl_mem W i then s else []) ++ wl_select W (i + 1) r
  end.

(** bowl calls name the new file they write; pool calls are not constrained here (they are
    constrained by being part of a selected file's segment) *)
Definition bowl_ev_for (idx : Z) (e : event) : Prop :=
  match e with EvWriter i => i = idx | EvTranspose i _ => i = idx | _ => True end.
