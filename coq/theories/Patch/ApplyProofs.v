(** Byte-level lemmas for C01: [pwrite] of consecutive chunks, the opSize / lastSize arithmetic
    of wsync.ApplySingleFull on in-bounds ranges, and the full-file-op lemma. *)
From Coq Require Import ZifyBool ZifyNat.
From Wharf Require Import Base.Prelude Bowl.Fresh Patch.Reinterp Patch.Stream Patch.Patcher.
Local Open Scope Z_scope.
Ltac Zify.zify_post_hook ::= Z.div_mod_to_equations.

Lemma zeros_length n : length (zeros n) = n.
Proof. apply repeat_length. Qed.

Lemma zeros_app a b : zeros (a + b) = zeros a ++ zeros b.
Proof. unfold zeros. apply repeat_app. Qed.

Lemma skipn_zeros k n : skipn k (zeros n) = zeros (n - k).
Proof.
  unfold zeros. revert n. induction k as [|k IH]; intros n; [rewrite Nat.sub_0_r; reflexivity|].
  destruct n as [|n]; [reflexivity|]. cbn [repeat skipn Nat.sub]. apply IH.
Qed.

(** writing [data] right after the [w] bytes already written into a pre-sized file *)
Lemma pwrite_next (w data : list byte) (L : nat) :
  (length w + length data <= L)%nat ->
  pwrite (w ++ zeros (L - length w)) (length w) data = (w ++ data) ++ zeros (L - length (w ++ data)).
Proof.
  intros H. unfold pwrite.
  rewrite firstn_app, firstn_all, Nat.sub_diag, firstn_O, app_nil_r.
  rewrite app_length, zeros_length.
  replace (length w - (length w + (L - length w)))%nat with 0%nat by lia. cbn [zeros repeat app].
  rewrite skipn_app, app_length.
  rewrite (skipn_all2 w) by lia. cbn [app].
  replace (length w + length data - length w)%nat with (length data) by lia.
  rewrite skipn_zeros. rewrite <- app_assoc. do 3 f_equal. lia.
Qed.

Lemma pwrite_nil (d : list byte) (off : nat) : (off <= length d)%nat -> pwrite d off [] = d.
Proof.
  intros H. unfold pwrite. replace (off - length d)%nat with 0%nat by lia. cbn [zeros repeat app length].
  rewrite Nat.add_0_r. apply firstn_skipn.
Qed.

(* ------------------------------------------------------------------ ApplySingleFull arithmetic *)

Lemma num_blocks_pos bs L : 0 < bs -> 0 <= L -> num_blocks bs L = (L + bs - 1) / bs.
Proof. intros Hb HL. unfold num_blocks. apply Z.quot_div_nonneg; lia. Qed.

Lemma num_blocks_le bs L : 0 < bs -> 0 <= L -> 0 <= num_blocks bs L <= L.
Proof.
  intros Hb HL. rewrite num_blocks_pos by assumption. split; [apply Z.div_pos; lia|].
  destruct (Z.eq_dec L 0) as [->|Hn].
  - rewrite Z.div_small by lia. lia.
  - apply Z.div_le_upper_bound; nia.
Qed.

(** in-bounds: the last block of the range starts inside the file *)
Lemma in_bounds_last bs L i s :
  0 < bs -> 0 <= L -> 0 <= i -> 1 <= s -> i + s <= num_blocks bs L -> bs * (i + s - 1) < L.
Proof.
  intros Hb HL Hi Hs H. rewrite num_blocks_pos in H by assumption.
  assert (bs * ((L + bs - 1) / bs) <= L + bs - 1) by (apply Z.mul_div_le; lia).
  nia.
Qed.

(** the exact opSize / lastSize arithmetic gives the number of bytes the blocks hold *)
Lemma op_size_in_bounds bs L i s :
  0 < bs -> 0 <= L -> 0 <= i -> 1 <= s -> i + s <= num_blocks bs L ->
  op_size bs L i s = Z.min (bs * s) (L - bs * i).
Proof.
  intros Hb HL Hi Hs H. pose proof (in_bounds_last bs L i s Hb HL Hi Hs H) as Hlast.
  unfold op_size. cbv zeta.
  replace (i + (s - 1) + 1) with (i + s) by lia.
  destruct (Z.gtb_spec (bs * (i + s)) L) as [G|G].
  - rewrite Z.rem_mod_nonneg by lia.
    assert (E : L mod bs = L - bs * (i + s - 1)).
    { symmetry. apply (Z.mod_unique_pos L bs (i + s - 1)); lia. }
    rewrite E. lia.
  - lia.
Qed.

Lemma slice_min (d : list byte) from len :
  0 <= from -> slice d from (Z.min len (Z.of_nat (length d) - from)) = slice d from len.
Proof.
  intros Hf. unfold slice.
  destruct (Z.le_gt_cases len (Z.of_nat (length d) - from)) as [H|H].
  - rewrite Z.min_l by assumption. reflexivity.
  - rewrite Z.min_r by lia.
    rewrite !firstn_all2; [reflexivity| |]; rewrite skipn_length; lia.
Qed.

(** the bytes ApplySingleFull copies for an in-bounds range are the bytes the range denotes *)
Lemma apply_slice_denote bs (d : list byte) i s :
  0 < bs -> 0 <= i -> 1 <= s -> i + s <= num_blocks bs (Z.of_nat (length d)) ->
  slice d (bs * i) (op_size bs (Z.of_nat (length d)) i s) = slice d (bs * i) (bs * s).
Proof.
  intros Hb Hi Hs H. rewrite op_size_in_bounds by (try assumption; lia).
  apply slice_min. nia.
Qed.

Lemma slice_length (d : list byte) from len :
  0 <= from -> 0 <= len -> Z.of_nat (length (slice d from len)) = Z.max 0 (Z.min len (Z.of_nat (length d) - from)).
Proof. intros Hf Hl. unfold slice. rewrite firstn_length, skipn_length. lia. Qed.

(* ------------------------------------------------------------------ the full-file-op lemma *)

(** a range from block 0 spanning all the blocks of an old file denotes the whole file *)
Lemma slice_whole bs (d : list byte) :
  0 < bs -> slice d (bs * 0) (bs * num_blocks bs (Z.of_nat (length d))) = d.
Proof.
  intros Hb. unfold slice. rewrite Z.mul_0_r. cbn [Z.to_nat skipn].
  apply firstn_all2. rewrite num_blocks_pos by lia.
  assert (Z.of_nat (length d) < bs * ((Z.of_nat (length d) + bs - 1) / bs) + 1).
  { pose proof (Z.mul_succ_div_gt (Z.of_nat (length d) + bs - 1) bs Hb). lia. }
  lia.
Qed.

(** if the ops of a new file replay to it, and the first op is a range from block 0 of an old
    file of the new file's size covering all of its blocks, then that old file IS the new
    file, and the trailing ops denote nothing *)
Lemma full_file_op bs olds f s rest (d data : list byte) :
  0 < bs -> znth olds f = Some d -> length d = length data ->
  s = num_blocks bs (Z.of_nat (length data)) ->
  replay bs olds (OpRange f 0 s :: rest) = data ->
  d = data /\ replay bs olds rest = [].
Proof.
  intros Hb Hd Hlen -> Hrep. unfold replay in Hrep. cbn [flat_map denote] in Hrep. rewrite Hd in Hrep.
  rewrite <- Hlen in Hrep. rewrite slice_whole in Hrep by assumption. fold (replay bs olds rest) in Hrep.
  assert (Hl : length (d ++ replay bs olds rest) = length data) by (rewrite Hrep; reflexivity).
  rewrite app_length in Hl.
  assert (E : replay bs olds rest = []) by (apply length_zero_iff_nil; lia).
  rewrite E, app_nil_r in Hrep. split; assumption.
Qed.

(** wsync.ApplySingleFull on an in-bounds range: sizes the pool, opens the file, and writes
    exactly the bytes the range denotes *)
Lemma apply_single_replays_lemma bs oldC olds w f i s (d : list byte) pf :
  0 < bs -> znth (c_files oldC) f = Some (pf, Z.of_nat (length d)) -> znth olds f = Some d ->
  0 <= i -> 1 <= s -> i + s <= num_blocks bs (Z.of_nat (length d)) ->
  apply_range bs oldC olds w f i s =
  w_write (mkW (ev (ev (w_st w) (EvSize f)) (EvRead f)) (w_path w) (w_off w)) (denote bs olds (OpRange f i s)).
Proof.
  intros Hbs Hc Hd Hi Hs Hle. unfold apply_range. rewrite Hc, Hd.
  destruct (Z.ltb_spec (bs * i) 0) as [Hneg|_]; [nia|].
  rewrite apply_slice_denote by assumption. cbn [denote w_st w_path w_off]. rewrite Hd. reflexivity.
Qed.
