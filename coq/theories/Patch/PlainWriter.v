(** Model of bowl_fresh.go's [freshEntryWriter] - the entry writer of the fresh bowl, also
    used by the overlay bowl for staged new files - and of the creation of a fresh bowl
    (tlc [Container.Prepare] on each file) and [freshBowl.Transpose]; then the proof that they
    satisfy the writer contract of Patch/ResumeProofs.v.

    Go: Resume opens with O_CREATE|O_WRONLY (no truncation) and seeks to the checkpointed
    offset; Write writes at the file position; Save fsyncs and reports the offset; Finalize
    does nothing; prepareFile truncates (or zero-extends) the file to its final size;
    Transpose copies the old file over the output file, truncating it. *)
From Wharf Require Import Base.Prelude Patch.Resume Patch.ResumeProofs.
From Coq Require Import ZifyBool ZifyNat ZifyN.

Definition zeros (n : nat) : list byte := repeat 0%N n.

(** os.File.Write at offset [off]: a hole left by a seek past the end reads as zeros *)
Definition pwrite (raw : list byte) (off : nat) (d : list byte) : list byte :=
  firstn off raw ++ zeros (off - length raw) ++ d ++ skipn (off + length d) raw.

(** os.Truncate(path, n) *)
Definition resize (n : nat) (raw : list byte) : list byte := firstn n raw ++ zeros (n - length raw).

Section Plain.
  Variable ssize tsize : N -> N.
  Variable old : N -> list byte.            (* contents of the old build's files *)

  Definition p_open (_ : N) (c : option (N * unit)) (raw : list byte) : option (N * list byte) :=
    Some (match c with Some (o, _) => o | None => 0%N end, raw).
  Definition p_write (_ : N) (w : N) (raw : list byte) (d : list byte) : N * list byte :=
    ((w + N.of_nat (length d))%N, pwrite raw (N.to_nat w) d).
  Definition p_save (_ : N) (w : N) (raw : list byte) : (N * unit) * N * list byte := ((w, tt), w, raw).
  Definition p_final (_ : N) (_ : N) (raw : list byte) : list byte := raw.
  Definition p_tell (w : N) : N := w.
  Definition p_result (_ : N) (raw : list byte) : option (list byte) := Some raw.
  Definition p_prepare (f : N) (raw : list byte) : list byte := resize (N.to_nat (ssize f)) raw.
  Definition p_copy_old (t : N) : list byte := old t.

  (** ghost notions *)
  Definition p_abs (_ : N) (w : N) (raw : list byte) : list byte := firstn (N.to_nat w) raw.
  Definition p_inv (f : N) (w : N) (raw : list byte) : Prop :=
    N.to_nat w <= length raw /\ length raw <= Nat.max (N.to_nat (ssize f)) (N.to_nat w).
  Definition p_raw_ok (f : N) (raw : list byte) : Prop := length raw <= N.to_nat (ssize f).
  (** the crash disk's file is at least as long as the checkpointed offset and agrees with
      the file of checkpoint time below it; everything from that offset on is arbitrary *)
  Definition p_covers (_ : N) (c : N * unit) (raw raw2 : list byte) : Prop :=
    N.to_nat (fst c) <= length raw2 /\ firstn (N.to_nat (fst c)) raw2 = firstn (N.to_nat (fst c)) raw.
  Definition p_finished (f : N) (raw c : list byte) : Prop := raw = c /\ length raw = N.to_nat (ssize f).

  Lemma firstn_eq_len : forall (a b : list byte) n, n <= length a -> firstn n b = firstn n a -> n <= length b.
  Proof.
    intros a b n Hn H. apply (f_equal (@length _)) in H. rewrite !firstn_length in H. lia.
  Qed.

  Lemma pwrite_inside : forall raw off d, off <= length raw ->
    pwrite raw off d = firstn off raw ++ d ++ skipn (off + length d) raw.
  Proof. intros. unfold pwrite. replace (off - length raw) with 0 by lia. reflexivity. Qed.

  Lemma pwrite_length : forall raw off d, off <= length raw ->
    length (pwrite raw off d) = Nat.max (length raw) (off + length d).
  Proof.
    intros. rewrite pwrite_inside by auto. rewrite !app_length, firstn_length, skipn_length. lia.
  Qed.

  Lemma pwrite_prefix : forall raw off d, off <= length raw ->
    firstn (off + length d) (pwrite raw off d) = firstn off raw ++ d.
  Proof.
    intros. rewrite pwrite_inside by auto. rewrite app_assoc.
    rewrite firstn_app. replace (off + length d - length (firstn off raw ++ d)) with 0
      by (rewrite app_length, firstn_length; lia).
    simpl. rewrite app_nil_r. apply firstn_all2. rewrite app_length, firstn_length. lia.
  Qed.

  Hypothesis Hold : forall t, length (old t) = N.to_nat (tsize t).

  Lemma plain_writer_ok : forall fr : bool,
    writer_ok (list byte) (list byte) (list byte) N unit (fun d => N.of_nat (length d))
              tsize ssize p_open p_write p_save p_final p_tell p_result fr
              p_prepare p_copy_old old (fun c d => c ++ d) [] p_abs p_inv p_raw_ok p_covers p_finished.
  Proof.
    intros fr. constructor.
    - (* open from scratch *)
      intros f raw Hok. exists 0%N, raw. unfold p_open, p_inv, p_abs, p_tell, p_raw_ok in *. simpl.
      repeat split; auto; lia.
    - (* write *)
      intros f w raw d (H1 & H2). unfold p_write, p_inv, p_abs, p_tell. simpl.
      rewrite pwrite_length by auto. repeat split; try lia.
      replace (N.to_nat (w + N.of_nat (length d))) with (N.to_nat w + length d) by lia.
      apply pwrite_prefix; auto.
    - (* save, and reopening on a crash disk *)
      intros f w raw (H1 & H2). unfold p_save. repeat split; auto.
      intros raw2 (C1 & C2) Hok. simpl in *. exists w, raw2. unfold p_open, p_inv, p_abs, p_tell, p_raw_ok in *.
      repeat split; auto; lia.
    - (* finalize *)
      intros f w raw (H1 & H2) Ht. unfold p_tell in Ht. subst. unfold p_finished, p_final, p_abs.
      assert (length raw = N.to_nat (ssize f)) by lia. split; auto.
      symmetry. apply firstn_all2. lia.
    - intros f raw c (-> & _). reflexivity.
    - (* Prepare *)
      intros f raw _. unfold p_raw_ok, p_prepare, resize, zeros. rewrite app_length, firstn_length, repeat_length. lia.
    - intros f c raw raw2 _ (C1 & C2) Hle. unfold p_covers, p_prepare, resize. split.
      { unfold zeros. rewrite app_length, firstn_length, repeat_length. lia. }
      rewrite <- C2.
      rewrite firstn_app, firstn_firstn. rewrite firstn_length.
      replace (Nat.min (N.to_nat (fst c)) (N.to_nat (ssize f))) with (N.to_nat (fst c)) by lia.
      replace (N.to_nat (fst c) - Nat.min (N.to_nat (ssize f)) (length raw2)) with 0 by lia.
      simpl. now rewrite app_nil_r.
    - intros f raw c _ (-> & Hl). unfold p_prepare, resize. rewrite firstn_all2 by lia.
      replace (N.to_nat (ssize f) - length c) with 0 by lia. apply app_nil_r.
    - intros f t _ Hsz. unfold p_finished, p_copy_old. split; auto. rewrite Hold. now rewrite Hsz.
  Qed.
End Plain.

(** ** the fresh bowl: every entry writer is a [freshEntryWriter] *)
Section Fresh.
  Variable blocksize : N.
  Variables tsize ssize : N -> N.
  Variable nfiles : N.
  Variable old : N -> list byte.
  Variable range_data : N -> N -> N -> list byte.
  Variable bs_data : N -> Z -> list byte -> list byte -> list byte.
  Variable is_overlay : N -> bool.
  Variable emit : nat -> bool.
  Variable src_resume : nat -> nat -> option nat.

  Definition fresh_run (sched stop : nat -> bool) :=
    run (list byte) (list byte) N unit (fun d => N.of_nat (length d)) blocksize tsize ssize nfiles range_data bs_data
        p_open p_write p_save p_final p_tell true is_overlay (p_copy_old old) emit sched stop.
  Definition fresh_start (d0 : N -> list byte) := start_state (list byte) N unit true (p_prepare ssize) d0.
  Definition fresh_resumed (sched stop : nat -> bool) :=
    run_resumed (list byte) (list byte) N unit (fun d => N.of_nat (length d)) blocksize tsize ssize nfiles range_data bs_data
        p_open p_write p_save p_final p_tell true is_overlay (p_prepare ssize) (p_copy_old old) emit src_resume sched stop.
  Definition fresh_sized :=
    sized_run (list byte) (list byte) N unit (fun d => N.of_nat (length d)) blocksize tsize ssize nfiles range_data bs_data
        p_open p_write p_save p_final p_tell true is_overlay (p_copy_old old) emit.
  Definition fresh_offered :=
    offered (list byte) (list byte) N unit (fun d => N.of_nat (length d)) blocksize tsize ssize nfiles range_data bs_data
        p_open p_write p_save p_final p_tell true is_overlay (p_prepare ssize) (p_copy_old old) emit src_resume
        (p_raw_ok ssize) p_covers.

  (** the crash model, spelled out for the fresh bowl: the in-progress output file still has
      its first [ck_woff] bytes, everything after them is arbitrary (lost, torn, garbage, or
      later writes); output files of earlier series are as they were; all other files of the
      output directory are arbitrary *)
  Definition fresh_crash (ck : ckpt unit) (d d' : N -> list byte) : Prop :=
    let f := ck_file _ ck in let o := N.to_nat (ck_woff _ ck) in
    o <= length (d' f) /\ firstn o (d' f) = firstn o (d f) /\ forall g, (g < f)%N -> d' g = d g.

  Lemma fresh_crash_ok : forall ck d d', fresh_crash ck d d' ->
    crash_ok (list byte) unit true (p_prepare ssize) (p_raw_ok ssize) p_covers ck d d'.
  Proof.
    intros ck d d' (H1 & H2 & H3). split; [|split].
    - split; auto.
    - intros g Hg _. auto.
    - intros g _. simpl. unfold p_raw_ok, p_prepare, resize, zeros. rewrite app_length, firstn_length, repeat_length. lia.
  Qed.

  Hypothesis Hold : forall t, length (old t) = N.to_nat (tsize t).
  Hypothesis H_wire : forall off src, src <= off -> src_resume off src = Some off.

  Lemma resume_equiv_fresh_lemma : forall msgs d0 Sf,
    fresh_run (fun _ => false) (fun _ => false) (fresh_start d0) msgs = Finished _ _ _ Sf ->
    fresh_sized (fresh_start d0) msgs ->
    forall ck d d' sched stop, fresh_offered msgs d0 ck d -> fresh_crash ck d d' ->
    match fresh_resumed sched stop ck d' msgs with
    | Finished _ _ _ sf => forall g, (g < nfiles)%N -> s_disk _ _ _ sf g = s_disk _ _ _ Sf g
    | Stopped _ _ _ _ => exists j, stop j = true
    | _ => False
    end.
  Proof.
    intros msgs d0 Sf Hideal Hsized ck d d' sched stop Hoff Hcrash.
    pose proof (resume_equiv_lemma _ _ _ _ _ _ blocksize _ _ nfiles range_data bs_data _ _ _ _ _ _ _ is_overlay _ _ _ emit src_resume
                  _ _ _ _ _ _ _ (plain_writer_ok ssize tsize old Hold true) H_wire msgs d0 Sf Hideal Hsized) as H.
    assert (Hd0 : forall g, p_raw_ok ssize g (bowl_create (list byte) true (p_prepare ssize) d0 g)).
    { intros g. simpl. unfold p_raw_ok, p_prepare, resize, zeros. rewrite app_length, firstn_length, repeat_length. lia. }
    specialize (H Hd0 ck d d' sched stop Hoff (fresh_crash_ok _ _ _ Hcrash)).
    unfold fresh_resumed. match goal with |- match ?r with _ => _ end => destruct r as [| sf | |]; auto end.
    unfold commit in H. simpl in H. inversion H as [Hm]. intros g Hg.
    assert (Hin : In (N.to_nat g) (seq 0 (N.to_nat nfiles))) by (apply in_seq; lia).
    pose proof (proj1 map_ext_in_iff Hm _ Hin) as Hg'. simpl in Hg'.
    unfold p_result in Hg'. rewrite N2Nat.id in Hg'. now inversion Hg'.
  Qed.
End Fresh.
