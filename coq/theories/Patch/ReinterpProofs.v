(** Lemmas about the schema-level marshalling model: reading a frame as the type it was
    written as gives the message back (for field values Go's types can hold), and the two
    field-number / wire-type collisions DESIGN 5.4 names. *)
From Coq Require Import ZifyBool.
From Wharf Require Import Base.Prelude Patch.Reinterp.
Local Open Scope Z_scope.
Ltac Zify.zify_post_hook ::= Z.div_mod_to_equations.

Lemma i64_roundtrip v : i64_ok v -> i64_of_u64 (u64_of_i64 v) = v.
Proof.
  unfold i64_ok, i64_of_u64, u64_of_i64. intros H.
  change (2^63) with 9223372036854775808 in *. change (2^64) with 18446744073709551616.
  destruct (Z.ltb_spec (v mod 18446744073709551616) 9223372036854775808) as [L|L]; lia.
Qed.

Lemma i32_roundtrip v : i32_ok v -> i32_of_u64 (u64_of_i64 v) = v.
Proof.
  unfold i32_ok, i32_of_u64, u64_of_i64. intros H.
  change (2^31) with 2147483648 in *. change (2^32) with 4294967296. change (2^64) with 18446744073709551616.
  cbv zeta.
  destruct (Z.ltb_spec ((v mod 18446744073709551616) mod 4294967296) 2147483648) as [L|L]; lia.
Qed.

Lemma get_varint_app n l1 l2 acc : get_varint n (l1 ++ l2) acc = get_varint n l2 (get_varint n l1 acc).
Proof.
  revert acc. induction l1 as [|[k [u|b]] l1 IH]; intros acc; cbn [get_varint app]; auto.
Qed.
Lemma get_bytes_app n l1 l2 acc : get_bytes n (l1 ++ l2) acc = get_bytes n l2 (get_bytes n l1 acc).
Proof.
  revert acc. induction l1 as [|[k [u|b]] l1 IH]; intros acc; cbn [get_bytes app]; auto.
Qed.

Lemma get_varint_f_varint n k v acc :
  get_varint n (f_varint k v) acc = if (k =? n) && negb (v =? 0) then u64_of_i64 v else acc.
Proof.
  unfold f_varint. destruct (v =? 0); cbn [get_varint negb]; destruct (k =? n); reflexivity.
Qed.
Lemma get_varint_f_bytes n k b acc : get_varint n (f_bytes k b) acc = acc.
Proof. destruct b; reflexivity. Qed.
Lemma get_varint_f_bool n k b acc :
  get_varint n (f_bool k b) acc = if (k =? n) && b then 1 else acc.
Proof. destruct b; cbn [f_bool get_varint]; destruct (k =? n); reflexivity. Qed.
Lemma get_bytes_f_varint n k v acc : get_bytes n (f_varint k v) acc = acc.
Proof. unfold f_varint. destruct (v =? 0); reflexivity. Qed.
Lemma get_bytes_f_bool n k b acc : get_bytes n (f_bool k b) acc = acc.
Proof. destruct b; reflexivity. Qed.
Lemma get_bytes_f_bytes n k b acc :
  get_bytes n (f_bytes k b) acc = if (k =? n) && negb (match b with [] => true | _ => false end) then b else acc.
Proof. destruct b; cbn [f_bytes get_bytes negb]; [rewrite Bool.andb_false_r|destruct (k =? n)]; reflexivity. Qed.

Lemma u64_zero_or v : (if negb (v =? 0) then u64_of_i64 v else 0) = u64_of_i64 v.
Proof. destruct (Z.eqb_spec v 0) as [->|]; reflexivity. Qed.

Ltac simp_get :=
  repeat (rewrite ?get_varint_app, ?get_bytes_app, ?get_varint_f_varint, ?get_varint_f_bytes, ?get_varint_f_bool,
                  ?get_bytes_f_varint, ?get_bytes_f_bool, ?get_bytes_f_bytes);
  cbn [Z.eqb Pos.eqb andb]; rewrite ?u64_zero_or.

(** reading a frame as its own type *)
Lemma as_sh_own m : pmsg_ok (MSH m) -> as_sh (MSH m) = m.
Proof.
  destruct m as [t f]. cbn [pmsg_ok sh_type sh_file]. intros [Ht Hf].
  unfold as_sh, dec_sh, fields_of, fields_sh. cbn [sh_type sh_file]. simp_get.
  rewrite i32_roundtrip, i64_roundtrip by assumption. reflexivity.
Qed.

Lemma as_so_own m : pmsg_ok (MSO m) -> as_so (MSO m) = m.
Proof.
  destruct m as [t f b s d]. cbn [pmsg_ok so_type so_file so_block so_span]. intros (Ht & Hf & Hb & Hs).
  unfold as_so, dec_so, fields_of, fields_so. cbn [so_type so_file so_block so_span so_data]. simp_get.
  rewrite i32_roundtrip, !i64_roundtrip by assumption.
  destruct d; reflexivity.
Qed.

Lemma as_bh_own m : pmsg_ok (MBH m) -> as_bh (MBH m) = m.
Proof.
  destruct m as [t]. cbn [pmsg_ok bh_target]. intros Ht.
  unfold as_bh, dec_bh, fields_of, fields_bh. cbn [bh_target]. simp_get.
  rewrite i64_roundtrip by assumption. reflexivity.
Qed.

Lemma as_ct_own m : pmsg_ok (MCT m) -> as_ct (MCT m) = m.
Proof.
  destruct m as [a c s e]. cbn [pmsg_ok ct_seek]. intros Hs.
  unfold as_ct, dec_ct, fields_of, fields_ct. cbn [ct_add ct_copy ct_seek ct_eof]. simp_get.
  rewrite i64_roundtrip by assumption.
  destruct a, c, e; reflexivity.
Qed.

(** the collisions (both measured on golang/protobuf by the [reinterp] correspondence) *)
Lemma bh_2049_reads_as_hey : so_type (as_so (MBH (mkBH 2049))) = HEY.
Proof. vm_compute. reflexivity. Qed.

Lemma data_span1_reads_as_eof : ct_eof (as_ct (MSO (mkSO T_DATA 0 0 1 []))) = true.
Proof. vm_compute. reflexivity. Qed.

(** a Control never reads as the end marker: its field 1 is length-delimited *)
Lemma ctrl_reads_as_type0 c : so_type (as_so (MCT c)) = 0.
Proof.
  destruct c as [a cp s e]. unfold as_so, dec_so, fields_of, fields_ct. cbn [ct_add ct_copy ct_seek ct_eof so_type]. simp_get.
  reflexivity.
Qed.

(** ... while a BsdiffHeader reads as the end marker exactly when int32(targetIndex) = 2049 *)
Lemma bh_reads_as_type t : so_type (as_so (MBH (mkBH t))) = i32_of_u64 (u64_of_i64 t).
Proof.
  unfold as_so, dec_so, fields_of, fields_bh. cbn [bh_target so_type]. simp_get. reflexivity.
Qed.

Lemma own_type_lemma m : pmsg_ok m ->
  match m with
  | MSH x => as_sh m = x | MSO x => as_so m = x | MBH x => as_bh m = x | MCT x => as_ct m = x
  end.
Proof. destruct m as [x|x|x|x]; intros H; [apply as_sh_own|apply as_so_own|apply as_bh_own|apply as_ct_own]; exact H. Qed.
