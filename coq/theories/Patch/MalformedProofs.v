(** Proofs about the C10 model (Patch/Malformed.v): with the bounds checks of the fix commits
    ([fx = true]) every reader, fed any frame list, ends in [Ok] or [Err] with fuel
    [S (length stream)]; without them ([fx = false]) one-message witnesses reach a [Panic]. *)
From Wharf Require Import Base.Prelude Patch.Malformed.
From Coq Require Import ZifyBool ZifyNat Lia.
Local Open Scope Z_scope.

(** * Basics *)

Lemma safe_ok : safe Ok.
Proof. left; reflexivity. Qed.
Lemma safe_err : safe Err.
Proof. right; reflexivity. Qed.
#[export] Hint Resolve safe_ok safe_err : c10.

Lemma read_some : forall s fs s1, read s = Some (fs, s1) -> length s = S (length s1).
Proof.
  intros [|[fs'|] r] fs s1 Hr; cbn in Hr; try discriminate.
  inversion Hr; subst. reflexivity.
Qed.

(** a step that either stops safely or goes on with a stream shorter than [n] *)
Definition step_ok (n : nat) (x : step stream) : Prop :=
  match x with
  | Cont s' => (length s' < n)%nat
  | Stop r => safe r
  end.

Lemma step_ok_mono : forall n m x, (n <= m)%nat -> step_ok n x -> step_ok m x.
Proof. intros n m [s'|r] Hle H; cbn in *; [lia|exact H]. Qed.

Lemma in_range_nth : forall l i, in_range l i = true -> exists z, nth_size l i = Some z.
Proof.
  intros l i H. unfold nth_size. rewrite H. unfold in_range in H.
  destruct (nth_error l (Z.to_nat i)) as [z|] eqn:Hn; [eauto|].
  apply nth_error_None in Hn. lia.
Qed.

Lemma nth_in_range : forall l i z, nth_size l i = Some z -> in_range l i = true.
Proof.
  intros l i z H. unfold nth_size in H. destruct (in_range l i); [reflexivity|discriminate].
Qed.

Lemma nth_none_range : forall l i, nth_size l i = None -> in_range l i = false.
Proof.
  intros l i H. destruct (in_range l i) eqn:Hr; [|reflexivity].
  apply in_range_nth in Hr. destruct Hr as [z Hz]. congruence.
Qed.

(** * Patcher, rsync path *)

Lemma until_hey_ok : forall f s, (length s < f)%nat -> step_ok (length s) (until_hey f s).
Proof.
  induction f as [|f IH]; intros s Hlt; [lia|].
  cbn [until_hey]. destruct (read s) as [[fs s1]|] eqn:Hr; [|cbn; auto with c10].
  pose proof (read_some _ _ _ Hr) as Hlen.
  destruct (op_type (dec_op fs) =? HEY).
  - cbn. lia.
  - apply step_ok_mono with (n := length s1); [lia|]. apply IH. lia.
Qed.

Lemma apply_block_range_safe : forall bs maxoff tgt fi bi span,
  0 < bs -> in_range tgt fi = true ->
  match apply_block_range bs maxoff tgt fi bi span with Stop r => safe r | Cont _ => True end.
Proof.
  intros bs maxoff tgt fi bi span Hbs Hin.
  destruct (in_range_nth _ _ Hin) as [fileSize Hn].
  unfold apply_block_range. rewrite Hn.
  assert (Hz : (bs =? 0) = false) by lia. rewrite Hz, andb_false_r.
  destruct ((wrap64 (bs * bi) <? 0) || (wrap64 (bs * bi) >? maxoff)); auto with c10.
Qed.

Lemma apply_op_safe : forall bs maxoff tgt op,
  0 < bs -> match apply_op true bs maxoff tgt op with Stop r => safe r | Cont _ => True end.
Proof.
  intros bs maxoff tgt op Hbs. unfold apply_op. cbn [andb].
  destruct (op_type op =? BLOCK_RANGE) eqn:Hty; cbn [andb].
  - destruct (in_range tgt (op_file op)) eqn:Hin; cbn [negb]; [|auto with c10].
    apply apply_block_range_safe; assumption.
  - destruct (op_type op =? DATA); auto with c10.
Qed.

Lemma relay_ok : forall f bs maxoff tgt w s,
  0 < bs -> (length s < f)%nat -> step_ok (length s) (relay f true bs maxoff tgt w s).
Proof.
  induction f as [|f IH]; intros bs maxoff tgt w s Hbs Hlt; [lia|].
  cbn [relay]. destruct (read s) as [[fs s1]|] eqn:Hr; [|cbn; auto with c10].
  pose proof (read_some _ _ _ Hr) as Hlen.
  destruct (op_type (dec_op fs) =? HEY); [cbn; lia|].
  pose proof (apply_op_safe bs maxoff tgt (dec_op fs) Hbs) as Ha.
  destruct (apply_op true bs maxoff tgt (dec_op fs)) as [n|r]; [|exact Ha].
  apply step_ok_mono with (n := length s1); [lia|]. apply IH; [assumption|lia].
Qed.

Lemma process_rsync_ok : forall f bs maxoff tgt outSize s,
  0 < bs -> (length s < f)%nat -> step_ok (length s) (process_rsync f true bs maxoff tgt outSize s).
Proof.
  intros f bs maxoff tgt outSize s Hbs Hlt. unfold process_rsync.
  destruct (read s) as [[fs s1]|] eqn:Hr; [|cbn; auto with c10].
  pose proof (read_some _ _ _ Hr) as Hlen. cbn [andb].
  destruct ((op_type (dec_op fs) =? BLOCK_RANGE) && negb (in_range tgt (op_file (dec_op fs)))) eqn:Hv;
    [cbn; auto with c10|].
  destruct (is_full_file_op bs tgt outSize (dec_op fs)) as [[|]|] eqn:Hff.
  - apply step_ok_mono with (n := length s1); [lia|]. apply until_hey_ok. lia.
  - pose proof (apply_op_safe bs maxoff tgt (dec_op fs) Hbs) as Ha.
    destruct (apply_op true bs maxoff tgt (dec_op fs)) as [n|r]; [|exact Ha].
    apply step_ok_mono with (n := length s1); [lia|]. apply relay_ok; [assumption|lia].
  - (* isFullFileOp cannot index out of range once validateOp has passed *)
    exfalso. unfold is_full_file_op in Hff.
    destruct (op_type (dec_op fs) =? BLOCK_RANGE) eqn:Hty; cbn [negb] in Hff; [|discriminate].
    destruct (op_block (dec_op fs) =? 0); cbn [negb] in Hff; [|discriminate].
    destruct (nth_size tgt (op_file (dec_op fs))) as [tsz|] eqn:Hn.
    + destruct (tsz =? outSize); discriminate.
    + apply nth_none_range in Hn. rewrite Hn in Hv. cbn in Hv. discriminate.
Qed.

(** * Patcher, bsdiff path *)

Definition stepw_ok (n : nat) (x : step (Z * stream)) : Prop :=
  match x with
  | Cont (_, s') => (length s' < n)%nat
  | Stop r => safe r
  end.

Lemma stepw_ok_mono : forall n m x, (n <= m)%nat -> stepw_ok n x -> stepw_ok m x.
Proof. intros n m [[w s']|r] Hle H; cbn in *; [lia|exact H]. Qed.

Lemma controls_ok : forall f oldSize off w s,
  (length s < f)%nat -> stepw_ok (length s) (controls f oldSize off w s).
Proof.
  induction f as [|f IH]; intros oldSize off w s Hlt; [lia|].
  cbn [controls]. destruct (read s) as [[fs s1]|] eqn:Hr; [|cbn; auto with c10].
  pose proof (read_some _ _ _ Hr) as Hlen.
  destruct (c_eof (dec_ctl fs)); [cbn; lia|].
  destruct ((off <? 0) || (off >? oldSize)); [cbn; auto with c10|].
  destruct ((0 <? c_add (dec_ctl fs)) && (off + c_add (dec_ctl fs) >? oldSize)); [cbn; auto with c10|].
  apply stepw_ok_mono with (n := length s1); [lia|]. apply IH. lia.
Qed.

Lemma process_bsdiff_ok : forall f tgt outSize s,
  (length s < f)%nat -> step_ok (length s) (process_bsdiff f true tgt outSize s).
Proof.
  intros f tgt outSize s Hlt. unfold process_bsdiff.
  destruct (read s) as [[fs s1]|] eqn:Hr; [|cbn; auto with c10].
  pose proof (read_some _ _ _ Hr) as Hlen.
  destruct (nth_size tgt (dec_bh fs)) as [oldSize|]; [|cbn; auto with c10].
  assert (Hc : stepw_ok (length s1) (controls f oldSize 0 0 s1)) by (apply controls_ok; lia).
  destruct (controls f oldSize 0 0 s1) as [[w s2]|r]; [|exact Hc].
  cbn in Hc.
  destruct (read s2) as [[fs2 s3]|] eqn:Hr2; [|cbn; auto with c10].
  pose proof (read_some _ _ _ Hr2) as Hlen2.
  destruct (negb (op_type (dec_op fs2) =? HEY)); [cbn; auto with c10|].
  destruct (negb (w =? outSize)); [cbn; auto with c10|].
  cbn. lia.
Qed.

(** * Patcher, skipped series *)

Lemma until_eof_ok : forall f s, (length s < f)%nat -> step_ok (length s) (until_eof f s).
Proof.
  induction f as [|f IH]; intros s Hlt; [lia|].
  cbn [until_eof]. destruct (read s) as [[fs s1]|] eqn:Hr; [|cbn; auto with c10].
  pose proof (read_some _ _ _ Hr) as Hlen.
  destruct (c_eof (dec_ctl fs)).
  - cbn. lia.
  - apply step_ok_mono with (n := length s1); [lia|]. apply IH. lia.
Qed.

Lemma skip_file_ok : forall f kind s, (length s < f)%nat -> step_ok (length s) (skip_file f kind s).
Proof.
  intros f kind s Hlt. unfold skip_file.
  destruct (kind =? BSDIFF); [|apply until_hey_ok; assumption].
  destruct (read s) as [[fs s1]|] eqn:Hr; [|cbn; auto with c10].
  pose proof (read_some _ _ _ Hr) as Hlen.
  assert (Hc : step_ok (length s1) (until_eof f s1)) by (apply until_eof_ok; lia).
  destruct (until_eof f s1) as [s2|r]; [|exact Hc].
  cbn in Hc.
  destruct (read s2) as [[fs2 s3]|] eqn:Hr2; [|cbn; auto with c10].
  pose proof (read_some _ _ _ Hr2) as Hlen2.
  destruct (op_type (dec_op fs2) =? HEY); cbn; [lia|auto with c10].
Qed.

(** * Patcher, whole Resume *)

Lemma resume_safe : forall f bs maxoff tgt wl srcs idx s,
  0 < bs -> (length s < f)%nat -> safe (resume f true bs maxoff tgt wl idx srcs s).
Proof.
  intros f bs maxoff tgt wl srcs. induction srcs as [|outSize rest IH]; intros idx s Hbs Hlt.
  - cbn. auto with c10.
  - cbn [resume]. destruct (read s) as [[fs s1]|] eqn:Hr; [|auto with c10].
    pose proof (read_some _ _ _ Hr) as Hlen.
    destruct (negb (sh_file (dec_sh fs) =? idx)); [auto with c10|].
    destruct (negb ((sh_type (dec_sh fs) =? RSYNC) || (sh_type (dec_sh fs) =? BSDIFF))); [auto with c10|].
    match goal with |- safe (match ?r with _ => _ end) => assert (Hs : step_ok (length s1) r) end.
    { destruct (negb (whitelisted wl idx)).
      - apply skip_file_ok. lia.
      - destruct (sh_type (dec_sh fs) =? RSYNC).
        + apply process_rsync_ok; [assumption|lia].
        + apply process_bsdiff_ok. lia. }
    match goal with |- safe (match ?r with _ => _ end) => destruct r as [s2|x] end.
    + cbn in Hs. apply IH; [assumption|lia].
    + exact Hs.
Qed.

Lemma patcher_safe : forall bs maxoff tgt src wl s f,
  0 < bs -> (length s < f)%nat -> safe (patcher f true bs maxoff tgt src wl s).
Proof. intros. unfold patcher. apply resume_safe; assumption. Qed.

(** * rediff *)

Lemma analyze_ops_ok : forall f tgt s,
  (length s < f)%nat -> step_ok (length s) (analyze_ops f true tgt s).
Proof.
  induction f as [|f IH]; intros tgt s Hlt; [lia|].
  cbn [analyze_ops]. destruct (read s) as [[fs s1]|] eqn:Hr; [|cbn; auto with c10].
  pose proof (read_some _ _ _ Hr) as Hlen.
  destruct (op_type (dec_op fs) =? BLOCK_RANGE).
  - destruct (in_range tgt (op_file (dec_op fs))); [|cbn; auto with c10].
    apply step_ok_mono with (n := length s1); [lia|]. apply IH. lia.
  - destruct (op_type (dec_op fs) =? DATA).
    + apply step_ok_mono with (n := length s1); [lia|]. apply IH. lia.
    + destruct (op_type (dec_op fs) =? HEY); cbn; [lia|auto with c10].
Qed.

Lemma analyze_safe : forall f tgt srcs idx s,
  (length s < f)%nat -> safe (analyze f true tgt idx srcs s).
Proof.
  intros f tgt srcs. induction srcs as [|sz rest IH]; intros idx s Hlt.
  - cbn. auto with c10.
  - cbn [analyze]. destruct (read s) as [[fs s1]|] eqn:Hr; [|auto with c10].
    pose proof (read_some _ _ _ Hr) as Hlen.
    destruct (negb (sh_file (dec_sh fs) =? idx)); [auto with c10|].
    assert (Hs : step_ok (length s1) (analyze_ops f true tgt s1)) by (apply analyze_ops_ok; lia).
    destruct (analyze_ops f true tgt s1) as [s2|x]; [|exact Hs].
    cbn in Hs. apply IH. lia.
Qed.

(** whatever the op loop of the analysis accepts, the copy loop of the second pass accepts,
    and it stops at the same frame *)
Lemma analyze_ops_until_hey : forall f fx tgt s s2,
  analyze_ops f fx tgt s = Cont s2 -> until_hey f s = Cont s2.
Proof.
  induction f as [|f IH]; intros fx tgt s s2 H; [discriminate|].
  cbn [analyze_ops] in H. cbn [until_hey].
  destruct (read s) as [[fs s1]|]; [|discriminate].
  destruct (op_type (dec_op fs) =? BLOCK_RANGE) eqn:H0.
  - assert (Hne : (op_type (dec_op fs) =? HEY) = false) by (unfold BLOCK_RANGE, HEY in *; lia).
    rewrite Hne. destruct (in_range tgt (op_file (dec_op fs))); [eauto|destruct fx; discriminate].
  - destruct (op_type (dec_op fs) =? DATA) eqn:H1.
    + assert (Hne : (op_type (dec_op fs) =? HEY) = false) by (unfold DATA, HEY in *; lia).
      rewrite Hne. eauto.
    + destruct (op_type (dec_op fs) =? HEY); [assumption|discriminate].
Qed.

Lemma analyze_ops_stop_not_ok : forall f fx tgt s r, analyze_ops f fx tgt s = Stop r -> r <> Ok.
Proof.
  induction f as [|f IH]; intros fx tgt s r H; cbn [analyze_ops] in H; [congruence|].
  destruct (read s) as [[fs s1]|]; [|congruence].
  destruct (op_type (dec_op fs) =? BLOCK_RANGE).
  - destruct (in_range tgt (op_file (dec_op fs))); [eauto|destruct fx; congruence].
  - destruct (op_type (dec_op fs) =? DATA); [eauto|].
    destruct (op_type (dec_op fs) =? HEY); congruence.
Qed.

Lemma analyze_then_optimize : forall f fx tgt srcs idx s,
  analyze f fx tgt idx srcs s = Ok -> optimize_pass f idx srcs s = Ok.
Proof.
  intros f fx tgt srcs. induction srcs as [|sz rest IH]; intros idx s H; [reflexivity|].
  cbn [analyze] in H. cbn [optimize_pass].
  destruct (read s) as [[fs s1]|]; [|discriminate].
  destruct (negb (sh_file (dec_sh fs) =? idx)); [discriminate|].
  destruct (analyze_ops f fx tgt s1) as [s2|x] eqn:Ha.
  - rewrite (analyze_ops_until_hey _ _ _ _ _ Ha). apply IH. assumption.
  - (* the analysis stopped: it did not return Ok *)
    exfalso. exact (analyze_ops_stop_not_ok _ _ _ _ _ Ha H).
Qed.

Lemma rediff_safe : forall tgt src s f, (length s < f)%nat -> safe (rediff f true tgt src s).
Proof.
  intros tgt src s f Hlt. unfold rediff.
  pose proof (analyze_safe f tgt src 0 s Hlt) as Ha.
  destruct (analyze f true tgt 0 src s) eqn:He; try exact Ha.
  rewrite (analyze_then_optimize _ _ _ _ _ _ He). auto with c10.
Qed.

(** * signature reader and hash grouping *)

Lemma read_blocks_err : forall k n s r, read_blocks k n s = Stop r -> r = Err.
Proof.
  induction k as [|k IH]; intros n s r H; cbn in H; [discriminate|].
  destruct (read_hash s) as [s1| |]; [eauto|discriminate|congruence].
Qed.

Lemma read_signature_err : forall bs sizes n s r, read_signature bs sizes n s = Stop r -> r = Err.
Proof.
  intros bs sizes. induction sizes as [|sz rest IH]; intros n s r H; cbn [read_signature] in H; [discriminate|].
  destruct (num_blocks bs sz =? 0).
  - destruct (read_hash s) as [s1| |]; [eauto|discriminate|congruence].
  - destruct (read_blocks (Z.to_nat (num_blocks bs sz)) n s) as [[n1 s1]|x] eqn:Hb.
    + eauto.
    + apply read_blocks_err in Hb. congruence.
Qed.

Lemma hash_info_safe : forall bs sizes hashIndex n cap,
  n <= cap -> safe (hash_info true bs sizes hashIndex n cap).
Proof.
  intros bs sizes. induction sizes as [|sz rest IH]; intros hashIndex n cap Hcap; cbn [hash_info].
  - destruct (hashIndex =? n); auto with c10.
  - destruct (sz =? 0); [apply IH; assumption|]. cbn [andb].
    destruct (hashIndex + num_blocks bs sz >? n) eqn:Hgt; [auto with c10|].
    assert (Hc : (hashIndex + num_blocks bs sz >? cap) = false) by lia.
    rewrite Hc. apply IH. assumption.
Qed.

Lemma signature_safe : forall bs capf sizes s,
  (forall n, n <= capf n) -> safe (signature true bs capf sizes s).
Proof.
  intros bs capf sizes s Hcap. unfold signature.
  destruct (read_signature bs sizes 0 s) as [n|r] eqn:Hr.
  - apply hash_info_safe. apply Hcap.
  - apply read_signature_err in Hr. subst. auto with c10.
Qed.

(** * overlay *)

Lemma overlay_safe : forall f seekmax writemax pos s,
  (length s < f)%nat -> safe (overlay_patch f seekmax writemax pos s).
Proof.
  induction f as [|f IH]; intros seekmax writemax pos s Hlt; [lia|].
  cbn [overlay_patch]. destruct (read s) as [[fs s1]|] eqn:Hr; [|auto with c10].
  pose proof (read_some _ _ _ Hr) as Hlen.
  assert (Hl : (length s1 < f)%nat) by lia.
  destruct (ov_type (dec_ov fs) =? OV_HEY); [auto with c10|].
  destruct (ov_type (dec_ov fs) =? OV_SKIP).
  - destruct (ov_len (dec_ov fs) =? 0); [auto|].
    destruct ((pos + ov_len (dec_ov fs) <? 0) || (pos + ov_len (dec_ov fs) >? seekmax)); auto with c10.
  - destruct (ov_type (dec_ov fs) =? OV_FRESH); [|auto].
    destruct (ov_data (dec_ov fs) <=? 0); [auto|].
    destruct (pos + ov_data (dec_ov fs) >? writemax); auto with c10.
Qed.

(** * All readers at once; truncation *)

Lemma readers_safe :
  forall (bs maxoff seekmax writemax : Z) (capf : Z -> Z) (tgt src sizes : list Z) (wl : option (list Z)) (s : stream),
    0 < bs -> (forall n, n <= capf n) ->
    safe (patcher (S (length s)) true bs maxoff tgt src wl s) /\
    safe (rediff (S (length s)) true tgt src s) /\
    safe (signature true bs capf sizes s) /\
    safe (overlay_patch (S (length s)) seekmax writemax 0 s).
Proof.
  intros bs maxoff seekmax writemax capf tgt src sizes wl s Hbs Hcap.
  repeat split.
  - exact (patcher_safe bs maxoff tgt src wl s _ Hbs (Nat.lt_succ_diag_r _)).
  - exact (rediff_safe tgt src s _ (Nat.lt_succ_diag_r _)).
  - exact (signature_safe bs capf sizes s Hcap).
  - exact (overlay_safe _ seekmax writemax 0 s (Nat.lt_succ_diag_r _)).
Qed.

Lemma truncation_safe :
  forall (bs maxoff : Z) (tgt src : list Z) (wl : option (list Z)) (s : stream) (k : nat) (cut : bool),
    0 < bs ->
    let t := firstn k s ++ (if cut then [B] else []) in
    safe (patcher (S (length t)) true bs maxoff tgt src wl t).
Proof.
  intros bs maxoff tgt src wl s k cut Hbs t.
  exact (patcher_safe bs maxoff tgt src wl t _ Hbs (Nat.lt_succ_diag_r _)).
Qed.

(** * The fix only turns panics into errors: wherever the tree before the fix does not panic,
      the tree after it returns the same outcome *)

Definition no_panic (r : res) : Prop := forall st, r <> Panic st.

Lemma apply_op_conservative : forall bs maxoff tgt op,
  match apply_op false bs maxoff tgt op with
  | Stop (Panic _) => True
  | x => apply_op true bs maxoff tgt op = x
  end.
Proof.
  intros bs maxoff tgt op. unfold apply_op. cbn [andb].
  destruct (op_type op =? BLOCK_RANGE) eqn:Hty; cbn [andb].
  - destruct (in_range tgt (op_file op)) eqn:Hin; cbn [negb].
    + destruct (apply_block_range bs maxoff tgt (op_file op) (op_block op) (op_span op)) as [n|[]]; auto.
    + unfold apply_block_range. destruct (nth_size tgt (op_file op)) as [z|] eqn:Hn; [|exact I].
      apply nth_in_range in Hn. congruence.
  - destruct (op_type op =? DATA); reflexivity.
Qed.

Lemma relay_conservative : forall f bs maxoff tgt w s,
  match relay f false bs maxoff tgt w s with
  | Stop (Panic _) => True
  | x => relay f true bs maxoff tgt w s = x
  end.
Proof.
  induction f as [|f IH]; intros bs maxoff tgt w s; [reflexivity|].
  cbn [relay]. destruct (read s) as [[fs s1]|]; [|reflexivity].
  destruct (op_type (dec_op fs) =? HEY); [reflexivity|].
  pose proof (apply_op_conservative bs maxoff tgt (dec_op fs)) as Ha.
  destruct (apply_op false bs maxoff tgt (dec_op fs)) as [n|[]]; try (rewrite Ha; reflexivity); [|exact I].
  rewrite Ha. apply IH.
Qed.

Lemma process_rsync_conservative : forall f bs maxoff tgt outSize s,
  match process_rsync f false bs maxoff tgt outSize s with
  | Stop (Panic _) => True
  | x => process_rsync f true bs maxoff tgt outSize s = x
  end.
Proof.
  intros f bs maxoff tgt outSize s. unfold process_rsync.
  destruct (read s) as [[fs s1]|]; [|reflexivity]. cbn [andb].
  destruct (is_full_file_op bs tgt outSize (dec_op fs)) as [[|]|] eqn:Hff.
  - (* a full-file op has a valid index *)
    assert (Hv : (op_type (dec_op fs) =? BLOCK_RANGE) && negb (in_range tgt (op_file (dec_op fs))) = false).
    { unfold is_full_file_op in Hff.
      destruct (op_type (dec_op fs) =? BLOCK_RANGE); cbn [negb] in Hff; [|discriminate].
      destruct (op_block (dec_op fs) =? 0); cbn [negb] in Hff; [|discriminate].
      destruct (nth_size tgt (op_file (dec_op fs))) as [tsz|] eqn:Hn; [|discriminate].
      apply nth_in_range in Hn. rewrite Hn. reflexivity. }
    rewrite Hv. destruct (until_hey f s1) as [s2|[]]; auto.
  - pose proof (apply_op_conservative bs maxoff tgt (dec_op fs)) as Ha.
    destruct ((op_type (dec_op fs) =? BLOCK_RANGE) && negb (in_range tgt (op_file (dec_op fs)))) eqn:Hv.
    + (* rejected by validateOp: before the fix this op reached pool.GetSize *)
      unfold apply_op in *. cbn [andb] in *.
      destruct (op_type (dec_op fs) =? BLOCK_RANGE); cbn [andb] in *; [|discriminate].
      unfold apply_block_range.
      destruct (nth_size tgt (op_file (dec_op fs))) as [z|] eqn:Hn; [|exact I].
      apply nth_in_range in Hn. rewrite Hn in Hv. discriminate.
    + destruct (apply_op false bs maxoff tgt (dec_op fs)) as [n|[]]; try (rewrite Ha; reflexivity); [|exact I].
      rewrite Ha. apply relay_conservative.
  - exact I.
Qed.

Lemma process_bsdiff_conservative : forall f tgt outSize s,
  match process_bsdiff f false tgt outSize s with
  | Stop (Panic _) => True
  | x => process_bsdiff f true tgt outSize s = x
  end.
Proof.
  intros f tgt outSize s. unfold process_bsdiff.
  destruct (read s) as [[fs s1]|]; [|reflexivity].
  destruct (nth_size tgt (dec_bh fs)) as [oldSize|]; [|exact I].
  destruct (controls f oldSize 0 0 s1) as [[w s2]|[]]; try reflexivity.
  destruct (read s2) as [[fs2 s3]|]; [|reflexivity].
  destruct (negb (op_type (dec_op fs2) =? HEY)); [reflexivity|].
  destruct (negb (w =? outSize)); reflexivity.
Qed.

Lemma resume_conservative : forall f bs maxoff tgt wl srcs idx s,
  no_panic (resume f false bs maxoff tgt wl idx srcs s) ->
  resume f true bs maxoff tgt wl idx srcs s = resume f false bs maxoff tgt wl idx srcs s.
Proof.
  intros f bs maxoff tgt wl srcs. induction srcs as [|outSize rest IH]; intros idx s Hnp; [reflexivity|].
  cbn [resume] in *. destruct (read s) as [[fs s1]|]; [|reflexivity].
  destruct (negb (sh_file (dec_sh fs) =? idx)); [reflexivity|].
  destruct (negb ((sh_type (dec_sh fs) =? RSYNC) || (sh_type (dec_sh fs) =? BSDIFF))); [reflexivity|].
  destruct (negb (whitelisted wl idx)).
  - destruct (skip_file f (sh_type (dec_sh fs)) s1) as [s2|x]; [apply IH; assumption|reflexivity].
  - destruct (sh_type (dec_sh fs) =? RSYNC).
    + pose proof (process_rsync_conservative f bs maxoff tgt outSize s1) as Hc.
      destruct (process_rsync f false bs maxoff tgt outSize s1) as [s2|[]];
        try (rewrite Hc; reflexivity).
      * rewrite Hc. apply IH; assumption.
      * exfalso. eapply Hnp. reflexivity.
    + pose proof (process_bsdiff_conservative f tgt outSize s1) as Hc.
      destruct (process_bsdiff f false tgt outSize s1) as [s2|[]];
        try (rewrite Hc; reflexivity).
      * rewrite Hc. apply IH; assumption.
      * exfalso. eapply Hnp. reflexivity.
Qed.

Lemma patcher_conservative : forall f bs maxoff tgt src wl s,
  no_panic (patcher f false bs maxoff tgt src wl s) ->
  patcher f true bs maxoff tgt src wl s = patcher f false bs maxoff tgt src wl s.
Proof. intros. unfold patcher in *. apply resume_conservative. assumption. Qed.

(** ** ... the same for the optimizer *)

Lemma analyze_ops_conservative : forall f tgt s,
  match analyze_ops f false tgt s with
  | Stop (Panic _) => True
  | x => analyze_ops f true tgt s = x
  end.
Proof.
  induction f as [|f IH]; intros tgt s; [reflexivity|].
  cbn [analyze_ops]. destruct (read s) as [[fs s1]|]; [|reflexivity].
  destruct (op_type (dec_op fs) =? BLOCK_RANGE).
  - destruct (in_range tgt (op_file (dec_op fs))); [apply IH|exact I].
  - destruct (op_type (dec_op fs) =? DATA); [apply IH|].
    destruct (op_type (dec_op fs) =? HEY); reflexivity.
Qed.

Lemma analyze_conservative : forall f tgt srcs idx s,
  no_panic (analyze f false tgt idx srcs s) ->
  analyze f true tgt idx srcs s = analyze f false tgt idx srcs s.
Proof.
  intros f tgt srcs. induction srcs as [|sz rest IH]; intros idx s Hnp; [reflexivity|].
  cbn [analyze] in *. destruct (read s) as [[fs s1]|]; [|reflexivity].
  destruct (negb (sh_file (dec_sh fs) =? idx)); [reflexivity|].
  pose proof (analyze_ops_conservative f tgt s1) as Hc.
  destruct (analyze_ops f false tgt s1) as [s2|[]]; try (rewrite Hc; reflexivity).
  - rewrite Hc. apply IH; assumption.
  - exfalso. eapply Hnp. reflexivity.
Qed.

Lemma rediff_conservative : forall f tgt src s,
  no_panic (rediff f false tgt src s) -> rediff f true tgt src s = rediff f false tgt src s.
Proof.
  intros f tgt src s Hnp. unfold rediff in *.
  assert (Ha : no_panic (analyze f false tgt 0 src s)).
  { intros st He. rewrite He in Hnp. eapply Hnp. reflexivity. }
  rewrite (analyze_conservative _ _ _ _ _ Ha). reflexivity.
Qed.

(** ** ... and for the hash grouping (here the containers' file sizes must be non-negative) *)

Lemma num_blocks_nonneg : forall bs sz, 0 < bs -> 0 <= sz -> 0 <= num_blocks bs sz.
Proof. intros bs sz Hbs Hsz. unfold num_blocks. apply Z.quot_pos; lia. Qed.

Lemma hash_info_past_end : forall bs sizes hashIndex n cap,
  0 < bs -> Forall (fun z => 0 <= z) sizes -> n < hashIndex ->
  no_panic (hash_info false bs sizes hashIndex n cap) -> hash_info false bs sizes hashIndex n cap = Err.
Proof.
  intros bs sizes. induction sizes as [|sz rest IH]; intros hashIndex n cap Hbs Hall Hlt Hnp; cbn [hash_info] in *.
  - assert (He : (hashIndex =? n) = false) by lia. rewrite He. reflexivity.
  - inversion Hall as [|? ? Hsz Hrest]; subst.
    destruct (sz =? 0); [apply IH; try assumption; lia|]. cbn [andb] in *.
    destruct (hashIndex + num_blocks bs sz >? cap).
    + exfalso. eapply Hnp. reflexivity.
    + pose proof (num_blocks_nonneg bs sz Hbs Hsz). apply IH; try assumption; lia.
Qed.

Lemma hash_info_conservative : forall bs sizes hashIndex n cap,
  0 < bs -> Forall (fun z => 0 <= z) sizes -> n <= cap ->
  no_panic (hash_info false bs sizes hashIndex n cap) ->
  hash_info true bs sizes hashIndex n cap = hash_info false bs sizes hashIndex n cap.
Proof.
  intros bs sizes. induction sizes as [|sz rest IH]; intros hashIndex n cap Hbs Hall Hcap Hnp; cbn [hash_info] in *; [reflexivity|].
  inversion Hall as [|? ? Hsz Hrest]; subst.
  destruct (sz =? 0); [apply IH; assumption|]. cbn [andb] in *.
  destruct (hashIndex + num_blocks bs sz >? cap) eqn:Hc.
  - exfalso. eapply Hnp. reflexivity.
  - destruct (hashIndex + num_blocks bs sz >? n) eqn:Hn.
    + symmetry. apply hash_info_past_end; try assumption. lia.
    + apply IH; assumption.
Qed.

Lemma signature_conservative : forall bs capf sizes s,
  0 < bs -> Forall (fun z => 0 <= z) sizes -> (forall n, n <= capf n) ->
  no_panic (signature false bs capf sizes s) ->
  signature true bs capf sizes s = signature false bs capf sizes s.
Proof.
  intros bs capf sizes s Hbs Hall Hcap Hnp. unfold signature in *.
  destruct (read_signature bs sizes 0 s) as [n|r]; [|reflexivity].
  apply hash_info_conservative; auto.
Qed.

(** * The tree before the fix: one-message witnesses (after the series header where there is one) *)

(** new file 0 of 100 bytes, one old file of 100 bytes; series header RSYNC / file 0 (all-default
    fields: empty frame), then ONE op: BLOCK_RANGE fileIndex 7 blockIndex 0 blockSpan 1 *)
Lemma rsync_isfullfileop_panics :
  patcher 3 false 65536 (2^44) [100] [100] None [G []; G [(2, V 7); (4, V 1)]] = Panic SIsFullFileOp.
Proof. vm_compute. reflexivity. Qed.

(** ... the same op with blockIndex 1 gets past isFullFileOp and reaches pool.GetSize *)
Lemma rsync_getsize_panics :
  patcher 3 false 65536 (2^44) [100] [100] None [G []; G [(2, V 7); (3, V 1); (4, V 1)]] = Panic SPoolGetSize.
Proof. vm_compute. reflexivity. Qed.

(** ... and a negative index (-1 on the wire: 2^64-1) *)
Lemma rsync_negative_index_panics :
  patcher 3 false 65536 (2^44) [100] [100] None [G []; G [(2, V (2^64 - 1)); (4, V 1)]] = Panic SIsFullFileOp.
Proof. vm_compute. reflexivity. Qed.

(** series header BSDIFF / file 0, then ONE BsdiffHeader with targetIndex 7 *)
Lemma bsdiff_target_panics :
  patcher 3 false 65536 (2^44) [100] [100] None [G [(1, V 1)]; G [(1, V 7)]] = Panic SPoolGetReadSeeker.
Proof. vm_compute. reflexivity. Qed.

Lemma rediff_analyze_panics :
  rediff 3 false [100] [100] [G []; G [(2, V 7); (4, V 1)]] = Panic SAnalyzePatch.
Proof. vm_compute. reflexivity. Qed.

(** a container with one file of 4 blocks, a signature stream carrying ONE hash (slice of
    capacity 1) *)
Lemma hashinfo_panics :
  signature false 65536 (fun n => n) [3 * 65536 + 1] [G [(1, V 5); (2, L 16)]] = Panic SHashInfoSlice.
Proof. vm_compute. reflexivity. Qed.

(** existential forms used by Properties/C10.v *)

Lemma patcher_rsync_refuted_witness :
  exists (tgt src : list Z) (s : stream) (st : site),
    Forall (fun z => 0 <= z) tgt /\ Forall (fun z => 0 <= z) src /\
    patcher (S (length s)) false 65536 (2^44) tgt src None s = Panic st.
Proof.
  exists [100], [100], [G []; G [(2, V 7); (4, V 1)]], SIsFullFileOp.
  split; [|split]; [repeat (constructor; try lia) | repeat (constructor; try lia) | exact rsync_isfullfileop_panics].
Qed.

Lemma patcher_applysingle_refuted_witness :
  exists (s : stream), patcher (S (length s)) false 65536 (2^44) [100] [100] None s = Panic SPoolGetSize.
Proof. exists [G []; G [(2, V 7); (3, V 1); (4, V 1)]]. exact rsync_getsize_panics. Qed.

Lemma patcher_negative_index_refuted_witness :
  exists (s : stream), patcher (S (length s)) false 65536 (2^44) [100] [100] None s = Panic SIsFullFileOp.
Proof. exists [G []; G [(2, V (2^64 - 1)); (4, V 1)]]. exact rsync_negative_index_panics. Qed.

Lemma patcher_bsdiff_refuted_witness :
  exists (s : stream), patcher (S (length s)) false 65536 (2^44) [100] [100] None s = Panic SPoolGetReadSeeker.
Proof. exists [G [(1, V 1)]; G [(1, V 7)]]. exact bsdiff_target_panics. Qed.

Lemma rediff_analyze_refuted_witness :
  exists (s : stream), rediff (S (length s)) false [100] [100] s = Panic SAnalyzePatch.
Proof. exists [G []; G [(2, V 7); (4, V 1)]]. exact rediff_analyze_panics. Qed.

Lemma hashinfo_refuted_witness :
  exists (sizes : list Z) (s : stream),
    Forall (fun z => 0 <= z) sizes /\ signature false 65536 (fun n => n) sizes s = Panic SHashInfoSlice.
Proof.
  exists [3 * 65536 + 1], [G [(1, V 5); (2, L 16)]].
  split; [repeat (constructor; try lia) | exact hashinfo_panics].
Qed.

(** * Non-vacuity: valid streams are accepted (and the same streams cut short are errors) *)

Example patcher_accepts_valid :
  (* file 0: block range [0,2) of old file 0 then 5 fresh bytes; file 1: full-file op (rename of old
     file 1); file 2: bsdiff against old file 0 (add 100, copy 7, seek 10; add 20; eof) + sentinel *)
  let s := [ G []; G [(4, V 2)]; G [(1, V 1); (5, L 5)]; G [(1, V 2049)];
             G [(16, V 1)]; G [(2, V 1); (4, V 1)]; G [(1, V 2049)];
             G [(1, V 1); (16, V 2)]; G []; G [(1, L 100); (2, L 7); (3, V 10)]; G [(1, L 20)]; G [(4, V 1)]; G [(1, V 2049)] ] in
  patcher (S (length s)) true 65536 (2^44) [70000; 10] [70005; 10; 127] None s = Ok
  /\ patcher (S (length s)) false 65536 (2^44) [70000; 10] [70005; 10; 127] None s = Ok
  /\ patcher (S (length s)) true 65536 (2^44) [70000; 10] [70005; 10; 127] None (firstn 9 s) = Err.
Proof. vm_compute. repeat split; reflexivity. Qed.

(** a series that is skipped (file not whitelisted) is read according to its kind: the header of
    this bsdiff series, decoded as a SyncOp, would read as the end marker (targetIndex 2049) *)
Example patcher_skips_bsdiff_series :
  let s := [ G [(1, V 1)]; G [(1, V 2049)]; G [(1, L 100); (3, V 5)]; G [(4, V 1)]; G [(1, V 2049)];
             G [(16, V 1)]; G [(1, V 1); (5, L 10)]; G [(1, V 2049)] ] in
  patcher (S (length s)) true 65536 (2^44) [100] [100; 10] (Some [1]) s = Ok
  /\ patcher (S (length s)) true 65536 (2^44) [100] [100; 10] (Some [1]) (firstn 3 s) = Err
  /\ patcher (S (length s)) true 65536 (2^44) [100] [100; 10] (Some [1])
       [ G [(1, V 1)]; G [(1, V 2049)]; G [(4, V 1)]; G [(1, V 1)] ] = Err.
Proof. vm_compute. repeat split; reflexivity. Qed.

Example signature_accepts_valid :
  signature true 65536 (fun n => n) [70000; 0; 10] [G [(1, V 1)]; G [(1, V 2)]; G []; G [(2, L 16)]] = Ok
  /\ signature true 65536 (fun n => n) [70000; 0; 10] [G [(1, V 1)]; G [(1, V 2)]; G []] = Err.
Proof. vm_compute. split; reflexivity. Qed.

Example overlay_accepts_valid :
  overlay_patch 5 (2^44) (2^44) 0 [G []; G [(2, V 100)]; G [(1, V 1); (3, L 30)]; G [(1, V 2040)]] = Ok
  /\ overlay_patch 5 (2^44) (2^44) 0 [G []; G [(2, V (2^64 - 1))]; G [(1, V 2040)]] = Err.
Proof. vm_compute. split; reflexivity. Qed.
