(** C14 — model of pwr/overlay/overlay_writer.go (definitions only, executable).

    [overlayWriter] = a [bufio.Writer] of [bufSize] bytes in front of [overlayProcessor], which
    compares what it is handed, window by window, with the same number of bytes read from the
    old file, and emits SKIP messages for runs of more than [threshold] equal bytes and FRESH
    messages for everything else.  [bufSize] (128 KiB in Go) and [threshold] (8 KiB) are
    parameters.  The message encoding [enc] and the [magic] bytes are section variables (the
    wire format is not what this property is about; Exec/C14.v instantiates them with the
    real varint/protobuf encoding so that overlay offsets can be compared with Go's).

    Assumptions stated by this model:
    - the old-file reader is an [os.File]: a [Read] of n bytes returns all n bytes unless the
      end of the file is reached (the reader is the list of bytes still to be read);
    - writes to the overlay file and reads of the old file do not fail (no error paths);
    - the caller seeks the old-file reader to [readOffset] and the overlay file to
      [overlayOffset] before [NewOverlayWriter], as overlayEntryWriter.Resume does. *)
From Wharf Require Import Base.Prelude.
From Wharf Require Export Overlay.Fast.
Local Open Scope N_scope.

(** List functions are the [N]-indexed tail-recursive ones of Overlay/Fast.v: [len] = length,
    [takeN n l] = l[:n], [dropN n l] = l[n:], [take_like d l] = l[:len(d)], [drop_like d l] =
    l[len(d):], [app_tr] = append, [repeat_onto v n l] = n copies of v in front of l. *)

(** Go's [l[a:b]] *)
Definition slice {A} (l : list A) (a b : N) : list A := takeN (b - a) (dropN a l).

(** OverlayOp: SKIP len | FRESH data | HEY_YOU_DID_IT *)
Inductive op := Skip (n : N) | Fresh (d : list byte) | EndMark.

(** how far an op moves the position in the patched file (and [readOffset]) *)
Definition op_len (o : op) : N :=
  match o with Skip n => n | Fresh d => len d | EndMark => 0 end.

(* ------------------------------------------------------------------------------------ *)
(** * overlayProcessor.write: one window *)
Section Window.
  Variable threshold : N.

  (** the closure [commit(i)]: [lastOp] and [same] are the captured variables, [acc] the
      messages emitted so far (most recent first).  [freshLen := i - same - lastOp] is only
      tested for [> 0], so the truncated subtraction of [N] decides like Go's [int]. *)
  Definition commit (buf : list byte) (i lastOp same : N) (acc : list op) : N * list op :=
    let freshLen := i - same - lastOp in
    let acc1 := if 0 <? freshLen
                then Fresh (slice buf lastOp (i - same)) :: acc   (* ow.fresh(buf[lastOp : i-same]) *)
                else acc in
    (i (* lastOp = i *), Skip same :: acc1).                        (* ow.skip(same) *)

  (** [for i := 0; i < rbuflen; i++]: [rb] / [b] are what is left of rbuf[:rbuflen] / buf *)
  Fixpoint scan (rb b buf : list byte) (i lastOp same : N) (acc : list op) : N * N * N * list op :=
    match rb, b with
    | r :: rb', x :: b' =>
        if r =? x then scan rb' b' buf (i + 1) lastOp (same + 1) acc
        else
          let '(lastOp', acc') :=
            if threshold <? same then commit buf i lastOp same acc else (lastOp, acc) in
          scan rb' b' buf (i + 1) lastOp' 0 acc'
    | _, _ => (i, lastOp, same, acc)
    end.

  (** the messages emitted for the window [buf] when the read returned [rb] ([len rb <= len buf]) *)
  Definition write_window (rb buf : list byte) : list op :=
    let rbuflen := len rb in
    let '(i, lastOp, same, acc) := scan rb buf buf 0 0 0 [] in
    (* did we finish on a same streak? *)
    let '(lastOp, acc) :=
      if threshold <? same then commit buf i lastOp same acc else (lastOp, acc) in
    (* anything fresh left to write? *)
    let acc := if lastOp <? i then Fresh (slice buf lastOp rbuflen) :: acc else acc in
    (* finally, if we have any trailing data, it's fresh *)
    let acc := if rbuflen <? len buf then Fresh (dropN rbuflen buf) :: acc else acc in
    rev acc.
End Window.

(* ------------------------------------------------------------------------------------ *)
(** * the writer *)
Section Writer.
  Variables (bufSize threshold : N).
  Variable enc : op -> list byte.      (* wire.WriteMessage of an OverlayOp: length prefix + protobuf *)
  Variable magic : list byte.          (* wire.WriteMagic(OverlayMagic) *)

  Record wstate := mkW {
    w_rrest : list byte;         (* ow.r: the bytes of the old file not yet read *)
    w_roff : N;                  (* ow.readOffset *)
    w_ooff : N;                  (* ow.cw.Count(): position in the overlay file *)
    w_out : list (list byte);    (* what this writer has written to the overlay file, most recent chunk first *)
    w_bn : N;                    (* bufio.Writer: b.n *)
    w_bbuf : list byte;          (* bufio.Writer: b.buf[:b.n], most recent byte first *)
    w_fail : bool                (* a loop of the model ran out of fuel (Go would hang), or bufio
                                    recorded io.ErrShortWrite; the theorems exclude both *)
  }.

  Definition put (st : wstate) (chunk : list byte) : wstate :=
    mkW (w_rrest st) (w_roff st) (w_ooff st + len chunk) (chunk :: w_out st) (w_bn st) (w_bbuf st) (w_fail st).

  (** [ow.fresh] / [ow.skip] / the end marker: write the message, advance [readOffset] *)
  Definition emit (st : wstate) (o : op) : wstate :=
    let st' := put st (enc o) in
    mkW (w_rrest st') (w_roff st' + op_len o) (w_ooff st') (w_out st') (w_bn st') (w_bbuf st') (w_fail st').

  (** [overlayProcessor.write]: at most [bufSize] bytes of [buf0]; returns the count taken *)
  Definition proc_write1 (st : wstate) (buf0 : list byte) : wstate * N :=
    let buf := if bufSize <? len buf0 then takeN bufSize buf0 else buf0 in
    (* rbuflen, err := ow.r.Read(rbuf[:len(buf)]);  io.EOF is fine *)
    let rb := take_like buf (w_rrest st) in
    let st1 := mkW (drop_like buf (w_rrest st)) (w_roff st) (w_ooff st) (w_out st) (w_bn st) (w_bbuf st) (w_fail st) in
    (fold_left emit (write_window threshold rb buf) st1, len buf).

  Definition set_fail (st : wstate) : wstate :=
    mkW (w_rrest st) (w_roff st) (w_ooff st) (w_out st) (w_bn st) (w_bbuf st) true.

  (** [overlayProcessor.Write]:
      [for written < len(buf) { n, _ := op.write(buf); buf = buf[n:]; written += n }; return written].
      The condition compares the bytes written so far with the length of what is *left*, so a
      call with more than one window of data can return early with a short count and no
      error.  bufio.Writer.Write copes with that (see [bw_loop]); Flush never hands over
      more than one window.  [len buf / bufSize + 1] iterations suffice when [bufSize > 0]. *)
  Fixpoint proc_write_loop (fuel : nat) (st : wstate) (buf : list byte) (written : N) : wstate * N :=
    if written <? len buf then
      match fuel with
      | O => (set_fail st, written)
      | S f => let '(st', n) := proc_write1 st buf in proc_write_loop f st' (dropN n buf) (written + n)
      end
    else (st, written).
  Definition proc_write (st : wstate) (buf : list byte) : wstate * N :=
    proc_write_loop (S (N.to_nat (len buf / bufSize))) st buf 0.

  (** bufio.Writer *)
  Definition buffer_append (st : wstate) (p : list byte) : wstate :=   (* copy(b.buf[b.n:], p); b.n += n *)
    mkW (w_rrest st) (w_roff st) (w_ooff st) (w_out st) (w_bn st + len p) (rev_append p (w_bbuf st)) (w_fail st).

  (** bufio.Writer.Flush: [n, err := b.wr.Write(b.buf[0:b.n]); if n < b.n && err == nil { err =
      io.ErrShortWrite }]; the error is sticky in Go, here it sets [w_fail] *)
  Definition bw_flush (st : wstate) : wstate :=
    if w_bn st =? 0 then st
    else let '(st', n) := proc_write st (rev_append (w_bbuf st) []) in
         mkW (w_rrest st') (w_roff st') (w_ooff st') (w_out st') 0 [] (w_fail st' || (n <? w_bn st)).

  (** [for len(p) > b.Available() && b.err == nil] of bufio.Writer.Write; returns the rest of
      p.  A direct write may come back short (see [proc_write]); then [p = p[n:]] and the loop
      goes round again. *)
  Fixpoint bw_loop (fuel : nat) (st : wstate) (p : list byte) : wstate * list byte :=
    if len p <=? bufSize - w_bn st then (st, p)
    else match fuel with
         | O => (set_fail st, p)
         | S f =>
             if w_bn st =? 0 then
               (* large write, empty buffer: write directly from p to avoid the copy *)
               let '(st', n) := proc_write st p in bw_loop f st' (dropN n p)
             else
               let n := bufSize - w_bn st in     (* n := copy(b.buf[b.n:], p); b.n += n; b.Flush() *)
               bw_loop f (bw_flush (buffer_append st (takeN n p))) (dropN n p)
         end.

  Definition bw_write (st : wstate) (p : list byte) : wstate :=        (* overlayWriter.Write *)
    let '(st', p') := bw_loop (S (S (N.to_nat (len p / bufSize)))) st p in buffer_append st' p'.

  (** NewOverlayWriter(r, readOffset, w, overlayOffset) with r at [readOffset] of [old] *)
  Definition new_writer (old : list byte) (readOffset overlayOffset : N) : wstate :=
    let st := mkW (dropN readOffset old) readOffset overlayOffset [] 0 [] false in
    if overlayOffset =? 0
    then put (put st magic) (enc (Skip 0))   (* WriteMagic; WriteMessage(&OverlayHeader{}): an empty message *)
    else st.

  Definition finalize (st : wstate) : wstate := emit (bw_flush st) EndMark.   (* Finalize *)

  (** what one session does *)
  Inductive event := EvWrite (d : list byte) | EvFlush.

  Definition run_event (st : wstate) (e : event) : wstate :=
    match e with EvWrite d => bw_write st d | EvFlush => bw_flush st end.
  Definition run_events (st : wstate) (evs : list event) : wstate := fold_left run_event evs st.

  Fixpoint written (evs : list event) : list byte :=
    match evs with
    | [] => []
    | EvWrite d :: r => d ++ written r
    | EvFlush :: r => written r
    end.

  (** the overlay file: an os.File opened without O_TRUNC and positioned at [off] *)
  Definition write_at (file : list byte) (off : N) (b : list byte) : list byte :=
    app_tr (takeN off file) (repeat_onto 0 (off - len file) (app_tr b (drop_like b (dropN off file)))).

  Definition session_bytes (st : wstate) : list byte := concat_rev (w_out st).

  (** the same, also noting (ReadOffset(), OverlayOffset()) after every Flush (most recent first) *)
  Definition run_event_log (sl : wstate * list (N * N)) (e : event) : wstate * list (N * N) :=
    let st' := run_event (fst sl) e in
    (st', match e with EvFlush => (w_roff st', w_ooff st') :: snd sl | EvWrite _ => snd sl end).
  Definition run_events_log (st : wstate) (evs : list event) : wstate * list (N * N) :=
    fold_left run_event_log evs (st, []).

  (** Sessions.  Every session but the last ends with a save (Flush, then ReadOffset() and
      OverlayOffset() are recorded); then the process dies and the overlay file keeps the
      bytes up to the saved overlay offset followed by arbitrary [stale] bytes; the next
      session is opened at the recorded offsets.  The last session ends with Finalize.
      Result: the overlay file, whether any loop ran out of fuel, and the offsets reported
      after every Flush / save in order. *)
  Fixpoint run_sessions (old file : list byte) (roff ooff : N)
           (ss : list (list event * list byte)) (last : list event) : list byte * bool * list (N * N) :=
    match ss with
    | [] =>
        let '(st0, log) := run_events_log (new_writer old roff ooff) last in
        let st := finalize st0 in
        (write_at file ooff (session_bytes st), w_fail st, rev log)
    | (evs, stale) :: ss' =>
        let '(st0, log) := run_events_log (new_writer old roff ooff) evs in
        let st := bw_flush st0 in
        let file' := write_at file ooff (session_bytes st) in
        let crashed := app_tr (takeN (w_ooff st) file') stale in
        let '(f, oof, log') := run_sessions old crashed (w_roff st) (w_ooff st) ss' last in
        (f, w_fail st || oof, rev log ++ (w_roff st, w_ooff st) :: log')
    end.
End Writer.

Arguments mkW _ _ _ _ _ _ _ : clear implicits.
