(** Characterisation of the tail-recursive list functions of Overlay/Fast.v by the standard
    library functions they compute. *)
From Wharf Require Import Base.Prelude Overlay.Fast.
From Coq Require Import ZifyBool ZifyNat ZifyN.
Local Open Scope N_scope.

Lemma len_acc_spec {A} (l : list A) : forall acc, len_acc l acc = acc + N.of_nat (length l).
Proof.
  induction l as [|x l IH]; intros acc; cbn [len_acc length].
  - lia.
  - rewrite IH. lia.
Qed.

Lemma len_spec {A} (l : list A) : len l = N.of_nat (length l).
Proof. unfold len. rewrite len_acc_spec. lia. Qed.

Lemma length_acc_spec {A} (l : list A) : forall acc, length_acc l acc = (acc + length l)%nat.
Proof.
  induction l as [|x l IH]; intros acc; cbn [length_acc length].
  - lia.
  - rewrite IH. lia.
Qed.

Lemma length_tr_spec {A} (l : list A) : length_tr l = length l.
Proof. unfold length_tr. rewrite length_acc_spec. lia. Qed.

Lemma app_tr_spec {A} (a b : list A) : app_tr a b = a ++ b.
Proof. unfold app_tr. rewrite !rev_append_rev, app_nil_r, rev_involutive. reflexivity. Qed.

Lemma split_acc_spec {A} (l : list A) :
  forall n acc, split_acc l n acc = (rev (firstn (N.to_nat n) l) ++ acc, skipn (N.to_nat n) l).
Proof.
  induction l as [|x l IH]; intros n acc; cbn [split_acc].
  - rewrite firstn_nil, skipn_nil. reflexivity.
  - destruct (N.eqb_spec n 0) as [->|Hn].
    + reflexivity.
    + rewrite IH. replace (N.to_nat n) with (S (N.to_nat (N.pred n))) by lia.
      cbn [firstn skipn rev]. rewrite <- app_assoc. reflexivity.
Qed.

Lemma takeN_spec {A} (n : N) (l : list A) : takeN n l = firstn (N.to_nat n) l.
Proof.
  unfold takeN. rewrite split_acc_spec. cbn [fst].
  rewrite rev_append_rev, !app_nil_r, rev_involutive. reflexivity.
Qed.

Lemma dropN_spec {A} (n : N) (l : list A) : dropN n l = skipn (N.to_nat n) l.
Proof. unfold dropN. rewrite split_acc_spec. reflexivity. Qed.

Lemma take_like_acc_spec {A B} (d : list B) :
  forall (l acc : list A), take_like_acc d l acc = rev (firstn (length d) l) ++ acc.
Proof.
  induction d as [|y d IH]; intros l acc; cbn [take_like_acc length firstn].
  - reflexivity.
  - destruct l as [|x l]; [reflexivity|]. rewrite IH. cbn [rev]. rewrite <- app_assoc. reflexivity.
Qed.

Lemma take_like_spec {A B} (d : list B) (l : list A) : take_like d l = firstn (length d) l.
Proof.
  unfold take_like. rewrite take_like_acc_spec, rev_append_rev, !app_nil_r, rev_involutive. reflexivity.
Qed.

Lemma drop_like_spec {A B} (d : list B) : forall (l : list A), drop_like d l = skipn (length d) l.
Proof.
  induction d as [|y d IH]; intros l; cbn [drop_like length skipn].
  - reflexivity.
  - destruct l as [|x l]; [reflexivity|]. apply IH.
Qed.

Lemma pos_iter_cons {A} (v : A) (p : positive) :
  forall acc, Pos.iter (cons v) acc p = repeat v (Pos.to_nat p) ++ acc.
Proof.
  intros acc. rewrite Pos2Nat.inj_iter.
  induction (Pos.to_nat p) as [|k IH]; cbn [nat_rect repeat app].
  - reflexivity.
  - cbn. f_equal. exact IH.
Qed.

Lemma repeat_onto_spec {A} (v : A) (n : N) (acc : list A) :
  repeat_onto v n acc = repeat v (N.to_nat n) ++ acc.
Proof.
  destruct n as [|p]; cbn [repeat_onto N.to_nat].
  - reflexivity.
  - apply pos_iter_cons.
Qed.

Lemma concat_rev_spec {A} (chunks : list (list A)) : concat_rev chunks = concat (rev chunks).
Proof.
  unfold concat_rev.
  assert (H : forall acc, fold_left (fun acc ch => app_tr ch acc) chunks acc = concat (rev chunks) ++ acc).
  { induction chunks as [|c cs IH]; intros acc; cbn [fold_left rev concat].
    - reflexivity.
    - rewrite IH, app_tr_spec, concat_app. cbn [concat]. rewrite app_nil_r, <- app_assoc. reflexivity. }
  rewrite H, app_nil_r. reflexivity.
Qed.
