(** C14 — sessions and the patch: the overlay file written by any sequence of sessions, each
    resumed from the offsets reported after a Flush and whatever stale bytes follow the saved
    overlay offset, applied to the old file and truncated, is the concatenation of everything
    written. *)
From Wharf Require Import Base.Prelude Overlay.Fast Overlay.FastProofs Overlay.Writer Overlay.Patch
  Overlay.WindowProofs Overlay.WriterProofs.
From Coq Require Import ZifyBool ZifyNat ZifyN.
Local Open Scope N_scope.

Lemma list_eqb_refl (l : list N) : list_eqb N.eqb l l = true.
Proof. induction l as [|x l IH]; cbn; [reflexivity|]. rewrite N.eqb_refl, IH. reflexivity. Qed.

Lemma write_at_spec file off b :
  write_at file off b =
  firstn (N.to_nat off) file ++ repeat 0 (N.to_nat off - length file) ++ b ++ skipn (N.to_nat off + length b) file.
Proof.
  unfold write_at. autorewrite with fast. rewrite skipn_skipn.
  replace (N.to_nat (off - N.of_nat (length file))) with (N.to_nat off - length file)%nat by lia.
  reflexivity.
Qed.

Lemma write_at_app file off a b :
  write_at file off (a ++ b) =
  firstn (N.to_nat off + length a) (write_at file off a) ++ b ++ skipn (N.to_nat off + length a + length b) file.
Proof.
  rewrite !write_at_spec.
  set (pre := firstn (N.to_nat off) file ++ repeat 0 (N.to_nat off - length file)).
  assert (Hpl : length pre = N.to_nat off).
  { subst pre. rewrite app_length, firstn_length, repeat_length. lia. }
  rewrite !(app_assoc (firstn _ file)). fold pre.
  rewrite (app_assoc pre a). rewrite firstn_exact by (rewrite app_length; lia).
  rewrite app_length, <- !app_assoc, Nat.add_assoc. reflexivity.
Qed.

Section Sessions.
  Variables (bufSize threshold : N).
  Variable enc : op -> list byte.
  Variable dec : list byte -> option (op * list byte).
  Variable magic : list byte.
  Hypothesis HbufSize : 0 < bufSize.
  (** the wire format is a prefix code: a message followed by anything decodes to itself *)
  Hypothesis dec_enc : forall o rest, dec (enc o ++ rest) = Some (o, rest).

  Notation enc_all := (enc_all enc).
  Notation rel := (rel enc).
  Notation new_writer := (new_writer enc magic).
  Notation bw_flush := (bw_flush bufSize threshold enc).
  Notation run_events := (run_events bufSize threshold enc).
  Notation run_events_log := (run_events_log bufSize threshold enc).
  Notation run_sessions := (run_sessions bufSize threshold enc magic).
  Notation finalize := (finalize bufSize threshold enc).
  Notation patch := (patch dec magic).

  Lemma enc_nonempty o : enc o <> [].
  Proof.
    intros E. pose (o' := match o with EndMark => Skip 0 | _ => EndMark end).
    pose proof (dec_enc o (enc o')) as H1. pose proof (dec_enc o' []) as H2.
    rewrite E in H1. cbn [app] in H1. rewrite app_nil_r in H2. rewrite H1 in H2.
    injection H2 as H2 _. destruct o; discriminate H2.
  Qed.

  Lemma enc_all_length ops : (length ops <= length (enc_all ops))%nat.
  Proof.
    induction ops as [|o ops IH]; [cbn; lia|].
    unfold WriterProofs.enc_all in *. cbn [map concat length]. rewrite app_length.
    pose proof (enc_nonempty o). destruct (enc o); [contradiction|]. cbn [length]. lia.
  Qed.

  Lemma enc_all_app a b : enc_all (a ++ b) = enc_all a ++ enc_all b.
  Proof. unfold WriterProofs.enc_all. rewrite map_app, concat_app. reflexivity. Qed.

  (** Patch on a well-formed stream *)
  Lemma patch_loop_ops : forall ops fuel c junk,
    Forall not_end ops -> (length ops < fuel)%nat ->
    patch_loop dec fuel (enc_all ops ++ enc EndMark ++ junk) c = POk (rev (fst (apply_ops ops c))).
  Proof.
    induction ops as [|o ops IH]; intros fuel c junk Hne Hfuel.
    - destruct fuel as [|f]; [lia|]. cbn [patch_loop WriterProofs.enc_all map concat app].
      rewrite dec_enc. cbn [apply_ops fold_left]. rewrite rev_append_rev, app_nil_r. reflexivity.
    - destruct fuel as [|f]; [cbn in Hfuel; lia|]. inversion Hne as [|? ? Ho Hne']; subst.
      cbn [patch_loop WriterProofs.enc_all map concat]. fold (enc_all ops).
      rewrite <- app_assoc, dec_enc.
      cbn [apply_ops fold_left]. fold (apply_ops ops (apply_op o c)).
      destruct o as [n|d|]; [| |exfalso; apply Ho; reflexivity];
        apply IH; try assumption; cbn in Hfuel; lia.
  Qed.

  Lemma expect_magic_ok s : expect_magic magic (magic ++ s) = Some s.
  Proof.
    unfold expect_magic. autorewrite with fast.
    rewrite firstn_exact by reflexivity. rewrite list_eqb_refl, skipn_exact by reflexivity. reflexivity.
  Qed.

  Lemma patch_ok old ops junk :
    Forall not_end ops ->
    patch old (magic ++ enc_all ops ++ enc EndMark ++ junk) = POk (rev (fst (apply_ops ops ([], old)))).
  Proof.
    intros Hne. unfold Patch.patch. rewrite expect_magic_ok. apply patch_loop_ops; [exact Hne|].
    rewrite length_tr_spec, app_length. pose proof (enc_all_length ops). lia.
  Qed.

  (** one session up to its last Flush *)
  Lemma new_writer_fields old roff ooff :
    let st0 := new_writer old roff ooff in
    w_rrest st0 = skipn (N.to_nat roff) old /\ w_roff st0 = roff /\ w_bn st0 = 0 /\ w_bbuf st0 = [] /\ w_fail st0 = false /\
    ((ooff = 0 /\ w_out st0 = [enc (Skip 0); magic] /\ w_ooff st0 = len magic + len (enc (Skip 0))) \/
     (ooff <> 0 /\ w_out st0 = [] /\ w_ooff st0 = ooff)).
  Proof using Type.
    unfold Writer.new_writer. destruct (N.eqb_spec ooff 0) as [->|Hnz]; cbn; rewrite dropN_spec;
      repeat split; try reflexivity.
    - left. repeat split; reflexivity.
    - right. split; [assumption|split; reflexivity].
  Qed.

  Lemma run_events_log_fst evs : forall st log, fst (fold_left (run_event_log bufSize threshold enc) evs (st, log)) = run_events st evs.
  Proof using Type.
    induction evs as [|e evs IH]; intros st log; cbn [fold_left Writer.run_events].
    - reflexivity.
    - unfold run_event_log at 2. cbn [fst snd]. rewrite IH. reflexivity.
  Qed.

  Lemma session_ok old roff ooff evs :
    let st0 := new_writer old roff ooff in
    let st := bw_flush (run_events st0 evs) in
    exists ops, rel st0 st ops (written evs) /\ w_fail st = false /\ w_bn st = 0 /\ w_bbuf st = [].
  Proof using HbufSize.
    intros st0 st.
    destruct (new_writer_fields old roff ooff) as (_ & _ & Hbn & Hbb & Hf & _). fold st0 in Hbn, Hbb, Hf.
    assert (H0 : binv bufSize enc st0 st0 []) by (apply binv_init; assumption).
    assert (H1 : binv bufSize enc st0 (run_events st0 evs) (written evs)).
    { apply (run_events_ok bufSize threshold enc HbufSize st0 evs st0 [] H0). }
    exact (flushed_ok bufSize threshold enc HbufSize st0 _ _ H1).
  Qed.

  (** what holds when a session is opened at ([roff], [ooff]) over the overlay file [file]:
      [allops] are the messages of the earlier sessions (the header message included), [fed]
      what those sessions were given *)
  Definition pre (old file : list byte) (roff ooff : N) (allops : list op) (fed : list byte) : Prop :=
    apply_ops allops ([], old) = (rev fed, skipn (N.to_nat roff) old) /\
    roff = len fed /\ Forall not_end allops /\
    ((ooff = 0 /\ allops = [] /\ fed = []) \/
     (ooff <> 0 /\ exists tail, file = (magic ++ enc_all allops) ++ tail /\ N.to_nat ooff = length (magic ++ enc_all allops))).

  Lemma apply_skip0 c : apply_op (Skip 0) c = c.
  Proof. destruct c as [bf af]. rewrite apply_op_skip; cbn; [reflexivity|lia]. Qed.

  (** the bytes and offsets of a session that started from [pre] *)
  Lemma session_lands old file roff ooff allops fed st ops fed_s :
    pre old file roff ooff allops fed ->
    rel (new_writer old roff ooff) st ops fed_s ->
    let allops' := (if ooff =? 0 then [Skip 0] else allops) ++ ops in
    exists tail,
      write_at file ooff (session_bytes st) = (magic ++ enc_all allops') ++ tail /\
      N.to_nat (w_ooff st) = length (magic ++ enc_all allops') /\
      (N.to_nat ooff + length (session_bytes st))%nat = length (magic ++ enc_all allops') /\
      w_ooff st <> 0 /\
      apply_ops allops' ([], old) = (rev (fed ++ fed_s), skipn (N.to_nat (w_roff st)) old) /\
      w_roff st = len (fed ++ fed_s) /\ Forall not_end allops'.
  Proof.
    intros (Hap & Hroff & Hne & Hcase) [R1 R2 R3 R4 R5 R6]. cbn zeta.
    destruct (new_writer_fields old roff ooff) as (Hrr & Hro & _ & _ & _ & Hout).
    assert (Hsb : session_bytes st = concat (rev (w_out (new_writer old roff ooff))) ++ enc_all ops).
    { unfold session_bytes. rewrite concat_rev_spec, R3, rev_app_distr, rev_involutive, concat_app. reflexivity. }
    rewrite Hsb.
    assert (Hcur : forall pre_ops, apply_ops pre_ops ([], old) = (rev fed, skipn (N.to_nat roff) old) ->
                   apply_ops (pre_ops ++ ops) ([], old) = (rev (fed ++ fed_s), skipn (N.to_nat (w_roff st)) old)).
    { intros po Hpo. rewrite apply_ops_app, Hpo, <- Hrr, R5, R1, Hrr, skipn_skipn, R2, Hro, rev_app_distr.
      f_equal. f_equal. rewrite len_spec. lia. }
    assert (Hro' : w_roff st = len (fed ++ fed_s)).
    { rewrite R2, Hro, Hroff, !len_spec, app_length. lia. }
    destruct Hcase as [(Hz & Hall & Hfed)|(Hnz & tail & Hfile & Hoo)].
    - subst ooff allops fed. destruct Hout as [(_ & Hout & Hooff)|(Hc & _)]; [|contradiction].
      cbn [N.eqb]. rewrite Hout. cbn [rev concat app]. rewrite app_nil_r.
      exists (skipn (length (magic ++ enc (Skip 0) ++ enc_all ops)) file).
      change ([Skip 0] ++ ops) with (Skip 0 :: ops).
      assert (Hbytes : magic ++ enc_all (Skip 0 :: ops) = (magic ++ enc (Skip 0)) ++ enc_all ops).
      { unfold WriterProofs.enc_all. cbn [map concat]. rewrite app_assoc. reflexivity. }
      split; [|split; [|split; [|split; [|split; [|split]]]]].
      + rewrite write_at_spec. cbn [N.to_nat firstn Nat.sub repeat app plus]. rewrite Hbytes, <- !app_assoc. reflexivity.
      + rewrite Hbytes, R4, Hooff, !len_spec, !app_length. lia.
      + rewrite Hbytes. reflexivity.
      + rewrite R4, Hooff, !len_spec. pose proof (enc_nonempty (Skip 0)). destruct (enc (Skip 0)); [contradiction|]. cbn [length]. lia.
      + apply (Hcur [Skip 0]). cbn [apply_ops fold_left]. rewrite apply_skip0. exact Hap.
      + exact Hro'.
      + constructor; [discriminate|assumption].
    - destruct Hout as [(Hc & _)|(_ & Hout & Hooff)]; [contradiction|].
      destruct (N.eqb_spec ooff 0) as [E|_]; [contradiction|].
      rewrite Hout. cbn [rev concat app].
      exists (skipn (length (enc_all ops)) tail).
      split; [|split; [|split; [|split; [|split; [|split]]]]].
      + rewrite write_at_spec, Hfile, Hoo. rewrite firstn_exact by reflexivity.
        set (P := magic ++ enc_all allops) in *. set (E := enc_all ops).
        replace (length P - length (P ++ tail))%nat with O by (rewrite app_length; lia).
        cbn [repeat app]. rewrite skipn_app, skipn_all2 by lia. cbn [app].
        replace (length P + length E - length P)%nat with (length E) by lia.
        subst P E. rewrite enc_all_app, <- !app_assoc. reflexivity.
      + rewrite R4, Hooff, enc_all_app, len_spec, !app_length. rewrite app_length in Hoo. lia.
      + rewrite Hoo, enc_all_app, !app_length. lia.
      + rewrite R4, Hooff. lia.
      + apply Hcur. exact Hap.
      + exact Hro'.
      + apply Forall_app. split; assumption.
  Qed.

  Theorem sessions_ok old : forall ss last file roff ooff allops fed,
    pre old file roff ooff allops fed ->
    let '(f, fail, _) := run_sessions old file roff ooff ss last in
    fail = false /\
    patch old f = POk (fed ++ concat (map (fun s => written (fst s)) ss) ++ written last).
  Proof.
    induction ss as [|[evs stale] ss IH]; intros last file roff ooff allops fed Hpre; cbn [Writer.run_sessions].
    - unfold Writer.run_events_log.
      destruct (fold_left (run_event_log bufSize threshold enc) last (new_writer old roff ooff, [])) as [st0 log] eqn:E.
      assert (Hst0 : st0 = run_events (new_writer old roff ooff) last).
      { rewrite <- (run_events_log_fst last (new_writer old roff ooff) []), E. reflexivity. }
      subst st0. cbn [map concat app].
      destruct (session_ok old roff ooff last) as (ops & Hrel & Hfail & _ & _). cbn zeta in *.
      set (st := bw_flush (run_events (new_writer old roff ooff) last)) in *.
      unfold Writer.finalize. fold st.
      destruct (session_lands old file roff ooff allops fed st ops (written last) Hpre Hrel)
        as (tail & Hfile & Hoo & Hlen & _ & Hap & _ & Hne).
      cbn [emit put w_fail]. split; [exact Hfail|].
      (* the file: the session's bytes followed by the end marker *)
      assert (Hbytes : session_bytes (emit enc st EndMark) = session_bytes st ++ enc EndMark).
      { unfold session_bytes. rewrite !concat_rev_spec. cbn [emit put w_out rev]. rewrite concat_app. cbn [concat]. rewrite app_nil_r. reflexivity. }
      rewrite Hbytes.
      set (allops' := (if ooff =? 0 then [Skip 0] else allops) ++ ops) in *.
      assert (Hw : exists junk, write_at file ooff (session_bytes st ++ enc EndMark) = magic ++ enc_all allops' ++ enc EndMark ++ junk).
      { rewrite write_at_app, Hfile, Hlen. rewrite firstn_exact by reflexivity.
        eexists. rewrite <- !app_assoc. reflexivity. }
      destruct Hw as (junk & ->).
      rewrite patch_ok by exact Hne. rewrite Hap. cbn [fst]. rewrite rev_involutive. reflexivity.
    - unfold Writer.run_events_log.
      destruct (fold_left (run_event_log bufSize threshold enc) evs (new_writer old roff ooff, [])) as [st0 log] eqn:E.
      assert (Hst0 : st0 = run_events (new_writer old roff ooff) evs).
      { rewrite <- (run_events_log_fst evs (new_writer old roff ooff) []), E. reflexivity. }
      subst st0.
      destruct (session_ok old roff ooff evs) as (ops & Hrel & Hfail & _ & _). cbn zeta in *.
      set (st := bw_flush (run_events (new_writer old roff ooff) evs)) in *.
      destruct (session_lands old file roff ooff allops fed st ops (written evs) Hpre Hrel)
        as (tail & Hfile & Hoo & _ & Hnz & Hap & Hro & Hne).
      set (allops' := (if ooff =? 0 then [Skip 0] else allops) ++ ops) in *.
      assert (Hpre' : pre old (app_tr (takeN (w_ooff st) (write_at file ooff (session_bytes st))) stale)
                          (w_roff st) (w_ooff st) allops' (fed ++ written evs)).
      { split; [exact Hap|]. split; [exact Hro|]. split; [exact Hne|]. right. split; [exact Hnz|].
        exists stale. split; [|exact Hoo].
        rewrite app_tr_spec, takeN_spec, Hfile, Hoo. rewrite firstn_exact by reflexivity. reflexivity. }
      specialize (IH last _ _ _ _ _ Hpre').
      destruct (run_sessions old (app_tr (takeN (w_ooff st) (write_at file ooff (session_bytes st))) stale) (w_roff st) (w_ooff st) ss last) as [[f fail] log'].
      destruct IH as [Hf Hp]. split.
      + rewrite Hfail, Hf. reflexivity.
      + rewrite Hp. cbn [map concat fst]. rewrite <- !app_assoc. reflexivity.
  Qed.

  Lemma pre_init old file : pre old file 0 0 [] [].
  Proof.
    split; [reflexivity|]. split; [reflexivity|]. split; [constructor|]. left. repeat split; reflexivity.
  Qed.

  (** any number of sessions, from scratch *)
  Corollary overlay_sessions_lemma old ss last file0 :
    let '(f, fail, _) := run_sessions old file0 0 0 ss last in
    fail = false /\ patch old f = POk (concat (map (fun s => written (fst s)) ss) ++ written last).
  Proof. exact (sessions_ok old ss last file0 0 0 [] [] (pre_init old file0)). Qed.

  (** one session: writes of any sizes, flushes anywhere *)
  Corollary overlay_correct_lemma old evs file0 :
    let st := finalize (run_events (new_writer old 0 0) evs) in
    w_fail st = false /\ patch old (write_at file0 0 (session_bytes st)) = POk (written evs).
  Proof.
    pose proof (overlay_sessions_lemma old [] evs file0) as H. cbn [Writer.run_sessions] in H.
    unfold Writer.run_events_log in H.
    destruct (fold_left (run_event_log bufSize threshold enc) evs (new_writer old 0 0, [])) as [st0 log] eqn:E.
    assert (Hst0 : st0 = run_events (new_writer old 0 0) evs).
    { rewrite <- (run_events_log_fst evs (new_writer old 0 0) []), E. reflexivity. }
    subst st0. cbn [map concat app] in H. exact H.
  Qed.

  (** after a Flush: ReadOffset() = offset at the start + bytes written to the writer since,
      OverlayOffset() = offset at the start + bytes this writer put into the overlay file,
      nothing is left in the buffer *)
  Lemma offsets_exact_lemma old roff ooff evs :
    let st := bw_flush (run_events (new_writer old roff ooff) evs) in
    w_roff st = roff + len (written evs) /\
    w_ooff st = ooff + len (session_bytes st) /\
    w_bn st = 0 /\ w_bbuf st = [] /\ w_fail st = false.
  Proof using HbufSize.
    clear dec_enc. clear dec.
    pose proof (session_ok old roff ooff evs) as H. cbv zeta in H.
    destruct H as (ops & [R1 R2 R3 R4 R5 R6] & Hf & Hbn & Hbb). cbv zeta.
    pose proof (new_writer_fields old roff ooff) as H. cbv zeta in H.
    destruct H as (_ & Hro & _ & _ & _ & Hout).
    split; [rewrite R2, Hro; reflexivity|]. split; [|split; [exact Hbn|split; [exact Hbb|exact Hf]]].
    unfold session_bytes. rewrite concat_rev_spec, R3, rev_app_distr, rev_involutive, concat_app, R4.
    destruct Hout as [(Hz & Ho & Hoo)|(Hnz & Ho & Hoo)]; rewrite Ho, Hoo; cbn [rev concat app].
    - subst ooff. rewrite app_nil_r, !len_spec, !app_length. unfold WriterProofs.enc_all. lia.
    - rewrite !len_spec. unfold WriterProofs.enc_all. lia.
  Qed.

  (** ... and the overlay cut at that overlay offset and closed with an end marker applies to
      the old file giving exactly the bytes written so far (whatever sessions came before) *)
  Lemma flushed_prefix_lemma old file roff ooff allops fed evs junk :
    pre old file roff ooff allops fed ->
    let st := bw_flush (run_events (new_writer old roff ooff) evs) in
    patch old (firstn (N.to_nat (w_ooff st)) (write_at file ooff (session_bytes st)) ++ enc EndMark ++ junk)
    = POk (fed ++ written evs).
  Proof.
    intros Hpre. cbn zeta.
    destruct (session_ok old roff ooff evs) as (ops & Hrel & _). cbn zeta in Hrel.
    destruct (session_lands old file roff ooff allops fed _ ops (written evs) Hpre Hrel)
      as (tail & Hfile & Hoo & _ & _ & Hap & _ & Hne).
    rewrite Hfile, Hoo. rewrite firstn_exact by reflexivity. rewrite <- app_assoc.
    rewrite patch_ok by exact Hne. rewrite Hap. cbn [fst]. rewrite rev_involutive. reflexivity.
  Qed.
End Sessions.
