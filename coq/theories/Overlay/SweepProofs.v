(** The exhaustive tiny-parameter sweep of Exec/C14Sweep.v, evaluated once per build. *)
From Wharf Require Import Base.Prelude Overlay.Writer Overlay.Patch Overlay.Codec Exec.C14Sweep.
Local Open Scope N_scope.

Lemma sweep_4_1 : sweep 4 1 6 = true.
Proof. vm_compute. reflexivity. Qed.

Lemma sweep_3_1 : sweep 3 1 6 = true.
Proof. vm_compute. reflexivity. Qed.

Lemma sweep_2_0 : sweep 2 0 5 = true.
Proof. vm_compute. reflexivity. Qed.

Lemma sweep_1_2 : sweep 1 2 4 = true.
Proof. vm_compute. reflexivity. Qed.
