(** C14 — the per-window lemma: the messages emitted by [overlayProcessor.write] for one
    window, applied at a cursor standing where the window starts in the old file, produce
    exactly the window and leave the cursor where the window ends; SKIP only ever covers
    bytes that are equal in the old file and in the window. *)
From Wharf Require Import Base.Prelude Overlay.Fast Overlay.FastProofs Overlay.Writer Overlay.Patch.
From Coq Require Import ZifyBool ZifyNat ZifyN.
Local Open Scope N_scope.

#[export] Hint Rewrite @len_spec @takeN_spec @dropN_spec @take_like_spec @drop_like_spec @app_tr_spec
  @repeat_onto_spec @concat_rev_spec @length_tr_spec : fast.

Definition not_end (o : op) : Prop := o <> EndMark.

Lemma apply_ops_app a b c : apply_ops (a ++ b) c = apply_ops b (apply_ops a c).
Proof. unfold apply_ops. apply fold_left_app. Qed.

Lemma apply_op_fresh d bf af : apply_op (Fresh d) (bf, af) = (rev d ++ bf, skipn (length d) af).
Proof. cbn [apply_op]. autorewrite with fast. rewrite rev_append_rev. reflexivity. Qed.

Lemma apply_op_skip n bf af :
  (N.to_nat n <= length af)%nat ->
  apply_op (Skip n) (bf, af) = (rev (firstn (N.to_nat n) af) ++ bf, skipn (N.to_nat n) af).
Proof.
  intros Hn. cbn [apply_op]. autorewrite with fast. rewrite rev_append_rev.
  rewrite firstn_length. replace (N.to_nat (n - N.of_nat (Nat.min (N.to_nat n) (length af)))) with O by lia.
  reflexivity.
Qed.

(** general: a SKIP past the end of the file pads with zeros *)
Lemma apply_op_skip_gen n bf af :
  apply_op (Skip n) (bf, af) =
  (repeat 0 (N.to_nat n - length af) ++ rev (firstn (N.to_nat n) af) ++ bf, skipn (N.to_nat n) af).
Proof.
  cbn [apply_op]. autorewrite with fast. rewrite rev_append_rev, firstn_length.
  replace (N.to_nat (n - N.of_nat (Nat.min (N.to_nat n) (length af)))) with (N.to_nat n - length af)%nat by lia.
  reflexivity.
Qed.

Lemma slice_spec {A} (l : list A) a b : slice l a b = firstn (N.to_nat (b - a)) (skipn (N.to_nat a) l).
Proof. unfold slice. autorewrite with fast. reflexivity. Qed.

(* ---------------------------------------------------------------- list facts *)

Lemma firstn_app_l {A} (a b : list A) n : (n <= length a)%nat -> firstn n (a ++ b) = firstn n a.
Proof. intros H. rewrite firstn_app. replace (n - length a)%nat with O by lia. cbn. apply app_nil_r. Qed.

Lemma skipn_app_l {A} (a b : list A) n : (n <= length a)%nat -> skipn n (a ++ b) = skipn n a ++ b.
Proof. intros H. rewrite skipn_app. replace (n - length a)%nat with O by lia. reflexivity. Qed.

Lemma firstn_exact {A} (a b : list A) n : n = length a -> firstn n (a ++ b) = a.
Proof. intros ->. rewrite firstn_app, Nat.sub_diag, firstn_all. cbn. apply app_nil_r. Qed.

Lemma skipn_exact {A} (a b : list A) n : n = length a -> skipn n (a ++ b) = b.
Proof. intros ->. rewrite skipn_app, Nat.sub_diag, skipn_all. reflexivity. Qed.

Lemma skipn_skipn {A} (x y : nat) (l : list A) : skipn x (skipn y l) = skipn (y + x) l.
Proof.
  revert l. induction y as [|y IH]; intros l; cbn [skipn plus].
  - reflexivity.
  - destruct l as [|a l]; [apply skipn_nil|apply IH].
Qed.

Section Window.
  Variable threshold : N.
  Variables (buf rbfull rest bf : list byte).
  Hypothesis Hlen : (length rbfull <= length buf)%nat.

  Let full := rbfull ++ rest.

  (** what holds between iterations of the scan: [bd]/[rd] are the parts of buf / rbuf already
      seen, they end with the same [same] bytes [e], and the messages emitted so far rebuild
      buf[:lastOp] *)
  Definition inv (bd rd : list byte) (lastOp same : N) (acc : list op) : Prop :=
    exists ba ra e,
      bd = ba ++ e /\ rd = ra ++ e /\ len e = same /\ length ba = length ra /\
      (N.to_nat lastOp <= length ba)%nat /\
      apply_ops (rev acc) (bf, full) = (rev (firstn (N.to_nat lastOp) buf) ++ bf, skipn (N.to_nat lastOp) full) /\
      Forall not_end acc.

  Lemma commit_ok bd rd b rb i lastOp same acc :
    buf = bd ++ b -> rbfull = rd ++ rb -> N.to_nat i = length bd -> length bd = length rd ->
    inv bd rd lastOp same acc ->
    let '(lastOp', acc') := commit buf i lastOp same acc in
    lastOp' = i /\ inv bd rd lastOp' 0 acc'.
  Proof.
    intros Hb Hr Hi Hbr (ba & ra & e & Hbd & Hrd & He & Hbar & Hlo & Hops & Hne).
    unfold commit. split; [reflexivity|].
    rewrite len_spec in He.
    assert (Hia : N.to_nat (i - same) = length ba).
    { subst bd. rewrite app_length in Hi. lia. }
    assert (Hie : N.to_nat i = (length ba + N.to_nat same)%nat).
    { subst bd. rewrite app_length in Hi. lia. }
    exists bd, rd, []. repeat split.
    - symmetry; apply app_nil_r.
    - symmetry; apply app_nil_r.
    - lia.
    - lia.
    - (* the messages *)
      set (acc1 := if 0 <? i - same - lastOp then Fresh (slice buf lastOp (i - same)) :: acc else acc).
      assert (H1 : apply_ops (rev acc1) (bf, full) = (rev ba ++ bf, skipn (length ba) full)).
      { subst acc1. destruct (N.ltb_spec 0 (i - same - lastOp)) as [Hf|Hf].
        - cbn [rev]. rewrite apply_ops_app, Hops. cbn [apply_ops fold_left].
          rewrite apply_op_fresh, slice_spec.
          assert (Hs : firstn (N.to_nat (i - same - lastOp)) (skipn (N.to_nat lastOp) buf) = skipn (N.to_nat lastOp) ba).
          { rewrite Hb, Hbd, <- !app_assoc. rewrite skipn_app_l by lia.
            apply firstn_exact. rewrite skipn_length. lia. }
          rewrite Hs. f_equal.
          + rewrite app_assoc, <- rev_app_distr. f_equal. f_equal.
            rewrite Hb, Hbd, <- app_assoc, firstn_app_l by lia. apply firstn_skipn.
          + rewrite skipn_skipn. f_equal. rewrite skipn_length. lia.
        - rewrite Hops. assert (N.to_nat lastOp = length ba) as -> by lia.
          f_equal. f_equal. f_equal. rewrite Hb, Hbd, <- app_assoc. apply firstn_exact. reflexivity. }
      cbn [rev]. rewrite apply_ops_app, H1. cbn [apply_ops fold_left].
      assert (Hfe : firstn (N.to_nat same) (skipn (length ba) full) = e).
      { unfold full. rewrite Hr, Hrd, <- !app_assoc, Hbar. rewrite skipn_exact by reflexivity.
        apply firstn_exact. lia. }
      rewrite apply_op_skip.
      + rewrite Hfe. f_equal.
        * rewrite app_assoc, <- rev_app_distr. f_equal. f_equal.
          rewrite Hb, <- Hbd. symmetry. apply firstn_exact. lia.
        * rewrite skipn_skipn. f_equal. lia.
      + rewrite skipn_length. unfold full. rewrite Hr, Hrd, !app_length. lia.
    - constructor; [discriminate|]. destruct (0 <? i - same - lastOp); [constructor; [discriminate|]|]; assumption.
  Qed.

  Lemma scan_ok :
    forall rb b bd rd i lastOp same acc,
      buf = bd ++ b -> rbfull = rd ++ rb -> N.to_nat i = length bd -> length bd = length rd ->
      inv bd rd lastOp same acc ->
      let '(i', lastOp', same', acc') := scan threshold rb b buf i lastOp same acc in
      N.to_nat i' = length rbfull /\ inv (firstn (length rbfull) buf) rbfull lastOp' same' acc'.
  Proof.
    induction rb as [|r rb IH]; intros b bd rd i lastOp same acc Hb Hr Hi Hbr Hinv.
    - cbn [scan]. rewrite app_nil_r in Hr. subst rd.
      split; [lia|]. replace (firstn (length rbfull) buf) with bd; [assumption|].
      rewrite Hb. symmetry. apply firstn_exact. lia.
    - destruct b as [|x b].
      { exfalso. pose proof Hlen as Hl. rewrite Hb, Hr, !app_length in Hl. cbn in Hl. lia. }
      cbn [scan].
      assert (Hb' : buf = (bd ++ [x]) ++ b) by (rewrite <- app_assoc; exact Hb).
      assert (Hr' : rbfull = (rd ++ [r]) ++ rb) by (rewrite <- app_assoc; exact Hr).
      assert (Hi' : N.to_nat (i + 1) = length (bd ++ [x])) by (rewrite app_length; cbn; lia).
      assert (Hbr' : length (bd ++ [x]) = length (rd ++ [r])) by (rewrite !app_length; cbn; lia).
      destruct (N.eqb_spec r x) as [->|Hne].
      + apply (IH b (bd ++ [x]) (rd ++ [x]) (i + 1) lastOp (same + 1) acc Hb' Hr' Hi' Hbr').
        destruct Hinv as (ba & ra & e & Hbd & Hrd & He & Hbar & Hlo & Hops & Hnes).
        exists ba, ra, (e ++ [x]). repeat split; try assumption.
        * rewrite Hbd, app_assoc. reflexivity.
        * rewrite Hrd, app_assoc. reflexivity.
        * rewrite len_spec in *. rewrite app_length. cbn. lia.
      + assert (Hstep : forall lastOp' acc', inv bd rd lastOp' 0 acc' \/ (lastOp' = lastOp /\ acc' = acc) ->
                                         inv (bd ++ [x]) (rd ++ [r]) lastOp' 0 acc').
        { intros lo ac [Hc|[-> ->]].
          - destruct Hc as (ba & ra & e & Hbd & Hrd & He & Hbar & Hlo & Hops & Hnes).
            exists (bd ++ [x]), (rd ++ [r]), []. repeat split; try assumption;
              try (symmetry; apply app_nil_r); try reflexivity;
              try (rewrite Hbd in *; rewrite !app_length in *; cbn [length]; lia).
          - destruct Hinv as (ba & ra & e & Hbd & Hrd & He & Hbar & Hlo & Hops & Hnes).
            exists (bd ++ [x]), (rd ++ [r]), []. repeat split; try assumption;
              try (symmetry; apply app_nil_r); try reflexivity;
              try (rewrite Hbd in *; rewrite !app_length in *; cbn [length]; lia). }
        destruct (threshold <? same).
        * pose proof (commit_ok bd rd (x :: b) (r :: rb) i lastOp same acc Hb Hr Hi Hbr Hinv) as Hc.
          destruct (commit buf i lastOp same acc) as [lo ac]. destruct Hc as [-> Hc].
          apply (IH b (bd ++ [x]) (rd ++ [r]) (i + 1) i 0 ac Hb' Hr' Hi' Hbr').
          apply Hstep. left. exact Hc.
        * apply (IH b (bd ++ [x]) (rd ++ [r]) (i + 1) lastOp 0 acc Hb' Hr' Hi' Hbr').
          apply Hstep. right. split; reflexivity.
  Qed.

  Hypothesis Heof : (length rbfull < length buf)%nat -> rest = [].

  Theorem window_ok :
    apply_ops (write_window threshold rbfull buf) (bf, full) = (rev buf ++ bf, rest)
    /\ Forall not_end (write_window threshold rbfull buf).
  Proof.
    unfold write_window.
    assert (H0 : inv [] [] 0 0 []).
    { exists [], [], []. repeat split; try reflexivity; try constructor; cbn; lia. }
    pose proof (scan_ok rbfull buf [] [] 0 0 0 [] eq_refl eq_refl eq_refl eq_refl H0) as Hs.
    destruct (scan threshold rbfull buf buf 0 0 0 []) as [[[i lastOp] same] acc].
    destruct Hs as [Hi Hinv].
    set (bd := firstn (length rbfull) buf) in *.
    assert (Hb : buf = bd ++ skipn (length rbfull) buf) by (symmetry; apply firstn_skipn).
    assert (Hbdl : length bd = length rbfull) by (subst bd; rewrite firstn_length; lia).
    (* did we finish on a same streak? *)
    assert (Hc : let '(lastOp', acc') := if threshold <? same then commit buf i lastOp same acc else (lastOp, acc) in
                 exists same', inv bd rbfull lastOp' same' acc').
    { destruct (threshold <? same).
      - pose proof (commit_ok bd rbfull (skipn (length rbfull) buf) [] i lastOp same acc Hb (eq_sym (app_nil_r _)) ltac:(lia) Hbdl Hinv) as Hc.
        destruct (commit buf i lastOp same acc) as [lo ac]. destruct Hc as [_ Hc]. exists 0. exact Hc.
      - exists same. exact Hinv. }
    destruct (if threshold <? same then commit buf i lastOp same acc else (lastOp, acc)) as [lo ac].
    destruct Hc as (same' & ba & ra & e & Hbd & Hrd & He & Hbar & Hlo & Hops & Hnes).
    (* anything fresh left to write? *)
    set (ac1 := if lo <? i then Fresh (slice buf lo (len rbfull)) :: ac else ac).
    assert (H1 : apply_ops (rev ac1) (bf, full) = (rev bd ++ bf, skipn (length rbfull) full) /\ Forall not_end ac1).
    { subst ac1. destruct (N.ltb_spec lo i) as [Hf|Hf].
      - split; [|constructor; [discriminate|assumption]].
        cbn [rev]. rewrite apply_ops_app, Hops. cbn [apply_ops fold_left].
        rewrite apply_op_fresh, slice_spec, len_spec.
        assert (Hs : firstn (N.to_nat (N.of_nat (length rbfull) - lo)) (skipn (N.to_nat lo) buf) = skipn (N.to_nat lo) bd).
        { rewrite Hb at 1. rewrite skipn_app_l by lia. apply firstn_exact. rewrite skipn_length. lia. }
        rewrite Hs. f_equal.
        + rewrite app_assoc, <- rev_app_distr. f_equal. f_equal.
          rewrite Hb at 1. rewrite firstn_app_l by lia. apply firstn_skipn.
        + rewrite skipn_skipn. f_equal. rewrite skipn_length. lia.
      - split; [|assumption]. rewrite Hops.
        assert (N.to_nat lo = length rbfull) as ->.
        { assert (Hl2 : length bd = (length ba + length e)%nat) by (rewrite Hbd; apply app_length). lia. }
        reflexivity. }
    destruct H1 as [H1 Hne1].
    (* trailing data *)
    rewrite rev_involutive || idtac.
    destruct (N.ltb_spec (len rbfull) (len buf)) as [Ht|Ht]; rewrite !len_spec in Ht.
    - split; [|apply Forall_rev; constructor; [discriminate|assumption]].
      cbn [rev]. rewrite apply_ops_app, H1. cbn [apply_ops fold_left].
      rewrite apply_op_fresh. autorewrite with fast. rewrite Nat2N.id.
      rewrite (Heof ltac:(lia)). unfold full. rewrite (Heof ltac:(lia)), app_nil_r, skipn_all, skipn_nil.
      f_equal. rewrite app_assoc, <- rev_app_distr. f_equal. f_equal. symmetry. exact Hb.
    - split; [|apply Forall_rev; assumption].
      rewrite H1. unfold full. rewrite skipn_exact by reflexivity.
      f_equal. f_equal. f_equal. subst bd. apply firstn_all2. lia.
  Qed.
End Window.
