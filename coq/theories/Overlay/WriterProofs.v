(** C14 — invariants of the overlay writer model: every call of the processor consumes a prefix
    of what it is handed and emits messages that rebuild exactly that prefix at the cursor;
    the bufio layer feeds the processor every byte exactly once, in order; Flush empties the
    buffer, after which [readOffset] is the number of bytes written to the writer so far. *)
From Wharf Require Import Base.Prelude Overlay.Fast Overlay.FastProofs Overlay.Writer Overlay.Patch Overlay.WindowProofs.
From Coq Require Import ZifyBool ZifyNat ZifyN.
Local Open Scope N_scope.

Fixpoint ops_len (ops : list op) : N :=
  match ops with [] => 0 | o :: r => op_len o + ops_len r end.

Lemma ops_len_app a b : ops_len (a ++ b) = ops_len a + ops_len b.
Proof. induction a as [|o a IH]; cbn [ops_len app]; lia. Qed.

Lemma apply_op_len o bf af :
  N.of_nat (length (fst (apply_op o (bf, af)))) = N.of_nat (length bf) + op_len o.
Proof.
  destruct o as [n|d|].
  - rewrite apply_op_skip_gen. cbn [fst op_len]. rewrite !app_length, repeat_length, rev_length, firstn_length. lia.
  - rewrite apply_op_fresh. cbn [fst op_len]. rewrite app_length, rev_length, len_spec. lia.
  - cbn. lia.
Qed.

Lemma apply_ops_len ops : forall bf af,
  N.of_nat (length (fst (apply_ops ops (bf, af)))) = N.of_nat (length bf) + ops_len ops.
Proof.
  induction ops as [|o ops IH]; intros bf af; cbn [apply_ops fold_left ops_len].
  - cbn. lia.
  - fold (apply_ops ops (apply_op o (bf, af))).
    destruct (apply_op o (bf, af)) as [bf' af'] eqn:E. rewrite IH.
    pose proof (apply_op_len o bf af) as H. rewrite E in H. cbn [fst] in H. lia.
Qed.

(** the lengths of the messages of a window add up to the window *)
Lemma window_len (threshold : N) (buf rb rest : list byte) :
  (length rb <= length buf)%nat -> ((length rb < length buf)%nat -> rest = []) ->
  ops_len (write_window threshold rb buf) = len buf.
Proof.
  intros H1 H2. destruct (window_ok threshold buf rb rest [] H1 H2) as [Ha _].
  pose proof (apply_ops_len (write_window threshold rb buf) [] (rb ++ rest)) as Hl.
  rewrite Ha in Hl. cbn [fst] in Hl. rewrite app_nil_r, rev_length in Hl. rewrite len_spec. cbn [length] in Hl. lia.
Qed.

Section Writer.
  Variables (bufSize threshold : N).
  Variable enc : op -> list byte.
  Variable magic : list byte.
  Hypothesis HbufSize : 0 < bufSize.

  Notation emit := (emit enc).
  Notation proc_write1 := (proc_write1 bufSize threshold enc).
  Notation proc_write_loop := (proc_write_loop bufSize threshold enc).
  Notation proc_write := (proc_write bufSize threshold enc).
  Notation bw_flush := (bw_flush bufSize threshold enc).
  Notation bw_loop := (bw_loop bufSize threshold enc).
  Notation bw_write := (bw_write bufSize threshold enc).
  Notation run_event := (run_event bufSize threshold enc).
  Notation run_events := (run_events bufSize threshold enc).
  Notation finalize := (finalize bufSize threshold enc).

  Definition enc_all (ops : list op) : list byte := concat (map enc ops).

  (** [st'] is [st] after the processor consumed [consumed] and emitted [ops] *)
  Record rel (st st' : wstate) (ops : list op) (consumed : list byte) : Prop := {
    r_rrest : w_rrest st' = skipn (length consumed) (w_rrest st);
    r_roff : w_roff st' = w_roff st + len consumed;
    r_out : w_out st' = rev (map enc ops) ++ w_out st;
    r_ooff : w_ooff st' = w_ooff st + len (enc_all ops);
    r_apply : forall bf, apply_ops ops (bf, w_rrest st) = (rev consumed ++ bf, w_rrest st');
    r_notend : Forall not_end ops
  }.

  Lemma rel_refl st : rel st st [] [].
  Proof.
    constructor; cbn; try reflexivity; try lia; try (rewrite len_spec; cbn; lia); constructor.
  Qed.

  Lemma rel_set_fail st : rel st (set_fail st) [] [].
  Proof.
    constructor; cbn; try reflexivity; try lia; try (rewrite len_spec; cbn; lia); constructor.
  Qed.

  Lemma rel_trans st1 st2 st3 ops1 ops2 c1 c2 :
    rel st1 st2 ops1 c1 -> rel st2 st3 ops2 c2 -> rel st1 st3 (ops1 ++ ops2) (c1 ++ c2).
  Proof.
    intros [A1 A2 A3 A4 A7 A8] [B1 B2 B3 B4 B7 B8].
    constructor.
    - rewrite B1, A1, skipn_skipn, app_length. reflexivity.
    - rewrite B2, A2, !len_spec, app_length. lia.
    - rewrite B3, A3, map_app, rev_app_distr, app_assoc. reflexivity.
    - rewrite B4, A4. unfold enc_all. rewrite map_app, concat_app, !len_spec, app_length. lia.
    - intros bf. rewrite apply_ops_app, A7, B7, rev_app_distr, app_assoc. reflexivity.
    - apply Forall_app. split; assumption.
  Qed.

  Lemma emit_fold ops : forall st,
    let st' := fold_left emit ops st in
    w_rrest st' = w_rrest st /\ w_roff st' = w_roff st + ops_len ops /\
    w_out st' = rev (map enc ops) ++ w_out st /\ w_ooff st' = w_ooff st + len (enc_all ops) /\
    w_bn st' = w_bn st /\ w_bbuf st' = w_bbuf st /\ w_fail st' = w_fail st.
  Proof.
    induction ops as [|o ops IH]; intros st; cbn [fold_left].
    - cbn. repeat split; lia.
    - destruct (IH (emit st o)) as (H1 & H2 & H3 & H4 & H5 & H6 & H7). cbn zeta.
      rewrite H1, H2, H3, H4, H5, H6, H7. cbn [emit put w_rrest w_roff w_out w_ooff w_bn w_bbuf w_fail Writer.emit].
      cbn [map rev ops_len]. unfold enc_all. cbn [map concat].
      rewrite <- app_assoc. cbn [app]. rewrite !len_spec, app_length. repeat split; lia.
  Qed.

  (** one window *)
  Lemma proc_write1_ok st buf0 :
    let buf := firstn (N.to_nat (N.min bufSize (len buf0))) buf0 in
    exists ops, rel st (fst (proc_write1 st buf0)) ops buf /\ snd (proc_write1 st buf0) = len buf /\
                w_fail (fst (proc_write1 st buf0)) = w_fail st /\
                w_bn (fst (proc_write1 st buf0)) = w_bn st /\ w_bbuf (fst (proc_write1 st buf0)) = w_bbuf st.
  Proof.
    intros buf. unfold Writer.proc_write1. cbn [fst snd].
    set (buf1 := if bufSize <? len buf0 then takeN bufSize buf0 else buf0).
    assert (Hbuf : buf1 = firstn (N.to_nat (N.min bufSize (len buf0))) buf0).
    { subst buf1. rewrite len_spec. destruct (N.ltb_spec bufSize (N.of_nat (length buf0))).
      - rewrite takeN_spec. f_equal. lia.
      - rewrite firstn_all2; [reflexivity|lia]. }
    subst buf. rewrite <- Hbuf. clearbody buf1. clear Hbuf.
    autorewrite with fast.
    set (rrest := w_rrest st).
    set (st1 := mkW (skipn (length buf1) rrest) (w_roff st) (w_ooff st) (w_out st) (w_bn st) (w_bbuf st) (w_fail st)).
    set (ops := write_window threshold (firstn (length buf1) rrest) buf1).
    assert (Hw : forall bf, apply_ops ops (bf, firstn (length buf1) rrest ++ skipn (length buf1) rrest) = (rev buf1 ++ bf, skipn (length buf1) rrest)
                 /\ Forall not_end ops).
    { intros bf. apply window_ok.
      - rewrite firstn_length. lia.
      - rewrite firstn_length. intros H. apply skipn_all2. lia. }
    destruct (emit_fold ops st1) as (H1 & H2 & H3 & H4 & H5 & H6 & H7). cbn zeta in *.
    exists ops. split; [|split; [reflexivity|split; [exact H7|split; [exact H5|exact H6]]]].
    assert (Hol : ops_len ops = len buf1).
    { pose proof (apply_ops_len ops [] (firstn (length buf1) rrest ++ skipn (length buf1) rrest)) as Hl.
      rewrite (proj1 (Hw [])) in Hl. cbn [fst] in Hl. rewrite app_nil_r, rev_length in Hl. rewrite len_spec. cbn in Hl. lia. }
    constructor.
    - rewrite H1. reflexivity.
    - rewrite H2, Hol. reflexivity.
    - rewrite H3. reflexivity.
    - rewrite H4. reflexivity.
    - intros bf. rewrite H1. cbn [st1 w_rrest]. fold rrest. rewrite <- (proj1 (Hw bf)), firstn_skipn. reflexivity.
    - exact (proj2 (Hw [])).
  Qed.

  (** the loop of overlayProcessor.Write consumes a prefix of [buf]; with enough fuel it does
      not fail; called with [written = 0] it takes at least one window, and everything when
      there is at most one window; the bufio fields are not touched *)
  Lemma proc_write_loop_ok : forall fuel st buf written,
    exists ops consumed rest,
      buf = consumed ++ rest /\
      rel st (fst (proc_write_loop fuel st buf written)) ops consumed /\
      snd (proc_write_loop fuel st buf written) = written + len consumed /\
      (len buf <= N.of_nat fuel * bufSize -> w_fail (fst (proc_write_loop fuel st buf written)) = w_fail st) /\
      (written = 0 -> len buf <= N.of_nat fuel * bufSize -> N.min bufSize (len buf) <= len consumed) /\
      w_bn (fst (proc_write_loop fuel st buf written)) = w_bn st /\
      w_bbuf (fst (proc_write_loop fuel st buf written)) = w_bbuf st.
  Proof.
    induction fuel as [|f IH]; intros st buf written; cbn [Writer.proc_write_loop].
    - destruct (N.ltb_spec written (len buf)) as [Hlt|Hge]; cbn [fst snd];
        exists [], [], buf; (split; [reflexivity|]); (split; [apply rel_refl || apply rel_set_fail|]);
        (split; [rewrite len_spec; cbn; lia|]); (split; [intros; try lia; try reflexivity|]);
        (split; [intros; try lia; try reflexivity|]); split; reflexivity.
    - destruct (N.ltb_spec written (len buf)) as [Hlt|Hge].
      + destruct (proc_write1_ok st buf) as (ops1 & Hrel1 & Hn1 & Hf1 & Hbn1 & Hbb1).
        destruct (proc_write1 st buf) as [st1 n1] eqn:E1. cbn [fst snd] in *.
        set (c1 := firstn (N.to_nat (N.min bufSize (len buf))) buf) in *.
        assert (Hdrop : dropN n1 buf = skipn (length c1) buf).
        { rewrite dropN_spec, Hn1, len_spec, Nat2N.id. reflexivity. }
        assert (Hc1 : length c1 = N.to_nat (N.min bufSize (len buf))).
        { subst c1. rewrite firstn_length, len_spec. lia. }
        rewrite Hdrop.
        destruct (IH st1 (skipn (length c1) buf) (written + n1)) as (ops2 & c2 & rest & Hsplit & Hrel2 & Hw2 & Hfail2 & _ & Hbn2 & Hbb2).
        exists (ops1 ++ ops2), (c1 ++ c2), rest. split; [|split; [|split; [|split; [|split; [|split]]]]].
        * rewrite <- app_assoc, <- Hsplit. subst c1. rewrite Hc1. symmetry. apply firstn_skipn.
        * eapply rel_trans; eassumption.
        * rewrite Hw2, Hn1, !len_spec, app_length. lia.
        * intros Hfuel. rewrite Hfail2, Hf1; [reflexivity|].
          rewrite len_spec, skipn_length, Hc1. rewrite len_spec in *.
          destruct (N.min_spec bufSize (N.of_nat (length buf))) as [[Hm ->]|[Hm ->]]; nia.
        * intros _ _. rewrite !len_spec, app_length, Hc1. rewrite len_spec. lia.
        * congruence.
        * congruence.
      + cbn [fst snd]. exists [], [], buf. split; [reflexivity|]. split; [apply rel_refl|].
        split; [rewrite len_spec; cbn; lia|]. split; [reflexivity|]. split; [|split; reflexivity]. intros -> _.
        rewrite len_spec in *. cbn. lia.
  Qed.

  Lemma proc_write_ok st buf :
    exists ops consumed rest,
      buf = consumed ++ rest /\
      rel st (fst (proc_write st buf)) ops consumed /\
      snd (proc_write st buf) = len consumed /\
      w_fail (fst (proc_write st buf)) = w_fail st /\
      N.min bufSize (len buf) <= len consumed /\
      w_bn (fst (proc_write st buf)) = w_bn st /\ w_bbuf (fst (proc_write st buf)) = w_bbuf st.
  Proof.
    unfold Writer.proc_write.
    destruct (proc_write_loop_ok (S (N.to_nat (len buf / bufSize))) st buf 0) as (ops & c & rest & H1 & H2 & H3 & H4 & H5 & H6 & H7).
    assert (Hfuel : len buf <= N.of_nat (S (N.to_nat (len buf / bufSize))) * bufSize).
    { pose proof (N.div_mod (len buf) bufSize ltac:(lia)). pose proof (N.mod_lt (len buf) bufSize ltac:(lia)). nia. }
    exists ops, c, rest. split; [exact H1|]. split; [exact H2|]. split; [rewrite H3; lia|].
    split; [apply H4; exact Hfuel|]. split; [apply H5; [reflexivity|exact Hfuel]|]. split; assumption.
  Qed.

  (* ------------------------------------------------------------------ bufio level *)

  Definition core (st : wstate) := (w_rrest st, w_roff st, w_ooff st, w_out st).

  Lemma rel_core_r st st' st'' ops c : core st' = core st'' -> rel st st' ops c -> rel st st'' ops c.
  Proof.
    unfold core. intros H [A1 A2 A3 A4 A5 A6]. injection H as E1 E2 E3 E4.
    constructor; try (rewrite <- ?E1, <- ?E2, <- ?E3, <- ?E4; assumption);
      try (intros bf; rewrite <- ?E1; apply A5).
  Qed.

  Lemma rel_core_l st0 st st' ops c : core st0 = core st -> rel st0 st' ops c -> rel st st' ops c.
  Proof.
    unfold core. intros H [A1 A2 A3 A4 A5 A6]. injection H as E1 E2 E3 E4.
    constructor; try (rewrite <- ?E1, <- ?E2, <- ?E3, <- ?E4; assumption);
      try (intros bf; rewrite <- ?E1; apply A5).
  Qed.

  (** [fed] is everything handed to overlayWriter.Write since [st0]; all of it but the
      buffered tail has been processed *)
  Definition binv (st0 st : wstate) (fed : list byte) : Prop :=
    (exists ops processed, rel st0 st ops processed /\ fed = processed ++ rev (w_bbuf st)) /\
    w_bn st = len (w_bbuf st) /\ w_bn st <= bufSize /\ w_fail st = false.

  Lemma binv_init st0 : w_bn st0 = 0 -> w_bbuf st0 = [] -> w_fail st0 = false -> binv st0 st0 [].
  Proof.
    intros H1 H2 H3. split; [|split; [|split]].
    - exists [], []. split; [apply rel_refl|]. rewrite H2. reflexivity.
    - rewrite H1, H2. reflexivity.
    - lia.
    - exact H3.
  Qed.

  Lemma buffer_append_ok st0 st fed p :
    binv st0 st fed -> len p <= bufSize - w_bn st -> binv st0 (buffer_append st p) (fed ++ p).
  Proof.
    intros ((ops & pr & Hrel & Hfed) & Hbn & Hcap & Hfail) Hp.
    split; [|split; [|split]]; cbn [buffer_append w_bn w_bbuf w_fail].
    - exists ops, pr. split.
      + eapply rel_core_r; [|exact Hrel]. reflexivity.
      + rewrite rev_append_rev, rev_app_distr, rev_involutive, Hfed, app_assoc. reflexivity.
    - rewrite Hbn, !len_spec, rev_append_rev, app_length, rev_length. lia.
    - lia.
    - exact Hfail.
  Qed.

  Lemma bw_flush_ok st0 st fed :
    binv st0 st fed -> binv st0 (bw_flush st) fed /\ w_bbuf (bw_flush st) = [] /\ w_bn (bw_flush st) = 0.
  Proof.
    intros ((ops & pr & Hrel & Hfed) & Hbn & Hcap & Hfail). unfold Writer.bw_flush.
    destruct (N.eqb_spec (w_bn st) 0) as [Hz|Hnz].
    - assert (Hb : w_bbuf st = []).
      { rewrite Hz, len_spec in Hbn. destruct (w_bbuf st); [reflexivity|cbn in Hbn; lia]. }
      split; [|split; assumption].
      split; [|split; [|split]]; try assumption. exists ops, pr. split; assumption.
    - rewrite rev_append_rev, app_nil_r.
      destruct (proc_write_ok st (rev (w_bbuf st))) as (ops2 & c & rest & Hsplit & Hrel2 & Hn & Hf & Hmin & Hbn2 & Hbb2).
      destruct (proc_write st (rev (w_bbuf st))) as [st' n]. cbn [fst snd] in *.
      assert (Hlen : len (rev (w_bbuf st)) = w_bn st) by (rewrite Hbn, !len_spec, rev_length; reflexivity).
      assert (Hrest : rest = []).
      { assert (Hl : len (rev (w_bbuf st)) = len c + len rest) by (rewrite Hsplit at 1; rewrite !len_spec, app_length; lia).
        destruct rest as [|x rest]; [reflexivity|]. rewrite !len_spec in *. cbn [length] in Hl. lia. }
      subst rest. rewrite app_nil_r in Hsplit.
      cbn [w_bbuf w_bn]. split; [|split; reflexivity].
      split; [|split; [|split]]; cbn [w_bn w_bbuf w_fail].
      + exists (ops ++ ops2), (pr ++ c). split.
        * eapply rel_core_r; [|eapply rel_trans; [exact Hrel|exact Hrel2]]. reflexivity.
        * cbn [rev]. rewrite app_nil_r, Hfed, Hsplit. reflexivity.
      + reflexivity.
      + lia.
      + rewrite Hf, Hfail. cbn [orb]. apply N.ltb_ge. rewrite Hn, <- Hsplit, Hlen. lia.
  Qed.

  Lemma bw_loop_ok st0 : forall fuel st p fed,
    binv st0 st fed ->
    (w_bn st = 0 -> len p <= N.of_nat fuel * bufSize) ->
    (w_bn st <> 0 -> len p <= N.of_nat (fuel - 1) * bufSize /\ (1 <= fuel)%nat) ->
    exists q, p = q ++ snd (bw_loop fuel st p) /\ binv st0 (fst (bw_loop fuel st p)) (fed ++ q) /\
              len (snd (bw_loop fuel st p)) <= bufSize - w_bn (fst (bw_loop fuel st p)).
  Proof.
    induction fuel as [|f IH]; intros st p fed Hinv Hz Hnz; cbn [Writer.bw_loop].
    - destruct (N.leb_spec (len p) (bufSize - w_bn st)) as [Hfit|Hbig]; cbn [fst snd].
      + exists []. rewrite app_nil_r. repeat split; try assumption; apply Hinv.
      + exfalso. destruct (N.eq_dec (w_bn st) 0) as [E|E]; [specialize (Hz E); lia|specialize (Hnz E); lia].
    - destruct (N.leb_spec (len p) (bufSize - w_bn st)) as [Hfit|Hbig]; cbn [fst snd].
      + exists []. rewrite app_nil_r. repeat split; try assumption; apply Hinv.
      + destruct (N.eqb_spec (w_bn st) 0) as [E|E].
        * (* direct write *)
          destruct Hinv as ((ops & pr & Hrel & Hfed) & Hbn & Hcap & Hfail).
          assert (Hb : w_bbuf st = []).
          { rewrite E, len_spec in Hbn. destruct (w_bbuf st); [reflexivity|cbn in Hbn; lia]. }
          destruct (proc_write_ok st p) as (ops2 & c & rest & Hsplit & Hrel2 & Hn & Hf & Hmin & Hbn2 & Hbb2).
          destruct (proc_write st p) as [st' n]. cbn [fst snd] in *.
          assert (Hdrop : dropN n p = rest).
          { rewrite dropN_spec, Hn, len_spec, Nat2N.id, Hsplit. apply skipn_exact. reflexivity. }
          rewrite Hdrop.
          assert (Hlp : len p = len c + len rest) by (rewrite Hsplit at 1; rewrite !len_spec, app_length; lia).
          destruct (IH st' rest (fed ++ c)) as (q & Hq & Hinv' & Hfit').
          { split; [|split; [|split]].
            - exists (ops ++ ops2), (pr ++ c). split; [eapply rel_trans; eassumption|].
              rewrite Hbb2, Hb, Hfed, Hb. cbn [rev]. rewrite !app_nil_r. reflexivity.
            - rewrite Hbn2, Hbb2. exact Hbn.
            - rewrite Hbn2. exact Hcap.
            - rewrite Hf. exact Hfail. }
          { intros _. specialize (Hz E). rewrite E in Hbig. lia. }
          { intros H. rewrite Hbn2 in H. contradiction. }
          exists (c ++ q). split; [|split].
          -- rewrite <- app_assoc, <- Hq. exact Hsplit.
          -- rewrite app_assoc. exact Hinv'.
          -- exact Hfit'.
        * (* fill the buffer, flush *)
          destruct (Hnz E) as [Hlp Hf1].
          set (n := bufSize - w_bn st).
          assert (Hcap : w_bn st <= bufSize) by apply Hinv.
          assert (Htake : len (takeN n p) <= bufSize - w_bn st).
          { rewrite len_spec, takeN_spec, firstn_length. lia. }
          pose proof (buffer_append_ok st0 st fed (takeN n p) Hinv Htake) as Hinv1.
          destruct (bw_flush_ok st0 _ _ Hinv1) as (Hinv2 & Hbb2 & Hbn2).
          destruct (IH (bw_flush (buffer_append st (takeN n p))) (dropN n p) (fed ++ takeN n p) Hinv2) as (q & Hq & Hinv' & Hfit').
          { intros _. rewrite len_spec, dropN_spec, skipn_length. rewrite len_spec in Hlp.
            replace (N.of_nat (S f - 1)) with (N.of_nat f) in Hlp by lia. lia. }
          { intros H. rewrite Hbn2 in H. contradiction. }
          exists (takeN n p ++ q). split; [|split].
          -- rewrite <- app_assoc, <- Hq, takeN_spec, dropN_spec. symmetry. apply firstn_skipn.
          -- rewrite app_assoc. exact Hinv'.
          -- exact Hfit'.
  Qed.

  Lemma bw_write_ok st0 st fed p : binv st0 st fed -> binv st0 (bw_write st p) (fed ++ p).
  Proof.
    intros Hinv. unfold Writer.bw_write.
    set (fuel := S (S (N.to_nat (len p / bufSize)))).
    assert (Hfuel : len p <= N.of_nat (fuel - 1) * bufSize).
    { subst fuel. pose proof (N.div_mod (len p) bufSize ltac:(lia)). pose proof (N.mod_lt (len p) bufSize ltac:(lia)).
      set (k := len p / bufSize) in *. assert (N.of_nat (S (S (N.to_nat k)) - 1) = k + 1) as -> by lia. nia. }
    destruct (bw_loop_ok st0 fuel st p fed Hinv) as (q & Hq & Hinv' & Hfit).
    - intros _. assert (N.of_nat (fuel - 1) <= N.of_nat fuel) by lia. nia.
    - intros _. split; [exact Hfuel|subst fuel; apply le_n_S, Nat.le_0_l].
    - destruct (bw_loop fuel st p) as [st' p']. cbn [fst snd] in *.
      rewrite Hq, app_assoc. apply buffer_append_ok; assumption.
  Qed.

  Lemma run_events_ok st0 evs : forall st fed,
    binv st0 st fed -> binv st0 (run_events st evs) (fed ++ written evs).
  Proof.
    induction evs as [|e evs IH]; intros st fed Hinv; cbn [Writer.run_events fold_left written].
    - rewrite app_nil_r. exact Hinv.
    - fold (run_events (run_event st e) evs). destruct e as [d|]; cbn [Writer.run_event].
      + rewrite app_assoc. apply IH. apply bw_write_ok. exact Hinv.
      + apply IH. apply bw_flush_ok. exact Hinv.
  Qed.

  (** after a Flush everything written so far has been processed: the offsets are exact *)
  Lemma flushed_ok st0 st fed :
    binv st0 st fed ->
    let st' := bw_flush st in
    exists ops, rel st0 st' ops fed /\ w_fail st' = false /\ w_bn st' = 0 /\ w_bbuf st' = [].
  Proof.
    intros Hinv. destruct (bw_flush_ok st0 st fed Hinv) as (((ops & pr & Hrel & Hfed) & _ & _ & Hfail) & Hbb & Hbn).
    exists ops. cbn zeta. rewrite Hbb in Hfed. cbn [rev] in Hfed. rewrite app_nil_r in Hfed. subst pr.
    split; [exact Hrel|split; [exact Hfail|split; assumption]].
  Qed.
End Writer.
