(** Tail-recursive list functions indexed by [N], used by the overlay model so that it can be
    evaluated by [vm_compute] on inputs of several hundred KiB (non-tail recursion and unary
    [nat] counters are an order of magnitude slower there).  Each function is characterised in
    FastProofs.v by the standard library function it computes ([firstn], [skipn], [app],
    [length], [repeat]). *)
From Wharf Require Import Base.Prelude.
Local Open Scope N_scope.

(** [len l = N.of_nat (length l)] *)
Fixpoint len_acc {A} (l : list A) (acc : N) : N :=
  match l with [] => acc | _ :: r => len_acc r (N.succ acc) end.
Definition len {A} (l : list A) : N := len_acc l 0.

(** [length_tr l = length l] *)
Fixpoint length_acc {A} (l : list A) (acc : nat) : nat :=
  match l with [] => acc | _ :: r => length_acc r (S acc) end.
Definition length_tr {A} (l : list A) : nat := length_acc l O.

(** [app_tr a b = a ++ b] *)
Definition app_tr {A} (a b : list A) : list A := rev_append (rev_append a []) b.

(** [split_acc l n acc = (rev (firstn n l) ++ acc, skipn n l)] *)
Fixpoint split_acc {A} (l : list A) (n : N) (acc : list A) : list A * list A :=
  match l with
  | [] => (acc, [])
  | x :: r => if n =? 0 then (acc, l) else split_acc r (N.pred n) (x :: acc)
  end.
(** [takeN n l = firstn (N.to_nat n) l], [dropN n l = skipn (N.to_nat n) l] *)
Definition takeN {A} (n : N) (l : list A) : list A := rev_append (fst (split_acc l n [])) [].
Definition dropN {A} (n : N) (l : list A) : list A := snd (split_acc l n []).

(** [take_like d l = firstn (length d) l], [drop_like d l = skipn (length d) l] *)
Fixpoint take_like_acc {A B} (d : list B) (l acc : list A) : list A :=
  match d, l with
  | _ :: d', x :: l' => take_like_acc d' l' (x :: acc)
  | _, _ => acc
  end.
Definition take_like {A B} (d : list B) (l : list A) : list A := rev_append (take_like_acc d l []) [].
Fixpoint drop_like {A B} (d : list B) (l : list A) : list A :=
  match d, l with
  | _ :: d', _ :: l' => drop_like d' l'
  | _, _ => l
  end.

(** [repeat_onto v n acc = repeat v (N.to_nat n) ++ acc] *)
Definition repeat_onto {A} (v : A) (n : N) (acc : list A) : list A :=
  match n with N0 => acc | Npos p => Pos.iter (cons v) acc p end.

(** [concat_rev chunks = concat (rev chunks)]: the chunks are given most recent first *)
Definition concat_rev {A} (chunks : list (list A)) : list A :=
  fold_left (fun acc ch => app_tr ch acc) chunks [].
