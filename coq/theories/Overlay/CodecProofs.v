(** The wire encoding of Overlay/Codec.v is a prefix code: [dec (enc o ++ rest) = Some (o, rest)]
    for every message, which is the hypothesis the C14 theorems make about the encoding. *)
From Wharf Require Import Base.Prelude Overlay.Fast Overlay.FastProofs Overlay.Writer Overlay.Codec Overlay.WindowProofs.
From Coq Require Import ZifyBool ZifyNat ZifyN.
Local Open Scope N_scope.

Lemma get_uvarint_fuel : forall fuel n shift acc rest,
  n < 128 ^ N.of_nat (S fuel) ->
  get_uvarint (uvarint_fuel fuel n ++ rest) shift acc = Some (acc + N.shiftl n shift, rest).
Proof.
  induction fuel as [|f IH]; intros n shift acc rest Hn.
  - cbn [uvarint_fuel app get_uvarint]. change (128 ^ N.of_nat 1) with 128 in Hn.
    destruct (N.ltb_spec n 128); [reflexivity|lia].
  - cbn [uvarint_fuel]. destruct (N.ltb_spec n 128) as [Hs|Hb].
    + cbn [app get_uvarint]. destruct (N.ltb_spec n 128); [reflexivity|lia].
    + cbn [app get_uvarint].
      assert (Hm : n mod 128 < 128) by (apply N.mod_lt; lia).
      destruct (N.ltb_spec (128 + n mod 128) 128) as [Hc|_]; [lia|].
      rewrite IH.
      * f_equal. f_equal. replace (128 + n mod 128 - 128) with (n mod 128) by lia.
        rewrite !N.shiftl_mul_pow2, N.pow_add_r. change (2 ^ 7) with 128.
        pose proof (N.div_mod n 128 ltac:(lia)) as Hd. nia.
      * replace (N.of_nat (S (S f))) with (N.succ (N.of_nat (S f))) in Hn by lia.
        rewrite N.pow_succ_r' in Hn. apply N.div_lt_upper_bound; [lia|exact Hn].
Qed.

Lemma get_uvarint_enc n rest : get_uvarint (uvarint n ++ rest) 0 0 = Some (n, rest).
Proof.
  unfold uvarint. rewrite get_uvarint_fuel.
  - rewrite N.shiftl_0_r. reflexivity.
  - pose proof (N.size_gt n) as Hs.
    set (s := N.size n) in *. replace (N.of_nat (S (N.to_nat s))) with (s + 1) by lia.
    change 128 with (2 ^ 7). rewrite <- N.pow_mul_r.
    assert (2 ^ s <= 2 ^ (7 * (s + 1))) by (apply N.pow_le_mono_r; lia). lia.
Qed.

Lemma take_exact (a b : list byte) : takeN (len a) (a ++ b) = a.
Proof. rewrite takeN_spec, len_spec, Nat2N.id. apply firstn_exact. reflexivity. Qed.

Lemma drop_exact (a b : list byte) : dropN (len a) (a ++ b) = b.
Proof. rewrite dropN_spec, len_spec, Nat2N.id. apply skipn_exact. reflexivity. Qed.

Lemma fields_nil fuel ty ln data : fields fuel [] ty ln data = Some (ty, ln, data).
Proof. destruct fuel; reflexivity. Qed.

Lemma fields_8 fuel v r ty ln data :
  fields (S fuel) (8 :: uvarint v ++ r) ty ln data = fields fuel r v ln data.
Proof. cbn [fields]. change (8 =? 8) with true. cbv iota. rewrite get_uvarint_enc. reflexivity. Qed.

Lemma fields_16 fuel v r ty ln data :
  fields (S fuel) (16 :: uvarint v ++ r) ty ln data = fields fuel r ty v data.
Proof.
  cbn [fields]. change (16 =? 8) with false. change (16 =? 16) with true. cbv iota.
  rewrite get_uvarint_enc. reflexivity.
Qed.

Lemma fields_26 fuel d r ty ln data :
  fields (S fuel) (26 :: uvarint (len d) ++ d ++ r) ty ln data = fields fuel r ty ln d.
Proof.
  cbn [fields]. change (26 =? 8) with false. change (26 =? 16) with false. change (26 =? 26) with true. cbv iota.
  rewrite get_uvarint_enc. cbv zeta. rewrite take_exact, N.eqb_refl, drop_exact. reflexivity.
Qed.

Lemma uvarint_1 : uvarint 1 = [1].
Proof. reflexivity. Qed.

Theorem dec_enc_real : forall o rest, dec (enc o ++ rest) = Some (o, rest).
Proof.
  intros o rest. unfold dec, enc. cbv zeta. rewrite <- app_assoc, get_uvarint_enc.
  rewrite take_exact, N.eqb_refl, drop_exact.
  destruct o as [n|d|]; cbn [payload].
  - destruct (N.eqb_spec n 0) as [->|Hn].
    + cbn. reflexivity.
    + rewrite <- (app_nil_r (uvarint n)), fields_16, fields_nil. cbn [N.eqb]. reflexivity.
  - change (8 :: 1 :: ?x) with (8 :: uvarint 1 ++ x).
    rewrite fields_8. destruct d as [|x d].
    + rewrite fields_nil. reflexivity.
    + rewrite <- (app_nil_r (x :: d)) at 2. rewrite fields_26, fields_nil. reflexivity.
  - rewrite <- (app_nil_r (uvarint 2040)), fields_8, fields_nil. reflexivity.
Qed.
