(** The wire encoding of overlay messages (wire.WriteMessage of a proto3 OverlayOp): uvarint
    length prefix, then the fields [type] (1, varint), [len] (2, varint), [data] (3, bytes),
    each omitted when it has its default value.  Used to instantiate [enc] / [dec] / [magic]
    for execution, so that overlay offsets of the model equal Go's. *)
From Wharf Require Import Base.Prelude Overlay.Writer.
Local Open Scope N_scope.

Fixpoint uvarint_fuel (fuel : nat) (n : N) : list byte :=
  match fuel with
  | O => [n]
  | S f => if n <? 128 then [n] else (128 + n mod 128) :: uvarint_fuel f (n / 128)
  end.
Definition uvarint (n : N) : list byte := uvarint_fuel (N.to_nat (N.size n)) n.     (* binary.PutUvarint *)

Fixpoint get_uvarint (s : list byte) (shift acc : N) : option (N * list byte) :=   (* binary.ReadUvarint *)
  match s with
  | [] => None
  | b :: r => if b <? 128 then Some (acc + N.shiftl b shift, r)
              else get_uvarint r (shift + 7) (acc + N.shiftl (b - 128) shift)
  end.

Definition payload (o : op) : list byte :=
  match o with
  | Skip n => if n =? 0 then [] else 16 :: uvarint n
  | Fresh d => 8 :: 1 :: match d with [] => [] | _ => 26 :: uvarint (len d) ++ d end
  | EndMark => 8 :: uvarint 2040
  end.

Definition enc (o : op) : list byte := let p := payload o in uvarint (len p) ++ p.

(** fields of one message; unknown fields are a decoding error of the model (the writer never
    produces them) *)
Fixpoint fields (fuel : nat) (s : list byte) (ty ln : N) (data : list byte) : option (N * N * list byte) :=
  match s with
  | [] => Some (ty, ln, data)
  | tag :: r =>
      match fuel with
      | O => None
      | S f =>
          if tag =? 8 then
            match get_uvarint r 0 0 with Some (v, r') => fields f r' v ln data | None => None end
          else if tag =? 16 then
            match get_uvarint r 0 0 with Some (v, r') => fields f r' ty v data | None => None end
          else if tag =? 26 then
            match get_uvarint r 0 0 with
            | Some (l, r') =>
                let d := takeN l r' in
                if len d =? l then fields f (dropN l r') ty ln d else None
            | None => None
            end
          else None
      end
  end.

Definition dec (s : list byte) : option (op * list byte) :=
  match get_uvarint s 0 0 with
  | None => None
  | Some (l, r) =>
      let body := takeN l r in
      if len body =? l then           (* io.ReadFull *)
        match fields 4 body 0 0 [] with
        | Some (ty, ln, data) =>
            let rest := dropN l r in
            if ty =? 0 then Some (Skip ln, rest)
            else if ty =? 1 then Some (Fresh data, rest)
            else if ty =? 2040 then Some (EndMark, rest)
            else None
        | None => None
        end
      else None
  end.

(** OverlayMagic = 0xFEF6F00, little endian *)
Definition magic : list byte := [0; 111; 239; 15].
