(** C14 — model of pwr/overlay/overlay_patch.go:Patch followed by the truncation of
    pwr/bowl/bowl_overlay.go:applyOverlays (definitions only, executable).

    The patched file is an [os.File] opened O_WRONLY, modelled by a cursor: the bytes before
    the position (most recent first) and the bytes from the position on.  [Seek(n,
    SeekCurrent)] with n >= 0 moves the position forward, [Write] overwrites / extends at the
    position, [Truncate(pos)] cuts or extends the file to the position; a hole left by seeking
    past the end reads as zeros (POSIX).  [dec] decodes one message from the stream. *)
From Wharf Require Import Base.Prelude Overlay.Writer.
Local Open Scope N_scope.

Definition cursor := (list byte * list byte)%type.

Definition apply_op (o : op) (c : cursor) : cursor :=
  let '(before, after) := c in
  match o with
  | Skip n =>                                       (* w.Seek(op.Len, io.SeekCurrent) *)
      let t := takeN n after in                     (* zero-padded when the file ends earlier *)
      (repeat_onto 0 (n - len t) (rev_append t before), dropN n after)
  | Fresh d => (rev_append d before, drop_like d after)                       (* w.Write(op.Data) *)
  | EndMark => c
  end.

Definition apply_ops (ops : list op) (c : cursor) : cursor := fold_left (fun c o => apply_op o c) ops c.

Inductive presult := POk (content : list byte) | PErr | POutOfFuel.

Section Patch.
  Variable dec : list byte -> option (op * list byte).    (* rctx.ReadMessage(op) *)
  Variable magic : list byte.

  (** [for { ReadMessage; switch op.Type }]; on the end marker: finalSize := w.Seek(0,
      SeekCurrent); w.Truncate(finalSize) *)
  Fixpoint patch_loop (fuel : nat) (stream : list byte) (c : cursor) : presult :=
    match fuel with
    | O => POutOfFuel
    | S f =>
        match dec stream with
        | None => PErr
        | Some (EndMark, _) => POk (rev_append (fst c) [])
        | Some (o, rest) => patch_loop f rest (apply_op o c)
        end
    end.

  (** rctx.ExpectMagic *)
  Definition expect_magic (stream : list byte) : option (list byte) :=
    if list_eqb N.eqb (take_like magic stream) magic then Some (drop_like magic stream) else None.

  Definition patch (old overlay : list byte) : presult :=
    match expect_magic overlay with
    | None => PErr
    | Some s => patch_loop (S (length_tr s)) s ([], old)
    end.

  (** the messages [Patch] sees, up to and including the end marker (for the correspondence) *)
  Fixpoint decode_all (fuel : nat) (stream : list byte) : option (list op) :=
    match fuel with
    | O => None
    | S f =>
        match dec stream with
        | None => None
        | Some (EndMark, _) => Some [EndMark]
        | Some (o, rest) => option_map (cons o) (decode_all f rest)
        end
    end.
End Patch.
