(** Model of bsdiff/lrufile/lrufile.go: [Read], [Seek], [getChunk], [onEvict] over an abstract
    bounded cache ([simplelru.LRU]: [cget] = Get, [cadd] = Add returning the evicted entry that
    Add hands to the onEvict callback), with the chunk size and the number of entries as
    parameters.  The underlying file is a plain byte string read with full reads.  The slots of
    [storage] keep stale bytes (the code never clears them).  [lru_list] is simplelru itself
    (recency list, most recent first), used to execute the model.  Definitions only. *)
From Wharf Require Import Base.Prelude Bsdiff.Scan.
Local Open Scope Z_scope.

Inductive lop := ORead (n : Z) | OSeek (off whence : Z).
(** status: 0 = nil, 1 = io.EOF, 2 = any other error *)
Inductive lresult := RRead (data : list byte) (st : N) | RSeek (pos : Z) (st : N).

(** the reference: a plain in-memory reader with the same Seek conventions *)
Definition seek_target (size cur off whence : Z) : option Z :=
  if whence =? 0 then Some off
  else if whence =? 1 then Some (cur + off)
  else if whence =? 2 then Some (size + off)
  else None.

Definition plain_step (file : list byte) (cur : Z) (op : lop) : lresult * Z :=
  match op with
  | ORead n =>
      if n <=? 0 then (RRead [] 0, cur)
      else let data := firstn (Z.to_nat n) (skipn (Z.to_nat cur) file) in
           (RRead data (if cur + n >? len file then 1 else 0)%N, cur + len data)
  | OSeek off whence =>
      match seek_target (len file) cur off whence with
      | None => (RSeek cur 2, cur)
      | Some t => if (t <? 0) || (t >? len file) then (RSeek 0 2, 0) else (RSeek t 0, t)
      end
  end.

Fixpoint run_plain_from (file : list byte) (cur : Z) (ops : list lop) : list lresult :=
  match ops with
  | [] => []
  | op :: r => let '(res, cur') := plain_step file cur op in res :: run_plain_from file cur' r
  end.
Definition run_plain (file : list byte) (ops : list lop) : list lresult := run_plain_from file 0 ops.

Fixpoint set_nth {A} (n : nat) (x : A) (l : list A) : list A :=
  match l, n with
  | [], _ => []
  | _ :: r, O => x :: r
  | y :: r, S n' => y :: set_nth n' x r
  end.

(** [for k, v := range lf.allocations { if v < 0 { storageIndex = k; break } }] *)
Fixpoint find_free (allocs : list Z) (k : nat) : option nat :=
  match allocs with
  | [] => None
  | v :: r => if v <? 0 then Some k else find_free r (S k)
  end.

Section LruFile.
  Variable cache : Type.
  Variable cget : cache -> Z -> option Z * cache.
  Variable cadd : cache -> Z -> Z -> cache * option (Z * Z).
  Variable chunkSize : Z.
  Variable file : list byte.

  Record lf := mkLf { lf_offset : Z; lf_storage : list (list byte); lf_allocs : list Z; lf_lru : cache; lf_loads : list Z }.

  Inductive lres (A : Type) := LOk (a : A) | LNoRoom (s : lf) | LPanic.
  Arguments LOk {A} a.
  Arguments LNoRoom {A} s.
  Arguments LPanic {A}.

  (** [onEvict]: [lf.allocations[value.(int)] = -1] *)
  Definition on_evict (ev : option (Z * Z)) (allocs : list Z) : option (list Z) :=
    match ev with
    | None => Some allocs
    | Some (_, v) => if (v <? 0) || (v >=? len allocs) then None else Some (set_nth (Z.to_nat v) (-1) allocs)
    end.

  Definition getChunk (s : lf) (ci : Z) : lres (list byte * lf) :=
    match cget (lf_lru s) ci with
    | (Some v, c') =>
        if (v <? 0) || (v >=? len (lf_storage s)) then LPanic   (* storage[v*chunkSize:(v+1)*chunkSize] *)
        else LOk (nth (Z.to_nat v) (lf_storage s) [], mkLf (lf_offset s) (lf_storage s) (lf_allocs s) c' (lf_loads s))
    | (None, c') =>
        let '(c1, ev1) := cadd c' ci (-1) in
        match on_evict ev1 (lf_allocs s) with
        | None => LPanic
        | Some allocs1 =>
            match find_free allocs1 O with
            | None => LNoRoom (mkLf (lf_offset s) (lf_storage s) allocs1 c1 (lf_loads s))
            | Some k =>
                let '(c2, ev2) := cadd c1 ci (Z.of_nat k) in
                match on_evict ev2 allocs1 with
                | None => LPanic
                | Some allocs2 =>
                    let allocs3 := set_nth k ci allocs2 in
                    let inputOffset := ci * chunkSize in
                    let data := firstn (Z.to_nat chunkSize) (skipn (Z.to_nat inputOffset) file) in
                    let slot := data ++ skipn (length data) (nth k (lf_storage s) []) in
                    LOk (slot, mkLf (lf_offset s) (set_nth k slot (lf_storage s)) allocs3 c2 (lf_loads s ++ [inputOffset]))
                end
            end
        end
    end.

  (** the loop of [Read]; [acc] = bytes copied so far; result: bytes, status *)
  Fixpoint read_loop (fuel : nat) (s : lf) (remaining : Z) (acc : list byte) : lres (list byte * N * lf) :=
    match fuel with
    | O => LPanic
    | S f =>
        if remaining >? 0 then
          let ci := lf_offset s / chunkSize in
          match getChunk s ci with
          | LPanic => LPanic
          | LNoRoom s' => LOk (acc, 2%N, s')
          | LOk (chunk, s') =>
              let size := len file in
              let start := lf_offset s mod chunkSize in
              let end0 := start + remaining in
              let chunkStart := ci * chunkSize in
              let lastChunk := chunkStart + chunkSize >? size in
              let chunkEnd := if lastChunk then size else chunkStart + chunkSize in
              let csz := chunkEnd - chunkStart in
              let '(end1, eof) := if end0 >? csz then (csz, lastChunk) else (end0, false) in
              if (start <? 0) || (start >? end1) || (end1 >? len chunk) then LPanic   (* chunk[start:end] *)
              else
                let piece := firstn (Z.to_nat (end1 - start)) (skipn (Z.to_nat start) chunk) in
                let s'' := mkLf (lf_offset s + len piece) (lf_storage s') (lf_allocs s') (lf_lru s') (lf_loads s') in
                if eof then LOk (acc ++ piece, 1%N, s'')
                else read_loop f s'' (remaining - len piece) (acc ++ piece)
          end
        else LOk (acc, 0%N, s)
    end.

  Definition lf_step (s : lf) (op : lop) : lres (lresult * lf) :=
    match op with
    | ORead n =>
        match read_loop (S (Z.to_nat n)) s n [] with
        | LOk (data, st, s') => LOk (RRead data st, s')
        | LNoRoom s' => LNoRoom s'
        | LPanic => LPanic
        end
    | OSeek off whence =>
        let set o := mkLf o (lf_storage s) (lf_allocs s) (lf_lru s) (lf_loads s) in
        match seek_target (len file) (lf_offset s) off whence with
        | None => LOk (RSeek (lf_offset s) 2, s)
        | Some t => if (t <? 0) || (t >? len file) then LOk (RSeek 0 2, set 0) else LOk (RSeek t 0, set t)
        end
    end.

  (** results so far, final state; [None] = a panic *)
  Fixpoint lf_run (s : lf) (ops : list lop) : option (list lresult * lf) :=
    match ops with
    | [] => Some ([], s)
    | op :: r =>
        match lf_step s op with
        | LOk (res, s') => match lf_run s' r with
                           | Some (rs, sf) => Some (res :: rs, sf)
                           | None => None
                           end
        | _ => None
        end
    end.

  (** state after [New] + [Reset]: nothing allocated, empty cache, offset 0; [stale] = whatever the slots hold *)
  Definition lf_init (cempty : cache) (stale : list (list byte)) : lf :=
    mkLf 0 stale (repeat (-1) (length stale)) cempty [].
End LruFile.

Arguments LOk {cache A} a.
Arguments LNoRoom {cache A} s.
Arguments LPanic {cache A}.

(** simplelru.LRU as a recency list (most recent first) of capacity [cap] *)
Definition lru_list := list (Z * Z).

Fixpoint ll_remove (k : Z) (l : lru_list) : lru_list :=
  match l with
  | [] => []
  | (k', v) :: r => if k' =? k then r else (k', v) :: ll_remove k r
  end.

Fixpoint ll_find (k : Z) (l : lru_list) : option Z :=
  match l with
  | [] => None
  | (k', v) :: r => if k' =? k then Some v else ll_find k r
  end.

(** Get: value, entry moved to the front *)
Definition ll_get (l : lru_list) (k : Z) : option Z * lru_list :=
  match ll_find k l with
  | Some v => (Some v, (k, v) :: ll_remove k l)
  | None => (None, l)
  end.

(** Add: existing key: new value, moved to the front, nothing evicted; new key: pushed to the front,
    the oldest entry evicted when the list exceeds the capacity *)
Definition ll_add (cap : nat) (l : lru_list) (k v : Z) : lru_list * option (Z * Z) :=
  match ll_find k l with
  | Some _ => ((k, v) :: ll_remove k l, None)
  | None =>
      let l' := (k, v) :: l in
      if (cap <? length l')%nat
      then (removelast l', Some (last l' (0, 0)))
      else (l', None)
  end.

Definition run_lru (chunkSize : Z) (entries : nat) (file : list byte) (ops : list lop) : option (list lresult * list Z) :=
  let stale := repeat (repeat 0%N (Z.to_nat chunkSize)) entries in
  match lf_run lru_list ll_get (ll_add entries) chunkSize file (lf_init lru_list [] stale) ops with
  | Some (rs, s) => Some (rs, lf_loads lru_list s)
  | None => None
  end.
