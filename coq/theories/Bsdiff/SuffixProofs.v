(** The executable search used by the correspondence (naive partitioned suffix array + Go's
    binary search, Bsdiff/Suffix.v) answers within the range that [bsdiff_roundtrip] assumes of
    the oracle; hence the executable instance [run_bsd] of Exec/C12.v, which the correspondence
    compares with the code on every run, is covered by the theorem (non-vacuity of the hypothesis
    on the instance that matters). *)
From Coq Require Import ZifyBool ZifyNat ZifyN.
From Wharf Require Import Base.Prelude Bsdiff.Scan Bsdiff.ScanProofs Bsdiff.Suffix.
Local Open Scope Z_scope.

Lemma matchlen_range : forall a b, 0 <= matchlen a b <= len b.
Proof.
  induction a as [|x a IH]; intros b; destruct b as [|y b]; cbn [matchlen]; unfold len in *; cbn [length]; try lia.
  destruct (x =? y)%N; [|lia]. specialize (IH b). lia.
Qed.

Lemma insert_suffix_forall : forall buf (P : nat -> Prop) i l, P i -> Forall P l -> Forall P (insert_suffix buf i l).
Proof.
  intros buf P i l Hi Hl. induction l as [|j r IH]; cbn [insert_suffix].
  - constructor; [assumption|constructor].
  - inversion Hl; subst. destruct (bytes_lt (suffix buf i) (suffix buf j)).
    + constructor; assumption.
    + constructor; [assumption|apply IH; assumption].
Qed.

Lemma suffix_array_bound : forall buf, Forall (fun i => (i < length buf)%nat) (suffix_array buf).
Proof.
  intros buf. unfold suffix_array.
  assert (H : Forall (fun i => (i < length buf)%nat) (seq 0 (length buf))).
  { apply Forall_forall. intros x Hx. apply in_seq in Hx. lia. }
  induction H as [|x l Hx Hl IH]; cbn [fold_right]; [constructor|].
  apply insert_suffix_forall; assumption.
Qed.

Lemma nth_bound : forall (sa : list nat) n k, Forall (fun i => (i < n)%nat) sa -> (nth k sa O <= n)%nat.
Proof.
  intros sa n k H. destruct (Nat.lt_ge_cases k (length sa)) as [Hlt|Hge].
  - rewrite Forall_forall in H. pose proof (H _ (nth_In sa O Hlt)). lia.
  - rewrite nth_overflow by assumption. lia.
Qed.

Lemma go_search_range : forall fuel sa obuf nbuf st en,
  Forall (fun i => (i < length obuf)%nat) sa ->
  0 <= fst (go_search fuel sa obuf nbuf st en) <= len obuf /\ 0 <= snd (go_search fuel sa obuf nbuf st en) <= len nbuf.
Proof.
  induction fuel as [|f IH]; intros sa obuf nbuf st en Hsa; cbn [go_search].
  - cbn. pose proof (len_nonneg _ obuf). pose proof (len_nonneg _ nbuf). lia.
  - destruct (en - st <? 2)%nat.
    + pose proof (nth_bound sa (length obuf) st Hsa) as H1. pose proof (nth_bound sa (length obuf) en Hsa) as H2.
      destruct (length obuf <=? en)%nat; cbn [fst snd].
      * pose proof (matchlen_range (suffix obuf (nth st sa O)) nbuf). unfold len in *. lia.
      * cbv zeta.
        pose proof (matchlen_range (suffix obuf (nth st sa O)) nbuf).
        pose proof (matchlen_range (suffix obuf (nth en sa O)) nbuf).
        destruct (matchlen (suffix obuf (nth st sa O)) nbuf >? matchlen (suffix obuf (nth en sa O)) nbuf); cbn [fst snd]; unfold len in *; lia.
    + cbv zeta. destruct (bytes_lt (suffix obuf (nth (st + (en - st) / 2) sa O)) nbuf); apply IH; assumption.
Qed.

Definition part_ok (L : Z) (p : nat * list byte * list nat) : Prop :=
  let '(st, part, sa) := p in (part <> [] -> Z.of_nat st + len part <= L) /\ Forall (fun i => (i < length part)%nat) sa.

Lemma psa_search_parts_range : forall L parts nbuf bpos bn,
  Forall (part_ok L) parts -> 0 <= bpos <= L -> 0 <= bn <= len nbuf ->
  0 <= fst (psa_search_parts parts nbuf bpos bn) <= L /\ 0 <= snd (psa_search_parts parts nbuf bpos bn) <= len nbuf.
Proof.
  intros L parts; induction parts as [|[[st part] sa] r IH]; intros nbuf bpos bn Hok Hp Hn; cbn [psa_search_parts].
  - cbn [fst snd]. lia.
  - inversion Hok as [|? ? H1 H2]; subst. cbn [part_ok] in H1. destruct H1 as [Hst Hsa].
    destruct part as [|b part']; [apply IH; assumption|].
    set (part := b :: part') in *. specialize (Hst ltac:(subst part; congruence)).
    pose proof (go_search_range (S (length part)) sa part nbuf 0 (length part) Hsa) as Hg.
    destruct (go_search (S (length part)) sa part nbuf 0 (length part)) as [ppos pn]. cbn [fst snd] in Hg.
    destruct (pn >? bn); apply IH; try assumption; lia.
Qed.

Lemma psa_parts_ok : forall n i p size buf, Forall (part_ok (len buf)) (psa_parts n i p size buf).
Proof.
  induction n as [|n IH]; intros i p size buf; cbn [psa_parts]; [constructor|].
  constructor; [|apply IH].
  cbn [part_ok]. split; [|apply suffix_array_bound].
  set (st := (i * size)%nat). generalize ((if (S i =? p)%nat then length buf else (S i * size)%nat) - st)%nat as m. intros m Hne.
  assert (st < length buf)%nat.
  { destruct (Nat.lt_ge_cases st (length buf)) as [H|H]; [assumption|]. rewrite skipn_all2 in Hne by assumption. rewrite firstn_nil in Hne. congruence. }
  rewrite len_firstn, skipn_length. unfold len. lia.
Qed.

Lemma psa_search_in_range : forall p old, search_in_range (len old) (psa_search (new_psa p old)).
Proof.
  intros p old suf. unfold psa_search, new_psa.
  apply psa_search_parts_range; [apply psa_parts_ok| |]; pose proof (len_nonneg _ old); pose proof (len_nonneg _ suf); lia.
Qed.
