(** Proofs about Bsdiff/Scan.v: under range facts about the search oracle, [analyze_block]
    neither panics nor runs out of fuel and its matches tile the block; the blocks tile the
    new file.  (The composition with the patcher is in PatchProofs.v.) *)
From Coq Require Import ZifyBool ZifyNat ZifyN.
From Wharf Require Import Base.Prelude Bsdiff.Scan.
Local Open Scope Z_scope.
Ltac Zify.zify_post_hook ::= Z.div_mod_to_equations.

(** * lists, [len], [getz], [slicez] *)

Lemma len_nonneg : forall A (l : list A), 0 <= len l.
Proof. intros; unfold len; lia. Qed.

Lemma len_app : forall A (a b : list A), len (a ++ b) = len a + len b.
Proof. intros; unfold len; rewrite app_length; lia. Qed.

Lemma len_skipn : forall A (l : list A) n, len (skipn n l) = len l - Z.of_nat (Nat.min n (length l)).
Proof. intros; unfold len; rewrite skipn_length; lia. Qed.

Lemma len_firstn : forall A (l : list A) n, len (firstn n l) = Z.of_nat (Nat.min n (length l)).
Proof. intros; unfold len; rewrite firstn_length; lia. Qed.

Lemma getz_ok : forall l i, 0 <= i < len l -> exists b, getz l i = Ok b /\ nth_error l (Z.to_nat i) = Some b.
Proof.
  intros l i H. unfold getz.
  destruct (i <? 0) eqn:E; [lia|].
  destruct (nth_error l (Z.to_nat i)) eqn:N.
  - eexists; split; reflexivity.
  - apply nth_error_None in N. unfold len in H. lia.
Qed.

Lemma slicez_ok : forall l a b, 0 <= a -> a <= b -> b <= len l ->
  slicez l a b = Ok (firstn (Z.to_nat (b - a)) (skipn (Z.to_nat a) l)).
Proof.
  intros l a b H1 H2 H3. unfold slicez.
  destruct ((0 <=? a) && (a <=? b) && (b <=? len l)) eqn:E; [reflexivity|lia].
Qed.

Lemma len_slice : forall (l : list byte) a b, 0 <= a -> a <= b -> b <= len l ->
  len (firstn (Z.to_nat (b - a)) (skipn (Z.to_nat a) l)) = b - a.
Proof. intros. rewrite len_firstn, skipn_length. unfold len in *. lia. Qed.

(** * the search oracle stays in range *)
Definition search_in_range (obuflen : Z) (srch : list byte -> Z * Z) : Prop :=
  forall suf, 0 <= fst (srch suf) <= obuflen /\ 0 <= snd (srch suf) <= len suf.

(** matches of a scan tile [start, stop) of the new file and stay inside the old file *)
Fixpoint tiles (obuflen start stop : Z) (ms : list Match) : Prop :=
  match ms with
  | [] => start = stop
  | m :: r => addNewStart m = start /\ 0 <= addLength m /\ start + addLength m <= copyEnd m /\
              0 <= addOldStart m /\ addOldStart m + addLength m <= obuflen /\
              tiles obuflen (copyEnd m) stop r
  end.

Lemma tiles_app : forall L a b c m1 m2, tiles L a b m1 -> tiles L b c m2 -> tiles L a c (m1 ++ m2).
Proof.
  intros L a b c m1; revert a. induction m1 as [|m r IH]; intros a m2 H1 H2; cbn in *.
  - subst; assumption.
  - destruct H1 as (?&?&?&?&?&?). repeat split; try assumption. eapply IH; eassumption.
Qed.

Lemma tiles_le : forall L ms a b, tiles L a b ms -> a <= b.
Proof.
  intros L ms; induction ms as [|m r IH]; intros a b H; cbn in H.
  - lia.
  - destruct H as (?&?&?&?&?&H). apply IH in H. lia.
Qed.

Section Block.
  Variable search : list byte -> Z * Z.
  Variables obuf nbuf : list byte.
  Variable offset : Z.
  Hypothesis Hrange : search_in_range (len obuf) search.

  Lemma score_loop_ok : forall n lo scsc os,
    0 <= scsc + lo -> 0 <= scsc -> scsc + Z.of_nat n <= len nbuf ->
    exists os', score_loop obuf nbuf n lo scsc os = Ok os' /\ os <= os'.
  Proof.
    induction n as [|n IH]; intros lo scsc os H1 H2 H3; cbn [score_loop].
    - eexists; split; [reflexivity|lia].
    - destruct (scsc + lo <? len obuf) eqn:E.
      + destruct (getz_ok obuf (scsc + lo)) as [a [Ha _]]; [lia|]. rewrite Ha; cbn [bind].
        destruct (getz_ok nbuf scsc) as [b [Hb _]]; [lia|]. rewrite Hb; cbn [bind].
        destruct (IH lo (scsc + 1) (if (a =? b)%N then os + 1 else os)) as [os' [E1 E2]]; try lia.
        exists os'; split; [exact E1|destruct (a =? b)%N; lia].
      + destruct (IH lo (scsc + 1) os) as [os' [E1 E2]]; try lia.
        exists os'; split; [exact E1|lia].
  Qed.

  Lemma scan_loop_ok : forall fuel lo scan scsc os pos length,
    (Z.to_nat (len nbuf - scan) < fuel)%nat ->
    0 <= scan <= len nbuf -> 0 <= scan + lo -> 0 <= scsc + lo -> 0 <= scsc <= len nbuf ->
    0 <= pos <= len obuf -> 0 <= length ->
    exists scan' pos' length' os',
      scan_loop search obuf nbuf fuel lo scan scsc os pos length = Ok (scan', pos', length', os') /\
      scan <= scan' <= len nbuf /\ 0 <= pos' <= len obuf /\ 0 <= length' /\
      (scan' < len nbuf -> scan' + length' <= len nbuf) /\
      (0 <= os -> scan' = scan -> scan' < len nbuf -> 0 < length').
  Proof.
    induction fuel as [|f IH]; intros lo scan scsc os pos length Hf Hs Hlo Hsc Hsc2 Hpos Hlen; [lia|].
    cbn [scan_loop].
    destruct (scan <? len nbuf) eqn:E.
    - pose proof (Hrange (skipn (Z.to_nat scan) nbuf)) as Hr.
      destruct (search (skipn (Z.to_nat scan) nbuf)) as [pos' length'] eqn:Es. cbn [fst snd] in Hr.
      rewrite len_skipn in Hr.
      assert (Hl : 0 <= length' <= len nbuf - scan) by (unfold len in *; lia).
      destruct (score_loop_ok (Z.to_nat (scan + length' - scsc)) lo scsc os) as [os1 [Eo Ho]]; try lia.
      rewrite Eo; cbn [bind].
      destruct (((length' =? os1) && negb (length' =? 0)) || (length' >? os1 + 8)) eqn:Eb.
      + exists scan, pos', length', os1. repeat split; try lia.
      + assert (Hos2 : exists os2,
                 (if scan + lo <? len obuf
                  then do a <- getz obuf (scan + lo); do b <- getz nbuf scan; Ok (if (a =? b)%N then os1 - 1 else os1)
                  else Ok os1) = Ok os2).
        { destruct (scan + lo <? len obuf) eqn:E2.
          - destruct (getz_ok obuf (scan + lo)) as [a [Ha _]]; [lia|]. rewrite Ha; cbn [bind].
            destruct (getz_ok nbuf scan) as [b [Hb _]]; [lia|]. rewrite Hb; cbn [bind]. eexists; reflexivity.
          - eexists; reflexivity. }
        destruct Hos2 as [os2 Eo2]. rewrite Eo2; cbn [bind].
        destruct (IH lo (scan + 1) (Z.max scsc (scan + length')) os2 pos' length') as (s' & p' & l' & o' & E1 & E2 & E3 & E4 & E5 & E6); try lia.
        exists s', p', l', o'. repeat split; try lia; try assumption.
    - exists scan, pos, length, os. repeat split; try lia.
  Qed.

  Lemma lenf_loop_ok : forall n lastscan lastpos scan i s Sf lenf,
    0 <= lastscan -> scan <= len nbuf -> 0 <= lastpos -> 0 <= i ->
    0 <= lenf <= scan - lastscan -> lastpos + lenf <= len obuf ->
    exists lenf', lenf_loop obuf nbuf n lastscan lastpos scan i s Sf lenf = Ok lenf' /\
                  0 <= lenf' <= scan - lastscan /\ lastpos + lenf' <= len obuf.
  Proof.
    induction n as [|n IH]; intros lastscan lastpos scan i s Sf lenf H1 H2 H3 H4 H5 H6; cbn [lenf_loop].
    - exists lenf; repeat split; lia.
    - destruct ((lastscan + i <? scan) && (lastpos + i <? len obuf)) eqn:E.
      + destruct (getz_ok obuf (lastpos + i)) as [a [Ha _]]; [lia|]. rewrite Ha; cbn [bind].
        destruct (getz_ok nbuf (lastscan + i)) as [b [Hb _]]; [lia|]. rewrite Hb; cbn [bind].
        cbv zeta.
        destruct ((if (a =? b)%N then s + 1 else s) * 2 - (i + 1) >? Sf * 2 - lenf).
        * apply IH; lia.
        * apply IH; lia.
      + exists lenf; repeat split; lia.
  Qed.

  Lemma lenb_loop_ok : forall n lastscan scan pos i s Sb lenb,
    0 <= lastscan -> scan <= len nbuf -> pos <= len obuf -> 1 <= i ->
    0 <= lenb <= scan - lastscan -> lenb <= pos ->
    exists lenb', lenb_loop obuf nbuf n lastscan scan pos i s Sb lenb = Ok lenb' /\
                  0 <= lenb' <= scan - lastscan /\ lenb' <= pos.
  Proof.
    induction n as [|n IH]; intros lastscan scan pos i s Sb lenb H1 H2 H3 H4 H5 H6; cbn [lenb_loop].
    - exists lenb; repeat split; lia.
    - destruct ((scan >=? lastscan + i) && (pos >=? i)) eqn:E.
      + destruct (getz_ok obuf (pos - i)) as [a [Ha _]]; [lia|]. rewrite Ha; cbn [bind].
        destruct (getz_ok nbuf (scan - i)) as [b [Hb _]]; [lia|]. rewrite Hb; cbn [bind].
        cbv zeta.
        destruct ((if (a =? b)%N then s + 1 else s) * 2 - i >? Sb * 2 - lenb).
        * apply IH; lia.
        * apply IH; lia.
      + exists lenb; repeat split; lia.
  Qed.

  Lemma overlap_loop_ok : forall n lastscan lastpos scan pos lenf lenb overlap i s Ss lens,
    overlap = lastscan + lenf - (scan - lenb) ->
    0 <= lastscan -> scan <= len nbuf -> 0 <= lastpos -> pos <= len obuf ->
    0 <= lenf <= scan - lastscan -> lastpos + lenf <= len obuf ->
    0 <= lenb <= scan - lastscan -> lenb <= pos ->
    0 <= i -> i + Z.of_nat n = overlap -> 0 <= lens <= i ->
    exists lens', overlap_loop obuf nbuf n lastscan lastpos scan pos lenf lenb overlap i s Ss lens = Ok lens' /\
                  0 <= lens' <= overlap.
  Proof.
    induction n as [|n IH]; intros lastscan lastpos scan pos lenf lenb overlap i s Ss lens Ho H1 H2 H3 H4 H5 H6 H7 H8 H9 H10 H11;
      cbn [overlap_loop].
    - exists lens; split; [reflexivity|lia].
    - destruct (getz_ok nbuf (lastscan + lenf - overlap + i)) as [b1 [Hb1 _]]; [lia|]. rewrite Hb1; cbn [bind].
      destruct (getz_ok obuf (lastpos + lenf - overlap + i)) as [a1 [Ha1 _]]; [lia|]. rewrite Ha1; cbn [bind].
      destruct (getz_ok nbuf (scan - lenb + i)) as [b2 [Hb2 _]]; [lia|]. rewrite Hb2; cbn [bind].
      destruct (getz_ok obuf (pos - lenb + i)) as [a2 [Ha2 _]]; [lia|]. rewrite Ha2; cbn [bind].
      cbv zeta.
      match goal with |- context [if ?c >? Ss then _ else _] => destruct (c >? Ss) end.
      + apply IH; lia.
      + apply IH; lia.
  Qed.

  Lemma extend_ok : forall lastscan lastpos scan pos,
    0 <= lastscan <= scan -> scan <= len nbuf -> 0 <= lastpos <= len obuf -> 0 <= pos <= len obuf ->
    exists lenf lenb, extend obuf nbuf lastscan lastpos scan pos = Ok (lenf, lenb) /\
      0 <= lenf /\ 0 <= lenb /\ lastscan + lenf <= scan - lenb /\ lenb <= pos /\ lastpos + lenf <= len obuf /\
      (scan = len nbuf -> lenb = 0).
  Proof.
    intros lastscan lastpos scan pos H1 H2 H3 H4. unfold extend.
    destruct (lenf_loop_ok (Z.to_nat (scan - lastscan)) lastscan lastpos scan 0 0 0 0) as [lenf [Ef Hf]]; try lia.
    rewrite Ef; cbn [bind].
    assert (Hb : exists lenb, (if scan <? len nbuf then lenb_loop obuf nbuf (Z.to_nat (scan - lastscan)) lastscan scan pos 1 0 0 0 else Ok 0) = Ok lenb /\
                              0 <= lenb <= scan - lastscan /\ lenb <= pos /\ (scan = len nbuf -> lenb = 0)).
    { destruct (scan <? len nbuf) eqn:E.
      - destruct (lenb_loop_ok (Z.to_nat (scan - lastscan)) lastscan scan pos 1 0 0 0) as [lenb [Eb Hb]]; try lia.
        exists lenb; repeat split; try lia; assumption.
      - exists 0; repeat split; lia. }
    destruct Hb as [lenb [Eb Hb]]. rewrite Eb; cbn [bind].
    destruct (lastscan + lenf >? scan - lenb) eqn:E.
    - cbv zeta.
      destruct (overlap_loop_ok (Z.to_nat (lastscan + lenf - (scan - lenb))) lastscan lastpos scan pos lenf lenb
                                (lastscan + lenf - (scan - lenb)) 0 0 0 0) as [lens [El Hl]]; try lia.
      rewrite El; cbn [bind].
      eexists _, _; split; [reflexivity|]. repeat split; lia.
    - exists lenf, lenb; split; [reflexivity|]. repeat split; lia.
  Qed.

  Lemma outer_loop_ok : forall fuel scan pos length lastscan lastpos lo,
    (1 <= fuel)%nat ->
    (scan < len nbuf -> len nbuf - (scan + length) + 2 <= Z.of_nat fuel) ->
    0 <= lastscan <= scan -> scan <= len nbuf -> (len nbuf <= scan -> lastscan = len nbuf) ->
    0 <= length -> (scan < len nbuf -> scan + length <= len nbuf) ->
    0 <= pos <= len obuf -> 0 <= lastpos <= len obuf -> 0 <= scan + lo ->
    exists ms, outer_loop search obuf nbuf offset fuel scan pos length lastscan lastpos lo = Ok ms /\
               tiles (len obuf) (lastscan + offset) (len nbuf + offset) ms /\
               match ms with m :: _ => addOldStart m = lastpos | [] => True end.
  Proof.
    induction fuel as [|f IH]; intros scan pos length lastscan lastpos lo Hf1 Hf2 Hls Hs Hend Hlen Hsl Hpos Hlp Hlo; [lia|].
    cbn [outer_loop].
    destruct (scan <? len nbuf) eqn:E.
    - cbv zeta.
      destruct (scan_loop_ok (S (Z.to_nat (len nbuf - (scan + length)))) lo (scan + length) (scan + length) 0 pos length)
        as (scan1 & pos1 & length1 & os & Es & Hs1 & Hp1 & Hl1 & Hsl1 & Hprog); try lia.
      rewrite Es; cbn [bind].
      destruct (negb (length1 =? os) || (scan1 =? len nbuf)) eqn:Eb.
      + destruct (extend_ok lastscan lastpos scan1 pos1) as (lenf & lenb & Ee & Hlf & Hlb & Hfb & Hbp & Hlpf & Hb0); try lia.
        rewrite Ee; cbn [bind].
        destruct (IH scan1 pos1 length1 (scan1 - lenb) (pos1 - lenb) (pos1 - scan1)) as (rest & Er & Ht & _); try lia.
        rewrite Er; cbn [bind].
        eexists; split; [reflexivity|]. split; [|reflexivity].
        cbn [tiles addNewStart addLength copyEnd addOldStart]. repeat split; try lia.
        replace (scan1 - lenb + offset) with ((scan1 - lenb) + offset) by lia. exact Ht.
      + assert (scan1 < len nbuf) by lia.
        destruct (IH scan1 pos1 length1 lastscan lastpos lo) as (rest & Er & Ht & Hh); try lia.
        exists rest; repeat split; assumption.
    - exists []; split; [reflexivity|]. split; [|exact I]. cbn [tiles]. lia.
  Qed.

  Lemma analyze_block_ok :
    exists ms, analyze_block search obuf nbuf offset = Ok ms /\
               tiles (len obuf) offset (len nbuf + offset) ms /\
               match ms with m :: _ => addOldStart m = 0 | [] => True end.
  Proof.
    unfold analyze_block.
    pose proof (len_nonneg _ obuf) as Ho. pose proof (len_nonneg _ nbuf) as Hn.
    destruct (outer_loop_ok (S (S (length nbuf))) 0 0 0 0 0 0) as (ms & E & Ht & Hh); try (unfold len in *; lia).
    exists ms. replace (0 + offset) with offset in Ht by lia. repeat split; assumption.
  Qed.
End Block.

(** * block geometry and the block loop *)

Lemma block_geometry_ok : forall fixed bsz nbuflen p,
  0 < bsz -> 0 < nbuflen -> 1 <= p -> (fixed = true \/ p <= nbuflen) ->
  exists bs nb, block_geometry fixed bsz nbuflen p = Ok (bs, nb) /\
                0 < bs /\ 0 < nb /\ bs * (nb - 1) < nbuflen <= bs * nb.
Proof.
  intros fixed bsz n p Hb Hn Hp Hfix. unfold block_geometry.
  destruct (bsz =? 0) eqn:E0; [lia|].
  assert (Hgeo : forall bs, 0 < bs -> 0 < (n + bs - 1) / bs /\ bs * ((n + bs - 1) / bs - 1) < n <= bs * ((n + bs - 1) / bs)).
  { intros bs Hbs. pose proof (Z.div_mod (n + bs - 1) bs ltac:(lia)) as Hd.
    pose proof (Z.mod_pos_bound (n + bs - 1) bs Hbs) as Hm.
    set (q := (n + bs - 1) / bs) in *. set (r := (n + bs - 1) mod bs) in *.
    assert (0 < q) by nia. split; [assumption|]. nia. }
  destruct ((n + bsz - 1) / bsz <? p) eqn:E1.
  - cbv zeta.
    set (bs1 := if fixed && (n / p =? 0) then 1 else n / p).
    assert (Hbs1 : 0 < bs1).
    { subst bs1. pose proof (Z.div_pos n p ltac:(lia) ltac:(lia)).
      destruct fixed; cbn [andb].
      - destruct (n / p =? 0) eqn:E2; lia.
      - destruct Hfix as [Hfix|Hfix]; [discriminate|].
        assert (1 <= n / p) by (apply Z.div_le_lower_bound; lia). lia. }
    destruct (bs1 =? 0) eqn:E3; [lia|].
    exists bs1, ((n + bs1 - 1) / bs1). split; [reflexivity|].
    destruct (Hgeo bs1 Hbs1) as [? ?]. repeat split; lia.
  - exists bsz, ((n + bsz - 1) / bsz). split; [reflexivity|].
    destruct (Hgeo bsz Hb) as [? ?]. repeat split; lia.
Qed.

Section Blocks.
  Variable search : N -> list byte -> Z * Z.
  Variables obuf nbuf : list byte.
  Hypothesis Hrange : forall bi, search_in_range (len obuf) (search bi).

  Lemma blocks_loop_ok : forall n bi bs nb,
    0 < bs -> bs * (nb - 1) < len nbuf <= bs * nb -> 0 <= bi -> bi + Z.of_nat n = nb ->
    exists ms, blocks_loop search n bi bs nb obuf nbuf = Ok ms /\
               tiles (len obuf) (Z.min (bs * bi) (len nbuf)) (len nbuf) ms /\
               (n <> O -> match ms with m :: _ => addOldStart m = 0 | [] => False end).
  Proof.
    induction n as [|n IH]; intros bi bs nb Hbs Hgeo Hbi Hn; cbn [blocks_loop].
    - exists []; split; [reflexivity|]. split; [cbn [tiles]; nia|congruence].
    - cbv zeta.
      set (boundary := bs * bi).
      set (real := if bi =? nb - 1 then len nbuf - boundary else bs).
      assert (Hb : 0 <= boundary /\ boundary < len nbuf) by (subst boundary; nia).
      assert (Hr : 0 < real /\ boundary + real <= len nbuf /\ boundary + real = Z.min (bs * (bi + 1)) (len nbuf)).
      { subst real boundary. destruct (bi =? nb - 1) eqn:E; nia. }
      rewrite slicez_ok by lia. cbn [bind].
      set (blk := firstn (Z.to_nat (boundary + real - boundary)) (skipn (Z.to_nat boundary) nbuf)).
      assert (Hlen : len blk = real).
      { subst blk. rewrite len_slice; lia. }
      destruct (analyze_block_ok (search (Z.to_N bi)) obuf blk boundary (Hrange _)) as (ms & Ea & Ht & Hh).
      rewrite Ea; cbn [bind].
      destruct (IH (bi + 1) bs nb) as (rest & Er & Htr & _); try lia.
      rewrite Er; cbn [bind].
      exists (ms ++ rest). split; [reflexivity|]. split.
      + eapply tiles_app.
        * fold boundary. rewrite (Z.min_l boundary (len nbuf)) by lia. exact Ht.
        * rewrite Hlen. replace (real + boundary) with (Z.min (bs * (bi + 1)) (len nbuf)) by lia. exact Htr.
      + intros _. destruct ms as [|m r].
        * cbn [tiles] in Ht. lia.
        * cbn [app]. exact Hh.
  Qed.
End Blocks.
