(** Model of bsdiff/diff.go: [DiffContext.Do] = normalisation of [partitions], block geometry
    (incl. the [nbuflen / partitions] division), [analyzeBlock] (scan / oldscore loop, forward
    and backward extension, overlap adjustment) run block after block, the collector
    (= concatenation of the blocks' matches in block order) and [writeMessages].

    The suffix-array search ([psa.search], bsdiff/psa.go + math.go) is a section variable
    [search : N -> list byte -> Z * Z] (block index, suffix of the block being scanned) of
    which the theorems assume range facts only; the block index is ignored by the code (it
    lets the correspondence plug in tabulated answers).  Go's [int] is [Z]; every index
    expression, slice expression and division that can panic in Go is an explicit [Panic].
    The constant [blockSize := 128 * 1024] is the parameter [bsz].

    [fixed = false] is the code before the two repairs (division by a zero block size when
    0 < len(new) < partitions; the suffix sorter run on an empty old file), [fixed = true]
    the code after them.  Definitions only; proofs are in ScanProofs.v. *)
From Wharf Require Import Base.Prelude.
Local Open Scope Z_scope.

Inductive res (A : Type) : Type :=
| Ok (a : A)
| Panic (site : N)   (* 1 index out of range, 2 slice bounds / negative count, 3 integer divide by zero, 4 suffix sorter on empty input *)
| OutOfFuel.
Arguments Ok {A} a.
Arguments Panic {A} site.
Arguments OutOfFuel {A}.

Definition bind {A B} (r : res A) (f : A -> res B) : res B :=
  match r with
  | Ok a => f a
  | Panic s => Panic s
  | OutOfFuel => OutOfFuel
  end.
Notation "'do' x <- e ; f" := (bind e (fun x => f)) (at level 200, x pattern, e at level 100, f at level 200, right associativity).

Definition len {A} (l : list A) : Z := Z.of_nat (length l).

(** [l[i]] *)
Definition getz (l : list byte) (i : Z) : res byte :=
  if i <? 0 then Panic 1
  else match nth_error l (Z.to_nat i) with
       | Some b => Ok b
       | None => Panic 1
       end.

(** [l[a:b]] *)
Definition slicez (l : list byte) (a b : Z) : res (list byte) :=
  if (0 <=? a) && (a <=? b) && (b <=? len l)
  then Ok (firstn (Z.to_nat (b - a)) (skipn (Z.to_nat a) l))
  else Panic 2.

(** byte arithmetic of [nbuf[..] - obuf[..]] and [p[i] += b[..]] *)
Definition sub_byte (n o : byte) : byte := ((n + 256 - o mod 256) mod 256)%N.
Definition add_byte (a o : byte) : byte := ((a + o) mod 256)%N.

Record Match := mkMatch { addOldStart : Z; addNewStart : Z; addLength : Z; copyEnd : Z }.

(** control message: (add, copy, seek, eof) *)
Definition ctrl := (list byte * list byte * Z * bool)%type.
Definition c_add (c : ctrl) : list byte := let '(a, _, _, _) := c in a.
Definition c_copy (c : ctrl) : list byte := let '(_, b, _, _) := c in b.
Definition c_seek (c : ctrl) : Z := let '(_, _, s, _) := c in s.
Definition c_eof (c : ctrl) : bool := let '(_, _, _, e) := c in e.
Definition ctrl_eof : ctrl := ([], [], 0, true).

Section Block.
  Variable search : list byte -> Z * Z.
  Variables obuf nbuf : list byte.
  Variable offset : Z.

  (** [for ; scsc < scan+length; scsc++ { if scsc+lastoffset < obuflen && obuf[scsc+lastoffset] == nbuf[scsc] { oldscore++ } }],
      [n] = number of iterations *)
  Fixpoint score_loop (n : nat) (lastoffset scsc oldscore : Z) : res Z :=
    match n with
    | O => Ok oldscore
    | S n' =>
        if scsc + lastoffset <? len obuf then
          do a <- getz obuf (scsc + lastoffset);
          do b <- getz nbuf scsc;
          score_loop n' lastoffset (scsc + 1) (if (a =? b)%N then oldscore + 1 else oldscore)
        else score_loop n' lastoffset (scsc + 1) oldscore
    end.

  (** [for scsc := scan; scan < nbuflen; scan++ { pos, length = psa.search(nbuf[scan:]) ... }];
      result: scan, pos, length, oldscore at loop exit *)
  Fixpoint scan_loop (fuel : nat) (lastoffset scan scsc oldscore pos length : Z) : res (Z * Z * Z * Z) :=
    match fuel with
    | O => OutOfFuel
    | S f =>
        if scan <? len nbuf then
          let '(pos', length') := search (skipn (Z.to_nat scan) nbuf) in
          do oldscore1 <- score_loop (Z.to_nat (scan + length' - scsc)) lastoffset scsc oldscore;
          let scsc1 := Z.max scsc (scan + length') in
          if ((length' =? oldscore1) && negb (length' =? 0)) || (length' >? oldscore1 + 8)
          then Ok (scan, pos', length', oldscore1)
          else
            do oldscore2 <-
               (if scan + lastoffset <? len obuf then
                  do a <- getz obuf (scan + lastoffset);
                  do b <- getz nbuf scan;
                  Ok (if (a =? b)%N then oldscore1 - 1 else oldscore1)
                else Ok oldscore1);
            scan_loop f lastoffset (scan + 1) scsc1 oldscore2 pos' length'
        else Ok (scan, pos, length, oldscore)
    end.

  (** [for i := 0; lastscan+i < scan && lastpos+i < obuflen; { if obuf[lastpos+i] == nbuf[lastscan+i] { s++ }; i++;
        if s*2-i > Sf*2-lenf { Sf = s; lenf = i } }] *)
  Fixpoint lenf_loop (n : nat) (lastscan lastpos scan i s Sf lenf : Z) : res Z :=
    match n with
    | O => Ok lenf
    | S n' =>
        if (lastscan + i <? scan) && (lastpos + i <? len obuf) then
          do a <- getz obuf (lastpos + i);
          do b <- getz nbuf (lastscan + i);
          let s' := if (a =? b)%N then s + 1 else s in
          let i' := i + 1 in
          if s' * 2 - i' >? Sf * 2 - lenf
          then lenf_loop n' lastscan lastpos scan i' s' s' i'
          else lenf_loop n' lastscan lastpos scan i' s' Sf lenf
        else Ok lenf
    end.

  (** [for i := 1; scan >= lastscan+i && pos >= i; i++ { if obuf[pos-i] == nbuf[scan-i] { s++ };
        if s*2-i > Sb*2-lenb { Sb = s; lenb = i } }] *)
  Fixpoint lenb_loop (n : nat) (lastscan scan pos i s Sb lenb : Z) : res Z :=
    match n with
    | O => Ok lenb
    | S n' =>
        if (scan >=? lastscan + i) && (pos >=? i) then
          do a <- getz obuf (pos - i);
          do b <- getz nbuf (scan - i);
          let s' := if (a =? b)%N then s + 1 else s in
          if s' * 2 - i >? Sb * 2 - lenb
          then lenb_loop n' lastscan scan pos (i + 1) s' s' i
          else lenb_loop n' lastscan scan pos (i + 1) s' Sb lenb
        else Ok lenb
    end.

  (** [for i := 0; i < overlap; i++ { if nbuf[lastscan+lenf-overlap+i] == obuf[lastpos+lenf-overlap+i] { s++ };
        if nbuf[scan-lenb+i] == obuf[pos-lenb+i] { s-- }; if s > Ss { Ss = s; lens = i+1 } }] *)
  Fixpoint overlap_loop (n : nat) (lastscan lastpos scan pos lenf lenb overlap i s Ss lens : Z) : res Z :=
    match n with
    | O => Ok lens
    | S n' =>
        do b1 <- getz nbuf (lastscan + lenf - overlap + i);
        do a1 <- getz obuf (lastpos + lenf - overlap + i);
        let s1 := if (b1 =? a1)%N then s + 1 else s in
        do b2 <- getz nbuf (scan - lenb + i);
        do a2 <- getz obuf (pos - lenb + i);
        let s2 := if (b2 =? a2)%N then s1 - 1 else s1 in
        if s2 >? Ss
        then overlap_loop n' lastscan lastpos scan pos lenf lenb overlap (i + 1) s2 s2 (i + 1)
        else overlap_loop n' lastscan lastpos scan pos lenf lenb overlap (i + 1) s2 Ss lens
    end.

  (** one pass of the part after the scan loop: forward / backward extension and overlap *)
  Definition extend (lastscan lastpos scan pos : Z) : res (Z * Z) :=
    do lenf <- lenf_loop (Z.to_nat (scan - lastscan)) lastscan lastpos scan 0 0 0 0;
    do lenb <- (if scan <? len nbuf
                then lenb_loop (Z.to_nat (scan - lastscan)) lastscan scan pos 1 0 0 0
                else Ok 0);
    if lastscan + lenf >? scan - lenb then
      let overlap := (lastscan + lenf) - (scan - lenb) in
      do lens <- overlap_loop (Z.to_nat overlap) lastscan lastpos scan pos lenf lenb overlap 0 0 0 0;
      Ok (lenf + lens - overlap, lenb - lens)
    else Ok (lenf, lenb).

  (** [for scan < nbuflen { ... }]; the matches sent to [blockMatches], in order *)
  Fixpoint outer_loop (fuel : nat) (scan pos length lastscan lastpos lastoffset : Z) : res (list Match) :=
    match fuel with
    | O => OutOfFuel
    | S f =>
        if scan <? len nbuf then
          let scan0 := scan + length in
          do r <- scan_loop (S (Z.to_nat (len nbuf - scan0))) lastoffset scan0 scan0 0 pos length;
          let '(scan1, pos1, length1, oldscore) := r in
          if negb (length1 =? oldscore) || (scan1 =? len nbuf) then
            do fb <- extend lastscan lastpos scan1 pos1;
            let '(lenf, lenb) := fb in
            let m := mkMatch lastpos (lastscan + offset) lenf (scan1 - lenb + offset) in
            do rest <- outer_loop f scan1 pos1 length1 (scan1 - lenb) (pos1 - lenb) (pos1 - scan1);
            Ok (m :: rest)
          else outer_loop f scan1 pos1 length1 lastscan lastpos lastoffset
        else Ok []
    end.

  Definition analyze_block : res (list Match) := outer_loop (S (S (length nbuf))) 0 0 0 0 0 0.
End Block.

Section Do.
  Variable fixed : bool.
  Variable bsz : Z.                             (* 128 KiB in Go *)
  Variable search : N -> list byte -> Z * Z.

  (** [if partitions == 0 || partitions >= len(obuf)-1 { partitions = 1 }] *)
  Definition norm_partitions (partitions obuflen : Z) : Z :=
    if (partitions =? 0) || (partitions >=? obuflen - 1) then 1 else partitions.

  (** blockSize, numBlocks (all operands are non-negative: Go's truncated division is [Z.div]) *)
  Definition block_geometry (nbuflen partitions : Z) : res (Z * Z) :=
    if bsz =? 0 then Panic 3 else
    let numBlocks := (nbuflen + bsz - 1) / bsz in
    if numBlocks <? partitions then
      let bs0 := nbuflen / partitions in
      let bs1 := if fixed && (bs0 =? 0) then 1 else bs0 in
      if bs1 =? 0 then Panic 3 else Ok (bs1, (nbuflen + bs1 - 1) / bs1)
    else Ok (bsz, numBlocks).

  (** the workers + collector: block [bi] is [nbuf[boundary:boundary+realBlockSize]], results in block order *)
  Fixpoint blocks_loop (n : nat) (bi blockSize numBlocks : Z) (obuf nbuf : list byte) : res (list Match) :=
    match n with
    | O => Ok []
    | S n' =>
        let boundary := blockSize * bi in
        let real := if bi =? numBlocks - 1 then len nbuf - boundary else blockSize in
        do blk <- slicez nbuf boundary (boundary + real);
        do ms <- analyze_block (search (Z.to_N bi)) obuf blk boundary;
        do rest <- blocks_loop n' (bi + 1) blockSize numBlocks obuf nbuf;
        Ok (ms ++ rest)
    end.

  (** [ctx.db]: [nbuf[addNewStart+i] - obuf[addOldStart+i]] for [i < addLength] *)
  Fixpoint add_loop (n : nat) (obuf nbuf : list byte) (aos ans i : Z) : res (list byte) :=
    match n with
    | O => Ok []
    | S n' =>
        do b <- getz nbuf (ans + i);
        do a <- getz obuf (aos + i);
        do rest <- add_loop n' obuf nbuf aos ans (i + 1);
        Ok (sub_byte b a :: rest)
    end.

  Definition match_payload (obuf nbuf : list byte) (m : Match) : res (list byte * list byte) :=
    if addLength m <? 0 then Panic 2 else
    do a <- add_loop (Z.to_nat (addLength m)) obuf nbuf (addOldStart m) (addNewStart m) 0;
    do c <- slicez nbuf (addNewStart m + addLength m) (copyEnd m);
    Ok (a, c).

  (** [writeMessages]: the control of a match is written when the next match arrives
      (seek = next add start - previous add end), the last one with seek 0, then eof *)
  Fixpoint write_loop (obuf nbuf : list byte) (prev : option (Match * list byte * list byte)) (ms : list Match) : res (list ctrl) :=
    match ms with
    | [] =>
        let last : ctrl := match prev with
                           | Some (_, a, c) => (a, c, 0, false)
                           | None => ([], [], 0, false)
                           end in
        Ok [last; ctrl_eof]
    | m :: r =>
        do ac <- match_payload obuf nbuf m;
        let '(a, c) := ac in
        match prev with
        | None => write_loop obuf nbuf (Some (m, a, c)) r
        | Some (pm, pa, pc) =>
            do rest <- write_loop obuf nbuf (Some (m, a, c)) r;
            Ok ((pa, pc, addOldStart m - (addOldStart pm + addLength pm), false) :: rest)
        end
    end.

  Definition bsdiff_do_gen (partitions : Z) (old new : list byte) : res (list ctrl) :=
    if len new =? 0 then Ok [ctrl_eof]
    else
      let p := norm_partitions partitions (len old) in
      if negb fixed && (len old =? 0) then Panic 4   (* NewPSA: gosaca.ComputeSuffixArray on an empty slice *)
      else
        do g <- block_geometry (len new) p;
        let '(blockSize, numBlocks) := g in
        do ms <- blocks_loop (Z.to_nat numBlocks) 0 blockSize numBlocks old new;
        write_loop old new None ms.
End Do.

(** the code as it is now (after the fix: commits) and as it was *)
Definition bsdiff_do := bsdiff_do_gen true.
Definition bsdiff_do_unfixed := bsdiff_do_gen false.
