(** [Apply] issuing its reads and seeks on any reader that simulates the plain in-memory one
    computes what Bsdiff/Patch.v defines; lrufile over simplelru is such a reader (LruProofs.v),
    so the patcher's output does not depend on the read cache's geometry. *)
From Coq Require Import ZifyBool ZifyNat ZifyN.
From Wharf Require Import Base.Prelude Bsdiff.Scan Bsdiff.ScanProofs Bsdiff.RoundtripProofs Bsdiff.Patch Bsdiff.Lru Bsdiff.LruProofs Bsdiff.PatchIO.
Local Open Scope Z_scope.

Lemma adder_length : forall a s, length (adder a s) = Nat.min (length a) (length s).
Proof. induction a as [|x a IH]; intros s; destruct s as [|y s]; cbn; try reflexivity. rewrite IH; reflexivity. Qed.

Lemma adder_app : forall a1 a2 s1 s2, length a1 = length s1 ->
  adder (a1 ++ a2) (s1 ++ s2) = adder a1 s1 ++ adder a2 s2.
Proof.
  induction a1 as [|x a1 IH]; intros a2 s1 s2 H; destruct s1 as [|y s1]; cbn in *; try discriminate; try reflexivity.
  f_equal. apply IH. lia.
Qed.

Section Sim.
  Variable R : Type.
  Variable step : R -> lop -> option (lresult * R).
  Variable bufSize : Z.
  Hypothesis Hbuf : 0 < bufSize.
  Variable file : list byte.
  (** [Rel r cur]: reader state [r] stands for the plain cursor [cur] *)
  Variable Rel : R -> Z -> Prop.
  Hypothesis Hcur : forall r cur, Rel r cur -> 0 <= cur <= len file.
  Hypothesis Hsim : forall r cur op, Rel r cur ->
    exists res r' cur', step r op = Some (res, r') /\ plain_step file cur op = (res, cur') /\ Rel r' cur'.

  Lemma copy_loop_spec : forall fuel r cur add acc,
    Rel r cur -> (length add < fuel)%nat ->
    (cur + len add <= len file ->
       exists r', copy_loop R step bufSize fuel r add acc
                  = Some (Some (acc ++ adder add (firstn (length add) (skipn (Z.to_nat cur) file))), r') /\ Rel r' (cur + len add)) /\
    (cur + len add > len file ->
       exists r' out, copy_loop R step bufSize fuel r add acc = Some (Some out, r') /\ len out = len acc + (len file - cur)).
  Proof.
    induction fuel as [|f IH]; intros r cur add acc HR Hf; [lia|].
    pose proof (Hcur r cur HR) as Hc.
    cbn [copy_loop]. destruct add as [|a0 add'].
    - split.
      + intros _. exists r. cbn [length firstn adder]. rewrite app_nil_r. unfold len; cbn [length].
        replace (cur + Z.of_nat 0) with cur by lia. split; [reflexivity|assumption].
      + unfold len in *; cbn [length]. lia.
    - set (add := a0 :: add') in *.
      assert (Hla : 1 <= len add) by (subst add; unfold len; cbn [length]; lia).
      set (n := Z.min bufSize (len add)).
      assert (Hn : 1 <= n <= len add) by (subst n; lia).
      destruct (Hsim r cur (ORead n) HR) as (res & r' & cur' & Es & Ep & HR').
      rewrite Es. cbn [plain_step] in Ep.
      destruct (n <=? 0) eqn:En; [lia|].
      inversion Ep as [[Hres Hcur']]. clear Ep.
      remember (firstn (Z.to_nat n) (skipn (Z.to_nat cur) file)) as data eqn:Hdata.
      assert (Hld : len data = Z.min n (len file - cur)).
      { rewrite Hdata. rewrite len_firstn, skipn_length. unfold len in *. lia. }
      destruct (cur + n >? len file) eqn:Eover.
      + (* short read with io.EOF *)
        cbn [N.eqb Pos.eqb]. split; [intros; lia|]. intros _.
        exists r', (acc ++ data). split; [reflexivity|]. rewrite len_app. lia.
      + (* full read *)
        cbn [N.eqb].
        assert (Hdl : length data = Z.to_nat n) by (clear - Hld Eover Hn Hc; unfold len in *; lia).
        destruct data as [|d0 data']; [cbn in Hdl; lia|].
        remember (d0 :: data') as dd eqn:Hdd. clear Hdd d0 data'. rename dd into data.
        assert (HR2 : Rel r' (cur + n)) by (replace (cur + n) with cur' by lia; assumption).
        assert (Hadd' : len (skipn (length data) add) = len add - n) by (rewrite len_skipn; unfold len in *; lia).
        destruct (IH r' (cur + n) (skipn (length data) add) (acc ++ adder (firstn (length data) add) data) HR2) as [IH1 IH2].
        { rewrite skipn_length. unfold len in *. lia. }
        split.
        * intros Hfit. destruct IH1 as (r2 & E2 & HR3); [lia|].
          exists r2. split; [|replace (cur + len add) with (cur + n + len (skipn (length data) add)) by lia; exact HR3].
          rewrite E2. f_equal. f_equal. rewrite <- app_assoc. f_equal.
          assert (Hsplit : firstn (length add) (skipn (Z.to_nat cur) file)
                           = data ++ firstn (length (skipn (length data) add)) (skipn (Z.to_nat (cur + n)) file)).
          { rewrite skipn_length, Hdl.
            replace (Z.to_nat (cur + n)) with (Z.to_nat cur + Z.to_nat n)%nat by lia.
            rewrite <- skipn_add. rewrite Hdata. rewrite firstn_add. f_equal. unfold len in *. lia. }
          rewrite Hsplit.
          rewrite <- (adder_app (firstn (length data) add) (skipn (length data) add) data) by (rewrite firstn_length; unfold len in *; lia).
          rewrite firstn_skipn. reflexivity.
        * intros Hover. destruct IH2 as (r2 & out & E2 & Hlo); [lia|].
          exists r2, out. split; [exact E2|]. rewrite Hlo, len_app.
          unfold len at 2. rewrite adder_length, firstn_length. unfold len in *. lia.
  Qed.

  Lemma apply_ctrl_io_spec : forall r cur off c, Rel r cur ->
    match apply_ctrl file off c with
    | Some res => exists r' cur', apply_ctrl_io R step bufSize r off c = Some (Some res, r') /\ Rel r' cur'
    | None => exists r', apply_ctrl_io R step bufSize r off c = Some (None, r')
    end.
  Proof.
    intros r cur off c HR. unfold apply_ctrl_io, apply_ctrl.
    destruct (Hsim r cur (OSeek off 0) HR) as (res & r1 & cur1 & Es & Ep & HR1).
    rewrite Es. cbn [plain_step seek_target Z.eqb] in Ep.
    destruct ((off <? 0) || (off >? len file)) eqn:Eoff.
    - inversion Ep; subst. cbn [N.eqb negb]. eexists; reflexivity.
    - inversion Ep; subst res cur1. cbn [N.eqb negb].
      destruct (c_add c) as [|a0 add'] eqn:Eadd.
      + cbn [length firstn adder app Nat.ltb Nat.leb]. unfold len; cbn [length].
        replace (off + Z.of_nat 0 + c_seek c) with (off + c_seek c) by lia.
        eexists _, _; split; [reflexivity|eassumption].
      + set (add := a0 :: add') in *.
        destruct (copy_loop_spec (S (length add)) r1 off add [] HR1 ltac:(lia)) as [S1 S2].
        set (src := firstn (length add) (skipn (Z.to_nat off) file)).
        assert (Hsrc : len src = Z.min (len add) (len file - off)).
        { subst src. rewrite len_firstn, skipn_length. unfold len in *. lia. }
        destruct (Z_le_gt_dec (off + len add) (len file)) as [Hfit|Hover].
        * destruct (S1 Hfit) as (r2 & E2 & HR2). rewrite E2. cbn [app].
          assert (Hlen : len (adder add src) = len add).
          { clear - Hsrc Hfit. unfold len in *. rewrite adder_length. lia. }
          fold src. rewrite Hlen, Z.eqb_refl.
          destruct (length src <? length add)%nat eqn:El; [unfold len in *; lia|].
          eexists _, _; split; [reflexivity|eassumption].
        * destruct (S2 Hover) as (r2 & out & E2 & Hlo). rewrite E2.
          unfold len in Hlo at 2. cbn [length] in Hlo.
          destruct (len out =? len add) eqn:El; [lia|].
          destruct (length src <? length add)%nat eqn:El2; [|unfold len in *; lia].
          eexists; reflexivity.
  Qed.

  Lemma apply_series_io_spec : forall cs r cur off, Rel r cur ->
    apply_series_io R step bufSize r off cs = Some (apply_series file off cs).
  Proof.
    induction cs as [|c rest IH]; intros r cur off HR; cbn [apply_series_io apply_series]; [reflexivity|].
    destruct (c_eof c); [reflexivity|].
    pose proof (apply_ctrl_io_spec r cur off c HR) as Hc.
    destruct (apply_ctrl file off c) as [[o off']|].
    - destruct Hc as (r' & cur' & E & HR'). rewrite E. rewrite (IH r' cur' off' HR').
      destruct (apply_series file off' rest) as [[o2 offf]|]; reflexivity.
    - destruct Hc as (r' & E). rewrite E. reflexivity.
  Qed.

  Lemma bspatch_io_spec : forall cs r cur newSize, Rel r cur ->
    bspatch_io R step bufSize r cs newSize = Some (bspatch file cs newSize).
  Proof.
    intros cs r cur newSize HR. unfold bspatch_io, bspatch.
    rewrite (apply_series_io_spec cs r cur 0 HR).
    destruct (apply_series file 0 cs) as [[o off]|]; [|reflexivity].
    destruct (len o =? newSize); reflexivity.
  Qed.
End Sim.

(** * lrufile over simplelru is a reader that simulates the plain one *)
Lemma bspatch_lru_spec : forall (chunkSize : Z) (entries : nat) (bufSize : Z) (old : list byte) (cs : list ctrl) (newSize : Z),
  0 < chunkSize -> (0 < entries)%nat -> 0 < bufSize ->
  bspatch_lru chunkSize entries bufSize old cs newSize = Some (bspatch old cs newSize).
Proof.
  intros chunkSize entries bufSize old cs newSize Hcs Hen Hbuf. unfold bspatch_lru.
  set (Rel := fun (s : lf lru_list) (cur : Z) =>
                Inv lru_list ll_wf ll_look (@length (Z * Z)) entries chunkSize old s /\
                slots_ok lru_list chunkSize s /\ lf_offset s = cur).
  apply (bspatch_io_spec (lf lru_list) (lru_step chunkSize entries old) bufSize Hbuf old Rel) with (cur := 0).
  - intros r cur (HI & _ & Hoff). subst cur. exact (inv_off _ _ _ _ _ _ _ _ HI).
  - intros r cur op (HI & Hsl & Hoff).
    destruct (lf_step_ok lru_list ll_get (ll_add entries) ll_wf ll_look (@length (Z * Z)) entries
                ll_get_contract (fun c k v => ll_add_contract entries c k v Hen) ll_pigeon chunkSize Hcs old r op HI Hsl)
      as (res & s' & E & HI' & Hsl' & Hp).
    exists res, s', (lf_offset s'). unfold lru_step. rewrite E. subst cur.
    split; [reflexivity|]. split; [exact Hp|]. unfold Rel. split; [assumption|]. split; [assumption|reflexivity].
  - split; [|split; [|reflexivity]].
    + apply (lf_init_inv lru_list ll_get (ll_add entries)).
      * apply ll_get_contract.
      * intros c k v. apply ll_add_contract. exact Hen.
      * apply ll_pigeon.
      * constructor.
      * reflexivity.
      * cbn; lia.
      * apply repeat_length.
    + intros slot Hin. cbn [lf_init lf_storage] in Hin. apply repeat_spec in Hin. subst. unfold len. rewrite repeat_length. lia.
Qed.
