(** The executable instance compared with the code on every run ([run_bsd] of Exec/C12.v: the scan
    driven by the naive partitioned suffix array) satisfies the hypotheses of the round-trip
    theorem, for every input. *)
From Wharf Require Import Base.Prelude Bsdiff.Scan Bsdiff.ScanProofs Bsdiff.Patch Bsdiff.RoundtripProofs
  Bsdiff.Suffix Bsdiff.SuffixProofs Exec.C12.
Local Open Scope Z_scope.

Lemma run_bsd_roundtrip_lemma : forall (partitions : Z) (old new : list byte),
  0 <= partitions -> bytes_ok old -> bytes_ok new ->
  exists cs, run_bsd partitions old new = Ok (cs ++ [ctrl_eof]) /\
             Forall (fun c => c_eof c = false) cs /\
             bspatch old (cs ++ [ctrl_eof]) (len new) = Some new.
Proof.
  intros partitions old new Hp Ho Hn. unfold run_bsd.
  apply bsdiff_roundtrip_lemma; try assumption.
  - unfold GO_BLOCK; lia.
  - intros bi. apply psa_search_in_range.
Qed.
