(** Model of bsdiff/patch.go + adder_reader.go: [IndividualPatchContext.Apply] with the absolute
    [OldOffset], [PatchContext.Patch] (read messages until eof, check the announced size), and
    the resumed application from a saved old-offset.  The old file is read through a plain
    reader here; [Lru.v] models the read cache the real patcher puts in between and
    LruProofs.v shows it transparent.  [None] = an error is returned.  Definitions only. *)
From Wharf Require Import Base.Prelude Bsdiff.Scan.
Local Open Scope Z_scope.

(** AdderReader: [p[i] += add[i]] over the bytes read from old *)
Fixpoint adder (add src : list byte) : list byte :=
  match add, src with
  | a :: add', o :: src' => add_byte a o :: adder add' src'
  | _, _ => []
  end.

(** [Apply]: Seek(OldOffset) (fails outside [0,size]); copy len(add) bytes of old + add (fails
    when old is exhausted first); write copy; OldOffset += len(add) + seek *)
Definition apply_ctrl (old : list byte) (off : Z) (c : ctrl) : option (list byte * Z) :=
  if (off <? 0) || (off >? len old) then None
  else
    let add := c_add c in
    let src := firstn (length add) (skipn (Z.to_nat off) old) in
    if (length src <? length add)%nat then None
    else Some (adder add src ++ c_copy c, off + len add + c_seek c).

(** the loop of [Patch] from old-offset [off]: output and final offset; the series must reach an eof message *)
Fixpoint apply_series (old : list byte) (off : Z) (cs : list ctrl) : option (list byte * Z) :=
  match cs with
  | [] => None
  | c :: r =>
      if c_eof c then Some ([], off)
      else match apply_ctrl old off c with
           | None => None
           | Some (o, off') =>
               match apply_series old off' r with
               | None => None
               | Some (o2, offf) => Some (o ++ o2, offf)
               end
           end
  end.

Definition bspatch (old : list byte) (cs : list ctrl) (newSize : Z) : option (list byte) :=
  match apply_series old 0 cs with
  | Some (o, _) => if len o =? newSize then Some o else None
  | None => None
  end.

(** apply at most [k] controls (stop at eof): output, saved old offset, remaining series *)
Fixpoint apply_prefix (old : list byte) (off : Z) (k : nat) (cs : list ctrl) : option (list byte * Z * list ctrl) :=
  match k, cs with
  | O, _ => Some ([], off, cs)
  | S _, [] => None
  | S k', c :: r =>
      if c_eof c then Some ([], off, cs)
      else match apply_ctrl old off c with
           | None => None
           | Some (o, off') =>
               match apply_prefix old off' k' r with
               | None => None
               | Some (o2, offf, rest) => Some (o ++ o2, offf, rest)
               end
           end
  end.

(** stop after [k] controls, keep only [OldOffset], continue in a new context *)
Definition resume (old : list byte) (k : nat) (cs : list ctrl) : option (list byte * Z * list byte) :=
  match apply_prefix old 0 k cs with
  | None => None
  | Some (o1, saved, rest) =>
      match apply_series old saved rest with
      | None => None
      | Some (o2, _) => Some (o1, saved, o2)
      end
  end.
