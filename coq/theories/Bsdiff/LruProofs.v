(** Proofs about Bsdiff/Lru.v: for any bounded cache that meets the contract below (whatever
    its eviction policy), any chunk size > 0, any stale slot contents and any sequence of reads
    and seeks, [lruFile] returns what a plain in-memory reader returns; in particular the
    "could not find room in lrufile cache" error is unreachable.  simplelru (as the recency
    list [lru_list]) meets the contract. *)
From Coq Require Import ZifyBool ZifyNat ZifyN.
From Wharf Require Import Base.Prelude Bsdiff.Scan Bsdiff.ScanProofs Bsdiff.RoundtripProofs Bsdiff.Lru.
Local Open Scope Z_scope.
Ltac Zify.zify_post_hook ::= Z.div_mod_to_equations.

Arguments lf_offset {cache} _.
Arguments lf_storage {cache} _.
Arguments lf_allocs {cache} _.
Arguments lf_lru {cache} _.
Arguments lf_loads {cache} _.
Arguments mkLf {cache} _ _ _ _ _.

(** * list helpers *)
Lemma set_nth_length : forall A (l : list A) n x, length (set_nth n x l) = length l.
Proof. intros A l; induction l as [|y l IH]; intros n x; destruct n; cbn; try reflexivity. rewrite IH; reflexivity. Qed.

Lemma nth_set_nth_eq : forall A (l : list A) n x d, (n < length l)%nat -> nth n (set_nth n x l) d = x.
Proof. intros A l; induction l as [|y l IH]; intros n x d H; destruct n; cbn in *; try lia; try reflexivity. apply IH; lia. Qed.

Lemma nth_set_nth_neq : forall A (l : list A) n m x d, n <> m -> nth m (set_nth n x l) d = nth m l d.
Proof.
  intros A l; induction l as [|y l IH]; intros n m x d H; destruct n, m; cbn; try reflexivity; try congruence.
  apply IH; congruence.
Qed.

Lemma find_free_some : forall l k j, find_free l k = Some j -> (k <= j < k + length l)%nat /\ nth (j - k) l (-1) < 0.
Proof.
  induction l as [|v l IH]; intros k j H; cbn in H; [discriminate|].
  destruct (v <? 0) eqn:E.
  - inversion H; subst. cbn [length]. replace (j - j)%nat with O by lia. cbn. split; lia.
  - apply IH in H. destruct H as [H1 H2]. cbn [length]. split; [lia|].
    replace (j - k)%nat with (S (j - S k)) by lia. exact H2.
Qed.

Lemma find_free_none : forall l k, find_free l k = None -> forall j, (j < length l)%nat -> 0 <= nth j l (-1).
Proof.
  induction l as [|v l IH]; intros k H j Hj; cbn in *; [lia|].
  destruct (v <? 0) eqn:E; [discriminate|].
  destruct j; [lia|]. eapply IH; [eassumption|lia].
Qed.

(** more about [sl] *)
Lemma sl_sl : forall l a b c d, 0 <= a -> a <= b -> b <= len l -> 0 <= c -> c <= d -> d <= b - a ->
  sl (sl l a b) c d = sl l (a + c) (a + d).
Proof.
  intros l a b c d H1 H2 H3 H4 H5 H6. unfold sl.
  rewrite skipn_firstn_comm. rewrite firstn_firstn. rewrite skipn_add.
  f_equal; [lia|f_equal; lia].
Qed.

Lemma firstn_app_le : forall A (a b : list A) n, (n <= length a)%nat -> firstn n (a ++ b) = firstn n a.
Proof. intros A a b n H. rewrite firstn_app. replace (n - length a)%nat with O by lia. cbn. apply app_nil_r. Qed.

Lemma firstn_ge : forall A (l : list A) n, (length l <= n)%nat -> firstn n l = l.
Proof. intros. apply firstn_all2; assumption. Qed.

Lemma sl_firstn_prefix : forall (l : list byte) n a b, 0 <= a -> b <= Z.of_nat n -> sl (firstn n l) a b = sl l a b.
Proof.
  intros l n a b Ha Hb. unfold sl. rewrite skipn_firstn_comm, firstn_firstn. f_equal. lia.
Qed.

Section Transparent.
  Variable cache : Type.
  Variable cget : cache -> Z -> option Z * cache.
  Variable cadd : cache -> Z -> Z -> cache * option (Z * Z).
  (** the contract of the bounded cache: an abstract finite map [look] with at most [cap]
      entries ([card], sound for counting by [H_pigeon]); Get does not change the map; Add
      binds the key and evicts at most one other entry, which it reports - and none when the
      key was already bound *)
  Variable wf : cache -> Prop.
  Variable look : cache -> Z -> option Z.
  Variable card : cache -> nat.
  Variable cap : nat.
  Hypothesis H_get : forall c k, wf c ->
    fst (cget c k) = look c k /\ wf (snd (cget c k)) /\
    (forall k', look (snd (cget c k)) k' = look c k') /\ card (snd (cget c k)) = card c.
  Hypothesis H_add : forall c k v, wf c -> (card c <= cap)%nat ->
    wf (fst (cadd c k v)) /\ (card (fst (cadd c k v)) <= cap)%nat /\ look (fst (cadd c k v)) k = Some v /\
    (look c k <> None -> snd (cadd c k v) = None) /\
    match snd (cadd c k v) with
    | None => forall k', k' <> k -> look (fst (cadd c k v)) k' = look c k'
    | Some (k0, v0) => k0 <> k /\ look c k0 = Some v0 /\ look (fst (cadd c k v)) k0 = None /\
                       forall k', k' <> k -> k' <> k0 -> look (fst (cadd c k v)) k' = look c k'
    end.
  Hypothesis H_pigeon : forall c ks, wf c -> NoDup ks -> (forall k, In k ks -> look c k <> None) -> (length ks <= card c)%nat.

  Variable chunkSize : Z.
  Hypothesis Hcs : 0 < chunkSize.
  Variable file : list byte.

  Let size := len file.
  Definition chunkdata (k : Z) : list byte := sl file (k * chunkSize) (Z.min (k * chunkSize + chunkSize) size).
  Definition slot_ok (k : Z) (slot : list byte) : Prop :=
    len slot = chunkSize /\ firstn (length (chunkdata k)) slot = chunkdata k.

  Lemma len_chunkdata : forall k, 0 <= k -> k * chunkSize <= size ->
    len (chunkdata k) = Z.min (k * chunkSize + chunkSize) size - k * chunkSize.
  Proof. intros k H1 H2. unfold chunkdata. apply len_sl; unfold size in *; nia. Qed.

  Record Inv (s : lf cache) : Prop := mkInv {
    inv_wf : wf (lf_lru s);
    inv_card : (card (lf_lru s) <= cap)%nat;
    inv_len_a : length (lf_allocs s) = cap;
    inv_len_s : length (lf_storage s) = cap;
    inv_look : forall k v, look (lf_lru s) k = Some v ->
                 0 <= v < Z.of_nat cap /\ nth (Z.to_nat v) (lf_allocs s) (-1) = k /\ 0 <= k /\ k * chunkSize <= size /\
                 slot_ok k (nth (Z.to_nat v) (lf_storage s) []);
    inv_alloc : forall j, (j < cap)%nat -> 0 <= nth j (lf_allocs s) (-1) ->
                  look (lf_lru s) (nth j (lf_allocs s) (-1)) = Some (Z.of_nat j);
    inv_off : 0 <= lf_offset s <= size
  }.

  (** the slot read from the file holds the chunk *)
  Lemma fresh_slot_ok : forall ci old_slot, 0 <= ci -> ci * chunkSize <= size -> len old_slot = chunkSize ->
    let data := firstn (Z.to_nat chunkSize) (skipn (Z.to_nat (ci * chunkSize)) file) in
    slot_ok ci (data ++ skipn (length data) old_slot).
  Proof.
    intros ci old_slot H1 H2 H3 data.
    assert (Hd : data = chunkdata ci).
    { subst data. unfold chunkdata, sl.
      set (t := skipn (Z.to_nat (ci * chunkSize)) file).
      assert (Ht : len t = size - ci * chunkSize) by (subst t; rewrite len_skipn; unfold size, len in *; lia).
      destruct (Z.le_gt_cases (ci * chunkSize + chunkSize) size) as [Hle|Hgt].
      - f_equal. lia.
      - rewrite firstn_ge by (unfold len in Ht; lia).
        rewrite firstn_ge by (unfold len in Ht; lia). reflexivity. }
    rewrite Hd. split.
    - rewrite len_app, len_skipn.
      pose proof (len_chunkdata ci H1 H2) as Hl. unfold len in *. lia.
    - rewrite firstn_app_le by lia. apply firstn_all.
  Qed.

  Lemma getChunk_ok : forall s ci, Inv s -> 0 <= ci -> ci * chunkSize <= size ->
    (forall slot, In slot (lf_storage s) -> len slot = chunkSize) ->
    exists chunk s', getChunk cache cget cadd chunkSize file s ci = LOk (chunk, s') /\
                     Inv s' /\ lf_offset s' = lf_offset s /\ slot_ok ci chunk /\
                     (forall slot, In slot (lf_storage s') -> len slot = chunkSize).
  Proof.
    intros s ci HI Hci Hcis Hslots. destruct HI as [Iwf Icard Ila Ils Ilook Ialloc Ioff].
    unfold getChunk.
    destruct (H_get (lf_lru s) ci Iwf) as (Hg1 & Hg2 & Hg3 & Hg4).
    destruct (cget (lf_lru s) ci) as [r c'] eqn:Eg. cbn [fst snd] in *.
    destruct r as [v|].
    - (* hit *)
      symmetry in Hg1. destruct (Ilook ci v Hg1) as (Hv & Hav & _ & _ & Hslot).
      destruct ((v <? 0) || (v >=? len (lf_storage s))) eqn:E; [unfold len in E; lia|].
      eexists _, _; split; [reflexivity|].
      split; [|split; [reflexivity|split; [exact Hslot|exact Hslots]]].
      constructor; cbn [lf_lru lf_allocs lf_storage lf_offset]; try assumption; try lia.
      + intros k v0 Hk. rewrite Hg3 in Hk. apply Ilook; assumption.
      + intros j Hj Hjn. rewrite Hg3. apply Ialloc; assumption.
    - (* miss *)
      assert (Hmiss : look (lf_lru s) ci = None) by (symmetry; exact Hg1).
      destruct (H_add c' ci (-1) Hg2 ltac:(lia)) as (Ha1 & Ha2 & Ha3 & Ha4 & Ha5).
      destruct (cadd c' ci (-1)) as [c1 ev1] eqn:Ea. cbn [fst snd] in *.
      assert (HJ : exists allocs1, on_evict ev1 (lf_allocs s) = Some allocs1 /\ length allocs1 = cap /\
                (forall k v, k <> ci -> look c1 k = Some v ->
                    0 <= v < Z.of_nat cap /\ nth (Z.to_nat v) allocs1 (-1) = k /\ 0 <= k /\ k * chunkSize <= size /\
                    slot_ok k (nth (Z.to_nat v) (lf_storage s) [])) /\
                (forall j, (j < cap)%nat -> 0 <= nth j allocs1 (-1) ->
                    nth j allocs1 (-1) <> ci /\ look c1 (nth j allocs1 (-1)) = Some (Z.of_nat j))).
      { destruct ev1 as [[k0 v0]|].
        - destruct Ha5 as (Hk0 & Hl0 & Hn0 & Hoth). rewrite Hg3 in Hl0.
          destruct (Ilook k0 v0 Hl0) as (Hv0 & Hav0 & _ & _ & _).
          unfold on_evict. destruct ((v0 <? 0) || (v0 >=? len (lf_allocs s))) eqn:E; [unfold len in E; lia|].
          eexists; split; [reflexivity|]. split; [rewrite set_nth_length; assumption|]. split.
          + intros k v Hk Hlk. destruct (Z.eq_dec k k0) as [->|Hkk]; [congruence|].
            rewrite Hoth in Hlk by assumption. rewrite Hg3 in Hlk.
            destruct (Ilook k v Hlk) as (Hv & Hav & Hk1 & Hk2 & Hk3).
            assert (Z.to_nat v0 <> Z.to_nat v) by (intro Heq; assert (v0 = v) by lia; subst; congruence).
            rewrite nth_set_nth_neq by assumption. (split; [lia|split; [first [assumption|reflexivity]|split; [lia|split; assumption]]]).
          + intros j Hj Hjn. destruct (Nat.eq_dec (Z.to_nat v0) j) as [<-|Hne].
            * rewrite nth_set_nth_eq in Hjn by lia. lia.
            * rewrite nth_set_nth_neq in * by assumption.
              pose proof (Ialloc j Hj Hjn) as Hx.
              assert (nth j (lf_allocs s) (-1) <> ci) by (intro Heq; rewrite Heq in Hx; congruence).
              assert (nth j (lf_allocs s) (-1) <> k0) by (intro Heq; rewrite Heq in Hx; rewrite Hx in Hl0; inversion Hl0; lia).
              split; [assumption|]. rewrite Hoth by assumption. rewrite Hg3. assumption.
        - unfold on_evict. eexists; split; [reflexivity|]. split; [assumption|]. split.
          + intros k v Hk Hlk. rewrite Ha5 in Hlk by assumption. rewrite Hg3 in Hlk. apply Ilook; assumption.
          + intros j Hj Hjn. pose proof (Ialloc j Hj Hjn) as Hx.
            assert (nth j (lf_allocs s) (-1) <> ci) by (intro Heq; rewrite Heq in Hx; congruence).
            split; [assumption|]. rewrite Ha5 by assumption. rewrite Hg3. assumption. }
      destruct HJ as (allocs1 & Eev & Hla1 & J1 & J2). rewrite Eev.
      destruct (find_free allocs1 0) as [k|] eqn:Eff.
      2:{ (* the cache would hold cap + 1 keys *)
        exfalso.
        pose proof (find_free_none _ _ Eff) as Hall. rewrite Hla1 in Hall.
        assert (Hnd : NoDup (ci :: allocs1)).
        { constructor.
          - intro Hin. destruct (In_nth _ _ (-1) Hin) as (j & Hj & Hnj). rewrite Hla1 in Hj.
            destruct (J2 j Hj (Hall j Hj)) as [Hne _]. congruence.
          - apply (NoDup_nth allocs1 (-1)). intros i j Hi Hj Heq. rewrite Hla1 in Hi, Hj.
            destruct (J2 i Hi (Hall i Hi)) as [_ H1]. destruct (J2 j Hj (Hall j Hj)) as [_ H2].
            rewrite Heq in H1. rewrite H1 in H2. inversion H2. lia. }
        assert (Hall2 : forall k, In k (ci :: allocs1) -> look c1 k <> None).
        { intros k [<-|Hin]; [congruence|].
          destruct (In_nth _ _ (-1) Hin) as (j & Hj & Hnj). rewrite Hla1 in Hj.
          destruct (J2 j Hj (Hall j Hj)) as [_ H1]. rewrite Hnj in H1. congruence. }
        pose proof (H_pigeon c1 (ci :: allocs1) Ha1 Hnd Hall2) as Hp. cbn [length] in Hp. lia. }
      destruct (find_free_some _ _ _ Eff) as [Hk Hfree]. rewrite Hla1 in Hk. replace (k - 0)%nat with k in Hfree by lia.
      destruct (H_add c1 ci (Z.of_nat k) Ha1 Ha2) as (Hb1 & Hb2 & Hb3 & Hb4 & Hb5).
      destruct (cadd c1 ci (Z.of_nat k)) as [c2 ev2] eqn:Eb. cbn [fst snd] in *.
      assert (ev2 = None) as -> by (apply Hb4; congruence).
      cbn [on_evict].
      assert (Hold_slot : len (nth k (lf_storage s) []) = chunkSize) by (apply Hslots; apply nth_In; lia).
      pose proof (fresh_slot_ok ci (nth k (lf_storage s) []) Hci Hcis Hold_slot) as Hfresh. cbv zeta in Hfresh.
      eexists _, _; split; [reflexivity|].
      split; [|split; [reflexivity|split; [exact Hfresh|]]].
      + constructor; cbn [lf_lru lf_allocs lf_storage lf_offset]; try assumption; try (rewrite set_nth_length; assumption).
        * intros k' v Hlk. destruct (Z.eq_dec k' ci) as [->|Hne].
          -- rewrite Hb3 in Hlk. inversion Hlk; subst v. rewrite Nat2Z.id.
             rewrite !nth_set_nth_eq by lia. (split; [lia|split; [first [assumption|reflexivity]|split; [lia|split; assumption]]]).
          -- rewrite Hb5 in Hlk by assumption.
             destruct (J1 k' v Hne Hlk) as (Hv & Hav & Hk1 & Hk2 & Hk3).
             assert (k <> Z.to_nat v) by (intro Heq; subst k; lia).
             rewrite !nth_set_nth_neq by assumption. (split; [lia|split; [first [assumption|reflexivity]|split; [lia|split; assumption]]]).
        * intros j Hj Hjn. destruct (Nat.eq_dec k j) as [<-|Hne].
          -- rewrite nth_set_nth_eq by lia. exact Hb3.
          -- rewrite nth_set_nth_neq in * by assumption.
             destruct (J2 j Hj Hjn) as [H1 H2]. rewrite Hb5 by assumption. exact H2.
      + cbn [lf_storage]. intros slot Hin.
        destruct (In_nth _ _ [] Hin) as (j & Hj & Hnj). rewrite set_nth_length in Hj.
        destruct (Nat.eq_dec k j) as [<-|Hne].
        * rewrite nth_set_nth_eq in Hnj by lia. subst slot. destruct Hfresh; assumption.
        * rewrite nth_set_nth_neq in Hnj by assumption. subst slot. apply Hslots. apply nth_In; assumption.
  Qed.

  Definition slots_ok (s : lf cache) : Prop := forall slot, In slot (lf_storage s) -> len slot = chunkSize.

  (** status of a read of [rem] bytes at [off]: io.EOF exactly when it runs past the end *)
  Definition rst (off rem : Z) : N := if (rem >? 0) && (off + rem >? size) then 1%N else 0%N.

  Lemma read_loop_ok : forall fuel s rem acc,
    Inv s -> slots_ok s -> 0 <= rem -> (Z.to_nat rem < fuel)%nat ->
    exists s', read_loop cache cget cadd chunkSize file fuel s rem acc =
                 LOk (acc ++ sl file (lf_offset s) (Z.min (lf_offset s + rem) size), rst (lf_offset s) rem, s') /\
               Inv s' /\ slots_ok s' /\ lf_offset s' = Z.min (lf_offset s + rem) size.
  Proof.
    induction fuel as [|f IH]; intros s rem acc HI Hsl Hrem Hfuel; [lia|].
    pose proof (inv_off s HI) as Hoff.
    cbn [read_loop].
    destruct (rem >? 0) eqn:Er.
    2:{ assert (rem = 0) by lia. subst rem. exists s.
        replace (Z.min (lf_offset s + 0) size) with (lf_offset s) by lia.
        rewrite sl_empty by lia. rewrite app_nil_r. unfold rst. cbn [Z.gtb Z.compare andb]. split; [reflexivity|split; [assumption|split; [assumption|reflexivity]]]. }
    set (off := lf_offset s) in *.
    set (ci := off / chunkSize).
    assert (Hci : 0 <= ci /\ ci * chunkSize <= off /\ off < ci * chunkSize + chunkSize) by (subst ci; nia).
    destruct (getChunk_ok s ci HI ltac:(lia) ltac:(lia) Hsl) as (chunk & s1 & Eg & HI1 & Hoff1 & Hslot & Hsl1).
    rewrite Eg. cbv zeta. fold size.
    set (start := off mod chunkSize).
    assert (Hstart : off = ci * chunkSize + start /\ 0 <= start < chunkSize) by (subst start ci; nia).
    set (lastChunk := ci * chunkSize + chunkSize >? size).
    set (chunkEnd := if lastChunk then size else ci * chunkSize + chunkSize).
    assert (HchunkEnd : chunkEnd = Z.min (ci * chunkSize + chunkSize) size) by (subst chunkEnd lastChunk; destruct (ci * chunkSize + chunkSize >? size) eqn:E; lia).
    assert (Hlast : lastChunk = (ci * chunkSize + chunkSize >? size)) by reflexivity.
    clearbody chunkEnd lastChunk.
    destruct Hslot as [Hlc Hpre].
    pose proof (len_chunkdata ci ltac:(lia) ltac:(lia)) as Hlcd.
    assert (Hpiece : forall e, start <= e -> e <= chunkEnd - ci * chunkSize ->
              firstn (Z.to_nat (e - start)) (skipn (Z.to_nat start) chunk) = sl file off (ci * chunkSize + e)).
    { intros e He1 He2. fold (sl chunk start e).
      rewrite <- (sl_firstn_prefix chunk (length (chunkdata ci))) by (unfold len in Hlcd; lia).
      rewrite Hpre. unfold chunkdata. rewrite sl_sl by (unfold size in *; lia).
      f_equal; lia. }
    destruct (start + rem >? chunkEnd - ci * chunkSize) eqn:Ee.
    - (* the read runs past this chunk *)
      destruct ((start <? 0) || (start >? chunkEnd - ci * chunkSize) || (chunkEnd - ci * chunkSize >? len chunk)) eqn:Eguard; [lia|].
      rewrite (Hpiece (chunkEnd - ci * chunkSize)) by lia.
      replace (ci * chunkSize + (chunkEnd - ci * chunkSize)) with chunkEnd by lia.
      assert (Hlp : len (sl file off chunkEnd) = chunkEnd - off) by (apply len_sl; unfold size in *; lia).
      rewrite Hlp. replace (off + (chunkEnd - off)) with chunkEnd by lia.
      destruct lastChunk.
      + (* last chunk: io.EOF *)
        assert (Hm : Z.min (off + rem) size = chunkEnd) by lia.
        assert (Hr : rst off rem = 1%N).
        { unfold rst. rewrite Er. cbn [andb]. destruct (off + rem >? size) eqn:E; [reflexivity|lia]. }
        rewrite Hm, Hr. eexists. split; [reflexivity|]. split; [|split; [exact Hsl1|reflexivity]].
        destruct HI1 as [A1 A2 A3 A4 A5 A6 A7]. constructor; cbn [lf_lru lf_allocs lf_storage lf_offset]; try assumption. lia.
      + (* a full chunk was consumed: go on with the next one *)
        set (s2 := mkLf chunkEnd (lf_storage s1) (lf_allocs s1) (lf_lru s1) (lf_loads s1)).
        assert (HI2 : Inv s2).
        { destruct HI1 as [A1 A2 A3 A4 A5 A6 A7]. constructor; cbn [s2 lf_lru lf_allocs lf_storage lf_offset]; try assumption. lia. }
        destruct (IH s2 (rem - (chunkEnd - off)) (acc ++ sl file off chunkEnd) HI2 Hsl1 ltac:(lia) ltac:(lia)) as (s3 & E3 & HI3 & Hsl3 & Hoff3).
        rewrite E3. cbn [s2 lf_offset] in *.
        replace (chunkEnd + (rem - (chunkEnd - off))) with (off + rem) in * by lia.
        assert (Hr : rst chunkEnd (rem - (chunkEnd - off)) = rst off rem).
        { unfold rst. replace (chunkEnd + (rem - (chunkEnd - off))) with (off + rem) by lia.
          rewrite Er. destruct (rem - (chunkEnd - off) >? 0) eqn:E; [reflexivity|lia]. }
        rewrite Hr. rewrite <- app_assoc. rewrite sl_app by lia.
        exists s3. split; [reflexivity|]. split; [assumption|]. split; [assumption|]. exact Hoff3.
    - (* the read ends inside this chunk *)
      destruct ((start <? 0) || (start >? start + rem) || (start + rem >? len chunk)) eqn:Eguard; [lia|].
      rewrite (Hpiece (start + rem)) by lia.
      replace (ci * chunkSize + (start + rem)) with (off + rem) by lia.
      assert (Hlp : len (sl file off (off + rem)) = rem) by (rewrite len_sl; unfold size in *; lia).
      rewrite Hlp. replace (rem - rem) with 0 by lia.
      set (s2 := mkLf (off + rem) (lf_storage s1) (lf_allocs s1) (lf_lru s1) (lf_loads s1)).
      assert (HI2 : Inv s2).
      { destruct HI1 as [A1 A2 A3 A4 A5 A6 A7]. constructor; cbn [s2 lf_lru lf_allocs lf_storage lf_offset]; try assumption. lia. }
      destruct (IH s2 0 (acc ++ sl file off (off + rem)) HI2 Hsl1 ltac:(lia) ltac:(lia)) as (s3 & E3 & HI3 & Hsl3 & Hoff3).
      rewrite E3. cbn [s2 lf_offset] in *.
      replace (Z.min (off + rem + 0) size) with (off + rem) in * by lia.
      replace (Z.min (off + rem) size) with (off + rem) by lia.
      rewrite (sl_empty file (off + rem) (off + rem)) by lia. rewrite app_nil_r.
      assert (Hr : rst (off + rem) 0 = rst off rem).
      { unfold rst. cbn [Z.gtb Z.compare andb]. rewrite Er. cbn [andb]. destruct (off + rem >? size) eqn:E; [lia|reflexivity]. }
      rewrite Hr.
      exists s3. split; [reflexivity|]. split; [assumption|]. split; [assumption|]. exact Hoff3.
  Qed.

  Lemma plain_read_eq : forall cur n, 0 <= cur <= size -> 0 < n ->
    firstn (Z.to_nat n) (skipn (Z.to_nat cur) file) = sl file cur (Z.min (cur + n) size).
  Proof.
    intros cur n Hc Hn. unfold sl.
    destruct (Z.le_gt_cases (cur + n) size) as [Hle|Hgt].
    - f_equal. lia.
    - pose proof (skipn_length (Z.to_nat cur) file) as Hl. unfold size, len in *.
      rewrite !firstn_ge by lia. reflexivity.
  Qed.

  Lemma lf_step_ok : forall s op, Inv s -> slots_ok s ->
    exists res s', lf_step cache cget cadd chunkSize file s op = LOk (res, s') /\ Inv s' /\ slots_ok s' /\
                   plain_step file (lf_offset s) op = (res, lf_offset s').
  Proof.
    intros s op HI Hsl. pose proof (inv_off s HI) as Hoff. destruct op as [n|off whence]; cbn [lf_step plain_step].
    - destruct (n <=? 0) eqn:En.
      + cbn [read_loop]. destruct (n >? 0) eqn:E; [lia|].
        eexists _, _; split; [reflexivity|]. split; [assumption|]. split; [assumption|reflexivity].
      + destruct (read_loop_ok (S (Z.to_nat n)) s n [] HI Hsl ltac:(lia) ltac:(lia)) as (s' & E & HI' & Hsl' & Hoff').
        rewrite E. eexists _, _; split; [reflexivity|]. split; [assumption|]. split; [assumption|].
        cbn [app]. rewrite plain_read_eq by lia. rewrite Hoff'.
        rewrite len_sl by (unfold size in *; lia).
        f_equal; [|lia]. f_equal. unfold rst. fold size. destruct (n >? 0) eqn:E2; [|lia]. reflexivity.
    - fold size. destruct (seek_target size (lf_offset s) off whence) as [t|].
      + destruct ((t <? 0) || (t >? size)) eqn:E.
        * eexists _, _; split; [reflexivity|]. split; [|split; [exact Hsl|reflexivity]].
          destruct HI as [A1 A2 A3 A4 A5 A6 A7]. constructor; cbn [lf_lru lf_allocs lf_storage lf_offset]; try assumption. lia.
        * eexists _, _; split; [reflexivity|]. split; [|split; [exact Hsl|reflexivity]].
          destruct HI as [A1 A2 A3 A4 A5 A6 A7]. constructor; cbn [lf_lru lf_allocs lf_storage lf_offset]; try assumption. lia.
      + eexists _, _; split; [reflexivity|]. split; [assumption|]. split; [assumption|reflexivity].
  Qed.

  Lemma lf_run_ok : forall ops s, Inv s -> slots_ok s ->
    exists sf, lf_run cache cget cadd chunkSize file s ops = Some (run_plain_from file (lf_offset s) ops, sf).
  Proof.
    induction ops as [|op r IH]; intros s HI Hsl; cbn [lf_run run_plain_from].
    - eexists; reflexivity.
    - destruct (lf_step_ok s op HI Hsl) as (res & s' & E & HI' & Hsl' & Hp).
      rewrite E, Hp. destruct (IH s' HI' Hsl') as (sf & Er). rewrite Er. eexists; reflexivity.
  Qed.

  (** from the state after New + Reset, whatever the slots hold *)
  Lemma lf_init_run : forall cempty stale ops,
    wf cempty -> (forall k, look cempty k = None) -> (card cempty <= cap)%nat ->
    length stale = cap -> (forall slot, In slot stale -> len slot = chunkSize) ->
    exists sf, lf_run cache cget cadd chunkSize file (lf_init cache cempty stale) ops = Some (run_plain file ops, sf).
  Proof.
    intros cempty stale ops Hwf Hlook Hcard Hlen Hslots.
    apply lf_run_ok; [|exact Hslots].
    unfold lf_init. constructor; cbn [lf_lru lf_allocs lf_storage lf_offset]; try assumption.
    - rewrite repeat_length. assumption.
    - intros k v H. rewrite Hlook in H. discriminate.
    - intros j Hj H. rewrite nth_repeat in H. lia.
    - unfold size. pose proof (len_nonneg _ file). lia.
  Qed.

  Lemma lf_init_inv : forall cempty stale,
    wf cempty -> (forall k, look cempty k = None) -> (card cempty <= cap)%nat -> length stale = cap ->
    Inv (lf_init cache cempty stale).
  Proof.
    intros cempty stale Hwf Hlook Hcard Hlen.
    unfold lf_init. constructor; cbn [lf_lru lf_allocs lf_storage lf_offset]; try assumption.
    - rewrite repeat_length. assumption.
    - intros k v H. rewrite Hlook in H. discriminate.
    - intros j Hj H. rewrite nth_repeat in H. lia.
    - unfold size. pose proof (len_nonneg _ file). lia.
  Qed.
End Transparent.

(** * simplelru (the recency list) meets the contract *)
Definition ll_wf (l : lru_list) : Prop := NoDup (map fst l).
Definition ll_look (l : lru_list) (k : Z) : option Z := ll_find k l.

Lemma ll_find_none_notin : forall l k, ll_find k l = None -> ~ In k (map fst l).
Proof.
  induction l as [|[k' v] l IH]; intros k H; cbn in *; [tauto|].
  destruct (k' =? k) eqn:E; [discriminate|]. intros [H1|H1]; [lia|]. eapply IH; eassumption.
Qed.

Lemma ll_find_some_in : forall l k v, ll_find k l = Some v -> In (k, v) l.
Proof.
  induction l as [|[k' v'] l IH]; intros k v H; cbn in *; [discriminate|].
  destruct (k' =? k) eqn:E.
  - inversion H; subst. left. f_equal. lia.
  - right. apply IH; assumption.
Qed.

Lemma ll_find_in : forall l k v, ll_wf l -> In (k, v) l -> ll_find k l = Some v.
Proof.
  induction l as [|[k' v'] l IH]; intros k v Hwf Hin; cbn in *; [tauto|].
  unfold ll_wf in Hwf. cbn in Hwf. inversion Hwf as [|? ? Hn Hnd]; subst.
  destruct Hin as [Heq|Hin].
  - inversion Heq; subst. rewrite Z.eqb_refl. reflexivity.
  - destruct (k' =? k) eqn:E.
    + exfalso. apply Hn. assert (k' = k) by lia. subst. apply (in_map fst) in Hin. exact Hin.
    + apply IH; assumption.
Qed.

Lemma ll_remove_keys : forall l k, incl (map fst (ll_remove k l)) (map fst l).
Proof.
  induction l as [|[k' v] l IH]; intros k x H; cbn in *; [tauto|].
  destruct (k' =? k); cbn in *; [right; assumption|]. destruct H as [H|H]; [left; assumption|right; eapply IH; eassumption].
Qed.

Lemma ll_remove_wf : forall l k, ll_wf l -> ll_wf (ll_remove k l) /\ ~ In k (map fst (ll_remove k l)).
Proof.
  induction l as [|[k' v] l IH]; intros k Hwf; cbn.
  - split; [constructor|tauto].
  - unfold ll_wf in *. cbn in Hwf. inversion Hwf as [|? ? Hn Hnd]; subst.
    destruct (k' =? k) eqn:E.
    + split; [assumption|]. assert (k' = k) by lia. subst. assumption.
    + destruct (IH k Hnd) as [H1 H2]. cbn. split.
      * constructor; [|assumption]. intro Hin. apply Hn. eapply ll_remove_keys; eassumption.
      * intros [H|H]; [lia|tauto].
Qed.

Lemma ll_find_remove_neq : forall l k k', k' <> k -> ll_find k' (ll_remove k l) = ll_find k' l.
Proof.
  induction l as [|[k0 v] l IH]; intros k k' H; cbn; [reflexivity|].
  destruct (k0 =? k) eqn:E1.
  - destruct (k0 =? k') eqn:E2; [lia|reflexivity].
  - cbn. destruct (k0 =? k'); [reflexivity|apply IH; assumption].
Qed.

Lemma ll_remove_length : forall l k v, ll_find k l = Some v -> S (length (ll_remove k l)) = length l.
Proof.
  induction l as [|[k0 v0] l IH]; intros k v H; cbn in *; [discriminate|].
  destruct (k0 =? k); [reflexivity|]. cbn. f_equal. eapply IH; eassumption.
Qed.

Lemma ll_get_contract : forall l k, ll_wf l ->
  fst (ll_get l k) = ll_look l k /\ ll_wf (snd (ll_get l k)) /\
  (forall k', ll_look (snd (ll_get l k)) k' = ll_look l k') /\ length (snd (ll_get l k)) = length l.
Proof.
  intros l k Hwf. unfold ll_get, ll_look. destruct (ll_find k l) as [v|] eqn:E; cbn [fst snd].
  - split; [reflexivity|]. destruct (ll_remove_wf l k Hwf) as [H1 H2]. split; [|split].
    + unfold ll_wf. cbn. constructor; assumption.
    + intros k'. cbn. destruct (k =? k') eqn:E2.
      * assert (k = k') by lia. subst. symmetry; assumption.
      * apply ll_find_remove_neq. lia.
    + cbn. eapply ll_remove_length; eassumption.
  - repeat split; try assumption; reflexivity.
Qed.

Lemma ll_find_removelast : forall l k, l <> [] -> k <> fst (last l (0, 0)) -> ll_find k (removelast l) = ll_find k l.
Proof.
  induction l as [|[k0 v0] l IH]; intros k Hne Hk; [congruence|].
  destruct l as [|p l'].
  - cbn in *. destruct (k0 =? k) eqn:E; [lia|reflexivity].
  - cbn [removelast ll_find]. change (last ((k0, v0) :: p :: l') (0, 0)) with (last (p :: l') (0, 0)) in Hk.
    destruct (k0 =? k); [reflexivity|]. apply IH; [congruence|assumption].
Qed.

Lemma last_notin_removelast : forall (l : list Z) d, l <> [] -> NoDup l -> ~ In (last l d) (removelast l).
Proof.
  induction l as [|x l IH]; intros d Hne Hnd; [congruence|].
  destruct l as [|y l'].
  - cbn. tauto.
  - inversion Hnd as [|? ? Hn Hnd']; subst.
    change (last (x :: y :: l') d) with (last (y :: l') d).
    change (removelast (x :: y :: l')) with (x :: removelast (y :: l')).
    intros [H|H].
    + apply Hn. rewrite H.
      destruct (@exists_last _ (y :: l') ltac:(congruence)) as (l0 & a & Heq).
      rewrite Heq. rewrite last_last. apply in_or_app. right. left. reflexivity.
    + eapply IH; [congruence|eassumption|eassumption].
Qed.

Lemma NoDup_removelast : forall (l : list Z), NoDup l -> NoDup (removelast l).
Proof.
  induction l as [|x l IH]; intros H; [constructor|].
  destruct l as [|y l']; [constructor|].
  inversion H as [|? ? Hn Hnd]; subst.
  change (removelast (x :: y :: l')) with (x :: removelast (y :: l')).
  constructor; [|apply IH; assumption].
  intro Hin. apply Hn.
  destruct (@exists_last _ (y :: l') ltac:(congruence)) as (l0 & a & Heq).
  rewrite Heq in *. rewrite removelast_last in Hin. apply in_or_app. left. assumption.
Qed.

Lemma map_removelast : forall A B (f : A -> B) l, map f (removelast l) = removelast (map f l).
Proof.
  intros A B f l; induction l as [|x l IH]; [reflexivity|].
  destruct l as [|y l']; [reflexivity|].
  change (removelast (x :: y :: l')) with (x :: removelast (y :: l')).
  cbn [map]. change (removelast (f x :: f y :: map f l')) with (f x :: removelast (f y :: map f l')).
  f_equal. exact IH.
Qed.

Lemma map_last : forall A B (f : A -> B) l d, l <> [] -> f (last l d) = last (map f l) (f d).
Proof.
  intros A B f l d; induction l as [|x l IH]; intros H; [congruence|].
  destruct l as [|y l']; [reflexivity|].
  change (last (x :: y :: l') d) with (last (y :: l') d).
  cbn [map]. change (last (f x :: f y :: map f l') (f d)) with (last (f y :: map f l') (f d)).
  apply IH. congruence.
Qed.

Lemma ll_add_contract : forall cap l k v, (0 < cap)%nat -> ll_wf l -> (length l <= cap)%nat ->
  ll_wf (fst (ll_add cap l k v)) /\ (length (fst (ll_add cap l k v)) <= cap)%nat /\
  ll_look (fst (ll_add cap l k v)) k = Some v /\
  (ll_look l k <> None -> snd (ll_add cap l k v) = None) /\
  match snd (ll_add cap l k v) with
  | None => forall k', k' <> k -> ll_look (fst (ll_add cap l k v)) k' = ll_look l k'
  | Some (k0, v0) => k0 <> k /\ ll_look l k0 = Some v0 /\ ll_look (fst (ll_add cap l k v)) k0 = None /\
                     forall k', k' <> k -> k' <> k0 -> ll_look (fst (ll_add cap l k v)) k' = ll_look l k'
  end.
Proof.
  intros cap l k v Hcap Hwf Hlen. unfold ll_add, ll_look.
  destruct (ll_find k l) as [v1|] eqn:E; cbn [fst snd].
  - destruct (ll_remove_wf l k Hwf) as [H1 H2].
    split; [unfold ll_wf; cbn; constructor; assumption|].
    split; [cbn; pose proof (ll_remove_length l k v1 E); lia|].
    split; [cbn; rewrite Z.eqb_refl; reflexivity|].
    split; [reflexivity|].
    intros k' Hk'. cbn. destruct (k =? k') eqn:E2; [lia|]. apply ll_find_remove_neq; assumption.
  - pose proof (ll_find_none_notin l k E) as Hnotin.
    destruct (cap <? length ((k, v) :: l))%nat eqn:Eov; cbn [fst snd].
    + (* evict the oldest *)
      assert (Hl : l <> []) by (destruct l; cbn in *; [lia|congruence]).
      assert (Hwf' : NoDup (map fst ((k, v) :: l))) by (cbn; constructor; assumption).
      destruct (last ((k, v) :: l) (0, 0)) as [k0 v0] eqn:El.
      assert (Hlast : last ((k, v) :: l) (0, 0) = last l (0, 0)) by (destruct l; [congruence|reflexivity]).
      rewrite Hlast in El.
      assert (Hin0 : In (k0, v0) l).
      { rewrite <- El. destruct (@exists_last _ l Hl) as (l0 & a & Heq). rewrite Heq, last_last. apply in_or_app; right; left; reflexivity. }
      assert (Hk0 : k0 <> k) by (intro; subst; apply Hnotin; apply (in_map fst) in Hin0; exact Hin0).
      assert (Hrl : removelast ((k, v) :: l) = (k, v) :: removelast l) by (destruct l; [congruence|reflexivity]).
      split; [|split; [|split; [|split; [|split; [|split; [|split]]]]]].
      * unfold ll_wf. rewrite map_removelast. apply NoDup_removelast. exact Hwf'.
      * rewrite Hrl. cbn [length]. destruct (@exists_last _ l Hl) as (l0 & a & Heq). rewrite Heq, removelast_last.
        rewrite Heq, app_length in Hlen. cbn in Hlen. lia.
      * rewrite Hrl. cbn. rewrite Z.eqb_refl. reflexivity.
      * congruence.
      * exact Hk0.
      * apply ll_find_in; assumption.
      * (* k0 is gone *)
        destruct (ll_find k0 (removelast ((k, v) :: l))) as [v2|] eqn:Ef; [|reflexivity].
        exfalso. apply ll_find_some_in in Ef. apply (in_map fst) in Ef. rewrite map_removelast in Ef. cbn [fst] in Ef.
        apply (last_notin_removelast (map fst ((k, v) :: l)) (fst (0, 0))); [cbn; congruence|exact Hwf'|].
        rewrite <- map_last by congruence. rewrite Hlast, El. exact Ef.
      * intros k' Hk' Hk'0. rewrite ll_find_removelast by (try congruence; rewrite Hlast, El; cbn; congruence).
        cbn. destruct (k =? k') eqn:E2; [lia|reflexivity].
    + split; [unfold ll_wf; cbn; constructor; assumption|].
      split; [lia|]. split; [cbn; rewrite Z.eqb_refl; reflexivity|]. split; [congruence|].
      intros k' Hk'. cbn. destruct (k =? k') eqn:E2; [lia|reflexivity].
Qed.

Lemma ll_pigeon : forall l ks, ll_wf l -> NoDup ks -> (forall k, In k ks -> ll_look l k <> None) -> (length ks <= length l)%nat.
Proof.
  intros l ks Hwf Hnd Hall. rewrite <- (map_length fst l). apply NoDup_incl_length; [assumption|].
  intros k Hin. specialize (Hall k Hin). unfold ll_look in Hall.
  destruct (ll_find k l) as [v|] eqn:E; [|congruence].
  apply ll_find_some_in in E. apply (in_map fst) in E. exact E.
Qed.

(** * the statements *)
Lemma lru_transparent_abstract :
  forall (cache : Type) (cget : cache -> Z -> option Z * cache) (cadd : cache -> Z -> Z -> cache * option (Z * Z))
         (wf : cache -> Prop) (look : cache -> Z -> option Z) (card : cache -> nat) (cap : nat),
    (forall c k, wf c ->
        fst (cget c k) = look c k /\ wf (snd (cget c k)) /\
        (forall k', look (snd (cget c k)) k' = look c k') /\ card (snd (cget c k)) = card c) ->
    (forall c k v, wf c -> (card c <= cap)%nat ->
        wf (fst (cadd c k v)) /\ (card (fst (cadd c k v)) <= cap)%nat /\ look (fst (cadd c k v)) k = Some v /\
        (look c k <> None -> snd (cadd c k v) = None) /\
        match snd (cadd c k v) with
        | None => forall k', k' <> k -> look (fst (cadd c k v)) k' = look c k'
        | Some (k0, v0) => k0 <> k /\ look c k0 = Some v0 /\ look (fst (cadd c k v)) k0 = None /\
                           forall k', k' <> k -> k' <> k0 -> look (fst (cadd c k v)) k' = look c k'
        end) ->
    (forall c ks, wf c -> NoDup ks -> (forall k, In k ks -> look c k <> None) -> (length ks <= card c)%nat) ->
    forall (chunkSize : Z) (file : list byte) (cempty : cache) (stale : list (list byte)) (ops : list lop),
      0 < chunkSize ->
      wf cempty -> (forall k, look cempty k = None) -> (card cempty <= cap)%nat ->
      length stale = cap -> (forall slot, In slot stale -> len slot = chunkSize) ->
      exists sf, lf_run cache cget cadd chunkSize file (lf_init cache cempty stale) ops = Some (run_plain file ops, sf).
Proof.
  intros cache cget cadd wf look card cap Hg Ha Hp chunkSize file cempty stale ops Hcs Hwf Hl Hc Hlen Hsl.
  eapply lf_init_run; eassumption.
Qed.

Lemma lru_transparent_lemma :
  forall (chunkSize : Z) (entries : nat) (file : list byte) (ops : list lop),
    0 < chunkSize -> (0 < entries)%nat ->
    exists loads, run_lru chunkSize entries file ops = Some (run_plain file ops, loads).
Proof.
  intros chunkSize entries file ops Hcs Hen. unfold run_lru.
  destruct (lru_transparent_abstract lru_list ll_get (ll_add entries) ll_wf ll_look (@length (Z * Z)) entries
              ll_get_contract (fun c k v => ll_add_contract entries c k v Hen) ll_pigeon
              chunkSize file [] (repeat (repeat 0%N (Z.to_nat chunkSize)) entries) ops Hcs) as (sf & E).
  - constructor.
  - reflexivity.
  - cbn; lia.
  - apply repeat_length.
  - intros slot Hin. apply repeat_spec in Hin. subst. unfold len. rewrite repeat_length. lia.
  - rewrite E. eexists; reflexivity.
Qed.

(** the "could not find room in lrufile cache" error (status 2 of a read) never shows up *)
Lemma run_plain_no_internal_error : forall file ops cur data st,
  In (RRead data st) (run_plain_from file cur ops) -> st <> 2%N.
Proof.
  intros file ops; induction ops as [|op r IH]; intros cur data st Hin; cbn in Hin; [tauto|].
  destruct (plain_step file cur op) as [res cur'] eqn:E. destruct Hin as [H|H]; [|eapply IH; eassumption].
  subst res. destruct op as [n|off whence]; cbn in E.
  - destruct (n <=? 0); inversion E; subst; [lia|]. destruct (cur + n >? len file); lia.
  - destruct (seek_target (len file) cur off whence) as [t|]; [destruct ((t <? 0) || (t >? len file))|]; inversion E.
Qed.

Lemma lru_never_full_lemma :
  forall (chunkSize : Z) (entries : nat) (file : list byte) (ops : list lop),
    0 < chunkSize -> (0 < entries)%nat ->
    exists rs loads, run_lru chunkSize entries file ops = Some (rs, loads) /\
                     forall data st, In (RRead data st) rs -> st <> 2%N.
Proof.
  intros chunkSize entries file ops Hcs Hen.
  destruct (lru_transparent_lemma chunkSize entries file ops Hcs Hen) as (loads & E).
  exists (run_plain file ops), loads. split; [exact E|].
  intros data st Hin. eapply run_plain_no_internal_error; eassumption.
Qed.
