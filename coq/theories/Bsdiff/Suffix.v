(** Executable search oracle for the correspondence only (no theorem depends on this file
    except the non-vacuity examples): a naive suffix array (insertion sort of the suffixes,
    [bytes.Compare] order), Go's binary [search] of bsdiff/math.go, and the partitioned suffix
    array of bsdiff/psa.go ([NewPSA] boundaries, [PSA.search] = best match over the partitions,
    first partition wins ties; empty partitions are skipped as in the repaired code). *)
From Wharf Require Import Base.Prelude Bsdiff.Scan.
Local Open Scope Z_scope.

(** [bytes.Compare a b < 0] *)
Fixpoint bytes_lt (a b : list byte) : bool :=
  match a, b with
  | [], [] => false
  | [], _ :: _ => true
  | _ :: _, [] => false
  | x :: a', y :: b' => if (x <? y)%N then true else if (y <? x)%N then false else bytes_lt a' b'
  end.

Fixpoint matchlen (a b : list byte) : Z :=
  match a, b with
  | x :: a', y :: b' => if (x =? y)%N then 1 + matchlen a' b' else 0
  | _, _ => 0
  end.

Definition suffix (buf : list byte) (i : nat) : list byte := skipn i buf.

Fixpoint insert_suffix (buf : list byte) (i : nat) (sorted : list nat) : list nat :=
  match sorted with
  | [] => [i]
  | j :: r => if bytes_lt (suffix buf i) (suffix buf j) then i :: sorted else j :: insert_suffix buf i r
  end.

Definition suffix_array (buf : list byte) : list nat :=
  fold_right (insert_suffix buf) [] (seq 0 (length buf)).

(** [search(I, obuf, nbuf, st, en)] of math.go *)
Fixpoint go_search (fuel : nat) (sa : list nat) (obuf nbuf : list byte) (st en : nat) : Z * Z :=
  match fuel with
  | O => (0, 0)
  | S f =>
      if (en - st <? 2)%nat then
        let ist := nth st sa O in
        if (length obuf <=? en)%nat then (Z.of_nat ist, matchlen (suffix obuf ist) nbuf)
        else
          let ien := nth en sa O in
          let x := matchlen (suffix obuf ist) nbuf in
          let y := matchlen (suffix obuf ien) nbuf in
          if x >? y then (Z.of_nat ist, x) else (Z.of_nat ien, y)
      else
        let x := (st + (en - st) / 2)%nat in
        if bytes_lt (suffix obuf (nth x sa O)) nbuf
        then go_search f sa obuf nbuf x en
        else go_search f sa obuf nbuf st x
  end.

(** partitions [(start, bytes, suffix array)] with [partitionSize = len(buf) / p], the last one up to the end *)
Fixpoint psa_parts (n : nat) (i : nat) (p size : nat) (buf : list byte) : list (nat * list byte * list nat) :=
  match n with
  | O => []
  | S n' =>
      let st := (i * size)%nat in
      let en := if (S i =? p)%nat then length buf else (S i * size)%nat in
      let part := firstn (en - st) (skipn st buf) in
      (st, part, suffix_array part) :: psa_parts n' (S i) p size buf
  end.

Definition new_psa (p : Z) (buf : list byte) : list (nat * list byte * list nat) :=
  let pn := Z.to_nat p in
  psa_parts pn 0 pn (length buf / pn)%nat buf.

Fixpoint psa_search_parts (parts : list (nat * list byte * list nat)) (nbuf : list byte) (bpos bn : Z) : Z * Z :=
  match parts with
  | [] => (bpos, bn)
  | (st, part, sa) :: r =>
      match part with
      | [] => psa_search_parts r nbuf bpos bn
      | _ =>
          let '(ppos, pn) := go_search (S (length part)) sa part nbuf 0 (length part) in
          if pn >? bn then psa_search_parts r nbuf (ppos + Z.of_nat st) pn
          else psa_search_parts r nbuf bpos bn
      end
  end.

Definition psa_search (parts : list (nat * list byte * list nat)) (nbuf : list byte) : Z * Z :=
  psa_search_parts parts nbuf 0 0.
