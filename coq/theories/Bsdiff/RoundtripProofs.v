(** [writeMessages] composed with the patcher: the controls written for matches that tile the
    new file reproduce it when applied to the old file; with ScanProofs.v this gives
    [bsdiff_roundtrip].  Also the resume-from-a-saved-old-offset lemma. *)
From Coq Require Import ZifyBool ZifyNat ZifyN.
From Wharf Require Import Base.Prelude Bsdiff.Scan Bsdiff.ScanProofs Bsdiff.Patch.
Local Open Scope Z_scope.
Ltac Zify.zify_post_hook ::= Z.div_mod_to_equations.

Definition bytes_ok (l : list byte) : Prop := Forall (fun b => (b < 256)%N) l.

(** [l[a:b]] *)
Definition sl (l : list byte) (a b : Z) : list byte := firstn (Z.to_nat (b - a)) (skipn (Z.to_nat a) l).

Lemma skipn_nth : forall A (l : list A) k x, nth_error l k = Some x -> skipn k l = x :: skipn (S k) l.
Proof.
  intros A l; induction l as [|y l IH]; intros k x H; destruct k; cbn in *; try discriminate.
  - congruence.
  - apply IH; assumption.
Qed.

Lemma sl_cons : forall l a b x, 0 <= a -> a < b -> nth_error l (Z.to_nat a) = Some x ->
  sl l a b = x :: sl l (a + 1) b.
Proof.
  intros l a b x Ha Hb Hx. unfold sl.
  rewrite (skipn_nth _ l _ x Hx).
  replace (Z.to_nat (b - a)) with (S (Z.to_nat (b - (a + 1)))) by lia.
  replace (Z.to_nat (a + 1)) with (S (Z.to_nat a)) by lia. reflexivity.
Qed.

Lemma sl_empty : forall l a b, b <= a -> sl l a b = [].
Proof. intros; unfold sl. replace (Z.to_nat (b - a)) with O by lia. reflexivity. Qed.

Lemma skipn_add : forall A (l : list A) m n, skipn n (skipn m l) = skipn (m + n) l.
Proof.
  intros A l; induction l as [|x l IH]; intros m n.
  - rewrite !skipn_nil. reflexivity.
  - destruct m; cbn [skipn Nat.add]; [reflexivity|apply IH].
Qed.

Lemma firstn_add : forall A (t : list A) n m, firstn n t ++ firstn m (skipn n t) = firstn (n + m) t.
Proof.
  intros A t; induction t as [|x t IH]; intros n m.
  - rewrite skipn_nil, !firstn_nil. reflexivity.
  - destruct n; cbn [firstn skipn Nat.add app]; [reflexivity|]. f_equal. apply IH.
Qed.

Lemma sl_app : forall l a b c, 0 <= a -> a <= b -> b <= c -> sl l a b ++ sl l b c = sl l a c.
Proof.
  intros l a b c H1 H2 H3. unfold sl.
  replace (Z.to_nat (c - a)) with (Z.to_nat (b - a) + Z.to_nat (c - b))%nat by lia.
  replace (Z.to_nat b) with (Z.to_nat a + Z.to_nat (b - a))%nat by lia.
  rewrite <- skipn_add. apply firstn_add.
Qed.

Lemma sl_full : forall l, sl l 0 (len l) = l.
Proof.
  intros l. unfold sl, len. cbn [Z.to_nat skipn]. rewrite Z.sub_0_r, Nat2Z.id. apply firstn_all.
Qed.

Lemma len_sl : forall l a b, 0 <= a -> a <= b -> b <= len l -> len (sl l a b) = b - a.
Proof. intros; unfold sl; apply len_slice; assumption. Qed.

Lemma add_sub_byte : forall n o, (n < 256)%N -> (o < 256)%N -> add_byte (sub_byte n o) o = n.
Proof.
  intros n o Hn Ho. unfold add_byte, sub_byte.
  rewrite (N.mod_small o 256) by assumption.
  destruct (N.le_gt_cases o n) as [Hle|Hgt].
  - replace (n + 256 - o)%N with ((n - o) + 1 * 256)%N by lia.
    rewrite N.mod_add by lia. rewrite (N.mod_small (n - o)) by lia.
    replace (n - o + o)%N with n by lia. apply N.mod_small; assumption.
  - rewrite (N.mod_small (n + 256 - o)) by lia.
    replace (n + 256 - o + o)%N with (n + 1 * 256)%N by lia.
    rewrite N.mod_add by lia. apply N.mod_small; assumption.
Qed.

Lemma bytes_ok_nth : forall l k x, bytes_ok l -> nth_error l k = Some x -> (x < 256)%N.
Proof.
  intros l k x H Hx. unfold bytes_ok in H. rewrite Forall_forall in H. apply H. eapply nth_error_In; eassumption.
Qed.

Section Write.
  Variables old new : list byte.
  Hypothesis Hold : bytes_ok old.
  Hypothesis Hnew : bytes_ok new.

  Lemma add_loop_ok : forall n aos ans i,
    0 <= ans + i -> ans + i + Z.of_nat n <= len new -> 0 <= aos + i -> aos + i + Z.of_nat n <= len old ->
    exists l, add_loop n old new aos ans i = Ok l /\ length l = n /\
              adder l (sl old (aos + i) (aos + i + Z.of_nat n)) = sl new (ans + i) (ans + i + Z.of_nat n).
  Proof.
    induction n as [|n IH]; intros aos ans i H1 H2 H3 H4; cbn [add_loop].
    - exists []; repeat split. rewrite !sl_empty by lia. reflexivity.
    - destruct (getz_ok new (ans + i)) as [b [Hb Nb]]; [lia|]. rewrite Hb; cbn [bind].
      destruct (getz_ok old (aos + i)) as [a [Ha Na]]; [lia|]. rewrite Ha; cbn [bind].
      destruct (IH aos ans (i + 1)) as (l & El & Ll & Al); try lia.
      rewrite El; cbn [bind].
      exists (sub_byte b a :: l). split; [reflexivity|]. split; [cbn; lia|].
      rewrite (sl_cons old (aos + i) _ a) by (try lia; assumption).
      rewrite (sl_cons new (ans + i) _ b) by (try lia; assumption).
      cbn [adder]. rewrite add_sub_byte by first [exact (bytes_ok_nth _ _ _ Hnew Nb) | exact (bytes_ok_nth _ _ _ Hold Na)].
      f_equal.
      replace (aos + i + 1) with (aos + (i + 1)) by lia.
      replace (ans + i + 1) with (ans + (i + 1)) by lia.
      replace (aos + i + Z.of_nat (S n)) with (aos + (i + 1) + Z.of_nat n) by lia.
      replace (ans + i + Z.of_nat (S n)) with (ans + (i + 1) + Z.of_nat n) by lia.
      exact Al.
  Qed.

  (** a match within range: its payload is defined and applying its control at its add start
      yields the bytes of new it covers, whatever the seek *)
  Definition match_ok (m : Match) : Prop :=
    0 <= addLength m /\ 0 <= addNewStart m /\ addNewStart m + addLength m <= copyEnd m /\ copyEnd m <= len new /\
    0 <= addOldStart m /\ addOldStart m + addLength m <= len old.

  Lemma match_payload_ok : forall m, match_ok m ->
    exists a c, match_payload old new m = Ok (a, c) /\
      forall seek, apply_ctrl old (addOldStart m) (a, c, seek, false)
                   = Some (sl new (addNewStart m) (copyEnd m), addOldStart m + addLength m + seek).
  Proof.
    intros m (H1 & H2 & H3 & H4 & H5 & H6). unfold match_payload.
    destruct (addLength m <? 0) eqn:E; [lia|].
    destruct (add_loop_ok (Z.to_nat (addLength m)) (addOldStart m) (addNewStart m) 0) as (a & Ea & La & Aa); try lia.
    rewrite Ea; cbn [bind].
    rewrite slicez_ok by lia. cbn [bind].
    eexists _, _; split; [reflexivity|].
    intros seek. unfold apply_ctrl. cbn [c_add c_copy c_seek].
    destruct ((addOldStart m <? 0) || (addOldStart m >? len old)) eqn:E2; [lia|].
    fold (sl new (addNewStart m + addLength m) (copyEnd m)).
    replace (firstn (length a) (skipn (Z.to_nat (addOldStart m)) old))
      with (sl old (addOldStart m + 0) (addOldStart m + 0 + Z.of_nat (Z.to_nat (addLength m)))).
    2:{ unfold sl. f_equal; [lia|f_equal; lia]. }
    assert (Hls : length (sl old (addOldStart m + 0) (addOldStart m + 0 + Z.of_nat (Z.to_nat (addLength m)))) = length a).
    { pose proof (len_sl old (addOldStart m + 0) (addOldStart m + 0 + Z.of_nat (Z.to_nat (addLength m)))) as Hl.
      specialize (Hl ltac:(lia) ltac:(lia) ltac:(lia)). unfold len in Hl. lia. }
    rewrite Hls. rewrite Nat.ltb_irrefl.
    rewrite Aa.
    replace (addNewStart m + 0) with (addNewStart m) by lia.
    replace (addNewStart m + Z.of_nat (Z.to_nat (addLength m))) with (addNewStart m + addLength m) by lia.
    rewrite sl_app by lia.
    f_equal. f_equal. unfold len. lia.
  Qed.

  Lemma tiles_match_ok : forall ms start stop m r,
    tiles (len old) start stop ms -> ms = m :: r -> 0 <= start -> stop <= len new ->
    match_ok m /\ addNewStart m = start /\ copyEnd m <= stop.
  Proof.
    intros ms start stop m r Ht -> Hs He. cbn [tiles] in Ht.
    destruct Ht as (H1 & H2 & H3 & H4 & H5 & H6). pose proof (tiles_le _ _ _ _ H6).
    unfold match_ok. repeat split; lia.
  Qed.

  Lemma write_loop_some : forall ms pm pa pc pout start stop,
    tiles (len old) start stop ms -> 0 <= start -> stop <= len new ->
    (forall seek, apply_ctrl old (addOldStart pm) (pa, pc, seek, false) = Some (pout, addOldStart pm + addLength pm + seek)) ->
    exists cs, write_loop old new (Some (pm, pa, pc)) ms = Ok (cs ++ [ctrl_eof]) /\
               Forall (fun c => c_eof c = false) cs /\
               exists off, apply_series old (addOldStart pm) (cs ++ [ctrl_eof]) = Some (pout ++ sl new start stop, off).
  Proof.
    induction ms as [|m r IH]; intros pm pa pc pout start stop Ht Hs He Hprev.
    - cbn [tiles] in Ht. subst stop. cbn [write_loop].
      exists [(pa, pc, 0, false)]. split; [reflexivity|]. split; [repeat constructor|].
      cbn [app apply_series c_eof ctrl_eof]. rewrite Hprev. cbn [c_eof].
      eexists. rewrite sl_empty by lia. rewrite !app_nil_r. reflexivity.
    - destruct (tiles_match_ok _ _ _ m r Ht eq_refl Hs He) as (Hm & Hst & Hce).
      cbn [tiles] in Ht. destruct Ht as (_ & _ & Hx & _ & _ & Ht).
      cbn [write_loop].
      destruct (match_payload_ok m Hm) as (a & c & Ep & Happ). pose proof Hm as Hm'. unfold match_ok in Hm'.
      rewrite Ep; cbn [bind].
      destruct (IH m a c (sl new (addNewStart m) (copyEnd m)) (copyEnd m) stop Ht ltac:(lia) He Happ)
        as (cs & Ew & Hne & off & Ea).
      rewrite Ew; cbn [bind].
      exists ((pa, pc, addOldStart m - (addOldStart pm + addLength pm), false) :: cs).
      split; [reflexivity|]. split; [constructor; [reflexivity|assumption]|].
      cbn [app apply_series c_eof]. rewrite Hprev.
      replace (addOldStart pm + addLength pm + (addOldStart m - (addOldStart pm + addLength pm))) with (addOldStart m) by lia.
      rewrite Ea. eexists. f_equal. f_equal.
      rewrite Hst. rewrite sl_app by lia. reflexivity.
  Qed.

  Lemma write_loop_none : forall ms,
    tiles (len old) 0 (len new) ms -> 0 < len new ->
    match ms with m :: _ => addOldStart m = 0 | [] => False end ->
    exists cs, write_loop old new None ms = Ok (cs ++ [ctrl_eof]) /\
               Forall (fun c => c_eof c = false) cs /\
               bspatch old (cs ++ [ctrl_eof]) (len new) = Some new.
  Proof.
    intros ms Ht Hn Hh. destruct ms as [|m r]; [contradiction|].
    destruct (tiles_match_ok _ _ _ m r Ht eq_refl ltac:(lia) ltac:(lia)) as (Hm & Hst & Hce).
    cbn [tiles] in Ht. destruct Ht as (_ & _ & Hx & _ & _ & Ht).
    cbn [write_loop].
    destruct (match_payload_ok m Hm) as (a & c & Ep & Happ). pose proof Hm as Hm'. unfold match_ok in Hm'.
    rewrite Ep; cbn [bind].
    destruct (write_loop_some r m a c (sl new (addNewStart m) (copyEnd m)) (copyEnd m) (len new) Ht ltac:(lia) ltac:(lia) Happ)
      as (cs & Ew & Hne & off & Ea).
    exists cs. split; [exact Ew|]. split; [exact Hne|].
    unfold bspatch. rewrite <- Hh. rewrite Ea.
    rewrite Hst. rewrite sl_app by lia. rewrite sl_full. rewrite Z.eqb_refl. reflexivity.
  Qed.
End Write.

(** * the differ's series applied to old gives new *)
Lemma bsdiff_do_gen_roundtrip :
  forall (fixed : bool) (bsz : Z) (search : N -> list byte -> Z * Z) (partitions : Z) (old new : list byte),
    0 < bsz -> 0 <= partitions ->
    (forall bi, search_in_range (len old) (search bi)) ->
    bytes_ok old -> bytes_ok new ->
    (fixed = true \/ new = [] \/ (old <> [] /\ norm_partitions partitions (len old) <= len new)) ->
    exists cs, bsdiff_do_gen fixed bsz search partitions old new = Ok (cs ++ [ctrl_eof]) /\
               Forall (fun c => c_eof c = false) cs /\
               bspatch old (cs ++ [ctrl_eof]) (len new) = Some new.
Proof.
  intros fixed bsz search partitions old new Hb Hp Hr Ho Hn Hguard.
  unfold bsdiff_do_gen.
  destruct (len new =? 0) eqn:E0.
  - exists []. split; [reflexivity|]. split; [constructor|].
    assert (new = []) as -> by (destruct new; [reflexivity|unfold len in E0; cbn in E0; lia]).
    reflexivity.
  - assert (Hnl : 0 < len new) by (pose proof (len_nonneg _ new); lia).
    assert (Hnp : 1 <= norm_partitions partitions (len old)).
    { unfold norm_partitions. destruct ((partitions =? 0) || (partitions >=? len old - 1)) eqn:E; lia. }
    assert (Hg : fixed = true \/ (0 < len old /\ norm_partitions partitions (len old) <= len new)).
    { destruct Hguard as [H|[H|[H1 H2]]]; [left; assumption|subst new; cbn in Hnl; lia|].
      right. split; [|assumption]. destruct old; [congruence|unfold len; cbn; lia]. }
    destruct (negb fixed && (len old =? 0)) eqn:E1.
    { destruct Hg as [->|[H _]]; [discriminate|lia]. }
    destruct (block_geometry_ok fixed bsz (len new) (norm_partitions partitions (len old)) Hb Hnl Hnp) as (bs & nb & Eg & Hbs & Hnb & Hgeo).
    { destruct Hg as [H|[_ H]]; [left; assumption|right; assumption]. }
    rewrite Eg; cbn [bind].
    destruct (blocks_loop_ok search old new Hr (Z.to_nat nb) 0 bs nb Hbs Hgeo ltac:(lia) ltac:(lia)) as (ms & Em & Ht & Hh).
    rewrite Em; cbn [bind].
    replace (Z.min (bs * 0) (len new)) with 0 in Ht by lia.
    apply write_loop_none; try assumption.
    specialize (Hh ltac:(lia)). exact Hh.
Qed.

(** * applying from a saved old-offset *)
Lemma apply_prefix_series : forall old cs k off o1 saved rest,
  apply_prefix old off k cs = Some (o1, saved, rest) ->
  apply_series old off cs = match apply_series old saved rest with
                            | Some (o2, offf) => Some (o1 ++ o2, offf)
                            | None => None
                            end.
Proof.
  intros old cs; induction cs as [|c r IH]; intros k off o1 saved rest H.
  - destruct k; cbn in H; [|discriminate]. inversion H; subst. cbn. reflexivity.
  - destruct k as [|k].
    + cbn [apply_prefix] in H. inversion H; subst. cbn [app]. destruct (apply_series old saved (c :: r)) as [[? ?]|]; reflexivity.
    + cbn [apply_prefix] in H. cbn [apply_series].
      destruct (c_eof c) eqn:Ee.
      * inversion H; subst. cbn [apply_series]. rewrite Ee. reflexivity.
      * destruct (apply_ctrl old off c) as [[o off']|]; [|discriminate].
        destruct (apply_prefix old off' k r) as [[[o2 offf] rest']|] eqn:Ep; [|discriminate].
        inversion H; subst. rewrite (IH _ _ _ _ _ Ep).
        destruct (apply_series old saved rest) as [[o3 off3]|]; [|reflexivity].
        rewrite app_assoc. reflexivity.
Qed.

Lemma apply_series_prefix_total : forall old cs k off out offf,
  apply_series old off cs = Some (out, offf) ->
  exists o1 saved rest, apply_prefix old off k cs = Some (o1, saved, rest).
Proof.
  intros old cs; induction cs as [|c r IH]; intros k off out offf H.
  - cbn in H; discriminate.
  - destruct k as [|k]; [cbn; eexists _, _, _; reflexivity|].
    cbn [apply_series] in H. cbn [apply_prefix].
    destruct (c_eof c); [eexists _, _, _; reflexivity|].
    destruct (apply_ctrl old off c) as [[o off']|]; [|discriminate].
    destruct (apply_series old off' r) as [[o2 off2]|] eqn:Es; [|discriminate].
    destruct (IH k off' o2 off2 Es) as (o1 & saved & rest & Ep). rewrite Ep.
    eexists _, _, _; reflexivity.
Qed.

Lemma resume_spec : forall old cs k out offf,
  apply_series old 0 cs = Some (out, offf) ->
  exists o1 saved o2, resume old k cs = Some (o1, saved, o2) /\ out = o1 ++ o2.
Proof.
  intros old cs k out offf H.
  destruct (apply_series_prefix_total old cs k 0 out offf H) as (o1 & saved & rest & Ep).
  pose proof (apply_prefix_series old cs k 0 o1 saved rest Ep) as Hs.
  rewrite H in Hs. unfold resume. rewrite Ep.
  destruct (apply_series old saved rest) as [[o2 off2]|]; [|discriminate].
  inversion Hs; subst. eexists _, _, _; split; reflexivity.
Qed.

(** * the unrepaired code: the two panics *)
Definition const_search : N -> list byte -> Z * Z := fun _ _ => (0, 0).

Lemma const_search_in_range : forall L, 0 <= L -> forall bi, search_in_range L (const_search bi).
Proof. intros L HL bi suf. cbn. pose proof (len_nonneg _ suf). lia. Qed.

Lemma unfixed_divide_by_zero :
  bsdiff_do_unfixed 131072 const_search 4 [0;1;2;0;1;2;0;1;2;0;1;2;0;1;2;0]%N [0;1;0]%N = Panic 3.
Proof. vm_compute. reflexivity. Qed.

Lemma unfixed_empty_old :
  bsdiff_do_unfixed 131072 const_search 0 [] [0;1;0]%N = Panic 4.
Proof. vm_compute. reflexivity. Qed.

Lemma bsdiff_roundtrip_lemma :
  forall (bsz : Z) (search : N -> list byte -> Z * Z) (partitions : Z) (old new : list byte),
    0 < bsz -> 0 <= partitions ->
    (forall bi, search_in_range (len old) (search bi)) ->
    bytes_ok old -> bytes_ok new ->
    exists cs, bsdiff_do bsz search partitions old new = Ok (cs ++ [ctrl_eof]) /\
               Forall (fun c => c_eof c = false) cs /\
               bspatch old (cs ++ [ctrl_eof]) (len new) = Some new.
Proof.
  intros bsz search partitions old new Hb Hp Hr Ho Hn.
  exact (bsdiff_do_gen_roundtrip true bsz search partitions old new Hb Hp Hr Ho Hn (or_introl eq_refl)).
Qed.

Lemma bsdiff_roundtrip_unfixed_lemma :
  forall (bsz : Z) (search : N -> list byte -> Z * Z) (partitions : Z) (old new : list byte),
    0 < bsz -> 0 <= partitions ->
    (forall bi, search_in_range (len old) (search bi)) ->
    bytes_ok old -> bytes_ok new ->
    (new = [] \/ (old <> [] /\ norm_partitions partitions (len old) <= len new)) ->
    exists cs, bsdiff_do_unfixed bsz search partitions old new = Ok (cs ++ [ctrl_eof]) /\
               Forall (fun c => c_eof c = false) cs /\
               bspatch old (cs ++ [ctrl_eof]) (len new) = Some new.
Proof.
  intros bsz search partitions old new Hb Hp Hr Ho Hn Hg.
  exact (bsdiff_do_gen_roundtrip false bsz search partitions old new Hb Hp Hr Ho Hn (or_intror Hg)).
Qed.

Lemma bsdiff_no_panic_refuted_lemma :
  (exists (search : N -> list byte -> Z * Z) (partitions : Z) (old new : list byte),
      0 <= partitions /\ (forall bi, search_in_range (len old) (search bi)) /\ bytes_ok old /\ bytes_ok new /\
      bsdiff_do_unfixed 131072 search partitions old new = Panic 3) /\
  (exists (search : N -> list byte -> Z * Z) (partitions : Z) (old new : list byte),
      0 <= partitions /\ (forall bi, search_in_range (len old) (search bi)) /\ bytes_ok old /\ bytes_ok new /\
      bsdiff_do_unfixed 131072 search partitions old new = Panic 4).
Proof.
  split.
  - exists const_search, 4, [0;1;2;0;1;2;0;1;2;0;1;2;0;1;2;0]%N, [0;1;0]%N.
    split; [lia|]. split; [apply const_search_in_range; apply len_nonneg|].
    split; [repeat constructor|]. split; [repeat constructor|]. exact unfixed_divide_by_zero.
  - exists const_search, 0, [], [0;1;0]%N.
    split; [lia|]. split; [apply const_search_in_range; apply len_nonneg|].
    split; [constructor|]. split; [repeat constructor|]. exact unfixed_empty_old.
Qed.
