(** Model of [IndividualPatchContext.Apply] at the level of the reads and seeks it issues on the
    old-file reader ([old.Seek(OldOffset, SeekStart)], then
    [io.CopyBuffer(out, io.LimitReader(&AdderReader{add, old}, len(add)), buffer)]), over an
    abstract reader [step] (a plain cursor, or [lruFile] of Bsdiff/Lru.v); [bufSize] is the 32 KiB
    copy buffer.  Outer [None] = panic / no progress, inner [None] = Apply returns an error.
    Definitions only; PatchIOProofs.v shows it equal to Bsdiff/Patch.v for every reader that
    simulates the plain one. *)
From Wharf Require Import Base.Prelude Bsdiff.Scan Bsdiff.Patch Bsdiff.Lru.
Local Open Scope Z_scope.

Section PatchIO.
  Variable R : Type.
  Variable step : R -> lop -> option (lresult * R).
  Variable bufSize : Z.

  (** CopyBuffer's loop: LimitReader caps the request at the bytes still wanted and reports EOF
      when none are; AdderReader adds [add] to what it read unless the read returned an error
      (then the raw bytes are passed on together with the error); CopyBuffer writes what it
      got, stops silently at io.EOF and returns any other error. [acc] = bytes written. *)
  Fixpoint copy_loop (fuel : nat) (r : R) (add acc : list byte) : option (option (list byte) * R) :=
    match fuel with
    | O => None
    | S f =>
        match add with
        | [] => Some (Some acc, r)
        | _ =>
            match step r (ORead (Z.min bufSize (len add))) with
            | Some (RRead data st, r') =>
                if (st =? 0)%N then
                  match data with
                  | [] => None   (* (0, nil): no progress *)
                  | _ => copy_loop f r' (skipn (length data) add) (acc ++ adder (firstn (length data) add) data)
                  end
                else if (st =? 1)%N then Some (Some (acc ++ data), r')
                else Some (None, r')
            | _ => None
            end
        end
    end.

  Definition apply_ctrl_io (r : R) (off : Z) (c : ctrl) : option (option (list byte * Z) * R) :=
    match step r (OSeek off 0) with
    | Some (RSeek _ st, r1) =>
        if negb (st =? 0)%N then Some (None, r1)
        else
          match c_add c with
          | [] => Some (Some (c_copy c, off + c_seek c), r1)
          | add =>
              match copy_loop (S (length add)) r1 add [] with
              | None => None
              | Some (None, r2) => Some (None, r2)
              | Some (Some out, r2) =>
                  if len out =? len add    (* "expected to copy %d bytes but copied %d" *)
                  then Some (Some (out ++ c_copy c, off + len add + c_seek c), r2)
                  else Some (None, r2)
              end
          end
    | _ => None
    end.

  Fixpoint apply_series_io (r : R) (off : Z) (cs : list ctrl) : option (option (list byte * Z)) :=
    match cs with
    | [] => Some None
    | c :: rest =>
        if c_eof c then Some (Some ([], off))
        else match apply_ctrl_io r off c with
             | None => None
             | Some (None, _) => Some None
             | Some (Some (o, off'), r') =>
                 match apply_series_io r' off' rest with
                 | None => None
                 | Some None => Some None
                 | Some (Some (o2, offf)) => Some (Some (o ++ o2, offf))
                 end
             end
    end.

  Definition bspatch_io (r : R) (cs : list ctrl) (newSize : Z) : option (option (list byte)) :=
    match apply_series_io r 0 cs with
    | None => None
    | Some None => Some None
    | Some (Some (o, _)) => if len o =? newSize then Some (Some o) else Some None
    end.
End PatchIO.

(** the patcher reading old through lrufile over simplelru *)
Definition lru_step (chunkSize : Z) (entries : nat) (file : list byte) (s : lf lru_list) (op : lop) : option (lresult * lf lru_list) :=
  match lf_step lru_list ll_get (ll_add entries) chunkSize file s op with
  | LOk (res, s') => Some (res, s')
  | _ => None
  end.

Definition bspatch_lru (chunkSize : Z) (entries : nat) (bufSize : Z) (old : list byte) (cs : list ctrl) (newSize : Z) : option (option (list byte)) :=
  bspatch_io (lf lru_list) (lru_step chunkSize entries old) bufSize
             (lf_init lru_list [] (repeat (repeat 0%N (Z.to_nat chunkSize)) entries)) cs newSize.
