(** C06, model part 2: the archive healer (pwr/archive_healer.go: [Do]/[processWound], the
    [heal] worker goroutine with lake's [fspool.GetWriter]) and the three-thread transition
    system validator / healer / heal worker with the wound channel of capacity [cap] between
    validator and healer and the (never full) file queue between healer and worker.

    The schedule is an explicit argument: [run] takes a list of thread ids; a step of a thread
    that is blocked or finished leaves the state unchanged. *)
From Wharf Require Import FS.Light FS.Tree FS.Ops Heal.Validator.

Inductive hphase :=
| HRun                       (* for wound := range wounds *)
| HWait                      (* close(fileIndices); <-errs *)
| HDone (r : res unit).

Inductive wphase :=
| WIdle                                      (* waiting on fileIndices *)
| WWriting (q : path) (data : list N)        (* GetWriter done, ctxcopy.Do pending *)
| WExit (r : res unit).

Record state := mkS {
  s_fs : tree;
  s_v : vstate;
  s_chan : list wound;               (* vctx.Wounds, FIFO, head = oldest *)
  s_closed : bool;
  s_h : hphase;
  s_queued : list path;              (* the healer's [files] set *)
  s_wq : list (path * list N);       (* fileIndices *)
  s_wq_closed : bool;
  s_w : wphase }.

Definition init (b : build) (t : tree) : state :=
  mkS t (mkV VInit [] []) [] false HRun [] [] false WIdle.

Definition parent (p : path) : path := removelast p.

Section Steps.
Variable fx : fixes.
Variable cap : nat.
Variable b : build.
Variable T : path.

Definition set_v (s : state) (v : vstate) : state :=
  mkS (s_fs s) v (s_chan s) (s_closed s) (s_h s) (s_queued s) (s_wq s) (s_wq_closed s) (s_w s).

(** the verdict of a check moves the validator on *)
Definition after_check (s : state) (next : vphase) (newwd : list path) (v : verdict) : state :=
  match v with
  | Wounds ws => set_v s (mkV next ws newwd)
  | Fail e => set_v s (mkV (VFail e) [] (v_wd (s_v s)))
  end.

Definition vstep (s : state) : option state :=
  let v := s_v s in
  match v_pend v with
  | w :: ws =>
      if Nat.ltb (length (s_chan s)) cap
      then Some (mkS (s_fs s) (mkV (v_phase v) ws (v_wd v)) (s_chan s ++ [w]) (s_closed s) (s_h s)
                     (s_queued s) (s_wq s) (s_wq_closed s) (s_w s))
      else None
  | [] =>
      match v_phase v with
      | VInit =>
          match mkdir_all (s_fs s) T with
          | Ok t' => Some (mkS t' (mkV (VDirs (b_dirs b)) [] []) (s_chan s) (s_closed s) (s_h s)
                               (s_queued s) (s_wq s) (s_wq_closed s) (s_w s))
          | Err e => Some (set_v s (mkV (VFail e) [] []))
          end
      | VDirs [] => Some (set_v s (mkV (VLinks (b_links b)) [] (v_wd v)))
      | VDirs (d :: rest) =>
          let r := check_dir fx (s_fs s) T (v_wd v) d in
          Some (after_check s (VDirs rest) (match r with Wounds (_ :: _) => d :: v_wd v | _ => v_wd v end) r)
      | VLinks [] => Some (set_v s (mkV (VFiles (b_files b)) [] (v_wd v)))
      | VLinks ((l, dest) :: rest) =>
          Some (after_check s (VLinks rest) (v_wd v) (check_link fx (s_fs s) T (v_wd v) l dest))
      | VFiles [] => Some (set_v s (mkV VClose [] (v_wd v)))
      | VFiles ((f, data) :: rest) =>
          Some (after_check s (VFiles rest) (v_wd v) (check_file fx (s_fs s) T (v_wd v) f data))
      | VClose => Some (mkS (s_fs s) (mkV VDone [] (v_wd v)) (s_chan s) true (s_h s)
                            (s_queued s) (s_wq s) (s_wq_closed s) (s_w s))
      | VDone | VFail _ => None
      end
  end.

(** [processWound] on the filesystem *)
Definition heal_dir (t : tree) (d : path) : res tree :=
  match lstat t (T ++ d) with
  | Ok Dir => Ok t
  | Ok _ =>
      match remove t (T ++ d) with
      | Err e => Err e
      | Ok t1 => mkdir_all t1 (T ++ d)
      end
  | Err _ => mkdir_all t (T ++ d)
  end.

Definition heal_link (t : tree) (l : path) (dest : list comp) : res tree :=
  match mkdir_all t (parent (T ++ l)) with
  | Err e => Err e
  | Ok t1 =>
      let r := match lstat t1 (T ++ l) with
               | Ok Dir => remove_all t1 (T ++ l)
               | Ok _ => remove t1 (T ++ l)
               | Err _ => Ok t1
               end in
      match r with
      | Err e => Err e
      | Ok t2 => symlink t2 dest (T ++ l)
      end
  end.

(** [fspool.GetWriter] *)
Definition get_writer (t : tree) (f : path) : res (tree * path) :=
  match mkdir_all t (parent (T ++ f)) with
  | Err e => Err e
  | Ok t1 =>
      let r := match lstat t1 (T ++ f) with
               | Ok Dir => remove_all t1 (T ++ f)
               | Ok (Link _) => remove t1 (T ++ f)
               | _ => Ok t1
               end in
      match r with
      | Err e => Err e
      | Ok t2 => open_trunc t2 (T ++ f)
      end
  end.

Definition set_fs_chan_h (s : state) (t : tree) (ch : list wound) (h : hphase) : state :=
  mkS t (s_v s) ch (s_closed s) h (s_queued s) (s_wq s) (s_wq_closed s) (s_w s).

Definition hstep (s : state) : option state :=
  match s_h s with
  | HRun =>
      match s_chan s with
      | w :: ch =>
          match w with
          | WDir d =>
              match heal_dir (s_fs s) d with
              | Ok t' => Some (set_fs_chan_h s t' ch HRun)
              | Err e => Some (set_fs_chan_h s (s_fs s) ch (HDone (Err e)))
              end
          | WLink l dest =>
              match heal_link (s_fs s) l dest with
              | Ok t' => Some (set_fs_chan_h s t' ch HRun)
              | Err e => Some (set_fs_chan_h s (s_fs s) ch (HDone (Err e)))
              end
          | WFile f data =>
              if existsb (path_eqb f) (s_queued s) then Some (set_fs_chan_h s (s_fs s) ch HRun)
              else
                match s_w s with
                | WExit (Err e) => Some (set_fs_chan_h s (s_fs s) ch (HDone (Err e)))
                | _ => Some (mkS (s_fs s) (s_v s) ch (s_closed s) HRun (f :: s_queued s)
                                 (s_wq s ++ [(f, data)]) (s_wq_closed s) (s_w s))
                end
          | WClosed _ => Some (set_fs_chan_h s (s_fs s) ch HRun)
          end
      | [] =>
          if s_closed s
          then Some (mkS (s_fs s) (s_v s) [] (s_closed s) HWait (s_queued s) (s_wq s) true (s_w s))
          else None
      end
  | HWait =>
      match s_w s with
      | WExit r => Some (set_fs_chan_h s (s_fs s) (s_chan s) (HDone r))
      | _ => None
      end
  | HDone _ => None
  end.

Definition set_fs_wq_w (s : state) (t : tree) (wq : list (path * list N)) (w : wphase) : state :=
  mkS t (s_v s) (s_chan s) (s_closed s) (s_h s) (s_queued s) wq (s_wq_closed s) w.

Definition wstep (s : state) : option state :=
  match s_w s with
  | WIdle =>
      match s_wq s with
      | (f, data) :: wq =>
          match get_writer (s_fs s) f with
          | Ok (t', q) => Some (set_fs_wq_w s t' wq (WWriting q data))
          | Err e => Some (set_fs_wq_w s (s_fs s) wq (WExit (Err e)))
          end
      | [] => if s_wq_closed s then Some (set_fs_wq_w s (s_fs s) [] (WExit (Ok tt))) else None
      end
  | WWriting q data => Some (set_fs_wq_w s (write_fd (s_fs s) q data) (s_wq s) WIdle)
  | WExit _ => None
  end.

Inductive tid := TV | TH | TW.

Definition step (s : state) (i : tid) : option state :=
  match i with TV => vstep s | TH => hstep s | TW => wstep s end.

Definition step_or_stay (s : state) (i : tid) : state :=
  match step s i with Some s' => s' | None => s end.

Definition run (sched : list tid) (s : state) : state := fold_left step_or_stay sched s.

(** [Validate] has returned: with an error of its own, or after the healer has *)
Definition terminal (s : state) : bool :=
  match v_phase (s_v s), s_h s with
  | VFail _, _ => true
  | VDone, HDone _ => true
  | _, _ => false
  end.

Definition result (s : state) : option (res unit) :=
  match v_phase (s_v s), s_h s with
  | VFail e, _ => Some (Err e)
  | VDone, HDone r => Some r
  | _, _ => None
  end.

(** a deterministic completion: at every step the first thread of [prio] that can move does;
    stops when nobody can (or the fuel is out) *)
Fixpoint first_step (s : state) (prio : list tid) : option state :=
  match prio with
  | [] => None
  | i :: r => match step s i with Some s' => Some s' | None => first_step s r end
  end.

Fixpoint finish (fuel : nat) (prio : list tid) (s : state) : state :=
  match fuel with
  | O => s
  | S f => match first_step s prio with Some s' => finish f prio s' | None => s end
  end.

End Steps.

(** the whole build is there, literally: every entry at its path with the signed content *)
Definition restored (b : build) (T : path) (t : tree) : Prop :=
  (forall d, In d (b_dirs b) -> lstat t (T ++ d) = Ok Dir) /\
  (forall l dest, In (l, dest) (b_links b) -> readlink t (T ++ l) = Ok dest) /\
  (forall f data, In (f, data) (b_files b) -> lstat t (T ++ f) = Ok (File data) /\ read_file t (T ++ f) = Ok data).

Definition restoredb (b : build) (T : path) (t : tree) : bool :=
  forallb (fun d => match lstat t (T ++ d) with Ok Dir => true | _ => false end) (b_dirs b)
  && forallb (fun l => match readlink t (T ++ fst l) with Ok d => dest_eqb d (snd l) | _ => false end) (b_links b)
  && forallb (fun f => match lstat t (T ++ fst f), read_file t (T ++ fst f) with
                       | Ok (File d), Ok d' => nlist_eqb d (snd f) && nlist_eqb d' (snd f)
                       | _, _ => false
                       end) (b_files b).

(** the containers the validator is given ([tlc.WalkDir]): no empty path, all paths distinct,
    every proper prefix of an entry is a directory listed before it, and nothing is listed
    below a symlink or a file *)
Definition all_paths (b : build) : list path := b_dirs b ++ map fst (b_links b) ++ map fst (b_files b).

Fixpoint nodupb (l : list path) : bool :=
  match l with
  | [] => true
  | p :: r => negb (existsb (path_eqb p) r) && nodupb r
  end.

Definition nonempty_prefixes (p : path) : list path := filter (fun a => negb (path_eqb a [])) (prefixes p).

Fixpoint parents_first (seen : list path) (ds : list path) : bool :=
  match ds with
  | [] => true
  | d :: r => forallb (fun a => existsb (path_eqb a) seen) (nonempty_prefixes d) && parents_first (d :: seen) r
  end.

Definition wf_build (b : build) : bool :=
  forallb (fun p => negb (path_eqb p [])) (all_paths b)
  && nodupb (all_paths b)
  && parents_first [] (b_dirs b)
  && forallb (fun p => forallb (fun a => existsb (path_eqb a) (b_dirs b)) (nonempty_prefixes p))
             (map fst (b_links b) ++ map fst (b_files b)).

(** the target is absent or a directory, below real directories *)
Definition init_ok (T : path) (t : tree) : bool :=
  forallb (fun a => match node_at t a with Some Dir => true | _ => false end) (prefixes T)
  && match node_at t T with None | Some Dir => true | _ => false end.
