(** C06 proofs, part 6: the granular system of [Heal/Granular.v] (one filesystem operation per
    step) REFINES the atomic system of [Heal/Healer.v] (one entry check / one [processWound] /
    one [GetWriter] per step), for the repaired code.

    The abstraction [abs] finishes the [processWound] / [GetWriter] in progress and forgets the
    validator's half-done entry check.  Every granular step is then either invisible
    ([abs g' = abs g], and the number of operations left inside the calls in progress goes
    down) or exactly one step of the atomic system from [abs g] to [abs g'].  The commutations
    that make this work:
    - the healer inside [processWound] for entry [e] and the worker inside [GetWriter] for a file
      [e] change the tree at and below [T ++ e] only ([frame]); they are never active at the same
      time, and the validator never writes after [MkdirAll(target)];
    - the entry [e'] the validator is checking has no wound yet, so [e' <> e]; if [e'] is below
      [e], then [e] is a wounded directory and the repaired validator does not look at the disk
      for [e']; otherwise Lstat / Readlink / read of [T ++ e'] give the same answers on the
      current tree and on the tree with the call in progress finished;
    - between the validator's Lstat and its Readlink / read of the same entry nobody touches
      that entry.
    All invariants of the atomic system ([Inv], [Inv2]) hold of [abs g] for free, because
    [abs g] is reachable in the atomic system. *)
From Coq Require Import Arith Lia.
From Wharf Require Import FS.Light FS.Tree FS.TreeProofs FS.Ops FS.OpsProofs
     Heal.Validator Heal.Healer Heal.HealLemmas Heal.HealProofs Heal.HealMeasure Heal.HealMain
     Heal.HealInv2 Heal.Granular.

(** ---------- one operation at a time vs. the rest of the call ---------- *)
Section Ops.
Variable T : path.

Lemma hop_ok_complete : forall pc t t' pc', pc <> HP0 ->
  hop T pc t = Ok (t', pc') -> complete_h T pc' t' = complete_h T pc t.
Proof.
  intros pc t t' pc' Hne H. destruct pc as [|d|d|d|l dest|l dest|l dest|l dest|l dest]; try congruence; cbn in H |- *.
  - unfold heal_dir. destruct (lstat t (T ++ d)) as [[| |]|]; inversion H; subst; reflexivity.
  - destruct (remove t (T ++ d)); inversion H; subst. reflexivity.
  - destruct (mkdir_all t (T ++ d)); inversion H; subst. reflexivity.
  - unfold heal_link. destruct (mkdir_all t (parent (T ++ l))); inversion H; subst. reflexivity.
  - destruct (lstat t (T ++ l)) as [[| |]|]; inversion H; subst; reflexivity.
  - destruct (remove_all t (T ++ l)); inversion H; subst. reflexivity.
  - destruct (remove t (T ++ l)); inversion H; subst. reflexivity.
  - destruct (symlink t dest (T ++ l)); inversion H; subst. reflexivity.
Qed.

Lemma hop_err_complete : forall pc t e, hop T pc t = Err e -> complete_h T pc t = Err e.
Proof.
  intros pc t e H. destruct pc as [|d|d|d|l dest|l dest|l dest|l dest|l dest]; cbn in H |- *; try discriminate.
  - destruct (lstat t (T ++ d)) as [[| |]|]; discriminate.
  - destruct (remove t (T ++ d)); [discriminate | inversion H; reflexivity].
  - destruct (mkdir_all t (T ++ d)); [discriminate | inversion H; reflexivity].
  - unfold heal_link. destruct (mkdir_all t (parent (T ++ l))); [discriminate | inversion H; reflexivity].
  - destruct (lstat t (T ++ l)) as [[| |]|]; discriminate.
  - destruct (remove_all t (T ++ l)); [discriminate | inversion H; reflexivity].
  - destruct (remove t (T ++ l)); [discriminate | inversion H; reflexivity].
  - destruct (symlink t dest (T ++ l)); [discriminate | inversion H; reflexivity].
Qed.

Lemma wop_inl_complete : forall pc t t' pc', pc <> WP0 ->
  wop T pc t = Ok (t', inl pc') -> complete_w T pc' t' = complete_w T pc t /\ wpc_data pc' = wpc_data pc /\ pc' <> WP0.
Proof.
  intros pc t t' pc' Hne H. destruct pc as [|f data|f data|f data|f data|f data]; try congruence; cbn in H |- *.
  - unfold get_writer. destruct (mkdir_all t (parent (T ++ f))); inversion H; subst. repeat split; discriminate.
  - destruct (lstat t (T ++ f)) as [[| |]|]; inversion H; subst; repeat split; discriminate.
  - destruct (remove_all t (T ++ f)); inversion H; subst. repeat split; discriminate.
  - destruct (remove t (T ++ f)); inversion H; subst. repeat split; discriminate.
  - destruct (open_trunc t (T ++ f)) as [[? ?]|]; inversion H.
Qed.

Lemma wop_inr_complete : forall pc t t' q,
  wop T pc t = Ok (t', inr q) -> complete_w T pc t = Ok (t', q).
Proof.
  intros pc t t' q H. destruct pc as [|f data|f data|f data|f data|f data]; cbn in H |- *; try discriminate.
  - destruct (mkdir_all t (parent (T ++ f))); inversion H.
  - destruct (lstat t (T ++ f)) as [[| |]|]; inversion H.
  - destruct (remove_all t (T ++ f)); inversion H.
  - destruct (remove t (T ++ f)); inversion H.
  - destruct (open_trunc t (T ++ f)) as [[? ?]|]; inversion H; subst. reflexivity.
Qed.

Lemma wop_err_complete : forall pc t e, pc <> WP0 -> wop T pc t = Err e -> complete_w T pc t = Err e.
Proof.
  intros pc t e Hne H. destruct pc as [|f data|f data|f data|f data|f data]; try congruence; cbn in H |- *.
  - unfold get_writer. destruct (mkdir_all t (parent (T ++ f))); [discriminate | inversion H; reflexivity].
  - destruct (lstat t (T ++ f)) as [[| |]|]; discriminate.
  - destruct (remove_all t (T ++ f)); [discriminate | inversion H; reflexivity].
  - destruct (remove t (T ++ f)); [discriminate | inversion H; reflexivity].
  - destruct (open_trunc t (T ++ f)) as [[? ?]|]; [discriminate | inversion H; reflexivity].
Qed.

(** ---- on an entry whose ancestors are real directories every operation succeeds and changes
        the tree at and below the entry only ---- *)

Definition hwound (pc : hpc) : option wound :=
  match pc with
  | HP0 => None
  | HPDirLstat d | HPDirRemove d | HPDirMkdir d => Some (WDir d)
  | HPLinkMkdir l dest | HPLinkLstat l dest | HPLinkRemoveAll l dest | HPLinkRemove l dest
  | HPLinkSymlink l dest => Some (WLink l dest)
  end.

(** what the healer knows about the entry from its previous operation *)
Definition hfact (pc : hpc) (t : tree) : Prop :=
  match pc with
  | HPDirRemove d | HPLinkRemove d _ => exists n, lookup t (T ++ d) = Some n /\ n <> Dir
  | HPDirMkdir d | HPLinkSymlink d _ => node_at t (T ++ d) = None
  | _ => True
  end.

Lemma hop_spec : forall pc t w p,
  hwound pc = Some w -> wpath w = Some p -> p <> [] -> lit t (T ++ p) -> hfact pc t ->
  exists t' pc', hop T pc t = Ok (t', pc') /\ frame (T ++ p) t t' /\ lit t' (T ++ p) /\
                 hrank pc' < hrank pc /\ (pc' = HP0 \/ (hwound pc' = Some w /\ hfact pc' t')).
Proof.
  intros pc t w p Hw Hp Hne Hl Hf.
  assert (Hq : T ++ p <> []) by (apply app_nonempty; exact Hne).
  assert (Hlstat : lstat t (T ++ p) = match node_at t (T ++ p) with Some n => Ok n | None => Err ENOENT end)
    by (apply lstat_lit; exact Hl).
  assert (Hdel : lit (del t (T ++ p)) (T ++ p) /\ node_at (del t (T ++ p)) (T ++ p) = None).
  { split; [eapply lit_frame; [apply frame_del; exact Hq | exact Hl]|].
    rewrite node_at_del by exact Hq. rewrite path_eqb_refl. reflexivity. }
  destruct pc as [|d|d|d|l dest|l dest|l dest|l dest|l dest]; cbn in Hw; inversion Hw; subst w;
    cbn in Hp; inversion Hp; subst p; cbn [hop hfact hrank] in *.
  - rewrite Hlstat. destruct (node_at t (T ++ d)) as [[data| |dest]|] eqn:E.
    + exists t, (HPDirRemove d). repeat split; try (apply frame_refl); try assumption; try (cbn [hrank wrank]; lia).
      right. split; [reflexivity|]. exists (File data). split; [rewrite <- node_at_nonempty by exact Hq; exact E | discriminate].
    + exists t, HP0. repeat split; try (apply frame_refl); try assumption; try (cbn [hrank wrank]; lia). left. reflexivity.
    + exists t, (HPDirRemove d). repeat split; try (apply frame_refl); try assumption; try (cbn [hrank wrank]; lia).
      right. split; [reflexivity|]. exists (Link dest). split; [rewrite <- node_at_nonempty by exact Hq; exact E | discriminate].
    + exists t, (HPDirMkdir d). repeat split; try (apply frame_refl); try assumption; try (cbn [hrank wrank]; lia).
      right. split; [reflexivity | exact E].
  - rewrite remove_lit by assumption. exists (del t (T ++ d)), (HPDirMkdir d).
    repeat split; try (apply frame_del; exact Hq); try apply Hdel; try (cbn [hrank wrank]; lia).
    right. split; [reflexivity | apply Hdel].
  - rewrite mkdir_all_new by assumption. exists (set t (T ++ d) Dir), HP0.
    repeat split; try (apply frame_set; exact Hq); try (cbn [hrank wrank]; lia); [|left; reflexivity].
    eapply lit_frame; [apply frame_set; exact Hq | exact Hl].
  - rewrite mkdir_all_parent by assumption. exists t, (HPLinkLstat l dest).
    repeat split; try (apply frame_refl); try assumption; try (cbn [hrank wrank]; lia). right. split; [reflexivity | exact I].
  - rewrite Hlstat. destruct (node_at t (T ++ l)) as [[data| |dest']|] eqn:E.
    + exists t, (HPLinkRemove l dest). repeat split; try (apply frame_refl); try assumption; try (cbn [hrank wrank]; lia).
      right. split; [reflexivity|]. exists (File data). split; [rewrite <- node_at_nonempty by exact Hq; exact E | discriminate].
    + exists t, (HPLinkRemoveAll l dest). repeat split; try (apply frame_refl); try assumption; try (cbn [hrank wrank]; lia).
      right. split; [reflexivity | exact I].
    + exists t, (HPLinkRemove l dest). repeat split; try (apply frame_refl); try assumption; try (cbn [hrank wrank]; lia).
      right. split; [reflexivity|]. exists (Link dest'). split; [rewrite <- node_at_nonempty by exact Hq; exact E | discriminate].
    + exists t, (HPLinkSymlink l dest). repeat split; try (apply frame_refl); try assumption; try (cbn [hrank wrank]; lia).
      right. split; [reflexivity | exact E].
  - rewrite remove_all_lit by assumption. exists (del_tree t (T ++ l)), (HPLinkSymlink l dest).
    repeat split; try (apply frame_del_tree; exact Hq); try (cbn [hrank wrank]; lia).
    + eapply lit_frame; [apply frame_del_tree; exact Hq | exact Hl].
    + right. split; [reflexivity|]. cbn [hfact]. rewrite node_at_del_tree by exact Hq. rewrite is_prefix_refl. reflexivity.
  - rewrite remove_lit by assumption. exists (del t (T ++ l)), (HPLinkSymlink l dest).
    repeat split; try (apply frame_del; exact Hq); try apply Hdel; try (cbn [hrank wrank]; lia).
    right. split; [reflexivity | apply Hdel].
  - rewrite symlink_lit by assumption. exists (set t (T ++ l) (Link dest)), HP0.
    repeat split; try (apply frame_set; exact Hq); try (cbn [hrank wrank]; lia); [|left; reflexivity].
    eapply lit_frame; [apply frame_set; exact Hq | exact Hl].
Qed.

Lemma complete_h_spec : forall n pc t w p, hrank pc <= n ->
  hwound pc = Some w -> wpath w = Some p -> p <> [] -> lit t (T ++ p) -> hfact pc t ->
  exists A, complete_h T pc t = Ok A /\ frame (T ++ p) t A.
Proof.
  induction n as [|n IH]; intros pc t w p Hn Hw Hp Hne Hl Hf.
  - destruct pc; cbn in Hn, Hw; try (cbn [hrank wrank]; lia); discriminate.
  - destruct (hop_spec pc t w p Hw Hp Hne Hl Hf) as [t' [pc' [Hop [Hfr [Hl' [Hr Hnext]]]]]].
    assert (Hpc : pc <> HP0) by (intro X; subst pc; discriminate).
    rewrite <- (hop_ok_complete pc t t' pc' Hpc Hop).
    destruct Hnext as [-> | [Hw' Hf']].
    + exists t'. split; [reflexivity | exact Hfr].
    + destruct (IH pc' t' w p) as [A [HA HfA]]; try assumption; try (cbn [hrank wrank]; lia).
      exists A. split; [exact HA | eapply frame_trans; eassumption].
Qed.

Definition wfile (pc : wpc) : option (path * list N) :=
  match pc with
  | WP0 => None
  | WPMkdir f d | WPLstat f d | WPRemoveAll f d | WPRemove f d | WPOpen f d => Some (f, d)
  end.

Definition wfact (pc : wpc) (t : tree) : Prop :=
  match pc with
  | WPRemove f _ => exists n, lookup t (T ++ f) = Some n /\ n <> Dir
  | WPOpen f _ => node_at t (T ++ f) = None \/ exists d, node_at t (T ++ f) = Some (File d)
  | _ => True
  end.

Lemma wop_spec : forall pc t f data,
  wfile pc = Some (f, data) -> f <> [] -> lit t (T ++ f) -> wfact pc t ->
  exists t', frame (T ++ f) t t' /\ lit t' (T ++ f) /\
    ((exists pc', wop T pc t = Ok (t', inl pc') /\ wrank pc' < wrank pc /\ wfile pc' = Some (f, data) /\ wfact pc' t') \/
     (wop T pc t = Ok (t', inr (T ++ f)))).
Proof.
  intros pc t f data Hw Hne Hl Hf.
  assert (Hq : T ++ f <> []) by (apply app_nonempty; exact Hne).
  assert (Hlstat : lstat t (T ++ f) = match node_at t (T ++ f) with Some n => Ok n | None => Err ENOENT end)
    by (apply lstat_lit; exact Hl).
  destruct pc as [|f' d'|f' d'|f' d'|f' d'|f' d']; cbn in Hw; inversion Hw; subst f' d'; cbn [wop wfact wrank] in *.
  - rewrite mkdir_all_parent by assumption. exists t. split; [apply frame_refl|]. split; [exact Hl|]. left.
    exists (WPLstat f data). repeat split; cbn [hrank wrank]; lia.
  - rewrite Hlstat. exists t. split; [apply frame_refl|]. split; [exact Hl|]. left.
    destruct (node_at t (T ++ f)) as [[d0| |dest]|] eqn:E.
    + exists (WPOpen f data). repeat split; try (cbn [hrank wrank]; lia). right. exists d0. exact E.
    + exists (WPRemoveAll f data). repeat split; cbn [hrank wrank]; lia.
    + exists (WPRemove f data). repeat split; try (cbn [hrank wrank]; lia).
      exists (Link dest). split; [rewrite <- node_at_nonempty by exact Hq; exact E | discriminate].
    + exists (WPOpen f data). repeat split; try (cbn [hrank wrank]; lia). left. exact E.
  - rewrite remove_all_lit by assumption. exists (del_tree t (T ++ f)).
    split; [apply frame_del_tree; exact Hq|].
    split; [eapply lit_frame; [apply frame_del_tree; exact Hq | exact Hl]|]. left.
    exists (WPOpen f data). repeat split; try (cbn [hrank wrank]; lia). left. rewrite node_at_del_tree by exact Hq. rewrite is_prefix_refl. reflexivity.
  - rewrite remove_lit by assumption. exists (del t (T ++ f)).
    split; [apply frame_del; exact Hq|].
    split; [eapply lit_frame; [apply frame_del; exact Hq | exact Hl]|]. left.
    exists (WPOpen f data). repeat split; try (cbn [hrank wrank]; lia). left. rewrite node_at_del by exact Hq. rewrite path_eqb_refl. reflexivity.
  - rewrite open_trunc_lit by assumption. exists (set t (T ++ f) (File [])).
    split; [apply frame_set; exact Hq|].
    split; [eapply lit_frame; [apply frame_set; exact Hq | exact Hl]|]. right. reflexivity.
Qed.

Lemma complete_w_spec : forall n pc t f data, wrank pc <= n ->
  wfile pc = Some (f, data) -> f <> [] -> lit t (T ++ f) -> wfact pc t ->
  exists A, complete_w T pc t = Ok (A, T ++ f) /\ frame (T ++ f) t A.
Proof.
  induction n as [|n IH]; intros pc t f data Hn Hw Hne Hl Hf.
  - destruct pc; cbn in Hn, Hw; try (cbn [hrank wrank]; lia); discriminate.
  - assert (Hpc : pc <> WP0) by (intro X; subst pc; discriminate).
    destruct (wop_spec pc t f data Hw Hne Hl Hf) as [t' [Hfr [Hl' [[pc' [Hop [Hr [Hw' Hf']]]] | Hop]]]].
    + destruct (wop_inl_complete pc t t' pc' Hpc Hop) as [Ec _]. rewrite <- Ec.
      destruct (IH pc' t' f data) as [A [HA HfA]]; try assumption; try (cbn [hrank wrank]; lia).
      exists A. split; [exact HA | eapply frame_trans; eassumption].
    + exists t'. split; [apply wop_inr_complete; exact Hop | exact Hfr].
Qed.

(** ---- reading at a path that the changes do not reach ---- *)

Lemma obs_frame : forall p t t' q, frame p t t' -> is_prefix p q = false -> lit t' q ->
  lit t q /\ node_at t q = node_at t' q.
Proof.
  intros p t t' q Hf Hq Hl. split.
  - intros a Ha. rewrite <- (Hf a); [apply Hl; exact Ha|].
    apply is_prefix_false. intros [r E]. apply prefixes_spec in Ha as [r' [_ E']].
    apply is_prefix_false in Hq. apply Hq. exists (r ++ r'). rewrite E', E, app_assoc. reflexivity.
  - symmetry. apply Hf. exact Hq.
Qed.

Lemma reads_frame : forall p t t' q, frame p t t' -> is_prefix p q = false -> lit t' q ->
  lstat t q = lstat t' q /\ readlink t q = readlink t' q /\
  ((forall d, node_at t' q <> Some (Link d)) -> read_file t q = read_file t' q).
Proof.
  intros p t t' q Hf Hq Hl. destruct (obs_frame p t t' q Hf Hq Hl) as [Hl0 E].
  split; [|split].
  - rewrite !lstat_lit by assumption. rewrite E. reflexivity.
  - rewrite !readlink_lit by assumption. rewrite E. reflexivity.
  - intro Hn. rewrite !read_file_lit; try assumption; [rewrite E; reflexivity | rewrite E; exact Hn].
Qed.

End Ops.

(** ---------- the abstraction as an overlay on the shared state ---------- *)
Section Overlay.
Variable T : path.

(** [s] with the tree [A] and the worker phase [W] *)
Definition ov (A : tree) (W : wphase) (s : state) : state :=
  mkS A (s_v s) (s_chan s) (s_closed s) (s_h s) (s_queued s) (s_wq s) (s_wq_closed s) W.

Definition fh (h : hpc) (t : tree) : tree :=
  match h with
  | HP0 => t
  | _ => match complete_h T h t with Ok t' => t' | Err _ => t end
  end.

Definition fw (w : wpc) (t : tree) : tree :=
  match w with
  | WP0 => t
  | _ => match complete_w T w t with Ok (t', _) => t' | Err _ => t end
  end.

Definition ww (w : wpc) (t : tree) (sw : wphase) : wphase :=
  match w with
  | WP0 => sw
  | _ => match complete_w T w t with Ok (_, q) => WWriting q (wpc_data w) | Err _ => sw end
  end.

Lemma ov_same : forall s, ov (s_fs s) (s_w s) s = s.
Proof. intros []. reflexivity. Qed.

Lemma abs_h_ov : forall h s, abs_h T h s = ov (fh h (s_fs s)) (s_w s) s.
Proof.
  intros h s. destruct h; cbn [abs_h fh]; try (symmetry; apply ov_same);
    (destruct (complete_h T _ (s_fs s)); [reflexivity | symmetry; apply ov_same]).
Qed.

Lemma abs_w_ov : forall w s, abs_w T w s = ov (fw w (s_fs s)) (ww w (s_fs s) (s_w s)) s.
Proof.
  intros w s. destruct w; cbn [abs_w fw ww]; try (symmetry; apply ov_same);
    (destruct (complete_w T _ (s_fs s)) as [[? ?]|]; [reflexivity | symmetry; apply ov_same]).
Qed.

Definition afs (g : gstate) : tree := fw (g_w g) (fh (g_h g) (s_fs (g_s g))).
Definition aws (g : gstate) : wphase := ww (g_w g) (fh (g_h g) (s_fs (g_s g))) (s_w (g_s g)).

Lemma abs_ov : forall g, abs T g = ov (afs g) (aws g) (g_s g).
Proof.
  intros [s pv h w]. unfold abs, afs, aws. cbn [g_s g_h g_w]. rewrite abs_w_ov, abs_h_ov. reflexivity.
Qed.

Lemma abs_fs : forall g, s_fs (abs T g) = afs g.
Proof. intro g. rewrite abs_ov. reflexivity. Qed.

Lemma abs_quiet : forall s pv, abs T (mkG s pv HP0 WP0) = s.
Proof. reflexivity. Qed.

(** the fields the abstraction does not touch *)
Lemma ov_fields : forall A W s,
  s_v (ov A W s) = s_v s /\ s_chan (ov A W s) = s_chan s /\ s_closed (ov A W s) = s_closed s /\
  s_h (ov A W s) = s_h s /\ s_queued (ov A W s) = s_queued s /\ s_wq (ov A W s) = s_wq s /\
  s_wq_closed (ov A W s) = s_wq_closed s /\ pend (ov A W s) = pend s.
Proof. intros. repeat split. Qed.

End Overlay.

(** ---------- what a validator step leaves alone ---------- *)
Section VMono.
Variable b : build.

Record vmono (s s' : state) : Prop := mkVmono {
  vm_fs : s_fs s' = s_fs s;
  vm_h : s_h s' = s_h s;
  vm_w : s_w s' = s_w s;
  vm_wq : s_wq s' = s_wq s;
  vm_q : s_queued s' = s_queued s;
  vm_ph : v_phase (s_v s') <> VInit;
  vm_todo : forall p, In p (todo b (v_phase (s_v s'))) -> In p (todo b (v_phase (s_v s)));
  vm_wd : incl (v_wd (s_v s)) (v_wd (s_v s')) }.

Lemma vmono_set_v : forall s ph ws wd,
  ph <> VInit -> (forall p, In p (todo b ph) -> In p (todo b (v_phase (s_v s)))) ->
  incl (v_wd (s_v s)) wd -> vmono s (set_v s (mkV ph ws wd)).
Proof. intros. constructor; cbn; auto. Qed.

Lemma vmono_after_check : forall s next wd v,
  next <> VInit -> (forall p, In p (todo b next) -> In p (todo b (v_phase (s_v s)))) ->
  incl (v_wd (s_v s)) wd -> vmono s (after_check s next wd v).
Proof.
  intros s next wd [ws|e] H1 H2 H3; cbn [after_check]; apply vmono_set_v; auto.
  - discriminate.
  - intros p [].
  - apply incl_refl.
Qed.

Lemma vstep_vmono : forall fx cap T s s', vstep fx cap b T s = Some s' ->
  v_phase (s_v s) <> VInit -> vmono s s'.
Proof.
  intros fx cap T s s' Hs Hph. unfold vstep in Hs.
  destruct (v_pend (s_v s)) as [|w ws] eqn:Hp.
  2:{ destruct (Nat.ltb (length (s_chan s)) cap); [|discriminate]. inversion Hs; subst s'.
      constructor; cbn; auto. apply incl_refl. }
  destruct (v_phase (s_v s)) as [|r|r|r| | |e] eqn:Eph; try congruence; try discriminate.
  - destruct r as [|d r]; inversion Hs; subst s'; clear Hs.
    + apply vmono_set_v; [discriminate | | apply incl_refl]. rewrite Eph. intros p Hin. exact Hin.
    + apply vmono_after_check; [discriminate | |].
      * rewrite Eph. intros p Hin. cbn [todo] in *. right. exact Hin.
      * destruct (check_dir fx (s_fs s) T (v_wd (s_v s)) d) as [[|]|]; [apply incl_refl | apply incl_tl, incl_refl | apply incl_refl].
  - destruct r as [|[l dest] r]; inversion Hs; subst s'; clear Hs.
    + apply vmono_set_v; [discriminate | | apply incl_refl]. rewrite Eph. intros p Hin. exact Hin.
    + apply vmono_after_check; [discriminate | | apply incl_refl].
      rewrite Eph. intros p Hin. cbn [todo map fst app] in *. right. exact Hin.
  - destruct r as [|[f data] r]; inversion Hs; subst s'; clear Hs.
    + apply vmono_set_v; [discriminate | | apply incl_refl]. intros p [].
    + apply vmono_after_check; [discriminate | | apply incl_refl].
      rewrite Eph. intros p Hin. cbn [todo map fst] in *. right. exact Hin.
  - inversion Hs; subst s'. constructor; cbn; auto; [discriminate | intros p [] | apply incl_refl].
Qed.

End VMono.

(** ---------- atomic steps under an overlay ---------- *)
Section StepOv.
Variable cap : nat.
Variable b : build.
Variable T : path.

Lemma after_check_ov : forall A W s next wd v,
  after_check (ov A W s) next wd v = ov A W (after_check s next wd v).
Proof. intros A W s next wd [ws|e]; reflexivity. Qed.

(** a validator step that is not [MkdirAll(target)] reads the tree only in the entry checks *)
Lemma vstep_ov : forall A W s,
  v_phase (s_v s) <> VInit ->
  (forall d rest, v_pend (s_v s) = [] -> v_phase (s_v s) = VDirs (d :: rest) ->
     check_dir fixed A T (v_wd (s_v s)) d = check_dir fixed (s_fs s) T (v_wd (s_v s)) d) ->
  (forall l dest rest, v_pend (s_v s) = [] -> v_phase (s_v s) = VLinks ((l, dest) :: rest) ->
     check_link fixed A T (v_wd (s_v s)) l dest = check_link fixed (s_fs s) T (v_wd (s_v s)) l dest) ->
  (forall f data rest, v_pend (s_v s) = [] -> v_phase (s_v s) = VFiles ((f, data) :: rest) ->
     check_file fixed A T (v_wd (s_v s)) f data = check_file fixed (s_fs s) T (v_wd (s_v s)) f data) ->
  vstep fixed cap b T (ov A W s) = option_map (ov A W) (vstep fixed cap b T s).
Proof.
  intros A W s Hph Hd Hl Hf. unfold vstep. cbn [ov s_v s_chan s_fs s_closed s_h s_queued s_wq s_wq_closed s_w].
  destruct (v_pend (s_v s)) as [|w ws] eqn:Hp.
  2:{ destruct (Nat.ltb (length (s_chan s)) cap); reflexivity. }
  destruct (v_phase (s_v s)) as [|r|r|r| | |e] eqn:Eph; try congruence; try reflexivity.
  - destruct r as [|d r]; [reflexivity|]. rewrite (Hd d r eq_refl eq_refl).
    cbn [option_map]. rewrite <- after_check_ov. reflexivity.
  - destruct r as [|[l dest] r]; [reflexivity|]. rewrite (Hl l dest r eq_refl eq_refl).
    cbn [option_map]. rewrite <- after_check_ov. reflexivity.
  - destruct r as [|[f data] r]; [reflexivity|]. rewrite (Hf f data r eq_refl eq_refl).
    cbn [option_map]. rewrite <- after_check_ov. reflexivity.
Qed.

(** a healer step that does not process a DIR / SYMLINK wound does not look at the tree, and at
    the worker only to see whether it has returned *)
Definition not_exit (W : wphase) : Prop := forall r, W <> WExit r.

Lemma hstep_ov : forall A W s,
  (W = s_w s \/ (not_exit W /\ not_exit (s_w s))) ->
  (forall w ch, s_h s = HRun -> s_chan s = w :: ch -> is_dl w = false) ->
  hstep T (ov A W s) = option_map (ov A W) (hstep T s).
Proof.
  intros A W s HW Hdl. unfold hstep. cbn [ov s_v s_chan s_fs s_closed s_h s_queued s_wq s_wq_closed s_w].
  destruct (s_h s) eqn:Hh.
  - destruct (s_chan s) as [|w ch] eqn:Hch.
    + destruct (s_closed s); reflexivity.
    + specialize (Hdl w ch eq_refl eq_refl). destruct w as [d | l dest | f data | f]; try discriminate.
      * destruct (existsb (path_eqb f) (s_queued s)); [reflexivity|].
        destruct HW as [-> | [H1 H2]].
        -- destruct (s_w s) as [| |[|e]]; reflexivity.
        -- destruct W as [| |r1]; [| |exfalso; eapply H1; reflexivity];
             (destruct (s_w s) as [| |r2]; [| |exfalso; eapply H2; reflexivity]); reflexivity.
      * reflexivity.
  - destruct HW as [-> | [H1 H2]].
    + destruct (s_w s); reflexivity.
    + destruct W as [| |r1]; [| |exfalso; eapply H1; reflexivity];
        (destruct (s_w s) as [| |r2]; [| |exfalso; eapply H2; reflexivity]); reflexivity.
  - reflexivity.
Qed.

(** what such a healer step leaves alone *)
Lemma hstep_quiet : forall s s',
  hstep T s = Some s' ->
  (forall w ch, s_h s = HRun -> s_chan s = w :: ch -> is_dl w = false) ->
  s_fs s' = s_fs s /\ s_v s' = s_v s /\ s_w s' = s_w s /\ incl (s_queued s) (s_queued s').
Proof.
  intros s s' Hs Hdl. unfold hstep in Hs.
  destruct (s_h s) eqn:Hh.
  - destruct (s_chan s) as [|w ch] eqn:Hch.
    + destruct (s_closed s); [|discriminate]. inversion Hs; subst s'. cbn. repeat split. apply incl_refl.
    + specialize (Hdl w ch eq_refl eq_refl). destruct w as [d | l dest | f data | f]; try discriminate.
      * destruct (existsb (path_eqb f) (s_queued s)).
        -- inversion Hs; subst s'. cbn. repeat split. apply incl_refl.
        -- destruct (s_w s) as [| |[|e]] eqn:Ew; inversion Hs; subst s'; cbn; repeat split; auto;
             try (apply incl_tl, incl_refl); apply incl_refl.
      * inversion Hs; subst s'. cbn. repeat split. apply incl_refl.
  - destruct (s_w s) eqn:Ew; try discriminate. inversion Hs; subst s'. cbn. repeat split; auto. apply incl_refl.
  - discriminate.
Qed.

End StepOv.

(** ---------- the simulation ---------- *)
Section Sim.
Variable cap : nat.
Hypothesis cap_pos : 0 < cap.
Variable b : build.
Hypothesis wf : wf_build b = true.
Variable T : path.

Local Notation abs := (abs T).
Local Notation step := (step fixed cap b T).
Local Notation gstep := (gstep fixed cap b T).
Local Notation gvstep := (gvstep fixed cap b T).
Local Notation ghstep := (ghstep T).
Local Notation gwstep := (gwstep T).
Local Notation INV := (INV b T).
Local Notation Inv := (Inv b T).
Local Notation Inv2 := (Inv2 b).
Local Notation todo := (todo b).

(** the entry the validator is checking *)
Definition cur (ph : vphase) : option path :=
  match ph with
  | VDirs (d :: _) => Some d
  | VLinks ((l, _) :: _) => Some l
  | VFiles ((f, _) :: _) => Some f
  | _ => None
  end.

(** the validator between the two calls of one check: the Lstat result that let it go on still
    holds (on the abstract tree) *)
Definition LvP (pv : vpc) (v : vstate) (A : tree) : Prop :=
  pv = VP0 \/
  (v_pend v = [] /\
   match v_phase v with
   | VLinks ((l, _) :: _) =>
       under_wd fixed (v_wd v) l = false /\ (forall n, lstat A (T ++ l) = Ok n -> exists d, n = Link d)
   | VFiles ((f, _) :: _) =>
       under_wd fixed (v_wd v) f = false /\ (forall n, lstat A (T ++ f) = Ok n -> exists d, n = File d)
   | _ => False
   end).

(** the healer inside [processWound]: nobody else writes, the entry's ancestors are real
    directories, the validator is past the entry *)
Definition Lh (g : gstate) : Prop :=
  g_h g = HP0 \/
  exists w p, hwound (g_h g) = Some w /\ wpath w = Some p /\ wound_ok b w /\
    lit (g_fs g) (T ++ p) /\ hfact T (g_h g) (g_fs g) /\
    s_h (g_s g) = HRun /\ g_w g = WP0 /\ s_w (g_s g) = WIdle /\ s_wq (g_s g) = [] /\
    s_queued (g_s g) = [] /\ v_phase (s_v (g_s g)) <> VInit /\
    ~ In p (todo (v_phase (s_v (g_s g)))) /\
    (forall d, w = WDir d -> In d (v_wd (s_v (g_s g)))).

(** the worker inside [GetWriter] *)
Definition Lw (g : gstate) : Prop :=
  g_w g = WP0 \/
  exists f data, wfile (g_w g) = Some (f, data) /\ In (f, data) (b_files b) /\
    lit (g_fs g) (T ++ f) /\ wfact T (g_w g) (g_fs g) /\
    s_w (g_s g) = WIdle /\ In f (s_queued (g_s g)) /\ v_phase (s_v (g_s g)) <> VInit.

Record GI (g : gstate) : Prop := mkGI {
  gi_inv : INV (abs g);
  gi_inv2 : Inv2 (abs g);
  gi_v : LvP (g_v g) (s_v (g_s g)) (s_fs (abs g));
  gi_h : Lh g;
  gi_w : Lw g }.

Lemma wound_path_ne : forall w p, wound_ok b w -> wpath w = Some p -> p <> [] /\ In p (all_paths b).
Proof.
  intros w p Hok Hp.
  assert (Hin : In p (all_paths b)).
  { destruct w; cbn in Hp; inversion Hp; subst; cbn in Hok.
    - apply in_all_dir. exact Hok.
    - eapply in_all_link; exact Hok.
    - eapply in_all_file; exact Hok. }
  split; [apply (wf_nonempty b wf); exact Hin | exact Hin].
Qed.

(** the three shapes of a state *)
Inductive shape (g : gstate) : Prop :=
| ShQuiet : g_h g = HP0 -> g_w g = WP0 -> abs g = g_s g -> shape g
| ShHeal : forall w p A, g_w g = WP0 -> hwound (g_h g) = Some w -> wpath w = Some p -> wound_ok b w ->
    ~ In p (todo (v_phase (s_v (g_s g)))) -> (forall d, w = WDir d -> In d (v_wd (s_v (g_s g)))) ->
    complete_h T (g_h g) (g_fs g) = Ok A -> frame (T ++ p) (g_fs g) A ->
    abs g = set_fs (g_s g) A -> shape g
| ShWrite : forall f data A, g_h g = HP0 -> wfile (g_w g) = Some (f, data) -> In (f, data) (b_files b) ->
    In f (s_queued (g_s g)) -> s_w (g_s g) = WIdle ->
    complete_w T (g_w g) (g_fs g) = Ok (A, T ++ f) -> frame (T ++ f) (g_fs g) A ->
    abs g = set_fs_wq_w (g_s g) A (s_wq (g_s g)) (WWriting (T ++ f) data) -> shape g.

Lemma wfile_data : forall pc f data, wfile pc = Some (f, data) -> wpc_data pc = data.
Proof. intros pc f data H; destruct pc; cbn in H; inversion H; reflexivity. Qed.

Lemma get_shape : forall g, Lh g -> Lw g -> shape g.
Proof.
  intros [s pv h w] Hh Hw. unfold Lh, Lw, g_fs in *. cbn [g_s g_h g_w] in *.
  destruct Hh as [-> | (wd & p & H1 & H2 & H3 & H4 & H5 & H6 & -> & H8 & H9 & H10 & H11 & H12 & H13)].
  - destruct Hw as [-> | (f & data & H1 & H2 & H3 & H4 & H5 & H6 & H7)].
    + apply ShQuiet; reflexivity.
    + assert (Hne : f <> []) by (eapply (wf_nonempty b wf), in_all_file, H2).
      destruct (complete_w_spec T (wrank w) w (s_fs s) f data (le_n _) H1 Hne H3 H4) as [A [HA HfA]].
      apply (ShWrite _ f data A); cbn [g_s g_h g_w]; unfold g_fs; cbn [g_s]; try assumption; try reflexivity.
      unfold Granular.abs. cbn [g_s g_h g_w abs_h]. destruct w; try discriminate;
        cbn [abs_w]; rewrite HA; rewrite (wfile_data _ _ _ H1); reflexivity.
  - destruct (wound_path_ne wd p H3 H2) as [Hne _].
    destruct (complete_h_spec T (hrank h) h (s_fs s) wd p (le_n _) H1 H2 Hne H4 H5) as [A [HA HfA]].
    apply (ShHeal _ wd p A); cbn [g_s g_h g_w]; unfold g_fs; cbn [g_s]; try assumption; try reflexivity.
    unfold Granular.abs. cbn [g_s g_h g_w abs_w]. destruct h; try discriminate; cbn [abs_h]; rewrite HA; reflexivity.
Qed.

Lemma under_wd_true : forall wd p a, In a (prefixes p) -> a <> [] -> In a wd -> under_wd fixed wd p = true.
Proof.
  intros wd p a Ha Hn Hin. destruct (under_wd fixed wd p) eqn:E; [reflexivity|].
  exfalso. eapply under_wd_false; eassumption.
Qed.

Lemma inv_of_INV : forall s, INV s -> v_phase (s_v s) <> VInit -> Inv s.
Proof.
  intros s [H0 | HI] Hph; [|exact HI]. destruct H0 as [_ [Hv _]]. rewrite Hv in Hph. cbn in Hph. congruence.
Qed.

(** the entry being checked: it is listed, still to do, and (if not below a wounded directory)
    all its ancestors are real directories on the abstract tree *)
Lemma cur_spec : forall s e, Inv s -> cur (v_phase (s_v s)) = Some e ->
  In e (all_paths b) /\ In e (todo (v_phase (s_v s))) /\
  (under_wd fixed (v_wd (s_v s)) e = false -> lit (s_fs s) (T ++ e)).
Proof.
  intros s e HI Hc. destruct (i_prog _ _ _ HI) as [dd [dl [df [Hpr [Hcl Hwd]]]]].
  destruct (v_phase (s_v s)) as [|r|r|r| | |x] eqn:Hph; cbn in Hc; try discriminate.
  - destruct r as [|d r]; inversion Hc; subst e. cbn in Hpr. destruct Hpr as [Ed [-> ->]].
    assert (Hin : In d (b_dirs b)) by (rewrite Ed; apply in_or_app; right; left; reflexivity).
    split; [apply in_all_dir; exact Hin|]. split; [left; reflexivity|].
    intro U. apply anc_lit; [apply (i_base _ _ _ HI)|].
    eapply anc_from_claims; [exact Hcl | | exact U]. eapply wf_dir_anc; eassumption.
  - destruct r as [|[l dest] r]; inversion Hc; subst e. cbn in Hpr. destruct Hpr as [-> [El ->]].
    assert (Hin : In (l, dest) (b_links b)) by (rewrite El; apply in_or_app; right; left; reflexivity).
    split; [eapply in_all_link; exact Hin|]. split; [left; reflexivity|].
    intro U. apply anc_lit; [apply (i_base _ _ _ HI)|].
    eapply anc_from_claims; [exact Hcl | | exact U]. apply (wf_lf_anc b wf). eapply in_lf_link. exact Hin.
  - destruct r as [|[f data] r]; inversion Hc; subst e. cbn in Hpr. destruct Hpr as [-> [-> Ef]].
    assert (Hin : In (f, data) (b_files b)) by (rewrite Ef; apply in_or_app; right; left; reflexivity).
    split; [eapply in_all_file; exact Hin|]. split; [left; reflexivity|].
    intro U. apply anc_lit; [apply (i_base _ _ _ HI)|].
    eapply anc_from_claims; [exact Hcl | | exact U]. apply (wf_lf_anc b wf). eapply in_lf_file. exact Hin.
Qed.

(** THE COMMUTATION: what the validator reads for the entry it is checking is the same on the
    current tree and on the tree with the call in progress finished *)
Lemma agree : forall g e, GI g -> v_phase (s_v (g_s g)) <> VInit ->
  cur (v_phase (s_v (g_s g))) = Some e -> under_wd fixed (v_wd (s_v (g_s g))) e = false ->
  lit (s_fs (abs g)) (T ++ e) /\
  lstat (g_fs g) (T ++ e) = lstat (s_fs (abs g)) (T ++ e) /\
  readlink (g_fs g) (T ++ e) = readlink (s_fs (abs g)) (T ++ e) /\
  ((forall d, node_at (s_fs (abs g)) (T ++ e) <> Some (Link d)) ->
   read_file (g_fs g) (T ++ e) = read_file (s_fs (abs g)) (T ++ e)).
Proof.
  intros g e [HI H2 _ Hh Hw] Hph Hc U.
  assert (Ev : s_v (abs g) = s_v (g_s g)) by (rewrite abs_ov; reflexivity).
  assert (HI' : Inv (abs g)) by (apply inv_of_INV; [exact HI | rewrite Ev; exact Hph]).
  destruct (cur_spec (abs g) e HI') as [Hall [Htodo Hlit]]; [rewrite Ev; exact Hc|].
  rewrite Ev in Htodo, Hlit. specialize (Hlit U).
  split; [exact Hlit|].
  destruct (get_shape g Hh Hw) as [_ _ Ea | w p A _ Hw1 Hw2 Hok Hnt Hwd _ Hfr Ea | f data A _ _ Hfb Hfq _ _ Hfr Ea].
  - rewrite Ea. unfold g_fs. repeat split; reflexivity.
  - rewrite Ea in *. cbn [set_fs s_fs] in *.
    apply (reads_frame (T ++ p)); [exact Hfr | | exact Hlit].
    rewrite is_prefix_T. destruct (is_prefix p e) eqn:E; [exfalso | reflexivity].
    apply is_prefix_spec in E as [r E]. destruct r as [|x r].
    + rewrite app_nil_r in E. subst e. contradiction.
    + destruct (wound_path_ne w p Hok Hw2) as [Hpne Hpall].
      assert (Hpre : In p (prefixes e)) by (apply prefixes_spec; exists (x :: r); split; [discriminate | exact E]).
      assert (Hpd : In p (b_dirs b)) by (apply (wf_anc b wf e Hall p Hpre Hpne)).
      destruct w as [d | l dest | f data | f]; cbn in Hw2; inversion Hw2; subst.
      * rewrite (under_wd_true _ _ p Hpre Hpne (Hwd p eq_refl)) in U. discriminate.
      * cbn in Hok. eapply dir_not_link; eassumption.
      * destruct (g_h g); discriminate.
  - rewrite Ea in *. cbn [set_fs_wq_w s_fs] in *.
    apply (reads_frame (T ++ f)); [exact Hfr | | exact Hlit].
    rewrite is_prefix_T. destruct (is_prefix f e) eqn:E; [exfalso | reflexivity].
    assert (e = f) by (eapply (wf_no_below b wf); [eapply in_lf_file; exact Hfb | exact Hall | exact E]).
    subst e. apply (i2_qtodo _ _ H2 f); cbn; [exact Hfq | exact Htodo].
Qed.

(** ---- the local invariants survive what the validator does ---- *)

Lemma Lh_vmono : forall s s' pv pv' h w, vmono b s s' -> Lh (mkG s pv h w) -> Lh (mkG s' pv' h w).
Proof.
  intros s s' pv pv' h w [V1 V2 V3 V4 V5 V6 V7 V8] [H | (wd & p & H1 & H2 & H3 & H4 & H5 & H6 & H7 & H8 & H9 & H10 & H11 & H12 & H13)];
    [left; exact H | right].
  unfold g_fs in *; cbn [g_s g_h g_w] in *.
  exists wd, p. rewrite V1, V2, V3, V4, V5. repeat split; try assumption.
  - intro X. apply H12. apply V7. exact X.
  - intros d E. apply V8. apply H13. exact E.
Qed.

Lemma Lw_vmono : forall s s' pv pv' h w, vmono b s s' -> Lw (mkG s pv h w) -> Lw (mkG s' pv' h w).
Proof.
  intros s s' pv pv' h w [V1 V2 V3 V4 V5 V6 V7 V8] [H | (f & data & H1 & H2 & H3 & H4 & H5 & H6 & H7)];
    [left; exact H | right].
  unfold g_fs in *; cbn [g_s g_h g_w] in *.
  exists f, data. rewrite V1, V3, V5. repeat split; assumption.
Qed.

Lemma abs_same_fw : forall s s' pv pv' h w, s_fs s' = s_fs s -> s_w s' = s_w s ->
  abs (mkG s' pv' h w) = ov (afs T (mkG s pv h w)) (aws T (mkG s pv h w)) s'.
Proof.
  intros s s' pv pv' h w E1 E2. rewrite abs_ov. unfold afs, aws. cbn [g_s g_h g_w]. rewrite E1, E2. reflexivity.
Qed.

Definition two_step (s : state) : bool :=
  match v_pend (s_v s), v_phase (s_v s) with
  | [], VLinks (_ :: _) | [], VFiles (_ :: _) => true
  | _, _ => false
  end.

Lemma gvstep_lift : forall s pv h w, two_step s = false ->
  gvstep (mkG s pv h w) = option_map (fun s' => mkG s' pv h w) (vstep fixed cap b T s).
Proof.
  intros s pv h w H. unfold two_step in H. unfold Granular.gvstep. cbn [g_s g_v g_h g_w].
  destruct (v_pend (s_v s)); [|reflexivity].
  destruct (v_phase (s_v s)) as [|r|r|r| | |e]; try reflexivity; destruct r as [|[? ?] ?]; try reflexivity; discriminate.
Qed.

Lemma check_dir_agree : forall t A wd d,
  (under_wd fixed wd d = false -> lstat t (T ++ d) = lstat A (T ++ d)) ->
  check_dir fixed A T wd d = check_dir fixed t T wd d.
Proof.
  intros t A wd d H. unfold check_dir. destruct (under_wd fixed wd d); [reflexivity|]. rewrite H; reflexivity.
Qed.

Definition vconcl (g g' : gstate) : Prop :=
  ((abs g' = abs g /\ grank g' < grank g) \/ step (abs g) TV = Some (abs g')) /\
  Lh g' /\ Lw g' /\ LvP (g_v g') (s_v (g_s g')) (s_fs (abs g')).

(** a validator step that is one step in both systems *)
Lemma sim_v_lift : forall s pv h w s', GI (mkG s pv h w) ->
  v_phase (s_v s) <> VInit -> two_step s = false -> vstep fixed cap b T s = Some s' ->
  vconcl (mkG s pv h w) (mkG s' pv h w).
Proof.
  intros s pv h w s' HG Hph Htwo Hs. pose proof HG as [HI H2 Hv Hh Hw].
  pose proof (vstep_vmono b fixed cap T s s' Hs Hph) as Hm.
  assert (Ea : abs (mkG s pv h w) = ov (afs T (mkG s pv h w)) (aws T (mkG s pv h w)) s) by apply abs_ov.
  assert (Ea' : abs (mkG s' pv h w) = ov (afs T (mkG s pv h w)) (aws T (mkG s pv h w)) s')
    by (apply abs_same_fw; [apply (vm_fs _ _ _ Hm) | apply (vm_w _ _ _ Hm)]).
  split; [right | split; [eapply Lh_vmono; eassumption | split; [eapply Lw_vmono; eassumption|]]].
  - rewrite Ea, Ea'. cbn [Healer.step]. rewrite vstep_ov.
    + rewrite Hs. reflexivity.
    + exact Hph.
    + intros d rest Hp Eph. apply check_dir_agree. intro U.
      destruct (agree (mkG s pv h w) d HG Hph) as [_ [E _]]; [cbn [g_s]; rewrite Eph; reflexivity | exact U|].
      rewrite abs_fs in E. exact E.
    + intros l dest rest Hp Eph. unfold two_step in Htwo. rewrite Hp, Eph in Htwo. discriminate.
    + intros f data rest Hp Eph. unfold two_step in Htwo. rewrite Hp, Eph in Htwo. discriminate.
  - cbn [g_v g_s] in *. destruct Hv as [-> | [Hp Hmid]]; [left; reflexivity | exfalso].
    unfold two_step in Htwo. rewrite Hp in Htwo.
    destruct (v_phase (s_v s)) as [|r|r|r| | |e]; try contradiction; destruct r as [|[? ?] ?]; try contradiction; discriminate.
Qed.

(** a check that is decided now: the atomic system takes its check step with the same verdict *)
Lemma sim_v_decided : forall s pv h w next v,
  GI (mkG s pv h w) -> v_phase (s_v s) <> VInit ->
  vstep fixed cap b T (abs (mkG s pv h w)) = Some (after_check (abs (mkG s pv h w)) next (v_wd (s_v s)) v) ->
  next <> VInit -> (forall p, In p (todo next) -> In p (todo (v_phase (s_v s)))) ->
  vconcl (mkG s pv h w) (mkG (after_check s next (v_wd (s_v s)) v) VP0 h w).
Proof.
  intros s pv h w next v HG Hph Hstep Hn Ht. pose proof HG as [HI H2 Hv Hh Hw].
  assert (Hm : vmono b s (after_check s next (v_wd (s_v s)) v)) by (apply vmono_after_check; [exact Hn | exact Ht | apply incl_refl]).
  split; [right | split; [eapply Lh_vmono; eassumption | split; [eapply Lw_vmono; eassumption | left; reflexivity]]].
  cbn [Healer.step]. rewrite Hstep. f_equal.
  rewrite (abs_same_fw s _ pv VP0 h w (vm_fs _ _ _ Hm) (vm_w _ _ _ Hm)).
  rewrite abs_ov. cbn [g_s]. apply after_check_ov.
Qed.

Lemma vstep_at_link : forall s l dest rest, v_pend (s_v s) = [] -> v_phase (s_v s) = VLinks ((l, dest) :: rest) ->
  vstep fixed cap b T s = Some (after_check s (VLinks rest) (v_wd (s_v s)) (check_link fixed (s_fs s) T (v_wd (s_v s)) l dest)).
Proof. intros s l dest rest Hp Eph. unfold vstep. rewrite Hp, Eph. reflexivity. Qed.

Lemma vstep_at_file : forall s f data rest, v_pend (s_v s) = [] -> v_phase (s_v s) = VFiles ((f, data) :: rest) ->
  vstep fixed cap b T s = Some (after_check s (VFiles rest) (v_wd (s_v s)) (check_file fixed (s_fs s) T (v_wd (s_v s)) f data)).
Proof. intros s f data rest Hp Eph. unfold vstep. rewrite Hp, Eph. reflexivity. Qed.

Lemma sim_v : forall g g', GI g -> gvstep g = Some g' -> vconcl g g'.
Proof.
  intros [s pv h w] g' HG Hs. pose proof HG as [HI H2 Hv Hh Hw].
  assert (Ev : s_v (abs (mkG s pv h w)) = s_v s) by (rewrite abs_ov; reflexivity).
  destruct (two_step s) eqn:Htwo.
  2:{ (* one call in both systems *)
    rewrite gvstep_lift in Hs by exact Htwo.
    destruct (vstep fixed cap b T s) as [s'|] eqn:Hvs; [|discriminate]. cbn in Hs. inversion Hs; subst g'. clear Hs.
    destruct (v_phase (s_v s)) eqn:Eph; try (apply sim_v_lift; try assumption; rewrite Eph; discriminate).
    (* MkdirAll(target): nobody else is active *)
    assert (Hh0 : h = HP0).
    { destruct Hh as [X | (wd & p & H)]; [exact X | exfalso]. cbn [g_s] in H. decompose [and] H. congruence. }
    assert (Hw0 : w = WP0).
    { destruct Hw as [X | (f & data & H)]; [exact X | exfalso]. cbn [g_s] in H. decompose [and] H. congruence. }
    subst h w. split; [right; exact Hvs | split; [left; reflexivity | split; [left; reflexivity|]]].
    cbn [g_v g_s] in *. destruct Hv as [-> | [Hp Hmid]]; [left; reflexivity | rewrite Eph in Hmid; contradiction]. }
  (* the checks made of two calls *)
  unfold two_step in Htwo.
  destruct (v_pend (s_v s)) eqn:Hp; [|discriminate].
  assert (Hph : v_phase (s_v s) <> VInit) by (intro X; rewrite X in Htwo; discriminate).
  assert (Hsf : s_fs (abs (mkG s pv h w)) = afs T (mkG s pv h w)) by apply abs_fs.
  assert (Hpa : v_pend (s_v (abs (mkG s pv h w))) = []) by (rewrite Ev; exact Hp).
  destruct (v_phase (s_v s)) as [|r|r|r| | |e] eqn:Eph; try discriminate.
  - (* symlink *)
    destruct r as [|[l dest] rest]; [discriminate|].
    clear Hph. assert (Hph : v_phase (s_v s) <> VInit) by (rewrite Eph; discriminate).
    assert (Epa : v_phase (s_v (abs (mkG s pv h w))) = VLinks ((l, dest) :: rest)) by (rewrite Ev; exact Eph).
    pose proof (vstep_at_link _ l dest rest Hpa Epa) as Hat. rewrite Ev in Hat.
    assert (Hnext : forall p, In p (todo (VLinks rest)) -> In p (todo (VLinks ((l, dest) :: rest)))) by (intros p Hin; right; exact Hin).
    unfold Granular.gvstep in Hs. cbn [g_s g_v g_h g_w] in Hs. rewrite Hp, Eph in Hs.
    destruct pv.
    + destruct (under_wd fixed (v_wd (s_v s)) l) eqn:U.
      * inversion Hs; subst g'. clear Hs. rewrite <- Eph in Hnext.
        apply (sim_v_decided s VP0 h w (VLinks rest) (Wounds [WLink l dest])); try assumption; try discriminate.
        rewrite Hat. unfold check_link. rewrite U. reflexivity.
      * destruct (agree (mkG s VP0 h w) l HG) as [Hlit [El [Er _]]]; [exact Hph | cbn [g_s]; rewrite Eph; reflexivity | exact U|].
        unfold g_fs in El, Er. cbn [g_s] in El, Er.
        assert (Hdec : forall n, lstat (s_fs s) (T ++ l) = Ok n -> (n = Dir \/ exists x, n = File x) ->
                  vconcl (mkG s VP0 h w) (mkG (after_check s (VLinks rest) (v_wd (s_v s)) (Wounds [WLink l dest])) VP0 h w)).
        { intros n En Hn. rewrite <- Eph in Hnext. apply sim_v_decided; try assumption; try discriminate.
          rewrite Hat. unfold check_link. rewrite U, <- El, En. destruct Hn as [-> | [x ->]]; reflexivity. }
        assert (Hmid : (forall n, lstat (s_fs s) (T ++ l) = Ok n -> exists d, n = Link d) ->
                  vconcl (mkG s VP0 h w) (mkG s VPmid h w)).
        { intro Hn. split; [left; split; [reflexivity | unfold grank; cbn; lia] | split; [exact Hh | split; [exact Hw|]]].
          right. cbn [g_v g_s]. split; [exact Hp|]. rewrite Eph. split; [exact U|].
          change (s_fs (abs (mkG s VPmid h w))) with (s_fs (abs (mkG s VP0 h w))). rewrite <- El. exact Hn. }
        destruct (lstat (s_fs s) (T ++ l)) as [[x| |x]|e] eqn:En; inversion Hs; subst g'; clear Hs.
        -- eapply Hdec; [reflexivity | right; exists x; reflexivity].
        -- eapply Hdec; [reflexivity | left; reflexivity].
        -- apply Hmid. intros n X. inversion X. exists x. reflexivity.
        -- apply Hmid. intros n X. discriminate.
    + inversion Hs; subst g'. clear Hs. cbn [g_v g_s] in Hv.
      destruct Hv as [X | [_ Hmid]]; [discriminate|]. rewrite Eph in Hmid. destruct Hmid as [U Hn].
      destruct (agree (mkG s VPmid h w) l HG) as [Hlit [El [Er _]]]; [exact Hph | cbn [g_s]; rewrite Eph; reflexivity | exact U|].
      unfold g_fs in El, Er. cbn [g_s] in El, Er.
      rewrite <- Eph in Hnext. apply sim_v_decided; try assumption; try discriminate.
      rewrite Hat. f_equal. f_equal. unfold check_link, link_verdict. rewrite U, Er.
      destruct (lstat (s_fs (abs (mkG s VPmid h w))) (T ++ l)) as [[x| |x]|e] eqn:En; try reflexivity;
        destruct (Hn _ eq_refl) as [y Y]; discriminate.
  - (* file *)
    destruct r as [|[f data] rest]; [discriminate|].
    clear Hph. assert (Hph : v_phase (s_v s) <> VInit) by (rewrite Eph; discriminate).
    assert (Epa : v_phase (s_v (abs (mkG s pv h w))) = VFiles ((f, data) :: rest)) by (rewrite Ev; exact Eph).
    pose proof (vstep_at_file _ f data rest Hpa Epa) as Hat. rewrite Ev in Hat.
    assert (Hnext : forall p, In p (todo (VFiles rest)) -> In p (todo (VFiles ((f, data) :: rest)))) by (intros p Hin; right; exact Hin).
    unfold Granular.gvstep in Hs. cbn [g_s g_v g_h g_w] in Hs. rewrite Hp, Eph in Hs.
    destruct pv.
    + destruct (under_wd fixed (v_wd (s_v s)) f) eqn:U.
      * inversion Hs; subst g'. clear Hs. rewrite <- Eph in Hnext.
        apply (sim_v_decided s VP0 h w (VFiles rest) (Wounds [WFile f data])); try assumption; try discriminate.
        rewrite Hat. unfold check_file. rewrite U. reflexivity.
      * destruct (agree (mkG s VP0 h w) f HG) as [Hlit [El _]]; [exact Hph | cbn [g_s]; rewrite Eph; reflexivity | exact U|].
        unfold g_fs in El. cbn [g_s] in El.
        assert (Hdec : forall n, lstat (s_fs s) (T ++ f) = Ok n -> (n = Dir \/ exists x, n = Link x) ->
                  vconcl (mkG s VP0 h w) (mkG (after_check s (VFiles rest) (v_wd (s_v s)) (Wounds [WFile f data])) VP0 h w)).
        { intros n En Hn. rewrite <- Eph in Hnext. apply sim_v_decided; try assumption; try discriminate.
          rewrite Hat. unfold check_file. rewrite U, <- El, En. destruct Hn as [-> | [x ->]]; reflexivity. }
        assert (Hmid : (forall n, lstat (s_fs s) (T ++ f) = Ok n -> exists d, n = File d) ->
                  vconcl (mkG s VP0 h w) (mkG s VPmid h w)).
        { intro Hn. split; [left; split; [reflexivity | unfold grank; cbn; lia] | split; [exact Hh | split; [exact Hw|]]].
          right. cbn [g_v g_s]. split; [exact Hp|]. rewrite Eph. split; [exact U|].
          change (s_fs (abs (mkG s VPmid h w))) with (s_fs (abs (mkG s VP0 h w))). rewrite <- El. exact Hn. }
        destruct (lstat (s_fs s) (T ++ f)) as [[x| |x]|e] eqn:En; inversion Hs; subst g'; clear Hs.
        -- apply Hmid. intros n X. inversion X. exists x. reflexivity.
        -- eapply Hdec; [reflexivity | left; reflexivity].
        -- eapply Hdec; [reflexivity | right; exists x; reflexivity].
        -- apply Hmid. intros n X. discriminate.
    + inversion Hs; subst g'. clear Hs. cbn [g_v g_s] in Hv.
      destruct Hv as [X | [_ Hmid]]; [discriminate|]. rewrite Eph in Hmid. destruct Hmid as [U Hn].
      destruct (agree (mkG s VPmid h w) f HG) as [Hlit [El [_ Er]]]; [exact Hph | cbn [g_s]; rewrite Eph; reflexivity | exact U|].
      unfold g_fs in El, Er. cbn [g_s] in El, Er.
      assert (Hnl : forall d, node_at (s_fs (abs (mkG s VPmid h w))) (T ++ f) <> Some (Link d)).
      { intros d X. rewrite lstat_lit in Hn by exact Hlit. rewrite X in Hn. destruct (Hn _ eq_refl) as [y Y]. discriminate. }
      rewrite <- Eph in Hnext. apply sim_v_decided; try assumption; try discriminate.
      rewrite Hat. f_equal. f_equal. unfold check_file, file_verdict. rewrite U, (Er Hnl).
      destruct (lstat (s_fs (abs (mkG s VPmid h w))) (T ++ f)) as [[x| |x]|e] eqn:En; try reflexivity;
        destruct (Hn _ eq_refl) as [y Y]; discriminate.
Qed.

(** ---- the validator's half-done check survives what the healer and the worker do ---- *)

Lemma lv_transfer : forall pv v A A',
  LvP pv v A ->
  (forall e, cur (v_phase v) = Some e -> under_wd fixed (v_wd v) e = false ->
     lstat A' (T ++ e) = lstat A (T ++ e)) ->
  LvP pv v A'.
Proof.
  intros pv v A A' [H | [Hp Hm]] Hst; [left; exact H | right]. split; [exact Hp|].
  destruct (v_phase v) as [|r|r|r| | |e]; try contradiction; destruct r as [|[x y] r]; try contradiction;
    destruct Hm as [U Hn]; (split; [exact U|]); rewrite (Hst x eq_refl U); exact Hn.
Qed.

Lemma inv_phase : forall s, Inv s -> v_phase (s_v s) <> VInit.
Proof.
  intros s HI X. destruct (i_prog _ _ _ HI) as [dd [dl [df [Hpr _]]]]. rewrite X in Hpr. exact Hpr.
Qed.

Lemma lstat_stable : forall sa sa' e,
  Inv sa -> INV sa' -> s_v sa' = s_v sa -> stable b T e (s_fs sa) (s_fs sa') ->
  ~ In e (todo (v_phase (s_v sa))) ->
  forall e', cur (v_phase (s_v sa)) = Some e' -> under_wd fixed (v_wd (s_v sa)) e' = false ->
  lstat (s_fs sa') (T ++ e') = lstat (s_fs sa) (T ++ e').
Proof.
  intros sa sa' e HI HI' Ev [_ Hst] Hnt e' Hc U.
  assert (HI2 : Inv sa') by (apply inv_of_INV; [exact HI' | rewrite Ev; apply inv_phase; exact HI]).
  destruct (cur_spec sa e' HI Hc) as [Hall [Htodo Hlit]].
  destruct (cur_spec sa' e' HI2) as [_ [_ Hlit']]; [rewrite Ev; exact Hc|]. rewrite Ev in Hlit'.
  rewrite !lstat_lit by auto. rewrite Hst; [reflexivity | exact Hall |].
  intro X. subst e'. contradiction.
Qed.

Definition hwconcl (i : tid) (g g' : gstate) : Prop :=
  ((abs g' = abs g /\ grank g' < grank g) \/ step (abs g) i = Some (abs g')) /\
  Lh g' /\ Lw g' /\ (INV (abs g') -> LvP (g_v g') (s_v (g_s g')) (s_fs (abs g'))).

(** a DIR / SYMLINK wound on its way, or the validator in its first two passes: the worker is
    not inside GetWriter *)
Lemma busy_quiet : forall s pv w, GI (mkG s pv HP0 w) -> busy (abs (mkG s pv HP0 w)) -> w = WP0.
Proof.
  intros s pv w [HI H2 _ Hh Hw] Hb.
  destruct (i2_idle _ _ H2 Hb) as [_ [_ Hidle]].
  destruct (get_shape _ Hh Hw) as [_ X _ | w0 p A _ X | f data A _ _ _ _ _ _ _ Ea]; [exact X | discriminate |].
  rewrite Ea in Hidle. discriminate.
Qed.

Lemma ghstep_lift : forall s pv w,
  (forall w0 ch, s_h s = HRun -> s_chan s = w0 :: ch -> is_dl w0 = false) ->
  ghstep (mkG s pv HP0 w) = option_map (fun s' => mkG s' pv HP0 w) (hstep T s).
Proof.
  intros s pv w H. unfold Granular.ghstep. cbn [g_s g_v g_h g_w].
  destruct (s_h s); try reflexivity. destruct (s_chan s) as [|w0 ch]; [reflexivity|].
  specialize (H w0 ch eq_refl eq_refl). destruct w0; try discriminate; reflexivity.
Qed.

Lemma ghstep_mid : forall s pv h w, h <> HP0 ->
  ghstep (mkG s pv h w) =
  match hop T h (s_fs s) with
  | Ok (t', pc') => Some (mkG (set_fs s t') pv pc' w)
  | Err e => Some (mkG (set_fs_chan_h s (s_fs s) (s_chan s) (HDone (Err e))) pv HP0 w)
  end.
Proof. intros s pv h w H. destruct h; try congruence; reflexivity. Qed.

Lemma abs_h_set : forall pc' s t' A, complete_h T pc' t' = Ok A -> abs_h T pc' (set_fs s t') = set_fs s A.
Proof.
  intros pc' s t' A H. destruct pc'; cbn [abs_h set_fs s_fs] in *; try (rewrite H; reflexivity).
  cbn in H. inversion H. reflexivity.
Qed.

Lemma aws_ok : forall s pv w, Lw (mkG s pv HP0 w) ->
  aws T (mkG s pv HP0 w) = s_w s \/ (not_exit (aws T (mkG s pv HP0 w)) /\ not_exit (s_w s)).
Proof.
  intros s pv w [X | (f & data & H1 & H2 & H3 & H4 & H5 & H6 & H7)]; [cbn in X; subst w; left; reflexivity|].
  cbn [g_s] in H5. unfold aws. cbn [g_s g_h g_w fh]. destruct w; try discriminate; cbn [ww];
    (destruct (complete_w T _ (s_fs s)) as [[? ?]|]; [right; split; intros r X; [discriminate | rewrite H5 in X; discriminate] | left; reflexivity]).
Qed.

Lemma hpc_eq_HP0 : forall h : hpc, h = HP0 \/ h <> HP0.
Proof. intros []; [left; reflexivity | right; discriminate ..]. Qed.

Lemma wpc_eq_WP0 : forall w : wpc, w = WP0 \/ w <> WP0.
Proof. intros []; [left; reflexivity | right; discriminate ..]. Qed.

(** a healer step without filesystem calls: one step in both systems *)
Lemma sim_h_lift : forall s pv w g', GI (mkG s pv HP0 w) ->
  (forall w0 ch, s_h s = HRun -> s_chan s = w0 :: ch -> is_dl w0 = false) ->
  option_map (fun s' => mkG s' pv HP0 w) (hstep T s) = Some g' -> hwconcl TH (mkG s pv HP0 w) g'.
Proof.
  intros s pv w g' HG Hdl Hs. pose proof HG as [HI H2 Hv Hh Hw].
  destruct (hstep T s) as [s'|] eqn:Hhs; [|discriminate]. cbn in Hs. inversion Hs; subst g'. clear Hs.
  destruct (hstep_quiet T s s' Hhs Hdl) as [E1 [E2 [E3 E4]]].
  assert (Ea : abs (mkG s pv HP0 w) = ov (afs T (mkG s pv HP0 w)) (aws T (mkG s pv HP0 w)) s) by apply abs_ov.
  assert (Ea' : abs (mkG s' pv HP0 w) = ov (afs T (mkG s pv HP0 w)) (aws T (mkG s pv HP0 w)) s')
    by (apply abs_same_fw; assumption).
  split; [right | split; [left; reflexivity | split]].
  - rewrite Ea, Ea'. cbn [Healer.step]. rewrite hstep_ov; [rewrite Hhs; reflexivity | apply aws_ok; exact Hw | exact Hdl].
  - destruct Hw as [X | (f & data & H1 & H3 & H4 & H5 & H6 & H7 & H8)]; [left; exact X | right].
    unfold g_fs in *. cbn [g_s g_h g_w] in *. exists f, data. rewrite E1, E2, E3. repeat split; try assumption.
    apply E4. exact H7.
  - intros _. cbn [g_v g_s] in *. rewrite E2, Ea'. rewrite Ea in Hv. exact Hv.
Qed.

Lemma sim_h : forall g g', GI g -> ghstep g = Some g' -> hwconcl TH g g'.
Proof.
  intros [s pv h w] g' HG Hs. pose proof HG as [HI H2 Hv Hh Hw].
  destruct (hpc_eq_HP0 h) as [-> | Hne].
  - (* between wounds *)
    assert (Hrecv : forall w0 ch, s_h s = HRun -> s_chan s = w0 :: ch -> is_dl w0 = true ->
              w = WP0 /\ Inv s /\ wound_ok b w0 /\ s_queued s = [] /\ s_wq s = [] /\ s_w s = WIdle /\
              (forall p, wpath w0 = Some p -> anc_ok T (s_fs s) p /\ ~ In p (todo (v_phase (s_v s)))) /\
              (forall d, w0 = WDir d -> In d (v_wd (s_v s)))).
    { intros w0 ch Hh0 Hch Hdl.
      assert (Hb : busy (abs (mkG s pv HP0 w))).
      { right. exists w0. split; [|exact Hdl]. rewrite abs_ov. unfold pend. cbn. rewrite Hch. left. reflexivity. }
      pose proof (busy_quiet s pv w HG Hb) as ->. rewrite abs_quiet in *.
      assert (HI' : Inv s).
      { destruct HI as [H0 | X]; [|exact X]. destruct H0 as (_ & _ & X & _). congruence. }
      assert (Hin : In w0 (pend s)) by (unfold pend; rewrite Hch; left; reflexivity).
      destruct (i2_idle _ _ H2 Hb) as [Q1 [Q2 Q3]].
      split; [reflexivity|]. split; [exact HI'|]. split; [eapply head_ok; eassumption|].
      split; [exact Q1|]. split; [exact Q2|]. split; [exact Q3|]. split.
      - intros p Hp0. split; [eapply head_anc; eassumption | apply (i2_todo _ _ H2 w0 p Hin Hp0)].
      - intros d ->. apply (i2_wd _ _ H2 d Hin). }
    destruct (s_h s) eqn:Hh0;
      [| rewrite ghstep_lift in Hs by (intros; congruence); apply (sim_h_lift s pv w g' HG); [intros; congruence | exact Hs]
       | rewrite ghstep_lift in Hs by (intros; congruence); apply (sim_h_lift s pv w g' HG); [intros; congruence | exact Hs]].
    destruct (s_chan s) as [|w0 ch] eqn:Hch;
      [rewrite ghstep_lift in Hs by (intros; congruence); apply (sim_h_lift s pv w g' HG); [intros; congruence | exact Hs]|].
    destruct (is_dl w0) eqn:Hdl.
    2:{ assert (Hdl' : forall w1 ch1, s_h s = HRun -> s_chan s = w1 :: ch1 -> is_dl w1 = false)
          by (intros w1 ch1 _ X; rewrite Hch in X; inversion X; subst; exact Hdl).
        rewrite ghstep_lift in Hs by exact Hdl'. apply (sim_h_lift s pv w g' HG); [exact Hdl' | exact Hs]. }
    { (* a DIR / SYMLINK wound is received: the atomic healer processes it now *)
      destruct (Hrecv w0 ch eq_refl eq_refl Hdl) as (-> & HI' & Hok & Q1 & Q2 & Q3 & Hp & Hwd).
      rewrite abs_quiet in *.
      destruct w0 as [d | l dest | f data | f]; try discriminate.
      * cbn in Hok. destruct (Hp d eq_refl) as [Hanc Hnt].
        assert (Hdne : d <> []) by (apply (wf_nonempty b wf), in_all_dir, Hok).
        destruct (heal_dir_spec T (s_fs s) d (i_base _ _ _ HI') Hanc Hdne) as [t' [E [G Hf]]].
        unfold Granular.ghstep in Hs. cbn [g_s g_v g_h g_w] in Hs. rewrite Hh0, Hch in Hs. inversion Hs; subst g'. clear Hs.
        assert (Ea : abs (mkG (set_fs_chan_h s (s_fs s) ch HRun) pv (HPDirLstat d) WP0) = set_fs_chan_h s t' ch HRun).
        { unfold Granular.abs. cbn [g_s g_h g_w abs_w abs_h complete_h set_fs_chan_h s_fs]. rewrite E. reflexivity. }
        split; [right | split; [right | split; [left; reflexivity|]]].
        -- rewrite Ea, abs_quiet. cbn [Healer.step]. unfold hstep. rewrite Hh0, Hch, E. reflexivity.
        -- exists (WDir d), d. unfold g_fs. cbn [g_s g_h g_w set_fs_chan_h s_fs s_h s_w s_wq s_queued s_v hwound hfact wpath].
           repeat split; try assumption; try reflexivity.
           all: try (apply anc_lit; [apply (i_base _ _ _ HI') | exact Hanc]); try (apply inv_phase; exact HI'); try apply Hwd.
        -- intro HIa. rewrite Ea in *. cbn [g_v g_s set_fs_chan_h s_v s_fs].
           eapply lv_transfer; [exact Hv|]. cbn [g_s].
           apply (lstat_stable s (set_fs_chan_h s t' ch HRun) d HI' HIa eq_refl); [|exact Hnt].
           apply stable_frame1; assumption.
      * cbn in Hok. destruct (Hp l eq_refl) as [Hanc Hnt].
        assert (Hlne : l <> []) by (eapply (wf_nonempty b wf), in_all_link, Hok).
        destruct (heal_link_spec T (s_fs s) l dest (i_base _ _ _ HI') Hanc Hlne) as [t' [E [G Hf]]].
        unfold Granular.ghstep in Hs. cbn [g_s g_v g_h g_w] in Hs. rewrite Hh0, Hch in Hs. inversion Hs; subst g'. clear Hs.
        assert (Ea : abs (mkG (set_fs_chan_h s (s_fs s) ch HRun) pv (HPLinkMkdir l dest) WP0) = set_fs_chan_h s t' ch HRun).
        { unfold Granular.abs. cbn [g_s g_h g_w abs_w abs_h complete_h set_fs_chan_h s_fs]. rewrite E. reflexivity. }
        split; [right | split; [right | split; [left; reflexivity|]]].
        -- rewrite Ea, abs_quiet. cbn [Healer.step]. unfold hstep. rewrite Hh0, Hch, E. reflexivity.
        -- exists (WLink l dest), l. unfold g_fs. cbn [g_s g_h g_w set_fs_chan_h s_fs s_h s_w s_wq s_queued s_v hwound hfact wpath].
           repeat split; try assumption; try reflexivity.
           all: try (apply anc_lit; [apply (i_base _ _ _ HI') | exact Hanc]); try (apply inv_phase; exact HI'); try (intros d0 X; discriminate).
        -- intro HIa. rewrite Ea in *. cbn [g_v g_s set_fs_chan_h s_v s_fs].
           eapply lv_transfer; [exact Hv|]. cbn [g_s].
           apply (lstat_stable s (set_fs_chan_h s t' ch HRun) l HI' HIa eq_refl); [|exact Hnt].
           apply (stable_frame b wf); [eapply in_lf_link; exact Hok | exact Hf]. }
  - (* inside processWound *)
    destruct Hh as [X | (wd & p & H1 & H3 & H4 & H5 & H6 & H7 & H8 & H9 & H10 & H11 & H12 & H13 & H14)]; [contradiction|].
    unfold g_fs in *. cbn [g_s g_h g_w] in *. subst w.
    destruct (wound_path_ne wd p H4 H3) as [Hpne _].
    destruct (hop_spec T h (s_fs s) wd p H1 H3 Hpne H5 H6) as [t' [pc' [Hop [Hfr [Hl' [Hr Hnext]]]]]].
    rewrite ghstep_mid in Hs by exact Hne. rewrite Hop in Hs. inversion Hs; subst g'. clear Hs.
    destruct (complete_h_spec T (hrank h) h (s_fs s) wd p (le_n _) H1 H3 Hpne H5 H6) as [A [HA HfA]].
    assert (HA' : complete_h T pc' t' = Ok A) by (rewrite (hop_ok_complete T h (s_fs s) t' pc' Hne Hop); exact HA).
    assert (Ea : abs (mkG (set_fs s t') pv pc' WP0) = abs (mkG s pv h WP0)).
    { unfold Granular.abs. cbn [g_s g_h g_w abs_w]. rewrite (abs_h_set pc' s t' A HA').
      destruct h; try congruence; cbn [abs_h]; rewrite HA; reflexivity. }
    split; [left; split; [exact Ea | unfold grank; cbn [g_v g_h g_w]; lia] | split; [|split; [left; reflexivity|]]].
    + destruct Hnext as [-> | [Hw' Hf']]; [left; reflexivity | right].
      exists wd, p. unfold g_fs. cbn [g_s g_h g_w set_fs s_fs s_h s_w s_wq s_queued s_v]. repeat split; assumption.
    + intros _. rewrite Ea. exact Hv.
Qed.

(** ---- the heal worker ---- *)

Lemma gwstep_lift : forall s pv h, (s_w s <> WIdle \/ s_wq s = []) ->
  gwstep (mkG s pv h WP0) = option_map (fun s' => mkG s' pv h WP0) (wstep T s).
Proof.
  intros s pv h H. unfold Granular.gwstep. cbn [g_s g_v g_h g_w].
  destruct (s_w s); try reflexivity. destruct (s_wq s) as [|[f data] wq]; [reflexivity|].
  destruct H as [H | H]; [congruence | discriminate].
Qed.

Lemma gwstep_mid : forall s pv h w, w <> WP0 ->
  gwstep (mkG s pv h w) =
  match wop T w (s_fs s) with
  | Ok (t', inl pc') => Some (mkG (set_fs s t') pv h pc')
  | Ok (t', inr q) => Some (mkG (set_fs_wq_w s t' (s_wq s) (WWriting q (wpc_data w))) pv h WP0)
  | Err e => Some (mkG (set_fs_wq_w s (s_fs s) (s_wq s) (WExit (Err e))) pv h WP0)
  end.
Proof. intros s pv h w H. destruct w; try congruence; reflexivity. Qed.

Lemma abs_w_set : forall pc' s t' A q, pc' <> WP0 -> complete_w T pc' t' = Ok (A, q) ->
  abs_w T pc' (set_fs s t') = set_fs_wq_w s A (s_wq s) (WWriting q (wpc_data pc')).
Proof.
  intros pc' s t' A q Hne H. destruct pc'; try congruence; cbn [abs_w set_fs s_fs] in *; rewrite H; reflexivity.
Qed.

(** the healer is not inside [processWound] when the worker has something to do *)
Lemma heal_idle : forall s pv h w, Lh (mkG s pv h w) -> (w <> WP0 \/ s_w s <> WIdle \/ s_wq s <> []) -> h = HP0.
Proof.
  intros s pv h w [X | (wd & p & H1 & H3 & H4 & H5 & H6 & H7 & H8 & H9 & H10 & H)] Hc; [exact X | exfalso].
  cbn [g_s g_w] in *. destruct Hc as [Hc | [Hc | Hc]]; contradiction.
Qed.

Lemma sim_w : forall g g', GI g -> gwstep g = Some g' -> hwconcl TW g g'.
Proof.
  intros [s pv h w] g' HG Hs. pose proof HG as [HI H2 Hv Hh Hw].
  destruct (wpc_eq_WP0 w) as [-> | Hne].
  - (* not inside GetWriter *)
    assert (Hh0 : h = HP0).
    { destruct Hh as [X | (wd & p & H1 & H3 & H4 & H5 & H6 & H7 & H8 & H9 & H10 & H11 & H12)]; [exact X | exfalso].
      unfold g_fs in *. cbn [g_s g_h g_w] in *.
      (* nobody else writes while the healer is inside processWound: the worker cannot move *)
      assert (Ea : abs (mkG s pv h WP0) = abs_h T h s) by reflexivity.
      assert (HIa : Inv (abs (mkG s pv h WP0))).
      { apply inv_of_INV; [exact HI|]. rewrite abs_ov. cbn. apply (proj1 H12). }
      destruct (i_ctl _ _ _ HIa) as [_ [_ [C4 _]]]. rewrite abs_ov in C4. cbn [ov s_h s_wq_closed g_s] in C4. rewrite H7 in C4.
      unfold Granular.gwstep in Hs. cbn [g_s g_v g_h g_w] in Hs. rewrite H9, H10 in Hs.
      unfold wstep in Hs. rewrite H9, H10, C4 in Hs. discriminate. }
    subst h. rewrite abs_quiet in *.
    destruct (s_w s) as [|q data|r] eqn:Ew.
    + destruct (s_wq s) as [|[f data] wq'] eqn:Ewq.
      * (* the queue is closed: the worker returns *)
        rewrite gwstep_lift in Hs by (right; exact Ewq).
        destruct (wstep T s) as [s'|] eqn:Hws; [|discriminate]. cbn in Hs. inversion Hs; subst g'. clear Hs.
        split; [right; rewrite abs_quiet; exact Hws | split; [left; reflexivity | split; [left; reflexivity|]]].
        intros _. rewrite abs_quiet. unfold wstep in Hws. rewrite Ew, Ewq in Hws.
        destruct (s_wq_closed s); [|discriminate]. inversion Hws; subst s'. exact Hv.
      * (* a file index is received: the atomic worker does GetWriter now *)
        assert (HI' : Inv s).
        { destruct HI as [H0 | X]; [|exact X]. destruct H0 as (_ & _ & _ & _ & _ & _ & X & _). congruence. }
        destruct (i_wq _ _ _ HI' f data) as [Hfb [Hanc Hfq]]; [rewrite Ewq; left; reflexivity|].
        assert (Hfne : f <> []) by (eapply (wf_nonempty b wf), in_all_file, Hfb).
        destruct (get_writer_spec T (s_fs s) f (i_base _ _ _ HI') Hanc Hfne) as [t' [E [Hn Hf]]].
        unfold Granular.gwstep in Hs. cbn [g_s g_v g_h g_w] in Hs. rewrite Ew, Ewq in Hs. inversion Hs; subst g'. clear Hs.
        assert (Ea : abs (mkG (set_fs_wq_w s (s_fs s) wq' WIdle) pv HP0 (WPMkdir f data)) =
                     set_fs_wq_w s t' wq' (WWriting (T ++ f) data)).
        { unfold Granular.abs. cbn [g_s g_h g_w abs_w abs_h complete_w set_fs_wq_w s_fs]. rewrite E. reflexivity. }
        split; [right | split; [left; reflexivity | split; [right|]]].
        -- rewrite Ea, abs_quiet. cbn [Healer.step]. unfold wstep. rewrite Ew, Ewq, E. reflexivity.
        -- exists f, data. unfold g_fs. cbn [g_s g_h g_w set_fs_wq_w s_fs s_w s_queued s_v wfile wfact].
           repeat split; try assumption; try reflexivity.
           all: try (apply anc_lit; [apply (i_base _ _ _ HI') | exact Hanc]); try (apply inv_phase; exact HI').
        -- intro HIa. rewrite Ea in *. cbn [g_v g_s set_fs_wq_w s_v s_fs].
           eapply lv_transfer; [exact Hv|]. cbn [g_s].
           apply (lstat_stable s (set_fs_wq_w s t' wq' (WWriting (T ++ f) data)) f HI' HIa eq_refl).
           ++ apply (stable_frame b wf); [eapply in_lf_file; exact Hfb | exact Hf].
           ++ apply (i2_qtodo _ _ H2 f Hfq).
    + (* the content is written *)
      rewrite gwstep_lift in Hs by (left; congruence).
      destruct (wstep T s) as [s'|] eqn:Hws; [|discriminate]. cbn in Hs. inversion Hs; subst g'. clear Hs.
      split; [right; rewrite abs_quiet; exact Hws | split; [left; reflexivity | split; [left; reflexivity|]]].
      intro HIa. rewrite abs_quiet in *. unfold wstep in Hws. rewrite Ew in Hws. inversion Hws; subst s'. clear Hws.
      assert (HI' : Inv s).
      { destruct HI as [H0 | X]; [|exact X]. destruct H0 as (_ & _ & _ & _ & _ & _ & _ & _ & X). congruence. }
      destruct (i_writing _ _ _ HI' q data Ew) as [f [Eq [Hfb [Hfq [d0 Hn]]]]]. subst q.
      assert (Hfne : f <> []) by (eapply (wf_nonempty b wf), in_all_file, Hfb).
      destruct (write_fd_spec (s_fs s) (T ++ f) data d0 (app_nonempty T f Hfne) Hn) as [_ Hf].
      cbn [g_v g_s set_fs_wq_w s_v s_fs] in *.
      eapply lv_transfer; [exact Hv|].
      apply (lstat_stable s (set_fs_wq_w s (write_fd (s_fs s) (T ++ f) data) (s_wq s) WIdle) f HI' HIa eq_refl).
      * apply (stable_frame b wf); [eapply in_lf_file; exact Hfb | exact Hf].
      * apply (i2_qtodo _ _ H2 f Hfq).
    + rewrite gwstep_lift in Hs by (left; congruence). unfold wstep in Hs. rewrite Ew in Hs. discriminate.
  - (* inside GetWriter *)
    assert (Hh0 : h = HP0) by (eapply heal_idle; [exact Hh | left; exact Hne]). subst h.
    destruct Hw as [X | (f & data & H1 & H3 & H4 & H5 & H6 & H7 & H8)]; [contradiction|].
    unfold g_fs in *. cbn [g_s g_h g_w] in *.
    assert (Hfne : f <> []) by (eapply (wf_nonempty b wf), in_all_file, H3).
    destruct (complete_w_spec T (wrank w) w (s_fs s) f data (le_n _) H1 Hfne H4 H5) as [A [HA HfA]].
    assert (Eabs : abs (mkG s pv HP0 w) = set_fs_wq_w s A (s_wq s) (WWriting (T ++ f) data)).
    { unfold Granular.abs. cbn [g_s g_h g_w abs_h]. destruct w; try congruence; cbn [abs_w]; rewrite HA;
        rewrite (wfile_data _ _ _ H1); reflexivity. }
    rewrite gwstep_mid in Hs by exact Hne.
    destruct (wop_spec T w (s_fs s) f data H1 Hfne H4 H5) as [t' [Hfr [Hl' [[pc' [Hop [Hr [Hw' Hf']]]] | Hop]]]];
      rewrite Hop in Hs; inversion Hs; subst g'; clear Hs.
    + destruct (wop_inl_complete T w (s_fs s) t' pc' Hne Hop) as [Ec [Ed Hne']].
      assert (Ea : abs (mkG (set_fs s t') pv HP0 pc') = abs (mkG s pv HP0 w)).
      { rewrite Eabs. unfold Granular.abs. cbn [g_s g_h g_w abs_h].
        rewrite (abs_w_set pc' s t' A (T ++ f) Hne'); [rewrite Ed, (wfile_data _ _ _ H1); reflexivity | rewrite Ec; exact HA]. }
      split; [left; split; [exact Ea | unfold grank; cbn [g_v g_h g_w]; lia] | split; [left; reflexivity | split; [right|]]].
      * exists f, data. unfold g_fs. cbn [g_s g_h g_w set_fs s_fs s_w s_queued s_v]. repeat split; assumption.
      * intros _. rewrite Ea. exact Hv.
    + assert (Ea : abs (mkG (set_fs_wq_w s t' (s_wq s) (WWriting (T ++ f) (wpc_data w))) pv HP0 WP0) = abs (mkG s pv HP0 w)).
      { rewrite Eabs, abs_quiet. rewrite (wop_inr_complete T w (s_fs s) t' (T ++ f) Hop) in HA. inversion HA; subst A.
        rewrite (wfile_data _ _ _ H1). reflexivity. }
      split; [left; split; [exact Ea | unfold grank; cbn [g_v g_h g_w]; destruct w; cbn; try congruence; lia]
             | split; [left; reflexivity | split; [left; reflexivity|]]].
      intros _. rewrite Ea. exact Hv.
Qed.

(** ---- every granular step is invisible or one atomic step ---- *)

Lemma sim_step : forall g i g', GI g -> gstep g i = Some g' ->
  GI g' /\ ((abs g' = abs g /\ grank g' < grank g) \/ step (abs g) i = Some (abs g')).
Proof.
  intros g i g' HG Hs. pose proof HG as [HI H2 _ _ _].
  assert (Hinv : forall R : Prop, (abs g' = abs g /\ R) \/ step (abs g) i = Some (abs g') -> INV (abs g') /\ Inv2 (abs g')).
  { intros R [[E _] | E]; [rewrite E; split; assumption|].
    split; [eapply step_inv; eassumption | eapply step_inv2; eassumption]. }
  destruct i; cbn [Granular.gstep] in Hs.
  - destruct (sim_v g g' HG Hs) as [Hd [Hh [Hw Hv]]]. destruct (Hinv _ Hd) as [A B].
    split; [constructor; assumption | exact Hd].
  - destruct (sim_h g g' HG Hs) as [Hd [Hh [Hw Hv]]]. destruct (Hinv _ Hd) as [A B].
    split; [constructor; auto | exact Hd].
  - destruct (sim_w g g' HG Hs) as [Hd [Hh [Hw Hv]]]. destruct (Hinv _ Hd) as [A B].
    split; [constructor; auto | exact Hd].
Qed.

End Sim.

(** ---------- the theorems (stated in Properties/C06.v) ---------- *)

(** a measure for the granular system: ten times the atomic measure of the abstract state plus
    the number of operations left inside the calls in progress (at most 9) *)
Definition gmu (b : build) (T : path) (g : gstate) : nat := 10 * mu b (abs T g) + grank g.

Lemma grank_bound : forall g, grank g <= 9.
Proof. intros [s [] h w]; unfold grank; cbn [g_v g_h g_w vrank]; destruct h; destruct w; cbn; lia. Qed.

Section Main.
Variable cap : nat.
Hypothesis cap_pos : 0 < cap.
Variable b : build.
Hypothesis wf : wf_build b = true.
Variable T : path.
Variable t0 : tree.
Hypothesis t0_ok : init_ok T t0 = true.

Local Notation abs := (abs T).
Local Notation step := (step fixed cap b T).
Local Notation run := (run fixed cap b T).
Local Notation gstep := (gstep fixed cap b T).
Local Notation grun := (grun fixed cap b T).
Local Notation gfinish := (gfinish fixed cap b T).
Local Notation GI := (GI b T).
Local Notation gmu := (gmu b T).

Lemma ginit_GI : GI (ginit b t0).
Proof.
  constructor.
  - apply init_INV. exact t0_ok.
  - apply init_inv2. exact wf.
  - left. reflexivity.
  - left. reflexivity.
  - left. reflexivity.
Qed.

Lemma grun_cons : forall i sched g, grun (i :: sched) g = grun sched (gstep_or_stay fixed cap b T g i).
Proof. reflexivity. Qed.

Lemma grun_GI : forall sched g, GI g -> GI (grun sched g).
Proof.
  induction sched as [|i sched IH]; intros g HG; [exact HG|].
  rewrite grun_cons. apply IH. unfold gstep_or_stay. destruct (gstep g i) as [g'|] eqn:E; [|exact HG].
  apply (sim_step cap cap_pos b wf T g i g' HG E).
Qed.

(** THE REDUCTION: the abstraction of a granular execution is an atomic execution, with at most
    as many steps *)
Lemma grun_refines : forall sched g, GI g ->
  exists asched, length asched <= length sched /\ abs (grun sched g) = run asched (abs g).
Proof.
  induction sched as [|i sched IH]; intros g HG.
  - exists []. split; [apply le_n | reflexivity].
  - rewrite grun_cons. unfold gstep_or_stay. destruct (gstep g i) as [g'|] eqn:E.
    + destruct (sim_step cap cap_pos b wf T g i g' HG E) as [HG' [[Ea _] | Ea]]; destruct (IH g' HG') as [asched [Hl Hr]].
      * exists asched. split; [cbn; lia | rewrite Hr, Ea; reflexivity].
      * exists (i :: asched). split; [cbn; lia|]. rewrite Hr.
        change (run (i :: asched) (abs g)) with (run asched (step_or_stay fixed cap b T (abs g) i)).
        unfold step_or_stay. rewrite Ea. reflexivity.
    + destruct (IH g HG) as [asched [Hl Hr]]. exists asched. split; [cbn; lia | exact Hr].
Qed.

Lemma gstep_gmu : forall g i g', GI g -> gstep g i = Some g' -> gmu g' < gmu g.
Proof.
  intros g i g' HG E. destruct (sim_step cap cap_pos b wf T g i g' HG E) as [_ [[Ea Hr] | Ea]]; unfold GranularProofs.gmu.
  - rewrite Ea. lia.
  - pose proof (step_mu b fixed cap T _ _ _ Ea). pose proof (grank_bound g'). lia.
Qed.

Lemma grun_gmu : forall sched g, GI g -> gmu (grun sched g) <= gmu g.
Proof.
  induction sched as [|i sched IH]; intros g HG; [apply le_n|].
  rewrite grun_cons. unfold gstep_or_stay. destruct (gstep g i) as [g'|] eqn:E; [|apply IH; exact HG].
  pose proof (gstep_gmu g i g' HG E). pose proof (IH g' (proj1 (sim_step cap cap_pos b wf T g i g' HG E))). lia.
Qed.

(** when [Validate] has returned nobody is inside a call: the state IS its abstraction *)
Lemma gterminal_quiet : forall g, GI g -> gterminal g = true -> abs g = g_s g.
Proof.
  intros g [HI H2 Hv Hh Hw] Ht. unfold gterminal, terminal in Ht.
  assert (Ev : s_v (abs g) = s_v (g_s g)) by (rewrite abs_ov; reflexivity).
  destruct (v_phase (s_v (g_s g))) eqn:Hph; try discriminate.
  2:{ exfalso. eapply (inv_not_fail b T (abs g) HI). rewrite Ev. exact Hph. }
  destruct (s_h (g_s g)) eqn:Ehh; try discriminate.
  destruct (get_shape b wf T g Hh Hw) as [_ _ Ea | w p A _ Hw1 _ _ _ _ _ _ _ | f data A _ _ _ _ _ _ _ Ea]; [exact Ea | exfalso | exfalso].
  - destruct Hh as [X | (wd & p' & H1 & H3 & H4 & H5 & H6 & H7 & _)]; [rewrite X in Hw1; discriminate | congruence].
  - assert (HI' : Inv b T (abs g)) by (apply (inv_of_INV b T); [exact HI | rewrite Ev, Hph; discriminate]).
    destruct (i_ctl _ _ _ HI') as [_ [_ [C4 _]]]. rewrite Ea in C4. cbn [set_fs_wq_w s_h s_w] in C4. rewrite Ehh in C4.
    destruct C4 as (_ & _ & _ & _ & X). discriminate.
Qed.

(** a goroutine inside a call can always make its next call *)
Lemma gno_deadlock : forall g, GI g -> (forall i, gstep g i = None) -> gterminal g = true.
Proof.
  intros [s pv h w] HG Hn. pose proof (Hn TV) as Hv. pose proof (Hn TH) as Hh. pose proof (Hn TW) as Hw.
  cbn [Granular.gstep] in Hv, Hh, Hw.
  destruct (hpc_eq_HP0 h) as [-> | Hne].
  2:{ rewrite ghstep_mid in Hh by exact Hne. destruct (hop T h (s_fs s)) as [[? ?]|]; discriminate. }
  destruct (wpc_eq_WP0 w) as [-> | Hne].
  2:{ rewrite gwstep_mid in Hw by exact Hne. destruct (wop T w (s_fs s)) as [[? [?|?]]|]; discriminate. }
  pose proof (gi_inv _ _ _ HG) as HI. rewrite abs_quiet in HI.
  unfold gterminal. cbn [g_s]. apply (no_deadlock cap cap_pos b T s HI).
  intros []; cbn [Healer.step].
  - destruct (two_step s) eqn:Htwo.
    + exfalso. unfold two_step in Htwo. unfold Granular.gvstep in Hv. cbn [g_s g_v g_h g_w] in Hv.
      destruct (v_pend (s_v s)); [|discriminate].
      destruct (v_phase (s_v s)) as [|r|r|r| | |e]; try discriminate; destruct r as [|[x y] r]; try discriminate; destruct pv;
        try discriminate;
        [destruct (under_wd fixed (v_wd (s_v s)) x); [discriminate | destruct (lstat (s_fs s) (T ++ x)) as [[| |]|]; discriminate]
        |destruct (under_wd fixed (v_wd (s_v s)) x); [discriminate | destruct (lstat (s_fs s) (T ++ x)) as [[| |]|]; discriminate]].
    + rewrite (gvstep_lift cap b T) in Hv by exact Htwo. destruct (vstep fixed cap b T s); [discriminate | reflexivity].
  - unfold Granular.ghstep in Hh. cbn [g_s g_v g_h g_w] in Hh.
    destruct (hstep T s) eqn:E; [exfalso | reflexivity].
    destruct (s_h s); try discriminate. destruct (s_chan s) as [|[]]; discriminate.
  - unfold Granular.gwstep in Hw. cbn [g_s g_v g_h g_w] in Hw.
    destruct (wstep T s) eqn:E; [exfalso | reflexivity].
    destruct (s_w s); try discriminate. destruct (s_wq s) as [|[]]; discriminate.
Qed.

Lemma gterminal_restored : forall g, GI g -> gterminal g = true ->
  gresult g = Some (Ok tt) /\ restored b T (g_fs g) /\ ff_valid fixed b T (g_fs g) = true.
Proof.
  intros g HG Ht. pose proof (gterminal_quiet g HG Ht) as Ea. pose proof (gi_inv _ _ _ HG) as HI. rewrite Ea in HI.
  destruct (terminal_restored b wf T (g_s g) HI Ht) as [R1 R2].
  split; [exact R1 | split; [exact R2 | apply restored_ff_valid; exact R2]].
Qed.

Lemma granular_refines_lemma : forall gsched,
  let g := grun gsched (ginit b t0) in
  exists asched, length asched <= length gsched /\
    abs g = run asched (init b t0) /\
    (g_h g = HP0 -> g_w g = WP0 -> g_s g = run asched (init b t0)) /\
    (gterminal g = true -> g_s g = run asched (init b t0)).
Proof.
  intros gsched g. destruct (grun_refines gsched (ginit b t0) ginit_GI) as [asched [Hl Hr]].
  exists asched. fold g in Hr. change (abs (ginit b t0)) with (init b t0) in Hr.
  split; [exact Hl | split; [exact Hr | split]].
  - intros E1 E2. rewrite <- Hr. destruct g as [s pv h w]. cbn in E1, E2. subst. reflexivity.
  - intro Ht. rewrite <- Hr. symmetry. apply gterminal_quiet; [apply grun_GI, ginit_GI | exact Ht].
Qed.

Lemma heal_restores_granular_lemma : forall sched,
  let g := grun sched (ginit b t0) in
  (gterminal g = true ->
     gresult g = Some (Ok tt) /\ restored b T (g_fs g) /\ ff_valid fixed b T (g_fs g) = true) /\
  ((forall i, gstep g i = None) -> gterminal g = true) /\
  (forall i g', gstep g i = Some g' -> gmu g' < gmu g) /\
  gmu g <= gmu (ginit b t0).
Proof.
  intros sched g. pose proof (grun_GI sched _ ginit_GI) as HG. fold g in HG.
  split; [|split; [|split]].
  - apply gterminal_restored. exact HG.
  - apply gno_deadlock. exact HG.
  - intros i g' E. eapply gstep_gmu; eassumption.
  - apply grun_gmu. apply ginit_GI.
Qed.

Lemma gfirst_step_none : forall g prio, In TV prio -> In TH prio -> In TW prio ->
  gfirst_step fixed cap b T g prio = None -> forall i, gstep g i = None.
Proof.
  intros g prio Hv Hh Hw Hn.
  assert (A : forall i, In i prio -> gstep g i = None).
  { clear Hv Hh Hw. induction prio as [|j prio IH]; intros i Hin; [destruct Hin|].
    cbn in Hn. destruct (gstep g j) eqn:E; [discriminate|]. destruct Hin as [<- | Hin]; [exact E | apply IH; assumption]. }
  intros []; apply A; assumption.
Qed.

Lemma gfirst_step_some : forall g prio g', gfirst_step fixed cap b T g prio = Some g' -> exists i, gstep g i = Some g'.
Proof.
  intros g prio. induction prio as [|j prio IH]; intros g' H; [discriminate|].
  cbn in H. destruct (gstep g j) eqn:E; [inversion H; subst; exists j; exact E | apply IH; exact H].
Qed.

Lemma gfinish_complete : forall prio, In TV prio -> In TH prio -> In TW prio ->
  forall fuel g, GI g -> gmu g <= fuel ->
  let g' := gfinish fuel prio g in GI g' /\ gterminal g' = true.
Proof.
  intros prio Hv Hh Hw. induction fuel as [|fuel IH]; intros g HG Hmu.
  - assert (Hn : forall i, gstep g i = None).
    { intros i. destruct (gstep g i) as [g1|] eqn:E; [|reflexivity]. pose proof (gstep_gmu g i g1 HG E). lia. }
    cbn. split; [exact HG | apply gno_deadlock; assumption].
  - cbn. destruct (gfirst_step fixed cap b T g prio) as [g1|] eqn:E.
    + destruct (gfirst_step_some g prio g1 E) as [i Ei]. apply IH.
      * apply (sim_step cap cap_pos b wf T g i g1 HG Ei).
      * pose proof (gstep_gmu g i g1 HG Ei). lia.
    + split; [exact HG | apply gno_deadlock; [exact HG | eapply gfirst_step_none; eassumption]].
Qed.

Lemma heal_completes_granular_lemma : forall sched prio fuel,
  In TV prio -> In TH prio -> In TW prio -> gmu (ginit b t0) <= fuel ->
  let g := gfinish fuel prio (grun sched (ginit b t0)) in
  gterminal g = true /\ gresult g = Some (Ok tt) /\ restored b T (g_fs g) /\ ff_valid fixed b T (g_fs g) = true.
Proof.
  intros sched prio fuel Hv Hh Hw Hf g.
  destruct (gfinish_complete prio Hv Hh Hw fuel (grun sched (ginit b t0))) as [HG Ht].
  - apply grun_GI, ginit_GI.
  - pose proof (grun_gmu sched (ginit b t0) ginit_GI). lia.
  - split; [exact Ht | apply gterminal_restored; assumption].
Qed.

End Main.

(** ---------- healing a valid directory changes nothing, one call at a time ---------- *)
Section GIdempotent.
Variable fx : fixes.
Variable cap : nat.
Variable b : build.
Variable T : path.
Variable t0 : tree.
Hypothesis t0_ok : init_ok T t0 = true.
Hypothesis t0_dir : node_at t0 T = Some Dir.
Hypothesis valid : ff_valid fx b T t0 = true.

Definition GIdem (g : gstate) : Prop := Idem b t0 (g_s g) /\ g_h g = HP0 /\ g_w g = WP0.

Lemma gv_idem : forall s pv g', Idem b t0 s -> gvstep fx cap b T (mkG s pv HP0 WP0) = Some g' ->
  g' = mkG s VPmid HP0 WP0 \/ exists s' pv', vstep fx cap b T s = Some s' /\ g' = mkG s' pv' HP0 WP0.
Proof.
  intros s pv g' [Hfs [Hwd [Hh [Hwq [Hw Hph]]]]] Hs. destruct (ff_parts fx b T t0 valid) as [_ [Fl Ff]].
  assert (Hlift : option_map (fun s' => mkG s' pv HP0 WP0) (vstep fx cap b T s) = Some g' ->
                  exists s' pv', vstep fx cap b T s = Some s' /\ g' = mkG s' pv' HP0 WP0).
  { intro X. destruct (vstep fx cap b T s) as [s'|]; [|discriminate]. cbn in X. inversion X. exists s', pv. split; reflexivity. }
  unfold gvstep in Hs. cbn [g_s g_v g_h g_w] in Hs.
  destruct (v_pend (s_v s)) eqn:Hp; [|right; apply Hlift; exact Hs].
  destruct (v_phase (s_v s)) as [|r|r|r| | |e] eqn:Eph; try (right; apply Hlift; exact Hs).
  - destruct r as [|[l dest] rest]; [right; apply Hlift; exact Hs|].
    destruct (suffix_tail _ _ _ _ Hph) as [_ Hin]. pose proof (Fl l dest Hin) as Hc.
    rewrite Hfs, Hwd, under_wd_nil in Hs. unfold check_link in Hc. rewrite under_wd_nil in Hc.
    assert (Hv : vstep fx cap b T s = Some (after_check s (VLinks rest) (v_wd (s_v s)) (check_link fx (s_fs s) T (v_wd (s_v s)) l dest)))
      by (unfold vstep; rewrite Hp, Eph; reflexivity).
    destruct pv.
    + destruct (lstat t0 (T ++ l)) as [[x| |x]|e]; try discriminate Hc; inversion Hs; left; reflexivity.
    + right. inversion Hs; subst g'. eexists; exists VP0. split; [exact Hv|]. f_equal. rewrite Hwd, Hfs. f_equal.
      unfold check_link, link_verdict. rewrite under_wd_nil.
      destruct (lstat t0 (T ++ l)) as [[x| |x]|e]; try discriminate Hc; reflexivity.
  - destruct r as [|[f data] rest]; [right; apply Hlift; exact Hs|].
    destruct (suffix_tail _ _ _ _ Hph) as [_ Hin]. pose proof (Ff f data Hin) as Hc.
    rewrite Hfs, Hwd, under_wd_nil in Hs. unfold check_file in Hc. rewrite under_wd_nil in Hc.
    assert (Hv : vstep fx cap b T s = Some (after_check s (VFiles rest) (v_wd (s_v s)) (check_file fx (s_fs s) T (v_wd (s_v s)) f data)))
      by (unfold vstep; rewrite Hp, Eph; reflexivity).
    destruct pv.
    + destruct (lstat t0 (T ++ f)) as [[x| |x]|e]; try discriminate Hc; inversion Hs; left; reflexivity.
    + right. inversion Hs; subst g'. eexists; exists VP0. split; [exact Hv|]. f_equal. rewrite Hwd, Hfs. f_equal.
      unfold check_file, file_verdict. rewrite under_wd_nil.
      destruct (lstat t0 (T ++ f)) as [[x| |x]|e]; try discriminate Hc; reflexivity.
Qed.

Lemma gidem_step : forall g i g', GIdem g -> gstep fx cap b T g i = Some g' -> GIdem g'.
Proof.
  intros [s pv h w] i g' [HI [Eh Ew]] Hs. cbn [g_s g_h g_w] in *. subst h w.
  destruct i; cbn [gstep] in Hs.
  - destruct (gv_idem s pv g' HI Hs) as [-> | [s' [pv' [Hv ->]]]]; [split; [exact HI | split; reflexivity]|].
    split; [|split; reflexivity]. cbn [g_s]. apply (idem_step fx cap b T t0 t0_ok t0_dir valid s TV s' HI Hv).
  - assert (Hdl : forall w0 ch, s_h s = HRun -> s_chan s = w0 :: ch -> is_dl w0 = false).
    { intros w0 ch _ Hch. destruct HI as [_ [_ [Hh _]]].
      assert (X : healthy w0 = true) by (apply Hh; apply in_or_app; right; rewrite Hch; left; reflexivity).
      destruct w0; try discriminate. reflexivity. }
    rewrite ghstep_lift in Hs by exact Hdl.
    destruct (hstep T s) as [s'|] eqn:E; [|discriminate]. cbn in Hs. inversion Hs; subst g'.
    split; [|split; reflexivity]. cbn [g_s]. apply (idem_step fx cap b T t0 t0_ok t0_dir valid s TH s' HI E).
  - rewrite gwstep_lift in Hs by (right; apply HI).
    destruct (wstep T s) as [s'|] eqn:E; [|discriminate]. cbn in Hs. inversion Hs; subst g'.
    split; [|split; reflexivity]. cbn [g_s]. apply (idem_step fx cap b T t0 t0_ok t0_dir valid s TW s' HI E).
Qed.

Lemma heal_idempotent_granular_lemma : forall sched, g_fs (grun fx cap b T sched (ginit b t0)) = t0.
Proof.
  intro sched.
  assert (H : forall g, GIdem g -> GIdem (grun fx cap b T sched g)).
  { induction sched as [|i sched IH]; intros g HG; [exact HG|].
    change (grun fx cap b T (i :: sched) g) with (grun fx cap b T sched (gstep_or_stay fx cap b T g i)).
    apply IH. unfold gstep_or_stay. destruct (gstep fx cap b T g i) eqn:E; [eapply gidem_step; eassumption | exact HG]. }
  apply H. split; [|split; reflexivity]. unfold Idem, ginit, init. cbn. repeat split; try reflexivity.
  - intros w [].
  - intros q d X. discriminate.
Qed.

End GIdempotent.
