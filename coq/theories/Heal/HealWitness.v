(** C06: concrete witnesses (evaluated by vm_compute).  The two defects of the code before
    the repairs, as executions of the model with the corresponding [fixes] switched off, and
    the same inputs healed by the repaired code. *)
From Wharf Require Import FS.Light FS.Tree FS.Ops Heal.Validator Heal.Healer.

Local Open Scope N_scope.

(** signed build: directory 1 with the nested directory 1/2 and the file 1/2/3 *)
Definition w_build : build := mkBuild [[1]; [1; 2]] [([4], [Nm 1])] [([1; 2; 3], [7; 7])].
Definition w_target : path := [9].

(** damage (i): directory 1 replaced by a regular file *)
Definition w_tree_file : tree := [([9], Dir); ([9; 1], File [0])].

(** damage (ii): directory 1 replaced by a symlink to a directory with equal children *)
Definition w_tree_link : tree :=
  [([9], Dir); ([9; 1], Link [Nm 5]); ([9; 5], Dir); ([9; 5; 2], Dir); ([9; 5; 2; 3], File [7; 7]); ([9; 4], Link [Nm 1])].

Definition lazy_healer : list tid := [TV; TH; TW].   (* the healer runs when the validator cannot *)

Definition w_run (fx : fixes) (t0 : tree) : state :=
  finish fx 1024 w_build w_target 100 lazy_healer (init w_build t0).

Lemma enotdir_before_fix :
  wf_build w_build = true /\ init_ok w_target w_tree_file = true /\
  terminal (w_run unfixed w_tree_file) = true /\
  result (w_run unfixed w_tree_file) = Some (Err ENOTDIR).
Proof. vm_compute. repeat split; reflexivity. Qed.

Lemma hidden_subtree_before_fix :
  wf_build w_build = true /\ init_ok w_target w_tree_link = true /\
  let s := w_run (mkFixes true false) w_tree_link in
  terminal s = true /\ result s = Some (Ok tt) /\
  restoredb w_build w_target (s_fs s) = false /\
  lstat (s_fs s) (w_target ++ [1; 2]) = Err ENOENT /\
  lstat (s_fs s) (w_target ++ [1; 2; 3]) = Err ENOENT.
Proof. vm_compute. repeat split; reflexivity. Qed.

Lemma witnesses_healed_after_fix :
  (let s := w_run fixed w_tree_file in
   terminal s = true /\ result s = Some (Ok tt) /\ restoredb w_build w_target (s_fs s) = true) /\
  (let s := w_run fixed w_tree_link in
   terminal s = true /\ result s = Some (Ok tt) /\ restoredb w_build w_target (s_fs s) = true) /\
  (let s := w_run fixed [] in     (* target missing *)
   terminal s = true /\ result s = Some (Ok tt) /\ restoredb w_build w_target (s_fs s) = true).
Proof. vm_compute. repeat split; reflexivity. Qed.

(** the statements in the form used by Properties/C06.v *)
Lemma enotdir_refuted_lemma :
  exists b T t0 prio,
    wf_build b = true /\ init_ok T t0 = true /\
    let s := finish unfixed 1024 b T 100 prio (init b t0) in
    terminal s = true /\ result s = Some (Err ENOTDIR).
Proof. exists w_build, w_target, w_tree_file, lazy_healer. vm_compute. repeat split; reflexivity. Qed.

Lemma hidden_subtree_refuted_lemma :
  exists b T t0 prio,
    wf_build b = true /\ init_ok T t0 = true /\
    let s := finish (mkFixes true false) 1024 b T 100 prio (init b t0) in
    terminal s = true /\ result s = Some (Ok tt) /\
    restoredb b T (s_fs s) = false /\
    lstat (s_fs s) (T ++ [1; 2]) = Err ENOENT /\
    lstat (s_fs s) (T ++ [1; 2; 3]) = Err ENOENT.
Proof. exists w_build, w_target, w_tree_link, lazy_healer. vm_compute. repeat split; reflexivity. Qed.

Lemma witnesses_healed_lemma :
  wf_build w_build = true /\ init_ok w_target w_tree_file = true /\ init_ok w_target w_tree_link = true /\
  init_ok w_target [] = true /\
  (let s := w_run fixed w_tree_file in
   terminal s = true /\ result s = Some (Ok tt) /\ restoredb w_build w_target (s_fs s) = true) /\
  (let s := w_run fixed w_tree_link in
   terminal s = true /\ result s = Some (Ok tt) /\ restoredb w_build w_target (s_fs s) = true) /\
  (let s := w_run fixed [] in
   terminal s = true /\ result s = Some (Ok tt) /\ restoredb w_build w_target (s_fs s) = true).
Proof. vm_compute. repeat split; reflexivity. Qed.
