(** C06 proofs, part 1: what [wf_build] gives, and what the healer's filesystem actions do on an
    entry all of whose ancestors are real directories. *)
From Coq Require Import Arith Lia.
From Wharf Require Import FS.Light FS.Tree FS.TreeProofs FS.Ops FS.OpsProofs Heal.Validator Heal.Healer.

Lemma existsb_path_In : forall p l, existsb (path_eqb p) l = true <-> In p l.
Proof.
  intros p l. rewrite existsb_exists. split.
  - intros [x [Hin E]]. apply path_eqb_eq in E. subst. exact Hin.
  - intro H. exists p. split; [exact H | apply path_eqb_refl].
Qed.

Lemma nodupb_NoDup : forall l, nodupb l = true -> NoDup l.
Proof.
  induction l as [|p l IH]; cbn; intro H; [constructor|].
  apply andb_true_iff in H as [H1 H2]. constructor; [|apply IH; exact H2].
  intro Hin. apply existsb_path_In in Hin. rewrite Hin in H1. discriminate.
Qed.

Lemma nonempty_prefixes_spec : forall p a, In a (nonempty_prefixes p) <-> In a (prefixes p) /\ a <> [].
Proof.
  intros p a. unfold nonempty_prefixes. rewrite filter_In. split; intros [H1 H2]; split; try exact H1.
  - intro E. subst. cbn in H2. discriminate.
  - apply negb_true_iff. apply path_eqb_neq. exact H2.
Qed.

Lemma parents_first_spec : forall ds seen, parents_first seen ds = true ->
  forall dd d rest, ds = dd ++ d :: rest ->
  forall a, In a (prefixes d) -> a <> [] -> In a seen \/ In a dd.
Proof.
  induction ds as [|x ds IH]; intros seen H dd d rest E a Ha Hn.
  - destruct dd; discriminate.
  - cbn in H. apply andb_true_iff in H as [H1 H2].
    destruct dd as [|y dd]; cbn in E; inversion E; subst.
    + left. rewrite forallb_forall in H1. apply existsb_path_In. apply H1.
      apply nonempty_prefixes_spec. split; assumption.
    + destruct (IH _ H2 dd d rest eq_refl a Ha Hn) as [Hs | Hd].
      * destruct Hs as [Hs | Hs]; [right; left; exact Hs | left; exact Hs].
      * right. right. exact Hd.
Qed.

Lemma NoDup_app_r : forall (A : Type) (l r : list A), NoDup (l ++ r) -> NoDup r.
Proof.
  induction l as [|x l IH]; intros r H; [exact H|]. cbn in H. inversion H; subst. apply IH. assumption.
Qed.

Lemma NoDup_app_l : forall (A : Type) (l r : list A), NoDup (l ++ r) -> NoDup l.
Proof.
  induction l as [|x l IH]; intros r H; [constructor|]. cbn in H. inversion H; subst. constructor.
  - intro Hin. apply H2. apply in_or_app. left. exact Hin.
  - eapply IH. eassumption.
Qed.

(** splitting a list that was extended at the end *)
Lemma split_app : forall (A : Type) (P ws P1 P2 : list A) (w : A),
  P1 ++ w :: P2 = P ++ ws ->
  (exists P2', P = P1 ++ w :: P2') \/ (exists W1 W2, P1 = P ++ W1 /\ ws = W1 ++ w :: W2).
Proof.
  intros A P. induction P as [|x P IH]; intros ws P1 P2 w E.
  - right. exists P1, P2. split; [reflexivity | symmetry; exact E].
  - destruct P1 as [|y P1]; cbn in E; inversion E; subst.
    + left. exists P. reflexivity.
    + destruct (IH _ _ _ _ H1) as [[P2' E2] | [W1 [W2 [E1 E2]]]].
      * left. exists P2'. rewrite E2. reflexivity.
      * right. exists W1, W2. split; [rewrite E1; reflexivity | exact E2].
Qed.

Section WF.
Variable b : build.
Hypothesis wf : wf_build b = true.

Lemma wf_parts :
  (forall p, In p (all_paths b) -> p <> []) /\
  NoDup (all_paths b) /\
  parents_first [] (b_dirs b) = true /\
  (forall p, In p (map fst (b_links b) ++ map fst (b_files b)) ->
     forall a, In a (prefixes p) -> a <> [] -> In a (b_dirs b)).
Proof.
  unfold wf_build in wf. apply andb_true_iff in wf as [H123 H4]. apply andb_true_iff in H123 as [H12 H3].
  apply andb_true_iff in H12 as [H1 H2]. repeat split.
  - intros p Hin E. rewrite forallb_forall in H1. specialize (H1 p Hin). subst. cbn in H1. discriminate.
  - apply nodupb_NoDup. exact H2.
  - exact H3.
  - intros p Hin a Ha Hn. rewrite forallb_forall in H4. specialize (H4 p Hin).
    rewrite forallb_forall in H4. apply existsb_path_In. apply H4. apply nonempty_prefixes_spec. split; assumption.
Qed.

Lemma wf_nonempty : forall p, In p (all_paths b) -> p <> [].
Proof. apply wf_parts. Qed.

Lemma wf_nodup : NoDup (all_paths b).
Proof. apply wf_parts. Qed.

Lemma in_all_dir : forall d, In d (b_dirs b) -> In d (all_paths b).
Proof. intros. unfold all_paths. apply in_or_app. left. assumption. Qed.

Lemma in_all_link : forall l dest, In (l, dest) (b_links b) -> In l (all_paths b).
Proof.
  intros. unfold all_paths. apply in_or_app. right. apply in_or_app. left.
  apply in_map_iff. exists (l, dest). split; [reflexivity | assumption].
Qed.

Lemma in_all_file : forall f data, In (f, data) (b_files b) -> In f (all_paths b).
Proof.
  intros. unfold all_paths. apply in_or_app. right. apply in_or_app. right.
  apply in_map_iff. exists (f, data). split; [reflexivity | assumption].
Qed.

(** the proper non-empty prefixes of a directory come before it *)
Lemma wf_dir_anc : forall dd d rest, b_dirs b = dd ++ d :: rest ->
  forall a, In a (prefixes d) -> a <> [] -> In a dd.
Proof.
  intros dd d rest E a Ha Hn. destruct wf_parts as [_ [_ [H3 _]]].
  destruct (parents_first_spec _ _ H3 dd d rest E a Ha Hn) as [H | H]; [destruct H | exact H].
Qed.

Lemma wf_dir_anc_in : forall d, In d (b_dirs b) -> forall a, In a (prefixes d) -> a <> [] -> In a (b_dirs b).
Proof.
  intros d Hd a Ha Hn. apply in_split in Hd as [dd [rest E]].
  rewrite E. apply in_or_app. left. eapply wf_dir_anc; eassumption.
Qed.

Lemma wf_lf_anc : forall p, In p (map fst (b_links b) ++ map fst (b_files b)) ->
  forall a, In a (prefixes p) -> a <> [] -> In a (b_dirs b).
Proof. apply wf_parts. Qed.

(** every proper non-empty prefix of a listed path is a listed directory *)
Lemma wf_anc : forall p, In p (all_paths b) -> forall a, In a (prefixes p) -> a <> [] -> In a (b_dirs b).
Proof.
  intros p Hp a Ha Hn. unfold all_paths in Hp. apply in_app_or in Hp as [Hp | Hp].
  - eapply wf_dir_anc_in; eassumption.
  - eapply wf_lf_anc; eassumption.
Qed.

(** a symlink or file path is not a directory path *)
Lemma wf_lf_not_dir : forall p, In p (map fst (b_links b) ++ map fst (b_files b)) -> ~ In p (b_dirs b).
Proof.
  intros p Hp Hd. pose proof wf_nodup as ND. unfold all_paths in ND.
  revert ND Hp Hd. generalize (map fst (b_links b) ++ map fst (b_files b)) as r. generalize (b_dirs b) as ds.
  induction ds as [|x ds IH]; intros r ND Hp Hd; [destruct Hd|].
  cbn in ND. inversion ND; subst. destruct Hd as [E | Hd].
  - subst. apply H1. apply in_or_app. right. exact Hp.
  - eapply IH; eassumption.
Qed.

(** nothing is listed below a symlink or a file *)
Lemma wf_no_below : forall e, In e (map fst (b_links b) ++ map fst (b_files b)) ->
  forall p, In p (all_paths b) -> is_prefix e p = true -> p = e.
Proof.
  intros e He p Hp Hpre. apply is_prefix_spec in Hpre as [r E]. destruct r as [|x r].
  - rewrite app_nil_r in E. exact E.
  - exfalso. apply (wf_lf_not_dir e He). apply (wf_anc p Hp).
    + apply prefixes_spec. exists (x :: r). split; [discriminate | exact E].
    + apply wf_nonempty. unfold all_paths. apply in_or_app. right. exact He.
Qed.

Lemma files_functional : forall f d1 d2, In (f, d1) (b_files b) -> In (f, d2) (b_files b) -> d1 = d2.
Proof.
  intros f d1 d2 H1 H2. pose proof wf_nodup as ND. unfold all_paths in ND.
  apply NoDup_app_r in ND. apply NoDup_app_r in ND.
  revert ND H1 H2. generalize (b_files b) as l. induction l as [|[g d] l IH]; intros ND H1 H2; [destruct H1|].
  cbn in ND. inversion ND; subst. destruct H1 as [E1 | H1]; destruct H2 as [E2 | H2].
  - congruence.
  - inversion E1; subst. exfalso. apply H3. apply in_map_iff. exists (f, d2). split; [reflexivity | exact H2].
  - inversion E2; subst. exfalso. apply H3. apply in_map_iff. exists (f, d1). split; [reflexivity | exact H1].
  - apply IH; assumption.
Qed.

Lemma links_functional : forall l d1 d2, In (l, d1) (b_links b) -> In (l, d2) (b_links b) -> d1 = d2.
Proof.
  intros f d1 d2 H1 H2. pose proof wf_nodup as ND. unfold all_paths in ND.
  apply NoDup_app_r in ND. apply NoDup_app_l in ND.
  revert ND H1 H2. generalize (b_links b) as l. induction l as [|[g d] l IH]; intros ND H1 H2; [destruct H1|].
  cbn in ND. inversion ND; subst. destruct H1 as [E1 | H1]; destruct H2 as [E2 | H2].
  - congruence.
  - inversion E1; subst. exfalso. apply H3. apply in_map_iff. exists (f, d2). split; [reflexivity | exact H2].
  - inversion E2; subst. exfalso. apply H3. apply in_map_iff. exists (f, d1). split; [reflexivity | exact H1].
  - apply IH; assumption.
Qed.

Lemma link_not_file : forall l dest f data, In (l, dest) (b_links b) -> In (f, data) (b_files b) -> l <> f.
Proof.
  intros l dest f data Hl Hf E. subst. pose proof wf_nodup as ND. unfold all_paths in ND.
  apply NoDup_app_r in ND.
  assert (H1 : In f (map fst (b_links b))) by (apply in_map_iff; exists (f, dest); split; [reflexivity | exact Hl]).
  assert (H2 : In f (map fst (b_files b))) by (apply in_map_iff; exists (f, data); split; [reflexivity | exact Hf]).
  revert ND H1 H2. generalize (map fst (b_links b)) as x. generalize (map fst (b_files b)) as y.
  intros y x. induction x as [|a x IH]; intros ND H1 H2; [destruct H1|].
  cbn in ND. inversion ND; subst. destruct H1 as [E | H1].
  - subst. apply H3. apply in_or_app. right. exact H2.
  - apply IH; assumption.
Qed.

Lemma in_lf_link : forall l dest, In (l, dest) (b_links b) -> In l (map fst (b_links b) ++ map fst (b_files b)).
Proof. intros. apply in_or_app. left. apply in_map_iff. exists (l, dest). split; [reflexivity | assumption]. Qed.

Lemma in_lf_file : forall f data, In (f, data) (b_files b) -> In f (map fst (b_links b) ++ map fst (b_files b)).
Proof. intros. apply in_or_app. right. apply in_map_iff. exists (f, data). split; [reflexivity | assumption]. Qed.

End WF.

(** ---- the healer's actions on an entry whose ancestors are real directories ---- *)
Section Actions.
Variable T : path.

Definition gdir (t : tree) (d : path) : Prop := node_at t (T ++ d) = Some Dir.
Definition glink (t : tree) (l : path) (dest : list comp) : Prop := node_at t (T ++ l) = Some (Link dest).
Definition gfile (t : tree) (f : path) (data : list N) : Prop := node_at t (T ++ f) = Some (File data).

Definition base_ok (t : tree) : Prop := lit t T /\ node_at t T = Some Dir.
Definition anc_ok (t : tree) (p : path) : Prop := forall a, In a (prefixes p) -> a <> [] -> gdir t a.

Lemma anc_lit : forall t p, base_ok t -> anc_ok t p -> lit t (T ++ p).
Proof.
  intros t p [Hl Hd] Ha. apply lit_app; [exact Hl | exact Hd |].
  intros a Hin Hn. apply Ha; assumption.
Qed.

(** [t'] differs from [t] at most at and below [p] *)
Definition frame (p : path) (t t' : tree) : Prop :=
  forall q, is_prefix p q = false -> node_at t' q = node_at t q.

Lemma frame_refl : forall p t, frame p t t.
Proof. intros p t q _. reflexivity. Qed.

Lemma frame_trans : forall p t1 t2 t3, frame p t1 t2 -> frame p t2 t3 -> frame p t1 t3.
Proof. intros p t1 t2 t3 H1 H2 q Hq. rewrite H2, H1 by exact Hq. reflexivity. Qed.

Lemma frame_set : forall p t n, p <> [] -> frame p t (set t p n).
Proof.
  intros p t n Hp q Hq. rewrite node_at_set by exact Hp.
  destruct (path_eqb p q) eqn:E; [|reflexivity].
  apply path_eqb_eq in E. subst. rewrite is_prefix_refl in Hq. discriminate.
Qed.

Lemma frame_del : forall p t, p <> [] -> frame p t (del t p).
Proof.
  intros p t Hp q Hq. rewrite node_at_del by exact Hp.
  destruct (path_eqb p q) eqn:E; [|reflexivity].
  apply path_eqb_eq in E. subst. rewrite is_prefix_refl in Hq. discriminate.
Qed.

Lemma frame_del_tree : forall p t, p <> [] -> frame p t (del_tree t p).
Proof.
  intros p t Hp q Hq. rewrite node_at_del_tree by exact Hp. rewrite Hq. reflexivity.
Qed.

Lemma proper_prefix_not_below : forall p a, In a (prefixes p) -> is_prefix p a = false.
Proof.
  intros p a Ha. apply is_prefix_false. intros [r E]. apply prefixes_spec in Ha as [r' [Hr Hp]].
  rewrite E, <- app_assoc in Hp. rewrite <- (app_nil_r p) in Hp at 1.
  apply app_inv_head in Hp. symmetry in Hp. apply app_eq_nil in Hp as [_ Hp]. contradiction.
Qed.

Lemma lit_frame : forall p t t', frame p t t' -> lit t p -> lit t' p.
Proof.
  intros p t t' Hf Hl a Ha. rewrite Hf; [apply Hl; exact Ha | apply proper_prefix_not_below; exact Ha].
Qed.

(** exact-key variant *)
Definition frame1 (p : path) (t t' : tree) : Prop := forall q, q <> p -> node_at t' q = node_at t q.

Lemma heal_dir_spec : forall t d, base_ok t -> anc_ok t d -> d <> [] ->
  exists t', heal_dir T t d = Ok t' /\ gdir t' d /\ frame1 (T ++ d) t t'.
Proof.
  intros t d Hb Ha Hd. pose proof (anc_lit t d Hb Ha) as Hl.
  assert (Hp : T ++ d <> []) by (apply app_nonempty; exact Hd).
  unfold heal_dir. rewrite lstat_lit by exact Hl.
  destruct (node_at t (T ++ d)) as [n|] eqn:E.
  - destruct n as [data| |dest].
    + (* a file in the way *)
      rewrite remove_lit; [| exact Hl | exact Hp |].
      2:{ exists (File data). split; [rewrite <- node_at_nonempty by exact Hp; exact E | discriminate]. }
      rewrite mkdir_all_new.
      * eexists. split; [reflexivity|]. split.
        -- unfold gdir. rewrite node_at_set by exact Hp. rewrite path_eqb_refl. reflexivity.
        -- intros q Hq. rewrite node_at_set by exact Hp.
           destruct (path_eqb (T ++ d) q) eqn:E2; [apply path_eqb_eq in E2; congruence|].
           rewrite node_at_del by exact Hp. rewrite E2. reflexivity.
      * eapply lit_frame; [apply frame_del; exact Hp | exact Hl].
      * rewrite node_at_del by exact Hp. rewrite path_eqb_refl. reflexivity.
    + exists t. split; [reflexivity|]. split; [exact E | intros q _; reflexivity].
    + rewrite remove_lit; [| exact Hl | exact Hp |].
      2:{ exists (Link dest). split; [rewrite <- node_at_nonempty by exact Hp; exact E | discriminate]. }
      rewrite mkdir_all_new.
      * eexists. split; [reflexivity|]. split.
        -- unfold gdir. rewrite node_at_set by exact Hp. rewrite path_eqb_refl. reflexivity.
        -- intros q Hq. rewrite node_at_set by exact Hp.
           destruct (path_eqb (T ++ d) q) eqn:E2; [apply path_eqb_eq in E2; congruence|].
           rewrite node_at_del by exact Hp. rewrite E2. reflexivity.
      * eapply lit_frame; [apply frame_del; exact Hp | exact Hl].
      * rewrite node_at_del by exact Hp. rewrite path_eqb_refl. reflexivity.
  - rewrite mkdir_all_new by assumption.
    eexists. split; [reflexivity|]. split.
    + unfold gdir. rewrite node_at_set by exact Hp. rewrite path_eqb_refl. reflexivity.
    + intros q Hq. rewrite node_at_set by exact Hp.
      destruct (path_eqb (T ++ d) q) eqn:E2; [apply path_eqb_eq in E2; congruence | reflexivity].
Qed.

Lemma parent_app_last : forall (p : path) x, parent (p ++ [x]) = p.
Proof. intros. unfold parent. apply removelast_last. Qed.

(** clearing whatever is at a literal path *)
Lemma clear_spec : forall t p (keep_file : bool), lit t p -> p <> [] ->
  exists t2,
    match lstat t p with
    | Ok Dir => remove_all t p
    | Ok (Link _) => remove t p
    | Ok (File _) => if keep_file then Ok t else remove t p
    | Err _ => Ok t
    end = Ok t2 /\ lit t2 p /\ frame p t t2 /\
    (node_at t2 p = None \/ (keep_file = true /\ exists d, node_at t2 p = Some (File d))).
Proof.
  intros t p keep Hl Hp. rewrite lstat_lit by exact Hl.
  destruct (node_at t p) as [n|] eqn:E.
  - destruct n as [data| |dest].
    + destruct keep.
      * exists t. split; [reflexivity|]. split; [exact Hl|]. split; [apply frame_refl|].
        right. split; [reflexivity | exists data; exact E].
      * rewrite remove_lit; [| exact Hl | exact Hp |].
        2:{ exists (File data). split; [rewrite <- node_at_nonempty by exact Hp; exact E | discriminate]. }
        eexists. split; [reflexivity|]. split; [eapply lit_frame; [apply frame_del; exact Hp | exact Hl]|].
        split; [apply frame_del; exact Hp|]. left. rewrite node_at_del by exact Hp. rewrite path_eqb_refl. reflexivity.
    + rewrite remove_all_lit by assumption.
      eexists. split; [reflexivity|]. split; [eapply lit_frame; [apply frame_del_tree; exact Hp | exact Hl]|].
      split; [apply frame_del_tree; exact Hp|]. left. rewrite node_at_del_tree by exact Hp. rewrite is_prefix_refl. reflexivity.
    + rewrite remove_lit; [| exact Hl | exact Hp |].
      2:{ exists (Link dest). split; [rewrite <- node_at_nonempty by exact Hp; exact E | discriminate]. }
      eexists. split; [reflexivity|]. split; [eapply lit_frame; [apply frame_del; exact Hp | exact Hl]|].
      split; [apply frame_del; exact Hp|]. left. rewrite node_at_del by exact Hp. rewrite path_eqb_refl. reflexivity.
  - exists t. split; [reflexivity|]. split; [exact Hl|]. split; [apply frame_refl|]. left. exact E.
Qed.

Lemma mkdir_all_parent : forall t p, lit t p -> p <> [] -> mkdir_all t (parent p) = Ok t.
Proof.
  intros t p Hl Hp. destruct p as [|x p'] using rev_ind; [congruence|]. clear IHp'.
  rewrite parent_app_last. apply mkdir_all_dir.
  - eapply lit_prefix. exact Hl.
  - eapply lit_parent_dir; [|exact Hl]. discriminate.
Qed.

Lemma heal_link_spec : forall t l dest, base_ok t -> anc_ok t l -> l <> [] ->
  exists t', heal_link T t l dest = Ok t' /\ glink t' l dest /\ frame (T ++ l) t t'.
Proof.
  intros t l dest Hb Ha Hne. pose proof (anc_lit t l Hb Ha) as Hl.
  assert (Hp : T ++ l <> []) by (apply app_nonempty; exact Hne).
  unfold heal_link. rewrite mkdir_all_parent by assumption.
  destruct (clear_spec t (T ++ l) false Hl Hp) as [t2 [E [Hl2 [Hf Hn]]]].
  cbv zeta. rewrite E.
  destruct Hn as [Hn | [Hk _]]; [|discriminate].
  rewrite symlink_lit by assumption.
  eexists. split; [reflexivity|]. split.
  - unfold glink. rewrite node_at_set by exact Hp. rewrite path_eqb_refl. reflexivity.
  - eapply frame_trans; [exact Hf | apply frame_set; exact Hp].
Qed.

Lemma get_writer_spec : forall t f, base_ok t -> anc_ok t f -> f <> [] ->
  exists t', get_writer T t f = Ok (t', T ++ f) /\ node_at t' (T ++ f) = Some (File []) /\ frame (T ++ f) t t'.
Proof.
  intros t f Hb Ha Hne. pose proof (anc_lit t f Hb Ha) as Hl.
  assert (Hp : T ++ f <> []) by (apply app_nonempty; exact Hne).
  unfold get_writer. rewrite mkdir_all_parent by assumption.
  destruct (clear_spec t (T ++ f) true Hl Hp) as [t2 [E [Hl2 [Hf Hn]]]].
  cbv zeta. rewrite E.
  rewrite open_trunc_lit; [| exact Hl2 |].
  - eexists. split; [reflexivity|]. split.
    + rewrite node_at_set by exact Hp. rewrite path_eqb_refl. reflexivity.
    + eapply frame_trans; [exact Hf | apply frame_set; exact Hp].
  - destruct Hn as [Hn | [_ Hn]]; [left; exact Hn | right; exact Hn].
Qed.

Lemma write_fd_spec : forall t q data d0, q <> [] -> node_at t q = Some (File d0) ->
  node_at (write_fd t q data) q = Some (File data) /\ frame q t (write_fd t q data).
Proof.
  intros t q data d0 Hq E. unfold write_fd. rewrite E. split.
  - rewrite node_at_set by exact Hq. rewrite path_eqb_refl. reflexivity.
  - apply frame_set. exact Hq.
Qed.

End Actions.
