(** C06, model part 3: the GRANULAR transition system.

    In [Heal/Healer.v] one entry check of the validator (Lstat / Readlink / open+read and the
    decision which wound to send), one [processWound] of the healer and the [fspool.GetWriter] of
    the heal worker are single steps.  In Go each of them is a sequence of calls into the
    filesystem that interleaves with the calls of the other goroutines.  Here every step of every
    thread performs AT MOST ONE operation of [FS/Ops.v]; what a goroutine remembers between two of
    its operations (which call comes next, for which entry) is its program counter
    ([vpc] / [hpc] / [wpc]).  Same style as [Healer.v]: the schedule is a list of thread ids, a
    step of a blocked or finished thread leaves the state unchanged.

    pwr/validator.go
      directory pass    underWoundedDir ; os.Lstat                          (already one call)
      symlink pass      underWoundedDir ; os.Lstat ; os.Readlink            ([VP0] ; [VPmid])
      file pass         underWoundedDir ; os.Lstat ; GetReader + io.Copy    ([VP0] ; [VPmid])
      every wound       one send on vctx.Wounds                             (as before)
    pwr/archive_healer.go [Do] / [processWound]
      receive           wound := <-wounds                                   ([HP0] -> ...)
      DIR wound         os.Lstat ; os.Remove ; os.MkdirAll
      SYMLINK wound     os.MkdirAll(dir) ; os.Lstat ; os.RemoveAll | os.Remove ; os.Symlink
      FILE / CLOSED     no filesystem call (set lookup, send on fileIndices): one step, as before
    pwr/archive_healer.go [heal] / [healOne] with lake's [fspool.GetWriter]
      receive           fileIndex := <-fileIndices                          ([WP0] -> [WPMkdir])
      GetWriter         MkdirAll(dir) ; Lstat ; RemoveAll | Remove ; OpenFile(O_CREATE|O_TRUNC)
      ctxcopy.Do        the write of the content                            (as before)

    An operation that fails ends the goroutine with that error at the point where Go returns it,
    with the filesystem as it is at that point (the atomic model leaves the tree untouched when
    [processWound] fails; the difference is unobservable, see [GranularProofs.v]: under the
    hypotheses of [heal_restores] no operation of the healer or the worker fails).

    Not split further (the granularity of [FS/Ops.v]): [os.MkdirAll] and [os.RemoveAll] are
    library functions that make several system calls; opening a file and reading it to the end is
    the one operation [read_file].  Definitions only; proofs are in [Heal/GranularProofs.v]. *)
From Wharf Require Import FS.Light FS.Tree FS.Ops Heal.Validator Heal.Healer.

(** where the validator is inside the check of the entry at the head of its list *)
Inductive vpc :=
| VP0          (* nothing done yet for this entry *)
| VPmid.       (* not under a wounded directory, os.Lstat done and passed on: Readlink / read pending *)

(** where the healer is inside [processWound] *)
Inductive hpc :=
| HP0                                              (* for wound := range wounds *)
| HPDirLstat (d : path)                            (* DIR wound received; os.Lstat pending *)
| HPDirRemove (d : path)                           (* os.Remove pending *)
| HPDirMkdir (d : path)                            (* os.MkdirAll pending *)
| HPLinkMkdir (l : path) (dest : list comp)        (* SYMLINK wound received; os.MkdirAll(dir) pending *)
| HPLinkLstat (l : path) (dest : list comp)        (* os.Lstat pending *)
| HPLinkRemoveAll (l : path) (dest : list comp)    (* os.RemoveAll pending *)
| HPLinkRemove (l : path) (dest : list comp)       (* os.Remove pending *)
| HPLinkSymlink (l : path) (dest : list comp).     (* os.Symlink pending *)

(** where the heal worker is inside [fspool.GetWriter] *)
Inductive wpc :=
| WP0                                              (* not inside GetWriter *)
| WPMkdir (f : path) (data : list N)               (* file index received; MkdirAll(dir) pending *)
| WPLstat (f : path) (data : list N)
| WPRemoveAll (f : path) (data : list N)
| WPRemove (f : path) (data : list N)
| WPOpen (f : path) (data : list N).               (* OpenFile(O_WRONLY|O_CREATE|O_TRUNC) pending *)

(** the shared state and the coarse program counters are those of the atomic system *)
Record gstate := mkG {
  g_s : state;
  g_v : vpc;
  g_h : hpc;
  g_w : wpc }.

Definition ginit (b : build) (t : tree) : gstate := mkG (init b t) VP0 HP0 WP0.

Definition set_fs (s : state) (t : tree) : state :=
  mkS t (s_v s) (s_chan s) (s_closed s) (s_h s) (s_queued s) (s_wq s) (s_wq_closed s) (s_w s).

Section GSteps.
Variable fx : fixes.
Variable cap : nat.
Variable b : build.
Variable T : path.

(** ---- validator ---- *)

Definition link_verdict (r : res (list comp)) (l : path) (dest : list comp) : verdict :=
  match r with
  | Err e => if is_missing fx e then Wounds [WLink l dest] else Fail e
  | Ok d => if dest_eqb d dest then Wounds [] else Wounds [WLink l dest]
  end.

Definition file_verdict (r : res (list N)) (f : path) (data : list N) : verdict :=
  match r with
  | Err _ => Wounds [WFile f data]
  | Ok d => if nlist_eqb d data then Wounds [WClosed f] else Wounds [WFile f data; WClosed f]
  end.

Definition gvstep (g : gstate) : option gstate :=
  let s := g_s g in
  let v := s_v s in
  let same := option_map (fun s' => mkG s' (g_v g) (g_h g) (g_w g)) (vstep fx cap b T s) in
  let decided next r := Some (mkG (after_check s next (v_wd v) r) VP0 (g_h g) (g_w g)) in
  match v_pend v with
  | _ :: _ => same                                        (* one send on vctx.Wounds *)
  | [] =>
      match v_phase v with
      | VLinks ((l, dest) :: rest) =>
          match g_v g with
          | VP0 =>
              if under_wd fx (v_wd v) l then decided (VLinks rest) (Wounds [WLink l dest]) else
              match lstat (s_fs s) (T ++ l) with                               (* os.Lstat *)
              | Ok Dir | Ok (File _) => decided (VLinks rest) (Wounds [WLink l dest])
              | _ => Some (mkG s VPmid (g_h g) (g_w g))
              end
          | VPmid =>                                                           (* os.Readlink *)
              decided (VLinks rest) (link_verdict (readlink (s_fs s) (T ++ l)) l dest)
          end
      | VFiles ((f, data) :: rest) =>
          match g_v g with
          | VP0 =>
              if under_wd fx (v_wd v) f then decided (VFiles rest) (Wounds [WFile f data]) else
              match lstat (s_fs s) (T ++ f) with                               (* os.Lstat *)
              | Ok Dir | Ok (Link _) => decided (VFiles rest) (Wounds [WFile f data])
              | _ => Some (mkG s VPmid (g_h g) (g_w g))
              end
          | VPmid =>                                                           (* open + read *)
              decided (VFiles rest) (file_verdict (read_file (s_fs s) (T ++ f)) f data)
          end
      | _ => same      (* MkdirAll(target); one directory check = one Lstat; pass changes; close *)
      end
  end.

(** ---- healer ---- *)

(** one filesystem operation of [processWound]: the new tree and what comes next *)
Definition hop (pc : hpc) (t : tree) : res (tree * hpc) :=
  match pc with
  | HP0 => Ok (t, HP0)
  | HPDirLstat d =>
      match lstat t (T ++ d) with
      | Ok Dir => Ok (t, HP0)
      | Ok _ => Ok (t, HPDirRemove d)
      | Err _ => Ok (t, HPDirMkdir d)
      end
  | HPDirRemove d =>
      match remove t (T ++ d) with Ok t1 => Ok (t1, HPDirMkdir d) | Err e => Err e end
  | HPDirMkdir d =>
      match mkdir_all t (T ++ d) with Ok t1 => Ok (t1, HP0) | Err e => Err e end
  | HPLinkMkdir l dest =>
      match mkdir_all t (parent (T ++ l)) with Ok t1 => Ok (t1, HPLinkLstat l dest) | Err e => Err e end
  | HPLinkLstat l dest =>
      match lstat t (T ++ l) with
      | Ok Dir => Ok (t, HPLinkRemoveAll l dest)
      | Ok _ => Ok (t, HPLinkRemove l dest)
      | Err _ => Ok (t, HPLinkSymlink l dest)
      end
  | HPLinkRemoveAll l dest =>
      match remove_all t (T ++ l) with Ok t1 => Ok (t1, HPLinkSymlink l dest) | Err e => Err e end
  | HPLinkRemove l dest =>
      match remove t (T ++ l) with Ok t1 => Ok (t1, HPLinkSymlink l dest) | Err e => Err e end
  | HPLinkSymlink l dest =>
      match symlink t dest (T ++ l) with Ok t1 => Ok (t1, HP0) | Err e => Err e end
  end.

Definition ghstep (g : gstate) : option gstate :=
  let s := g_s g in
  let same := option_map (fun s' => mkG s' (g_v g) (g_h g) (g_w g)) (hstep T s) in
  match g_h g with
  | HP0 =>
      match s_h s, s_chan s with
      | HRun, WDir d :: ch =>                                              (* <-wounds *)
          Some (mkG (set_fs_chan_h s (s_fs s) ch HRun) (g_v g) (HPDirLstat d) (g_w g))
      | HRun, WLink l dest :: ch =>
          Some (mkG (set_fs_chan_h s (s_fs s) ch HRun) (g_v g) (HPLinkMkdir l dest) (g_w g))
      | _, _ => same              (* FILE / CLOSED_FILE wounds, close(fileIndices), <-errs *)
      end
  | pc =>
      match hop pc (s_fs s) with
      | Ok (t', pc') => Some (mkG (set_fs s t') (g_v g) pc' (g_w g))
      | Err e => Some (mkG (set_fs_chan_h s (s_fs s) (s_chan s) (HDone (Err e))) (g_v g) HP0 (g_w g))
      end
  end.

(** ---- heal worker ---- *)

(** one filesystem operation of [GetWriter]; [inr q]: the file is open at location [q] *)
Definition wop (pc : wpc) (t : tree) : res (tree * (wpc + path)) :=
  match pc with
  | WP0 => Ok (t, inl WP0)
  | WPMkdir f data =>
      match mkdir_all t (parent (T ++ f)) with Ok t1 => Ok (t1, inl (WPLstat f data)) | Err e => Err e end
  | WPLstat f data =>
      match lstat t (T ++ f) with
      | Ok Dir => Ok (t, inl (WPRemoveAll f data))
      | Ok (Link _) => Ok (t, inl (WPRemove f data))
      | _ => Ok (t, inl (WPOpen f data))
      end
  | WPRemoveAll f data =>
      match remove_all t (T ++ f) with Ok t1 => Ok (t1, inl (WPOpen f data)) | Err e => Err e end
  | WPRemove f data =>
      match remove t (T ++ f) with Ok t1 => Ok (t1, inl (WPOpen f data)) | Err e => Err e end
  | WPOpen f data =>
      match open_trunc t (T ++ f) with Ok (t1, q) => Ok (t1, inr q) | Err e => Err e end
  end.

Definition wpc_data (pc : wpc) : list N :=
  match pc with
  | WP0 => []
  | WPMkdir _ d | WPLstat _ d | WPRemoveAll _ d | WPRemove _ d | WPOpen _ d => d
  end.

Definition gwstep (g : gstate) : option gstate :=
  let s := g_s g in
  let same := option_map (fun s' => mkG s' (g_v g) (g_h g) (g_w g)) (wstep T s) in
  match g_w g with
  | WP0 =>
      match s_w s, s_wq s with
      | WIdle, (f, data) :: wq =>                                          (* <-fileIndices *)
          Some (mkG (set_fs_wq_w s (s_fs s) wq WIdle) (g_v g) (g_h g) (WPMkdir f data))
      | _, _ => same              (* the write of the content; return when the queue is closed *)
      end
  | pc =>
      match wop pc (s_fs s) with
      | Ok (t', inl pc') => Some (mkG (set_fs s t') (g_v g) (g_h g) pc')
      | Ok (t', inr q) => Some (mkG (set_fs_wq_w s t' (s_wq s) (WWriting q (wpc_data pc))) (g_v g) (g_h g) WP0)
      | Err e => Some (mkG (set_fs_wq_w s (s_fs s) (s_wq s) (WExit (Err e))) (g_v g) (g_h g) WP0)
      end
  end.

Definition gstep (g : gstate) (i : tid) : option gstate :=
  match i with TV => gvstep g | TH => ghstep g | TW => gwstep g end.

Definition gstep_or_stay (g : gstate) (i : tid) : gstate :=
  match gstep g i with Some g' => g' | None => g end.

Definition grun (sched : list tid) (g : gstate) : gstate := fold_left gstep_or_stay sched g.

Fixpoint gfirst_step (g : gstate) (prio : list tid) : option gstate :=
  match prio with
  | [] => None
  | i :: r => match gstep g i with Some g' => Some g' | None => gfirst_step g r end
  end.

Fixpoint gfinish (fuel : nat) (prio : list tid) (g : gstate) : gstate :=
  match fuel with
  | O => g
  | S f => match gfirst_step g prio with Some g' => gfinish f prio g' | None => g end
  end.

(** ---- the abstraction: what is left of the calls in progress, done at once ---- *)

(** the remaining operations of the healer's [processWound] *)
Definition complete_h (pc : hpc) (t : tree) : res tree :=
  match pc with
  | HP0 => Ok t
  | HPDirLstat d => heal_dir T t d
  | HPDirRemove d =>
      match remove t (T ++ d) with Err e => Err e | Ok t1 => mkdir_all t1 (T ++ d) end
  | HPDirMkdir d => mkdir_all t (T ++ d)
  | HPLinkMkdir l dest => heal_link T t l dest
  | HPLinkLstat l dest =>
      match (match lstat t (T ++ l) with
             | Ok Dir => remove_all t (T ++ l)
             | Ok _ => remove t (T ++ l)
             | Err _ => Ok t
             end) with
      | Err e => Err e
      | Ok t2 => symlink t2 dest (T ++ l)
      end
  | HPLinkRemoveAll l dest =>
      match remove_all t (T ++ l) with Err e => Err e | Ok t2 => symlink t2 dest (T ++ l) end
  | HPLinkRemove l dest =>
      match remove t (T ++ l) with Err e => Err e | Ok t2 => symlink t2 dest (T ++ l) end
  | HPLinkSymlink l dest => symlink t dest (T ++ l)
  end.

(** the remaining operations of the worker's [GetWriter] *)
Definition complete_w (pc : wpc) (t : tree) : res (tree * path) :=
  match pc with
  | WP0 => Err EINVAL                                  (* not inside GetWriter; never used *)
  | WPMkdir f data => get_writer T t f
  | WPLstat f data =>
      match (match lstat t (T ++ f) with
             | Ok Dir => remove_all t (T ++ f)
             | Ok (Link _) => remove t (T ++ f)
             | _ => Ok t
             end) with
      | Err e => Err e
      | Ok t2 => open_trunc t2 (T ++ f)
      end
  | WPRemoveAll f data =>
      match remove_all t (T ++ f) with Err e => Err e | Ok t2 => open_trunc t2 (T ++ f) end
  | WPRemove f data =>
      match remove t (T ++ f) with Err e => Err e | Ok t2 => open_trunc t2 (T ++ f) end
  | WPOpen f data => open_trunc t (T ++ f)
  end.

Definition abs_h (pc : hpc) (s : state) : state :=
  match pc with
  | HP0 => s
  | _ => match complete_h pc (s_fs s) with Ok t' => set_fs s t' | Err _ => s end
  end.

Definition abs_w (pc : wpc) (s : state) : state :=
  match pc with
  | WP0 => s
  | _ => match complete_w pc (s_fs s) with
         | Ok (t', q) => set_fs_wq_w s t' (s_wq s) (WWriting q (wpc_data pc))
         | Err _ => s
         end
  end.

(** the atomic state a granular state stands for: the validator's entry check in progress has
    not started, [processWound] / [GetWriter] in progress are finished *)
Definition abs (g : gstate) : state := abs_w (g_w g) (abs_h (g_h g) (g_s g)).

(** no goroutine is between two filesystem calls of one check / processWound / GetWriter *)
Definition quiescent (g : gstate) : bool :=
  match g_v g, g_h g, g_w g with VP0, HP0, WP0 => true | _, _, _ => false end.

(** [Validate] has returned / its result / the final tree: read off the shared part *)
Definition gterminal (g : gstate) : bool := terminal (g_s g).
Definition gresult (g : gstate) : option (res unit) := result (g_s g).
Definition g_fs (g : gstate) : tree := s_fs (g_s g).

(** how many filesystem calls the goroutines still have to make inside the calls in progress *)
Definition vrank (pc : vpc) : nat := match pc with VP0 => 1 | VPmid => 0 end.
Definition hrank (pc : hpc) : nat :=
  match pc with
  | HP0 => 0
  | HPDirLstat _ => 3 | HPDirRemove _ => 2 | HPDirMkdir _ => 1
  | HPLinkMkdir _ _ => 4 | HPLinkLstat _ _ => 3 | HPLinkRemoveAll _ _ | HPLinkRemove _ _ => 2
  | HPLinkSymlink _ _ => 1
  end.
Definition wrank (pc : wpc) : nat :=
  match pc with
  | WP0 => 0
  | WPMkdir _ _ => 4 | WPLstat _ _ => 3 | WPRemoveAll _ _ | WPRemove _ _ => 2 | WPOpen _ _ => 1
  end.
Definition grank (g : gstate) : nat := vrank (g_v g) + hrank (g_h g) + wrank (g_w g).

End GSteps.
