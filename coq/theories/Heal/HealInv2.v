(** C06 proofs, part 5: a second invariant of the ATOMIC transition system of [Heal/Healer.v]
    (any variant of the code), needed by the reduction of the granular system
    ([Heal/GranularProofs.v]).  It is about the order of events only, not about the filesystem:

    - a DIR wound on its way to the healer names a directory in [woundedDirs];
    - an entry that has a wound on its way, or is in the healer's set, has been checked already;
    - DIR / SYMLINK wounds are sent in the first two passes only and all come before the
      FILE / CLOSED_FILE wounds in the channel;
    - as long as the validator is in the first two passes or a DIR / SYMLINK wound is on its way,
      no file has been queued and the heal worker is idle. *)
From Coq Require Import Arith Lia.
From Wharf Require Import FS.Light FS.Tree FS.TreeProofs FS.Ops FS.OpsProofs
     Heal.Validator Heal.Healer Heal.HealLemmas Heal.HealProofs.

Definition is_dl (w : wound) : bool := match w with WDir _ | WLink _ _ => true | _ => false end.

Definition early (ph : vphase) : bool :=
  match ph with VInit | VDirs _ | VLinks _ => true | _ => false end.

Section Inv2.
Variable fx : fixes.
Variable cap : nat.
Variable b : build.
Variable T : path.

(** the entries the validator has not finished checking, the current one first *)
Definition todo (ph : vphase) : list path :=
  match ph with
  | VInit => all_paths b
  | VDirs r => r ++ map fst (b_links b) ++ map fst (b_files b)
  | VLinks r => map fst r ++ map fst (b_files b)
  | VFiles r => map fst r
  | _ => []
  end.

Definition busy (s : state) : Prop :=
  early (v_phase (s_v s)) = true \/ exists w, In w (pend s) /\ is_dl w = true.

Record Inv2 (s : state) : Prop := mkInv2 {
  i2_wd : forall d, In (WDir d) (pend s) -> In d (v_wd (s_v s));
  i2_todo : forall w p, In w (pend s) -> wpath w = Some p -> ~ In p (todo (v_phase (s_v s)));
  i2_qtodo : forall f, In f (s_queued s) -> ~ In f (todo (v_phase (s_v s)));
  i2_nodup : NoDup (todo (v_phase (s_v s)));
  i2_early : early (v_phase (s_v s)) = true -> forall w, In w (pend s) -> is_dl w = true;
  i2_sorted : forall P1 w P2, pend s = P1 ++ w :: P2 -> is_dl w = true ->
              forall w', In w' P1 -> is_dl w' = true;
  i2_idle : busy s -> s_queued s = [] /\ s_wq s = [] /\ s_w s = WIdle }.

(** ---- generic preservation lemmas ---- *)

Lemma inv2_same : forall s s',
  Inv2 s -> pend s' = pend s ->
  v_phase (s_v s') = v_phase (s_v s) -> v_wd (s_v s') = v_wd (s_v s) ->
  s_queued s' = s_queued s ->
  (busy s -> s_wq s' = [] /\ s_w s' = WIdle) ->
  Inv2 s'.
Proof.
  intros s s' [A1 A2 A3 A4 A5 A6 A7] Ep Eph Ewd Eq Hw.
  constructor; unfold busy in *; rewrite ?Ep, ?Eph, ?Ewd, ?Eq; try assumption.
  intro Hb. destruct (A7 Hb) as [X _]. split; [exact X | apply Hw; exact Hb].
Qed.

Lemma inv2_pop : forall s s' w,
  Inv2 s -> pend s = w :: pend s' ->
  v_phase (s_v s') = v_phase (s_v s) -> v_wd (s_v s') = v_wd (s_v s) ->
  (s_queued s' = s_queued s /\ s_wq s' = s_wq s /\ s_w s' = s_w s) \/
  (exists f data, w = WFile f data /\ s_queued s' = f :: s_queued s) ->
  Inv2 s'.
Proof.
  intros s s' w [A1 A2 A3 A4 A5 A6 A7] Ep Eph Ewd Hq.
  assert (Hsub : forall x, In x (pend s') -> In x (pend s)) by (intros x Hx; rewrite Ep; right; exact Hx).
  assert (Hbusy : busy s' -> busy s).
  { unfold busy. rewrite Eph. intros [Hb | [x [Hx Hd]]]; [left; exact Hb | right; exists x; split; [apply Hsub; exact Hx | exact Hd]]. }
  constructor; rewrite ?Eph, ?Ewd.
  - intros d Hd. apply A1. apply Hsub. exact Hd.
  - intros x p Hx. apply A2. apply Hsub. exact Hx.
  - destruct Hq as [[Eq _] | [f [data [Ew Eq]]]]; rewrite Eq; [exact A3|].
    intros f' [<- | Hin]; [|apply A3; exact Hin].
    apply (A2 w f); [rewrite Ep; left; reflexivity | subst w; reflexivity].
  - exact A4.
  - intros He x Hx. apply A5; [exact He | apply Hsub; exact Hx].
  - intros P1 x P2 E Hd x' Hx'. apply (A6 (w :: P1) x P2); [rewrite Ep, E; reflexivity | exact Hd | right; exact Hx'].
  - intro Hb. destruct Hq as [[Eq [Ewq Ew]] | [f [data [Ew Eq]]]].
    + rewrite Eq, Ewq, Ew. apply A7. apply Hbusy. exact Hb.
    + exfalso. subst w. destruct Hb as [He | [x [Hx Hd]]].
      * rewrite Eph in He. specialize (A5 He (WFile f data)). rewrite Ep in A5. discriminate A5. left. reflexivity.
      * apply in_split in Hx as [P1 [P2 E]].
        specialize (A6 (WFile f data :: P1) x P2). rewrite Ep, E in A6.
        discriminate (A6 eq_refl Hd (WFile f data) (or_introl eq_refl)).
Qed.

(** the validator finishes something and appends the wounds [ws] *)
Lemma inv2_check : forall s ph' ws wd',
  Inv2 s -> v_pend (s_v s) = [] ->
  (early ph' = true -> early (v_phase (s_v s)) = true) ->
  (forall w, In w ws -> is_dl w = true -> early (v_phase (s_v s)) = true) ->
  (early (v_phase (s_v s)) = true -> forall w, In w ws -> is_dl w = true) ->
  (forall p, In p (todo ph') -> In p (todo (v_phase (s_v s)))) -> NoDup (todo ph') ->
  (forall w p, In w ws -> wpath w = Some p -> ~ In p (todo ph')) ->
  incl (v_wd (s_v s)) wd' -> (forall d, In (WDir d) ws -> In d wd') ->
  Inv2 (set_v s (mkV ph' ws wd')).
Proof.
  intros s ph' ws wd' [A1 A2 A3 A4 A5 A6 A7] Hp E1 E2 E3 T1 ND T2 W1 W2.
  assert (EP : pend s = s_chan s) by (unfold pend; rewrite Hp, app_nil_r; reflexivity).
  assert (EP' : pend (set_v s (mkV ph' ws wd')) = pend s ++ ws) by (rewrite EP; reflexivity).
  constructor; rewrite ?EP'; cbn [set_v s_v v_phase v_wd s_queued s_wq s_w].
  - intros d Hd. apply in_app_or in Hd as [Hd | Hd]; [apply W1, A1, Hd | apply W2, Hd].
  - intros w p Hw Hwp Hin. apply in_app_or in Hw as [Hw | Hw].
    + apply (A2 w p Hw Hwp). apply T1. exact Hin.
    + apply (T2 w p Hw Hwp Hin).
  - intros f Hf Hin. apply (A3 f Hf). apply T1. exact Hin.
  - exact ND.
  - intros He w Hw. apply in_app_or in Hw as [Hw | Hw]; [apply A5; [apply E1, He | exact Hw] | apply E3; [apply E1, He | exact Hw]].
  - intros P1 w P2 E Hd w' Hw'.
    destruct (split_app _ _ _ _ _ _ (eq_sym E)) as [[P2' E2'] | [W1' [W2' [E1' E2']]]].
    + eapply A6; eassumption.
    + assert (He : early (v_phase (s_v s)) = true).
      { apply (E2 w); [rewrite E2'; apply in_or_app; right; left; reflexivity | exact Hd]. }
      rewrite E1' in Hw'. apply in_app_or in Hw' as [Hw' | Hw'].
      * apply A5; assumption.
      * apply E3; [exact He | rewrite E2'; apply in_or_app; left; exact Hw'].
  - intro Hb. apply A7. unfold busy in *. cbn [set_v s_v v_phase] in Hb. rewrite EP' in Hb.
    destruct Hb as [He | [w [Hw Hd]]]; [left; apply E1, He|].
    apply in_app_or in Hw as [Hw | Hw]; [right; exists w; split; assumption | left; eapply E2; eassumption].
Qed.

Lemma todo_sub_nodup : forall (A : Type) (x : A) l, NoDup (x :: l) -> NoDup l /\ ~ In x l.
Proof. intros A x l H. inversion H; subst. split; assumption. Qed.

(** ---- shapes of the verdicts ---- *)

Lemma check_dir_shape : forall t wd d,
  check_dir fx t T wd d = Wounds [] \/ check_dir fx t T wd d = Wounds [WDir d] \/
  exists e, check_dir fx t T wd d = Fail e.
Proof.
  intros. unfold check_dir. destruct (under_wd fx wd d); [right; left; reflexivity|].
  destruct (lstat t (T ++ d)) as [[| |]|e]; try (right; left; reflexivity); try (left; reflexivity).
  destruct (is_missing fx e); [right; left; reflexivity | right; right; exists e; reflexivity].
Qed.

Lemma check_link_shape : forall t wd l dest,
  check_link fx t T wd l dest = Wounds [] \/ check_link fx t T wd l dest = Wounds [WLink l dest] \/
  exists e, check_link fx t T wd l dest = Fail e.
Proof.
  intros. unfold check_link. destruct (under_wd fx wd l); [right; left; reflexivity|].
  assert (H : forall r : res (list comp),
    match r with
    | Err e => if is_missing fx e then Wounds [WLink l dest] else Fail e
    | Ok d => if dest_eqb d dest then Wounds [] else Wounds [WLink l dest]
    end = Wounds [] \/
    match r with
    | Err e => if is_missing fx e then Wounds [WLink l dest] else Fail e
    | Ok d => if dest_eqb d dest then Wounds [] else Wounds [WLink l dest]
    end = Wounds [WLink l dest] \/
    exists e, match r with
    | Err e => if is_missing fx e then Wounds [WLink l dest] else Fail e
    | Ok d => if dest_eqb d dest then Wounds [] else Wounds [WLink l dest]
    end = Fail e).
  { intros [d|e]; [destruct (dest_eqb d dest); auto | destruct (is_missing fx e); eauto]. }
  destruct (lstat t (T ++ l)) as [[| |]|e]; try (right; left; reflexivity); apply H.
Qed.

Lemma check_file_shape : forall t wd f data,
  check_file fx t T wd f data = Wounds [WClosed f] \/ check_file fx t T wd f data = Wounds [WFile f data] \/
  check_file fx t T wd f data = Wounds [WFile f data; WClosed f].
Proof.
  intros. unfold check_file. destruct (under_wd fx wd f); [right; left; reflexivity|].
  assert (H : forall r : res (list N),
    match r with
    | Err _ => Wounds [WFile f data]
    | Ok d => if nlist_eqb d data then Wounds [WClosed f] else Wounds [WFile f data; WClosed f]
    end = Wounds [WClosed f] \/
    match r with
    | Err _ => Wounds [WFile f data]
    | Ok d => if nlist_eqb d data then Wounds [WClosed f] else Wounds [WFile f data; WClosed f]
    end = Wounds [WFile f data] \/
    match r with
    | Err _ => Wounds [WFile f data]
    | Ok d => if nlist_eqb d data then Wounds [WClosed f] else Wounds [WFile f data; WClosed f]
    end = Wounds [WFile f data; WClosed f]).
  { intros [d|e]; [destruct (nlist_eqb d data); auto | auto]. }
  destruct (lstat t (T ++ f)) as [[| |]|e]; try (right; left; reflexivity); apply H.
Qed.

(** ---- what happens to [Inv2] when a check is decided (shared with the granular system) ---- *)

Lemma inv2_fail : forall s e,
  Inv2 s -> v_pend (s_v s) = [] -> Inv2 (set_v s (mkV (VFail e) [] (v_wd (s_v s)))).
Proof.
  intros s e H2 Hp. apply inv2_check; try assumption; try (intros; contradiction); try discriminate.
  - constructor.
  - apply incl_refl.
Qed.

Lemma inv2_dir_decided : forall s d rest ws,
  Inv2 s -> v_pend (s_v s) = [] -> v_phase (s_v s) = VDirs (d :: rest) ->
  ws = [] \/ ws = [WDir d] ->
  Inv2 (set_v s (mkV (VDirs rest) ws (match ws with _ :: _ => d :: v_wd (s_v s) | [] => v_wd (s_v s) end))).
Proof.
  intros s d rest ws H2 Hp Hph Hws.
  pose proof (i2_nodup s H2) as ND. rewrite Hph in ND. cbn [todo] in ND.
  change ((d :: rest) ++ map fst (b_links b) ++ map fst (b_files b))
    with (d :: (rest ++ map fst (b_links b) ++ map fst (b_files b))) in ND.
  apply todo_sub_nodup in ND as [ND Hnd].
  apply inv2_check; try assumption; rewrite ?Hph; cbn [early todo]; try reflexivity.
  - intros _ w Hw. destruct Hws as [-> | ->]; [destruct Hw | destruct Hw as [<- | []]; reflexivity].
  - intros p Hp'. right. exact Hp'.
  - intros w p Hw Hwp. destruct Hws as [-> | ->]; [destruct Hw|]. destruct Hw as [<- | []]. inversion Hwp; subst. exact Hnd.
  - destruct ws; [apply incl_refl | apply incl_tl, incl_refl].
  - intros d' Hd'. destruct Hws as [-> | ->]; [destruct Hd'|]. destruct Hd' as [E | []]. inversion E. left. reflexivity.
Qed.

Lemma inv2_link_decided : forall s l dest rest ws,
  Inv2 s -> v_pend (s_v s) = [] -> v_phase (s_v s) = VLinks ((l, dest) :: rest) ->
  ws = [] \/ ws = [WLink l dest] ->
  Inv2 (set_v s (mkV (VLinks rest) ws (v_wd (s_v s)))).
Proof.
  intros s l dest rest ws H2 Hp Hph Hws.
  pose proof (i2_nodup s H2) as ND. rewrite Hph in ND. cbn [todo map fst app] in ND.
  apply todo_sub_nodup in ND as [ND Hnd].
  apply inv2_check; try assumption; rewrite ?Hph; cbn [early todo]; try reflexivity.
  - intros _ w Hw. destruct Hws as [-> | ->]; [destruct Hw | destruct Hw as [<- | []]; reflexivity].
  - intros p Hp'. cbn [map fst app]. right. exact Hp'.
  - intros w p Hw Hwp. destruct Hws as [-> | ->]; [destruct Hw|]. destruct Hw as [<- | []]. inversion Hwp; subst. exact Hnd.
  - apply incl_refl.
  - intros d' Hd'. destruct Hws as [-> | ->]; [destruct Hd'|]. destruct Hd' as [E | []]. discriminate.
Qed.

Lemma inv2_file_decided : forall s f data rest ws,
  Inv2 s -> v_pend (s_v s) = [] -> v_phase (s_v s) = VFiles ((f, data) :: rest) ->
  ws = [WClosed f] \/ ws = [WFile f data] \/ ws = [WFile f data; WClosed f] ->
  Inv2 (set_v s (mkV (VFiles rest) ws (v_wd (s_v s)))).
Proof.
  intros s f data rest ws H2 Hp Hph Hws.
  pose proof (i2_nodup s H2) as ND. rewrite Hph in ND. cbn [todo map fst] in ND.
  apply todo_sub_nodup in ND as [ND Hnd].
  assert (Hshape : forall w, In w ws -> w = WClosed f \/ w = WFile f data).
  { intros w Hw. destruct Hws as [-> | [-> | ->]]; cbn in Hw; intuition. }
  apply inv2_check; try assumption; rewrite ?Hph; cbn [early todo]; try discriminate.
  - intros w Hw Hd. destruct (Hshape w Hw) as [-> | ->]; discriminate.
  - intros p Hp'. cbn [map fst]. right. exact Hp'.
  - intros w p Hw Hwp. destruct (Hshape w Hw) as [-> | ->]; [discriminate|]. inversion Hwp; subst. exact Hnd.
  - apply incl_refl.
  - intros d' Hd'. destruct (Hshape _ Hd') as [E | E]; discriminate.
Qed.

Lemma inv2_after_check : forall s next wd' v ws0,
  v_pend (s_v s) = [] ->
  (forall ws, v = Wounds ws -> ws = ws0 -> Inv2 (set_v s (mkV next ws wd'))) ->
  Inv2 s -> (exists e, v = Fail e) \/ v = Wounds ws0 -> Inv2 (after_check s next wd' v).
Proof.
  intros s next wd' v ws0 Hp Hw H2 [[e ->] | ->]; cbn [after_check].
  - apply inv2_fail; assumption.
  - apply Hw; reflexivity.
Qed.

(** ---- the atomic steps ---- *)

Lemma vstep_inv2 : forall s s', INV b T s -> Inv2 s -> vstep fx cap b T s = Some s' -> Inv2 s'.
Proof.
  intros s s' HI H2 Hs. unfold vstep in Hs.
  destruct (v_pend (s_v s)) as [|w ws] eqn:Hp.
  2:{ destruct (Nat.ltb (length (s_chan s)) cap); [|discriminate]. inversion Hs; subst s'. clear Hs.
      eapply inv2_same; [exact H2 | | reflexivity | reflexivity | reflexivity | intro Hb; apply (i2_idle s H2 Hb)].
      unfold pend. cbn. rewrite Hp, <- app_assoc. reflexivity. }
  destruct (v_phase (s_v s)) as [|r|r|r| | |e] eqn:Hph.
  - (* MkdirAll(target) *)
    destruct HI as [H0 | HI]; [|destruct (i_prog _ _ _ HI) as [dd [dl [df [Hpr _]]]]; rewrite Hph in Hpr; destruct Hpr].
    destruct H0 as [_ [Hv [Hch [_ [_ [Hq [Hwq [_ Hw]]]]]]]].
    pose proof (i2_nodup s H2) as ND. rewrite Hph in ND. cbn [todo] in ND.
    destruct (mkdir_all (s_fs s) T); inversion Hs; subst s'; clear Hs.
    + constructor; unfold pend, busy; cbn; rewrite ?Hch, ?Hq, ?Hwq, ?Hw; try (intros; contradiction); auto.
      * intros P1 w P2 E. destruct P1; discriminate.
    + pose proof (inv2_fail s e H2 Hp) as X. rewrite Hv in X. cbn [v_wd] in X. exact X.
  - destruct r as [|d r].
    + inversion Hs; subst s'. clear Hs.
      apply inv2_check; try assumption; rewrite ?Hph; cbn [early todo app]; try reflexivity; try (intros; contradiction).
      * intros p Hp'. exact Hp'.
      * pose proof (i2_nodup s H2) as ND. rewrite Hph in ND. exact ND.
      * apply incl_refl.
    + inversion Hs; subst s'. clear Hs.
      destruct (check_dir_shape (s_fs s) (v_wd (s_v s)) d) as [E | [E | [e E]]]; rewrite E; cbn [after_check].
      * apply (inv2_dir_decided s d r [] H2 Hp Hph). left. reflexivity.
      * apply (inv2_dir_decided s d r [WDir d] H2 Hp Hph). right. reflexivity.
      * apply inv2_fail; assumption.
  - destruct r as [|[l dest] r].
    + inversion Hs; subst s'. clear Hs.
      apply inv2_check; try assumption; rewrite ?Hph; cbn [early todo map app]; try reflexivity; try discriminate; try (intros; contradiction).
      * intros p Hp'. exact Hp'.
      * pose proof (i2_nodup s H2) as ND. rewrite Hph in ND. exact ND.
      * apply incl_refl.
    + inversion Hs; subst s'. clear Hs.
      destruct (check_link_shape (s_fs s) (v_wd (s_v s)) l dest) as [E | [E | [e E]]]; rewrite E; cbn [after_check].
      * apply (inv2_link_decided s l dest r [] H2 Hp Hph). left. reflexivity.
      * apply (inv2_link_decided s l dest r [WLink l dest] H2 Hp Hph). right. reflexivity.
      * apply inv2_fail; assumption.
  - destruct r as [|[f data] r].
    + inversion Hs; subst s'. clear Hs.
      apply inv2_check; try assumption; rewrite ?Hph; cbn [early todo map app]; try reflexivity; try discriminate; try (intros; contradiction).
      * constructor.
      * apply incl_refl.
    + inversion Hs; subst s'. clear Hs.
      destruct (check_file_shape (s_fs s) (v_wd (s_v s)) f data) as [E | [E | E]]; rewrite E; cbn [after_check];
        apply (inv2_file_decided s f data r _ H2 Hp Hph); auto.
  - inversion Hs; subst s'. clear Hs.
    eapply inv2_same with (s := set_v s (mkV VDone [] (v_wd (s_v s)))); try reflexivity.
    + apply inv2_check; try assumption; rewrite ?Hph; cbn [early todo]; try discriminate; try (intros; contradiction).
      * constructor.
      * apply incl_refl.
    + intro Hb. cbn. assert (Hb' : busy s).
      { unfold busy in *. cbn in Hb. rewrite Hph. destruct Hb as [Hb | [w [Hw Hd]]]; [discriminate|].
        right. exists w. split; [|exact Hd]. unfold pend in *. cbn in Hw. rewrite Hp. exact Hw. }
      destruct (i2_idle s H2 Hb') as [_ [A B]]. split; assumption.
  - discriminate.
  - discriminate.
Qed.

Lemma hstep_inv2 : forall s s', Inv2 s -> hstep T s = Some s' -> Inv2 s'.
Proof.
  intros s s' H2 Hs. unfold hstep in Hs.
  destruct (s_h s) eqn:Hh.
  - destruct (s_chan s) as [|w ch] eqn:Hch.
    + destruct (s_closed s); [|discriminate]. inversion Hs; subst s'. clear Hs.
      eapply inv2_same; [exact H2 | | reflexivity | reflexivity | reflexivity | intro Hb; apply (i2_idle s H2 Hb)].
      unfold pend. cbn. rewrite Hch. reflexivity.
    + assert (EP : forall t h q wq, pend s = w :: pend (mkS t (s_v s) ch (s_closed s) h q wq (s_wq_closed s) (s_w s))).
      { intros. unfold pend. cbn. rewrite Hch. reflexivity. }
      destruct w as [d | l dest | f data | f].
      * destruct (heal_dir T (s_fs s) d); inversion Hs; subst s'; clear Hs;
          (eapply inv2_pop; [exact H2 | apply EP | reflexivity | reflexivity | left; auto]).
      * destruct (heal_link T (s_fs s) l dest); inversion Hs; subst s'; clear Hs;
          (eapply inv2_pop; [exact H2 | apply EP | reflexivity | reflexivity | left; auto]).
      * destruct (existsb (path_eqb f) (s_queued s)).
        -- inversion Hs; subst s'; clear Hs.
           eapply inv2_pop; [exact H2 | apply EP | reflexivity | reflexivity | left; auto].
        -- destruct (s_w s) as [| |[|e]] eqn:Hw; inversion Hs; subst s'; clear Hs.
           ++ eapply inv2_pop; [exact H2 | | reflexivity | reflexivity | right; exists f, data; split; reflexivity].
              unfold pend. cbn. rewrite Hch. reflexivity.
           ++ eapply inv2_pop; [exact H2 | | reflexivity | reflexivity | right; exists f, data; split; reflexivity].
              unfold pend. cbn. rewrite Hch. reflexivity.
           ++ eapply inv2_pop; [exact H2 | | reflexivity | reflexivity | right; exists f, data; split; reflexivity].
              unfold pend. cbn. rewrite Hch. reflexivity.
           ++ eapply inv2_pop; [exact H2 | | reflexivity | reflexivity | left; cbn; rewrite Hw; auto].
              unfold pend. cbn. rewrite Hch. reflexivity.
      * inversion Hs; subst s'; clear Hs.
        eapply inv2_pop; [exact H2 | apply EP | reflexivity | reflexivity | left; auto].
  - destruct (s_w s) eqn:Hw; try discriminate. inversion Hs; subst s'. clear Hs.
    eapply inv2_same; [exact H2 | reflexivity | reflexivity | reflexivity | reflexivity |].
    intro Hb. cbn. destruct (i2_idle s H2 Hb) as [_ [A B]]. split; assumption.
  - discriminate.
Qed.

Lemma wstep_inv2 : forall s s', INV b T s -> Inv2 s -> wstep T s = Some s' -> Inv2 s'.
Proof.
  intros s s' HI H2 Hs. unfold wstep in Hs.
  destruct (s_w s) as [|q data|r] eqn:Hw.
  - destruct (s_wq s) as [|[f data] wq'] eqn:Hwq.
    + destruct (s_wq_closed s) eqn:Hwc; [|discriminate]. inversion Hs; subst s'. clear Hs.
      eapply inv2_same; [exact H2 | reflexivity | reflexivity | reflexivity | reflexivity |].
      intro Hb. exfalso.
      (* the queue is closed: the validator is done and nothing is on its way *)
      destruct HI as [H0 | HI]; [destruct H0 as [_ [_ [_ [_ [_ [_ [_ [X _]]]]]]]]; congruence|].
      destruct (i_ctl _ _ _ HI) as [[C1 C1'] [C3 [C4 _]]].
      assert (Hcl : s_closed s = true /\ s_chan s = []).
      { destruct (s_h s); [congruence | destruct C4 as [X [Y _]]; auto | destruct C4 as [_ [X [Y _]]]; auto]. }
      destruct Hcl as [Hcl Hch]. pose proof (C1 Hcl) as Hph. pose proof (C3 Hph) as Hp.
      destruct Hb as [Hb | [w [Hin _]]]; [rewrite Hph in Hb; discriminate|].
      unfold pend in Hin. rewrite Hch, Hp in Hin. destruct Hin.
    + assert (Hnb : ~ busy s).
      { intro Hb. destruct (i2_idle s H2 Hb) as [_ [X _]]. congruence. }
      destruct (get_writer T (s_fs s) f) as [[t' q]|e]; inversion Hs; subst s'; clear Hs;
        (eapply inv2_same; [exact H2 | reflexivity | reflexivity | reflexivity | reflexivity | intro Hb; contradiction]).
  - inversion Hs; subst s'. clear Hs.
    eapply inv2_same; [exact H2 | reflexivity | reflexivity | reflexivity | reflexivity |].
    intro Hb. destruct (i2_idle s H2 Hb) as [_ [_ X]]. congruence.
  - discriminate.
Qed.

Lemma step_inv2 : forall s i s', INV b T s -> Inv2 s -> step fx cap b T s i = Some s' -> Inv2 s'.
Proof.
  intros s [] s' HI H2 Hs; cbn in Hs; [eapply vstep_inv2 | eapply hstep_inv2 | eapply wstep_inv2]; eassumption.
Qed.

Hypothesis wf : wf_build b = true.

Lemma init_inv2 : forall t0, Inv2 (init b t0).
Proof.
  intro t0. constructor; unfold pend, busy; cbn; try (intros; contradiction); auto.
  - apply (wf_nodup b wf).
  - intros P1 w P2 E. destruct P1; discriminate.
Qed.

End Inv2.
