(** C06, model part 1: the validator side of [pwr.ValidatorContext.Validate] with a healer
    (pwr/validator.go), over the filesystem model.

    The signed build is the container as the validator walks it: directories (parents first, as
    [tlc.WalkDir] lists them), symlinks with their destinations, files with their signed content
    (block hashes are abstracted to equality of the content: strong hash injective, C18/C05 own
    the block arithmetic).  A wound carries the entry it names (Go: the index into the shared
    container).  One validator step = one entry check (Lstat / Readlink / read) or one send on
    the wound channel.

    [fixes] switches between the code before and after the two repairs made for C06:
    [fx_enotdir]  ENOTDIR is treated like "missing" in the directory and symlink passes;
    [fx_taint]    everything below a wounded directory is wounded without looking at the disk.
    The current code is [fixed]. *)
From Wharf Require Import FS.Light FS.Tree FS.Ops.

Record build := mkBuild {
  b_dirs : list path;
  b_links : list (path * list comp);
  b_files : list (path * list N) }.

Inductive wound :=
| WDir (p : path)
| WLink (p : path) (dest : list comp)
| WFile (p : path) (data : list N)     (* a FILE wound: the healer rewrites the whole file *)
| WClosed (p : path).                  (* CLOSED_FILE: healthy marker *)

Definition healthy (w : wound) : bool := match w with WClosed _ => true | _ => false end.

Record fixes := mkFixes { fx_enotdir : bool; fx_taint : bool }.
Definition fixed : fixes := mkFixes true true.
Definition unfixed : fixes := mkFixes false false.

Definition is_missing (fx : fixes) (e : errno) : bool :=
  match e with
  | ENOENT => true
  | ENOTDIR => fx_enotdir fx
  | _ => false
  end.

(** [underWoundedDir]: some proper non-empty prefix of [p] is in [wd] *)
Definition under_wd (fx : fixes) (wd : list path) (p : path) : bool :=
  fx_taint fx && existsb (fun a => negb (path_eqb a []) && existsb (path_eqb a) wd) (prefixes p).

(** verdict of one entry check *)
Inductive verdict := Wounds (ws : list wound) | Fail (e : errno).

Definition check_dir (fx : fixes) (t : tree) (T : path) (wd : list path) (d : path) : verdict :=
  if under_wd fx wd d then Wounds [WDir d] else
  match lstat t (T ++ d) with
  | Ok Dir => Wounds []
  | Ok _ => Wounds [WDir d]
  | Err e => if is_missing fx e then Wounds [WDir d] else Fail e
  end.

Definition check_link (fx : fixes) (t : tree) (T : path) (wd : list path) (l : path) (dest : list comp) : verdict :=
  if under_wd fx wd l then Wounds [WLink l dest] else
  match lstat t (T ++ l) with
  | Ok Dir | Ok (File _) => Wounds [WLink l dest]
  | _ =>
      match readlink t (T ++ l) with
      | Err e => if is_missing fx e then Wounds [WLink l dest] else Fail e
      | Ok d => if dest_eqb d dest then Wounds [] else Wounds [WLink l dest]
      end
  end.

(** the file pass treats every error of Lstat/Open as "whole file missing" *)
Definition check_file (fx : fixes) (t : tree) (T : path) (wd : list path) (f : path) (data : list N) : verdict :=
  if under_wd fx wd f then Wounds [WFile f data] else
  match lstat t (T ++ f) with
  | Ok Dir | Ok (Link _) => Wounds [WFile f data]
  | _ =>
      match read_file t (T ++ f) with
      | Err _ => Wounds [WFile f data]
      | Ok d => if nlist_eqb d data then Wounds [WClosed f] else Wounds [WFile f data; WClosed f]
      end
  end.

(** validator program counter: what is still to be checked *)
Inductive vphase :=
| VInit                                       (* os.MkdirAll(target) *)
| VDirs (rest : list path)
| VLinks (rest : list (path * list comp))
| VFiles (rest : list (path * list N))
| VClose                                      (* close(vctx.Wounds) *)
| VDone
| VFail (e : errno).                          (* Validate returned an error of its own *)

Record vstate := mkV {
  v_phase : vphase;
  v_pend : list wound;      (* wounds of the last check not yet sent *)
  v_wd : list path }.       (* woundedDirs *)

(** fail-fast validation of a tree that nobody modifies (WoundsGuardian): passes iff no check
    yields a non-healthy wound or an error *)
Definition clean (v : verdict) : bool :=
  match v with
  | Wounds ws => forallb healthy ws
  | Fail _ => false
  end.

Definition ff_valid (fx : fixes) (b : build) (T : path) (t : tree) : bool :=
  forallb (fun d => clean (check_dir fx t T [] d)) (b_dirs b)
  && forallb (fun l => clean (check_link fx t T [] (fst l) (snd l))) (b_links b)
  && forallb (fun f => clean (check_file fx t T [] (fst f) (snd f))) (b_files b).
