(** C06 proofs, part 4: the property theorems about the model (stated in Properties/C06.v). *)
From Coq Require Import Arith Lia.
From Wharf Require Import FS.Light FS.Tree FS.TreeProofs FS.Ops FS.OpsProofs
     Heal.Validator Heal.Healer Heal.HealLemmas Heal.HealProofs Heal.HealMeasure.

(** ---------- restored => fail-fast validation passes ---------- *)

Lemma under_wd_nil : forall fx p, under_wd fx [] p = false.
Proof.
  intros fx p. unfold under_wd. destruct (fx_taint fx); [|reflexivity]. cbn.
  induction (prefixes p) as [|a l IH]; [reflexivity|]. cbn. rewrite IH. rewrite andb_false_r. reflexivity.
Qed.

Lemma dest_eqb_refl : forall d, dest_eqb d d = true.
Proof.
  unfold dest_eqb. induction d as [|[|n] d IH]; cbn; [reflexivity | exact IH | rewrite N.eqb_refl; exact IH].
Qed.

Lemma restored_ff_valid : forall fx b T t, restored b T t -> ff_valid fx b T t = true.
Proof.
  intros fx b T t [Hd [Hl Hf]]. unfold ff_valid. apply andb_true_iff. split; [apply andb_true_iff; split|].
  - apply forallb_forall. intros d Hin. unfold check_dir. rewrite under_wd_nil, (Hd d Hin). reflexivity.
  - apply forallb_forall. intros [l dest] Hin. cbn [fst snd]. unfold check_link. rewrite under_wd_nil.
    pose proof (Hl l dest Hin) as R. pose proof R as R'. unfold readlink in R'.
    destruct (lstat t (T ++ l)) as [[| |d]|e] eqn:E; try discriminate.
    rewrite R. rewrite dest_eqb_refl. reflexivity.
  - apply forallb_forall. intros [f data] Hin. cbn [fst snd]. unfold check_file. rewrite under_wd_nil.
    destruct (Hf f data Hin) as [R1 R2]. rewrite R1, R2.
    replace (nlist_eqb data data) with true by (symmetry; apply path_eqb_refl). reflexivity.
Qed.

Lemma restoredb_true : forall b T t, restoredb b T t = true -> restored b T t.
Proof.
  intros b T t H. unfold restoredb in H. apply andb_true_iff in H as [H12 H3]. apply andb_true_iff in H12 as [H1 H2].
  rewrite forallb_forall in H1, H2, H3. repeat split.
  - intros d Hin. specialize (H1 d Hin). destruct (lstat t (T ++ d)) as [[| |]|]; congruence.
  - intros l dest Hin. specialize (H2 (l, dest) Hin). cbn in H2.
    destruct (readlink t (T ++ l)) as [d|]; [|discriminate]. apply dest_eqb_eq in H2. congruence.
  - specialize (H3 (f, data) H). cbn in H3.
    destruct (lstat t (T ++ f)) as [[d| |]|]; try discriminate.
    destruct (read_file t (T ++ f)) as [d'|]; try discriminate.
    apply andb_true_iff in H3 as [A _]. apply path_eqb_eq in A. congruence.
  - specialize (H3 (f, data) H). cbn in H3.
    destruct (lstat t (T ++ f)) as [[d| |]|]; try discriminate.
    destruct (read_file t (T ++ f)) as [d'|]; try discriminate.
    apply andb_true_iff in H3 as [_ A]. apply path_eqb_eq in A. congruence.
Qed.

(** ---------- healing restores ---------- *)
Section Main.
Variable cap : nat.
Hypothesis cap_pos : 0 < cap.
Variable b : build.
Hypothesis wf : wf_build b = true.
Variable T : path.
Variable t0 : tree.
Hypothesis t0_ok : init_ok T t0 = true.

Local Notation step := (step fixed cap b T).
Local Notation run := (run fixed cap b T).
Local Notation finish := (finish fixed cap b T).

Lemma run_cons : forall i sched s, run (i :: sched) s = run sched (step_or_stay fixed cap b T s i).
Proof. reflexivity. Qed.

Lemma init_INV : INV b T (init b t0).
Proof. left. unfold Inv0, init. cbn. repeat split; try reflexivity. exact t0_ok. Qed.

Lemma run_INV : forall sched s, INV b T s -> INV b T (run sched s).
Proof.
  induction sched as [|i sched IH]; intros s HI; [exact HI|].
  rewrite run_cons. apply IH. unfold step_or_stay. destruct (step s i) as [s'|] eqn:E; [|exact HI].
  eapply step_inv; eassumption.
Qed.

Lemma run_mu : forall sched s, mu b (run sched s) <= mu b s.
Proof.
  induction sched as [|i sched IH]; intros s; [cbn; lia|].
  rewrite run_cons. unfold step_or_stay. destruct (step s i) as [s'|] eqn:E; [|apply IH].
  pose proof (step_mu b fixed cap T s i s' E). pose proof (IH s'). lia.
Qed.

(** For every interleaving: whenever Validate has returned, it returned nil and the build is
    there; whenever nothing can move, Validate has returned; every effective step decreases [mu]
    (so every execution is finite). *)
Lemma heal_restores_lemma : forall sched,
  let s := run sched (init b t0) in
  (terminal s = true ->
     result s = Some (Ok tt) /\ restored b T (s_fs s) /\ ff_valid fixed b T (s_fs s) = true) /\
  ((forall i, step s i = None) -> terminal s = true) /\
  (forall i s', step s i = Some s' -> mu b s' < mu b s) /\
  mu b s <= mu b (init b t0).
Proof.
  intros sched s. pose proof (run_INV sched _ init_INV) as HI. fold s in HI.
  split; [|split; [|split]].
  - intro Ht. destruct (terminal_restored b wf T s HI Ht) as [R1 R2].
    split; [exact R1 | split; [exact R2 | apply restored_ff_valid; exact R2]].
  - intro Hn. eapply no_deadlock; eassumption.
  - intros i s' E. eapply step_mu. exact E.
  - apply run_mu.
Qed.

(** the same as a closed statement about complete runs: any schedule prefix, then any
    priority among the three threads until nobody can move *)
Lemma first_step_none : forall s prio, In TV prio -> In TH prio -> In TW prio ->
  first_step fixed cap b T s prio = None -> forall i, step s i = None.
Proof.
  intros s prio Hv Hh Hw Hn.
  assert (A : forall i, In i prio -> step s i = None).
  { clear Hv Hh Hw. induction prio as [|j prio IH]; intros i Hin; [destruct Hin|].
    cbn in Hn. destruct (step s j) eqn:E; [discriminate|]. destruct Hin as [<- | Hin]; [exact E | apply IH; assumption]. }
  intros []; apply A; assumption.
Qed.

Lemma first_step_some : forall s prio s', first_step fixed cap b T s prio = Some s' -> exists i, step s i = Some s'.
Proof.
  intros s prio. induction prio as [|j prio IH]; intros s' H; [discriminate|].
  cbn in H. destruct (step s j) eqn:E; [inversion H; subst; exists j; exact E | apply IH; exact H].
Qed.

Lemma finish_complete : forall prio, In TV prio -> In TH prio -> In TW prio ->
  forall fuel s, INV b T s -> mu b s <= fuel ->
  let s' := finish fuel prio s in
  terminal s' = true /\ result s' = Some (Ok tt) /\ restored b T (s_fs s').
Proof.
  intros prio Hv Hh Hw. induction fuel as [|fuel IH]; intros s HI Hmu.
  - (* mu = 0: nothing can move *)
    assert (Hn : forall i, step s i = None).
    { intros i. destruct (step s i) as [s1|] eqn:E; [|reflexivity]. pose proof (step_mu b fixed cap T s i s1 E). lia. }
    cbn. pose proof (no_deadlock cap cap_pos b T s HI Hn) as Ht.
    split; [exact Ht | apply (terminal_restored b wf T s HI Ht)].
  - cbn. destruct (first_step fixed cap b T s prio) as [s1|] eqn:E.
    + destruct (first_step_some s prio s1 E) as [i Ei]. apply IH.
      * eapply step_inv; eassumption.
      * pose proof (step_mu b fixed cap T s i s1 Ei). lia.
    + pose proof (first_step_none s prio Hv Hh Hw E) as Hn.
      pose proof (no_deadlock cap cap_pos b T s HI Hn) as Ht.
      split; [exact Ht | apply (terminal_restored b wf T s HI Ht)].
Qed.

Lemma heal_completes_lemma : forall sched prio fuel,
  In TV prio -> In TH prio -> In TW prio -> mu b (init b t0) <= fuel ->
  let s := finish fuel prio (run sched (init b t0)) in
  terminal s = true /\ result s = Some (Ok tt) /\ restored b T (s_fs s) /\ ff_valid fixed b T (s_fs s) = true.
Proof.
  intros sched prio fuel Hv Hh Hw Hf s.
  destruct (finish_complete prio Hv Hh Hw fuel (run sched (init b t0))) as [A [B C]].
  - apply run_INV. apply init_INV.
  - pose proof (run_mu sched (init b t0)). lia.
  - split; [exact A | split; [exact B | split; [exact C | apply restored_ff_valid; exact C]]].
Qed.

End Main.

(** ---------- healing a valid directory changes nothing ---------- *)
Section Idempotent.
Variable fx : fixes.
Variable cap : nat.
Variable b : build.
Variable T : path.
Variable t0 : tree.
Hypothesis t0_ok : init_ok T t0 = true.
Hypothesis t0_dir : node_at t0 T = Some Dir.
Hypothesis valid : ff_valid fx b T t0 = true.

Definition suffix_of {A} (r l : list A) : Prop := exists d, l = d ++ r.

(** the filesystem is untouched, only healthy markers travel, nothing is queued *)
Definition Idem (s : state) : Prop :=
  s_fs s = t0 /\ v_wd (s_v s) = [] /\
  (forall w, In w (v_pend (s_v s) ++ s_chan s) -> healthy w = true) /\
  s_wq s = [] /\ (forall q d, s_w s <> WWriting q d) /\
  match v_phase (s_v s) with
  | VDirs r => suffix_of r (b_dirs b)
  | VLinks r => suffix_of r (b_links b)
  | VFiles r => suffix_of r (b_files b)
  | _ => True
  end.

Lemma suffix_tail : forall A (x : A) r l, suffix_of (x :: r) l -> suffix_of r l /\ In x l.
Proof.
  intros A x r l [d E]. split.
  - exists (d ++ [x]). rewrite <- app_assoc. exact E.
  - rewrite E. apply in_or_app. right. left. reflexivity.
Qed.

Lemma suffix_refl : forall A (l : list A), suffix_of l l.
Proof. intros. exists []. reflexivity. Qed.

Lemma ff_parts :
  (forall d, In d (b_dirs b) -> clean (check_dir fx t0 T [] d) = true) /\
  (forall l dest, In (l, dest) (b_links b) -> clean (check_link fx t0 T [] l dest) = true) /\
  (forall f data, In (f, data) (b_files b) -> clean (check_file fx t0 T [] f data) = true).
Proof.
  unfold ff_valid in valid. apply andb_true_iff in valid as [H12 H3]. apply andb_true_iff in H12 as [H1 H2].
  rewrite forallb_forall in H1, H2, H3. repeat split.
  - exact H1.
  - intros l dest Hin. apply (H2 (l, dest) Hin).
  - intros f data Hin. apply (H3 (f, data) Hin).
Qed.

Lemma clean_wounds : forall v, clean v = true -> exists ws, v = Wounds ws /\ (forall w, In w ws -> healthy w = true) /\
  match ws with [] => True | w :: _ => healthy w = true end.
Proof.
  intros [ws|e] H; [|discriminate]. exists ws. cbn in H. rewrite forallb_forall in H. repeat split; [exact H|].
  destruct ws; [exact I | apply H; left; reflexivity].
Qed.

Lemma check_dir_clean_nil : forall d, clean (check_dir fx t0 T [] d) = true -> check_dir fx t0 T [] d = Wounds [].
Proof.
  intros d H. unfold check_dir in *. rewrite under_wd_nil in *.
  destruct (lstat t0 (T ++ d)) as [[| |]|e]; cbn in H; try discriminate; try reflexivity.
  destruct (is_missing fx e); cbn in H; discriminate.
Qed.

Lemma mkdir_all_same : mkdir_all t0 T = Ok t0.
Proof.
  unfold init_ok in t0_ok. apply andb_true_iff in t0_ok as [H1 _].
  apply mkdir_all_dir; [|exact t0_dir].
  intros a Ha. rewrite forallb_forall in H1. specialize (H1 a Ha). destruct (node_at t0 a) as [[| |]|]; congruence.
Qed.

Ltac idem_close tac :=
  unfold Idem; cbn; repeat split; try assumption; try apply suffix_refl;
  try (intros ? ? ?; discriminate); try tac.

Lemma idem_step : forall s i s', Idem s -> step fx cap b T s i = Some s' -> Idem s'.
Proof.
  intros s i s' [Hfs [Hwd [Hh [Hwq [Hw Hph]]]]] Hs. destruct ff_parts as [Fd [Fl Ff]].
  destruct i; cbn in Hs.
  - (* validator *)
    unfold vstep in Hs. destruct (v_pend (s_v s)) as [|w ws] eqn:Hp.
    + destruct (v_phase (s_v s)) as [|r|r|r| | |e] eqn:Ep.
      * rewrite Hfs, mkdir_all_same in Hs. inversion Hs; subst s'.
        idem_close ltac:(intros w Hin; apply Hh; exact Hin).
      * destruct r as [|d r].
        -- inversion Hs; subst s'. idem_close ltac:(intros w Hin; apply Hh; exact Hin).
        -- destruct (suffix_tail _ _ _ _ Hph) as [Hsuf Hin].
           rewrite Hfs, Hwd, (check_dir_clean_nil d (Fd d Hin)) in Hs. cbn in Hs. inversion Hs; subst s'.
           idem_close ltac:(intros w Hin'; apply Hh; exact Hin').
      * destruct r as [|[l dest] r].
        -- inversion Hs; subst s'. idem_close ltac:(intros w Hin; apply Hh; exact Hin).
        -- destruct (suffix_tail _ _ _ _ Hph) as [Hsuf Hin].
           destruct (clean_wounds _ (Fl l dest Hin)) as [ws [E [Hws _]]].
           rewrite Hfs, Hwd, E in Hs. cbn in Hs. inversion Hs; subst s'.
           idem_close ltac:(intros w Hin'; apply in_app_or in Hin' as [A | A]; [apply Hws; exact A | apply Hh; exact A]).
      * destruct r as [|[f data] r].
        -- inversion Hs; subst s'. idem_close ltac:(intros w Hin; apply Hh; exact Hin).
        -- destruct (suffix_tail _ _ _ _ Hph) as [Hsuf Hin].
           destruct (clean_wounds _ (Ff f data Hin)) as [ws [E [Hws _]]].
           rewrite Hfs, Hwd, E in Hs. cbn in Hs. inversion Hs; subst s'.
           idem_close ltac:(intros w Hin'; apply in_app_or in Hin' as [A | A]; [apply Hws; exact A | apply Hh; exact A]).
      * inversion Hs; subst s'. idem_close ltac:(intros w Hin; apply Hh; exact Hin).
      * discriminate.
      * discriminate.
    + destruct (Nat.ltb (length (s_chan s)) cap); [|discriminate]. inversion Hs; subst s'.
      idem_close ltac:(intros w' Hin; apply Hh; apply in_app_or in Hin as [A | A];
        [apply in_or_app; left; right; exact A
        | apply in_app_or in A as [A | [<- | []]]; [apply in_or_app; right; exact A | apply in_or_app; left; left; reflexivity]]).
  - (* healer: only healthy markers arrive *)
    unfold hstep in Hs. destruct (s_h s).
    + destruct (s_chan s) as [|w ch] eqn:Hch.
      * destruct (s_closed s); [|discriminate]. inversion Hs; subst s'.
        idem_close ltac:(intros w Hin; apply Hh; rewrite app_nil_r in Hin; apply in_or_app; left; exact Hin).
      * assert (Hw' : healthy w = true) by (apply Hh; apply in_or_app; right; left; reflexivity).
        destruct w; try discriminate. inversion Hs; subst s'.
        idem_close ltac:(intros w Hin; apply Hh; apply in_app_or in Hin as [A | A]; apply in_or_app; [left; exact A | right; right; exact A]).
    + destruct (s_w s) eqn:Ew; try discriminate. inversion Hs; subst s'.
      idem_close ltac:(intros q0 d0 X; rewrite Ew in X; discriminate).
    + discriminate.
  - (* heal worker: its queue stays empty *)
    unfold wstep in Hs. destruct (s_w s) as [|q d|r] eqn:Ew.
    + rewrite Hwq in Hs. destruct (s_wq_closed s); [|discriminate]. inversion Hs; subst s'. idem_close idtac.
    + exfalso. eapply Hw. reflexivity.
    + discriminate.
Qed.

Lemma heal_idempotent_lemma : forall sched, s_fs (run fx cap b T sched (init b t0)) = t0.
Proof.
  intro sched.
  assert (H : forall s, Idem s -> Idem (run fx cap b T sched s)).
  { induction sched as [|i sched IH]; intros s HI; [exact HI|].
    change (run fx cap b T (i :: sched) s) with (run fx cap b T sched (step_or_stay fx cap b T s i)).
    apply IH. unfold step_or_stay. destruct (step fx cap b T s i) eqn:E; [eapply idem_step; eassumption | exact HI]. }
  apply H. unfold Idem, init. cbn. repeat split; try reflexivity.
  - intros w [].
  - intros q d X. discriminate.
Qed.

End Idempotent.
