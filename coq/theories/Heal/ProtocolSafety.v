(** Proofs about Heal/Protocol.v, part 2: with the guardian (after the fix) a nil result of
    Validate implies a clean directory, for every schedule and cancellation instant; the
    unfixed guardian is refuted by a concrete schedule. *)
From Coq Require Import List Arith Bool Lia.
Import ListNotations.
From Wharf Require Import Heal.Protocol Heal.ProtocolProofs.

(** ---- fail-fast: a nil result implies a clean directory ---- *)
Definition is_bad (m : msg) : bool := match m with Bad => true | Healthy => false end.
Definition fbad (m : fmsg) : bool := negb (fmsg_clean m).
Definition ws_dirty (ws : list fmsg) : bool := existsb fbad ws.
Definition mid_dirty (m : fmid) : bool := match m with FMNone => false | _ => true end.
Definition is_err (r : res) : bool := match r with RErr => true | RNil => false end.
(** the worker still has something to report for its current file (a wound or an error) *)
Definition wk_pending (w : wpc) : bool :=
  match w with
  | WWhole => true
  | WCopy ws1 mid ws2 => ws_dirty ws1 || mid_dirty mid || ws_dirty ws2
  | WMid mid ws2 => mid_dirty mid || ws_dirty ws2
  | WFlush ws2 e => ws_dirty ws2 || is_err e
  | WCloseP e | WWaitDone e | WDefer e | WSend e => is_err e
  | _ => false
  end.
Definition pipe_pending (o : option pipe) : bool :=
  match o with
  | None => false
  | Some pp => a_last pp || existsb is_bad (a_outs pp) || match r_pc pp with RSendW Bad => true | _ => false end
  end.
Definition in_loop (m : mpc) : bool := match m with MPre _ | MLoop => true | _ => false end.
Definition pre_pending (m : mpc) : bool := match m with MPre (_ :: _) => true | _ => false end.
Definition files_pending (l : list file) : bool := existsb (fun f => negb (file_clean f)) l.
Definition pending (s : state) : bool :=
  pre_pending (s_main s) || files_pending (s_files s) || wk_pending (s_wk s)
  || pipe_pending (s_pipe s) || existsb is_bad (s_wch s).
Definition some_err (o : option res) : bool := match o with Some RErr => true | _ => false end.
Definition send_err (c : cpc) : bool := match c with CSend RErr => true | _ => false end.
(** an error is on its way into main's retErr *)
Definition owed (s : state) : bool :=
  is_err (s_ret s) || some_err (s_werr s) || some_err (s_cerr s) || send_err (s_cons s).
(** the error the worker is about to report *)
Definition wk_res (w : wpc) : option res := match w with WSend r | WDefer r => Some r | _ => None end.
Definition cons_live (c : cpc) : bool := match c with CStart | CDo _ => true | _ => false end.
Definition rearm_phase (m : mpc) : bool := match m with MRearmW | MRearmC | MCancel => true | _ => false end.

(** auxiliary invariant (needs the guardian for [aC1]) *)
Record SafeA (s : state) : Prop := mkSafeA {
  aG1 : in_loop (s_main s) = true -> s_ret s = RNil /\ s_ficlosed s = false /\ s_canc s = false;
  aW1 : in_loop (s_main s) = true -> (forall r, s_werr s = Some r -> r = RErr) /\ (forall r, wk_res (s_wk s) = Some r -> r = RErr);
  aC1 : in_loop (s_main s) = true -> (forall r, s_cerr s = Some r -> r = RErr) /\ (forall r, s_cons s = CSend r -> r = RErr);
  aK0 : rearm_phase (s_main s) = true -> s_ret s = RErr;
  aK : s_canc s = true -> s_ret s = RErr;
  aF1 : s_main s = MCloseW \/ s_main s = MWaitC -> s_wk s = WDone /\ s_werr s = None;
  aF2 : s_main s = MRet -> s_ret s = RErr \/ (s_werr s = None /\ s_cerr s = None /\ cons_sent (s_cons s) = true /\ s_wk s = WDone);
  aF3 : s_wclosed s = true -> s_wk s = WDone;
  aJ3 : in_loop (s_main s) = false -> s_files s = [] \/ s_ret s = RErr }.

(** the safety invariant proper: while the directory is not clean, either an error is on its
    way to main, or something is still to be reported and the guardian is still listening *)
Definition SafeS (p : params) (s : state) : Prop :=
  clean p = false -> owed s = true \/ (pending s = true /\ cons_live (s_cons s) = true).

Lemma file_pending_start : forall f, negb (file_clean f) = wk_pending (start_wk f).
Proof.
  destruct f as [| |ws1 mid ws2]; cbn; try reflexivity.
  destruct mid; cbn; rewrite ?orb_true_r; try reflexivity.
  rewrite orb_false_r. rewrite negb_andb. unfold ws_dirty.
  f_equal; (induction ws1 + induction ws2); cbn; try reflexivity; unfold fbad at 1;
    match goal with IH : _ = _ |- _ => rewrite <- IH end; rewrite negb_andb; reflexivity.
Qed.

Lemma safeA_init : forall p, SafeA (init p).
Proof. intros p. constructor; cbn; intros; try (repeat split; intros; congruence); try (intuition congruence). Qed.

Lemma safeS_init : forall p, SafeS p (init p).
Proof.
  intros p H. right. split; [|reflexivity]. unfold pending, clean in *. cbn.
  destruct (p_pre p); cbn; [|reflexivity].
  rewrite !orb_false_r. unfold files_pending. revert H. clear.
  induction (p_files p); cbn; intros; [discriminate|].
  destruct (file_clean a); cbn in *; auto.
Qed.

Ltac inv H ::= inversion H; subst; try clear H.

Ltac safe_solve :=
  cbn in *; intros;
  repeat match goal with
         | H : _ /\ _ |- _ => destruct H
         | H : ?x = ?x -> _ |- _ => specialize (H eq_refl)
         end;
  try solve [ congruence | auto | tauto
            | intuition congruence
            | repeat split; intros; intuition congruence ].

Lemma safeA_step : forall p a s s', p_cons p = guardian -> p_closefail p = false -> Inv s -> SafeA s -> step p a s = Some s' -> SafeA s'.
Proof.
  intros p a s s' G CF I SA H. destruct I as [A1 A2 A3 B1 B2 B3 C1 C2 C3 D0 D1 D2 E].
  destruct SA as [G1 W1 Cn1 K0 K F1 F2 F3 J3].
  destruct s as [ctx canc wch wcl werr cerr ficl mn ret files wk cons pp].
  destruct a; unfold step in H; rewrite ?G, ?CF in H; sred; repeat brk H; inv H; constructor; sred; safe_solve.
  all: try solve [match goal with HK : ?c = true -> _ = RErr, Hc : ?c = true |- _ => rewrite (HK Hc); reflexivity end].
  all: try solve [exfalso; match goal with H : _ \/ _ |- _ => destruct H; subst; cbn in *; discriminate end].
  all: try solve [split; intros ? HH; inv HH; try discriminate; try reflexivity;
                  match goal with HF : forall r, _ = _ -> r = RErr |- _ => apply HF; reflexivity end].
  all: try (destruct f; safe_solve).
  all: try (destruct e; safe_solve).
  all: try match goal with Hm : match ?m with Healthy => _ | Bad => _ end = _ |- _ => destruct m; inv Hm end.
  all: try solve [repeat match goal with HI : ?a = true -> _, HA : ?a = true |- _ => specialize (HI HA) end;
   repeat match goal with H : _ /\ _ |- _ => destruct H end;
   split; intros ? HH; inv HH; try discriminate; try reflexivity; eauto].
  all: destruct J3 as [J3|J3]; [left; exact J3 | right; rewrite J3; reflexivity].
Qed.

(** ---- the safety invariant [sgood] is preserved by every step (guardian consumer) ---- *)
Lemma existsb_snoc : forall {A} (f : A -> bool) (l : list A) x, existsb f (l ++ [x]) = existsb f l || f x.
Proof. intros. rewrite existsb_app. cbn. rewrite orb_false_r. reflexivity. Qed.

Lemma agg_in_pending : forall last m l o, agg_in last m = (l, o) -> l || existsb is_bad o = last || fbad m.
Proof.
  intros last m l o H. destruct m as [|c b]; destruct last; cbn in H; try (destruct c; try destruct b); inv H; reflexivity.
Qed.

Definition sgood (s : state) : bool := owed s || (pending s && cons_live (s_cons s)).

Lemma imp_b : forall a b : bool, (if a then b else true) = true -> a = true -> b = true.
Proof. destruct a, b; cbn; congruence. Qed.

Ltac sgcbn :=
  unfold sgood, owed, pending in *; sred; rewrite ?existsb_snoc;
  cbn [existsb is_bad wk_pending pipe_pending pre_pending send_err some_err cons_live is_err mid_dirty files_pending ws_dirty
       a_last a_outs a_inclosed a_outclosed r_pc orb andb negb merge_ret start_wk start_pipe fresh_pipe after_done] in *.
Ltac prep :=
  cbn [in_loop rearm_phase is_pre main_after_wtake main_after_ctake cons_sent in_pipe_phase is_waitdone] in *;
  repeat match goal with
         | H : ?x = ?x -> _ |- _ => specialize (H eq_refl)
         | H : _ /\ _ |- _ => destruct H
         end.
(** boolean implication [H : a = true |- b = true] by case analysis on the atoms, pruning early *)
Ltac batom t :=
  match t with
  | orb ?a ?b => first [batom a | batom b]
  | andb ?a ?b => first [batom a | batom b]
  | negb ?a => batom a
  | true => fail
  | false => fail
  | _ => destruct t
  end.
Ltac bt :=
  first [ reflexivity | discriminate |
  match goal with H : orb _ _ = true |- _ = true => revert H end;
  solve [repeat (cbn [orb andb negb];
          match goal with
          | |- true = true -> _ => intros _
          | |- _ -> true = true => intros _; reflexivity
          | |- false = true -> _ => discriminate
          | |- ?a = true -> ?b = true => first [batom a | batom b]
          | |- true = true => reflexivity
          | |- false = true => fail 2
          | |- ?b = true => batom b
          end)] ].

Ltac start G CF :=
  intros s s' I SA HS H;
  destruct I as [A1 A2 A3 B1 B2 B3 C1 C2 C3 D0 D1 D2 E];
  destruct SA as [G1 W1 Cn1 K0 K F1 F2 F3 J3];
  destruct s as [ctx canc wch wcl werr cerr ficl mn ret files wk cons [[al ao aic aoc ar]|]];
  unfold step in H; rewrite ?G, ?CF in H; sred; repeat brk H; inv H; sgcbn.

Lemma sS_cancel : forall p, p_cons p = guardian -> p_closefail p = false ->
  forall s s', Inv s -> SafeA s -> sgood s = true -> step p ACancel s = Some s' -> sgood s' = true.
Proof. intros p G CF. start G CF; bt. Qed.

Lemma sS_main : forall p, p_cons p = guardian -> p_closefail p = false ->
  forall s s', Inv s -> SafeA s -> sgood s = true -> step p AMain s = Some s' -> sgood s' = true.
Proof.
  intros p G CF. start G CF; try bt.
  all: prep; subst; sgcbn; try bt.
  all: try (destruct ret; destruct r; sgcbn; bt).
Qed.

Ltac use_some := match goal with H : forall r0 : res, Some ?r = Some r0 -> r0 = RErr |- _ => pose proof (H r eq_refl); subst end.

Lemma sS_mainW : forall p, p_cons p = guardian -> p_closefail p = false ->
  forall s s', Inv s -> SafeA s -> sgood s = true -> step p AMainW s = Some s' -> sgood s' = true.
Proof.
  intros p G CF. start G CF; try bt. all: prep; use_some; sgcbn; reflexivity.
Qed.

Lemma sS_mainC : forall p, p_cons p = guardian -> p_closefail p = false ->
  forall s s', Inv s -> SafeA s -> sgood s = true -> step p AMainC s = Some s' -> sgood s' = true.
Proof.
  intros p G CF. start G CF; try bt. all: prep; use_some; sgcbn; reflexivity.
Qed.

Lemma sS_mainF : forall p, p_cons p = guardian -> p_closefail p = false ->
  forall s s', Inv s -> SafeA s -> sgood s = true -> step p AMainF s = Some s' -> sgood s' = true.
Proof.
  intros p G CF. start G CF; try bt.
  all: prep; try discriminate.
  all: rewrite file_pending_start in HS; destruct f; sgcbn; unfold files_pending in *; bt.
Qed.

Lemma sS_wk : forall p, p_cons p = guardian -> p_closefail p = false ->
  forall s s', Inv s -> SafeA s -> sgood s = true -> step p AWk s = Some s' -> sgood s' = true.
Proof.
  intros p G CF. start G CF; try bt.
  all: try (destruct r; sgcbn; bt).
  all: try (destruct (p_startfail p); sgcbn; bt).
Qed.

Lemma sS_wkcanc : forall p, p_cons p = guardian -> p_closefail p = false ->
  forall s s', Inv s -> SafeA s -> sgood s = true -> step p AWkCanc s = Some s' -> sgood s' = true.
Proof.
  intros p G CF. start G CF; try bt.
  all: prep; subst; sgcbn; reflexivity.
Qed.

Lemma sS_consctx : forall p, p_cons p = guardian -> p_closefail p = false ->
  forall s s', Inv s -> SafeA s -> sgood s = true -> step p AConsCtx s = Some s' -> sgood s' = true.
Proof.
  intros p G CF. start G CF; try bt.
  all: cbn in *; match goal with HH : Some _ = Some _ |- _ => inv HH end; sgcbn; bt.
Qed.

Lemma sS_cons : forall p, p_cons p = guardian -> p_closefail p = false ->
  forall s s', Inv s -> SafeA s -> sgood s = true -> step p ACons s = Some s' -> sgood s' = true.
Proof.
  intros p G CF. start G CF; try bt.
  all: try (destruct r; sgcbn; bt).
  all: try (destruct m; cbn in *; try discriminate; sgcbn; try bt).
  all: try (match goal with HH : Some _ = Some _ |- _ => inv HH end; sgcbn; bt).
  all: try (cbn in *; discriminate).
  all: prep; subst; try discriminate.
  all: match goal with HC : _ = MWaitC \/ _ = MRet |- _ => destruct HC; subst end; prep;
       match goal with HJ : _ = [] \/ _ = RErr |- _ => destruct HJ; subst end; sgcbn; try bt; try reflexivity.
Qed.

Lemma sS_wa : forall p, p_cons p = guardian -> p_closefail p = false ->
  forall s s', Inv s -> SafeA s -> sgood s = true -> step p AWA s = Some s' -> sgood s' = true.
Proof.
  intros p G CF. start G CF; try bt.
  all: match goal with HA : agg_in _ _ = (_, _) |- _ => apply agg_in_pending in HA end.
  all: cbn [existsb] in HS; unfold ws_dirty in *; cbn [existsb] in HS.
  all: match goal with HA : ?l || ?e = _ |- _ => 
         replace (l || e || match ar with RSendW Bad => true | _ => false end) with ((l || e) || match ar with RSendW Bad => true | _ => false end) by reflexivity;
         rewrite HA end; bt.
Qed.

Lemma sS_agg : forall p, p_cons p = guardian -> p_closefail p = false ->
  forall s s', Inv s -> SafeA s -> sgood s = true -> step p AAgg s = Some s' -> sgood s' = true.
Proof. intros p G CF. start G CF; try bt. Qed.

Lemma sS_ar : forall p, p_cons p = guardian -> p_closefail p = false ->
  forall s s', Inv s -> SafeA s -> sgood s = true -> step p AAR s = Some s' -> sgood s' = true.
Proof. intros p G CF. start G CF; try bt. all: try (destruct m; sgcbn; bt). Qed.

Lemma sS_rel : forall p, p_cons p = guardian -> p_closefail p = false ->
  forall s s', Inv s -> SafeA s -> sgood s = true -> step p ARel s = Some s' -> sgood s' = true.
Proof. intros p G CF. start G CF; try bt. all: try (destruct m; sgcbn; bt). Qed.

Lemma sS_rw : forall p, p_cons p = guardian -> p_closefail p = false ->
  forall s s', Inv s -> SafeA s -> sgood s = true -> step p ARW s = Some s' -> sgood s' = true.
Proof.
  intros p G CF. start G CF; try bt.
  all: prep; subst; repeat match goal with HI : ?a = true -> _, HA : ?a = true |- _ => specialize (HI HA) end; prep; subst; destruct e; sgcbn; bt.
Qed.

Lemma sgood_step : forall p a s s', p_cons p = guardian -> p_closefail p = false -> Inv s -> SafeA s -> sgood s = true ->
  step p a s = Some s' -> sgood s' = true.
Proof.
  intros p a s s' G CF I SA HS H. destruct a;
    eauto using sS_cancel, sS_main, sS_mainW, sS_mainC, sS_mainF, sS_wk, sS_wkcanc, sS_cons, sS_consctx,
                sS_wa, sS_agg, sS_ar, sS_rel, sS_rw.
Qed.

Lemma sgood_init : forall p, clean p = false -> sgood (init p) = true.
Proof.
  intros p H. destruct (safeS_init p H) as [O|[P L]]; unfold sgood; [rewrite O; reflexivity|].
  rewrite P, L. apply orb_true_r.
Qed.

Lemma safe_run : forall p acts s s', p_cons p = guardian -> p_closefail p = false -> Inv s -> SafeA s -> sgood s = true ->
  run p acts s = Some s' -> Inv s' /\ SafeA s' /\ sgood s' = true.
Proof.
  induction acts as [|a r IH]; intros s s' G CF I SA HS H; cbn in H.
  - inv H. auto.
  - destruct (step p a s) as [s1|] eqn:ST; [|discriminate].
    exact (IH _ _ G CF (inv_step _ _ _ _ CF I ST) (safeA_step _ _ _ _ G CF I SA ST) (sgood_step _ _ _ _ G CF I SA HS ST) H).
Qed.

(** fail-fast validation returned nil => the directory was clean, for every schedule,
    cancellation instant, channel capacity, dir/symlink findings and file behaviours *)
Theorem no_false_valid_lemma : forall p acts s,
  p_cons p = guardian -> p_closefail p = false ->
  run p acts (init p) = Some s -> s_main s = MRet -> s_ret s = RNil -> clean p = true.
Proof.
  intros p acts s G CF H M R. destruct (clean p) eqn:CL; [reflexivity|exfalso].
  destruct (safe_run p acts (init p) s G CF (inv_init p) (safeA_init p) (sgood_init p CL) H) as (I & SA & HS).
  destruct SA as [_ _ _ _ _ _ F2 _ _]. destruct (F2 M) as [E|(W & C & CS & _)]; [congruence|].
  unfold sgood, owed in HS. rewrite R, W, C in HS.
  destruct (s_cons s); cbn in CS; try discriminate; cbn in HS; rewrite andb_false_r in HS; discriminate.
Qed.

(** the unchanged tree: WoundsGuardian.Do returns nil on ctx.Done(); with the context cancelled
    before the call Validate returns nil on a directory whose only file is missing *)
Definition witness_unfixed : params := mkparams 1 [] false [FWhole] guardian_unfixed true false.
Definition witness_sched : list action :=
  [ACons; AConsCtx; ACons; AMain; AMainC; AMain; AMain; AMain; AWk; AWk; AWk; AWk; AMain; AMain; AMain].

Theorem no_false_valid_unfixed_refuted_lemma :
  exists p acts s, p_cons p = guardian_unfixed /\ run p acts (init p) = Some s /\
                   s_main s = MRet /\ s_ret s = RNil /\ clean p = false.
Proof.
  exists witness_unfixed, witness_sched. eexists. split; [reflexivity|]. split; [vm_compute; reflexivity|].
  repeat split.
Qed.

(** ... and with the context cancelled in the middle of the run (after the first of two
    damaged files was reported is impossible for the guardian, so: two files, damage in the
    second, ctx cancelled while the first is being validated) *)
Definition witness_mid : params :=
  mkparams 2 [] false [FData [FHealthy] FMNone []; FWhole] guardian_unfixed false false.
Definition witness_mid_sched : list action :=
  [ACons; AMain; AWk; AMainF; ACancel; AConsCtx; ACons; AMainC; AMain; AMain; AMain;
   AWA; AAR; ARel; ACons; AWk; AWk; AWk; AWk; AAgg; ARel; ARW; AWk; AWk; AWk; AMain; AMain; AMain].

Theorem no_false_valid_unfixed_mid_refuted_lemma :
  exists s, run witness_mid witness_mid_sched (init witness_mid) = Some s /\
            s_main s = MRet /\ s_ret s = RNil /\ clean witness_mid = false.
Proof. eexists. split; [vm_compute; reflexivity|]. repeat split. Qed.
