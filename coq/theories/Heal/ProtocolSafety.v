(** Proofs about Heal/Protocol.v, part 2: with the guardian (after the fix) a nil result of
    Validate implies a clean directory, for every schedule and cancellation instant; the
    unfixed guardian is refuted by a concrete schedule. *)
From Coq Require Import List Arith Bool Lia.
Import ListNotations.
From Wharf Require Import Heal.Protocol Heal.ProtocolProofs.

(** ---- fail-fast: a nil result implies a clean directory ---- *)
Definition is_bad (m : msg) : bool := match m with Bad => true | Healthy => false end.
Definition fbad (m : fmsg) : bool := negb (fmsg_clean m).
Definition ws_dirty (ws : list fmsg) : bool := existsb fbad ws.
Definition mid_dirty (m : fmid) : bool := match m with FMNone => false | _ => true end.
Definition is_err (r : res) : bool := match r with RErr => true | RNil => false end.
(** the worker still has something to report for its current file (a wound or an error) *)
Definition wk_pending (w : wpc) : bool :=
  match w with
  | WWhole => true
  | WCopy ws1 mid ws2 => ws_dirty ws1 || mid_dirty mid || ws_dirty ws2
  | WMid mid ws2 => mid_dirty mid || ws_dirty ws2
  | WFlush ws2 e => ws_dirty ws2 || is_err e
  | WCloseP e | WWaitDone e | WSend e => is_err e
  | _ => false
  end.
Definition pipe_pending (o : option pipe) : bool :=
  match o with
  | None => false
  | Some pp => a_last pp || existsb is_bad (a_outs pp) || match r_pc pp with RSendW Bad => true | _ => false end
  end.
Definition in_loop (m : mpc) : bool := match m with MPre _ | MLoop => true | _ => false end.
Definition pre_pending (m : mpc) : bool := match m with MPre (_ :: _) => true | _ => false end.
Definition files_pending (l : list file) : bool := existsb (fun f => negb (file_clean f)) l.
Definition pending (s : state) : bool :=
  pre_pending (s_main s) || (in_loop (s_main s) && files_pending (s_files s)) || wk_pending (s_wk s)
  || pipe_pending (s_pipe s) || existsb is_bad (s_wch s).
Definition some_err (o : option res) : bool := match o with Some RErr => true | _ => false end.
Definition send_err (c : cpc) : bool := match c with CSend RErr => true | _ => false end.
(** an error is on its way into main's retErr *)
Definition owed (s : state) : bool :=
  is_err (s_ret s)
  || (negb (main_after_wtake (s_main s)) && some_err (s_werr s))
  || (negb (main_after_ctake (s_main s)) && (some_err (s_cerr s) || send_err (s_cons s))).
Definition cons_live (c : cpc) : bool := match c with CStart | CDo _ => true | _ => false end.
Definition rearm_phase (m : mpc) : bool := match m with MRearmW | MRearmC | MCancel => true | _ => false end.

Record Safe (p : params) (s : state) : Prop := mkSafe {
  sG1 : in_loop (s_main s) = true -> s_ret s = RNil /\ s_ficlosed s = false /\ s_canc s = false;
  sW1 : in_loop (s_main s) = true -> (forall r, s_werr s = Some r -> r = RErr) /\ (forall r, s_wk s = WSend r -> r = RErr);
  sC1 : in_loop (s_main s) = true -> (forall r, s_cerr s = Some r -> r = RErr) /\ (forall r, s_cons s = CSend r -> r = RErr);
  sK0 : rearm_phase (s_main s) = true -> s_ret s = RErr;
  sK : s_canc s = true -> s_ret s = RErr;
  sF1 : s_main s = MCloseW \/ s_main s = MWaitC -> s_wk s = WDone;
  sF2 : s_main s = MRet -> s_ret s = RErr \/ (cons_sent (s_cons s) = true /\ s_wk s = WDone);
  sF3 : s_wclosed s = true -> s_wk s = WDone;
  sS : clean p = false -> owed s = true \/ (pending s = true /\ cons_live (s_cons s) = true) }.

Lemma file_pending_start : forall f, negb (file_clean f) = wk_pending (start_wk f).
Proof.
  destruct f as [| |ws1 mid ws2]; cbn; try reflexivity.
  destruct mid; cbn; rewrite ?orb_true_r; try reflexivity.
  rewrite orb_false_r. rewrite negb_andb. unfold ws_dirty.
  f_equal; (induction ws1 + induction ws2); cbn; try reflexivity; unfold fbad at 1;
    match goal with IH : _ = _ |- _ => rewrite <- IH end; rewrite negb_andb; reflexivity.
Qed.

Lemma safe_init : forall p, Safe p (init p).
Proof.
  intros p. constructor; cbn; intros; try (repeat split; intros; congruence); try (intuition congruence).
  right. split; [|reflexivity]. unfold pending, clean in *. cbn.
  destruct (p_pre p); cbn; [|reflexivity].
  rewrite !orb_false_r. unfold files_pending. revert H. clear.
  induction (p_files p); cbn; intros; [discriminate|].
  destruct (file_clean a); cbn in *; auto.
Qed.
