(** C06 proofs, part 3: a measure that every effective step of every thread decreases, for
    any state and any variant of the code: every execution has at most [mu (init)] effective
    steps. *)
From Coq Require Import Arith Lia.
From Wharf Require Import FS.Light FS.Tree FS.Ops Heal.Validator Heal.Healer.

Definition wcost (w : wound) : nat := match w with WFile _ _ => 3 | _ => 1 end.

Fixpoint sum_map {A} (f : A -> nat) (l : list A) : nat :=
  match l with [] => 0 | x :: r => f x + sum_map f r end.

Lemma sum_map_app : forall A (f : A -> nat) l r, sum_map f (l ++ r) = sum_map f l + sum_map f r.
Proof. induction l as [|x l IH]; intros r; cbn; [reflexivity | rewrite IH; lia]. Qed.

Section Measure.
Variable b : build.

Definition vmu (ph : vphase) : nat :=
  let L := 3 * length (b_links b) + 1 in
  let F := 7 * length (b_files b) + 2 in
  match ph with
  | VInit => 1 + (3 * length (b_dirs b) + 1 + L + F)
  | VDirs r => 3 * length r + 1 + L + F
  | VLinks r => 3 * length r + 1 + F
  | VFiles r => 7 * length r + 2
  | VClose => 1
  | VDone | VFail _ => 0
  end.

Definition mu (s : state) : nat :=
  vmu (v_phase (s_v s))
  + sum_map (fun w => 1 + wcost w) (v_pend (s_v s))
  + sum_map wcost (s_chan s)
  + 2 * length (s_wq s)
  + match s_w s with WIdle => 1 | WWriting _ _ => 2 | WExit _ => 0 end
  + match s_h s with HRun => 2 | HWait => 1 | HDone _ => 0 end.

Variable fx : fixes.
Variable cap : nat.
Variable T : path.

Lemma check_dir_cost : forall t wd d,
  match check_dir fx t T wd d with Wounds ws => sum_map (fun w => 1 + wcost w) ws <= 2 | Fail _ => True end.
Proof.
  intros. unfold check_dir. destruct (under_wd fx wd d); [cbn; lia|].
  destruct (lstat t (T ++ d)) as [[| |]|e]; cbn; try lia. destruct (is_missing fx e); cbn; [lia | exact I].
Qed.

Lemma check_link_cost : forall t wd l dest,
  match check_link fx t T wd l dest with Wounds ws => sum_map (fun w => 1 + wcost w) ws <= 2 | Fail _ => True end.
Proof.
  intros. unfold check_link. destruct (under_wd fx wd l); [cbn; lia|].
  destruct (lstat t (T ++ l)) as [[| |]|e]; cbn; try lia;
    (destruct (readlink t (T ++ l)) as [d|e']; [destruct (dest_eqb d dest); cbn; lia | destruct (is_missing fx e'); cbn; [lia | exact I]]).
Qed.

Lemma check_file_cost : forall t wd f data,
  match check_file fx t T wd f data with Wounds ws => sum_map (fun w => 1 + wcost w) ws <= 6 | Fail _ => True end.
Proof.
  intros. unfold check_file. destruct (under_wd fx wd f); [cbn; lia|].
  destruct (lstat t (T ++ f)) as [[| |]|e]; cbn; try lia;
    (destruct (read_file t (T ++ f)) as [d|e']; [destruct (nlist_eqb d data); cbn; lia | cbn; lia]).
Qed.

Lemma vstep_mu : forall s s', vstep fx cap b T s = Some s' -> mu s' < mu s.
Proof.
  intros s s' H. unfold vstep in H. unfold mu.
  destruct (v_pend (s_v s)) as [|w ws] eqn:Hp.
  - destruct (v_phase (s_v s)) as [|r|r|r| | |e] eqn:Hph.
    + destruct (mkdir_all (s_fs s) T); inversion H; subst s'; cbn; lia.
    + destruct r as [|d r].
      * inversion H; subst s'. cbn. lia.
      * inversion H; subst s'. clear H. pose proof (check_dir_cost (s_fs s) (v_wd (s_v s)) d) as Hc.
        destruct (check_dir fx (s_fs s) T (v_wd (s_v s)) d) as [ws|e]; cbn in *; lia.
    + destruct r as [|[l dest] r].
      * inversion H; subst s'. cbn. lia.
      * inversion H; subst s'. clear H. pose proof (check_link_cost (s_fs s) (v_wd (s_v s)) l dest) as Hc.
        destruct (check_link fx (s_fs s) T (v_wd (s_v s)) l dest) as [ws|e]; cbn in *; lia.
    + destruct r as [|[f data] r].
      * inversion H; subst s'. cbn. lia.
      * inversion H; subst s'. clear H. pose proof (check_file_cost (s_fs s) (v_wd (s_v s)) f data) as Hc.
        destruct (check_file fx (s_fs s) T (v_wd (s_v s)) f data) as [ws|e]; cbn in *; lia.
    + inversion H; subst s'. cbn. lia.
    + discriminate.
    + discriminate.
  - destruct (Nat.ltb (length (s_chan s)) cap); [|discriminate]. inversion H; subst s'. cbn.
    rewrite sum_map_app. cbn. lia.
Qed.

Lemma hstep_mu : forall s s', hstep T s = Some s' -> mu s' < mu s.
Proof.
  intros s s' H. unfold hstep in H. unfold mu.
  destruct (s_h s) eqn:Hh.
  - destruct (s_chan s) as [|w ch] eqn:Hch.
    + destruct (s_closed s); [|discriminate]. inversion H; subst s'. cbn. lia.
    + destruct w as [d | l dest | f data | f].
      * destruct (heal_dir T (s_fs s) d); inversion H; subst s'; cbn; lia.
      * destruct (heal_link T (s_fs s) l dest); inversion H; subst s'; cbn; lia.
      * destruct (existsb (path_eqb f) (s_queued s)).
        -- inversion H; subst s'. cbn. lia.
        -- destruct (s_w s) as [| |[|e]] eqn:Hw; inversion H; subst s'; cbn; rewrite ?app_length; cbn; try rewrite Hw; lia.
      * inversion H; subst s'. cbn. lia.
  - destruct (s_w s) eqn:Hw; try discriminate. inversion H; subst s'. cbn. rewrite Hw. lia.
  - discriminate.
Qed.

Lemma wstep_mu : forall s s', wstep T s = Some s' -> mu s' < mu s.
Proof.
  intros s s' H. unfold wstep in H. unfold mu.
  destruct (s_w s) as [|q data|r] eqn:Hw.
  - destruct (s_wq s) as [|[f data] wq'] eqn:Hwq.
    + destruct (s_wq_closed s); [|discriminate]. inversion H; subst s'. cbn. lia.
    + destruct (get_writer T (s_fs s) f) as [[t' q]|e]; inversion H; subst s'; cbn; lia.
  - inversion H; subst s'. cbn. lia.
  - discriminate.
Qed.

Lemma step_mu : forall s i s', step fx cap b T s i = Some s' -> mu s' < mu s.
Proof.
  intros s [] s' H; cbn in H; [eapply vstep_mu | eapply hstep_mu | eapply wstep_mu]; eassumption.
Qed.

End Measure.
