(** Heal/Protocol.v — MODEL (definitions only, executable) of the goroutine / channel protocol of
    pwr.ValidatorContext.Validate (pwr/validator.go), the per-file wound relay of
    pwr.ValidatingPool.GetWriter (pwr/validatingpool.go) with pwr.AggregateWounds
    (pwr/wounds.go), and the wounds consumers (pwr/wounds.go, pwr/archive_healer.go).

    Goroutines:
      main      Validate itself: dir + symlink pass (sends wounds directly), `go validate`,
                the loop with the 3-way select over workerErrs / consumerErrs / fileIndices,
                close(fileIndices), <-workerErrs, close(Wounds), <-consumerErrs
      worker    vctx.validate: pools.New, for-select over fileIndices / cancelled, doOne
      consumer  consumerErrs <- WoundsConsumer.Do(...); then the drain loop `for range Wounds`
      aggregator + relay   the two goroutines GetWriter starts per file
      (environment: the context may be cancelled at any moment)
    Channels: Wounds (capacity [p_cap], 1024 in Go), workerErrs / consumerErrs (capacity 1),
    fileIndices (unbuffered: a rendezvous of main and worker), cancelled (closed or not),
    per-file wounds / originalWounds / woundsDone (unbuffered: rendezvous steps).

    Inputs of a run: what the dir/symlink pass finds ([p_pre]), whether pools.New fails,
    whether targetPool.Close() fails in the worker's deferred function ([p_closefail]: the
    function then returns without sending on workerErrs - the theorems need it to be false),
    per file what doOne does ([file]: whole-file wound, or the block markers before and after
    the size check, a size wound, an I/O error), the consumer as an arbitrary automaton
    ([consumer]), whether ctx is already cancelled.  Scheduling and select choices are the
    [action] taken at each step; the environment action [ACancel] cancels ctx.

    The aggregator's merge decisions depend on wound offsets; they are abstracted to the two
    booleans carried by [FBad] (contiguous with the pending wound / reaches MaxWoundSize), so
    every behaviour of the real aggregator is a behaviour of the model. *)
From Coq Require Import List Arith Bool.
Import ListNotations.

Inductive res := RNil | RErr.                 (* returned error: nil / non-nil *)
Inductive msg := Healthy | Bad.               (* on Wounds: CLOSED_FILE marker / real wound *)
Inductive fmsg := FHealthy | FBad (contig big : bool).   (* block validator -> aggregator *)
Inductive fmid := FMNone | FMShort | FMErr.   (* after io.Copy: sizes agree / size wound / io.Copy error *)
Inductive file :=
| FWhole                                      (* doWholeFileWound: select { Wounds <- w | <-cancelled } *)
| FOpenErr                                    (* GetWriter error: doOne returns err *)
| FData (ws1 : list fmsg) (mid : fmid) (ws2 : list fmsg).
     (* markers of the full blocks during io.Copy; size check; marker of the short last block at Close *)
Inductive pitem := PWound | PErr.             (* dir/symlink pass: a wound sent / `return err` *)

Record consumer := mkcons {
  c_start : option res;                       (* Some r: Do returns r without receiving *)
  c_msg : nat -> bool -> msg -> option res;   (* received k before; ctx cancelled?; message: Some r = return r *)
  c_closed : nat -> res;                      (* Wounds closed and empty after k messages *)
  c_ctx : nat -> option res                   (* Some r: Do selects on ctx.Done() and returns r *)
}.

Record params := mkparams {
  p_cap : nat; p_pre : list pitem; p_startfail : bool; p_files : list file;
  p_cons : consumer; p_ctx0 : bool;
  p_closefail : bool   (* targetPool.Close() fails in the worker's deferred function *) }.

(** program counters *)
Inductive mpc := MPre (items : list pitem) | MLoop | MRearmW | MRearmC | MCancel | MCloseFI
               | MWaitW | MCloseW | MWaitC | MRet.
Inductive wpc := WNone | WStart | WSelect | WWhole
               | WCopy (ws1 : list fmsg) (mid : fmid) (ws2 : list fmsg)
               | WMid (mid : fmid) (ws2 : list fmsg)
               | WFlush (ws2 : list fmsg) (e : res)
               | WCloseP (e : res) | WWaitDone (e : res)
               | WDefer (r : res)     (* the deferred function of vctx.validate: targetPool.Close(), then errs <- retErr *)
               | WSend (r : res) | WDone.
Inductive cpc := CStart | CDo (k : nat) | CSend (r : res) | CDrain | CDone.
Inductive rpc := RRecv | RSendW (m : msg) | RDoneSend.
Record pipe := mkpipe { a_last : bool; a_outs : list msg; a_inclosed : bool; a_outclosed : bool; r_pc : rpc }.

Record state := mkst {
  s_ctx : bool;            (* ctx cancelled *)
  s_canc : bool;           (* `cancelled` closed *)
  s_wch : list msg;        (* Wounds buffer, head = oldest *)
  s_wclosed : bool;        (* Wounds closed *)
  s_werr : option res;     (* workerErrs buffer *)
  s_cerr : option res;     (* consumerErrs buffer *)
  s_ficlosed : bool;       (* fileIndices closed *)
  s_main : mpc;
  s_ret : res;             (* main's retErr *)
  s_files : list file;     (* files main has not handed out yet *)
  s_wk : wpc;
  s_cons : cpc;
  s_pipe : option pipe }.

Definition set_ctx v s := mkst v (s_canc s) (s_wch s) (s_wclosed s) (s_werr s) (s_cerr s) (s_ficlosed s) (s_main s) (s_ret s) (s_files s) (s_wk s) (s_cons s) (s_pipe s).
Definition set_canc v s := mkst (s_ctx s) v (s_wch s) (s_wclosed s) (s_werr s) (s_cerr s) (s_ficlosed s) (s_main s) (s_ret s) (s_files s) (s_wk s) (s_cons s) (s_pipe s).
Definition set_wch v s := mkst (s_ctx s) (s_canc s) v (s_wclosed s) (s_werr s) (s_cerr s) (s_ficlosed s) (s_main s) (s_ret s) (s_files s) (s_wk s) (s_cons s) (s_pipe s).
Definition set_wclosed v s := mkst (s_ctx s) (s_canc s) (s_wch s) v (s_werr s) (s_cerr s) (s_ficlosed s) (s_main s) (s_ret s) (s_files s) (s_wk s) (s_cons s) (s_pipe s).
Definition set_werr v s := mkst (s_ctx s) (s_canc s) (s_wch s) (s_wclosed s) v (s_cerr s) (s_ficlosed s) (s_main s) (s_ret s) (s_files s) (s_wk s) (s_cons s) (s_pipe s).
Definition set_cerr v s := mkst (s_ctx s) (s_canc s) (s_wch s) (s_wclosed s) (s_werr s) v (s_ficlosed s) (s_main s) (s_ret s) (s_files s) (s_wk s) (s_cons s) (s_pipe s).
Definition set_ficlosed v s := mkst (s_ctx s) (s_canc s) (s_wch s) (s_wclosed s) (s_werr s) (s_cerr s) v (s_main s) (s_ret s) (s_files s) (s_wk s) (s_cons s) (s_pipe s).
Definition set_main v s := mkst (s_ctx s) (s_canc s) (s_wch s) (s_wclosed s) (s_werr s) (s_cerr s) (s_ficlosed s) v (s_ret s) (s_files s) (s_wk s) (s_cons s) (s_pipe s).
Definition set_ret v s := mkst (s_ctx s) (s_canc s) (s_wch s) (s_wclosed s) (s_werr s) (s_cerr s) (s_ficlosed s) (s_main s) v (s_files s) (s_wk s) (s_cons s) (s_pipe s).
Definition set_files v s := mkst (s_ctx s) (s_canc s) (s_wch s) (s_wclosed s) (s_werr s) (s_cerr s) (s_ficlosed s) (s_main s) (s_ret s) v (s_wk s) (s_cons s) (s_pipe s).
Definition set_wk v s := mkst (s_ctx s) (s_canc s) (s_wch s) (s_wclosed s) (s_werr s) (s_cerr s) (s_ficlosed s) (s_main s) (s_ret s) (s_files s) v (s_cons s) (s_pipe s).
Definition set_cons v s := mkst (s_ctx s) (s_canc s) (s_wch s) (s_wclosed s) (s_werr s) (s_cerr s) (s_ficlosed s) (s_main s) (s_ret s) (s_files s) (s_wk s) v (s_pipe s).
Definition set_pipe v s := mkst (s_ctx s) (s_canc s) (s_wch s) (s_wclosed s) (s_werr s) (s_cerr s) (s_ficlosed s) (s_main s) (s_ret s) (s_files s) (s_wk s) (s_cons s) v.

Definition init (p : params) : state :=
  mkst (p_ctx0 p) false [] false None None false (MPre (p_pre p)) RNil (p_files p) WNone CStart None.


(** what is scheduled next: a goroutine (with the select branch it takes) or a rendezvous *)
Inductive action :=
| ACancel     (* environment: ctx is cancelled *)
| AMain       (* main: its next step when it is not in the select (or the loop is over) *)
| AMainW      (* main select: workerErr := <-workerErrs *)
| AMainC      (* main select: consumerErr := <-consumerErrs *)
| AMainF      (* main select: fileIndices <- i, received by the worker's select *)
| AWk         (* worker: next step / first branch of its select *)
| AWkCanc     (* worker: the <-cancelled branch of its select *)
| ACons       (* consumer goroutine: next step / receive from Wounds *)
| AConsCtx    (* consumer: the <-ctx.Done() branch of Do's select *)
| AWA         (* validate closure -> aggregator (wounds <- &wound) *)
| AAgg        (* aggregator after its input was closed: flush lastWound / close(outWounds) *)
| AAR         (* aggregator -> relay (outWounds <- w) *)
| ARel        (* relay: vp.Wounds <- wound / sees originalWounds closed *)
| ARW.        (* relay -> worker (woundsDone <- true) *)

Definition room (p : params) (s : state) : bool := length (s_wch s) <? p_cap p.
Definition push (m : msg) (s : state) : state := set_wch (s_wch s ++ [m]) s.

Definition merge_ret (old e : res) : res := match old with RNil => e | RErr => RErr end.

Definition fresh_pipe : pipe := mkpipe false [] false false RRecv.

(** worker state right after it received file [f] from fileIndices *)
Definition start_wk (f : file) : wpc :=
  match f with
  | FWhole => WWhole
  | FOpenErr => WDefer RErr
  | FData ws1 mid ws2 => WCopy ws1 mid ws2
  end.
Definition start_pipe (f : file) : option pipe :=
  match f with FData _ _ _ => Some fresh_pipe | _ => None end.

(** AggregateWounds on one input: new lastWound flag and the wounds it sends out *)
Definition agg_in (last : bool) (m : fmsg) : bool * list msg :=
  match m with
  | FHealthy => if last then (false, [Bad; Healthy]) else (false, [Healthy])
  | FBad contig big =>
      if last then
        if contig then (if big then (false, [Bad]) else (true, []))
        else (true, [Bad])
      else (true, [])
  end.

Definition after_done (e : res) : wpc := match e with RNil => WSelect | RErr => WDefer RErr end.

Definition step (p : params) (a : action) (s : state) : option state :=
  match a with
  | ACancel => if s_ctx s then None else Some (set_ctx true s)
  | AMain =>
      match s_main s with
      | MPre [] => Some (set_main MLoop (set_wk WStart s))                  (* go vctx.validate(...) *)
      | MPre (PWound :: r) => if room p s then Some (set_main (MPre r) (push Bad s)) else None
      | MPre (PErr :: r) => Some (set_main MRet (set_ret RErr s))           (* return err *)
      | MLoop => match s_files s with [] => Some (set_main MCloseFI s) | _ => None end
      | MRearmW => match s_werr s with None => Some (set_main MCancel (set_werr (Some RNil) s)) | _ => None end
      | MRearmC => match s_cerr s with None => Some (set_main MCancel (set_cerr (Some RNil) s)) | _ => None end
      | MCancel => Some (set_main MCloseFI (set_canc true s))
      | MCloseFI => Some (set_main MWaitW (set_ficlosed true s))
      | MWaitW => match s_werr s with
                  | Some e => Some (set_main MCloseW (set_ret (merge_ret (s_ret s) e) (set_werr None s)))
                  | None => None end
      | MCloseW => Some (set_main MWaitC (set_wclosed true s))
      | MWaitC => match s_cerr s with
                  | Some e => Some (set_main MRet (set_ret (merge_ret (s_ret s) e) (set_cerr None s)))
                  | None => None end
      | MRet => None
      end
  | AMainW =>
      match s_main s, s_files s, s_werr s with
      | MLoop, _ :: _, Some e => Some (set_main MRearmW (set_ret e (set_werr None s)))
      | _, _, _ => None
      end
  | AMainC =>
      match s_main s, s_files s, s_cerr s with
      | MLoop, _ :: _, Some e => Some (set_main MRearmC (set_ret e (set_cerr None s)))
      | _, _, _ => None
      end
  | AMainF =>
      match s_main s, s_files s, s_wk s with
      | MLoop, f :: r, WSelect => Some (set_pipe (start_pipe f) (set_wk (start_wk f) (set_files r s)))
      | _, _, _ => None
      end
  | AWk =>
      match s_wk s with
      | WStart => Some (set_wk (if p_startfail p then WSend RErr else WSelect) s)
      | WSelect => if s_ficlosed s then Some (set_wk (WDefer RNil) s) else None
      | WWhole => if room p s then Some (set_wk WSelect (push Bad s)) else None
      | WCopy [] mid ws2 => Some (set_wk (WMid mid ws2) s)
      | WMid FMNone ws2 => Some (set_wk (WFlush ws2 RNil) s)
      | WMid FMErr ws2 => Some (set_wk (WFlush ws2 RErr) s)
      | WMid FMShort ws2 => if room p s then Some (set_wk (WFlush ws2 RNil) (push Bad s)) else None
      | WFlush [] e => Some (set_wk (WCloseP e) s)
      | WCloseP e =>
          match s_pipe s with
          | Some pp => Some (set_wk (WWaitDone e)
                               (set_pipe (Some (mkpipe (a_last pp) (a_outs pp) true (a_outclosed pp) (r_pc pp))) s))
          | None => None
          end
      | WDefer r => Some (set_wk (if p_closefail p then WDone else WSend r) s)
            (* `if err := targetPool.Close(); err != nil { retErr = ...; return }`: returns WITHOUT sending *)
      | WSend r => match s_werr s with None => Some (set_wk WDone (set_werr (Some r) s)) | _ => None end
      | _ => None
      end
  | AWkCanc =>
      if s_canc s then
        match s_wk s with
        | WSelect => Some (set_wk (WDefer RNil) s)
        | WWhole => Some (set_wk WSelect s)
        | WMid FMShort ws2 => Some (set_wk (WFlush ws2 RNil) s)
        | _ => None
        end
      else None
  | ACons =>
      match s_cons s with
      | CStart => Some (set_cons (match c_start (p_cons p) with Some r => CSend r | None => CDo 0 end) s)
      | CDo k =>
          match s_wch s with
          | m :: t => Some (set_cons (match c_msg (p_cons p) k (s_ctx s) m with Some r => CSend r | None => CDo (S k) end)
                                     (set_wch t s))
          | [] => if s_wclosed s then Some (set_cons (CSend (c_closed (p_cons p) k)) s) else None
          end
      | CSend r => match s_cerr s with None => Some (set_cons CDrain (set_cerr (Some r) s)) | _ => None end
      | CDrain =>
          match s_wch s with
          | _ :: t => Some (set_wch t s)
          | [] => if s_wclosed s then Some (set_cons CDone s) else None
          end
      | CDone => None
      end
  | AConsCtx =>
      match s_cons s with
      | CDo k => if s_ctx s then
                   match c_ctx (p_cons p) k with Some r => Some (set_cons (CSend r) s) | None => None end
                 else None
      | _ => None
      end
  | AWA =>
      match s_pipe s with
      | Some pp =>
          match a_outs pp, a_inclosed pp with
          | [], false =>
              match s_wk s with
              | WCopy (m :: t) mid ws2 =>
                  let '(l, o) := agg_in (a_last pp) m in
                  Some (set_wk (WCopy t mid ws2) (set_pipe (Some (mkpipe l o false (a_outclosed pp) (r_pc pp))) s))
              | WFlush (m :: t) e =>
                  let '(l, o) := agg_in (a_last pp) m in
                  Some (set_wk (WFlush t e) (set_pipe (Some (mkpipe l o false (a_outclosed pp) (r_pc pp))) s))
              | _ => None
              end
          | _, _ => None
          end
      | None => None
      end
  | AAgg =>
      match s_pipe s with
      | Some pp =>
          match a_outs pp, a_inclosed pp with
          | [], true =>
              if a_last pp then Some (set_pipe (Some (mkpipe false [Bad] true (a_outclosed pp) (r_pc pp))) s)
              else if a_outclosed pp then None
              else Some (set_pipe (Some (mkpipe false [] true true (r_pc pp))) s)
          | _, _ => None
          end
      | None => None
      end
  | AAR =>
      match s_pipe s with
      | Some pp =>
          match a_outs pp, r_pc pp with
          | m :: t, RRecv => Some (set_pipe (Some (mkpipe (a_last pp) t (a_inclosed pp) (a_outclosed pp) (RSendW m))) s)
          | _, _ => None
          end
      | None => None
      end
  | ARel =>
      match s_pipe s with
      | Some pp =>
          match r_pc pp with
          | RSendW m => if room p s
                        then Some (set_pipe (Some (mkpipe (a_last pp) (a_outs pp) (a_inclosed pp) (a_outclosed pp) RRecv)) (push m s))
                        else None
          | RRecv => if a_outclosed pp
                     then Some (set_pipe (Some (mkpipe (a_last pp) (a_outs pp) (a_inclosed pp) (a_outclosed pp) RDoneSend)) s)
                     else None
          | RDoneSend => None
          end
      | None => None
      end
  | ARW =>
      match s_pipe s, s_wk s with
      | Some pp, WWaitDone e =>
          match r_pc pp with
          | RDoneSend => Some (set_wk (after_done e) (set_pipe None s))
          | _ => None
          end
      | _, _ => None
      end
  end.

Fixpoint run (p : params) (acts : list action) (s : state) : option state :=
  match acts with
  | [] => Some s
  | a :: r => match step p a s with Some s' => run p r s' | None => None end
  end.

Definition all_actions : list action :=
  [ACancel; AMain; AMainW; AMainC; AMainF; AWk; AWkCanc; ACons; AConsCtx; AWA; AAgg; AAR; ARel; ARW].
Definition goroutine_actions : list action := tl all_actions.

(** ---- the consumers of pwr/wounds.go and pwr/archive_healer.go as automata ---- *)

(** WoundsGuardian after the fix: first non-healthy wound => error; ctx.Done => ErrCancelled *)
Definition guardian : consumer :=
  mkcons None (fun _ _ m => match m with Bad => Some RErr | Healthy => None end) (fun _ => RNil) (fun _ => Some RErr).
(** WoundsGuardian of the unchanged tree: ctx.Done => nil *)
Definition guardian_unfixed : consumer :=
  mkcons None (fun _ _ m => match m with Bad => Some RErr | Healthy => None end) (fun _ => RNil) (fun _ => Some RNil).
(** WoundsWriter (file can be written) / WoundsPrinter: never fail; ctx.Done => nil *)
Definition quiet : consumer := mkcons None (fun _ _ _ => None) (fun _ => RNil) (fun _ => Some RNil).
(** a consumer that returns [r] once it has received [n] messages (n = 0: at once), ignoring ctx *)
Definition returns_after (n : nat) (r : res) : consumer :=
  mkcons (match n with O => Some r | _ => None end) (fun k _ _ => if n <=? S k then Some r else None) (fun _ => RNil) (fun _ => None).
(** WoundsWriter whose file cannot be created: fails on the n-th non-healthy wound (n >= 1);
    the count of non-healthy wounds is not part of [c_msg]'s view, so n = 1 only *)
Definition fails_on_bad : consumer :=
  mkcons None (fun _ _ m => match m with Bad => Some RErr | Healthy => None end) (fun _ => RNil) (fun _ => Some RNil).
(** ArchiveHealer: checks ctx after each receive (ErrCancelled); [bad_archive]: healing fails, the
    error surfaces on a later wound or at the end (any message may be the one: nondeterminism
    is resolved by [fail_at]) *)
Definition healer (fail_at : option nat) : consumer :=
  mkcons None
         (fun k ctx m => if ctx then Some RErr else
                         match fail_at, m with
                         | Some n, Bad => if n <=? S k then Some RErr else None
                         | _, _ => None
                         end)
         (fun k => match fail_at with Some _ => RErr | None => RNil end)
         (fun _ => None).

(** the directory matches the signature: nothing for the dir/symlink pass to report, every file
    yields healthy markers only *)
Definition fmsg_clean (m : fmsg) : bool := match m with FHealthy => true | FBad _ _ => false end.
Definition file_clean (f : file) : bool :=
  match f with
  | FData ws1 FMNone ws2 => forallb fmsg_clean ws1 && forallb fmsg_clean ws2
  | _ => false
  end.
Definition clean (p : params) : bool :=
  match p_pre p with [] => forallb file_clean (p_files p) | _ => false end.

(** potential function: every step strictly decreases it (Heal/ProtocolProofs.v) *)
Definition w_mid (m : fmid) : nat := match m with FMShort => 2 | _ => 0 end.
Definition w_wk (w : wpc) : nat :=
  match w with
  | WDone => 0 | WSend _ => 1 | WDefer _ => 2 | WSelect => 3 | WWaitDone _ => 4 | WCloseP _ => 5
  | WFlush ws2 _ => 6 + 5 * length ws2
  | WMid mid ws2 => 7 + w_mid mid + 5 * length ws2
  | WCopy ws1 mid ws2 => 8 + 5 * length ws1 + w_mid mid + 5 * length ws2
  | WWhole => 5 | WStart => 4 | WNone => 4
  end.
Definition w_file (f : file) : nat := S (w_wk (start_wk f)).
Definition w_files (l : list file) : nat := fold_right (fun f n => w_file f + n) 0 l.
Definition w_pitem (i : pitem) : nat := match i with PWound => 2 | PErr => 1 end.
Definition w_main (m : mpc) : nat :=
  match m with
  | MRet => 0 | MWaitC => 1 | MCloseW => 2 | MWaitW => 3 | MCloseFI => 4 | MCancel => 5
  | MRearmW => 6 | MRearmC => 6 | MLoop => 7
  | MPre items => 12 + fold_right (fun i n => w_pitem i + n) 0 items
  end.
Definition w_cons (c : cpc) : nat :=
  match c with CStart => 4 | CDo _ => 3 | CSend _ => 2 | CDrain => 1 | CDone => 0 end.
Definition w_rpc (r : rpc) : nat := match r with RRecv => 1 | RSendW _ => 3 | RDoneSend => 0 end.
Definition w_pipe (o : option pipe) : nat :=
  match o with
  | None => 0
  | Some pp => (if a_last pp then 4 else 0) + 3 * length (a_outs pp) + (if a_outclosed pp then 0 else 1) + w_rpc (r_pc pp)
  end.
Definition measure (s : state) : nat :=
  (if s_ctx s then 0 else 1) + w_main (s_main s) + w_files (s_files s) + w_wk (s_wk s)
  + w_pipe (s_pipe s) + w_cons (s_cons s) + length (s_wch s).
