(** Proofs about Heal/Protocol.v, part 3: no false alarm without interruption.  A clean
    directory validated fail-fast with a context that is never cancelled (and a worker whose
    pool opens and closes) returns nil, for every schedule. *)
From Coq Require Import List Arith Bool Lia.
Import ListNotations.
From Wharf Require Import Heal.Protocol Heal.ProtocolProofs Heal.ProtocolSafety.

(** nothing bad anywhere: no error recorded or in flight, nothing left to report *)
Definition quiet_state (s : state) : bool := owed s || pending s.

Ltac startq G CF SF :=
  intros s s' CT HS H;
  destruct s as [ctx canc wch wcl werr cerr ficl mn ret files wk cons [[al ao aic aoc ar]|]];
  unfold step in H; rewrite ?G, ?CF, ?SF in H; sred; subst ctx; repeat brk H; inv H;
  unfold quiet_state in *; sgcbn.

(** from [HS : X = false] show [X' = false] when [X' = true -> X = true] is a boolean tautology *)
Ltac bt_loop :=
  solve [repeat (cbn [orb andb negb];
          match goal with
          | |- true = true -> _ => intros _
          | |- _ -> true = true => intros _; reflexivity
          | |- false = true -> _ => discriminate
          | |- ?a = true -> ?b = true => first [batom a | batom b]
          | |- true = true => reflexivity
          | |- false = true => fail 2
          | |- ?b = true => batom b
          end)].
Ltac bt2 := first [ bt | bt_loop ].

Ltac btf :=
  first [ reflexivity | assumption | discriminate |
  apply not_true_is_false; intro HQ;
  match goal with HS : ?x = false |- _ =>
    let T := fresh in assert (T : x = true) by (clear HS; bt2); rewrite T in HS; discriminate HS end ].

Lemma quiet_step : forall p a, p_cons p = guardian -> p_closefail p = false -> p_startfail p = false -> a <> ACancel ->
  forall s s', s_ctx s = false -> quiet_state s = false -> step p a s = Some s' ->
  s_ctx s' = false /\ quiet_state s' = false.
Proof.
  intros p a G CF SF NA. destruct a; try congruence; clear NA.
  all: startq G CF SF; (split; [reflexivity|]); try btf.
  all: try solve [exfalso; rewrite ?orb_true_r in HS; discriminate HS].
  all: try solve [destruct ret; destruct r; sgcbn; btf].
  all: try solve [destruct r; sgcbn; btf].
  all: try solve [destruct e; sgcbn; btf].
  all: try solve [rewrite file_pending_start in HS; destruct f; sgcbn; unfold files_pending in *; btf].
  all: try solve [destruct m; cbn in *; try discriminate;
                  try match goal with HH : Some _ = Some _ |- _ => inv HH end; sgcbn; btf].
  all: try solve [match goal with HA : agg_in _ _ = (_, _) |- _ => apply agg_in_pending in HA end;
         cbn [existsb] in HS; unfold ws_dirty in *; cbn [existsb] in HS;
         match goal with HA : ?l || ?e = _ |- _ =>
           replace (l || e || match ar with RSendW Bad => true | _ => false end) with ((l || e) || match ar with RSendW Bad => true | _ => false end) by reflexivity;
           rewrite HA end; btf].
Qed.

Lemma quiet_init : forall p, p_ctx0 p = false -> clean p = true -> s_ctx (init p) = false /\ quiet_state (init p) = false.
Proof.
  intros p C0 CL. split; [exact C0|]. unfold quiet_state, owed, pending, clean in *. cbn.
  destruct (p_pre p); [|discriminate]. cbn. unfold files_pending.
  induction (p_files p) as [|f l IH]; cbn in *; [reflexivity|].
  apply andb_prop in CL. destruct CL as [CF CL]. rewrite CF. cbn. apply IH. exact CL.
Qed.

Lemma quiet_run : forall p, p_cons p = guardian -> p_closefail p = false -> p_startfail p = false ->
  forall acts s0 s1, ~ In ACancel acts -> s_ctx s0 = false -> quiet_state s0 = false ->
  run p acts s0 = Some s1 -> quiet_state s1 = false.
Proof.
  intros p G CF SF. induction acts as [|a r IH]; intros s0 s1 NC CT QS R; cbn in R.
  - inv R. exact QS.
  - destruct (step p a s0) as [s2|] eqn:ST; [|discriminate].
    assert (NA : a <> ACancel) by (intro; subst; apply NC; left; reflexivity).
    destruct (quiet_step p a G CF SF NA s0 s2 CT QS ST) as [CT2 QS2].
    apply (IH s2 s1); auto. intro; apply NC; right; assumption.
Qed.

(** no false alarm without interruption *)
Theorem clean_uninterrupted_nil_lemma : forall p acts s,
  p_cons p = guardian -> p_closefail p = false -> p_startfail p = false -> p_ctx0 p = false ->
  clean p = true -> ~ In ACancel acts ->
  run p acts (init p) = Some s -> s_main s = MRet -> s_ret s = RNil.
Proof.
  intros p acts s G CF SF C0 CL NC H M.
  destruct (quiet_init p C0 CL) as [CT QS].
  pose proof (quiet_run p G CF SF acts (init p) s NC CT QS H) as Q.
  unfold quiet_state, owed in Q. destruct (s_ret s); [reflexivity|]. cbn in Q. discriminate.
Qed.
