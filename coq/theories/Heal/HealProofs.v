(** C06 proofs, part 2: the invariant of the validator / healer / heal-worker transition
    system for the repaired code ([fixed]), its preservation by every step of every thread,
    what it gives in a terminal state, progress, and the termination measure. *)
From Coq Require Import Arith Lia.
From Wharf Require Import FS.Light FS.Tree FS.TreeProofs FS.Ops FS.OpsProofs
     Heal.Validator Heal.Healer Heal.HealLemmas.

Section Proofs.
Variable cap : nat.
Hypothesis cap_pos : 0 < cap.
Variable b : build.
Hypothesis wf : wf_build b = true.
Variable T : path.

Local Notation gdir := (gdir T).
Local Notation glink := (glink T).
Local Notation gfile := (gfile T).
Local Notation base_ok := (base_ok T).
Local Notation anc_ok := (anc_ok T).
Local Notation vstep := (vstep fixed cap b T).
Local Notation hstep := (hstep T).
Local Notation wstep := (wstep T).
Local Notation step := (step fixed cap b T).

Definition wpath (w : wound) : option path :=
  match w with WDir p => Some p | WLink p _ => Some p | WFile p _ => Some p | WClosed _ => None end.

Definition wound_ok (w : wound) : Prop :=
  match w with
  | WDir d => In d (b_dirs b)
  | WLink l dest => In (l, dest) (b_links b)
  | WFile f data => In (f, data) (b_files b)
  | WClosed _ => True
  end.

(** wounds not yet processed by the healer, oldest first *)
Definition pend (s : state) : list wound := s_chan s ++ v_pend (s_v s).

(** when the healer gets to a wound, the directories above its entry have been dealt with *)
Definition ordered (t : tree) (P : list wound) : Prop :=
  forall P1 w P2 p, P = P1 ++ w :: P2 -> wpath w = Some p ->
  forall a, In a (prefixes p) -> a <> [] -> gdir t a \/ In (WDir a) P1.

(** how far the validator is *)
Definition progress (ph : vphase) (dd : list path) (dl : list (path * list comp)) (df : list (path * list N)) : Prop :=
  match ph with
  | VInit | VFail _ => False
  | VDirs rest => b_dirs b = dd ++ rest /\ dl = [] /\ df = []
  | VLinks rest => dd = b_dirs b /\ b_links b = dl ++ rest /\ df = []
  | VFiles rest => dd = b_dirs b /\ dl = b_links b /\ b_files b = df ++ rest
  | VClose | VDone => dd = b_dirs b /\ dl = b_links b /\ df = b_files b
  end.

(** a queued file is waiting, being written, or done *)
Definition fstatus (s : state) (f : path) (data : list N) : Prop :=
  In (f, data) (s_wq s) \/
  (s_w s = WWriting (T ++ f) data /\ exists d0, node_at (s_fs s) (T ++ f) = Some (File d0)) \/
  gfile (s_fs s) f data.

Definition control (s : state) : Prop :=
  (s_closed s = true <-> v_phase (s_v s) = VDone) /\
  (v_phase (s_v s) = VDone -> v_pend (s_v s) = []) /\
  match s_h s with
  | HRun => s_wq_closed s = false
  | HWait => s_closed s = true /\ s_chan s = [] /\ s_wq_closed s = true
  | HDone r => r = Ok tt /\ s_closed s = true /\ s_chan s = [] /\ s_wq_closed s = true /\ s_w s = WExit (Ok tt)
  end /\
  match s_w s with
  | WExit r => r = Ok tt /\ s_wq s = [] /\ s_wq_closed s = true
  | _ => True
  end.

(** every entry already checked is as signed, or its wound is still on its way to the healer,
    or (files) it is in the healer's set *)
Definition claims (t : tree) (wd : list path) (P : list wound) (Q : list path)
           (dd : list path) (dl : list (path * list comp)) (df : list (path * list N)) : Prop :=
  (forall d, In d dd -> gdir t d \/ (In d wd /\ In (WDir d) P)) /\
  (forall l dest, In (l, dest) dl -> glink t l dest \/ In (WLink l dest) P) /\
  (forall f data, In (f, data) df -> gfile t f data \/ In (WFile f data) P \/ In f Q).

Record Inv (s : state) : Prop := mkInv {
  i_prog : exists dd dl df,
      progress (v_phase (s_v s)) dd dl df /\
      claims (s_fs s) (v_wd (s_v s)) (pend s) (s_queued s) dd dl df /\
      (forall d, In d (v_wd (s_v s)) -> In d dd);
  i_base : base_ok (s_fs s);
  i_wok : forall w, In w (pend s) -> wound_ok w;
  i_ord : ordered (s_fs s) (pend s);
  i_queued : forall f, In f (s_queued s) -> exists data, In (f, data) (b_files b) /\ fstatus s f data;
  i_wq : forall f data, In (f, data) (s_wq s) -> In (f, data) (b_files b) /\ anc_ok (s_fs s) f /\ In f (s_queued s);
  i_writing : forall q data, s_w s = WWriting q data ->
      exists f, q = T ++ f /\ In (f, data) (b_files b) /\ In f (s_queued s) /\
                exists d0, node_at (s_fs s) q = Some (File d0);
  i_ctl : control s }.

(** before [os.MkdirAll(target)] *)
Definition Inv0 (s : state) : Prop :=
  init_ok T (s_fs s) = true /\ s_v s = mkV VInit [] [] /\ s_chan s = [] /\ s_closed s = false /\
  s_h s = HRun /\ s_queued s = [] /\ s_wq s = [] /\ s_wq_closed s = false /\ s_w s = WIdle.

Definition INV (s : state) : Prop := Inv0 s \/ Inv s.

(** ---------- monotonicity of the filesystem changes ---------- *)

(** [t'] keeps the base, every listed directory that was good, and every other listed entry
    except [e] *)
Definition stable (e : path) (t t' : tree) : Prop :=
  (base_ok t -> base_ok t') /\
  (forall p, In p (all_paths b) -> p <> e -> node_at t' (T ++ p) = node_at t (T ++ p)).

Lemma app_inj_T : forall p q : path, T ++ p = T ++ q -> p = q.
Proof. intros p q H. apply app_inv_head in H. exact H. Qed.

Lemma is_prefix_T : forall p q, is_prefix (T ++ p) (T ++ q) = is_prefix p q.
Proof.
  induction T as [|x T' IH]; intros p q; [reflexivity|].
  cbn. rewrite N.eqb_refl. apply IH.
Qed.

Lemma base_frame : forall e t t', e <> [] -> frame (T ++ e) t t' -> base_ok t -> base_ok t'.
Proof.
  intros e t t' He Hf [Hl Hd]. split.
  - intros a Ha. rewrite Hf; [apply Hl; exact Ha|].
    apply is_prefix_false. intros [r E]. apply prefixes_spec in Ha as [r' [Hr HT]].
    rewrite E in HT. rewrite <- !app_assoc in HT. rewrite <- (app_nil_r T) in HT at 1.
    apply app_inv_head in HT. destruct e; [congruence | discriminate].
  - rewrite Hf; [exact Hd|]. apply is_prefix_false. intros [r E].
    rewrite <- app_assoc in E. rewrite <- (app_nil_r T) in E at 1. apply app_inv_head in E.
    destruct e; [congruence | discriminate].
Qed.

Lemma base_frame1 : forall e t t', e <> [] -> frame1 (T ++ e) t t' -> base_ok t -> base_ok t'.
Proof.
  intros e t t' He Hf [Hl Hd]. split.
  - intros a Ha. rewrite Hf; [apply Hl; exact Ha|].
    intro E. apply prefixes_spec in Ha as [r' [Hr HT]]. rewrite E in HT.
    rewrite <- !app_assoc in HT. rewrite <- (app_nil_r T) in HT at 1.
    apply app_inv_head in HT. destruct e; [congruence | discriminate].
  - rewrite Hf; [exact Hd|]. intro E. rewrite <- (app_nil_r T) in E at 1. apply app_inv_head in E. congruence.
Qed.

Lemma stable_frame1 : forall e t t', e <> [] -> frame1 (T ++ e) t t' -> stable e t t'.
Proof.
  intros e t t' He Hf. split; [apply (base_frame1 e); assumption|].
  intros p _ Hp. apply Hf. intro E. apply app_inj_T in E. contradiction.
Qed.

(** a symlink or file entry: nothing else listed is at or below it *)
Lemma stable_frame : forall e t t', In e (map fst (b_links b) ++ map fst (b_files b)) ->
  frame (T ++ e) t t' -> stable e t t'.
Proof.
  intros e t t' He Hf.
  assert (Hne : e <> []). { apply (wf_nonempty b wf). unfold all_paths. apply in_or_app. right. exact He. }
  split; [apply (base_frame e); assumption|].
  intros p Hp Hpe. apply Hf. rewrite is_prefix_T.
  destruct (is_prefix e p) eqn:E; [|reflexivity]. exfalso. apply Hpe. eapply wf_no_below; eassumption.
Qed.

Lemma stable_gdir : forall e t t' d, stable e t t' -> In d (b_dirs b) -> d <> e -> gdir t d -> gdir t' d.
Proof.
  intros e t t' d [_ Hs] Hd Hne G. unfold HealLemmas.gdir. rewrite Hs; [exact G | apply in_all_dir; exact Hd | exact Hne].
Qed.

Lemma ordered_mono : forall t t' P,
  (forall w, In w P -> wound_ok w) ->
  (forall a, In a (b_dirs b) -> gdir t a -> gdir t' a) ->
  ordered t P -> ordered t' P.
Proof.
  intros t t' P Hok Hm Ho P1 w P2 p E Hw a Ha Hn.
  destruct (Ho P1 w P2 p E Hw a Ha Hn) as [G | Hin]; [left | right; exact Hin].
  apply Hm; [|exact G].
  assert (Hwok : wound_ok w). { apply Hok. rewrite E. apply in_or_app. right. left. reflexivity. }
  assert (Hp : In p (all_paths b)).
  { destruct w; cbn in Hw; inversion Hw; subst; cbn in Hwok.
    - apply in_all_dir. exact Hwok.
    - eapply in_all_link; exact Hwok.
    - eapply in_all_file; exact Hwok. }
  eapply wf_anc; eassumption.
Qed.

Lemma anc_ok_mono : forall t t' p, In p (all_paths b) ->
  (forall a, In a (b_dirs b) -> gdir t a -> gdir t' a) -> anc_ok t p -> anc_ok t' p.
Proof.
  intros t t' p Hp Hm Ha a Hin Hn. apply Hm; [|apply Ha; assumption]. eapply wf_anc; eassumption.
Qed.

(** ---------- lemmas about [claims] and [ordered] ---------- *)

Lemma progress_sub : forall ph dd dl df, progress ph dd dl df ->
  incl dd (b_dirs b) /\ incl dl (b_links b) /\ incl df (b_files b).
Proof.
  intros ph dd dl df H. destruct ph; cbn in H; try contradiction.
  - destruct H as [E [-> ->]]. rewrite E. repeat split; try (intros x []). apply incl_appl, incl_refl.
  - destruct H as [-> [E ->]]. rewrite E. repeat split; try (intros x []); [apply incl_refl | apply incl_appl, incl_refl].
  - destruct H as [-> [-> E]]. rewrite E. repeat split; try apply incl_refl. apply incl_appl, incl_refl.
  - destruct H as [-> [-> ->]]. repeat split; apply incl_refl.
  - destruct H as [-> [-> ->]]. repeat split; apply incl_refl.
Qed.

Lemma claims_more : forall t wd wd' P P' Q Q' dd dl df,
  incl wd wd' -> incl P P' -> incl Q Q' ->
  claims t wd P Q dd dl df -> claims t wd' P' Q' dd dl df.
Proof.
  intros t wd wd' P P' Q Q' dd dl df Hw HP HQ [H1 [H2 H3]]. repeat split.
  - intros d Hd. destruct (H1 d Hd) as [G | [A B]]; [left; exact G | right; split; [apply Hw, A | apply HP, B]].
  - intros l dest Hl. destruct (H2 l dest Hl) as [G | A]; [left; exact G | right; apply HP, A].
  - intros f data Hf. destruct (H3 f data Hf) as [G | [A | B]]; [left; exact G | right; left; apply HP, A | right; right; apply HQ, B].
Qed.

Definition handled (t : tree) (Q : list path) (w : wound) : Prop :=
  match w with
  | WDir d => gdir t d
  | WLink l dest => glink t l dest
  | WFile f data => In f Q
  | WClosed _ => True
  end.

Lemma claims_pop : forall t wd w P Q dd dl df,
  handled t Q w -> claims t wd (w :: P) Q dd dl df -> claims t wd P Q dd dl df.
Proof.
  intros t wd w P Q dd dl df Hh [H1 [H2 H3]]. repeat split.
  - intros d Hd. destruct (H1 d Hd) as [G | [A [B | B]]]; [left; exact G | | right; split; assumption].
    subst. left. exact Hh.
  - intros l dest Hl. destruct (H2 l dest Hl) as [G | [B | B]]; [left; exact G | | right; exact B].
    subst. left. exact Hh.
  - intros f data Hf. destruct (H3 f data Hf) as [G | [[B | B] | C]]; [left; exact G | | right; left; exact B | right; right; exact C].
    subst. right. right. exact Hh.
Qed.

(** transfer of the claims to a changed filesystem *)
Lemma claims_tr : forall t t' wd P Q dd dl df,
  incl dd (b_dirs b) -> incl dl (b_links b) -> incl df (b_files b) ->
  (forall d, In d (b_dirs b) -> gdir t d -> gdir t' d) ->
  (forall l dest, In (l, dest) (b_links b) -> glink t l dest -> glink t' l dest) ->
  (forall f data, In (f, data) (b_files b) -> gfile t f data -> gfile t' f data \/ In f Q) ->
  claims t wd P Q dd dl df -> claims t' wd P Q dd dl df.
Proof.
  intros t t' wd P Q dd dl df Sd Sl Sf Hd Hl Hf [H1 [H2 H3]]. repeat split.
  - intros d Hin. destruct (H1 d Hin) as [G | A]; [left; apply Hd; [apply Sd, Hin | exact G] | right; exact A].
  - intros l dest Hin. destruct (H2 l dest Hin) as [G | A]; [left; apply Hl; [apply Sl, Hin | exact G] | right; exact A].
  - intros f data Hin. destruct (H3 f data Hin) as [G | A]; [| right; exact A].
    destruct (Hf f data (Sf _ Hin) G) as [G' | Q']; [left; exact G' | right; right; exact Q'].
Qed.

Lemma ordered_pop : forall t w P, handled t [] w \/ (forall d, w <> WDir d) -> ordered t (w :: P) -> ordered t P.
Proof.
  intros t w P Hh Ho P1 w' P2 p E Hw a Ha Hn.
  destruct (Ho (w :: P1) w' P2 p) with (a := a) as [G | [Hin | Hin]]; try assumption.
  - rewrite E. reflexivity.
  - left. exact G.
  - subst w. destruct Hh as [Hh | Hh]; [left; exact Hh | exfalso; eapply Hh; reflexivity].
  - right. exact Hin.
Qed.

Lemma ordered_app : forall t P ws,
  ordered t P ->
  (forall w p, In w ws -> wpath w = Some p -> forall a, In a (prefixes p) -> a <> [] -> gdir t a \/ In (WDir a) P) ->
  ordered t (P ++ ws).
Proof.
  intros t P ws Ho Hn P1 w P2 p E Hw a Ha Hne.
  destruct (split_app _ _ _ _ _ _ (eq_sym E)) as [[P2' E2] | [W1 [W2 [E1 E2]]]].
  - eapply Ho; eassumption.
  - destruct (Hn w p) with (a := a) as [G | Hin]; try assumption.
    + rewrite E2. apply in_or_app. right. left. reflexivity.
    + left. exact G.
    + right. rewrite E1. apply in_or_app. left. exact Hin.
Qed.

(** ---------- the validator's checks under the invariant ---------- *)

Lemma dest_eqb_eq : forall a c, dest_eqb a c = true -> a = c.
Proof.
  unfold dest_eqb. induction a as [|x a IH]; destruct c as [|y c]; cbn; intro H; try congruence.
  apply andb_true_iff in H as [H1 H2]. apply IH in H2. subst.
  destruct x, y; cbn in H1; try discriminate; [reflexivity | apply N.eqb_eq in H1; subst; reflexivity].
Qed.

Lemma under_wd_false : forall wd p, under_wd fixed wd p = false ->
  forall a, In a (prefixes p) -> a <> [] -> ~ In a wd.
Proof.
  intros wd p H a Ha Hn Hin. unfold under_wd in H. cbn in H.
  assert (E : existsb (fun a => negb (path_eqb a []) && existsb (path_eqb a) wd) (prefixes p) = true).
  { apply existsb_exists. exists a. split; [exact Ha|]. apply andb_true_iff. split.
    - apply negb_true_iff. apply path_eqb_neq. exact Hn.
    - apply existsb_path_In. exact Hin. }
  congruence.
Qed.

Lemma anc_from_claims : forall t wd P Q dd dl df p,
  claims t wd P Q dd dl df ->
  (forall a, In a (prefixes p) -> a <> [] -> In a dd) ->
  under_wd fixed wd p = false -> anc_ok t p.
Proof.
  intros t wd P Q dd dl df p [H1 _] Hp Hu a Ha Hn.
  destruct (H1 a (Hp a Ha Hn)) as [G | [A _]]; [exact G|].
  exfalso. eapply under_wd_false; eassumption.
Qed.

Lemma check_dir_res : forall t wd d, base_ok t -> d <> [] ->
  (under_wd fixed wd d = false -> anc_ok t d) ->
  (check_dir fixed t T wd d = Wounds [] /\ gdir t d) \/ check_dir fixed t T wd d = Wounds [WDir d].
Proof.
  intros t wd d Hb Hd Ha. unfold check_dir. destruct (under_wd fixed wd d) eqn:U; [right; reflexivity|].
  rewrite lstat_lit by (apply anc_lit; [exact Hb | apply Ha; reflexivity]).
  destruct (node_at t (T ++ d)) as [[| |]|] eqn:E; try (right; reflexivity).
  left. split; [reflexivity | exact E].
Qed.

Lemma check_link_res : forall t wd l dest, base_ok t -> l <> [] ->
  (under_wd fixed wd l = false -> anc_ok t l) ->
  (check_link fixed t T wd l dest = Wounds [] /\ glink t l dest) \/
  check_link fixed t T wd l dest = Wounds [WLink l dest].
Proof.
  intros t wd l dest Hb Hd Ha. unfold check_link. destruct (under_wd fixed wd l) eqn:U; [right; reflexivity|].
  pose proof (anc_lit T t l Hb (Ha eq_refl)) as Hl.
  rewrite lstat_lit, readlink_lit by exact Hl.
  destruct (node_at t (T ++ l)) as [[| |d']|] eqn:E; try (right; reflexivity).
  destruct (dest_eqb d' dest) eqn:D; [|right; reflexivity].
  left. split; [reflexivity|]. apply dest_eqb_eq in D. subst. exact E.
Qed.

Lemma check_file_res : forall t wd f data, base_ok t -> f <> [] ->
  (under_wd fixed wd f = false -> anc_ok t f) ->
  (check_file fixed t T wd f data = Wounds [WClosed f] /\ gfile t f data) \/
  check_file fixed t T wd f data = Wounds [WFile f data] \/
  check_file fixed t T wd f data = Wounds [WFile f data; WClosed f].
Proof.
  intros t wd f data Hb Hd Ha. unfold check_file. destruct (under_wd fixed wd f) eqn:U; [right; left; reflexivity|].
  pose proof (anc_lit T t f Hb (Ha eq_refl)) as Hl.
  rewrite lstat_lit by exact Hl.
  destruct (node_at t (T ++ f)) as [[d'| |]|] eqn:E; try (right; left; reflexivity).
  - rewrite read_file_lit; [| exact Hl | intros d0; congruence]. rewrite E.
    destruct (nlist_eqb d' data) eqn:D; [|right; right; reflexivity].
    left. split; [reflexivity|]. apply path_eqb_eq in D. subst. exact E.
  - rewrite read_file_lit; [| exact Hl | intros d0; congruence]. rewrite E. right. left. reflexivity.
Qed.

(** ---------- validator steps ---------- *)

Lemma fstatus_set_v : forall s v f data, fstatus (set_v s v) f data <-> fstatus s f data.
Proof. intros. unfold fstatus. cbn. reflexivity. Qed.

Lemma inv_check : forall s ph' wd' ws dd' dl' df',
  Inv s -> v_pend (s_v s) = [] -> v_phase (s_v s) <> VDone ->
  progress ph' dd' dl' df' -> ph' <> VDone ->
  claims (s_fs s) wd' (s_chan s ++ ws) (s_queued s) dd' dl' df' ->
  (forall d, In d wd' -> In d dd') ->
  (forall w, In w ws -> wound_ok w) ->
  (forall w p, In w ws -> wpath w = Some p ->
     forall a, In a (prefixes p) -> a <> [] -> gdir (s_fs s) a \/ In (WDir a) (s_chan s)) ->
  Inv (set_v s (mkV ph' ws wd')).
Proof.
  intros s ph' wd' ws dd' dl' df' HI Hp Hph Hpr Hph' Hcl Hwd Hwok Hanc.
  destruct HI as [_ Hb Hok Hord Hq Hwq Hwr Hc].
  assert (EP : pend s = s_chan s) by (unfold pend; rewrite Hp, app_nil_r; reflexivity).
  rewrite EP in Hok, Hord.
  constructor; cbn.
  - exists dd', dl', df'. split; [exact Hpr|]. split; [exact Hcl | exact Hwd].
  - exact Hb.
  - intros w Hin. unfold pend in Hin. cbn in Hin. apply in_app_or in Hin as [Hin | Hin]; [apply Hok | apply Hwok]; exact Hin.
  - unfold pend. cbn. apply ordered_app; assumption.
  - intros f Hf. destruct (Hq f Hf) as [data [Hin Hst]]. exists data. split; [exact Hin | apply fstatus_set_v; exact Hst].
  - exact Hwq.
  - exact Hwr.
  - destruct Hc as [[C1 C2] [C3 C4]]. unfold control. cbn. repeat split.
    + intro E. exfalso. apply Hph. apply C1. exact E.
    + intro E. congruence.
    + intro E. congruence.
    + exact (proj1 C4).
    + exact (proj2 C4).
Qed.

Lemma claims_snoc_dir : forall t wd P Q dd dl df d,
  claims t wd P Q dd dl df -> gdir t d \/ (In d wd /\ In (WDir d) P) -> claims t wd P Q (dd ++ [d]) dl df.
Proof.
  intros t wd P Q dd dl df d [H1 [H2 H3]] Hd. repeat split; try assumption.
  intros d' Hin. apply in_app_or in Hin as [Hin | [<- | []]]; [apply H1; exact Hin | exact Hd].
Qed.

Lemma claims_snoc_link : forall t wd P Q dd dl df l dest,
  claims t wd P Q dd dl df -> glink t l dest \/ In (WLink l dest) P -> claims t wd P Q dd (dl ++ [(l, dest)]) df.
Proof.
  intros t wd P Q dd dl df l dest [H1 [H2 H3]] Hd. repeat split; try assumption.
  intros l' dest' Hin. apply in_app_or in Hin as [Hin | [E | []]]; [apply H2; exact Hin | inversion E; subst; exact Hd].
Qed.

Lemma claims_snoc_file : forall t wd P Q dd dl df f data,
  claims t wd P Q dd dl df -> gfile t f data \/ In (WFile f data) P \/ In f Q -> claims t wd P Q dd dl (df ++ [(f, data)]).
Proof.
  intros t wd P Q dd dl df f data [H1 [H2 H3]] Hd. repeat split; try assumption.
  intros f' data' Hin. apply in_app_or in Hin as [Hin | [E | []]]; [apply H3; exact Hin | inversion E; subst; exact Hd].
Qed.

Lemma ordered_nil : forall t, ordered t [].
Proof. intros t P1 w P2 p E. destruct P1; discriminate. Qed.

Lemma inv_emit : forall s w ws,
  Inv s -> v_pend (s_v s) = w :: ws ->
  Inv (mkS (s_fs s) (mkV (v_phase (s_v s)) ws (v_wd (s_v s))) (s_chan s ++ [w]) (s_closed s) (s_h s)
           (s_queued s) (s_wq s) (s_wq_closed s) (s_w s)).
Proof.
  intros s w ws HI Hp. destruct HI as [Hpr Hb Hok Hord Hq Hwq Hwr Hc].
  assert (EP : pend s = (s_chan s ++ [w]) ++ ws) by (unfold pend; rewrite Hp, <- app_assoc; reflexivity).
  constructor; cbn; unfold pend; cbn; try rewrite <- EP; try assumption.
  destruct Hc as [[C1 C2] [C3 [C4 C5]]]. unfold control. cbn. repeat split; try assumption.
  - intro E. rewrite (C3 E) in Hp. discriminate.
  - destruct (s_h s); [exact C4 | |].
    + exfalso. destruct C4 as [X _]. rewrite (C3 (C1 X)) in Hp. discriminate.
    + exfalso. destruct C4 as [_ [X _]]. rewrite (C3 (C1 X)) in Hp. discriminate.
Qed.

Lemma init_ok_base : forall t, init_ok T t = true ->
  exists t', mkdir_all t T = Ok t' /\ base_ok t'.
Proof.
  intros t H. unfold init_ok in H. apply andb_true_iff in H as [H1 H2].
  assert (Hl : lit t T).
  { intros a Ha. rewrite forallb_forall in H1. specialize (H1 a Ha). destruct (node_at t a) as [[| |]|]; congruence. }
  destruct (node_at t T) as [[| |]|] eqn:E; try discriminate.
  - exists t. split; [apply mkdir_all_dir; assumption | split; assumption].
  - assert (HT : T <> []) by (intro HT; rewrite HT in E; discriminate).
    exists (set t T Dir). split; [apply mkdir_all_new; assumption|]. split.
    + intros a Ha. rewrite node_at_set by exact HT.
      destruct (path_eqb T a) eqn:E2; [|apply Hl; exact Ha].
      apply path_eqb_eq in E2. subst a. apply proper_prefix_not_below in Ha. rewrite is_prefix_refl in Ha. discriminate.
    + rewrite node_at_set by exact HT. rewrite path_eqb_refl. reflexivity.
Qed.

Lemma vstep_inv : forall s s', INV s -> vstep s = Some s' -> INV s'.
Proof.
  intros s s' [H0 | HI] Hs.
  - (* MkdirAll(target) *)
    destruct H0 as [Hi [Hv [Hch [Hcl [Hh [Hq [Hwq [Hwc Hw]]]]]]]].
    unfold Healer.vstep in Hs. rewrite Hv in Hs. cbn in Hs.
    destruct (init_ok_base _ Hi) as [t' [E Hb]]. rewrite E in Hs. inversion Hs; subst s'. clear Hs.
    right. constructor; cbn; unfold pend; cbn; rewrite ?Hch, ?Hq, ?Hwq, ?Hw, ?Hh, ?Hcl, ?Hwc.
    + exists [], [], []. split; [cbn; auto|]. split; [|intros d []].
      repeat split; intros; contradiction.
    + exact Hb.
    + intros w [].
    + apply ordered_nil.
    + intros f [].
    + intros f data [].
    + intros q data E2. discriminate.
    + unfold control. cbn. repeat split; intros; congruence.
  - right. pose proof HI as HI'. destruct HI as [[dd [dl [df [Hpr [Hcl Hwd]]]]] Hb Hok Hord Hq Hwq Hwr Hc].
    unfold Healer.vstep in Hs.
    destruct (v_pend (s_v s)) as [|w ws] eqn:Hp.
    2:{ destruct (Nat.ltb (length (s_chan s)) cap); [|discriminate]. inversion Hs; subst s'. apply inv_emit; assumption. }
    assert (EP : pend s = s_chan s) by (unfold pend; rewrite Hp, app_nil_r; reflexivity).
    assert (EP' : s_chan s ++ [] = pend s) by (rewrite app_nil_r; symmetry; exact EP).
    assert (Hup : incl (pend s) (s_chan s ++ [])) by (rewrite EP'; apply incl_refl).
    assert (Hanc0 : forall a, In a (b_dirs b) -> dd = b_dirs b -> gdir (s_fs s) a \/ In (WDir a) (s_chan s)).
    { intros a Ha ->. destruct Hcl as [H1 _]. destruct (H1 a Ha) as [G | [_ Hin]]; [left; exact G | right].
      rewrite EP in Hin. exact Hin. }
    destruct (v_phase (s_v s)) as [|rest|rest|rest| | |e] eqn:Hph; cbn in Hpr; try contradiction.
    + (* directory pass *)
      destruct Hpr as [Ed [-> ->]].
      destruct rest as [|d rest].
      * inversion Hs; subst s'. apply (inv_check s _ _ _ dd [] [] HI' Hp).
        -- congruence.
        -- cbn. rewrite app_nil_r in Ed. auto.
        -- discriminate.
        -- rewrite EP'. exact Hcl.
        -- exact Hwd.
        -- intros w [].
        -- intros w p [].
      * assert (Hdin : In d (b_dirs b)) by (rewrite Ed; apply in_or_app; right; left; reflexivity).
        assert (Hdne : d <> []) by (apply (wf_nonempty b wf), in_all_dir, Hdin).
        assert (Hanc : forall a, In a (prefixes d) -> a <> [] -> In a dd) by (eapply wf_dir_anc; eassumption).
        assert (Hpr' : progress (VDirs rest) (dd ++ [d]) [] []) by (cbn; rewrite <- app_assoc; auto).
        destruct (check_dir_res (s_fs s) (v_wd (s_v s)) d Hb Hdne) as [[E G] | E].
        { intro U. eapply anc_from_claims; eassumption. }
        -- rewrite E in Hs. cbn in Hs. inversion Hs; subst s'.
           apply (inv_check s _ _ _ (dd ++ [d]) [] [] HI' Hp).
           ++ congruence.
           ++ exact Hpr'.
           ++ discriminate.
           ++ rewrite EP'. apply claims_snoc_dir; [exact Hcl | left; exact G].
           ++ intros d' Hin. apply in_or_app. left. apply Hwd. exact Hin.
           ++ intros w [].
           ++ intros w p [].
        -- rewrite E in Hs. cbn in Hs. inversion Hs; subst s'.
           apply (inv_check s _ _ _ (dd ++ [d]) [] [] HI' Hp).
           ++ congruence.
           ++ exact Hpr'.
           ++ discriminate.
           ++ apply claims_snoc_dir.
              ** eapply claims_more; [| | apply incl_refl | exact Hcl].
                 --- apply incl_tl, incl_refl.
                 --- rewrite EP. apply incl_appl, incl_refl.
              ** right. split; [left; reflexivity | apply in_or_app; right; left; reflexivity].
           ++ intros d' [<- | Hin]; apply in_or_app; [right; left; reflexivity | left; apply Hwd; exact Hin].
           ++ intros w [<- | []]. exact Hdin.
           ++ intros w p [<- | []] Hw a Ha Hn. cbn in Hw. inversion Hw; subst p.
              destruct Hcl as [H1 _]. destruct (H1 a (Hanc a Ha Hn)) as [G | [_ Hin]]; [left; exact G | right].
              rewrite EP in Hin. exact Hin.
    + (* symlink pass *)
      destruct Hpr as [-> [El ->]].
      destruct rest as [|[l dest] rest].
      * inversion Hs; subst s'. apply (inv_check s _ _ _ (b_dirs b) dl [] HI' Hp).
        -- congruence.
        -- cbn. rewrite app_nil_r in El. auto.
        -- discriminate.
        -- rewrite EP'. exact Hcl.
        -- exact Hwd.
        -- intros w [].
        -- intros w p [].
      * assert (Hlin : In (l, dest) (b_links b)) by (rewrite El; apply in_or_app; right; left; reflexivity).
        assert (Hlne : l <> []) by (eapply (wf_nonempty b wf), in_all_link, Hlin).
        assert (Hanc : forall a, In a (prefixes l) -> a <> [] -> In a (b_dirs b)).
        { apply (wf_lf_anc b wf). eapply in_lf_link. exact Hlin. }
        assert (Hpr' : progress (VLinks rest) (b_dirs b) (dl ++ [(l, dest)]) []) by (cbn; rewrite <- app_assoc; auto).
        destruct (check_link_res (s_fs s) (v_wd (s_v s)) l dest Hb Hlne) as [[E G] | E].
        { intro U. eapply anc_from_claims; eassumption. }
        -- rewrite E in Hs. cbn in Hs. inversion Hs; subst s'.
           apply (inv_check s _ _ _ (b_dirs b) (dl ++ [(l, dest)]) [] HI' Hp).
           ++ congruence.
           ++ exact Hpr'.
           ++ discriminate.
           ++ rewrite EP'. apply claims_snoc_link; [exact Hcl | left; exact G].
           ++ exact Hwd.
           ++ intros w [].
           ++ intros w p [].
        -- rewrite E in Hs. cbn in Hs. inversion Hs; subst s'.
           apply (inv_check s _ _ _ (b_dirs b) (dl ++ [(l, dest)]) [] HI' Hp).
           ++ congruence.
           ++ exact Hpr'.
           ++ discriminate.
           ++ apply claims_snoc_link.
              ** eapply claims_more; [apply incl_refl | | apply incl_refl | exact Hcl].
                 rewrite EP. apply incl_appl, incl_refl.
              ** right. apply in_or_app; right; left; reflexivity.
           ++ exact Hwd.
           ++ intros w [<- | []]. exact Hlin.
           ++ intros w p [<- | []] Hw a Ha Hn. cbn in Hw. inversion Hw; subst p.
              apply Hanc0; [apply Hanc; assumption | reflexivity].
    + (* file pass *)
      destruct Hpr as [-> [-> Ef]].
      destruct rest as [|[f data] rest].
      * inversion Hs; subst s'. apply (inv_check s _ _ _ (b_dirs b) (b_links b) df HI' Hp).
        -- congruence.
        -- cbn. rewrite app_nil_r in Ef. auto.
        -- discriminate.
        -- rewrite EP'. exact Hcl.
        -- exact Hwd.
        -- intros w [].
        -- intros w p [].
      * assert (Hfin : In (f, data) (b_files b)) by (rewrite Ef; apply in_or_app; right; left; reflexivity).
        assert (Hfne : f <> []) by (eapply (wf_nonempty b wf), in_all_file, Hfin).
        assert (Hanc : forall a, In a (prefixes f) -> a <> [] -> In a (b_dirs b)).
        { apply (wf_lf_anc b wf). eapply in_lf_file. exact Hfin. }
        assert (Hpr' : progress (VFiles rest) (b_dirs b) (b_links b) (df ++ [(f, data)])) by (cbn; rewrite <- app_assoc; auto).
        assert (Hordw : forall w p, In w [WFile f data; WClosed f] -> wpath w = Some p ->
                  forall a, In a (prefixes p) -> a <> [] -> gdir (s_fs s) a \/ In (WDir a) (s_chan s)).
        { intros w p [<- | [<- | []]] Hw a Ha Hn; cbn in Hw; inversion Hw; subst p.
          apply Hanc0; [apply Hanc; assumption | reflexivity]. }
        assert (Hcl' : forall ws, claims (s_fs s) (v_wd (s_v s)) (s_chan s ++ ws) (s_queued s) (b_dirs b) (b_links b) df).
        { intro ws. eapply claims_more; [apply incl_refl | | apply incl_refl | exact Hcl].
          rewrite EP. apply incl_appl, incl_refl. }
        destruct (check_file_res (s_fs s) (v_wd (s_v s)) f data Hb Hfne) as [[E G] | [E | E]].
        { intro U. eapply anc_from_claims; eassumption. }
        -- rewrite E in Hs. cbn in Hs. inversion Hs; subst s'.
           apply (inv_check s _ _ _ (b_dirs b) (b_links b) (df ++ [(f, data)]) HI' Hp).
           ++ congruence.
           ++ exact Hpr'.
           ++ discriminate.
           ++ apply claims_snoc_file; [apply Hcl' | left; exact G].
           ++ exact Hwd.
           ++ intros w [<- | []]. exact I.
           ++ intros w p Hin. apply Hordw. right. exact Hin.
        -- rewrite E in Hs. cbn in Hs. inversion Hs; subst s'.
           apply (inv_check s _ _ _ (b_dirs b) (b_links b) (df ++ [(f, data)]) HI' Hp).
           ++ congruence.
           ++ exact Hpr'.
           ++ discriminate.
           ++ apply claims_snoc_file; [apply Hcl' |].
              right. left. apply in_or_app; right; left; reflexivity.
           ++ exact Hwd.
           ++ intros w [<- | []]. exact Hfin.
           ++ intros w p [<- | []]. apply Hordw. left. reflexivity.
        -- rewrite E in Hs. cbn in Hs. inversion Hs; subst s'.
           apply (inv_check s _ _ _ (b_dirs b) (b_links b) (df ++ [(f, data)]) HI' Hp).
           ++ congruence.
           ++ exact Hpr'.
           ++ discriminate.
           ++ apply claims_snoc_file; [apply Hcl' |].
              right. left. apply in_or_app; right; left; reflexivity.
           ++ exact Hwd.
           ++ intros w [<- | [<- | []]]; [exact Hfin | exact I].
           ++ exact Hordw.
    + (* close(vctx.Wounds) *)
      inversion Hs; subst s'. clear Hs.
      destruct Hc as [[C1 C2] [C3 [C4 C5]]].
      constructor; cbn; unfold pend; cbn; rewrite ?app_nil_r.
      * exists dd, dl, df. split; [exact Hpr|]. split; [rewrite <- EP; exact Hcl | exact Hwd].
      * exact Hb.
      * rewrite <- EP. exact Hok.
      * rewrite <- EP. exact Hord.
      * intros f Hf. destruct (Hq f Hf) as [data [Hin Hst]]. exists data. split; [exact Hin | exact Hst].
      * exact Hwq.
      * exact Hwr.
      * unfold control. cbn. repeat split; auto.
        destruct (s_h s) eqn:Hh; try exact C4.
        -- destruct C4 as [X _]. apply C1 in X. congruence.
        -- destruct C4 as [_ [X _]]. apply C1 in X. congruence.
    + discriminate.
Qed.

(** ---------- healer steps ---------- *)

(** the healer handles the head wound, changing the filesystem from [s_fs s] to [t'] without
    touching any listed file *)
Lemma inv_heal_step : forall s w ch t',
  Inv s -> s_h s = HRun -> s_chan s = w :: ch ->
  (base_ok (s_fs s) -> base_ok t') ->
  (forall d, In d (b_dirs b) -> gdir (s_fs s) d -> gdir t' d) ->
  (forall l dest, In (l, dest) (b_links b) -> glink (s_fs s) l dest -> glink t' l dest) ->
  (forall f data, In (f, data) (b_files b) -> node_at t' (T ++ f) = node_at (s_fs s) (T ++ f)) ->
  handled t' (s_queued s) w ->
  Inv (set_fs_chan_h s t' ch HRun).
Proof.
  intros s w ch t' HI Hh Hch Hbase Hd Hl Hf Hhd.
  destruct HI as [[dd [dl [df [Hpr [Hcl Hwd]]]]] Hb Hok Hord Hq Hwq Hwr Hc].
  destruct (progress_sub _ _ _ _ Hpr) as [Sd [Sl Sf]].
  assert (EP : pend s = w :: (ch ++ v_pend (s_v s))) by (unfold pend; rewrite Hch; reflexivity).
  rewrite EP in *.
  constructor; cbn; unfold pend; cbn.
  - exists dd, dl, df. split; [exact Hpr|]. split; [|exact Hwd].
    apply claims_pop with (w := w); [exact Hhd|].
    eapply claims_tr; try eassumption.
    intros f data Hin G. left. unfold HealLemmas.gfile. rewrite (Hf f data Hin). exact G.
  - apply Hbase. exact Hb.
  - intros w' Hin. apply Hok. right. exact Hin.
  - apply ordered_pop with (w := w).
    + destruct w; [left; exact Hhd | right; intros d X; discriminate | right; intros d X; discriminate | right; intros d X; discriminate].
    + eapply ordered_mono; [exact Hok | exact Hd | exact Hord].
  - intros f Hin. destruct (Hq f Hin) as [data [Hfb Hst]]. exists data. split; [exact Hfb|].
    unfold fstatus in *. cbn. unfold HealLemmas.gfile. rewrite (Hf f data Hfb). exact Hst.
  - intros f data Hin. destruct (Hwq f data Hin) as [Hfb [Ha Hfq]]. split; [exact Hfb|]. split; [|exact Hfq].
    eapply anc_ok_mono; [eapply in_all_file; exact Hfb | exact Hd | exact Ha].
  - intros q data E. destruct (Hwr q data E) as [f [Eq [Hfb [Hfq Hn]]]]. exists f. repeat split; try assumption.
    subst q. rewrite (Hf f data Hfb). exact Hn.
  - destruct Hc as [[C1 C2] [C3 [C4 C5]]]. unfold control. cbn. rewrite Hh in C4. repeat split; assumption.
Qed.

Lemma head_anc : forall s w ch p, Inv s -> s_chan s = w :: ch -> wpath w = Some p -> anc_ok (s_fs s) p.
Proof.
  intros s w ch p HI Hch Hw a Ha Hn.
  destruct (i_ord s HI [] w (ch ++ v_pend (s_v s)) p) with (a := a) as [G | []]; try assumption.
  unfold pend. rewrite Hch. reflexivity.
Qed.

Lemma head_ok : forall s w ch, Inv s -> s_chan s = w :: ch -> wound_ok w.
Proof.
  intros s w ch HI Hch. apply (i_wok s HI). unfold pend. rewrite Hch. left. reflexivity.
Qed.

Lemma dir_not_link : forall d dest, In d (b_dirs b) -> ~ In (d, dest) (b_links b).
Proof. intros d dest Hd Hl. eapply (wf_lf_not_dir b wf); [eapply in_lf_link; exact Hl | exact Hd]. Qed.

Lemma dir_not_file : forall d data, In d (b_dirs b) -> ~ In (d, data) (b_files b).
Proof. intros d data Hd Hl. eapply (wf_lf_not_dir b wf); [eapply in_lf_file; exact Hl | exact Hd]. Qed.

Lemma hstep_inv : forall s s', INV s -> hstep s = Some s' -> INV s'.
Proof.
  intros s s' [H0 | HI] Hs.
  - destruct H0 as [Hi [Hv [Hch [Hcl [Hh [Hq [Hwq [Hwc Hw]]]]]]]].
    unfold Healer.hstep in Hs. rewrite Hh, Hch, Hcl in Hs. discriminate.
  - right. unfold Healer.hstep in Hs.
    destruct (s_h s) eqn:Hh.
    + (* HRun *)
      destruct (s_chan s) as [|w ch] eqn:Hch.
      * (* channel empty: closed => close(fileIndices) *)
        destruct (s_closed s) eqn:Hcl; [|discriminate]. inversion Hs; subst s'. clear Hs.
        destruct HI as [Hpr Hb Hok Hord Hq Hwq Hwr Hc].
        assert (EP : pend s = v_pend (s_v s)) by (unfold pend; rewrite Hch; reflexivity).
        constructor; cbn; unfold pend; cbn; try rewrite <- EP; try assumption.
        destruct Hc as [[C1 C2] [C3 [C4 C5]]]. unfold control. cbn. rewrite Hcl in *. repeat split; try assumption; try reflexivity.
        destruct (s_w s); try exact I. destruct C5 as [X [Y Z]]. rewrite Hh in C4. congruence.
      * pose proof (head_ok s w ch HI Hch) as Hwok.
        destruct w as [d | l dest | f data | f].
        -- (* DIR wound *)
           cbn in Hwok.
           assert (Hne : d <> []) by (apply (wf_nonempty b wf), in_all_dir, Hwok).
           destruct (heal_dir_spec T (s_fs s) d (i_base s HI) (head_anc s _ ch d HI Hch eq_refl) Hne) as [t' [E [G Hf]]].
           rewrite E in Hs. inversion Hs; subst s'. clear Hs.
           pose proof (stable_frame1 d _ _ Hne Hf) as Hst.
           apply (inv_heal_step s (WDir d) ch t' HI Hh Hch).
           ++ apply Hst.
           ++ intros d' Hd' G'. destruct (path_eq_dec d' d) as [-> | Hn]; [exact G | eapply stable_gdir; eassumption].
           ++ intros l dest Hl G'. unfold HealLemmas.glink. rewrite (proj2 Hst); [exact G' | eapply in_all_link; exact Hl |].
              intro X. subst l. eapply dir_not_link; eassumption.
           ++ intros f data Hfb. apply (proj2 Hst); [eapply in_all_file; exact Hfb|].
              intro X. subst f. eapply dir_not_file; eassumption.
           ++ exact G.
        -- (* SYMLINK wound *)
           cbn in Hwok.
           assert (Hne : l <> []) by (eapply (wf_nonempty b wf), in_all_link, Hwok).
           destruct (heal_link_spec T (s_fs s) l dest (i_base s HI) (head_anc s _ ch l HI Hch eq_refl) Hne) as [t' [E [G Hf]]].
           rewrite E in Hs. inversion Hs; subst s'. clear Hs.
           pose proof (stable_frame l _ _ (in_lf_link b l dest Hwok) Hf) as Hst.
           apply (inv_heal_step s (WLink l dest) ch t' HI Hh Hch).
           ++ apply Hst.
           ++ intros d' Hd' G'. eapply stable_gdir; try eassumption.
              intro X. subst d'. eapply dir_not_link; eassumption.
           ++ intros l' dest' Hl G'. destruct (path_eq_dec l' l) as [-> | Hn].
              ** rewrite (links_functional b wf l dest' dest Hl Hwok). exact G.
              ** unfold HealLemmas.glink. rewrite (proj2 Hst); [exact G' | eapply in_all_link; exact Hl | exact Hn].
           ++ intros f data Hfb. apply (proj2 Hst); [eapply in_all_file; exact Hfb|].
              intro X. subst f. eapply (link_not_file b wf); try eassumption. reflexivity.
           ++ exact G.
        -- (* FILE wound *)
           cbn in Hwok.
           destruct (existsb (path_eqb f) (s_queued s)) eqn:Hq.
           ++ (* already queued *)
              inversion Hs; subst s'. clear Hs.
              apply (inv_heal_step s (WFile f data) ch (s_fs s) HI Hh Hch); auto.
              cbn. apply existsb_path_In. exact Hq.
           ++ assert (Hw : forall e, s_w s <> WExit (Err e)).
              { intros e X. destruct (i_ctl s HI) as [_ [_ [_ C5]]]. rewrite X in C5. destruct C5 as [C5 _]. discriminate. }
              assert (Hs' : s' = mkS (s_fs s) (s_v s) ch (s_closed s) HRun (f :: s_queued s)
                                     (s_wq s ++ [(f, data)]) (s_wq_closed s) (s_w s)).
              { destruct (s_w s) as [| |[|e]] eqn:Ew; try (inversion Hs; reflexivity). exfalso. eapply Hw. reflexivity. }
              subst s'. clear Hs.
              pose proof (head_anc s _ ch f HI Hch eq_refl) as Hanc.
              destruct HI as [[dd [dl [df [Hpr [Hcl Hwd]]]]] Hb Hok Hord Hqd Hwq Hwr Hc].
              assert (EP : pend s = WFile f data :: (ch ++ v_pend (s_v s))) by (unfold pend; rewrite Hch; reflexivity).
              rewrite EP in *.
              constructor; cbn; unfold pend; cbn.
              ** exists dd, dl, df. split; [exact Hpr|]. split; [|exact Hwd].
                 apply claims_pop with (w := WFile f data); [cbn; left; reflexivity|].
                 eapply claims_more; [apply incl_refl | apply incl_refl | | exact Hcl]. apply incl_tl, incl_refl.
              ** exact Hb.
              ** intros w' Hin. apply Hok. right. exact Hin.
              ** apply ordered_pop with (w := WFile f data); [right; intros d X; discriminate | exact Hord].
              ** intros f' [<- | Hin].
                 --- exists data. split; [exact Hwok|]. left. cbn. apply in_or_app. right. left. reflexivity.
                 --- destruct (Hqd f' Hin) as [data' [Hfb Hst]]. exists data'. split; [exact Hfb|].
                     destruct Hst as [A | [B | C]]; [left; cbn; apply in_or_app; left; exact A | right; left; exact B | right; right; exact C].
              ** intros f' data' Hin. apply in_app_or in Hin as [Hin | [X | []]].
                 --- destruct (Hwq f' data' Hin) as [A [B C]]. repeat split; try assumption. right. exact C.
                 --- inversion X; subst. repeat split; try assumption. left. reflexivity.
              ** intros q data' E. destruct (Hwr q data' E) as [f' [Eq [Hfb [Hfq Hn]]]]. exists f'. repeat split; try assumption.
                 right. exact Hfq.
              ** destruct Hc as [[C1 C2] [C3 [C4 C5]]]. unfold control. cbn. rewrite Hh in C4. repeat split; try assumption.
                 destruct (s_w s); try exact I. destruct C5 as [X [Y Z]]. congruence.
        -- (* CLOSED_FILE *)
           inversion Hs; subst s'. clear Hs.
           apply (inv_heal_step s (WClosed f) ch (s_fs s) HI Hh Hch); auto; exact I.
    + (* HWait *)
      destruct (s_w s) as [| |r] eqn:Hw; try discriminate. inversion Hs; subst s'. clear Hs.
      destruct HI as [Hpr Hb Hok Hord Hq Hwq Hwr Hc].
      constructor; cbn; unfold pend; cbn; try assumption.
      destruct Hc as [[C1 C2] [C3 [C4 C5]]]. unfold control. cbn. rewrite Hh in C4. rewrite Hw in *.
      destruct C4 as [X [Y Z]]. destruct C5 as [U [V W]]. subst r. repeat split; assumption.
    + discriminate.
Qed.

(** ---------- heal-worker steps ---------- *)

Lemma wstep_inv : forall s s', INV s -> wstep s = Some s' -> INV s'.
Proof.
  intros s s' [H0 | HI] Hs.
  - destruct H0 as [Hi [Hv [Hch [Hcl [Hh [Hq [Hwq [Hwc Hw]]]]]]]].
    unfold Healer.wstep in Hs. rewrite Hw, Hwq, Hwc in Hs. discriminate.
  - right. unfold Healer.wstep in Hs.
    destruct (s_w s) as [|q data|r] eqn:Hw.
    + destruct (s_wq s) as [|[f data] wq'] eqn:Hwq.
      * (* fileIndices closed and empty: the worker returns *)
        destruct (s_wq_closed s) eqn:Hwc; [|discriminate]. inversion Hs; subst s'. clear Hs.
        destruct HI as [Hpr Hb Hok Hord Hq Hwqi Hwr Hc].
        constructor; cbn; unfold pend; cbn; try assumption.
        -- intros f Hin. destruct (Hq f Hin) as [data [Hfb Hst]]. exists data. split; [exact Hfb|].
           unfold fstatus in *. cbn. rewrite Hwq, Hw in Hst. destruct Hst as [[] | [[X _] | C]]; [discriminate | right; right; exact C].
        -- intros f data []. 
        -- intros q data X. discriminate.
        -- destruct Hc as [[C1 C2] [C3 [C4 C5]]]. unfold control. cbn. repeat split; try assumption.
           destruct (s_h s); [congruence | exact C4 |]. destruct C4 as [_ [_ [_ [_ X]]]]. congruence.
      * (* GetWriter *)
        destruct (i_wq s HI f data) as [Hfb [Hanc Hfq]]; [rewrite Hwq; left; reflexivity|].
        assert (Hne : f <> []) by (eapply (wf_nonempty b wf), in_all_file, Hfb).
        destruct (get_writer_spec T (s_fs s) f (i_base s HI) Hanc Hne) as [t' [E [Hn Hf]]].
        rewrite E in Hs. inversion Hs; subst s'. clear Hs.
        pose proof (stable_frame f _ _ (in_lf_file b f data Hfb) Hf) as Hst.
        assert (Hd : forall d, In d (b_dirs b) -> gdir (s_fs s) d -> gdir t' d).
        { intros d Hd G. eapply stable_gdir; try eassumption. intro X. subst d. eapply dir_not_file; eassumption. }
        destruct HI as [[dd [dl [df [Hpr [Hcl Hwd]]]]] Hb Hok Hord Hq Hwqi Hwr Hc].
        destruct (progress_sub _ _ _ _ Hpr) as [Sd [Sl Sf]].
        constructor; cbn; unfold pend; cbn.
        -- exists dd, dl, df. split; [exact Hpr|]. split; [|exact Hwd].
           eapply claims_tr; try eassumption.
           ++ intros l dest Hl G. unfold HealLemmas.glink. rewrite (proj2 Hst); [exact G | eapply in_all_link; exact Hl |].
              intro X. subst l. eapply (link_not_file b wf); try eassumption. reflexivity.
           ++ intros f' data' Hfb' G. destruct (path_eq_dec f' f) as [-> | Hn'']; [right; exact Hfq | left].
              unfold HealLemmas.gfile. rewrite (proj2 Hst); [exact G | eapply in_all_file; exact Hfb' | exact Hn''].
        -- apply Hst. exact Hb.
        -- exact Hok.
        -- eapply ordered_mono; [exact Hok | exact Hd | exact Hord].
        -- intros f' Hin. destruct (Hq f' Hin) as [data' [Hfb' Hs']]. exists data'. split; [exact Hfb'|].
           unfold fstatus. cbn. destruct (path_eq_dec f' f) as [-> | Hn''].
           ++ right. left. rewrite (files_functional b wf f data' data Hfb' Hfb). split; [reflexivity | exists []; exact Hn].
           ++ unfold fstatus in Hs'. rewrite Hwq, Hw in Hs'. destruct Hs' as [[X | A] | [[X _] | C]].
              ** inversion X. congruence.
              ** left. exact A.
              ** discriminate.
              ** right. right. unfold HealLemmas.gfile. rewrite (proj2 Hst); [exact C | eapply in_all_file; exact Hfb' | exact Hn''].
        -- intros f' data' Hin. destruct (Hwqi f' data') as [A [B C]]; [rewrite Hwq; right; exact Hin|].
           repeat split; try assumption. eapply anc_ok_mono; [eapply in_all_file; exact A | exact Hd | exact B].
        -- intros q data' X. inversion X; subst. exists f. repeat split; try assumption. exists []. exact Hn.
        -- destruct Hc as [[C1 C2] [C3 [C4 C5]]]. unfold control. cbn. repeat split; try assumption.
           destruct (s_h s); try assumption. destruct C4 as [_ [_ [_ [_ X]]]]. congruence.
    + (* ctxcopy.Do: the content is written *)
      inversion Hs; subst s'. clear Hs.
      destruct (i_writing s HI q data Hw) as [f [Eq [Hfb [Hfq [d0 Hn]]]]]. subst q.
      assert (Hne : f <> []) by (eapply (wf_nonempty b wf), in_all_file, Hfb).
      destruct (write_fd_spec (s_fs s) (T ++ f) data d0 (app_nonempty T f Hne) Hn) as [Hn' Hf].
      set (t' := write_fd (s_fs s) (T ++ f) data) in *.
      pose proof (stable_frame f _ _ (in_lf_file b f data Hfb) Hf) as Hst.
      assert (Hd : forall d, In d (b_dirs b) -> gdir (s_fs s) d -> gdir t' d).
      { intros d Hd G. eapply stable_gdir; try eassumption. intro X. subst d. eapply dir_not_file; eassumption. }
      destruct HI as [[dd [dl [df [Hpr [Hcl Hwd]]]]] Hb Hok Hord Hq Hwqi Hwr Hc].
      destruct (progress_sub _ _ _ _ Hpr) as [Sd [Sl Sf]].
      constructor; cbn; unfold pend; cbn.
      * exists dd, dl, df. split; [exact Hpr|]. split; [|exact Hwd].
        eapply claims_tr; try eassumption.
        -- intros l dest Hl G. unfold HealLemmas.glink. rewrite (proj2 Hst); [exact G | eapply in_all_link; exact Hl |].
           intro X. subst l. eapply (link_not_file b wf); try eassumption. reflexivity.
        -- intros f' data' Hfb' G. destruct (path_eq_dec f' f) as [-> | Hn'']; [right; exact Hfq | left].
           unfold HealLemmas.gfile. rewrite (proj2 Hst); [exact G | eapply in_all_file; exact Hfb' | exact Hn''].
      * apply Hst. exact Hb.
      * exact Hok.
      * eapply ordered_mono; [exact Hok | exact Hd | exact Hord].
      * intros f' Hin. destruct (Hq f' Hin) as [data' [Hfb' Hs']]. exists data'. split; [exact Hfb'|].
        unfold fstatus. cbn. destruct (path_eq_dec f' f) as [-> | Hn''].
        -- right. right. rewrite (files_functional b wf f data' data Hfb' Hfb). exact Hn'.
        -- unfold fstatus in Hs'. rewrite Hw in Hs'. destruct Hs' as [A | [[X _] | C]].
           ++ left. exact A.
           ++ inversion X. apply app_inj_T in H0. congruence.
           ++ right. right. unfold HealLemmas.gfile. rewrite (proj2 Hst); [exact C | eapply in_all_file; exact Hfb' | exact Hn''].
      * intros f' data' Hin. destruct (Hwqi f' data' Hin) as [A [B C]].
        repeat split; try assumption. eapply anc_ok_mono; [eapply in_all_file; exact A | exact Hd | exact B].
      * intros q data' X. discriminate.
      * destruct Hc as [[C1 C2] [C3 [C4 C5]]]. unfold control. cbn. repeat split; try assumption.
        destruct (s_h s); try assumption. destruct C4 as [_ [_ [_ [_ X]]]]. congruence.
    + discriminate.
Qed.

Lemma step_inv : forall s i s', INV s -> step s i = Some s' -> INV s'.
Proof.
  intros s [] s' HI Hs; cbn in Hs; [eapply vstep_inv | eapply hstep_inv | eapply wstep_inv]; eassumption.
Qed.

(** ---------- what the invariant gives when [Validate] has returned ---------- *)

Lemma inv_not_fail : forall s, INV s -> forall e, v_phase (s_v s) <> VFail e.
Proof.
  intros s [H0 | HI] e X.
  - destruct H0 as [_ [Hv _]]. rewrite Hv in X. discriminate.
  - destruct (i_prog s HI) as [dd [dl [df [Hpr _]]]]. rewrite X in Hpr. exact Hpr.
Qed.

Lemma terminal_restored : forall s, INV s -> terminal s = true ->
  result s = Some (Ok tt) /\ restored b T (s_fs s).
Proof.
  intros s HI Ht. pose proof (inv_not_fail s HI) as Hnf. destruct HI as [H0 | HI].
  { destruct H0 as [_ [Hv _]]. unfold terminal in Ht. rewrite Hv in Ht. discriminate. }
  unfold terminal in Ht. unfold result.
  destruct (v_phase (s_v s)) eqn:Hph; try discriminate; [| exfalso; eapply Hnf; reflexivity].
  destruct (s_h s) as [| |r] eqn:Hh; try discriminate.
  destruct HI as [[dd [dl [df [Hpr [Hcl Hwd]]]]] Hb Hok Hord Hq Hwq Hwr Hc].
  destruct Hc as [[C1 C2] [C3 [C4 C5]]]. rewrite Hh in C4. destruct C4 as [-> [Hcld [Hch [Hwc Hw]]]].
  rewrite Hw in C5. destruct C5 as [_ [Hwqe _]].
  split; [reflexivity|].
  assert (EP : pend s = []) by (unfold pend; rewrite Hch, (C3 Hph); reflexivity).
  rewrite EP in Hcl. rewrite Hph in Hpr. cbn in Hpr. destruct Hpr as [-> [-> ->]].
  destruct Hcl as [H1 [H2 H3]].
  assert (Gd : forall d, In d (b_dirs b) -> gdir (s_fs s) d).
  { intros d Hd. destruct (H1 d Hd) as [G | [_ []]]. exact G. }
  assert (Hlit : forall p, In p (all_paths b) -> lit (s_fs s) (T ++ p)).
  { intros p Hp. apply anc_lit; [exact Hb|]. intros a Ha Hn. apply Gd. eapply wf_anc; eassumption. }
  repeat split.
  - intros d Hd. rewrite lstat_lit by (apply Hlit, in_all_dir, Hd). rewrite (Gd d Hd). reflexivity.
  - intros l dest Hl. rewrite readlink_lit by (eapply Hlit, in_all_link, Hl).
    destruct (H2 l dest Hl) as [G | []]. rewrite G. reflexivity.
  - rewrite lstat_lit by (eapply Hlit, in_all_file, H).
    assert (G : gfile (s_fs s) f data).
    { destruct (H3 f data H) as [G | [[] | Hfq]]; [exact G|].
      destruct (Hq f Hfq) as [data' [Hfb Hst]]. rewrite (files_functional b wf f data data' H Hfb).
      destruct Hst as [A | [[X _] | C]]; [rewrite Hwqe in A; destruct A | congruence | exact C]. }
    rewrite G. reflexivity.
  - assert (G : gfile (s_fs s) f data).
    { destruct (H3 f data H) as [G | [[] | Hfq]]; [exact G|].
      destruct (Hq f Hfq) as [data' [Hfb Hst]]. rewrite (files_functional b wf f data data' H Hfb).
      destruct Hst as [A | [[X _] | C]]; [rewrite Hwqe in A; destruct A | congruence | exact C]. }
    rewrite read_file_lit; [rewrite G; reflexivity | eapply Hlit, in_all_file, H | intros d0; rewrite G; discriminate].
Qed.

(** ---------- no deadlock ---------- *)

Lemma hstep_run_some : forall s w ch, s_h s = HRun -> s_chan s = w :: ch -> hstep s <> None.
Proof.
  intros s w ch Hh Hch. unfold Healer.hstep. rewrite Hh, Hch.
  destruct w as [d | l dest | f data | f].
  - destruct (heal_dir T (s_fs s) d); discriminate.
  - destruct (heal_link T (s_fs s) l dest); discriminate.
  - destruct (existsb (path_eqb f) (s_queued s)); [discriminate|].
    destruct (s_w s) as [| |[|]]; discriminate.
  - discriminate.
Qed.

Lemma no_deadlock : forall s, INV s -> (forall i, step s i = None) -> terminal s = true.
Proof.
  intros s HI Hn. pose proof (Hn TV) as Hv. pose proof (Hn TH) as Hh. pose proof (Hn TW) as Hw. cbn in Hv, Hh, Hw.
  destruct HI as [H0 | HI].
  { destruct H0 as [_ [Hvs _]]. unfold Healer.vstep in Hv. rewrite Hvs in Hv. cbn in Hv. destruct (mkdir_all (s_fs s) T); discriminate. }
  destruct (i_ctl s HI) as [[C1 C2] [C3 [C4 C5]]].
  unfold Healer.vstep in Hv.
  destruct (v_pend (s_v s)) as [|w ws] eqn:Hp.
  - destruct (v_phase (s_v s)) as [|r|r|r| | |e] eqn:Hph.
    + destruct (mkdir_all (s_fs s) T); discriminate.
    + destruct r; discriminate.
    + destruct r as [|[? ?] ?]; discriminate.
    + destruct r as [|[? ?] ?]; discriminate.
    + discriminate.
    + (* VDone *)
      pose proof (C2 eq_refl) as Hcl.
      unfold terminal. rewrite Hph.
      destruct (s_h s) eqn:Ehh; [| | reflexivity]; exfalso.
      * unfold Healer.hstep in Hh. rewrite Ehh, Hcl in Hh.
        destruct (s_chan s) as [|w ch] eqn:Hch; [discriminate|].
        eapply (hstep_run_some s w ch); try eassumption. unfold Healer.hstep. rewrite Ehh, Hch, ?Hcl. exact Hh.
      * unfold Healer.hstep in Hh. rewrite Ehh in Hh. destruct C4 as [_ [_ Hwc]].
        unfold Healer.wstep in Hw.
        destruct (s_w s) as [|q data|r] eqn:Ew; [| discriminate | discriminate].
        destruct (s_wq s) as [|[f data] wq']; [rewrite Hwc in Hw; discriminate|].
        destruct (get_writer T (s_fs s) f) as [[? ?]|]; discriminate.
    + exfalso. eapply inv_not_fail; [right; exact HI | exact Hph].
  - (* a wound is waiting for room in the channel *)
    exfalso. destruct (Nat.ltb (length (s_chan s)) cap) eqn:Hlt; [discriminate|].
    apply Nat.ltb_ge in Hlt.
    destruct (s_chan s) as [|w' ch] eqn:Hch; [cbn in Hlt; lia|].
    destruct (s_h s) eqn:Ehh.
    + eapply (hstep_run_some s w' ch); eassumption.
    + destruct C4 as [X _]. discriminate (C3 (C1 X)).
    + destruct C4 as [_ [X _]]. discriminate (C3 (C1 X)).
Qed.

End Proofs.
