(** C06 proofs, part 2: the invariant of the validator / healer / heal-worker transition
    system for the repaired code ([fixed]), its preservation by every step of every thread,
    what it gives in a terminal state, progress, and the termination measure. *)
From Wharf Require Import Base.Prelude FS.Tree FS.TreeProofs FS.Ops FS.OpsProofs
     Heal.Validator Heal.Healer Heal.HealLemmas.

Section Proofs.
Variable cap : nat.
Hypothesis cap_pos : 0 < cap.
Variable b : build.
Hypothesis wf : wf_build b = true.
Variable T : path.

Local Notation gdir := (gdir T).
Local Notation glink := (glink T).
Local Notation gfile := (gfile T).
Local Notation base_ok := (base_ok T).
Local Notation anc_ok := (anc_ok T).
Local Notation vstep := (vstep fixed cap b T).
Local Notation hstep := (hstep T).
Local Notation wstep := (wstep T).
Local Notation step := (step fixed cap b T).

Definition wpath (w : wound) : option path :=
  match w with WDir p => Some p | WLink p _ => Some p | WFile p _ => Some p | WClosed _ => None end.

Definition wound_ok (w : wound) : Prop :=
  match w with
  | WDir d => In d (b_dirs b)
  | WLink l dest => In (l, dest) (b_links b)
  | WFile f data => In (f, data) (b_files b)
  | WClosed _ => True
  end.

(** wounds not yet processed by the healer, oldest first *)
Definition pend (s : state) : list wound := s_chan s ++ v_pend (s_v s).

(** when the healer gets to a wound, the directories above its entry have been dealt with *)
Definition ordered (t : tree) (P : list wound) : Prop :=
  forall P1 w P2 p, P = P1 ++ w :: P2 -> wpath w = Some p ->
  forall a, In a (prefixes p) -> a <> [] -> gdir t a \/ In (WDir a) P1.

(** how far the validator is *)
Definition progress (ph : vphase) (dd : list path) (dl : list (path * list comp)) (df : list (path * list N)) : Prop :=
  match ph with
  | VInit | VFail _ => False
  | VDirs rest => b_dirs b = dd ++ rest /\ dl = [] /\ df = []
  | VLinks rest => dd = b_dirs b /\ b_links b = dl ++ rest /\ df = []
  | VFiles rest => dd = b_dirs b /\ dl = b_links b /\ b_files b = df ++ rest
  | VClose | VDone => dd = b_dirs b /\ dl = b_links b /\ df = b_files b
  end.

(** a queued file is waiting, being written, or done *)
Definition fstatus (s : state) (f : path) (data : list N) : Prop :=
  In (f, data) (s_wq s) \/
  (s_w s = WWriting (T ++ f) data /\ exists d0, node_at (s_fs s) (T ++ f) = Some (File d0)) \/
  gfile (s_fs s) f data.

Definition control (s : state) : Prop :=
  (s_closed s = true <-> v_phase (s_v s) = VDone) /\
  (v_phase (s_v s) = VDone -> v_pend (s_v s) = []) /\
  match s_h s with
  | HRun => s_wq_closed s = false
  | HWait => s_closed s = true /\ s_chan s = [] /\ s_wq_closed s = true
  | HDone r => r = Ok tt /\ s_closed s = true /\ s_chan s = [] /\ s_wq_closed s = true /\ s_w s = WExit (Ok tt)
  end /\
  match s_w s with
  | WExit r => r = Ok tt /\ s_wq s = [] /\ s_wq_closed s = true
  | _ => True
  end.

(** every entry already checked is as signed, or its wound is still on its way to the healer,
    or (files) it is in the healer's set *)
Definition claims (t : tree) (wd : list path) (P : list wound) (Q : list path)
           (dd : list path) (dl : list (path * list comp)) (df : list (path * list N)) : Prop :=
  (forall d, In d dd -> gdir t d \/ (In d wd /\ In (WDir d) P)) /\
  (forall l dest, In (l, dest) dl -> glink t l dest \/ In (WLink l dest) P) /\
  (forall f data, In (f, data) df -> gfile t f data \/ In (WFile f data) P \/ In f Q).

Record Inv (s : state) : Prop := mkInv {
  i_prog : exists dd dl df,
      progress (v_phase (s_v s)) dd dl df /\
      claims (s_fs s) (v_wd (s_v s)) (pend s) (s_queued s) dd dl df /\
      (forall d, In d (v_wd (s_v s)) -> In d dd);
  i_base : base_ok (s_fs s);
  i_wok : forall w, In w (pend s) -> wound_ok w;
  i_ord : ordered (s_fs s) (pend s);
  i_queued : forall f, In f (s_queued s) -> exists data, In (f, data) (b_files b) /\ fstatus s f data;
  i_wq : forall f data, In (f, data) (s_wq s) -> In (f, data) (b_files b) /\ anc_ok (s_fs s) f;
  i_writing : forall q data, s_w s = WWriting q data ->
      exists f, q = T ++ f /\ In (f, data) (b_files b) /\ In f (s_queued s) /\
                exists d0, node_at (s_fs s) q = Some (File d0);
  i_ctl : control s }.

(** before [os.MkdirAll(target)] *)
Definition Inv0 (s : state) : Prop :=
  init_ok T (s_fs s) = true /\ s_v s = mkV VInit [] [] /\ s_chan s = [] /\ s_closed s = false /\
  s_h s = HRun /\ s_queued s = [] /\ s_wq s = [] /\ s_wq_closed s = false /\ s_w s = WIdle.

Definition INV (s : state) : Prop := Inv0 s \/ Inv s.

(** ---------- monotonicity of the filesystem changes ---------- *)

(** [t'] keeps the base, every listed directory that was good, and every other listed entry
    except [e] *)
Definition stable (e : path) (t t' : tree) : Prop :=
  (base_ok t -> base_ok t') /\
  (forall p, In p (all_paths b) -> p <> e -> node_at t' (T ++ p) = node_at t (T ++ p)).

Lemma app_inj_T : forall p q : path, T ++ p = T ++ q -> p = q.
Proof. intros p q H. apply app_inv_head in H. exact H. Qed.

Lemma is_prefix_T : forall p q, is_prefix (T ++ p) (T ++ q) = is_prefix p q.
Proof.
  induction T as [|x T' IH]; intros p q; [reflexivity|].
  cbn. rewrite N.eqb_refl. apply IH.
Qed.

Lemma base_frame : forall e t t', e <> [] -> frame (T ++ e) t t' -> base_ok t -> base_ok t'.
Proof.
  intros e t t' He Hf [Hl Hd]. split.
  - intros a Ha. rewrite Hf; [apply Hl; exact Ha|].
    apply is_prefix_false. intros [r E]. apply prefixes_spec in Ha as [r' [Hr HT]].
    rewrite E in HT. rewrite <- !app_assoc in HT. rewrite <- (app_nil_r T) in HT at 1.
    apply app_inv_head in HT. destruct e; [congruence | discriminate].
  - rewrite Hf; [exact Hd|]. apply is_prefix_false. intros [r E].
    rewrite <- app_assoc in E. rewrite <- (app_nil_r T) in E at 1. apply app_inv_head in E.
    destruct e; [congruence | discriminate].
Qed.

Lemma base_frame1 : forall e t t', e <> [] -> frame1 (T ++ e) t t' -> base_ok t -> base_ok t'.
Proof.
  intros e t t' He Hf [Hl Hd]. split.
  - intros a Ha. rewrite Hf; [apply Hl; exact Ha|].
    intro E. apply prefixes_spec in Ha as [r' [Hr HT]]. rewrite E in HT.
    rewrite <- !app_assoc in HT. rewrite <- (app_nil_r T) in HT at 1.
    apply app_inv_head in HT. destruct e; [congruence | discriminate].
  - rewrite Hf; [exact Hd|]. intro E. rewrite <- (app_nil_r T) in E at 1. apply app_inv_head in E. congruence.
Qed.

Lemma stable_frame1 : forall e t t', e <> [] -> frame1 (T ++ e) t t' -> stable e t t'.
Proof.
  intros e t t' He Hf. split; [apply (base_frame1 e); assumption|].
  intros p _ Hp. apply Hf. intro E. apply app_inj_T in E. contradiction.
Qed.

(** a symlink or file entry: nothing else listed is at or below it *)
Lemma stable_frame : forall e t t', In e (map fst (b_links b) ++ map fst (b_files b)) ->
  frame (T ++ e) t t' -> stable e t t'.
Proof.
  intros e t t' He Hf.
  assert (Hne : e <> []). { apply (wf_nonempty b wf). unfold all_paths. apply in_or_app. right. exact He. }
  split; [apply (base_frame e); assumption|].
  intros p Hp Hpe. apply Hf. rewrite is_prefix_T.
  destruct (is_prefix e p) eqn:E; [|reflexivity]. exfalso. apply Hpe. eapply wf_no_below; eassumption.
Qed.

Lemma stable_gdir : forall e t t' d, stable e t t' -> In d (b_dirs b) -> d <> e -> gdir t d -> gdir t' d.
Proof.
  intros e t t' d [_ Hs] Hd Hne G. unfold HealLemmas.gdir. rewrite Hs; [exact G | apply in_all_dir; exact Hd | exact Hne].
Qed.

Lemma ordered_mono : forall t t' P,
  (forall w, In w P -> wound_ok w) ->
  (forall a, In a (b_dirs b) -> gdir t a -> gdir t' a) ->
  ordered t P -> ordered t' P.
Proof.
  intros t t' P Hok Hm Ho P1 w P2 p E Hw a Ha Hn.
  destruct (Ho P1 w P2 p E Hw a Ha Hn) as [G | Hin]; [left | right; exact Hin].
  apply Hm; [|exact G].
  assert (Hwok : wound_ok w). { apply Hok. rewrite E. apply in_or_app. right. left. reflexivity. }
  assert (Hp : In p (all_paths b)).
  { destruct w; cbn in Hw; inversion Hw; subst; cbn in Hwok.
    - apply in_all_dir. exact Hwok.
    - eapply in_all_link; exact Hwok.
    - eapply in_all_file; exact Hwok. }
  eapply wf_anc; eassumption.
Qed.

Lemma anc_ok_mono : forall t t' p, In p (all_paths b) ->
  (forall a, In a (b_dirs b) -> gdir t a -> gdir t' a) -> anc_ok t p -> anc_ok t' p.
Proof.
  intros t t' p Hp Hm Ha a Hin Hn. apply Hm; [|apply Ha; assumption]. eapply wf_anc; eassumption.
Qed.

(** ---------- lemmas about [claims] and [ordered] ---------- *)

Lemma progress_sub : forall ph dd dl df, progress ph dd dl df ->
  incl dd (b_dirs b) /\ incl dl (b_links b) /\ incl df (b_files b).
Proof.
  intros ph dd dl df H. destruct ph; cbn in H; try contradiction.
  - destruct H as [E [-> ->]]. rewrite E. repeat split; try (intros x []). apply incl_appl, incl_refl.
  - destruct H as [-> [E ->]]. rewrite E. repeat split; try (intros x []); [apply incl_refl | apply incl_appl, incl_refl].
  - destruct H as [-> [-> E]]. rewrite E. repeat split; try apply incl_refl. apply incl_appl, incl_refl.
  - destruct H as [-> [-> ->]]. repeat split; apply incl_refl.
  - destruct H as [-> [-> ->]]. repeat split; apply incl_refl.
Qed.

Lemma claims_more : forall t wd wd' P P' Q Q' dd dl df,
  incl wd wd' -> incl P P' -> incl Q Q' ->
  claims t wd P Q dd dl df -> claims t wd' P' Q' dd dl df.
Proof.
  intros t wd wd' P P' Q Q' dd dl df Hw HP HQ [H1 [H2 H3]]. repeat split.
  - intros d Hd. destruct (H1 d Hd) as [G | [A B]]; [left; exact G | right; split; [apply Hw, A | apply HP, B]].
  - intros l dest Hl. destruct (H2 l dest Hl) as [G | A]; [left; exact G | right; apply HP, A].
  - intros f data Hf. destruct (H3 f data Hf) as [G | [A | B]]; [left; exact G | right; left; apply HP, A | right; right; apply HQ, B].
Qed.

Definition handled (t : tree) (Q : list path) (w : wound) : Prop :=
  match w with
  | WDir d => gdir t d
  | WLink l dest => glink t l dest
  | WFile f data => In f Q
  | WClosed _ => True
  end.

Lemma claims_pop : forall t wd w P Q dd dl df,
  handled t Q w -> claims t wd (w :: P) Q dd dl df -> claims t wd P Q dd dl df.
Proof.
  intros t wd w P Q dd dl df Hh [H1 [H2 H3]]. repeat split.
  - intros d Hd. destruct (H1 d Hd) as [G | [A [B | B]]]; [left; exact G | | right; split; assumption].
    subst. left. exact Hh.
  - intros l dest Hl. destruct (H2 l dest Hl) as [G | [B | B]]; [left; exact G | | right; exact B].
    subst. left. exact Hh.
  - intros f data Hf. destruct (H3 f data Hf) as [G | [[B | B] | C]]; [left; exact G | | right; left; exact B | right; right; exact C].
    subst. right. right. exact Hh.
Qed.

(** a filesystem change that keeps every listed entry other than [e], keeps good directories
    good, and keeps [e] itself good unless it is a file in the healer's set *)
Lemma claims_fs : forall e t t' wd P Q dd dl df,
  incl dd (b_dirs b) -> incl dl (b_links b) -> incl df (b_files b) ->
  stable e t t' ->
  (gdir t e -> gdir t' e) ->
  (forall dest, glink t e dest -> glink t' e dest) ->
  (forall data, In (e, data) (b_files b) -> gfile t e data -> gfile t' e data \/ In e Q) ->
  claims t wd P Q dd dl df -> claims t' wd P Q dd dl df.
Proof.
  intros e t t' wd P Q dd dl df Sd Sl Sf [_ Hs] Hd Hl Hf [H1 [H2 H3]]. repeat split.
  - intros d Hin. destruct (H1 d Hin) as [G | A]; [left | right; exact A].
    destruct (path_eq_dec d e) as [-> | Hne]; [apply Hd; exact G|].
    unfold HealLemmas.gdir. rewrite Hs; [exact G | apply in_all_dir, Sd, Hin | exact Hne].
  - intros l dest Hin. destruct (H2 l dest Hin) as [G | A]; [left | right; exact A].
    destruct (path_eq_dec l e) as [-> | Hne]; [apply Hl; exact G|].
    unfold HealLemmas.glink. rewrite Hs; [exact G | eapply in_all_link, Sl, Hin | exact Hne].
  - intros f data Hin. destruct (H3 f data Hin) as [G | A]; [| right; exact A].
    destruct (path_eq_dec f e) as [-> | Hne].
    + destruct (Hf data (Sf _ Hin) G) as [G' | Q']; [left; exact G' | right; right; exact Q'].
    + left. unfold HealLemmas.gfile. rewrite Hs; [exact G | eapply in_all_file, Sf, Hin | exact Hne].
Qed.

Lemma ordered_pop : forall t w P, handled t [] w \/ (forall d, w <> WDir d) -> ordered t (w :: P) -> ordered t P.
Proof.
  intros t w P Hh Ho P1 w' P2 p E Hw a Ha Hn.
  destruct (Ho (w :: P1) w' P2 p) with (a := a) as [G | [Hin | Hin]]; try assumption.
  - rewrite E. reflexivity.
  - left. exact G.
  - subst w. destruct Hh as [Hh | Hh]; [left; exact Hh | exfalso; eapply Hh; reflexivity].
  - right. exact Hin.
Qed.

Lemma ordered_app : forall t P ws,
  ordered t P ->
  (forall w p, In w ws -> wpath w = Some p -> forall a, In a (prefixes p) -> a <> [] -> gdir t a \/ In (WDir a) P) ->
  ordered t (P ++ ws).
Proof.
  intros t P ws Ho Hn P1 w P2 p E Hw a Ha Hne.
  destruct (split_app _ _ _ _ _ _ (eq_sym E)) as [[P2' E2] | [W1 [W2 [E1 E2]]]].
  - eapply Ho; eassumption.
  - destruct (Hn w p) with (a := a) as [G | Hin]; try assumption.
    + rewrite E2. apply in_or_app. right. left. reflexivity.
    + left. exact G.
    + right. rewrite E1. apply in_or_app. left. exact Hin.
Qed.

(** ---------- the validator's checks under the invariant ---------- *)

Lemma dest_eqb_eq : forall a c, dest_eqb a c = true -> a = c.
Proof.
  unfold dest_eqb. induction a as [|x a IH]; destruct c as [|y c]; cbn; intro H; try congruence.
  apply andb_true_iff in H as [H1 H2]. apply IH in H2. subst.
  destruct x, y; cbn in H1; try discriminate; [reflexivity | apply N.eqb_eq in H1; subst; reflexivity].
Qed.

Lemma under_wd_false : forall wd p, under_wd fixed wd p = false ->
  forall a, In a (prefixes p) -> a <> [] -> ~ In a wd.
Proof.
  intros wd p H a Ha Hn Hin. unfold under_wd in H. cbn in H.
  assert (E : existsb (fun a => negb (path_eqb a []) && existsb (path_eqb a) wd) (prefixes p) = true).
  { apply existsb_exists. exists a. split; [exact Ha|]. apply andb_true_iff. split.
    - apply negb_true_iff. apply path_eqb_neq. exact Hn.
    - apply existsb_path_In. exact Hin. }
  congruence.
Qed.

Lemma anc_from_claims : forall t wd P Q dd dl df p,
  claims t wd P Q dd dl df ->
  (forall a, In a (prefixes p) -> a <> [] -> In a dd) ->
  under_wd fixed wd p = false -> anc_ok t p.
Proof.
  intros t wd P Q dd dl df p [H1 _] Hp Hu a Ha Hn.
  destruct (H1 a (Hp a Ha Hn)) as [G | [A _]]; [exact G|].
  exfalso. eapply under_wd_false; eassumption.
Qed.

Lemma check_dir_res : forall t wd d, base_ok t -> d <> [] ->
  (under_wd fixed wd d = false -> anc_ok t d) ->
  (check_dir fixed t T wd d = Wounds [] /\ gdir t d) \/ check_dir fixed t T wd d = Wounds [WDir d].
Proof.
  intros t wd d Hb Hd Ha. unfold check_dir. destruct (under_wd fixed wd d) eqn:U; [right; reflexivity|].
  rewrite lstat_lit by (apply anc_lit; [exact Hb | apply Ha; reflexivity]).
  destruct (node_at t (T ++ d)) as [[| |]|] eqn:E; try (right; reflexivity).
  left. split; [reflexivity | exact E].
Qed.

Lemma check_link_res : forall t wd l dest, base_ok t -> l <> [] ->
  (under_wd fixed wd l = false -> anc_ok t l) ->
  (check_link fixed t T wd l dest = Wounds [] /\ glink t l dest) \/
  check_link fixed t T wd l dest = Wounds [WLink l dest].
Proof.
  intros t wd l dest Hb Hd Ha. unfold check_link. destruct (under_wd fixed wd l) eqn:U; [right; reflexivity|].
  pose proof (anc_lit T t l Hb (Ha eq_refl)) as Hl.
  rewrite lstat_lit, readlink_lit by exact Hl.
  destruct (node_at t (T ++ l)) as [[| |d']|] eqn:E; try (right; reflexivity).
  destruct (dest_eqb d' dest) eqn:D; [|right; reflexivity].
  left. split; [reflexivity|]. apply dest_eqb_eq in D. subst. exact E.
Qed.

Lemma check_file_res : forall t wd f data, base_ok t -> f <> [] ->
  (under_wd fixed wd f = false -> anc_ok t f) ->
  (check_file fixed t T wd f data = Wounds [WClosed f] /\ gfile t f data) \/
  check_file fixed t T wd f data = Wounds [WFile f data] \/
  check_file fixed t T wd f data = Wounds [WFile f data; WClosed f].
Proof.
  intros t wd f data Hb Hd Ha. unfold check_file. destruct (under_wd fixed wd f) eqn:U; [right; left; reflexivity|].
  pose proof (anc_lit T t f Hb (Ha eq_refl)) as Hl.
  rewrite lstat_lit by exact Hl.
  destruct (node_at t (T ++ f)) as [[d'| |]|] eqn:E; try (right; left; reflexivity).
  - rewrite read_file_lit; [| exact Hl | intros d0; congruence]. rewrite E.
    destruct (nlist_eqb d' data) eqn:D; [|right; right; reflexivity].
    left. split; [reflexivity|]. apply path_eqb_eq in D. subst. exact E.
  - rewrite read_file_lit; [| exact Hl | intros d0; congruence]. rewrite E. right. left. reflexivity.
Qed.

(** ---------- validator steps ---------- *)

Lemma fstatus_set_v : forall s v f data, fstatus (set_v s v) f data <-> fstatus s f data.
Proof. intros. unfold fstatus. cbn. reflexivity. Qed.

Lemma inv_check : forall s ph' wd' ws dd' dl' df',
  Inv s -> v_pend (s_v s) = [] -> v_phase (s_v s) <> VDone ->
  progress ph' dd' dl' df' -> ph' <> VDone ->
  claims (s_fs s) wd' (s_chan s ++ ws) (s_queued s) dd' dl' df' ->
  (forall d, In d wd' -> In d dd') ->
  (forall w, In w ws -> wound_ok w) ->
  (forall w p, In w ws -> wpath w = Some p ->
     forall a, In a (prefixes p) -> a <> [] -> gdir (s_fs s) a \/ In (WDir a) (s_chan s)) ->
  Inv (set_v s (mkV ph' ws wd')).
Proof.
  intros s ph' wd' ws dd' dl' df' HI Hp Hph Hpr Hph' Hcl Hwd Hwok Hanc.
  destruct HI as [_ Hb Hok Hord Hq Hwq Hwr Hc].
  assert (EP : pend s = s_chan s) by (unfold pend; rewrite Hp, app_nil_r; reflexivity).
  rewrite EP in Hok, Hord.
  constructor; cbn.
  - exists dd', dl', df'. split; [exact Hpr|]. split; [exact Hcl | exact Hwd].
  - exact Hb.
  - intros w Hin. unfold pend in Hin. cbn in Hin. apply in_app_or in Hin as [Hin | Hin]; [apply Hok | apply Hwok]; exact Hin.
  - unfold pend. cbn. apply ordered_app; assumption.
  - intros f Hf. destruct (Hq f Hf) as [data [Hin Hst]]. exists data. split; [exact Hin | apply fstatus_set_v; exact Hst].
  - exact Hwq.
  - exact Hwr.
  - destruct Hc as [[C1 C2] [C3 C4]]. unfold control. cbn. repeat split.
    + intro E. exfalso. apply Hph. apply C1. exact E.
    + intro E. congruence.
    + intro E. congruence.
    + exact (proj1 C4).
    + exact (proj2 C4).
Qed.

Lemma claims_snoc_dir : forall t wd P Q dd dl df d,
  claims t wd P Q dd dl df -> gdir t d \/ (In d wd /\ In (WDir d) P) -> claims t wd P Q (dd ++ [d]) dl df.
Proof.
  intros t wd P Q dd dl df d [H1 [H2 H3]] Hd. repeat split; try assumption.
  intros d' Hin. apply in_app_or in Hin as [Hin | [<- | []]]; [apply H1; exact Hin | exact Hd].
Qed.

Lemma claims_snoc_link : forall t wd P Q dd dl df l dest,
  claims t wd P Q dd dl df -> glink t l dest \/ In (WLink l dest) P -> claims t wd P Q dd (dl ++ [(l, dest)]) df.
Proof.
  intros t wd P Q dd dl df l dest [H1 [H2 H3]] Hd. repeat split; try assumption.
  intros l' dest' Hin. apply in_app_or in Hin as [Hin | [E | []]]; [apply H2; exact Hin | inversion E; subst; exact Hd].
Qed.

Lemma claims_snoc_file : forall t wd P Q dd dl df f data,
  claims t wd P Q dd dl df -> gfile t f data \/ In (WFile f data) P \/ In f Q -> claims t wd P Q dd dl (df ++ [(f, data)]).
Proof.
  intros t wd P Q dd dl df f data [H1 [H2 H3]] Hd. repeat split; try assumption.
  intros f' data' Hin. apply in_app_or in Hin as [Hin | [E | []]]; [apply H3; exact Hin | inversion E; subst; exact Hd].
Qed.

Lemma ordered_nil : forall t, ordered t [].
Proof. intros t P1 w P2 p E. destruct P1; discriminate. Qed.

Lemma inv_emit : forall s w ws,
  Inv s -> v_pend (s_v s) = w :: ws ->
  Inv (mkS (s_fs s) (mkV (v_phase (s_v s)) ws (v_wd (s_v s))) (s_chan s ++ [w]) (s_closed s) (s_h s)
           (s_queued s) (s_wq s) (s_wq_closed s) (s_w s)).
Proof.
  intros s w ws HI Hp. destruct HI as [Hpr Hb Hok Hord Hq Hwq Hwr Hc].
  assert (EP : pend s = (s_chan s ++ [w]) ++ ws) by (unfold pend; rewrite Hp, <- app_assoc; reflexivity).
  constructor; cbn; unfold pend; cbn; try rewrite <- EP; try assumption.
  destruct Hc as [[C1 C2] [C3 [C4 C5]]]. unfold control. cbn. repeat split; try assumption.
  - intro E. rewrite (C3 E) in Hp. discriminate.
  - destruct (s_h s); [exact C4 | |].
    + exfalso. destruct C4 as [X _]. rewrite (C3 (C1 X)) in Hp. discriminate.
    + exfalso. destruct C4 as [_ [X _]]. rewrite (C3 (C1 X)) in Hp. discriminate.
Qed.

Lemma init_ok_base : forall t, init_ok T t = true ->
  exists t', mkdir_all t T = Ok t' /\ base_ok t'.
Proof.
  intros t H. unfold init_ok in H. apply andb_true_iff in H as [H1 H2].
  assert (Hl : lit t T).
  { intros a Ha. rewrite forallb_forall in H1. specialize (H1 a Ha). destruct (node_at t a) as [[| |]|]; congruence. }
  destruct (node_at t T) as [[| |]|] eqn:E; try discriminate.
  - exists t. split; [apply mkdir_all_dir; assumption | split; assumption].
  - assert (HT : T <> []) by (intro HT; rewrite HT in E; discriminate).
    exists (set t T Dir). split; [apply mkdir_all_new; assumption|]. split.
    + intros a Ha. rewrite node_at_set by exact HT.
      destruct (path_eqb T a) eqn:E2; [|apply Hl; exact Ha].
      apply path_eqb_eq in E2. subst a. apply proper_prefix_not_below in Ha. rewrite is_prefix_refl in Ha. discriminate.
    + rewrite node_at_set by exact HT. rewrite path_eqb_refl. reflexivity.
Qed.

Lemma vstep_inv : forall s s', INV s -> vstep s = Some s' -> INV s'.
Proof.
  intros s s' [H0 | HI] Hs.
  - (* MkdirAll(target) *)
    destruct H0 as [Hi [Hv [Hch [Hcl [Hh [Hq [Hwq [Hwc Hw]]]]]]]].
    unfold Healer.vstep in Hs. rewrite Hv in Hs. cbn in Hs.
    destruct (init_ok_base _ Hi) as [t' [E Hb]]. rewrite E in Hs. inversion Hs; subst s'. clear Hs.
    right. constructor; cbn; unfold pend; cbn; rewrite ?Hch, ?Hq, ?Hwq, ?Hw, ?Hh, ?Hcl, ?Hwc.
    + exists [], [], []. split; [cbn; auto|]. split; [|intros d []].
      repeat split; intros; contradiction.
    + exact Hb.
    + intros w [].
    + apply ordered_nil.
    + intros f [].
    + intros f data [].
    + intros q data E2. discriminate.
    + unfold control. cbn. repeat split; intros; congruence.
  - right. pose proof HI as HI'. destruct HI as [[dd [dl [df [Hpr [Hcl Hwd]]]]] Hb Hok Hord Hq Hwq Hwr Hc].
    unfold Healer.vstep in Hs.
    destruct (v_pend (s_v s)) as [|w ws] eqn:Hp.
    2:{ destruct (Nat.ltb (length (s_chan s)) cap); [|discriminate]. inversion Hs; subst s'. apply inv_emit; assumption. }
    assert (EP : pend s = s_chan s) by (unfold pend; rewrite Hp, app_nil_r; reflexivity).
    assert (EP' : s_chan s ++ [] = pend s) by (rewrite app_nil_r; symmetry; exact EP).
    assert (Hup : incl (pend s) (s_chan s ++ [])) by (rewrite EP'; apply incl_refl).
    assert (Hanc0 : forall a, In a (b_dirs b) -> dd = b_dirs b -> gdir (s_fs s) a \/ In (WDir a) (s_chan s)).
    { intros a Ha ->. destruct Hcl as [H1 _]. destruct (H1 a Ha) as [G | [_ Hin]]; [left; exact G | right].
      rewrite EP in Hin. exact Hin. }
    destruct (v_phase (s_v s)) as [|rest|rest|rest| | |e] eqn:Hph; cbn in Hpr; try contradiction.
    + (* directory pass *)
      destruct Hpr as [Ed [-> ->]].
      destruct rest as [|d rest].
      * inversion Hs; subst s'. apply (inv_check s _ _ _ dd [] [] HI' Hp).
        -- congruence.
        -- cbn. rewrite app_nil_r in Ed. auto.
        -- discriminate.
        -- rewrite EP'. exact Hcl.
        -- exact Hwd.
        -- intros w [].
        -- intros w p [].
      * assert (Hdin : In d (b_dirs b)) by (rewrite Ed; apply in_or_app; right; left; reflexivity).
        assert (Hdne : d <> []) by (apply (wf_nonempty b wf), in_all_dir, Hdin).
        assert (Hanc : forall a, In a (prefixes d) -> a <> [] -> In a dd) by (eapply wf_dir_anc; eassumption).
        assert (Hpr' : progress (VDirs rest) (dd ++ [d]) [] []) by (cbn; rewrite <- app_assoc; auto).
        destruct (check_dir_res (s_fs s) (v_wd (s_v s)) d Hb Hdne) as [[E G] | E].
        { intro U. eapply anc_from_claims; eassumption. }
        -- rewrite E in Hs. cbn in Hs. inversion Hs; subst s'.
           apply (inv_check s _ _ _ (dd ++ [d]) [] [] HI' Hp).
           ++ congruence.
           ++ exact Hpr'.
           ++ discriminate.
           ++ rewrite EP'. apply claims_snoc_dir; [exact Hcl | left; exact G].
           ++ intros d' Hin. apply in_or_app. left. apply Hwd. exact Hin.
           ++ intros w [].
           ++ intros w p [].
        -- rewrite E in Hs. cbn in Hs. inversion Hs; subst s'.
           apply (inv_check s _ _ _ (dd ++ [d]) [] [] HI' Hp).
           ++ congruence.
           ++ exact Hpr'.
           ++ discriminate.
           ++ apply claims_snoc_dir.
              ** eapply claims_more; [| | apply incl_refl | exact Hcl].
                 --- apply incl_tl, incl_refl.
                 --- rewrite EP. apply incl_appl, incl_refl.
              ** right. split; [left; reflexivity | apply in_or_app; right; left; reflexivity].
           ++ intros d' [<- | Hin]; apply in_or_app; [right; left; reflexivity | left; apply Hwd; exact Hin].
           ++ intros w [<- | []]. exact Hdin.
           ++ intros w p [<- | []] Hw a Ha Hn. cbn in Hw. inversion Hw; subst p.
              destruct Hcl as [H1 _]. destruct (H1 a (Hanc a Ha Hn)) as [G | [_ Hin]]; [left; exact G | right].
              rewrite EP in Hin. exact Hin.
    + (* symlink pass *)
      destruct Hpr as [-> [El ->]].
      destruct rest as [|[l dest] rest].
      * inversion Hs; subst s'. apply (inv_check s _ _ _ (b_dirs b) dl [] HI' Hp).
        -- congruence.
        -- cbn. rewrite app_nil_r in El. auto.
        -- discriminate.
        -- rewrite EP'. exact Hcl.
        -- exact Hwd.
        -- intros w [].
        -- intros w p [].
      * assert (Hlin : In (l, dest) (b_links b)) by (rewrite El; apply in_or_app; right; left; reflexivity).
        assert (Hlne : l <> []) by (eapply (wf_nonempty b wf), in_all_link, Hlin).
        assert (Hanc : forall a, In a (prefixes l) -> a <> [] -> In a (b_dirs b)).
        { apply (wf_lf_anc b wf). eapply in_lf_link. exact Hlin. }
        assert (Hpr' : progress (VLinks rest) (b_dirs b) (dl ++ [(l, dest)]) []) by (cbn; rewrite <- app_assoc; auto).
        destruct (check_link_res (s_fs s) (v_wd (s_v s)) l dest Hb Hlne) as [[E G] | E].
        { intro U. eapply anc_from_claims; eassumption. }
        -- rewrite E in Hs. cbn in Hs. inversion Hs; subst s'.
           apply (inv_check s _ _ _ (b_dirs b) (dl ++ [(l, dest)]) [] HI' Hp).
           ++ congruence.
           ++ exact Hpr'.
           ++ discriminate.
           ++ rewrite EP'. apply claims_snoc_link; [exact Hcl | left; exact G].
           ++ exact Hwd.
           ++ intros w [].
           ++ intros w p [].
        -- rewrite E in Hs. cbn in Hs. inversion Hs; subst s'.
           apply (inv_check s _ _ _ (b_dirs b) (dl ++ [(l, dest)]) [] HI' Hp).
           ++ congruence.
           ++ exact Hpr'.
           ++ discriminate.
           ++ apply claims_snoc_link.
              ** eapply claims_more; [apply incl_refl | | apply incl_refl | exact Hcl].
                 rewrite EP. apply incl_appl, incl_refl.
              ** right. apply in_or_app; right; left; reflexivity.
           ++ exact Hwd.
           ++ intros w [<- | []]. exact Hlin.
           ++ intros w p [<- | []] Hw a Ha Hn. cbn in Hw. inversion Hw; subst p.
              apply Hanc0; [apply Hanc; assumption | reflexivity].
    + (* file pass *)
      destruct Hpr as [-> [-> Ef]].
      destruct rest as [|[f data] rest].
      * inversion Hs; subst s'. apply (inv_check s _ _ _ (b_dirs b) (b_links b) df HI' Hp).
        -- congruence.
        -- cbn. rewrite app_nil_r in Ef. auto.
        -- discriminate.
        -- rewrite EP'. exact Hcl.
        -- exact Hwd.
        -- intros w [].
        -- intros w p [].
      * assert (Hfin : In (f, data) (b_files b)) by (rewrite Ef; apply in_or_app; right; left; reflexivity).
        assert (Hfne : f <> []) by (eapply (wf_nonempty b wf), in_all_file, Hfin).
        assert (Hanc : forall a, In a (prefixes f) -> a <> [] -> In a (b_dirs b)).
        { apply (wf_lf_anc b wf). eapply in_lf_file. exact Hfin. }
        assert (Hpr' : progress (VFiles rest) (b_dirs b) (b_links b) (df ++ [(f, data)])) by (cbn; rewrite <- app_assoc; auto).
        assert (Hordw : forall w p, In w [WFile f data; WClosed f] -> wpath w = Some p ->
                  forall a, In a (prefixes p) -> a <> [] -> gdir (s_fs s) a \/ In (WDir a) (s_chan s)).
        { intros w p [<- | [<- | []]] Hw a Ha Hn; cbn in Hw; inversion Hw; subst p.
          apply Hanc0; [apply Hanc; assumption | reflexivity]. }
        assert (Hcl' : forall ws, claims (s_fs s) (v_wd (s_v s)) (s_chan s ++ ws) (s_queued s) (b_dirs b) (b_links b) df).
        { intro ws. eapply claims_more; [apply incl_refl | | apply incl_refl | exact Hcl].
          rewrite EP. apply incl_appl, incl_refl. }
        destruct (check_file_res (s_fs s) (v_wd (s_v s)) f data Hb Hfne) as [[E G] | [E | E]].
        { intro U. eapply anc_from_claims; eassumption. }
        -- rewrite E in Hs. cbn in Hs. inversion Hs; subst s'.
           apply (inv_check s _ _ _ (b_dirs b) (b_links b) (df ++ [(f, data)]) HI' Hp).
           ++ congruence.
           ++ exact Hpr'.
           ++ discriminate.
           ++ apply claims_snoc_file; [apply Hcl' | left; exact G].
           ++ exact Hwd.
           ++ intros w [<- | []]. exact I.
           ++ intros w p Hin. apply Hordw. right. exact Hin.
        -- rewrite E in Hs. cbn in Hs. inversion Hs; subst s'.
           apply (inv_check s _ _ _ (b_dirs b) (b_links b) (df ++ [(f, data)]) HI' Hp).
           ++ congruence.
           ++ exact Hpr'.
           ++ discriminate.
           ++ apply claims_snoc_file; [apply Hcl' |].
              right. left. apply in_or_app; right; left; reflexivity.
           ++ exact Hwd.
           ++ intros w [<- | []]. exact Hfin.
           ++ intros w p [<- | []]. apply Hordw. left. reflexivity.
        -- rewrite E in Hs. cbn in Hs. inversion Hs; subst s'.
           apply (inv_check s _ _ _ (b_dirs b) (b_links b) (df ++ [(f, data)]) HI' Hp).
           ++ congruence.
           ++ exact Hpr'.
           ++ discriminate.
           ++ apply claims_snoc_file; [apply Hcl' |].
              right. left. apply in_or_app; right; left; reflexivity.
           ++ exact Hwd.
           ++ intros w [<- | [<- | []]]; [exact Hfin | exact I].
           ++ exact Hordw.
    + (* close(vctx.Wounds) *)
      inversion Hs; subst s'. clear Hs.
      destruct Hc as [[C1 C2] [C3 [C4 C5]]].
      constructor; cbn; unfold pend; cbn; rewrite ?app_nil_r.
      * exists dd, dl, df. split; [exact Hpr|]. split; [rewrite <- EP; exact Hcl | exact Hwd].
      * exact Hb.
      * rewrite <- EP. exact Hok.
      * rewrite <- EP. exact Hord.
      * intros f Hf. destruct (Hq f Hf) as [data [Hin Hst]]. exists data. split; [exact Hin | exact Hst].
      * exact Hwq.
      * exact Hwr.
      * unfold control. cbn. repeat split; auto.
        destruct (s_h s) eqn:Hh; try exact C4.
        -- destruct C4 as [X _]. apply C1 in X. congruence.
        -- destruct C4 as [_ [X _]]. apply C1 in X. congruence.
    + discriminate.
Qed.

End Proofs.
