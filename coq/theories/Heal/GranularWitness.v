(** C06: concrete executions of the granular system of [Heal/Granular.v] (vm_compute): the
    goroutines really are inside their calls at the same time, and the witnesses of
    [HealWitness.v] are healed under such schedules. *)
From Wharf Require Import FS.Light FS.Tree FS.Ops Heal.Validator Heal.Healer Heal.HealWitness Heal.Granular.

Local Open Scope N_scope.

(** the validator runs until it is between the Lstat and the Readlink of the symlink 4; then the
    healer receives the DIR wound of directory 1 (a symlink on disk) and does its Lstat *)
Definition gw_prefix : list tid := repeat TV 7 ++ [TH; TH].

Definition round_robin (n : nat) : list tid := concat (repeat [TW; TH; TV] n).

Lemma granular_witness_lemma :
  (let g := grun fixed 1024 w_build w_target gw_prefix (ginit w_build w_tree_link) in
   g_v g = VPmid /\ g_h g = HPDirRemove [1] /\ quiescent g = false /\
   let g' := gfinish fixed 1024 w_build w_target 400 [TV; TH; TW] g in
   gterminal g' = true /\ gresult g' = Some (Ok tt) /\ restoredb w_build w_target (g_fs g') = true) /\
  (let g := grun fixed 1 w_build w_target (round_robin 60) (ginit w_build w_tree_link) in
   gterminal g = true /\ gresult g = Some (Ok tt) /\ restoredb w_build w_target (g_fs g) = true) /\
  (let g := grun fixed 1 w_build w_target (round_robin 60) (ginit w_build w_tree_file) in
   gterminal g = true /\ gresult g = Some (Ok tt) /\ restoredb w_build w_target (g_fs g) = true) /\
  (let g := grun fixed 2 w_build w_target (round_robin 60) (ginit w_build []) in
   gterminal g = true /\ gresult g = Some (Ok tt) /\ restoredb w_build w_target (g_fs g) = true).
Proof. vm_compute. repeat split; reflexivity. Qed.
