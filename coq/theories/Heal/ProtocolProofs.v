(** Proofs about Heal/Protocol.v: every step decreases [measure]; the invariant [Inv] of the
    reachable states; no reachable non-final state is stuck; with the (fixed) guardian a nil
    result implies a clean directory. *)
From Coq Require Import List Arith Bool Lia.
Import ListNotations.
From Wharf Require Import Heal.Protocol.

Ltac inv H := inversion H; subst; clear H.

(** destruct the scrutinee of the first match in hypothesis H *)
Ltac brk H :=
  match type of H with
  | context [match ?x with _ => _ end] =>
      match x with
      | context [match _ with _ => _ end] => fail 1
      | _ => destruct x eqn:?; try discriminate H
      end
  | context [if ?x then _ else _] =>
      match x with
      | context [if _ then _ else _] => fail 1
      | _ => destruct x eqn:?; try discriminate H
      end
  end.

(** reduce record projections / setters only *)
Ltac sred := cbn [s_ctx s_canc s_wch s_wclosed s_werr s_cerr s_ficlosed s_main s_ret s_files s_wk s_cons s_pipe
                  set_ctx set_canc set_wch set_wclosed set_werr set_cerr set_ficlosed set_main set_ret set_files
                  set_wk set_cons set_pipe push a_last a_outs a_inclosed a_outclosed r_pc] in *.

Lemma app_len1 : forall {A} (l : list A) x, length (l ++ [x]) = S (length l).
Proof. intros. rewrite app_length. simpl. lia. Qed.
Ltac fin := cbn; try rewrite app_len1; lia.

Lemma agg_in_weight : forall last m l o,
  agg_in last m = (l, o) ->
  (if l then 4 else 0) + 3 * length o < 5 + (if last then 4 else 0).
Proof.
  intros last m l o H. destruct m as [|c b]; destruct last; simpl in H;
    try (destruct c; try destruct b); inv H; simpl; lia.
Qed.

Theorem step_decreases : forall p a s s', step p a s = Some s' -> measure s' < measure s.
Proof.
  intros p a s s' H. destruct s as [ctx canc wch wcl werr cerr ficl mn ret files wk cons pp].
  destruct a; unfold step in H; sred.
  - (* ACancel *) destruct ctx; inv H. cbn. lia.
  - (* AMain *)
    destruct mn as [items| | | | | | | | |]; sred.
    + destruct items as [|[|] r]; sred.
      * inv H. cbn. lia.
      * brk H. inv H. fin.
      * inv H. cbn. lia.
    + destruct files; inv H. cbn. lia.
    + destruct werr; inv H. cbn. lia.
    + destruct cerr; inv H. cbn. lia.
    + inv H. cbn. lia.
    + inv H. cbn. lia.
    + destruct werr; inv H. cbn. lia.
    + inv H. cbn. lia.
    + destruct cerr; inv H. cbn. lia.
    + discriminate.
  - (* AMainW *) destruct mn; try discriminate. destruct files; try discriminate. destruct werr; inv H. cbn. lia.
  - (* AMainC *) destruct mn; try discriminate. destruct files; try discriminate. destruct cerr; inv H. cbn. lia.
  - (* AMainF *) destruct mn; try discriminate. destruct files as [|f r]; try discriminate. destruct wk; inv H.
    destruct f; cbn; lia.
  - (* AWk *)
    destruct wk; sred; try discriminate.
    + inv H. destruct (p_startfail p); cbn; lia.
    + destruct ficl; inv H. cbn. lia.
    + brk H. inv H. fin.
    + destruct ws1; inv H. cbn. lia.
    + destruct mid; sred.
      * inv H. cbn. lia.
      * brk H. inv H. fin.
      * inv H. cbn. lia.
    + destruct ws2; inv H. cbn. lia.
    + destruct pp as [q|]; inv H. cbn. lia.
    + inv H. destruct (p_closefail p); cbn; lia.
    + destruct werr; inv H. cbn. lia.
  - (* AWkCanc *)
    destruct canc; try discriminate. destruct wk; try discriminate; sred.
    + inv H. cbn. lia.
    + inv H. cbn. lia.
    + destruct mid; inv H. cbn. lia.
  - (* ACons *)
    destruct cons; sred.
    + inv H. destruct (c_start (p_cons p)); cbn; lia.
    + destruct wch as [|m t].
      * destruct wcl; inv H. cbn. lia.
      * inv H. destruct (c_msg (p_cons p) k ctx m); cbn; lia.
    + destruct cerr; inv H. cbn. lia.
    + destruct wch as [|m t].
      * destruct wcl; inv H. cbn. lia.
      * inv H. cbn. lia.
    + discriminate.
  - (* AConsCtx *)
    destruct cons; try discriminate. destruct ctx; try discriminate.
    destruct (c_ctx (p_cons p) k); inv H. cbn. lia.
  - (* AWA *)
    destruct pp as [q|]; try discriminate. destruct q as [l o ic oc r]; sred.
    destruct o; try discriminate. destruct ic; try discriminate.
    destruct wk; try discriminate.
    + destruct ws1 as [|m t]; try discriminate. destruct (agg_in l m) as [l' o'] eqn:E. inv H.
      apply agg_in_weight in E. cbn. cbn in E. lia.
    + destruct ws2 as [|m t]; try discriminate. destruct (agg_in l m) as [l' o'] eqn:E. inv H.
      apply agg_in_weight in E. cbn. cbn in E. lia.
  - (* AAgg *)
    destruct pp as [q|]; try discriminate. destruct q as [l o ic oc r]; sred.
    destruct o; try discriminate. destruct ic; try discriminate.
    destruct l; [inv H; cbn; lia|]. destruct oc; inv H. cbn. lia.
  - (* AAR *)
    destruct pp as [q|]; try discriminate. destruct q as [l o ic oc r]; sred.
    destruct o; try discriminate. destruct r; inv H. cbn. lia.
  - (* ARel *)
    destruct pp as [q|]; try discriminate. destruct q as [l o ic oc r]; sred.
    destruct r.
    + destruct oc; inv H. cbn. lia.
    + brk H. inv H. fin.
    + discriminate.
  - (* ARW *)
    destruct pp as [q|]; try discriminate. destruct wk; try discriminate.
    destruct q as [l o ic oc r]; sred. destruct r; inv H. destruct e; cbn; lia.
Qed.

(** ---- invariant of the reachable states ---- *)
Definition in_pipe_phase (w : wpc) : bool :=
  match w with WCopy _ _ _ | WMid _ _ | WFlush _ _ | WCloseP _ | WWaitDone _ => true | _ => false end.
Definition is_waitdone (w : wpc) : bool := match w with WWaitDone _ => true | _ => false end.
Definition cons_sent (c : cpc) : bool := match c with CDrain | CDone => true | _ => false end.
Definition main_after_wtake (m : mpc) : bool := match m with MRearmW | MCloseW | MWaitC | MRet => true | _ => false end.
Definition main_after_ctake (m : mpc) : bool := match m with MRearmC | MRet => true | _ => false end.
Definition is_pre (m : mpc) : bool := match m with MPre _ => true | _ => false end.

Record Inv (s : state) : Prop := mkInv {
  iA1 : s_werr s <> None -> s_wk s = WDone;
  iA2 : s_wk s = WDone -> s_werr s = None -> main_after_wtake (s_main s) = true;
  iA3 : s_main s = MRearmW -> s_werr s = None /\ s_wk s = WDone;
  iB1 : s_cerr s <> None -> cons_sent (s_cons s) = true;
  iB2 : cons_sent (s_cons s) = true -> s_cerr s = None -> main_after_ctake (s_main s) = true;
  iB3 : s_main s = MRearmC -> s_cerr s = None /\ cons_sent (s_cons s) = true;
  iC1 : s_wclosed s = true -> s_main s = MWaitC \/ s_main s = MRet;
  iC2 : s_cons s = CDone -> s_wclosed s = true;
  iC3 : s_main s = MWaitC -> s_wclosed s = true;
  iD0 : is_pre (s_main s) = true -> s_wk s = WNone;
  iD1 : s_wk s = WNone -> is_pre (s_main s) = true \/ s_main s = MRet;
  iD2 : s_main s = MWaitW -> s_ficlosed s = true;
  iE : match s_pipe s with
       | None => in_pipe_phase (s_wk s) = false
       | Some pp => in_pipe_phase (s_wk s) = true /\ a_inclosed pp = is_waitdone (s_wk s) /\
                    (a_outclosed pp = true -> a_inclosed pp = true /\ a_outs pp = [] /\ a_last pp = false) /\
                    (r_pc pp = RDoneSend -> a_outclosed pp = true)
       end }.

Lemma inv_init : forall p, Inv (init p).
Proof. intros p. constructor; cbn; intros; try congruence; auto. Qed.

Ltac inv_solve :=
  cbn in *; intros;
  repeat match goal with
         | H : _ /\ _ |- _ => destruct H
         end;
  try solve [ congruence | auto | tauto
            | intuition congruence
            | repeat split; intuition congruence ].

Lemma inv_step : forall p a s s', p_closefail p = false -> Inv s -> step p a s = Some s' -> Inv s'.
Proof.
  intros p a s s' CF I H. destruct I as [A1 A2 A3 B1 B2 B3 C1 C2 C3 D0 D1 D2 E].
  destruct s as [ctx canc wch wcl werr cerr ficl mn ret files wk cons pp].
  destruct a; unfold step in H; rewrite ?CF in H; sred; repeat brk H; inv H; constructor; sred; inv_solve.
  - specialize (D0 eq_refl). subst. destruct pp; inv_solve.
  - destruct f; inv_solve.
  - destruct f; inv_solve.
  - destruct f; inv_solve.
  - destruct e; inv_solve.
  - destruct e; inv_solve.
  - destruct e; inv_solve.
Qed.

(** ---- progress: a reachable state in which main has not returned is never stuck ---- *)
Definition enabled (p : params) (s : state) : Prop := exists a s', a <> ACancel /\ step p a s = Some s'.

Ltac take a := exists a; eexists; split; [discriminate | unfold step; sred; try reflexivity].

Lemma room_empty : forall p s, 1 <= p_cap p -> s_wch s = [] -> room p s = true.
Proof. intros p s C E. unfold room. rewrite E. apply Nat.ltb_lt. simpl. lia. Qed.

(** the consumer goroutine can move unless Wounds is empty (and then there is room) *)
Lemma cons_enabled_or_empty : forall p s, Inv s -> s_wclosed s = false -> enabled p s \/ s_wch s = [].
Proof.
  intros p s I W. destruct I as [A1 A2 A3 B1 B2 B3 C1 C2 C3 D0 D1 D2 E].
  destruct s as [ctx canc wch wcl werr cerr ficl mn ret files wk cons pp]. sred. subst wcl.
  destruct cons.
  - left. take ACons.
  - destruct wch; [right; reflexivity | left; take ACons].
  - left. destruct cerr; [exfalso; cbn in B1; discriminate B1; congruence | take ACons].
  - destruct wch; [right; reflexivity | left; take ACons].
  - specialize (C2 eq_refl). discriminate.
Qed.

(** with room in Wounds the worker side (worker, aggregator, relay) can move *)
Lemma worker_enabled : forall p s, Inv s -> room p s = true ->
  match s_wk s with WNone | WDone | WSelect => False | _ => True end -> enabled p s.
Proof.
  intros p s I R W. destruct I as [A1 A2 A3 B1 B2 B3 C1 C2 C3 D0 D1 D2 E].
  destruct s as [ctx canc wch wcl werr cerr ficl mn ret files wk cons pp]. sred.
  assert (PIPE : forall q, pp = Some q -> a_outs q <> [] -> enabled p
             (mkst ctx canc wch wcl werr cerr ficl mn ret files wk cons pp)).
  { intros [l o ic oc r] -> O. cbn in O. destruct o as [|m t]; [congruence|].
    destruct r.
    - take AAR.
    - take ARel. rewrite R. reflexivity.
    - cbn in E. destruct E as (_ & _ & E2 & E3). specialize (E3 eq_refl). destruct (E2 E3) as (_ & ? & _). discriminate. }
  destruct wk; try contradiction.
  - take AWk.
  - take AWk. rewrite R. reflexivity.
  - (* WCopy *) destruct ws1 as [|m t]; [take AWk|].
    destruct pp as [[l o ic oc r]|]; cbn in E; [|discriminate].
    destruct E as (_ & E1 & _). subst ic.
    destruct o; [|eapply PIPE; [reflexivity| cbn; congruence]].
    destruct (agg_in l m) as [l' o'] eqn:AG. take AWA. rewrite AG. reflexivity.
  - (* WMid *) destruct mid; take AWk. rewrite R. reflexivity.
  - (* WFlush *) destruct ws2 as [|m t]; [take AWk|].
    destruct pp as [[l o ic oc r]|]; cbn in E; [|discriminate].
    destruct E as (_ & E1 & _). subst ic.
    destruct o; [|eapply PIPE; [reflexivity| cbn; congruence]].
    destruct (agg_in l m) as [l' o'] eqn:AG. take AWA. rewrite AG. reflexivity.
  - (* WCloseP *) destruct pp as [q|]; cbn in E; [|discriminate]. take AWk.
  - (* WWaitDone *)
    destruct pp as [[l o ic oc r]|]; cbn in E; [|discriminate].
    destruct E as (_ & E1 & E2 & E3). subst ic.
    destruct o; [|eapply PIPE; [reflexivity| cbn; congruence]].
    destruct l; [take AAgg|]. destruct oc; [|take AAgg].
    destruct r.
    + take ARel.
    + take ARel. rewrite R. reflexivity.
    + take ARW.
  - (* WDefer *) take AWk.
  - (* WSend *) destruct werr; [exfalso; assert (X : WSend r = WDone) by (apply A1; congruence); discriminate | take AWk].
Qed.

Theorem no_stuck : forall p s, 1 <= p_cap p -> Inv s -> s_main s <> MRet -> enabled p s.
Proof.
  intros p s C I M.
  destruct (s_wclosed s) eqn:WC.
  - (* Wounds closed: main is waiting for the consumer, which can always move *)
    destruct I as [A1 A2 A3 B1 B2 B3 C1 C2 C3 D0 D1 D2 E].
    destruct (C1 WC) as [MW|MR]; [|contradiction].
    destruct s as [ctx canc wch wcl werr cerr ficl mn ret files wk cons pp]. sred. subst.
    destruct cerr; [take AMain|].
    destruct cons; cbn in B2.
    + take ACons.
    + destruct wch; take ACons.
    + take ACons.
    + specialize (B2 eq_refl eq_refl). discriminate.
    + specialize (B2 eq_refl eq_refl). discriminate.
  - destruct (cons_enabled_or_empty p s I WC) as [En|Em]; [exact En|].
    pose proof (room_empty p s C Em) as R.
    pose proof (worker_enabled p s I R) as WE.
    destruct I as [A1 A2 A3 B1 B2 B3 C1 C2 C3 D0 D1 D2 E].
    destruct s as [ctx canc wch wcl werr cerr ficl mn ret files wk cons pp]. sred. subst.
    destruct mn as [items| | | | | | | | |].
    + destruct items as [|[|] r]; take AMain. rewrite R. reflexivity.
    + (* MLoop *)
      destruct files as [|f fs]; [take AMain|].
      destruct werr; [take AMainW|]. destruct cerr; [take AMainC|].
      destruct wk; try (apply WE; exact I).
      * cbn in D1. destruct (D1 eq_refl); discriminate.
      * take AMainF.
      * cbn in A2. specialize (A2 eq_refl eq_refl). discriminate.
    + destruct (A3 eq_refl) as [-> _]. take AMain.
    + destruct (B3 eq_refl) as [-> _]. take AMain.
    + take AMain.
    + take AMain.
    + (* MWaitW *)
      destruct werr; [take AMain|].
      destruct wk; try (apply WE; exact I).
      * cbn in D1. destruct (D1 eq_refl); discriminate.
      * rewrite (D2 eq_refl). take AWk.
      * cbn in A2. specialize (A2 eq_refl eq_refl). discriminate.
    + take AMain.
    + specialize (C3 eq_refl). discriminate.
    + contradiction.
Qed.

(** ---- executions ---- *)
Lemma inv_run : forall p acts s s', p_closefail p = false -> Inv s -> run p acts s = Some s' -> Inv s'.
Proof.
  intros p acts s s' CF. revert s s'.
  induction acts as [|a r IH]; intros s s' I H; cbn in H.
  - inv H. exact I.
  - destruct (step p a s) eqn:S; [|discriminate]. eapply IH; [eapply inv_step; eauto | exact H].
Qed.

Lemma run_length : forall p acts s s', run p acts s = Some s' -> length acts + measure s' <= measure s.
Proof.
  induction acts as [|a r IH]; intros s s' H; cbn in H.
  - inv H. cbn. lia.
  - destruct (step p a s) eqn:S; [|discriminate]. apply IH in H. apply step_decreases in S. cbn. lia.
Qed.

Theorem validate_terminates_lemma : forall p acts s,
  1 <= p_cap p -> p_closefail p = false -> run p acts (init p) = Some s ->
  length acts <= measure (init p) /\
  (s_main s = MRet \/ exists a s', a <> ACancel /\ step p a s = Some s').
Proof.
  intros p acts s C CF H. split.
  - apply run_length in H. lia.
  - destruct (s_main s) eqn:M; try (right; apply no_stuck; [exact C | eapply inv_run; [exact CF | apply inv_init | exact H] | congruence]).
    left. reflexivity.
Qed.

(** the guard [p_closefail p = false] is needed: when targetPool.Close() fails in the worker's
    deferred function, vctx.validate returns without sending on workerErrs and Validate blocks
    forever on <-workerErrs (a clean one-file directory, nothing cancelled) *)
Definition closefail_params : params :=
  mkparams 1 [] false [FData [FHealthy] FMNone []] (mkcons None (fun _ _ _ => None) (fun _ => RNil) (fun _ => Some RNil)) false true.
Definition closefail_sched : list action :=
  [ACons; AMain; AWk; AMainF; AWA; AAR; ARel; ACons; AWk; AWk; AWk; AWk; AAgg; ARel; ARW; AMain; AMain; AWk; AWk].

Theorem validate_blocks_when_close_fails_lemma :
  exists s, run closefail_params closefail_sched (init closefail_params) = Some s /\
            s_main s = MWaitW /\ forall a, step closefail_params a s = None \/ a = ACancel.
Proof.
  eexists. split; [vm_compute; reflexivity|]. split; [reflexivity|].
  intros a. destruct a; (left; vm_compute; reflexivity) || (right; reflexivity).
Qed.
