(** Lemmas about [blocks]: complete blocks + remainder decomposition. *)
From Wharf Require Import Base.Prelude.

Section Blocks.
  Context {A : Type}.
  Variable bs : nat.
  Hypothesis bs_pos : 0 < bs.

  (** complete blocks of [l] and what is left over (shorter than [bs]) *)
  Fixpoint full_aux (fuel : nat) (l : list A) : list (list A) * list A :=
    match fuel with
    | O => ([], l)
    | S f => if bs <=? length l
             then let '(bl, r) := full_aux f (skipn bs l) in (firstn bs l :: bl, r)
             else ([], l)
    end.
  Definition full (l : list A) := full_aux (length l) l.

  Lemma full_aux_fuel f1 : forall f2 l, length l <= f1 -> length l <= f2 -> full_aux f1 l = full_aux f2 l.
  Proof.
    induction f1 as [|f1 IH]; intros f2 l H1 H2.
    - destruct l; [|simpl in H1; lia]. destruct f2; cbn [full_aux length]; [reflexivity|].
      destruct (bs <=? 0) eqn:E; [apply Nat.leb_le in E; lia|reflexivity].
    - destruct f2 as [|f2].
      + destruct l; [|simpl in H2; lia]. cbn [full_aux length].
        destruct (bs <=? 0) eqn:E; [apply Nat.leb_le in E; lia|reflexivity].
      + cbn [full_aux]. destruct (bs <=? length l) eqn:E; [|reflexivity].
        apply Nat.leb_le in E.
        rewrite (IH f2 (skipn bs l)); [reflexivity|rewrite skipn_length; lia|rewrite skipn_length; lia].
  Qed.

  Lemma full_aux_enough fuel l : length l <= fuel -> full_aux fuel l = full l.
  Proof. intros H. unfold full. apply full_aux_fuel; lia. Qed.

  Lemma full_short l : length l < bs -> full l = ([], l).
  Proof.
    intros H. unfold full. destruct (length l) eqn:E; [reflexivity|].
    cbn [full_aux]. rewrite E. destruct (bs <=? S n) eqn:E'; [apply Nat.leb_le in E'; lia|reflexivity].
  Qed.

  Lemma full_long l : bs <= length l ->
    full l = (firstn bs l :: fst (full (skipn bs l)), snd (full (skipn bs l))).
  Proof.
    intros H. unfold full at 1. destruct (length l) eqn:E; [lia|].
    cbn [full_aux]. rewrite E. destruct (bs <=? S n) eqn:E'; [|apply Nat.leb_gt in E'; lia].
    rewrite full_aux_enough by (rewrite skipn_length; lia).
    destruct (full (skipn bs l)); reflexivity.
  Qed.

  Lemma full_rem_short l : length (snd (full l)) < bs.
  Proof.
    remember (length l) as n eqn:En. revert l En.
    induction n as [n IH] using lt_wf_ind. intros l En.
    destruct (Nat.lt_ge_cases (length l) bs) as [H|H].
    - rewrite full_short by assumption. assumption.
    - rewrite full_long by assumption. cbn [snd].
      apply (IH (length (skipn bs l))); [rewrite skipn_length; lia|reflexivity].
  Qed.

  Lemma full_concat l : concat (fst (full l)) ++ snd (full l) = l.
  Proof.
    remember (length l) as n eqn:En. revert l En.
    induction n as [n IH] using lt_wf_ind. intros l En.
    destruct (Nat.lt_ge_cases (length l) bs) as [H|H].
    - rewrite full_short by assumption. reflexivity.
    - rewrite full_long by assumption. cbn [fst snd concat].
      rewrite <- app_assoc, (IH (length (skipn bs l))); [apply firstn_skipn|rewrite skipn_length; lia|reflexivity].
  Qed.

  Lemma full_blocks_len l : Forall (fun b => length b = bs) (fst (full l)).
  Proof.
    remember (length l) as n eqn:En. revert l En.
    induction n as [n IH] using lt_wf_ind. intros l En.
    destruct (Nat.lt_ge_cases (length l) bs) as [H|H].
    - rewrite full_short by assumption. constructor.
    - rewrite full_long by assumption. cbn [fst]. constructor.
      + rewrite firstn_length. lia.
      + apply (IH (length (skipn bs l))); [rewrite skipn_length; lia|reflexivity].
  Qed.

  (** feeding more data: complete blocks of [l1 ++ l2] = those of [l1], then those of
      (remainder of [l1]) ++ [l2] *)
  Lemma full_app l1 l2 :
    full (l1 ++ l2) = (fst (full l1) ++ fst (full (snd (full l1) ++ l2)), snd (full (snd (full l1) ++ l2))).
  Proof.
    remember (length l1) as n eqn:En. revert l1 En.
    induction n as [n IH] using lt_wf_ind. intros l1 En.
    destruct (Nat.lt_ge_cases (length l1) bs) as [H|H].
    - rewrite (full_short l1) by assumption. cbn [fst snd app]. destruct (full (l1 ++ l2)); reflexivity.
    - rewrite (full_long l1) by assumption. cbn [fst snd].
      rewrite (full_long (l1 ++ l2)) by (rewrite app_length; lia).
      assert (Hf : firstn bs (l1 ++ l2) = firstn bs l1).
      { rewrite firstn_app. replace (bs - length l1) with 0 by lia. rewrite firstn_O, app_nil_r. reflexivity. }
      assert (Hs : skipn bs (l1 ++ l2) = skipn bs l1 ++ l2).
      { rewrite skipn_app. replace (bs - length l1) with 0 by lia. reflexivity. }
      rewrite Hf, Hs.
      rewrite (IH (length (skipn bs l1))); [|rewrite skipn_length; lia|reflexivity].
      cbn [fst snd]. reflexivity.
  Qed.

  (** [blocks] = complete blocks followed by the non-empty remainder *)
  Lemma blocks_aux_fuel f1 : forall f2 (l : list A), length l <= f1 -> length l <= f2 -> blocks_aux f1 bs l = blocks_aux f2 bs l.
  Proof.
    induction f1 as [|f1 IH]; intros f2 l H1 H2.
    - destruct l; [|simpl in H1; lia]. destruct f2; reflexivity.
    - destruct f2 as [|f2].
      + destruct l; [|simpl in H2; lia]. reflexivity.
      + destruct l as [|x l']; [reflexivity|]. cbn [blocks_aux]. f_equal.
        apply IH; rewrite skipn_length; cbn [length] in *; lia.
  Qed.

  Lemma blocks_aux_enough fuel (l : list A) : length l <= fuel -> blocks_aux fuel bs l = blocks bs l.
  Proof. intros H. unfold blocks. apply blocks_aux_fuel; lia. Qed.

  Lemma blocks_nil : @blocks A bs [] = [].
  Proof. reflexivity. Qed.

  Lemma blocks_cons (l : list A) : l <> [] -> blocks bs l = firstn bs l :: blocks bs (skipn bs l).
  Proof.
    intros Hl. unfold blocks at 1. destruct l as [|x l']; [congruence|].
    cbn [length blocks_aux]. f_equal.
    apply blocks_aux_enough. rewrite skipn_length. cbn [length]. lia.
  Qed.

  Lemma blocks_full (l : list A) :
    blocks bs l = fst (full l) ++ match snd (full l) with [] => [] | r => [r] end.
  Proof.
    remember (length l) as n eqn:En. revert l En.
    induction n as [n IH] using lt_wf_ind. intros l En.
    destruct (Nat.lt_ge_cases (length l) bs) as [H|H].
    - rewrite full_short by assumption. cbn [fst snd app].
      destruct l as [|x l']; [reflexivity|].
      rewrite blocks_cons by congruence.
      rewrite firstn_all2 by lia. rewrite skipn_all2 by lia. reflexivity.
    - rewrite full_long by assumption. cbn [fst snd].
      assert (l <> []) by (destruct l; [simpl in H; lia|congruence]).
      rewrite blocks_cons by assumption. cbn [app]. f_equal.
      apply (IH (length (skipn bs l))); [rewrite skipn_length; lia|reflexivity].
  Qed.

  Lemma skipn_skipn_add (n m : nat) (l : list A) : skipn n (skipn m l) = skipn (m + n) l.
  Proof.
    revert l. induction m as [|m IH]; intros l; cbn [plus]; [reflexivity|].
    destruct l as [|x l']; [destruct n; reflexivity|]. cbn [skipn]. apply IH.
  Qed.

  (** the j-th block is the j-th window of [bs] elements *)
  Lemma blocks_nth j : forall (l : list A), j * bs < length l ->
    nth_error (blocks bs l) j = Some (firstn bs (skipn (j * bs) l)).
  Proof.
    induction j as [|j IH]; intros l Hl.
    - assert (l <> []) by (destruct l; [cbn in Hl; lia|congruence]).
      rewrite blocks_cons by assumption. reflexivity.
    - assert (l <> []) by (destruct l; [cbn in Hl; lia|congruence]).
      rewrite blocks_cons by assumption. cbn [nth_error].
      rewrite IH by (rewrite skipn_length; lia).
      rewrite skipn_skipn_add. replace (bs + j * bs) with (S j * bs) by lia. reflexivity.
  Qed.

  Lemma blocks_nth_none j : forall (l : list A), length l <= j * bs -> nth_error (blocks bs l) j = None.
  Proof.
    induction j as [|j IH]; intros l Hl.
    - destruct l; [reflexivity|cbn in Hl; lia].
    - destruct l as [|x l'] eqn:E; [reflexivity|]. rewrite <- E in *.
      rewrite blocks_cons by (subst; congruence). cbn [nth_error].
      apply IH. rewrite skipn_length. lia.
  Qed.

  Lemma blocks_length_iff j (l : list A) : j < length (blocks bs l) <-> j * bs < length l.
  Proof.
    split; intros Hj.
    - destruct (Nat.lt_ge_cases (j * bs) (length l)) as [|Hge]; [assumption|].
      apply blocks_nth_none in Hge. apply nth_error_None in Hge. lia.
    - apply nth_error_Some. rewrite blocks_nth by assumption. discriminate.
  Qed.

  (** the number of blocks is the ceiling of length / bs *)
  Lemma blocks_length_bounds (l : list A) : l <> [] ->
    (length (blocks bs l) - 1) * bs < length l <= length (blocks bs l) * bs.
  Proof.
    intros Hl. set (n := length (blocks bs l)).
    assert (Hn : 0 < n).
    { unfold n. rewrite blocks_cons by assumption. cbn. lia. }
    split.
    - apply blocks_length_iff. lia.
    - destruct (Nat.lt_ge_cases (length l) (n * bs)) as [|Hge]; [lia|].
      destruct (Nat.eq_dec (length l) (n * bs)) as [|Hne]; [lia|].
      assert (n < length (blocks bs l)) by (apply blocks_length_iff; lia). unfold n in *. lia.
  Qed.

  Lemma blocks_nth_length j (l : list A) b : nth_error (blocks bs l) j = Some b ->
    length b = Nat.min bs (length l - j * bs) /\ j * bs < length l.
  Proof.
    intros Hn. assert (Hj : j < length (blocks bs l)) by (apply nth_error_Some; congruence).
    apply blocks_length_iff in Hj. rewrite blocks_nth in Hn by assumption. inversion Hn.
    rewrite firstn_length, skipn_length. split; lia.
  Qed.

End Blocks.

Lemma nth_error_firstn_lt {A} (k : nat) : forall (l : list A) n, n < k -> nth_error (firstn k l) n = nth_error l n.
Proof.
  induction k as [|k IH]; intros l n Hn; [lia|].
  destruct l as [|x l']; [destruct n; reflexivity|].
  destruct n as [|n]; [reflexivity|]. cbn [firstn nth_error]. apply IH. lia.
Qed.

Lemma nth_error_skipn_add {A} (k : nat) : forall (l : list A) n, nth_error (skipn k l) n = nth_error l (k + n).
Proof.
  induction k as [|k IH]; intros l n; [reflexivity|].
  destruct l as [|x l']; [destruct n; reflexivity|]. cbn [skipn plus nth_error]. apply IH.
Qed.

Lemma nth_error_ext_eq {A} : forall (l1 l2 : list A), (forall n, nth_error l1 n = nth_error l2 n) -> l1 = l2.
Proof.
  induction l1 as [|x l1 IH]; intros l2 Hn.
  - destruct l2 as [|y l2]; [reflexivity|]. specialize (Hn 0). discriminate.
  - destruct l2 as [|y l2]; [specialize (Hn 0); discriminate|].
    pose proof (Hn 0) as H0. cbn in H0. inversion H0. subst y. f_equal.
    apply IH. intros n. exact (Hn (S n)).
Qed.
