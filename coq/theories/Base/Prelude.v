(** Shared definitions: bytes are [N], run-length expansion for compact case files,
    block splitting.  Model code only; lemmas live in [Base/BlocksLemmas.v]. *)
From Coq Require Export List NArith ZArith Arith Bool Lia.
Export ListNotations.

Definition byte := N.

(** [expand] : run-length encoded contents, used by generated case files so that
    64 KiB blocks do not have to be spelled out. *)
Fixpoint expand (rle : list (N * N)) : list N :=
  match rle with
  | [] => []
  | (v, c) :: r => repeat v (N.to_nat c) ++ expand r
  end.

(** [blocks bs l] : [l] cut into consecutive pieces of [bs] elements, the last one
    possibly shorter; nothing for the empty list. *)
Fixpoint blocks_aux {A} (fuel bs : nat) (l : list A) : list (list A) :=
  match fuel with
  | O => []
  | S f => match l with
           | [] => []
           | _ => firstn bs l :: blocks_aux f bs (skipn bs l)
           end
  end.
Definition blocks {A} (bs : nat) (l : list A) : list (list A) := blocks_aux (length l) bs l.

Fixpoint list_eqb {A} (eqb : A -> A -> bool) (a b : list A) : bool :=
  match a, b with
  | [], [] => true
  | x :: a', y :: b' => eqb x y && list_eqb eqb a' b'
  | _, _ => false
  end.

Definition nlist_eqb := list_eqb N.eqb.

(** three-valued outcome used by every fuelled loop of the models *)
Inductive outcome := Done | Failed | OutOfFuel.
Definition outcome_eqb (a b : outcome) : bool :=
  match a, b with Done, Done | Failed, Failed | OutOfFuel, OutOfFuel => true | _, _ => false end.
