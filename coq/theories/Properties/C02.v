(** C02 — in-place apply equals fresh apply and leaves the old build intact until commit.
    Only statements, [exact], and [Print Assumptions].  Models: Bowl/FSmini.v (private
    filesystem model), Bowl/OverlayCommit.v (patch phase bookkeeping + the five commit phases,
    following the repaired code), vocabulary of the hypotheses: Bowl/CommitSpec.v; proofs:
    Bowl/*Proofs.v, Bowl/CommitExamples.v.

    Terminology as in the Go code: target = old build, source = new build; a transposition
    (P, K) says "new file P is old file K, whole".  [order1], [order2] are the two Go map
    iterations of applyTranspositions, [go] the order in which ghosts are visited. *)
From Coq Require Import Permutation Sorting.Sorted.
From Wharf Require Import Base.Prelude Bowl.FSmini Bowl.OverlayCommit Bowl.OverlayCommitProofs Bowl.CommitSpec
  Bowl.CommitMainProofs Bowl.CommitExamples Bowl.PatchPhaseProofs.

(** Main statement.  For well-formed builds, a patch-phase result that describes the new build in
    terms of the old one ([patch_sound]: every new file is a whole old file, an old file at the
    same path plus a correct overlay, or a staged whole file), under H_kinds, for ALL orders of
    the two map iterations and ALL admissible ghost orders: Commit succeeds and the tree is
    exactly the new build's tree (same entries, bytes, link destinations, nothing else - hence
    no entry of the old build survives unless it is also in the new one, and no temporary name
    survives).  The hypothesis H_names of the plan is gone: since fix 6e6243c temporary names
    avoid every name that either build uses, and the model follows that code. *)
Theorem commit_equals_new :
  forall (ob nb : build) (w : work) (st : stage),
    wf_build ob -> wf_build nb -> patch_sound ob nb w st -> H_kinds ob nb w ->
  forall (order1 order2 : list path) (go : list ghost),
    Permutation order1 (trans_keys w) -> Permutation order2 (trans_keys w) -> ghost_order_ok nb ob go ->
    exists t', commit (cont ob) (cont nb) w st order1 order2 go (tree_of ob) = Ok t' /\
               forall p, lookup t' p = lookup (tree_of nb) p.
Proof. exact commit_equals_new_lemma. Qed.
Print Assumptions commit_equals_new.

(** Until Commit starts the directory holding the old build is not modified at all: every
    write of the patch phase goes to the stage. *)
Theorem untouched_before_commit :
  forall (mk_overlay : list N -> list N -> list ovop) (oc : container) (steps : list pstep) (wd : world),
    out (patch_phase mk_overlay oc steps wd) = out wd.
Proof. exact patch_phase_out. Qed.
Print Assumptions untouched_before_commit.

(** The bookkeeping of the patch phase ([GetWriter]: overlay when the old build has a file at that
    path, staged whole file otherwise, each marked once; [Transpose]) yields a sound result
    whenever the bowl calls describe the new build - every new file exactly once, either as a
    transposition of an equal old file or as a write of its content - and the overlay writer is
    correct (property C14: applying [mk_overlay cur new] to [cur] gives [new]). *)
Theorem patch_phase_sound :
  forall (mk_overlay : list N -> list N -> list ovop),
    (forall cur new, apply_ops (mk_overlay cur new) cur = new) ->
  forall (ob nb : build), wf_build ob ->
  forall (steps : list pstep), steps_describe ob nb steps ->
    let wd := patch_phase mk_overlay (cont ob) steps (world0 ob) in
    out wd = tree_of ob /\ patch_sound ob nb (wk wd) (stg wd).
Proof. exact patch_phase_sound_lemma. Qed.
Print Assumptions patch_phase_sound.

(** End to end: patch phase, then Commit, from the bowl calls to the new build. *)
Theorem inplace_apply_equals_new :
  forall (mk_overlay : list N -> list N -> list ovop),
    (forall cur new, apply_ops (mk_overlay cur new) cur = new) ->
  forall (ob nb : build) (steps : list pstep),
    wf_build ob -> wf_build nb -> steps_describe ob nb steps ->
    let wd := patch_phase mk_overlay (cont ob) steps (world0 ob) in
    H_kinds ob nb (wk wd) ->
  forall (order1 order2 : list path) (go : list ghost),
    Permutation order1 (trans_keys (wk wd)) -> Permutation order2 (trans_keys (wk wd)) -> ghost_order_ok nb ob go ->
    out wd = tree_of ob /\
    exists t', commit (cont ob) (cont nb) (wk wd) (stg wd) order1 order2 go (out wd) = Ok t' /\
               forall p, lookup t' p = lookup (tree_of nb) p.
Proof. exact inplace_apply_lemma. Qed.
Print Assumptions inplace_apply_equals_new.

(** Go's [sort.Sort(byDecreasingLength)] (string length) and the executable model's
    deepest-first order are admissible ghost orders: any measure that grows strictly from a
    path to its extensions will do. *)
Theorem sorted_ghosts_admissible :
  forall (len : path -> nat) (nb ob : build) (go : list ghost),
    (forall a b, is_proper_prefix a b = true -> (len a < len b)%nat) ->
    Permutation go (detect_ghosts (cont nb) (cont ob)) ->
    StronglySorted (fun g1 g2 => (len (snd g2) <= len (snd g1))%nat) go ->
    ghost_order_ok nb ob go.
Proof. exact sorted_ghost_order. Qed.
Print Assumptions sorted_ghosts_admissible.

(** H_kinds cannot be dropped: on these three inputs (every other hypothesis holds) the faithful
    model of Commit does not produce the new build - the known findings DESIGN 7 #9 and #10,
    reproduced on the implementation by the corpus cases of the harness:
      - old file x, new symlink x + new file y = old x: Commit returns nil, y is the symlink, x is gone;
      - non-empty directory d replaced by a file d: Commit fails (ENOTEMPTY);
      - file x replaced by a directory x with the content moved to x/inner: Commit fails (EISDIR). *)
Theorem commit_kindswap_refuted :
  commit_fails FileToLink.ob FileToLink.nb FileToLink.w FileToLink.st FileToLink.order FileToLink.order FileToLink.go /\
  commit_fails DirToFile.ob DirToFile.nb DirToFile.w DirToFile.st DirToFile.order DirToFile.order DirToFile.go /\
  commit_fails FileToDir.ob FileToDir.nb FileToDir.w FileToDir.st FileToDir.order FileToDir.order FileToDir.go.
Proof. exact (conj file_to_link_fails (conj dir_to_file_fails file_to_dir_fails)). Qed.
Print Assumptions commit_kindswap_refuted.

(** non-vacuity: the chain a -> b -> c (b is parked under a temporary name, a is a ghost)
    satisfies every hypothesis of [commit_equals_new] *)
Example commit_hypotheses_inhabited :
  wf_build Chain.ob /\ wf_build Chain.nb /\ patch_sound Chain.ob Chain.nb Chain.w Chain.st /\ H_kinds Chain.ob Chain.nb Chain.w /\
  Permutation Chain.order (trans_keys Chain.w) /\ ghost_order_ok Chain.nb Chain.ob Chain.go.
Proof. exact (conj Chain.wf_ob (conj Chain.wf_nb (conj Chain.sound (conj Chain.kinds Chain.orders)))). Qed.

Example commit_chain_result :
  commit (cont Chain.ob) (cont Chain.nb) Chain.w Chain.st Chain.order (rev Chain.order) Chain.go (tree_of Chain.ob)
  = Ok [([P 2], File [1; 2]); ([P 3], File [3])]%N.
Proof. exact Chain.result. Qed.

(* ------------------------------------------------------------------------------------------ *)
(** * C02 composed with C14: the overlay hypothesis discharged for the real overlay writer

    [mk_overlay_c14 bufSize threshold sched junk cur new] (Compose/CommitOverlay.v) is the stage
    overlay that pwr/overlay produces and pwr/bowl applies: the C14 writer model
    ([NewOverlayWriter(r, 0, f, 0)] on the old content [cur], the Write/Flush calls [sched cur
    new], [Finalize]) at the real varint/protobuf codec writes the stage file over whatever it
    held before ([junk cur new]: the file is opened without O_TRUNC), and the file is read the way
    [OverlayPatchContext.Patch] (and the harness' [decodeOverlay]) reads it.  The names of the two
    models clash ([Skip], [Fresh], [commit], [mkW], [apply_ops]), hence the qualifiers. *)
From Wharf Require Import Overlay.Writer Overlay.Patch Overlay.Codec.
From Wharf Require Import Compose.CommitOverlay Compose.CommitOverlayProofs Compose.CommitOverlayBytes
  Compose.CommitOverlayBytesProofs Compose.CommitOverlayExample.

(** The bridge between the two models: [applyOverlays] as C14 has it - [Patch] of the stage file
    onto the old file, [Truncate] at the final position - computes C02's [apply_ops] of the
    operations the file decodes to, for any decoder and magic; a file that does not decode
    (wrong magic, bad message, no end marker) makes [Patch] fail. *)
Theorem overlay_patch_is_apply_ops :
  forall (dec : list byte -> option (Writer.op * list byte)) (magic : list byte) (cur file : list byte),
    match decode_file dec magic file with
    | Some ops => patch dec magic cur file = POk (OverlayCommit.apply_ops (conv_ops ops) cur)
    | None => forall r, patch dec magic cur file <> POk r
    end.
Proof. exact patch_is_apply_ops. Qed.
Print Assumptions overlay_patch_is_apply_ops.

(** The hypothesis of [patch_phase_sound] / [inplace_apply_equals_new] holds of the C14 writer,
    for every bufSize > 0, every threshold, every way of cutting the new content into Write calls
    with Flushes anywhere, every previous content of the stage file (from [overlay_correct] and
    [real_codec_is_prefix_code] of C14). *)
Theorem overlay_writer_satisfies_commit_hypothesis :
  forall (bufSize threshold : N), (0 < bufSize)%N ->
  forall (sched : list N -> list N -> list event) (junk : list N -> list N -> list byte),
    (forall cur new, written (sched cur new) = new) ->
  forall cur new, OverlayCommit.apply_ops (mk_overlay_c14 bufSize threshold sched junk cur new) cur = new.
Proof. exact mk_overlay_c14_ok. Qed.
Print Assumptions overlay_writer_satisfies_commit_hypothesis.

(** [patch_phase_sound] without a hypothesis on the overlay writer. *)
Theorem patch_phase_sound_overlay_instance :
  forall (bufSize threshold : N), (0 < bufSize)%N ->
  forall (sched : list N -> list N -> list event) (junk : list N -> list N -> list byte),
    (forall cur new, written (sched cur new) = new) ->
  forall (ob nb : build), wf_build ob ->
  forall (steps : list pstep), steps_describe ob nb steps ->
    let wd := patch_phase (mk_overlay_c14 bufSize threshold sched junk) (cont ob) steps (world0 ob) in
    out wd = tree_of ob /\ patch_sound ob nb (wk wd) (stg wd).
Proof. exact patch_phase_sound_overlay_instance_lemma. Qed.
Print Assumptions patch_phase_sound_overlay_instance.

(** [inplace_apply_equals_new] without a hypothesis on the overlay writer. *)
Theorem inplace_apply_equals_new_overlay_instance :
  forall (bufSize threshold : N), (0 < bufSize)%N ->
  forall (sched : list N -> list N -> list event) (junk : list N -> list N -> list byte),
    (forall cur new, written (sched cur new) = new) ->
  forall (ob nb : build) (steps : list pstep),
    wf_build ob -> wf_build nb -> steps_describe ob nb steps ->
    let wd := patch_phase (mk_overlay_c14 bufSize threshold sched junk) (cont ob) steps (world0 ob) in
    H_kinds ob nb (wk wd) ->
  forall (order1 order2 : list path) (go : list ghost),
    Permutation order1 (trans_keys (wk wd)) -> Permutation order2 (trans_keys (wk wd)) -> ghost_order_ok nb ob go ->
    out wd = tree_of ob /\
    exists t', OverlayCommit.commit (cont ob) (cont nb) (wk wd) (stg wd) order1 order2 go (out wd) = Ok t' /\
               forall p, lookup t' p = lookup (tree_of nb) p.
Proof. exact inplace_apply_overlay_instance_lemma. Qed.
Print Assumptions inplace_apply_equals_new_overlay_instance.

(** The same with the stage folder holding bytes (Compose/CommitOverlayBytes.v): an overlay
    stage file is what the C14 writer wrote, a move stage file is the written content, Commit's
    [applyOverlays] runs C14's [Patch] + truncate on the stage file ([commit_b]; every other
    phase is the C02 model).  Here every [GetWriter] call ([BWrite p evs file0]) has its own
    sequence of Write/Flush calls and its own previous stage file, so the quantification over the
    write pattern is per file, not per (old content, new content) pair.

    First: Commit on bytes is C02's Commit on the decoded stage ([decode_stage]: the file of a
    pending overlay is replaced by the operations it decodes to), provided no path is both a move
    and an overlay and every pending overlay's file decodes. *)
Theorem commit_on_bytes_is_commit_on_decoded_stage :
  forall (oc nc : container) (w : work) (st : bstage) (order1 order2 : list path) (go : list ghost) (t : fs),
    (forall p, In p (w_moves w) -> ~ In p (w_over w)) -> decodable w st ->
    commit_b oc nc w st order1 order2 go t = OverlayCommit.commit oc nc w (decode_stage w st) order1 order2 go t.
Proof. exact commit_b_decode_lemma. Qed.
Print Assumptions commit_on_bytes_is_commit_on_decoded_stage.

Theorem patch_phase_sound_bytes :
  forall (bufSize threshold : N), (0 < bufSize)%N ->
  forall (ob nb : build), wf_build ob ->
  forall (steps : list bstep), steps_describe ob nb (map erase steps) ->
    let bw := patch_phase_b bufSize threshold (cont ob) steps (bworld0 (tree_of ob)) in
    bout bw = tree_of ob /\
    patch_sound ob nb (bwk bw) (decode_stage (bwk bw) (bstg bw)) /\
    decodable (bwk bw) (bstg bw).
Proof. exact patch_phase_b_sound_lemma. Qed.
Print Assumptions patch_phase_sound_bytes.

Theorem inplace_apply_equals_new_bytes :
  forall (bufSize threshold : N), (0 < bufSize)%N ->
  forall (ob nb : build) (steps : list bstep),
    wf_build ob -> wf_build nb -> steps_describe ob nb (map erase steps) ->
    let bw := patch_phase_b bufSize threshold (cont ob) steps (bworld0 (tree_of ob)) in
    H_kinds ob nb (bwk bw) ->
  forall (order1 order2 : list path) (go : list ghost),
    Permutation order1 (trans_keys (bwk bw)) -> Permutation order2 (trans_keys (bwk bw)) -> ghost_order_ok nb ob go ->
    bout bw = tree_of ob /\
    exists t', commit_b (cont ob) (cont nb) (bwk bw) (bstg bw) order1 order2 go (bout bw) = Ok t' /\
               forall p, lookup t' p = lookup (tree_of nb) p.
Proof. exact inplace_apply_bytes_lemma. Qed.
Print Assumptions inplace_apply_equals_new_bytes.

(** Executed instance, bufSize 4 / threshold 1 (Compose/CommitOverlayExample.v): old build
    {[P 1] = 11111111, [P 2] = 56}, new build {[P 1] = 11911117, [P 3] = 56}; the patcher writes
    [P 1] as 3 bytes, a Flush, 5 bytes over a stage file holding 40 bytes of junk and transposes
    [P 2] to [P 3].  All hypotheses of [inplace_apply_equals_new_overlay_instance] hold; the
    stage overlay is SKIP 2, FRESH 9, SKIP 4, FRESH 7; Commit patches [P 1] in place, renames
    [P 2] and yields the new build - on the decoded stage and on the bytes alike. *)
Example overlay_instance_hypotheses_inhabited :
  (forall cur new, written (PatchAndRename.sched cur new) = new) /\
  wf_build PatchAndRename.ob /\ wf_build PatchAndRename.nb /\
  steps_describe PatchAndRename.ob PatchAndRename.nb PatchAndRename.steps /\
  H_kinds PatchAndRename.ob PatchAndRename.nb (wk PatchAndRename.wd) /\
  Permutation PatchAndRename.order (trans_keys (wk PatchAndRename.wd)) /\
  ghost_order_ok PatchAndRename.nb PatchAndRename.ob PatchAndRename.go.
Proof.
  exact (conj PatchAndRename.sched_ok (conj PatchAndRename.wf_ob (conj PatchAndRename.wf_nb
        (conj PatchAndRename.describe (conj PatchAndRename.kinds PatchAndRename.orders))))).
Qed.

Example overlay_instance_example :
  let ob := mkB [] [] [([P 1], [1; 1; 1; 1; 1; 1; 1; 1]); ([P 2], [5; 6])]%N in
  let nb := mkB [] [] [([P 1], [1; 1; 9; 1; 1; 1; 1; 7]); ([P 3], [5; 6])]%N in
  let steps := [PWrite [P 1] (fun _ => [1; 1; 9; 1; 1; 1; 1; 7]%N); PTranspose [P 3] [P 2]] in
  let sched := fun (cur new : list N) => [EvWrite (firstn 3 new); EvFlush; EvWrite (skipn 3 new)] in
  let junk := fun (cur new : list N) => repeat 255%N 40 in
  let wd := patch_phase (mk_overlay_c14 4 1 sched junk) (cont ob) steps (world0 ob) in
  wk wd = OverlayCommit.mkW [([P 3], [P 2])] [[P 1]] [] /\
  stg wd = [([P 1], SOverlay [OverlayCommit.Skip 2; OverlayCommit.Fresh [9%N]; OverlayCommit.Skip 4; OverlayCommit.Fresh [7%N]])] /\
  OverlayCommit.commit (cont ob) (cont nb) (wk wd) (stg wd) [[P 2]] [[P 2]] [(GFile, [P 2])] (out wd)
  = Ok [([P 1], File [1; 1; 9; 1; 1; 1; 1; 7]%N); ([P 3], File [5; 6]%N)].
Proof. vm_compute. repeat split. Qed.

Example overlay_instance_example_bytes :
  let ob := mkB [] [] [([P 1], [1; 1; 1; 1; 1; 1; 1; 1]); ([P 2], [5; 6])]%N in
  let nb := mkB [] [] [([P 1], [1; 1; 9; 1; 1; 1; 1; 7]); ([P 3], [5; 6])]%N in
  let steps := [BWrite [P 1] (fun _ => [EvWrite [1; 1; 9]; EvFlush; EvWrite [1; 1; 1; 1; 7]]%N) (repeat 255%N 40);
                BTranspose [P 3] [P 2]] in
  let bw := patch_phase_b 4 1 (cont ob) steps (bworld0 (tree_of ob)) in
  bstg bw = [([P 1], [0; 111; 239; 15; 0; 2; 16; 2; 5; 8; 1; 26; 1; 9; 2; 16; 4; 5; 8; 1; 26; 1; 7; 3; 8; 248; 15]%N
                      ++ repeat 255%N 13)] /\
  commit_b (cont ob) (cont nb) (bwk bw) (bstg bw) [[P 2]] [[P 2]] [(GFile, [P 2])] (bout bw)
  = Ok [([P 1], File [1; 1; 9; 1; 1; 1; 1; 7]%N); ([P 3], File [5; 6]%N)].
Proof. vm_compute. repeat split. Qed.

(* ------------------------------------------------------------------------------------------ *)
(** * C02's private filesystem model refines the general filesystem model of C06

    [Bowl/FSmini.v] (this property), [FS/{Tree,Ops}.v] (C06) and the model inside [Arch/Zip.v]
    (C19) were written independently and are validated against Linux by separate correspondence
    groups.  [Compose/FSAgree.v] relates them inside Coq: on the states and inputs FSmini is
    about, and wherever it does not decline ([Unmodelled]), every one of its operations returns
    what the general model returns - same errno, same resulting tree - so that only the general
    model need be trusted as a description of Linux for the inputs of the commit proof.

    Vocabulary ([Compose/FSAgree.v]; [Mi] = Bowl.FSmini, [Gt] = FS.Tree, [Go] = FS.Ops):
    [mini_path enc p], [mini_node ldest n], [mini_tree enc ldest t]: the abstraction (names through
    any injective [enc], link destinations through any [ldest]; FSmini's implicit target directory
    is the root [[]] of the general model, relative paths become paths from that root);
    [mini_sim enc ldest t T]: the general state [T] equals the abstraction of [t] as a finite map
    ([tree_equiv]; in particular [T := mini_tree enc ldest t]); [mini_wf t]: [t] is a tree (the
    empty path is not an entry, entries lie below directories); [mini_agree R r g]: [r] and [g]
    fail with the same errno or succeed with [R]-related values, and [r] is not [Unmodelled].
    Hypotheses = what FSmini assumes: well-formed state, non-empty relative paths, no link
    followed (else it declines), and for rename [mini_rename_precedence_ok] (see below). *)
From Wharf Require Import Compose.FSAgree.
From Wharf Require Compose.FSAgreeMiniProofs Compose.FSAgreeDiffer.

Theorem fsmini_lstat_refines :
  forall (enc : Mi.comp -> N) (ldest : N -> list Gt.comp), (forall a b, enc a = enc b -> a = b) ->
  forall (t : Mi.fs) (T : Gt.tree) (p : Mi.path),
    mini_sim enc ldest t T -> p <> [] -> Mi.lstat t p <> Mi.Unmodelled ->
    mini_agree (fun n n' => n' = mini_node ldest n) (Mi.lstat t p) (Go.lstat T (mini_path enc p)).
Proof. exact FSAgreeMiniProofs.fsmini_lstat_refines_lemma. Qed.
Print Assumptions fsmini_lstat_refines.

Theorem fsmini_readlink_refines :
  forall (enc : Mi.comp -> N) (ldest : N -> list Gt.comp), (forall a b, enc a = enc b -> a = b) ->
  forall (t : Mi.fs) (T : Gt.tree) (p : Mi.path),
    mini_sim enc ldest t T -> p <> [] -> Mi.readlink t p <> Mi.Unmodelled ->
    mini_agree (fun d d' => d' = ldest d) (Mi.readlink t p) (Go.readlink T (mini_path enc p)).
Proof. exact FSAgreeMiniProofs.fsmini_readlink_refines_lemma. Qed.
Print Assumptions fsmini_readlink_refines.

(** open(O_RDONLY) + read; [open_existing] (open(O_WRONLY) of an existing file, its content) *)
Theorem fsmini_read_file_refines :
  forall (enc : Mi.comp -> N) (ldest : N -> list Gt.comp), (forall a b, enc a = enc b -> a = b) ->
  forall (t : Mi.fs) (T : Gt.tree) (p : Mi.path),
    mini_sim enc ldest t T -> p <> [] -> Mi.read_file t p <> Mi.Unmodelled ->
    mini_agree (fun c c' => c' = c) (Mi.read_file t p) (Go.read_file T (mini_path enc p)).
Proof. exact FSAgreeMiniProofs.fsmini_read_file_refines_lemma. Qed.
Print Assumptions fsmini_read_file_refines.

Theorem fsmini_open_existing_refines :
  forall (enc : Mi.comp -> N) (ldest : N -> list Gt.comp), (forall a b, enc a = enc b -> a = b) ->
  forall (t : Mi.fs) (T : Gt.tree) (p : Mi.path),
    mini_sim enc ldest t T -> p <> [] -> Mi.open_existing t p <> Mi.Unmodelled ->
    mini_agree (fun c c' => c' = c) (Mi.open_existing t p) (gen_open_existing T (mini_path enc p)).
Proof. exact FSAgreeMiniProofs.fsmini_open_existing_refines_lemma. Qed.
Print Assumptions fsmini_open_existing_refines.

(** os.Remove (unlink, else rmdir of an empty directory; ENOTEMPTY otherwise) *)
Theorem fsmini_remove_refines :
  forall (enc : Mi.comp -> N) (ldest : N -> list Gt.comp), (forall a b, enc a = enc b -> a = b) ->
  forall (t : Mi.fs) (T : Gt.tree) (p : Mi.path),
    mini_sim enc ldest t T -> p <> [] -> Mi.remove t p <> Mi.Unmodelled ->
    mini_agree (mini_sim enc ldest) (Mi.remove t p) (Go.remove T (mini_path enc p)).
Proof. exact FSAgreeMiniProofs.fsmini_remove_refines_lemma. Qed.
Print Assumptions fsmini_remove_refines.

(** os.RemoveAll; well-formedness matters: a missing path has nothing below it *)
Theorem fsmini_remove_all_refines :
  forall (enc : Mi.comp -> N) (ldest : N -> list Gt.comp), (forall a b, enc a = enc b -> a = b) ->
  forall (t : Mi.fs) (T : Gt.tree) (p : Mi.path),
    mini_wf t -> mini_sim enc ldest t T -> p <> [] -> Mi.remove_all t p <> Mi.Unmodelled ->
    mini_agree (mini_sim enc ldest) (Mi.remove_all t p) (Go.remove_all T (mini_path enc p)).
Proof. exact FSAgreeMiniProofs.fsmini_remove_all_refines_lemma. Qed.
Print Assumptions fsmini_remove_all_refines.

(** os.MkdirAll (also of the target directory itself: the empty path is allowed here); the
    general model follows Go's implementation (Stat, recursion on the parent, Mkdir, Lstat),
    FSmini walks down from the top - same errno (ENOTDIR over or below a file), same tree *)
Theorem fsmini_mkdir_all_refines :
  forall (enc : Mi.comp -> N) (ldest : N -> list Gt.comp), (forall a b, enc a = enc b -> a = b) ->
  forall (t : Mi.fs) (T : Gt.tree) (p : Mi.path),
    mini_wf t -> mini_sim enc ldest t T -> Mi.mkdir_all t p <> Mi.Unmodelled ->
    mini_agree (fun t' T' => mini_sim enc ldest t' T' /\ mini_wf t') (Mi.mkdir_all t p) (Go.mkdir_all T (mini_path enc p)).
Proof. exact FSAgreeMiniProofs.fsmini_mkdir_all_refines_lemma. Qed.
Print Assumptions fsmini_mkdir_all_refines.

Theorem fsmini_symlink_refines :
  forall (enc : Mi.comp -> N) (ldest : N -> list Gt.comp), (forall a b, enc a = enc b -> a = b) ->
  forall (t : Mi.fs) (T : Gt.tree) (d : N) (p : Mi.path),
    mini_sim enc ldest t T -> p <> [] -> Mi.symlink t d p <> Mi.Unmodelled ->
    mini_agree (mini_sim enc ldest) (Mi.symlink t d p) (Go.symlink T (ldest d) (mini_path enc p)).
Proof. exact FSAgreeMiniProofs.fsmini_symlink_refines_lemma. Qed.
Print Assumptions fsmini_symlink_refines.

(** [create_trunc] = open(O_CREATE|O_WRONLY|O_TRUNC) followed by one write through the
    descriptor ([gen_create] = [Go.open_trunc] then [Go.write_fd]) *)
Theorem fsmini_write_refines :
  forall (enc : Mi.comp -> N) (ldest : N -> list Gt.comp), (forall a b, enc a = enc b -> a = b) ->
  forall (t : Mi.fs) (T : Gt.tree) (p : Mi.path) (c : list N),
    mini_sim enc ldest t T -> p <> [] -> Mi.create_trunc t p c <> Mi.Unmodelled ->
    mini_agree (mini_sim enc ldest) (Mi.create_trunc t p c) (gen_create T (mini_path enc p) c).
Proof. exact FSAgreeMiniProofs.fsmini_write_refines_lemma. Qed.
Print Assumptions fsmini_write_refines.

(** Go's os.Rename against [Go.rename] (Lstat of the new name, then rename(2)): same errno
    (EEXIST onto any existing directory, also an ancestor; EINVAL into itself; ENOTDIR directory
    onto file; ENOENT / ENOTDIR from either path) and same tree (a directory moves with its
    subtree; a file replaces a file or a link), EXCEPT on the inputs excluded by
    [mini_rename_precedence_ok]: old name missing in an existing directory while the new name
    lies below a regular file - FSmini says ENOENT, the general model and Linux ENOTDIR
    ([fsmini_rename_errno_differs] below). *)
Theorem fsmini_rename_refines :
  forall (enc : Mi.comp -> N) (ldest : N -> list Gt.comp), (forall a b, enc a = enc b -> a = b) ->
  forall (t : Mi.fs) (T : Gt.tree) (src dst : Mi.path),
    mini_wf t -> mini_sim enc ldest t T -> src <> [] -> dst <> [] ->
    mini_rename_precedence_ok t src dst = true -> Mi.rename t src dst <> Mi.Unmodelled ->
    mini_agree (fun t' T' => mini_sim enc ldest t' T' /\ mini_wf t')
               (Mi.rename t src dst) (Go.rename T (mini_path enc src) (mini_path enc dst)).
Proof. exact FSAgreeMiniProofs.fsmini_rename_refines_lemma. Qed.
Print Assumptions fsmini_rename_refines.

(** Summary.  [mini_run ldest t ops]: the operations [ops] (any of the ten above) one after the
    other in FSmini, [None] as soon as one is declined; [gen_run enc ldest T ops]: the
    corresponding calls in the general model; an outcome is (errno or success, returned
    value); [mini_ops_ok t ops]: every path is non-empty (MkdirAll excepted) and no rename is of
    the excluded class, in the state in which it runs.  Any sequence that FSmini does not
    decline gives, from any general state standing for [t] - in particular from
    [mini_tree enc ldest t] ([fsmini_refines_fs_image]) - the same outcome for every operation
    and the same final tree, which is again well-formed. *)
Theorem fsmini_refines_fs :
  forall (enc : Mi.comp -> N) (ldest : N -> list Gt.comp), (forall a b, enc a = enc b -> a = b) ->
  forall (ops : list mini_op) (t : Mi.fs) (T : Gt.tree) (outs : list call_outcome) (t' : Mi.fs),
    mini_wf t -> mini_sim enc ldest t T -> mini_ops_ok t ops = true ->
    mini_run ldest t ops = Some (outs, t') ->
    exists T', gen_run enc ldest T ops = (outs, T') /\ mini_sim enc ldest t' T' /\ mini_wf t'.
Proof. exact FSAgreeMiniProofs.fsmini_refines_fs_lemma. Qed.
Print Assumptions fsmini_refines_fs.

Theorem fsmini_refines_fs_image :
  forall (enc : Mi.comp -> N) (ldest : N -> list Gt.comp), (forall a b, enc a = enc b -> a = b) ->
  forall (t : Mi.fs) (ops : list mini_op) (outs : list call_outcome) (t' : Mi.fs),
    mini_wf t -> mini_ops_ok t ops = true -> mini_run ldest t ops = Some (outs, t') ->
    exists T', gen_run enc ldest (mini_tree enc ldest t) ops = (outs, T') /\
               tree_equiv (mini_tree enc ldest t') T' /\ mini_wf t'.
Proof. exact FSAgreeMiniProofs.fsmini_refines_fs_image. Qed.
Print Assumptions fsmini_refines_fs_image.

(** the hypotheses are satisfiable: an injective numbering of FSmini's structured names, a
    decidable sufficient condition for [mini_wf], and an executed sixteen-operation sequence
    with a temporary name (ok and failing calls of every errno class reached) *)
Theorem fsmini_names_injective : forall a b, enc_std a = enc_std b -> a = b.
Proof. exact FSAgreeMiniProofs.enc_std_inj. Qed.
Print Assumptions fsmini_names_injective.

Theorem fsmini_wf_decidable : forall t, mini_wfb t = true -> mini_wf t.
Proof. exact FSAgreeMiniProofs.mini_wfb_sound. Qed.
Print Assumptions fsmini_wf_decidable.

Example fsmini_refines_fs_inhabited :
  mini_wfb FSAgreeDiffer.mini_demo_tree = true /\
  mini_ops_ok FSAgreeDiffer.mini_demo_tree FSAgreeDiffer.mini_demo_ops = true /\
  exists outs t',
    mini_run ldest_std FSAgreeDiffer.mini_demo_tree FSAgreeDiffer.mini_demo_ops = Some (outs, t') /\
    fst (gen_run enc_std ldest_std (mini_tree enc_std ldest_std FSAgreeDiffer.mini_demo_tree) FSAgreeDiffer.mini_demo_ops) = outs /\
    Gt.tree_eqb (mini_tree enc_std ldest_std t')
                (snd (gen_run enc_std ldest_std (mini_tree enc_std ldest_std FSAgreeDiffer.mini_demo_tree) FSAgreeDiffer.mini_demo_ops)) = true /\
    map fst outs = [None; None; Some Go.ENOENT; None; None; None; None; None; None; Some Go.ENOTEMPTY; None;
                    Some Go.EINVAL; None; None; None; Some Go.ENOENT].
Proof. exact FSAgreeDiffer.fsmini_refines_fs_instance. Qed.

(** Where the two models DIFFER on an input both accept (well-formed state, no link): the errno
    of os.Rename when the old name is missing and the new name lies below a regular file.
    Linux (observed): ENOTDIR - rename(2) resolves both parent directories before it looks the
    old name up.  The general model is right, FSmini reports the wrong errno (both fail, the
    tree is untouched; Commit only distinguishes ok / error for Rename, and the [fsops] group
    compares only that for rename, which is why the correspondence never flagged it). *)
Theorem fsmini_rename_errno_differs :
  let t := [([Mi.P 2], Mi.File [7%N])] in
  let src := [Mi.P 1] in let dst := [Mi.P 2; Mi.P 1] in
  mini_wfb t = true /\
  Mi.rename t src dst = Mi.Err Mi.ENOENT /\
  Go.rename (mini_tree enc_std ldest_std t) (mini_path enc_std src) (mini_path enc_std dst) = Go.Err Go.ENOTDIR /\
  mini_rename_precedence_ok t src dst = false.
Proof. exact FSAgreeDiffer.fsmini_rename_errno_differ. Qed.
Print Assumptions fsmini_rename_errno_differs.

(** ... and that is all that differs there: on every input excluded by [mini_rename_precedence_ok]
    FSmini fails with ENOENT, the general model fails with the errno of the new name's path
    (which is not ENOENT), and neither changes the tree. *)
Theorem fsmini_rename_excluded_both_fail :
  forall (enc : Mi.comp -> N) (ldest : N -> list Gt.comp), (forall a b, enc a = enc b -> a = b) ->
  forall (t : Mi.fs) (T : Gt.tree) (src dst : Mi.path),
    mini_sim enc ldest t T -> src <> [] -> mini_rename_precedence_ok t src dst = false ->
    Mi.rename t src dst = Mi.Err Mi.ENOENT /\
    exists e, Mi.parent_ok t dst = Mi.Err e /\ e <> Mi.ENOENT /\
              Go.rename T (mini_path enc src) (mini_path enc dst) = Go.Err (mini_errno e).
Proof. exact FSAgreeMiniProofs.fsmini_rename_excluded_lemma. Qed.
Print Assumptions fsmini_rename_excluded_both_fail.

(** The empty relative path (the target directory itself) is not an input of FSmini: it answers
    as for a missing entry where Linux sees a directory (Lstat ok, Symlink EEXIST, open EISDIR). *)
Theorem fsmini_empty_path_differs :
  Mi.lstat [] [] = Mi.Err Mi.ENOENT /\ Go.lstat [] [] = Go.Ok Gt.Dir /\
  Mi.symlink [] 5%N [] = Mi.Ok [([], Mi.Link 5%N)] /\ Go.symlink [] [Gt.Nm 5%N] [] = Go.Err Go.EEXIST /\
  Mi.create_trunc [] [] [9%N] = Mi.Ok [([], Mi.File [9%N])] /\ gen_create [] [] [9%N] = Go.Err Go.EISDIR /\
  Mi.remove [] [] = Mi.Err Mi.ENOENT /\ Go.remove [] [] = Go.Err Go.EBUSY /\
  Mi.remove_all [] [] = Mi.Ok [] /\ Go.remove_all [] [] = Go.Err Go.EINVAL /\
  Mi.mkdir_all [] [] = Mi.Ok [] /\ Go.mkdir_all [] [] = Go.Ok [].
Proof. exact FSAgreeDiffer.fsmini_root_differ. Qed.
