(** C02 — in-place apply equals fresh apply and leaves the old build intact until commit.
    Only statements, [exact], and [Print Assumptions].  Models: Bowl/FSmini.v (private
    filesystem model), Bowl/OverlayCommit.v (patch phase bookkeeping + the five commit phases,
    following the repaired code), vocabulary of the hypotheses: Bowl/CommitSpec.v; proofs:
    Bowl/*Proofs.v, Bowl/CommitExamples.v.

    Terminology as in the Go code: target = old build, source = new build; a transposition
    (P, K) says "new file P is old file K, whole".  [order1], [order2] are the two Go map
    iterations of applyTranspositions, [go] the order in which ghosts are visited. *)
From Coq Require Import Permutation Sorting.Sorted.
From Wharf Require Import Base.Prelude Bowl.FSmini Bowl.OverlayCommit Bowl.OverlayCommitProofs Bowl.CommitSpec
  Bowl.CommitMainProofs Bowl.CommitExamples Bowl.PatchPhaseProofs.

(** Main statement.  For well-formed builds, a patch-phase result that describes the new build in
    terms of the old one ([patch_sound]: every new file is a whole old file, an old file at the
    same path plus a correct overlay, or a staged whole file), under H_kinds, for ALL orders of
    the two map iterations and ALL admissible ghost orders: Commit succeeds and the tree is
    exactly the new build's tree (same entries, bytes, link destinations, nothing else - hence
    no entry of the old build survives unless it is also in the new one, and no temporary name
    survives).  The hypothesis H_names of the plan is gone: since fix 6e6243c temporary names
    avoid every name that either build uses, and the model follows that code. *)
Theorem commit_equals_new :
  forall (ob nb : build) (w : work) (st : stage),
    wf_build ob -> wf_build nb -> patch_sound ob nb w st -> H_kinds ob nb w ->
  forall (order1 order2 : list path) (go : list ghost),
    Permutation order1 (trans_keys w) -> Permutation order2 (trans_keys w) -> ghost_order_ok nb ob go ->
    exists t', commit (cont ob) (cont nb) w st order1 order2 go (tree_of ob) = Ok t' /\
               forall p, lookup t' p = lookup (tree_of nb) p.
Proof. exact commit_equals_new_lemma. Qed.
Print Assumptions commit_equals_new.

(** Until Commit starts the directory holding the old build is not modified at all: every
    write of the patch phase goes to the stage. *)
Theorem untouched_before_commit :
  forall (mk_overlay : list N -> list N -> list ovop) (oc : container) (steps : list pstep) (wd : world),
    out (patch_phase mk_overlay oc steps wd) = out wd.
Proof. exact patch_phase_out. Qed.
Print Assumptions untouched_before_commit.

(** The bookkeeping of the patch phase ([GetWriter]: overlay when the old build has a file at that
    path, staged whole file otherwise, each marked once; [Transpose]) yields a sound result
    whenever the bowl calls describe the new build - every new file exactly once, either as a
    transposition of an equal old file or as a write of its content - and the overlay writer is
    correct (property C14: applying [mk_overlay cur new] to [cur] gives [new]). *)
Theorem patch_phase_sound :
  forall (mk_overlay : list N -> list N -> list ovop),
    (forall cur new, apply_ops (mk_overlay cur new) cur = new) ->
  forall (ob nb : build), wf_build ob ->
  forall (steps : list pstep), steps_describe ob nb steps ->
    let wd := patch_phase mk_overlay (cont ob) steps (world0 ob) in
    out wd = tree_of ob /\ patch_sound ob nb (wk wd) (stg wd).
Proof. exact patch_phase_sound_lemma. Qed.
Print Assumptions patch_phase_sound.

(** End to end: patch phase, then Commit, from the bowl calls to the new build. *)
Theorem inplace_apply_equals_new :
  forall (mk_overlay : list N -> list N -> list ovop),
    (forall cur new, apply_ops (mk_overlay cur new) cur = new) ->
  forall (ob nb : build) (steps : list pstep),
    wf_build ob -> wf_build nb -> steps_describe ob nb steps ->
    let wd := patch_phase mk_overlay (cont ob) steps (world0 ob) in
    H_kinds ob nb (wk wd) ->
  forall (order1 order2 : list path) (go : list ghost),
    Permutation order1 (trans_keys (wk wd)) -> Permutation order2 (trans_keys (wk wd)) -> ghost_order_ok nb ob go ->
    out wd = tree_of ob /\
    exists t', commit (cont ob) (cont nb) (wk wd) (stg wd) order1 order2 go (out wd) = Ok t' /\
               forall p, lookup t' p = lookup (tree_of nb) p.
Proof. exact inplace_apply_lemma. Qed.
Print Assumptions inplace_apply_equals_new.

(** Go's [sort.Sort(byDecreasingLength)] (string length) and the executable model's
    deepest-first order are admissible ghost orders: any measure that grows strictly from a
    path to its extensions will do. *)
Theorem sorted_ghosts_admissible :
  forall (len : path -> nat) (nb ob : build) (go : list ghost),
    (forall a b, is_proper_prefix a b = true -> (len a < len b)%nat) ->
    Permutation go (detect_ghosts (cont nb) (cont ob)) ->
    StronglySorted (fun g1 g2 => (len (snd g2) <= len (snd g1))%nat) go ->
    ghost_order_ok nb ob go.
Proof. exact sorted_ghost_order. Qed.
Print Assumptions sorted_ghosts_admissible.

(** H_kinds cannot be dropped: on these three inputs (every other hypothesis holds) the faithful
    model of Commit does not produce the new build - the known findings DESIGN 7 #9 and #10,
    reproduced on the implementation by the corpus cases of the harness:
      - old file x, new symlink x + new file y = old x: Commit returns nil, y is the symlink, x is gone;
      - non-empty directory d replaced by a file d: Commit fails (ENOTEMPTY);
      - file x replaced by a directory x with the content moved to x/inner: Commit fails (EISDIR). *)
Theorem commit_kindswap_refuted :
  commit_fails FileToLink.ob FileToLink.nb FileToLink.w FileToLink.st FileToLink.order FileToLink.order FileToLink.go /\
  commit_fails DirToFile.ob DirToFile.nb DirToFile.w DirToFile.st DirToFile.order DirToFile.order DirToFile.go /\
  commit_fails FileToDir.ob FileToDir.nb FileToDir.w FileToDir.st FileToDir.order FileToDir.order FileToDir.go.
Proof. exact (conj file_to_link_fails (conj dir_to_file_fails file_to_dir_fails)). Qed.
Print Assumptions commit_kindswap_refuted.

(** non-vacuity: the chain a -> b -> c (b is parked under a temporary name, a is a ghost)
    satisfies every hypothesis of [commit_equals_new] *)
Example commit_hypotheses_inhabited :
  wf_build Chain.ob /\ wf_build Chain.nb /\ patch_sound Chain.ob Chain.nb Chain.w Chain.st /\ H_kinds Chain.ob Chain.nb Chain.w /\
  Permutation Chain.order (trans_keys Chain.w) /\ ghost_order_ok Chain.nb Chain.ob Chain.go.
Proof. exact (conj Chain.wf_ob (conj Chain.wf_nb (conj Chain.sound (conj Chain.kinds Chain.orders)))). Qed.

Example commit_chain_result :
  commit (cont Chain.ob) (cont Chain.nb) Chain.w Chain.st Chain.order (rev Chain.order) Chain.go (tree_of Chain.ob)
  = Ok [([P 2], File [1; 2]); ([P 3], File [3])]%N.
Proof. exact Chain.result. Qed.
