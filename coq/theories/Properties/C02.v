(** C02 — in-place apply equals fresh apply and leaves the old build intact until commit.
    Only statements, [exact], and [Print Assumptions]; models in Bowl/FSmini.v and
    Bowl/OverlayCommit.v, proofs in Bowl/*Proofs.v. *)
From Wharf Require Import Base.Prelude Bowl.FSmini Bowl.OverlayCommit Bowl.OverlayCommitProofs.

(** Until Commit starts the directory holding the old build is not modified at all: every
    write of the patch phase goes to the stage. *)
Theorem untouched_before_commit :
  forall (mk_overlay : list N -> list N -> list ovop) (oc : container) (steps : list pstep) (wd : world),
    out (patch_phase mk_overlay oc steps wd) = out wd.
Proof. exact patch_phase_out. Qed.
Print Assumptions untouched_before_commit.
