(** C14 — an overlay turns the old file into the new file, whatever the write pattern.
    Only statements, [exact], and [Print Assumptions]; the model is Overlay/Writer.v (writer,
    bufio protocol, sessions) + Overlay/Patch.v (Patch + truncate), the proofs are in
    Overlay/{FastProofs,WindowProofs,WriterProofs,SessionProofs,CodecProofs}.v.

    [bufSize] (128 KiB in Go) and [threshold] (8 KiB) are arbitrary; the message encoding
    [enc]/[dec] and the [magic] bytes are arbitrary too, as long as a message followed by
    anything decodes to itself ([dec_enc]; proved for the real varint/protobuf encoding in
    [real_codec_is_prefix_code]).  Modelling assumptions (see the headers of the model files):
    the old-file reader returns full reads until the end of the file; reads and writes do not
    fail; the patched file behaves like a POSIX file under forward seek / write / truncate. *)
From Wharf Require Import Base.Prelude Overlay.Writer Overlay.Patch Overlay.Codec
  Overlay.WindowProofs Overlay.WriterProofs Overlay.SessionProofs Overlay.CodecProofs
  Exec.C14Sweep Overlay.SweepProofs.
Local Open Scope N_scope.

(** One session: for any old content, any sequence of Write calls (of any sizes, empty ones
    included) and Flush calls at any points, followed by Finalize: no loop of the writer hangs
    or fails, and applying the overlay file to the old content and truncating at the final
    position gives exactly the concatenation of what was written.  [file0] is whatever the
    overlay file held before (it is opened without O_TRUNC). *)
Theorem overlay_correct :
  forall (bufSize threshold : N) (enc : op -> list byte) (dec : list byte -> option (op * list byte)) (magic : list byte),
    0 < bufSize ->
    (forall o rest, dec (enc o ++ rest) = Some (o, rest)) ->
  forall (old : list byte) (evs : list event) (file0 : list byte),
    let st := finalize bufSize threshold enc (run_events bufSize threshold enc (new_writer enc magic old 0 0) evs) in
    w_fail st = false /\
    patch dec magic old (write_at file0 0 (session_bytes st)) = POk (written evs).
Proof. exact overlay_correct_lemma. Qed.
Print Assumptions overlay_correct.

(** After a Flush (at any point of any session opened at offsets [roff]/[ooff]): ReadOffset()
    is the offset the session started from plus the number of bytes written to the writer
    since, OverlayOffset() is the starting overlay offset plus the number of bytes the writer
    has put into the overlay file, and the buffer is empty. *)
Theorem offsets_exact_after_flush :
  forall (bufSize threshold : N) (enc : op -> list byte) (magic : list byte),
    0 < bufSize ->
  forall (old : list byte) (roff ooff : N) (evs : list event),
    let st := bw_flush bufSize threshold enc (run_events bufSize threshold enc (new_writer enc magic old roff ooff) evs) in
    w_roff st = roff + len (written evs) /\
    w_ooff st = ooff + len (session_bytes st) /\
    w_bn st = 0 /\ w_bbuf st = [] /\ w_fail st = false.
Proof. exact offsets_exact_lemma. Qed.
Print Assumptions offsets_exact_after_flush.

(** Any number of sessions: every session but the last ends with a Flush whose reported
    offsets are where the next one is opened; in between, the overlay file keeps its bytes up
    to the saved overlay offset and *anything* ([stale], chosen per session) after it - the
    lost tail of the dead process, junk, an old end marker.  After the last session's
    Finalize, patch + truncate gives the concatenation of everything written in all sessions. *)
Theorem overlay_sessions :
  forall (bufSize threshold : N) (enc : op -> list byte) (dec : list byte -> option (op * list byte)) (magic : list byte),
    0 < bufSize ->
    (forall o rest, dec (enc o ++ rest) = Some (o, rest)) ->
  forall (old : list byte) (ss : list (list event * list byte)) (last : list event) (file0 : list byte),
    let '(f, fail, _) := run_sessions bufSize threshold enc magic old file0 0 0 ss last in
    fail = false /\
    patch dec magic old f = POk (concat (map (fun s => written (fst s)) ss) ++ written last).
Proof. exact overlay_sessions_lemma. Qed.
Print Assumptions overlay_sessions.

(** The resume point is sound on its own: in a state reachable by earlier sessions ([pre]),
    the overlay cut at the overlay offset reported after a Flush and closed by an end marker
    applies to the old file and gives exactly what has been written so far. *)
Theorem flushed_prefix_applies :
  forall (bufSize threshold : N) (enc : op -> list byte) (dec : list byte -> option (op * list byte)) (magic : list byte),
    0 < bufSize ->
    (forall o rest, dec (enc o ++ rest) = Some (o, rest)) ->
  forall (old file : list byte) (roff ooff : N) (allops : list op) (fed : list byte) (evs : list event) (junk : list byte),
    pre enc magic old file roff ooff allops fed ->
    let st := bw_flush bufSize threshold enc (run_events bufSize threshold enc (new_writer enc magic old roff ooff) evs) in
    patch dec magic old (firstn (N.to_nat (w_ooff st)) (write_at file ooff (session_bytes st)) ++ enc EndMark ++ junk)
    = POk (fed ++ written evs).
Proof. exact flushed_prefix_lemma. Qed.
Print Assumptions flushed_prefix_applies.

(** The core: the messages emitted for one window [buf], compared with what a read of
    [length buf] bytes returned ([rb], shorter only at the end of the old file), applied at a
    cursor standing at the window's start in the old file, write exactly [buf] and leave the
    cursor at the window's end - so their lengths add up to the window and SKIP only ever
    stands for bytes that are the same in the old file and in the window. *)
Theorem window_ok :
  forall (threshold : N) (buf rb rest before : list byte),
    (length rb <= length buf)%nat ->
    ((length rb < length buf)%nat -> rest = []) ->
    apply_ops (write_window threshold rb buf) (before, rb ++ rest) = (rev buf ++ before, rest) /\
    Forall not_end (write_window threshold rb buf).
Proof. exact WindowProofs.window_ok. Qed.
Print Assumptions window_ok.

Theorem window_lengths :
  forall (threshold : N) (buf rb rest : list byte),
    (length rb <= length buf)%nat ->
    ((length rb < length buf)%nat -> rest = []) ->
    ops_len (write_window threshold rb buf) = len buf.
Proof. exact window_len. Qed.
Print Assumptions window_lengths.

(** The hypothesis about the encoding holds for the real wire format (uvarint length prefix +
    proto3 fields of OverlayOp) that Exec/C14.v uses: the theorems are not vacuous. *)
Theorem real_codec_is_prefix_code : forall o rest, dec (enc o ++ rest) = Some (o, rest).
Proof. exact dec_enc_real. Qed.
Print Assumptions real_codec_is_prefix_code.

(** The statement of [overlay_correct] / [overlay_sessions] evaluated exhaustively in the model at
    tiny parameters (window 4 / threshold 1 up to 6 bytes, 3/1, 2/0, 1/2): every new content
    over two symbols, every old length, every partition into writes, with and without flushes,
    every two-session split with stale bytes (Exec/C14Sweep.v).  A test of the statement and
    of the executable instantiation, not a substitute for the proofs above. *)
Theorem tiny_parameter_sweep :
  sweep 4 1 6 = true /\ sweep 3 1 6 = true /\ sweep 2 0 5 = true /\ sweep 1 2 4 = true.
Proof. exact (conj sweep_4_1 (conj sweep_3_1 (conj sweep_2_0 sweep_1_2))). Qed.
Print Assumptions tiny_parameter_sweep.

(** non-vacuity, bufSize 4 / threshold 1: old "aaaaaaaa", new "aaXaaaaY", written as 3+5 bytes
    with a Flush in between; the overlay holds header, SKIP 2, FRESH "X", FRESH "aaaaY"... and
    patching gives the new content *)
Example overlay_example :
  let old := [1;1;1;1;1;1;1;1] in
  let st := finalize 4 1 enc (run_events 4 1 enc (new_writer enc magic old 0 0) [EvWrite [1;1;9]; EvFlush; EvWrite [1;1;1;1;7]]) in
  patch dec magic old (write_at [] 0 (session_bytes st)) = POk [1;1;9;1;1;1;1;7]
  /\ decode_all dec 20 (skipn 4 (session_bytes st)) = Some [Skip 0; Skip 2; Fresh [9]; Skip 4; Fresh [7]; EndMark].
Proof. vm_compute. split; reflexivity. Qed.
