(** C14 — placeholder while the proofs are being written *)
From Wharf Require Import Base.Prelude Overlay.Writer Overlay.Patch.
