(** C10 — malformed patch / signature / overlay streams yield an error, never a crash.
    Only statements, [exact], and [Print Assumptions]; the model is Patch/Malformed.v (the readers
    of itchio/wharf fed an ARBITRARY frame list: fields are Z, kinds arbitrary, the list may stop
    anywhere or end in an unreadable frame [B]; every Go indexing / slicing / division site is an
    explicit [Panic], every unbounded loop runs on fuel and [Hang] is running out of it), the
    proofs are in Patch/MalformedProofs.v.

    [fx = true] is the tree after the five fix: commits, [fx = false] the tree before.
    No hypothesis on the containers is needed for totality (any list of sizes); the block size
    must be positive (it is the constant 64 KiB). *)
From Wharf Require Import Base.Prelude Patch.Malformed Patch.MalformedProofs.
Local Open Scope Z_scope.

(** ** After the fixes: every reader is total, fuel = number of frames (+1) suffices *)

(** processRsync (first op / isFullFileOp / ApplySingleFull arithmetic / relay loop): stops with
    Ok or Err, or hands a strictly shorter stream back to Resume *)
Theorem patcher_rsync_total :
  forall (fuel : nat) (bs maxoff : Z) (tgt : list Z) (outSize : Z) (s : stream),
    0 < bs -> (length s < fuel)%nat ->
    match process_rsync fuel true bs maxoff tgt outSize s with
    | Cont s' => (length s' < length s)%nat
    | Stop r => safe r
    end.
Proof. exact process_rsync_ok. Qed.
Print Assumptions patcher_rsync_total.

(** processBsdiff (header index, control loop with seeks / adds outside the old file, sentinel,
    final size) *)
Theorem patcher_bsdiff_total :
  forall (fuel : nat) (tgt : list Z) (outSize : Z) (s : stream),
    (length s < fuel)%nat ->
    match process_bsdiff fuel true tgt outSize s with
    | Cont s' => (length s' < length s)%nat
    | Stop r => safe r
    end.
Proof. exact process_bsdiff_ok. Qed.
Print Assumptions patcher_bsdiff_total.

(** patcher.Resume(nil): any containers, any whitelist, any file-system seek limit, any stream *)
Theorem patcher_total :
  forall (bs maxoff : Z) (tgt src : list Z) (wl : option (list Z)) (s : stream) (fuel : nat),
    0 < bs -> (length s < fuel)%nat -> safe (patcher fuel true bs maxoff tgt src wl s).
Proof. exact patcher_safe. Qed.
Print Assumptions patcher_total.

(** rediff.analyzePatch *)
Theorem rediff_analyze_total :
  forall (fuel : nat) (tgt : list Z) (srcs : list Z) (idx : Z) (s : stream),
    (length s < fuel)%nat -> safe (analyze fuel true tgt idx srcs s).
Proof. exact analyze_safe. Qed.
Print Assumptions rediff_analyze_total.

(** a stream the analysis accepted is accepted by the second pass (Optimize) as well ... *)
Theorem rediff_second_pass_follows :
  forall (fuel : nat) (fx : bool) (tgt : list Z) (srcs : list Z) (idx : Z) (s : stream),
    analyze fuel fx tgt idx srcs s = Ok -> optimize_pass fuel idx srcs s = Ok.
Proof. exact analyze_then_optimize. Qed.
Print Assumptions rediff_second_pass_follows.

(** ... hence NewContext + Optimize is total (bsdiff.Do on two well-formed non-empty files is
    outside this model: C12) *)
Theorem rediff_total :
  forall (tgt src : list Z) (s : stream) (fuel : nat),
    (length s < fuel)%nat -> safe (rediff fuel true tgt src s).
Proof. exact rediff_safe. Qed.
Print Assumptions rediff_total.

(** ReadSignature + ComputeHashInfo: fewer or more hashes than the container needs, unreadable
    frames, any capacity of the hash slice (a slice's capacity is at least its length) *)
Theorem hashinfo_total :
  forall (bs : Z) (capf : Z -> Z) (sizes : list Z) (s : stream),
    (forall n, n <= capf n) -> safe (signature true bs capf sizes s).
Proof. exact signature_safe. Qed.
Print Assumptions hashinfo_total.

(** overlay Patch (total before and after the fixes: it has no index into anything) *)
Theorem overlay_patch_total :
  forall (fuel : nat) (seekmax writemax pos : Z) (s : stream),
    (length s < fuel)%nat -> safe (overlay_patch fuel seekmax writemax pos s).
Proof. exact overlay_safe. Qed.
Print Assumptions overlay_patch_total.

(** the property: every reader, every stream, fuel = number of frames + 1: Ok or Err, never
    Panic, never Hang *)
Theorem readers_total :
  forall (bs maxoff seekmax writemax : Z) (capf : Z -> Z) (tgt src sizes : list Z) (wl : option (list Z)) (s : stream),
    0 < bs -> (forall n, n <= capf n) ->
    safe (patcher (S (length s)) true bs maxoff tgt src wl s) /\
    safe (rediff (S (length s)) true tgt src s) /\
    safe (signature true bs capf sizes s) /\
    safe (overlay_patch (S (length s)) seekmax writemax 0 s).
Proof. exact readers_safe. Qed.
Print Assumptions readers_total.

(** truncation anywhere is an instance: a prefix of the frames, optionally followed by a frame
    that was cut in the middle *)
Theorem truncation_total :
  forall (bs maxoff : Z) (tgt src : list Z) (wl : option (list Z)) (s : stream) (k : nat) (cut : bool),
    0 < bs ->
    let t := firstn k s ++ (if cut then [B] else []) in
    safe (patcher (S (length t)) true bs maxoff tgt src wl t).
Proof. exact truncation_safe. Qed.
Print Assumptions truncation_total.

(** ** The fixes only turn panics into errors *)

Theorem fix_conservative_patcher :
  forall (fuel : nat) (bs maxoff : Z) (tgt src : list Z) (wl : option (list Z)) (s : stream),
    (forall st, patcher fuel false bs maxoff tgt src wl s <> Panic st) ->
    patcher fuel true bs maxoff tgt src wl s = patcher fuel false bs maxoff tgt src wl s.
Proof. exact patcher_conservative. Qed.
Print Assumptions fix_conservative_patcher.

Theorem fix_conservative_rediff :
  forall (fuel : nat) (tgt src : list Z) (s : stream),
    (forall st, rediff fuel false tgt src s <> Panic st) ->
    rediff fuel true tgt src s = rediff fuel false tgt src s.
Proof. exact rediff_conservative. Qed.
Print Assumptions fix_conservative_rediff.

(** (well-formed container: non-negative file sizes) *)
Theorem fix_conservative_hashinfo :
  forall (bs : Z) (capf : Z -> Z) (sizes : list Z) (s : stream),
    0 < bs -> Forall (fun z => 0 <= z) sizes -> (forall n, n <= capf n) ->
    (forall st, signature false bs capf sizes s <> Panic st) ->
    signature true bs capf sizes s = signature false bs capf sizes s.
Proof. exact signature_conservative. Qed.
Print Assumptions fix_conservative_hashinfo.

(** ** Before the fixes the statements are false: one-message witnesses (well-formed one-file
       containers, 64 KiB blocks), each replayed on the implementation as a corpus case *)

Theorem patcher_rsync_refuted :
  exists (tgt src : list Z) (s : stream) (st : site),
    Forall (fun z => 0 <= z) tgt /\ Forall (fun z => 0 <= z) src /\
    patcher (S (length s)) false 65536 (2^44) tgt src None s = Panic st.
Proof. exact patcher_rsync_refuted_witness. Qed.
Print Assumptions patcher_rsync_refuted.

Theorem patcher_applysingle_refuted :
  exists (s : stream), patcher (S (length s)) false 65536 (2^44) [100] [100] None s = Panic SPoolGetSize.
Proof. exact patcher_applysingle_refuted_witness. Qed.
Print Assumptions patcher_applysingle_refuted.

Theorem patcher_negative_index_refuted :
  exists (s : stream), patcher (S (length s)) false 65536 (2^44) [100] [100] None s = Panic SIsFullFileOp.
Proof. exact patcher_negative_index_refuted_witness. Qed.
Print Assumptions patcher_negative_index_refuted.

Theorem patcher_bsdiff_refuted :
  exists (s : stream), patcher (S (length s)) false 65536 (2^44) [100] [100] None s = Panic SPoolGetReadSeeker.
Proof. exact patcher_bsdiff_refuted_witness. Qed.
Print Assumptions patcher_bsdiff_refuted.

Theorem rediff_analyze_refuted :
  exists (s : stream), rediff (S (length s)) false [100] [100] s = Panic SAnalyzePatch.
Proof. exact rediff_analyze_refuted_witness. Qed.
Print Assumptions rediff_analyze_refuted.

Theorem hashinfo_refuted :
  exists (sizes : list Z) (s : stream),
    Forall (fun z => 0 <= z) sizes /\ signature false 65536 (fun n => n) sizes s = Panic SHashInfoSlice.
Proof. exact hashinfo_refuted_witness. Qed.
Print Assumptions hashinfo_refuted.

(** ** Non-vacuity *)

Example valid_streams_are_accepted :
  let s := [ G []; G [(4, V 2)]; G [(1, V 1); (5, L 5)]; G [(1, V 2049)];
             G [(16, V 1)]; G [(2, V 1); (4, V 1)]; G [(1, V 2049)];
             G [(1, V 1); (16, V 2)]; G []; G [(1, L 100); (2, L 7); (3, V 10)]; G [(1, L 20)]; G [(4, V 1)]; G [(1, V 2049)] ] in
  patcher (S (length s)) true 65536 (2^44) [70000; 10] [70005; 10; 127] None s = Ok
  /\ patcher (S (length s)) false 65536 (2^44) [70000; 10] [70005; 10; 127] None s = Ok
  /\ patcher (S (length s)) true 65536 (2^44) [70000; 10] [70005; 10; 127] None (firstn 9 s) = Err.
Proof. exact patcher_accepts_valid. Qed.
Print Assumptions valid_streams_are_accepted.

(** ** Added (Compose/ModelsAgree.v): the C10 model and the C01 / C12 models of pwr/patcher agree

    The patcher (Resume loop, processRsync, isFullFileOp, wsync.ApplySingleFull, skipFile,
    processBsdiff, bsdiff Apply) is modelled here (Patch/Malformed.v: frames = field numbers,
    varint VALUES and payload LENGTHS; int64 arithmetic; outcome classes only) and by
    Patch/Patcher.v (C01: frames carry bytes, unbounded integers, output = a tree); bsdiff Apply
    also by Bsdiff/Patch.v (C12).  The block arithmetic (ComputeNumBlocks, ComputeBlockSize)
    exists in six resp. three transcriptions across the development.  Stated here (C10's file)
    for the pairs C01/C10, C12/C10 and for the block arithmetic; the pairs with C03 are in
    Properties/C03.v.

    Vocabulary (Compose/ModelsAgreeMalformed.v): [stream_of ms] = the C01 frames [ms] as C10 sees
    them (payloads replaced by their lengths); [sizes_of c] = the file sizes of a container;
    [aligned oldC olds] = the pool serves files of the declared sizes (C10's standing assumption);
    [step_agrees] / [res_agrees] = same outcome class (ok | error | panic) and, on ok, the same
    position in the patch; [wfile w] = the C01 entry writer is open on a regular file (C10 has no
    output directory that could fail); [seek_fits bs maxoff o] = the offset
    [blockSize * BlockIndex] of a block-range op fits int64 and the file system's seek limit -
    the ONE thing C01 does not model ("Not modelled: int64 overflow of offsets") and the only
    hypothesis about the patch: [relay_models_differ_on_wrapping_seek] shows it cannot be dropped.
    The bsdiff loops need no such hypothesis. *)
From Wharf Require Bowl.Fresh Patch.Reinterp Patch.Stream Patch.Patcher Patch.PatcherProofs Patch.Resume Sig.SigFile
     Wsync.Spec Wsync.Account Wsync.Apply Val.VPool Bsdiff.Scan Bsdiff.Patch Compose.OptimizeApply
     Compose.ModelsAgreeResume Compose.ModelsAgreeMalformed Compose.ModelsAgreeMalformedProofs
     Compose.ModelsAgreeBlocksProofs Compose.ModelsAgreeBsdiffProofs.

Section ModelsAgreeC10.
  Import Fresh Reinterp Stream Patcher ModelsAgreeResume ModelsAgreeMalformed.
  Local Open Scope Z_scope.

  (** the two proto3 decoding tables (Patch/Reinterp.v - validated against golang/protobuf by
      C17 - and the one of this property): same message, payloads seen as lengths, for every
      field list whose varints are uint64 - in particular for every frame C01 can write *)
  Theorem decoders_agree :
    forall fs : list wfield,
      Forall (fun f => match snd f with WVarint u => 0 <= u < 2^64 | WBytes _ => True end) fs ->
      M.dec_sh (map fld fs) = len_sh (Reinterp.dec_sh fs) /\ M.dec_op (map fld fs) = len_so (dec_so fs) /\
      M.dec_bh (map fld fs) = bh_target (Reinterp.dec_bh fs) /\ M.dec_ctl (map fld fs) = len_ct (dec_ct fs).
  Proof. exact ModelsAgreeMalformedProofs.decoders_agree_lemma. Qed.

  (** one iteration of the relay loop behind the end-marker test (validateOp, makeWop,
      wsync.ApplySingleFull): same class; on ok the writer is still open and - when the opSize
      arithmetic does not wrap either ([size_fits]) - C10's byte count is what C01 wrote *)
  Theorem rsync_op_models_agree_c01_c10 :
    forall (bs maxoff : Z) (oldC : container) (olds : list (list byte)),
      0 < bs -> aligned oldC olds ->
    forall (w : wst) (o : sync_op),
      wfile w -> seek_fits bs maxoff o ->
      match (if negb (validate_op oldC o) then Err else Patcher.apply_op bs oldC olds w o),
            M.apply_op true bs maxoff (sizes_of oldC) (len_so o) with
      | Ok w', M.Cont n =>
          wfile w' /\ w_path w' = w_path w /\ (size_fits bs o -> n = Z.of_nat (w_off w') - Z.of_nat (w_off w))
      | Err, M.Stop M.Err => True
      | _, _ => False
      end.
  Proof. exact ModelsAgreeMalformedProofs.op_agrees. Qed.

  (** the relay loop of processRsync ([relay_fits]: [seek_fits] for the ops up to the end marker) *)
  Theorem relay_models_agree_c01_c10 :
    forall (bs maxoff : Z) (oldC : container) (olds : list (list byte)),
      0 < bs -> aligned oldC olds ->
    forall (ms : list pmsg) (w : wst) (fuel : nat) (wc : Z),
      wfile w -> relay_fits bs maxoff ms -> (length ms < fuel)%nat ->
      step_agrees (Patcher.relay bs oldC olds ms w) (M.relay fuel true bs maxoff (sizes_of oldC) wc (stream_of ms)).
  Proof. exact ModelsAgreeMalformedProofs.relay_agrees. Qed.

  (** processRsync, both branches; [file_ready]: the output file exists below directories (what
      Prepare leaves and processing keeps), so that GetWriter / Transpose cannot fail *)
  Theorem process_rsync_models_agree_c01_c10 :
    forall (bs maxoff : Z) (oldC newC : container) (olds : list (list byte)),
      0 < bs -> aligned oldC olds ->
    forall (idx : Z) (p : path) (outSize : Z) (ms : list pmsg) (s : pst) (fuel : nat),
      znth (c_files newC) idx = Some (p, outSize) -> PatcherProofs.file_ready (p_tree s) p ->
      rsync_fits bs maxoff ms -> (length ms < fuel)%nat ->
      step_agrees (Patcher.process_rsync bs oldC newC olds idx ms s)
                  (M.process_rsync fuel true bs maxoff (sizes_of oldC) outSize (stream_of ms)).
  Proof. exact ModelsAgreeMalformedProofs.process_rsync_agrees. Qed.

  (** the control loop of processBsdiff = bsdiff Apply per control, on ANY control list: same
      class, same unread frames, same byte count.  The cursors may differ - C01's un-wrapped
      beyond the end of the old file, C10's wrapped negative ([off_rel]) - exactly when the next
      Seek fails in both.  Hypothesis: the old file has fewer than 2^63 bytes *)
  Theorem bsdiff_loop_models_agree_c01_c10 :
    forall (old : list byte) (ms : list pmsg) (offP offM : Z) (w : wst) (fuel : nat),
      Z.of_nat (length old) < 2^63 -> wfile w ->
      ModelsAgreeMalformedProofs.off_rel (Z.of_nat (length old)) offP offM -> (length ms < fuel)%nat ->
      match ctrl_loop old offP ms w, M.controls fuel (Z.of_nat (length old)) offM (Z.of_nat (w_off w)) (stream_of ms) with
      | Ok (rest, w'), M.Cont (wc, s) =>
          s = stream_of rest /\ wc = Z.of_nat (w_off w') /\ wfile w' /\ w_path w' = w_path w /\
          p_trace (w_st w') = p_trace (w_st w)
      | Err, M.Stop M.Err => True
      | _, _ => False
      end.
  Proof. exact ModelsAgreeMalformedProofs.ctrl_loop_agrees. Qed.

  (** processBsdiff: header index check, control loop, sentinel, final size check; NO hypothesis
      about the patch *)
  Theorem process_bsdiff_models_agree_c01_c10 :
    forall (oldC newC : container) (olds : list (list byte)),
      aligned oldC olds -> Forall (fun d : list byte => Z.of_nat (length d) < 2^63) olds ->
    forall (idx : Z) (p : path) (outSize : Z) (ms : list pmsg) (s : pst) (fuel : nat),
      znth (c_files newC) idx = Some (p, outSize) -> PatcherProofs.file_ready (p_tree s) p ->
      (length ms < fuel)%nat ->
      step_agrees (Patcher.process_bsdiff oldC newC olds idx ms s)
                  (M.process_bsdiff fuel true (sizes_of oldC) outSize (stream_of ms)).
  Proof. exact ModelsAgreeMalformedProofs.process_bsdiff_agrees. Qed.

  (** the whole of patcher.Resume(nil) on a fresh bowl, EVERY message list, any whitelist:
      C01's [apply_fresh] and this property's [patcher] end in the same class.  Hypotheses:
      [0 < bs]; the pool serves the declared sizes, below 2^63; the new container is one a walk
      produces ([wf_container]: Prepare and the entry writers cannot fail - C10 has no output
      directory); the block-range seeks the run performs fit ([run_fits]: [seek_fits] for the
      first op and the relayed ops of every rsync series that is processed) *)
  Theorem patcher_models_agree_c01_c10 :
    forall (bs maxoff : Z) (oldC newC : container) (olds : list (list byte)) (wl : option (list Z)) (ms : list pmsg),
      0 < bs -> aligned oldC olds -> Forall (fun d : list byte => Z.of_nat (length d) < 2^63) olds ->
      wf_container newC ->
      run_fits bs maxoff wl (length (c_files newC)) ms ->
      res_agrees (apply_fresh bs oldC newC olds wl ms)
                 (M.patcher (S (length ms)) true bs maxoff (sizes_of oldC) (sizes_of newC) wl (stream_of ms)).
  Proof. exact ModelsAgreeMalformedProofs.patcher_models_agree_lemma. Qed.

  (** the difference: block size 2^62, an op on block 2 of a 4-byte file.  Go's offset 2^63
      wraps to -2^63 and Seek fails (this model: Err); C01 seeks beyond the end of the file,
      copies nothing and goes on to the end marker (Ok).  C10 is the faithful one; C01 states
      the limitation in its header *)
  Theorem relay_models_differ_on_wrapping_seek :
    let bs := 4611686018427387904 in
    let maxoff := 9223372036854775807 in
    let oldC := mkC [([1%N], 4)] [] [] in
    let olds := [[1; 2; 3; 4]%N] in
    let w := mkW (mkP [([1%N], File [0; 0]%N)] []) [1%N] 0 in
    let op := MSO (mkSO T_BLOCK_RANGE 0 2 1 []) in
    let ms := [op; hey_msg] in
    aligned oldC olds /\ wfile w /\
    (exists s', Patcher.relay bs oldC olds ms w = Ok ([], s')) /\
    M.relay 3 true bs maxoff (sizes_of oldC) 0 (stream_of ms) = M.Stop M.Err /\
    ~ seek_fits bs maxoff (as_so op).
  Proof. exact ModelsAgreeMalformedProofs.relay_differs_on_wrapping_seek_lemma. Qed.

  (** C12's [apply_series] and this property's control loop: a well-formed series (int64 seeks,
      only the last control marked eof, Apply succeeds with output [out]) is accepted, the loop
      stops behind the eof control, and the byte counter that is compared with the declared size
      is the length of C12's output *)
  Theorem bsdiff_series_models_agree_c12_c10 :
    forall (old : list byte) (b : OptimizeApply.bseries) (out : list byte) (offf : Z) (rest : list pmsg) (fuel : nat),
      Z.of_nat (length old) < 2^63 ->
      forallb OptimizeApply.seek_okb b = true -> OptimizeApply.eof_lastb b = true ->
      Bsdiff.Patch.apply_series old 0 b = Some (out, offf) ->
      (length (map OptimizeApply.ctrl_msg b ++ rest) < fuel)%nat ->
      M.controls fuel (Z.of_nat (length old)) 0 0 (stream_of (map OptimizeApply.ctrl_msg b ++ rest)) =
      M.Cont (Z.of_nat (length out), stream_of rest).
  Proof. exact ModelsAgreeBsdiffProofs.bsdiff_series_c12_c10_lemma. Qed.

  (** pwr.ComputeNumBlocks, six transcriptions (C01 [Stream.num_blocks], this property's
      [num_blocks], C03, C04, C11, C18) and the reference: the number of blocks [blocks] cuts the
      content into.  Hypothesis [0 < bs] *)
  Theorem num_blocks_models_agree :
    forall (bs : N) (content : list N),
      (0 < bs)%N ->
      let size := N.of_nat (length content) in
      let n := N.of_nat (length (blocks (N.to_nat bs) content)) in
      SigFile.num_blocks bs size = n /\
      Spec.num_blocks bs content = n /\
      Resume.num_blocks bs size = n /\
      Stream.num_blocks (Z.of_N bs) (Z.of_N size) = Z.of_N n /\
      M.num_blocks (Z.of_N bs) (Z.of_N size) = Z.of_N n /\
      VPool.compute_num_blocks (Z.of_N bs) (Z.of_N size) = Z.of_N n.
  Proof. exact ModelsAgreeBlocksProofs.num_blocks_models_agree_lemma. Qed.

  (** ... and on any size >= 0.  For a NEGATIVE size (only this property feeds sizes from an
      arbitrary stream) Go truncates towards zero - so do this model and C01's - while
      Val/VPool.v's [/] rounds down: (-2 + 2 - 1) / 2 is 0 in Go, -1 there *)
  Theorem num_blocks_models_agree_sizes :
    forall (bs size : Z), 0 < bs -> 0 <= size ->
      Stream.num_blocks bs size = M.num_blocks bs size /\
      Stream.num_blocks bs size = VPool.compute_num_blocks bs size /\
      Stream.num_blocks bs size = Z.of_N (SigFile.num_blocks (Z.to_N bs) (Z.to_N size)) /\
      Stream.num_blocks bs size = Z.of_N (Resume.num_blocks (Z.to_N bs) (Z.to_N size)).
  Proof. exact ModelsAgreeBlocksProofs.num_blocks_models_agree_sizes_lemma. Qed.

  Theorem num_blocks_models_differ_on_negative_size :
    Stream.num_blocks 2 (-2) = 0 /\ M.num_blocks 2 (-2) = 0 /\ VPool.compute_num_blocks 2 (-2) = -1.
  Proof. exact ModelsAgreeBlocksProofs.num_blocks_negative_size_differs_lemma. Qed.

  (** pwr.ComputeBlockSize (Val/VPool.v with [mod], Wsync/Account.v with [Z.rem]) and the
      [lastSize] / [opSize] arithmetic of ApplySingleFull (Patch/Patcher.v, Wsync/Apply.v; this
      property's [apply_block_range] is compared in [rsync_op_models_agree_c01_c10]) *)
  Theorem block_size_models_agree :
    forall (bs fileSize blockIndex blockSpan : Z), 0 < bs -> 0 <= fileSize ->
      VPool.compute_block_size bs fileSize blockIndex = Account.compute_block_size bs fileSize blockIndex /\
      Patcher.op_size bs fileSize blockIndex blockSpan =
        (blockSpan - 1) * bs + VPool.compute_block_size bs fileSize (blockIndex + (blockSpan - 1)) /\
      Apply.op_size (Z.to_N bs) fileSize blockIndex blockSpan = Patcher.op_size bs fileSize blockIndex blockSpan.
  Proof. exact ModelsAgreeBlocksProofs.block_size_models_agree_lemma. Qed.
End ModelsAgreeC10.
Print Assumptions decoders_agree.
Print Assumptions rsync_op_models_agree_c01_c10.
Print Assumptions relay_models_agree_c01_c10.
Print Assumptions process_rsync_models_agree_c01_c10.
Print Assumptions bsdiff_loop_models_agree_c01_c10.
Print Assumptions process_bsdiff_models_agree_c01_c10.
Print Assumptions patcher_models_agree_c01_c10.
Print Assumptions relay_models_differ_on_wrapping_seek.
Print Assumptions bsdiff_series_models_agree_c12_c10.
Print Assumptions num_blocks_models_agree.
Print Assumptions num_blocks_models_agree_sizes.
Print Assumptions num_blocks_models_differ_on_negative_size.
Print Assumptions block_size_models_agree.

(** the hypotheses of [patcher_models_agree_c01_c10] are satisfiable: block size 4, one old file,
    an rsync series (DATA, RANGE, DATA, RANGE) and a bsdiff series with a backward seek; both
    models accept the patch, C01 produces the two new files *)
Example patcher_models_agree_example :
  let oldC := ModelsAgreeMalformedProofs.ex_oldC in
  let newC := ModelsAgreeMalformedProofs.ex_newC in
  let olds := ModelsAgreeMalformedProofs.ex_olds in
  let ms := ModelsAgreeMalformedProofs.ex_ms in
  ModelsAgreeResume.aligned oldC olds /\ Forall (fun d : list byte => Z.of_nat (length d) < 2^63) olds /\
  Fresh.wf_container newC /\ ModelsAgreeMalformed.run_fits 4 (2^40) None (length (Fresh.c_files newC)) ms /\
  (exists t tr, Patcher.apply_fresh 4 oldC newC olds None ms = Fresh.Ok (t, 2, tr) /\
                Fresh.tlookup t [2%N] = Some (Fresh.File [9; 9; 1; 2; 3; 4; 7; 5; 6]%N) /\
                Fresh.tlookup t [3%N] = Some (Fresh.File [2; 3; 4; 8; 1; 2]%N)) /\
  patcher (S (length ms)) true 4 (2^40) (ModelsAgreeMalformed.sizes_of oldC) (ModelsAgreeMalformed.sizes_of newC) None
          (ModelsAgreeMalformed.stream_of ms) = Ok.
Proof. exact ModelsAgreeMalformedProofs.patcher_models_agree_example_lemma. Qed.
