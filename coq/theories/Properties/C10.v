(** C10 — malformed patch / signature / overlay streams yield an error, never a crash.
    Only statements, [exact], and [Print Assumptions]; the model is Patch/Malformed.v (the readers
    of itchio/wharf fed an ARBITRARY frame list: fields are Z, kinds arbitrary, the list may stop
    anywhere or end in an unreadable frame [B]; every Go indexing / slicing / division site is an
    explicit [Panic], every unbounded loop runs on fuel and [Hang] is running out of it), the
    proofs are in Patch/MalformedProofs.v.

    [fx = true] is the tree after the five fix: commits, [fx = false] the tree before.
    No hypothesis on the containers is needed for totality (any list of sizes); the block size
    must be positive (it is the constant 64 KiB). *)
From Wharf Require Import Base.Prelude Patch.Malformed Patch.MalformedProofs.
Local Open Scope Z_scope.

(** ** After the fixes: every reader is total, fuel = number of frames (+1) suffices *)

(** processRsync (first op / isFullFileOp / ApplySingleFull arithmetic / relay loop): stops with
    Ok or Err, or hands a strictly shorter stream back to Resume *)
Theorem patcher_rsync_total :
  forall (fuel : nat) (bs maxoff : Z) (tgt : list Z) (outSize : Z) (s : stream),
    0 < bs -> (length s < fuel)%nat ->
    match process_rsync fuel true bs maxoff tgt outSize s with
    | Cont s' => (length s' < length s)%nat
    | Stop r => safe r
    end.
Proof. exact process_rsync_ok. Qed.
Print Assumptions patcher_rsync_total.

(** processBsdiff (header index, control loop with seeks / adds outside the old file, sentinel,
    final size) *)
Theorem patcher_bsdiff_total :
  forall (fuel : nat) (tgt : list Z) (outSize : Z) (s : stream),
    (length s < fuel)%nat ->
    match process_bsdiff fuel true tgt outSize s with
    | Cont s' => (length s' < length s)%nat
    | Stop r => safe r
    end.
Proof. exact process_bsdiff_ok. Qed.
Print Assumptions patcher_bsdiff_total.

(** patcher.Resume(nil): any containers, any whitelist, any file-system seek limit, any stream *)
Theorem patcher_total :
  forall (bs maxoff : Z) (tgt src : list Z) (wl : option (list Z)) (s : stream) (fuel : nat),
    0 < bs -> (length s < fuel)%nat -> safe (patcher fuel true bs maxoff tgt src wl s).
Proof. exact patcher_safe. Qed.
Print Assumptions patcher_total.

(** rediff.analyzePatch *)
Theorem rediff_analyze_total :
  forall (fuel : nat) (tgt : list Z) (srcs : list Z) (idx : Z) (s : stream),
    (length s < fuel)%nat -> safe (analyze fuel true tgt idx srcs s).
Proof. exact analyze_safe. Qed.
Print Assumptions rediff_analyze_total.

(** a stream the analysis accepted is accepted by the second pass (Optimize) as well ... *)
Theorem rediff_second_pass_follows :
  forall (fuel : nat) (fx : bool) (tgt : list Z) (srcs : list Z) (idx : Z) (s : stream),
    analyze fuel fx tgt idx srcs s = Ok -> optimize_pass fuel idx srcs s = Ok.
Proof. exact analyze_then_optimize. Qed.
Print Assumptions rediff_second_pass_follows.

(** ... hence NewContext + Optimize is total (bsdiff.Do on two well-formed non-empty files is
    outside this model: C12) *)
Theorem rediff_total :
  forall (tgt src : list Z) (s : stream) (fuel : nat),
    (length s < fuel)%nat -> safe (rediff fuel true tgt src s).
Proof. exact rediff_safe. Qed.
Print Assumptions rediff_total.

(** ReadSignature + ComputeHashInfo: fewer or more hashes than the container needs, unreadable
    frames, any capacity of the hash slice (a slice's capacity is at least its length) *)
Theorem hashinfo_total :
  forall (bs : Z) (capf : Z -> Z) (sizes : list Z) (s : stream),
    (forall n, n <= capf n) -> safe (signature true bs capf sizes s).
Proof. exact signature_safe. Qed.
Print Assumptions hashinfo_total.

(** overlay Patch (total before and after the fixes: it has no index into anything) *)
Theorem overlay_patch_total :
  forall (fuel : nat) (seekmax writemax pos : Z) (s : stream),
    (length s < fuel)%nat -> safe (overlay_patch fuel seekmax writemax pos s).
Proof. exact overlay_safe. Qed.
Print Assumptions overlay_patch_total.

(** the property: every reader, every stream, fuel = number of frames + 1: Ok or Err, never
    Panic, never Hang *)
Theorem readers_total :
  forall (bs maxoff seekmax writemax : Z) (capf : Z -> Z) (tgt src sizes : list Z) (wl : option (list Z)) (s : stream),
    0 < bs -> (forall n, n <= capf n) ->
    safe (patcher (S (length s)) true bs maxoff tgt src wl s) /\
    safe (rediff (S (length s)) true tgt src s) /\
    safe (signature true bs capf sizes s) /\
    safe (overlay_patch (S (length s)) seekmax writemax 0 s).
Proof. exact readers_safe. Qed.
Print Assumptions readers_total.

(** truncation anywhere is an instance: a prefix of the frames, optionally followed by a frame
    that was cut in the middle *)
Theorem truncation_total :
  forall (bs maxoff : Z) (tgt src : list Z) (wl : option (list Z)) (s : stream) (k : nat) (cut : bool),
    0 < bs ->
    let t := firstn k s ++ (if cut then [B] else []) in
    safe (patcher (S (length t)) true bs maxoff tgt src wl t).
Proof. exact truncation_safe. Qed.
Print Assumptions truncation_total.

(** ** The fixes only turn panics into errors *)

Theorem fix_conservative_patcher :
  forall (fuel : nat) (bs maxoff : Z) (tgt src : list Z) (wl : option (list Z)) (s : stream),
    (forall st, patcher fuel false bs maxoff tgt src wl s <> Panic st) ->
    patcher fuel true bs maxoff tgt src wl s = patcher fuel false bs maxoff tgt src wl s.
Proof. exact patcher_conservative. Qed.
Print Assumptions fix_conservative_patcher.

Theorem fix_conservative_rediff :
  forall (fuel : nat) (tgt src : list Z) (s : stream),
    (forall st, rediff fuel false tgt src s <> Panic st) ->
    rediff fuel true tgt src s = rediff fuel false tgt src s.
Proof. exact rediff_conservative. Qed.
Print Assumptions fix_conservative_rediff.

(** (well-formed container: non-negative file sizes) *)
Theorem fix_conservative_hashinfo :
  forall (bs : Z) (capf : Z -> Z) (sizes : list Z) (s : stream),
    0 < bs -> Forall (fun z => 0 <= z) sizes -> (forall n, n <= capf n) ->
    (forall st, signature false bs capf sizes s <> Panic st) ->
    signature true bs capf sizes s = signature false bs capf sizes s.
Proof. exact signature_conservative. Qed.
Print Assumptions fix_conservative_hashinfo.

(** ** Before the fixes the statements are false: one-message witnesses (well-formed one-file
       containers, 64 KiB blocks), each replayed on the implementation as a corpus case *)

Theorem patcher_rsync_refuted :
  exists (tgt src : list Z) (s : stream) (st : site),
    Forall (fun z => 0 <= z) tgt /\ Forall (fun z => 0 <= z) src /\
    patcher (S (length s)) false 65536 (2^44) tgt src None s = Panic st.
Proof. exact patcher_rsync_refuted_witness. Qed.
Print Assumptions patcher_rsync_refuted.

Theorem patcher_applysingle_refuted :
  exists (s : stream), patcher (S (length s)) false 65536 (2^44) [100] [100] None s = Panic SPoolGetSize.
Proof. exact patcher_applysingle_refuted_witness. Qed.
Print Assumptions patcher_applysingle_refuted.

Theorem patcher_negative_index_refuted :
  exists (s : stream), patcher (S (length s)) false 65536 (2^44) [100] [100] None s = Panic SIsFullFileOp.
Proof. exact patcher_negative_index_refuted_witness. Qed.
Print Assumptions patcher_negative_index_refuted.

Theorem patcher_bsdiff_refuted :
  exists (s : stream), patcher (S (length s)) false 65536 (2^44) [100] [100] None s = Panic SPoolGetReadSeeker.
Proof. exact patcher_bsdiff_refuted_witness. Qed.
Print Assumptions patcher_bsdiff_refuted.

Theorem rediff_analyze_refuted :
  exists (s : stream), rediff (S (length s)) false [100] [100] s = Panic SAnalyzePatch.
Proof. exact rediff_analyze_refuted_witness. Qed.
Print Assumptions rediff_analyze_refuted.

Theorem hashinfo_refuted :
  exists (sizes : list Z) (s : stream),
    Forall (fun z => 0 <= z) sizes /\ signature false 65536 (fun n => n) sizes s = Panic SHashInfoSlice.
Proof. exact hashinfo_refuted_witness. Qed.
Print Assumptions hashinfo_refuted.

(** ** Non-vacuity *)

Example valid_streams_are_accepted :
  let s := [ G []; G [(4, V 2)]; G [(1, V 1); (5, L 5)]; G [(1, V 2049)];
             G [(16, V 1)]; G [(2, V 1); (4, V 1)]; G [(1, V 2049)];
             G [(1, V 1); (16, V 2)]; G []; G [(1, L 100); (2, L 7); (3, V 10)]; G [(1, L 20)]; G [(4, V 1)]; G [(1, V 2049)] ] in
  patcher (S (length s)) true 65536 (2^44) [70000; 10] [70005; 10; 127] None s = Ok
  /\ patcher (S (length s)) false 65536 (2^44) [70000; 10] [70005; 10; 127] None s = Ok
  /\ patcher (S (length s)) true 65536 (2^44) [70000; 10] [70005; 10; 127] None (firstn 9 s) = Err.
Proof. exact patcher_accepts_valid. Qed.
Print Assumptions valid_streams_are_accepted.
