(** C12 — a bsdiff series applied to the old file yields the new file.
    Only statements, [exact], and [Print Assumptions]; models in Bsdiff/Scan.v, Patch.v, Lru.v,
    proofs in Bsdiff/ScanProofs.v, RoundtripProofs.v, LruProofs.v. *)
From Wharf Require Import Base.Prelude Bsdiff.Scan Bsdiff.ScanProofs Bsdiff.Patch Bsdiff.RoundtripProofs.
Local Open Scope Z_scope.

(** For every old and new byte string, every partition setting, every scan block size and
    every search oracle that answers within range (0 <= pos <= |old|, 0 <= len <= |suffix|; one
    oracle per block, so the statement does not depend on which worker scans which block or on
    what the suffix sort produced), the differ (as repaired) returns a series of non-eof
    controls followed by one eof control - it does not panic and does not run out of fuel -
    and the patcher applied to old with that series returns exactly new. *)
Theorem bsdiff_roundtrip :
  forall (bsz : Z) (search : N -> list byte -> Z * Z) (partitions : Z) (old new : list byte),
    0 < bsz -> 0 <= partitions ->
    (forall bi, search_in_range (len old) (search bi)) ->
    bytes_ok old -> bytes_ok new ->
    exists cs, bsdiff_do bsz search partitions old new = Ok (cs ++ [ctrl_eof]) /\
               Forall (fun c => c_eof c = false) cs /\
               bspatch old (cs ++ [ctrl_eof]) (len new) = Some new.
Proof. exact bsdiff_roundtrip_lemma. Qed.
Print Assumptions bsdiff_roundtrip.

(** The code before the two fix: commits satisfies the same statement only under a guard
    (new empty, or old non-empty and at least as many new bytes as normalised partitions) ... *)
Theorem bsdiff_roundtrip_unfixed_partial :
  forall (bsz : Z) (search : N -> list byte -> Z * Z) (partitions : Z) (old new : list byte),
    0 < bsz -> 0 <= partitions ->
    (forall bi, search_in_range (len old) (search bi)) ->
    bytes_ok old -> bytes_ok new ->
    (new = [] \/ (old <> [] /\ norm_partitions partitions (len old) <= len new)) ->
    exists cs, bsdiff_do_unfixed bsz search partitions old new = Ok (cs ++ [ctrl_eof]) /\
               Forall (fun c => c_eof c = false) cs /\
               bspatch old (cs ++ [ctrl_eof]) (len new) = Some new.
Proof. exact bsdiff_roundtrip_unfixed_lemma. Qed.
Print Assumptions bsdiff_roundtrip_unfixed_partial.

(** ... and without the guard it panics: integer divide by zero (old 16 B, new 3 B, partitions 4)
    and the suffix sorter on an empty old file (old empty, new 3 B).  These two inputs are the
    first corpus cases of the harness. *)
Theorem bsdiff_no_panic_refuted :
  (exists (search : N -> list byte -> Z * Z) (partitions : Z) (old new : list byte),
      0 <= partitions /\ (forall bi, search_in_range (len old) (search bi)) /\ bytes_ok old /\ bytes_ok new /\
      bsdiff_do_unfixed 131072 search partitions old new = Panic 3) /\
  (exists (search : N -> list byte -> Z * Z) (partitions : Z) (old new : list byte),
      0 <= partitions /\ (forall bi, search_in_range (len old) (search bi)) /\ bytes_ok old /\ bytes_ok new /\
      bsdiff_do_unfixed 131072 search partitions old new = Panic 4).
Proof. exact bsdiff_no_panic_refuted_lemma. Qed.
Print Assumptions bsdiff_no_panic_refuted.

(** Stopping after any number [k] of controls, keeping nothing but the old offset, and
    continuing from that saved offset in a fresh context gives the same remainder:
    the two outputs concatenate to the output of the uninterrupted application. *)
Theorem apply_from_saved_offset :
  forall (old : list byte) (cs : list ctrl) (k : nat) (out : list byte) (off : Z),
    apply_series old 0 cs = Some (out, off) ->
    exists o1 saved o2, resume old k cs = Some (o1, saved, o2) /\ out = o1 ++ o2.
Proof. exact resume_spec. Qed.
Print Assumptions apply_from_saved_offset.

(** the same, for one split of the series: prefix to [saved], rest from [saved] *)
Theorem apply_prefix_then_rest :
  forall (old : list byte) (cs : list ctrl) (k : nat) (off : Z) (o1 : list byte) (saved : Z) (rest : list ctrl),
    apply_prefix old off k cs = Some (o1, saved, rest) ->
    apply_series old off cs = match apply_series old saved rest with
                              | Some (o2, offf) => Some (o1 ++ o2, offf)
                              | None => None
                              end.
Proof. exact apply_prefix_series. Qed.
Print Assumptions apply_prefix_then_rest.

(** non-vacuity: the constant oracle is in range, and on a concrete pair the theorem's objects compute *)
Example bsdiff_roundtrip_example :
  bsdiff_do 131072 const_search 3 [1;2;3;4;5;6]%N [9;1;2]%N = Ok ([([], [9]%N, 0, false); ([0]%N, [], -1, false); ([], [2]%N, 0, false)] ++ [ctrl_eof]) /\
  bspatch [1;2;3;4;5;6]%N [([], [9]%N, 0, false); ([0]%N, [], -1, false); ([], [2]%N, 0, false); ctrl_eof] 3 = Some [9;1;2]%N.
Proof. split; vm_compute; reflexivity. Qed.
