(** C12 — placeholder while the proofs are being written *)
From Wharf Require Import Base.Prelude Bsdiff.Scan Bsdiff.Patch Bsdiff.Lru Bsdiff.Suffix Exec.C12.
Local Open Scope Z_scope.

Example bsd_example : run_bsd 0 [1;2;3]%N [1;2;4;3]%N = Ok [([0;0]%N, [4;3]%N, 0, false); ctrl_eof].
Proof. vm_compute. reflexivity. Qed.
