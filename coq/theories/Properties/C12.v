(** C12 — a bsdiff series applied to the old file yields the new file.
    Only statements, [exact], and [Print Assumptions]; models in Bsdiff/Scan.v, Patch.v, Lru.v,
    PatchIO.v, proofs in Bsdiff/ScanProofs.v, RoundtripProofs.v, LruProofs.v, PatchIOProofs.v,
    SuffixProofs.v, InstanceProofs.v. *)
From Wharf Require Import Base.Prelude Bsdiff.Scan Bsdiff.ScanProofs Bsdiff.Patch Bsdiff.RoundtripProofs Bsdiff.Lru Bsdiff.LruProofs
  Bsdiff.Suffix Bsdiff.SuffixProofs Bsdiff.InstanceProofs Bsdiff.PatchIO Bsdiff.PatchIOProofs Exec.C12.
Local Open Scope Z_scope.

(** For every old and new byte string, every partition setting, every scan block size and
    every search oracle that answers within range (0 <= pos <= |old|, 0 <= len <= |suffix|; one
    oracle per block, so the statement does not depend on which worker scans which block or on
    what the suffix sort produced), the differ (as repaired) returns a series of non-eof
    controls followed by one eof control - it does not panic and does not run out of fuel -
    and the patcher applied to old with that series returns exactly new. *)
Theorem bsdiff_roundtrip :
  forall (bsz : Z) (search : N -> list byte -> Z * Z) (partitions : Z) (old new : list byte),
    0 < bsz -> 0 <= partitions ->
    (forall bi, search_in_range (len old) (search bi)) ->
    bytes_ok old -> bytes_ok new ->
    exists cs, bsdiff_do bsz search partitions old new = Ok (cs ++ [ctrl_eof]) /\
               Forall (fun c => c_eof c = false) cs /\
               bspatch old (cs ++ [ctrl_eof]) (len new) = Some new.
Proof. exact bsdiff_roundtrip_lemma. Qed.
Print Assumptions bsdiff_roundtrip.

(** The hypothesis on the oracle is met by the model of the real search (naive partitioned suffix
    array + the code's binary search, Bsdiff/Suffix.v, which the correspondence compares with
    psa.search through the control lists on every run) ... *)
Theorem executable_search_in_range :
  forall (p : Z) (old : list byte), search_in_range (len old) (psa_search (new_psa p old)).
Proof. exact psa_search_in_range. Qed.
Print Assumptions executable_search_in_range.

(** ... so the executable instance that is compared with the code is covered for every input *)
Theorem run_bsd_roundtrip :
  forall (partitions : Z) (old new : list byte),
    0 <= partitions -> bytes_ok old -> bytes_ok new ->
    exists cs, run_bsd partitions old new = Ok (cs ++ [ctrl_eof]) /\
               Forall (fun c => c_eof c = false) cs /\
               bspatch old (cs ++ [ctrl_eof]) (len new) = Some new.
Proof. exact run_bsd_roundtrip_lemma. Qed.
Print Assumptions run_bsd_roundtrip.

(** The code before the two fix: commits satisfies the same statement only under a guard
    (new empty, or old non-empty and at least as many new bytes as normalised partitions) ... *)
Theorem bsdiff_roundtrip_unfixed_partial :
  forall (bsz : Z) (search : N -> list byte -> Z * Z) (partitions : Z) (old new : list byte),
    0 < bsz -> 0 <= partitions ->
    (forall bi, search_in_range (len old) (search bi)) ->
    bytes_ok old -> bytes_ok new ->
    (new = [] \/ (old <> [] /\ norm_partitions partitions (len old) <= len new)) ->
    exists cs, bsdiff_do_unfixed bsz search partitions old new = Ok (cs ++ [ctrl_eof]) /\
               Forall (fun c => c_eof c = false) cs /\
               bspatch old (cs ++ [ctrl_eof]) (len new) = Some new.
Proof. exact bsdiff_roundtrip_unfixed_lemma. Qed.
Print Assumptions bsdiff_roundtrip_unfixed_partial.

(** ... and without the guard it panics: integer divide by zero (old 16 B, new 3 B, partitions 4)
    and the suffix sorter on an empty old file (old empty, new 3 B).  These two inputs are the
    first corpus cases of the harness. *)
Theorem bsdiff_no_panic_refuted :
  (exists (search : N -> list byte -> Z * Z) (partitions : Z) (old new : list byte),
      0 <= partitions /\ (forall bi, search_in_range (len old) (search bi)) /\ bytes_ok old /\ bytes_ok new /\
      bsdiff_do_unfixed 131072 search partitions old new = Panic 3) /\
  (exists (search : N -> list byte -> Z * Z) (partitions : Z) (old new : list byte),
      0 <= partitions /\ (forall bi, search_in_range (len old) (search bi)) /\ bytes_ok old /\ bytes_ok new /\
      bsdiff_do_unfixed 131072 search partitions old new = Panic 4).
Proof. exact bsdiff_no_panic_refuted_lemma. Qed.
Print Assumptions bsdiff_no_panic_refuted.

(** Stopping after any number [k] of controls, keeping nothing but the old offset, and
    continuing from that saved offset in a fresh context gives the same remainder:
    the two outputs concatenate to the output of the uninterrupted application. *)
Theorem apply_from_saved_offset :
  forall (old : list byte) (cs : list ctrl) (k : nat) (out : list byte) (off : Z),
    apply_series old 0 cs = Some (out, off) ->
    exists o1 saved o2, resume old k cs = Some (o1, saved, o2) /\ out = o1 ++ o2.
Proof. exact resume_spec. Qed.
Print Assumptions apply_from_saved_offset.

(** the same, for one split of the series: prefix to [saved], rest from [saved] *)
Theorem apply_prefix_then_rest :
  forall (old : list byte) (cs : list ctrl) (k : nat) (off : Z) (o1 : list byte) (saved : Z) (rest : list ctrl),
    apply_prefix old off k cs = Some (o1, saved, rest) ->
    apply_series old off cs = match apply_series old saved rest with
                              | Some (o2, offf) => Some (o1 ++ o2, offf)
                              | None => None
                              end.
Proof. exact apply_prefix_series. Qed.
Print Assumptions apply_prefix_then_rest.

(** The read cache is transparent: for every chunk size > 0, every number of entries > 0, every
    file and every sequence of reads and seeks (valid or not), lrufile over simplelru returns,
    operation by operation, what a plain in-memory reader returns (bytes, io.EOF exactly when
    the read runs past the end, positions and errors of seeks); it never panics. *)
Theorem lru_transparent :
  forall (chunkSize : Z) (entries : nat) (file : list byte) (ops : list lop),
    0 < chunkSize -> (0 < entries)%nat ->
    exists loads, run_lru chunkSize entries file ops = Some (run_plain file ops, loads).
Proof. exact lru_transparent_lemma. Qed.
Print Assumptions lru_transparent.

(** The same for ANY bounded cache that meets the contract (Get leaves the map alone, Add binds
    the key, stays within the capacity, evicts at most one other entry and reports it, none
    when the key was bound; the count is sound), whatever its eviction policy, and whatever
    stale bytes the storage slots hold after Reset. *)
Theorem lru_transparent_any_cache :
  forall (cache : Type) (cget : cache -> Z -> option Z * cache) (cadd : cache -> Z -> Z -> cache * option (Z * Z))
         (wf : cache -> Prop) (look : cache -> Z -> option Z) (card : cache -> nat) (cap : nat),
    (forall c k, wf c ->
        fst (cget c k) = look c k /\ wf (snd (cget c k)) /\
        (forall k', look (snd (cget c k)) k' = look c k') /\ card (snd (cget c k)) = card c) ->
    (forall c k v, wf c -> (card c <= cap)%nat ->
        wf (fst (cadd c k v)) /\ (card (fst (cadd c k v)) <= cap)%nat /\ look (fst (cadd c k v)) k = Some v /\
        (look c k <> None -> snd (cadd c k v) = None) /\
        match snd (cadd c k v) with
        | None => forall k', k' <> k -> look (fst (cadd c k v)) k' = look c k'
        | Some (k0, v0) => k0 <> k /\ look c k0 = Some v0 /\ look (fst (cadd c k v)) k0 = None /\
                           forall k', k' <> k -> k' <> k0 -> look (fst (cadd c k v)) k' = look c k'
        end) ->
    (forall c ks, wf c -> NoDup ks -> (forall k, In k ks -> look c k <> None) -> (length ks <= card c)%nat) ->
    forall (chunkSize : Z) (file : list byte) (cempty : cache) (stale : list (list byte)) (ops : list lop),
      0 < chunkSize ->
      wf cempty -> (forall k, look cempty k = None) -> (card cempty <= cap)%nat ->
      length stale = cap -> (forall slot, In slot stale -> len slot = chunkSize) ->
      exists sf, lf_run cache cget cadd chunkSize file (lf_init cache cempty stale) ops = Some (run_plain file ops, sf).
Proof. exact lru_transparent_abstract. Qed.
Print Assumptions lru_transparent_any_cache.

(** "internal error: could not find room in lrufile cache" (status 2 of a read) is unreachable *)
Theorem lru_never_full :
  forall (chunkSize : Z) (entries : nat) (file : list byte) (ops : list lop),
    0 < chunkSize -> (0 < entries)%nat ->
    exists rs loads, run_lru chunkSize entries file ops = Some (rs, loads) /\
                     forall data st, In (RRead data st) rs -> st <> 2%N.
Proof. exact lru_never_full_lemma. Qed.
Print Assumptions lru_never_full.

(** The patcher does not depend on how reads of the old file are cached: [Apply] modelled at the
    level of the seeks and reads it issues (Seek(OldOffset), then CopyBuffer through LimitReader
    and AdderReader with a copy buffer of [bufSize] bytes), reading old through lrufile over
    simplelru with ANY chunk size, number of entries and buffer size, never panics and returns
    exactly what the cache-free definition [bspatch] returns - the same bytes, or an error in
    exactly the same cases. *)
Theorem patch_through_cache :
  forall (chunkSize : Z) (entries : nat) (bufSize : Z) (old : list byte) (cs : list ctrl) (newSize : Z),
    0 < chunkSize -> (0 < entries)%nat -> 0 < bufSize ->
    bspatch_lru chunkSize entries bufSize old cs newSize = Some (bspatch old cs newSize).
Proof. exact bspatch_lru_spec. Qed.
Print Assumptions patch_through_cache.

(** non-vacuity: the constant oracle is in range, and on a concrete pair the theorem's objects compute *)
Example bsdiff_roundtrip_example :
  bsdiff_do 131072 const_search 3 [1;2;3;4;5;6]%N [9;1;2]%N = Ok ([([], [9]%N, 0, false); ([0]%N, [], -1, false); ([], [2]%N, 0, false)] ++ [ctrl_eof]) /\
  bspatch [1;2;3;4;5;6]%N [([], [9]%N, 0, false); ([0]%N, [], -1, false); ([], [2]%N, 0, false); ctrl_eof] 3 = Some [9;1;2]%N.
Proof. split; vm_compute; reflexivity. Qed.

Example lru_example :
  run_lru 2 1 [1;2;3;4;5]%N [ORead 3; OSeek (-1) 2; ORead 4; OSeek 9 0; ORead 1]
  = Some ([RRead [1;2;3]%N 0; RSeek 4 0; RRead [5]%N 1; RSeek 0 2; RRead [1]%N 0], [0; 2; 4; 0]).
Proof. vm_compute. reflexivity. Qed.

Example patch_through_cache_example :
  bspatch_lru 2 1 3 [1;2;3;4;5;6]%N [([1;1;1;1;1]%N, [9]%N, -5, false); ([0;0]%N, [], 0, false); ctrl_eof] 8
  = Some (Some [2;3;4;5;6;9;1;2]%N).
Proof. vm_compute. reflexivity. Qed.
