(** C08 — data already present in the old build is not sent again.
    Only statements, [exact], and [Print Assumptions].  Model: the C11 model of the differ
    (Wsync/{Weak,Diff,Library,Sign}.v) and Wsync/Account.v (pwr/diff.go makeOpsWriter);
    proofs: Wsync/IdenticalProofs.v, LibraryProofs.v, AccountProofs.v, C08Theorems.v.

    [account (Z.of_N bs) (sizes_of olds) (0,0) (map aop_of ops) = Some (reused, fresh)] are the
    ReusedBytes / FreshBytes counters of DiffContext after the operations [ops] of one file. *)
From Wharf Require Import Base.Prelude Wsync.Weak Wsync.Diff Wsync.Apply Wsync.Library Wsync.Sign Wsync.Account Wsync.Spec
     Wsync.AccountProofs Wsync.C08Theorems Wsync.WeakProofs Wsync.RollProofs.
Local Open Scope N_scope.

(** a source equal to some old file (same path, renamed, duplicated: any index [f], any
    preferred index) is expressed by block ranges only; the one exception is the leading empty
    data operation of an empty file.  Hence a patch between identical builds carries no data. *)
Theorem identical_file_no_fresh :
  forall (H : Type) (shash : list N -> H) (heqb : H -> H -> bool) (bs maxData : N)
         (olds : list (list N)) (src : list N) (pref : option N) (f : N),
    0 < bs -> 0 < maxData -> (forall x y, heqb x y = true <-> x = y) -> strong_injective shash bs olds src ->
    nth_error olds (N.to_nat f) = Some src ->
    forall ops, diff_ops shash heqb bs maxData olds src pref = Some ops ->
      Forall is_range_op ops \/ (src = [] /\ ops = [OpData 0 0]).
Proof. exact identical_file_no_fresh_lemma. Qed.
Print Assumptions identical_file_no_fresh.

(** ... and the counters say so: ReusedBytes = size of the file, FreshBytes = 0 *)
Theorem identical_file_counters :
  forall (H : Type) (shash : list N -> H) (heqb : H -> H -> bool) (bs maxData : N)
         (olds : list (list N)) (src : list N) (pref : option N) (f : N),
    0 < bs -> 0 < maxData -> (forall x y, heqb x y = true <-> x = y) -> strong_injective shash bs olds src ->
    nth_error olds (N.to_nat f) = Some src ->
    forall ops, diff_ops shash heqb bs maxData olds src pref = Some ops ->
      account (Z.of_N bs) (sizes_of olds) (0, 0)%Z (map aop_of ops) = Some (Z.of_N (len src), 0%Z).
Proof. exact identical_file_counters_lemma. Qed.
Print Assumptions identical_file_counters.

(** for every source: the counters never fail on the differ's operations and
    FreshBytes + ReusedBytes = size of the new file *)
Theorem accounting :
  forall (H : Type) (shash : list N -> H) (heqb : H -> H -> bool) (bs maxData : N)
         (olds : list (list N)) (src : list N) (pref : option N),
    0 < bs -> 0 < maxData -> (forall x y, heqb x y = true -> x = y) -> strong_injective shash bs olds src ->
    forall ops, diff_ops shash heqb bs maxData olds src pref = Some ops ->
    exists reused fresh,
      account (Z.of_N bs) (sizes_of olds) (0, 0)%Z (map aop_of ops) = Some (reused, fresh) /\
      (reused + fresh = Z.of_N (len src))%Z.
Proof. exact accounting_lemma. Qed.
Print Assumptions accounting.

(** The edit bound, full statement (NOT proved):

      edits_fresh_bound : src is obtained from olds[f] by k localized edits introducing n bytes,
        no two consecutive windows of src have equal weak hashes (the differ skips the lookup
        then), the full blocks of the old files are pairwise distinct and occur in src only
        where the edits left them ->
        fresh <= n + (2k + 2) * bs.

    What is proved of it: the case k = 0 ([edits_fresh_bound_partial_k0], a corollary of
    [identical_file_counters]: fresh = 0), the arithmetic heart of the general case
    ([weak_rolling_eq]: the uint32 rolling update yields the from-scratch weak hash of the shifted
    window) and its per-iteration form ([rolling_step_correct]: one rolling iteration of the
    loop's hash block preserves "the state carries the weak hash of the current window").
    Missing for k > 0: threading that invariant through the whole loop (no_missed_match) and the
    counting argument over the sync points of src; the bound itself is checked on the
    implementation by the oracle of the C08 harness (classes edits/k1..k4 and smalledit/k1..k4). *)
Theorem edits_fresh_bound_partial_k0 :
  forall (H : Type) (shash : list N -> H) (heqb : H -> H -> bool) (bs maxData : N)
         (olds : list (list N)) (src : list N) (pref : option N) (f : N),
    0 < bs -> 0 < maxData -> (forall x y, heqb x y = true <-> x = y) -> strong_injective shash bs olds src ->
    nth_error olds (N.to_nat f) = Some src ->
    forall ops reused fresh, diff_ops shash heqb bs maxData olds src pref = Some ops ->
      account (Z.of_N bs) (sizes_of olds) (0, 0)%Z (map aop_of ops) = Some (reused, fresh) ->
      (fresh <= 0 + (2 * 0 + 2) * Z.of_N bs)%Z.
Proof. exact edits_fresh_bound_k0_lemma. Qed.
Print Assumptions edits_fresh_bound_partial_k0.

(** the rolling checksum stays in sync with the block checksum: rolling the hash of [x :: m]
    by one byte ([x] leaves, [y] enters) gives the from-scratch hash of [m ++ [y]], in the
    uint32 arithmetic of the Go code *)
Theorem weak_rolling_eq :
  forall (x y : N) (m : list N),
    let n := N.of_nat (length (x :: m)) in
    n < W32 -> x < W32 ->
    let '(_, b1, b2) := bhash (x :: m) in
    roll n x y b1 b2 = bhash (m ++ [y]).
Proof. exact weak_rolling_eq_lemma. Qed.
Print Assumptions weak_rolling_eq.

(** one rolling iteration of ComputeDiff's hash block, on a full window: from the hash of the
    window one byte earlier to the hash of the current window *)
Theorem rolling_step_correct :
  forall (bs : N) (get : N -> N), 0 < bs -> bs < W32 -> (forall i, get i < W32) ->
  forall s : st,
    rolling s = true -> 1 <= base s + sumTail s -> sumTail s + bs <= validTo s ->
    (beta s, beta1 s, beta2 s) = bhash (window get (base s + sumTail s - 1) bs) ->
    aPop s = get (base s + sumTail s - 1) ->
    let s' := fst (hash_step bs get s) in
    (beta s', beta1 s', beta2 s') = bhash (window get (base s + sumTail s) bs).
Proof. exact hash_step_rolls_correctly. Qed.
Print Assumptions rolling_step_correct.

(** non-vacuity: two identical files of 5 bytes at bs = 2 *)
Example identical_example :
  diff_ops (fun b : list N => b) nlist_eqb 2 3 [[7;7;7;7;7]; [1;2;3;4;5]] [1;2;3;4;5] None
  = Some [OpRange 1 0 3].
Proof. vm_compute. reflexivity. Qed.
