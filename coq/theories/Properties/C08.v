(** C08 — data already present in the old build is not sent again.
    Only statements, [exact], and [Print Assumptions].  Model: the C11 model of the differ
    (Wsync/{Weak,Diff,Library,Sign}.v) and Wsync/Account.v (pwr/diff.go makeOpsWriter);
    proofs: Wsync/IdenticalProofs.v, LibraryProofs.v, AccountProofs.v, C08Theorems.v; for the edit
    bound Wsync/EditSpec.v (vocabulary), SyncProofs.v, PieceProofs.v, EditProofs.v, C08EditTheorems.v.

    [account (Z.of_N bs) (sizes_of olds) (0,0) (map aop_of ops) = Some (reused, fresh)] are the
    ReusedBytes / FreshBytes counters of DiffContext after the operations [ops] of one file. *)
From Wharf Require Import Base.Prelude Wsync.Weak Wsync.Diff Wsync.Apply Wsync.Library Wsync.Sign Wsync.Account Wsync.Spec
     Wsync.AccountProofs Wsync.C08Theorems Wsync.WeakProofs Wsync.RollProofs.
Local Open Scope N_scope.

(** a source equal to some old file (same path, renamed, duplicated: any index [f], any
    preferred index) is expressed by block ranges only; the one exception is the leading empty
    data operation of an empty file.  Hence a patch between identical builds carries no data. *)
Theorem identical_file_no_fresh :
  forall (H : Type) (shash : list N -> H) (heqb : H -> H -> bool) (bs maxData : N)
         (olds : list (list N)) (src : list N) (pref : option N) (f : N),
    0 < bs -> 0 < maxData -> (forall x y, heqb x y = true <-> x = y) -> strong_injective shash bs olds src ->
    nth_error olds (N.to_nat f) = Some src ->
    forall ops, diff_ops shash heqb bs maxData olds src pref = Some ops ->
      Forall is_range_op ops \/ (src = [] /\ ops = [OpData 0 0]).
Proof. exact identical_file_no_fresh_lemma. Qed.
Print Assumptions identical_file_no_fresh.

(** ... and the counters say so: ReusedBytes = size of the file, FreshBytes = 0 *)
Theorem identical_file_counters :
  forall (H : Type) (shash : list N -> H) (heqb : H -> H -> bool) (bs maxData : N)
         (olds : list (list N)) (src : list N) (pref : option N) (f : N),
    0 < bs -> 0 < maxData -> (forall x y, heqb x y = true <-> x = y) -> strong_injective shash bs olds src ->
    nth_error olds (N.to_nat f) = Some src ->
    forall ops, diff_ops shash heqb bs maxData olds src pref = Some ops ->
      account (Z.of_N bs) (sizes_of olds) (0, 0)%Z (map aop_of ops) = Some (Z.of_N (len src), 0%Z).
Proof. exact identical_file_counters_lemma. Qed.
Print Assumptions identical_file_counters.

(** for every source: the counters never fail on the differ's operations and
    FreshBytes + ReusedBytes = size of the new file *)
Theorem accounting :
  forall (H : Type) (shash : list N -> H) (heqb : H -> H -> bool) (bs maxData : N)
         (olds : list (list N)) (src : list N) (pref : option N),
    0 < bs -> 0 < maxData -> (forall x y, heqb x y = true -> x = y) -> strong_injective shash bs olds src ->
    forall ops, diff_ops shash heqb bs maxData olds src pref = Some ops ->
    exists reused fresh,
      account (Z.of_N bs) (sizes_of olds) (0, 0)%Z (map aop_of ops) = Some (reused, fresh) /\
      (reused + fresh = Z.of_N (len src))%Z.
Proof. exact accounting_lemma. Qed.
Print Assumptions accounting.

(** The edit bound.  Full statement:

      edits_fresh_bound : src is obtained from olds[f] by k localized edits introducing n bytes,
        no two consecutive windows of src have equal weak hashes (the differ skips the lookup
        then) ->
        fresh <= n + (2k + 2) * bs.

    It is proved at the end of this file ([edits_fresh_bound], with [hash_invariant_all_along],
    [no_missed_match], [fresh_le_unsynced], [pieces_fresh_bound], [edits_fresh_bound_k1] on the
    way).  The hypothesis "the full blocks of the old files are pairwise distinct and occur in
    src only where the edits left them" of the earlier formulation turned out not to be needed.
    The pieces that were proved first stay: the case k = 0 ([edits_fresh_bound_partial_k0], a
    corollary of [identical_file_counters]: fresh = 0), the arithmetic heart
    ([weak_rolling_eq]: the uint32 rolling update yields the from-scratch weak hash of the shifted
    window) and its per-iteration form ([rolling_step_correct]). *)
Theorem edits_fresh_bound_partial_k0 :
  forall (H : Type) (shash : list N -> H) (heqb : H -> H -> bool) (bs maxData : N)
         (olds : list (list N)) (src : list N) (pref : option N) (f : N),
    0 < bs -> 0 < maxData -> (forall x y, heqb x y = true <-> x = y) -> strong_injective shash bs olds src ->
    nth_error olds (N.to_nat f) = Some src ->
    forall ops reused fresh, diff_ops shash heqb bs maxData olds src pref = Some ops ->
      account (Z.of_N bs) (sizes_of olds) (0, 0)%Z (map aop_of ops) = Some (reused, fresh) ->
      (fresh <= 0 + (2 * 0 + 2) * Z.of_N bs)%Z.
Proof. exact edits_fresh_bound_k0_lemma. Qed.
Print Assumptions edits_fresh_bound_partial_k0.

(** the rolling checksum stays in sync with the block checksum: rolling the hash of [x :: m]
    by one byte ([x] leaves, [y] enters) gives the from-scratch hash of [m ++ [y]], in the
    uint32 arithmetic of the Go code *)
Theorem weak_rolling_eq :
  forall (x y : N) (m : list N),
    let n := N.of_nat (length (x :: m)) in
    n < W32 -> x < W32 ->
    let '(_, b1, b2) := bhash (x :: m) in
    roll n x y b1 b2 = bhash (m ++ [y]).
Proof. exact weak_rolling_eq_lemma. Qed.
Print Assumptions weak_rolling_eq.

(** one rolling iteration of ComputeDiff's hash block, on a full window: from the hash of the
    window one byte earlier to the hash of the current window *)
Theorem rolling_step_correct :
  forall (bs : N) (get : N -> N), 0 < bs -> bs < W32 -> (forall i, get i < W32) ->
  forall s : st,
    rolling s = true -> 1 <= base s + sumTail s -> sumTail s + bs <= validTo s ->
    (beta s, beta1 s, beta2 s) = bhash (window get (base s + sumTail s - 1) bs) ->
    aPop s = get (base s + sumTail s - 1) ->
    let s' := fst (hash_step bs get s) in
    (beta s', beta1 s', beta2 s') = bhash (window get (base s + sumTail s) bs).
Proof. exact hash_step_rolls_correctly. Qed.
Print Assumptions rolling_step_correct.

(** non-vacuity: two identical files of 5 bytes at bs = 2 *)
Example identical_example :
  diff_ops (fun b : list N => b) nlist_eqb 2 3 [[7;7;7;7;7]; [1;2;3;4;5]] [1;2;3;4;5] None
  = Some [OpRange 1 0 3].
Proof. vm_compute. reflexivity. Qed.

(** * The edit bound for k >= 1 edits

    Vocabulary ([Wsync/EditSpec.v]): [fresh_of ops] = data bytes of [ops]; [no_weak_repeat bs src] =
    no two consecutive full windows of [src] have the same weak hash (the visible form of "high-
    entropy content": [ComputeDiff] skips the lookup of a window whose rolled hash equals the
    previous one); [not_skipped bs src q] = the same at the single window [q];
    [old_block_at bs olds src q] = the full window of [src] at [q] has the content of a complete
    block of some old file; [sync_points bs olds src qs] = [qs] are non-overlapping such windows,
    none skipped; [apply_edits es old = (src, n)] = [src] results from [old] by the edits [es]
    (overwrite / insert / delete of any length at any offset, one after the other, clipped like the
    generator [c08EditAt] of the harness) which introduce [n] bytes; pieces = a source given as
    a sequence of fresh bytes and stretches copied from old files.
    Bytes are [< 2^32] and [bs < 2^32] (the uint32 arithmetic of the rolling hash). *)
From Wharf Require Import Wsync.EditSpec Wsync.C08EditTheorems.

(** (1) [rolling_step_correct] threaded through the whole loop.  At the head of every iteration
    (any number [n] of iterations from the initial state) a state that is rolling carries the weak
    hash of the full window one byte before the current one and the byte that leaves; and after
    every iteration that is not the last run, [beta] is the weak hash (as computed at signing
    time) of the window that iteration looked up. *)
Theorem hash_invariant_all_along :
  forall (H : Type) (shash : list N -> H) (heqb : H -> H -> bool) (bs maxData : N)
         (olds : list (list N)) (src : list N) (pref : option N),
    0 < bs -> 0 < maxData -> bs < W32 -> (forall x y, heqb x y = true <-> x = y) ->
    strong_injective shash bs olds src -> Forall (fun x => x < W32) src ->
    forall n : N,
    let lookup := lookup_in heqb (sign_all shash bs 0 olds) pref (fun a l => shash (sub src a l)) in
    let s := N.iter n (step bs maxData (get_of src) (len src) lookup) init in
    lastRun s = false ->
    (rolling s = true ->
       1 <= base s + sumTail s /\
       (beta s, beta1 s, beta2 s) = bhash (window (get_of src) (base s + sumTail s - 1) bs) /\
       aPop s = get_of src (base s + sumTail s - 1)) /\
    (lastRun (refill bs maxData (len src) s) = false ->
       beta (step bs maxData (get_of src) (len src) lookup s) = weak_of (sub src (base s + sumTail s) bs)).
Proof. exact hash_invariant_all_along_lemma. Qed.
Print Assumptions hash_invariant_all_along.

(** (2) no match is missed: in an iteration that is not the last run (the window is full), a
    window that holds a complete block of an old file and is not skipped by the [β == oldβ]
    shortcut makes the iteration enqueue a one-block range with exactly that content, and the
    window moves on by a block. *)
Theorem no_missed_match :
  forall (H : Type) (shash : list N -> H) (heqb : H -> H -> bool) (bs maxData : N)
         (olds : list (list N)) (src : list N) (pref : option N),
    0 < bs -> 0 < maxData -> bs < W32 -> (forall x y, heqb x y = true <-> x = y) ->
    strong_injective shash bs olds src -> Forall (fun x => x < W32) src ->
    forall n : N,
    let lookup := lookup_in heqb (sign_all shash bs 0 olds) pref (fun a l => shash (sub src a l)) in
    let s := N.iter n (step bs maxData (get_of src) (len src) lookup) init in
    let p := base s + sumTail s in
    lastRun s = false -> lastRun (refill bs maxData (len src) s) = false ->
    old_block_at bs olds src p -> not_skipped bs src p ->
    exists f i e,
      em (step bs maxData (get_of src) (len src) lookup s) = enqueue e (OpRange f i 1) /\
      base (step bs maxData (get_of src) (len src) lookup s) + sumTail (step bs maxData (get_of src) (len src) lookup s) = p + bs /\
      exists old, nth_error olds (N.to_nat f) = Some old /\ bs * i + bs <= len old /\
                  sub old (bs * i) bs = sub src p bs.
Proof. exact no_missed_match_lemma. Qed.
Print Assumptions no_missed_match.

(** ... and an iteration is not the last run as long as its window starts at least two blocks
    less one byte before the end of the source (reads end on multiples of the block size) *)
Theorem not_last_run_far_from_end :
  forall (H : Type) (shash : list N -> H) (heqb : H -> H -> bool) (bs maxData : N)
         (olds : list (list N)) (src : list N) (pref : option N),
    0 < bs -> 0 < maxData -> bs < W32 -> (forall x y, heqb x y = true <-> x = y) ->
    strong_injective shash bs olds src -> Forall (fun x => x < W32) src ->
    forall n : N,
    let lookup := lookup_in heqb (sign_all shash bs 0 olds) pref (fun a l => shash (sub src a l)) in
    let s := N.iter n (step bs maxData (get_of src) (len src) lookup) init in
    lastRun s = false -> base s + sumTail s + 2 * bs <= len src + 1 ->
    lastRun (refill bs maxData (len src) s) = false.
Proof. exact not_last_run_lemma. Qed.
Print Assumptions not_last_run_far_from_end.

(** the counting argument: whatever non-overlapping sync points [qs] the source has w.r.t. the
    old files, all of them but one (the last run) are worth a block that is not sent:
    FreshBytes + bs * (|qs| - 1) <= size of the new file.  No assumption on how [src] came
    about, on other occurrences of old blocks, or on [maxData] (splitting data operations does
    not change the byte count; the buffer wrap is covered by the loop invariant of C11). *)
Theorem fresh_le_unsynced :
  forall (H : Type) (shash : list N -> H) (heqb : H -> H -> bool) (bs maxData : N)
         (olds : list (list N)) (src : list N) (pref : option N) (qs : list N),
    0 < bs -> 0 < maxData -> bs < W32 -> (forall x y, heqb x y = true <-> x = y) ->
    strong_injective shash bs olds src -> Forall (fun x => x < W32) src ->
    sync_points bs olds src qs ->
    forall ops reused fresh, diff_ops shash heqb bs maxData olds src pref = Some ops ->
      account (Z.of_N bs) (sizes_of olds) (0, 0)%Z (map aop_of ops) = Some (reused, fresh) ->
      (fresh + Z.of_N bs * (Z.of_N (len qs) - 1) <= Z.of_N (len src))%Z.
Proof. exact fresh_le_unsynced_Z. Qed.
Print Assumptions fresh_le_unsynced.

(** a new file assembled from fresh bytes and stretches of old files (any files, any order:
    edits, moved and duplicated data): FreshBytes <= the fresh bytes + one block for every end of
    a stretch that is off the block grid of its old file + one block (the last run) *)
Theorem pieces_fresh_bound :
  forall (H : Type) (shash : list N -> H) (heqb : H -> H -> bool) (bs maxData : N)
         (olds : list (list N)) (src : list N) (pref : option N) (pl : list piece),
    0 < bs -> 0 < maxData -> bs < W32 -> (forall x y, heqb x y = true <-> x = y) ->
    strong_injective shash bs olds src -> Forall (fun x => x < W32) src -> no_weak_repeat bs src ->
    Forall (piece_ok olds) pl -> src = flatten olds pl ->
    forall ops reused fresh, diff_ops shash heqb bs maxData olds src pref = Some ops ->
      account (Z.of_N bs) (sizes_of olds) (0, 0)%Z (map aop_of ops) = Some (reused, fresh) ->
      (fresh <= Z.of_N (pieces_fresh pl) + (Z.of_N (pieces_cuts bs pl) + 1) * Z.of_N bs)%Z.
Proof. exact pieces_fresh_bound_Z. Qed.
Print Assumptions pieces_fresh_bound.

(** (3) one edit (k = 1) - an overwrite, an insertion or a deletion of any length at any offset:
    FreshBytes <= introduced + 4 blocks, whether or not the edit shifts the data behind it *)
Theorem edits_fresh_bound_k1 :
  forall (H : Type) (shash : list N -> H) (heqb : H -> H -> bool) (bs maxData : N)
         (olds : list (list N)) (src : list N) (pref : option N) (f : N) (old : list N) (e : edit),
    0 < bs -> 0 < maxData -> bs < W32 -> (forall x y, heqb x y = true <-> x = y) ->
    strong_injective shash bs olds src -> Forall (fun x => x < W32) src -> no_weak_repeat bs src ->
    nth_error olds (N.to_nat f) = Some old -> src = apply_edit e old ->
    forall ops reused fresh, diff_ops shash heqb bs maxData olds src pref = Some ops ->
      account (Z.of_N bs) (sizes_of olds) (0, 0)%Z (map aop_of ops) = Some (reused, fresh) ->
      (fresh <= Z.of_N (introduced e old) + 4 * Z.of_N bs)%Z.
Proof. exact edits_fresh_bound_k1_Z. Qed.
Print Assumptions edits_fresh_bound_k1.

(** (4) THE EDIT BOUND, any number of edits: a new file obtained from old file [f] by the edits
    [es] which introduce [n] bytes, on content without repeated consecutive weak hashes, costs
    FreshBytes <= n + (2k + 2) * bs  with k = number of edits -
    independent of the size of the file, of where the edits are and of whether they shift the
    following data; for every block size, [maxData], preferred file, and other old files. *)
Theorem edits_fresh_bound :
  forall (H : Type) (shash : list N -> H) (heqb : H -> H -> bool) (bs maxData : N)
         (olds : list (list N)) (src : list N) (pref : option N) (f : N) (old : list N) (es : list edit) (n : N),
    0 < bs -> 0 < maxData -> bs < W32 -> (forall x y, heqb x y = true <-> x = y) ->
    strong_injective shash bs olds src -> Forall (fun x => x < W32) src -> no_weak_repeat bs src ->
    nth_error olds (N.to_nat f) = Some old -> apply_edits es old = (src, n) ->
    forall ops reused fresh, diff_ops shash heqb bs maxData olds src pref = Some ops ->
      account (Z.of_N bs) (sizes_of olds) (0, 0)%Z (map aop_of ops) = Some (reused, fresh) ->
      (fresh <= Z.of_N n + (2 * Z.of_nat (length es) + 2) * Z.of_N bs)%Z.
Proof. exact edits_fresh_bound_Z. Qed.
Print Assumptions edits_fresh_bound.

(** non-vacuity: a shifting insertion and a deletion on an 11-byte file at bs = 2; every hypothesis
    of [edits_fresh_bound] holds (the strong hash is the block itself) and 6 data bytes go out *)
Example edits_example :
  let old := [1;2;3;4;5;6;7;8;9;10;11] in
  let src := [1;2;3;50;60;70;4;5;6;8;9;10;11] in
  apply_edits [Insert 3 [50;60;70]; Delete 9 1] old = (src, 3) /\
  no_weak_repeat 2 src /\ Forall (fun x => x < W32) src /\
  strong_injective (fun b : list N => b) 2 [[9;9;9]; old] src /\
  diff_ops (fun b : list N => b) nlist_eqb 2 3 [[9;9;9]; old] src None
  = Some [OpRange 1 0 1; OpData 2 3; OpData 5 2; OpRange 1 2 1; OpData 9 1; OpRange 1 4 2].
Proof.
  cbv zeta. split; [vm_compute; reflexivity|]. split; [apply nwr_b_sound; vm_compute; reflexivity|].
  split; [repeat constructor|]. split; [intros f i blk a l _ _ E; exact E|vm_compute; reflexivity].
Qed.
