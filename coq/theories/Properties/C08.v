(** C08 placeholder *)
From Wharf Require Import Base.Prelude Exec.C08.
Example c08_placeholder : BlockSize = BlockSize.
Proof. reflexivity. Qed.
Print Assumptions c08_placeholder.
