(** C09 - applying through the safekeeper never yields a silently wrong result (placeholder,
    theorems follow). *)
From Wharf Require Import Base.Prelude Val.Drip Val.VPool Val.Safekeeper Exec.C09.
Local Open Scope N_scope.

Example fixed_copy_pristine_exact_block :
  run_skread 4 2 Fixed [([1;2;3;4], [1;2;3;4])] [(0, PCopy)] = [(true, 4)].
Proof. vm_compute. reflexivity. Qed.
