(** C09 - applying through the safekeeper never yields a silently wrong result, and an
    undamaged old build is never rejected.
    Only statements, [exact], and [Print Assumptions]; the model is Val/Safekeeper.v (with
    Val/VPool.v for ValidateAsError), the proofs are in Val/SafekeeperProofs.v.

    Vocabulary.  A pool holds the files [sa], each a pair (signed content, content the file has
    now); [files_of bs hash sa] is what the safekeeper knows about them (signed size, block
    hashes) plus what the inner pool serves.  A step (file index, pattern) is one consumer of
    the old-build pool: [PCopy] the fresh bowl's whole-file copy, [PRange b n] a block-range op
    of wsync.ApplySingleFull, [PChunks l] the bsdiff patcher's lrufile loading the chunks [l].
    [run_steps] runs consumers one after the other on the same pool (shared verdict cache,
    shared inner reader) and returns, per step, the pieces served and the outcome.
    [ideal_pieces bs c signed pat] is what that consumer is served on the signed file itself -
    i.e. what the patch was computed against, so that a patch whose every read completes
    with the ideal pieces produces the new build (C01/C12), and any other result is an error. *)
From Wharf Require Import Base.Prelude Val.Drip Val.VPool Val.Safekeeper Val.SafekeeperProofs.
Local Open Scope N_scope.

(** For every block size that is a multiple of the consumers' read size, every signed build,
    every state of the files now (any damage: flips, truncation, extension, emptied files),
    every sequence of consumers whose block ranges lie inside the signed files: no step runs
    out of fuel, what a step was served before it stopped is an initial part of what it would
    have been served on the signed file, and a step that completes without error was served
    exactly that.  Hence every file a patch writes is either reported as failed or identical
    to what the patch produces from the signed build. *)
Theorem safekeeper_sound :
  forall (A H : Type) (bs c m : N), 0 < c -> 0 < m -> bs = c * m ->
  forall (hash : list A -> H) (heqb : H -> H -> bool),
    (forall a b, heqb (hash a) (hash b) = true -> a = b) ->
  forall (sa : list (list A * list A)) (steps : list (N * pattern)),
    steps_ok bs sa steps ->
    Forall2 (step_sound bs c sa) steps
            (run_steps bs c hash heqb Fixed (files_of bs hash sa) pool_empty steps).
Proof. exact (@safekeeper_sound_lemma). Qed.
Print Assumptions safekeeper_sound.

(** the same in bytes: the bytes served are a prefix of the signed bytes asked for (the whole
    file / the block range / the chunks), and all of them when the step completes *)
Theorem safekeeper_sound_bytes :
  forall (A H : Type) (bs c m : N) (hash : list A -> H) (heqb : H -> H -> bool)
         (sa : list (list A * list A)) (steps : list (N * pattern)),
    0 < c -> 0 < m -> bs = c * m ->
    (forall a b, heqb (hash a) (hash b) = true -> a = b) ->
    steps_ok bs sa steps ->
    Forall2 (step_sound_bytes bs c sa) steps
            (run_steps bs c hash heqb Fixed (files_of bs hash sa) pool_empty steps).
Proof. exact (@safekeeper_sound_bytes_lemma). Qed.
Print Assumptions safekeeper_sound_bytes.

(** Hence "error, or the new build": if no consumer of a run reported an error, every one of
    them was served, byte for byte, what it reads on the signed (undamaged) old build - and
    the patcher's output is a function of what its reads return. *)
Theorem safekeeper_completed_run_is_exact :
  forall (A H : Type) (bs c m : N) (hash : list A -> H) (heqb : H -> H -> bool)
         (sa : list (list A * list A)) (steps : list (N * pattern)),
    0 < c -> 0 < m -> bs = c * m ->
    (forall a b, heqb (hash a) (hash b) = true -> a = b) ->
    steps_ok bs sa steps ->
    let results := run_steps bs c hash heqb Fixed (files_of bs hash sa) pool_empty steps in
    Forall (fun res => snd res = Done) results ->
    map (fun res => concat (fst res)) results = map (ideal_of bs c sa) steps.
Proof. exact (@safekeeper_completed_run_is_exact_lemma). Qed.
Print Assumptions safekeeper_completed_run_is_exact.

(** An undamaged old build is never rejected: every consumer completes (and, by the theorem
    above, with the signed bytes), including the whole-file copy that reads up to EOF and a
    second copy of the same file. *)
Theorem safekeeper_accepts_pristine :
  forall (A H : Type) (bs c m : N), 0 < c -> 0 < m -> bs = c * m ->
  forall (hash : list A -> H) (heqb : H -> H -> bool),
    (forall a b, heqb (hash a) (hash b) = true -> a = b) ->
    (forall a, heqb (hash a) (hash a) = true) ->
  forall (sa : list (list A * list A)),
    (forall s a, In (s, a) sa -> a = s) ->
  forall (steps : list (N * pattern)),
    steps_ok bs sa steps ->
    (forall fi pat, In (fi, pat) steps -> (N.to_nat fi < length sa)%nat) ->
    Forall (fun res => snd res = Done)
           (run_steps bs c hash heqb Fixed (files_of bs hash sa) pool_empty steps).
Proof. exact (@safekeeper_accepts_pristine_lemma). Qed.
Print Assumptions safekeeper_accepts_pristine.

(** the invariant behind both: a cached "valid" verdict means the block of the file equals the
    signed block in full, i.e. up to the next block boundary or the end of either file *)
Theorem validated_block_is_the_signed_block :
  forall (A H : Type) (bs c m : N), 0 < c -> 0 < m -> bs = c * m ->
  forall (hash : list A -> H) (heqb : H -> H -> bool),
    (forall a b, heqb (hash a) (hash b) = true -> a = b) ->
  forall (signed actual : list A) (ca : cache) (off : N) (ca' : cache) (r : vres) (moved : bool),
    cache_ok bs signed actual ca ->
    validate_block bs hash heqb Fixed (skfile_of bs hash signed actual) ca off = (ca', r, moved) ->
    cache_ok bs signed actual ca' /\ r <> REof /\
    (r = RValid -> slice actual (off / bs * bs) bs = slice signed (off / bs * bs) bs).
Proof. exact (@validate_fixed). Qed.
Print Assumptions validated_block_is_the_signed_block.

(** Both properties were false of the code before the two "fix:" commits (model version
    [Unfixed]); the witnesses, scaled to 64 KiB blocks, are the corpus cases of the harness. *)
Theorem safekeeper_sound_refuted_before_fix :
  exists (sa : list (list N * list N)) steps,
    steps_ok 4 sa steps /\
    ~ Forall2 (step_sound 4 2 sa) steps
        (run_steps 4 2 (fun b : list N => b) nlist_eqb Unfixed (files_of 4 (fun b : list N => b) sa) pool_empty steps).
Proof. exact safekeeper_sound_refuted_before_fix_lemma. Qed.
Print Assumptions safekeeper_sound_refuted_before_fix.

Theorem safekeeper_accepts_pristine_refuted_before_fix :
  exists (sa : list (list N * list N)) steps,
    (forall s a, In (s, a) sa -> a = s) /\ steps_ok 4 sa steps /\
    (forall fi pat, In (fi, pat) steps -> (N.to_nat fi < length sa)%nat) /\
    ~ Forall (fun res => snd res = Done)
        (run_steps 4 2 (fun b : list N => b) nlist_eqb Unfixed (files_of 4 (fun b : list N => b) sa) pool_empty steps).
Proof. exact safekeeper_accepts_pristine_refuted_before_fix_lemma. Qed.
Print Assumptions safekeeper_accepts_pristine_refuted_before_fix.

(** non-vacuity: the hypotheses are met by bs = 4, c = 2, the identity as hash; five files
    (pristine block multiple, extended, cut at a boundary, emptied, pristine), eight consumers:
    the damaged ones fail after an initial part of the signed bytes, the pristine ones complete,
    the second copy of the same file included *)
Example safekeeper_example :
  run_steps 4 2 (fun b : list N => b) nlist_eqb Fixed
    (files_of 4 (fun b : list N => b)
       [([1;2;3;4], [1;2;3;4]); ([1;2;3;4;5], [1;2;3;4;5;9]); ([1;2;3;4;5], [1;2;3;4]); ([7;8], []); ([1;2;3;4;5], [1;2;3;4;5])])
    pool_empty [(0, PCopy); (1, PCopy); (2, PCopy); (2, PRange 0 2); (2, PChunks [2]); (3, PCopy); (4, PCopy); (4, PCopy)]
  = [([[1;2];[3;4]], Done); ([[1;2];[3;4]], Failed); ([[1;2];[3;4]], Failed); ([[1;2];[3;4]], Failed); ([], Failed);
     ([], Failed); ([[1;2];[3;4];[5]], Done); ([[1;2];[3;4];[5]], Done)].
Proof. vm_compute. reflexivity. Qed.

(** ------------------------------------------------------------------------------------------
    C09 composed with C01 at Coq level (Compose/SafekeeperApply.v, Compose/SafekeeperApplyProofs.v):
    the property stated for WHOLE PATCH APPLICATION instead of for sequences of read patterns.

    [apply_patch_fresh_sk bs c entries hash heqb signed actual whitelist frames] is C01's
    [apply_patch_fresh] (Patch/Patcher.v, same control structure) with every access to an old
    file going through the safekeeper pool of this file's model: Transpose = the [PCopy] consumer;
    ApplySingleFull = [range_loop] started at [bs * blockIndex] for [op_size] bytes, where the
    op size is computed from pool.GetSize = the size in the PATCH's container (not the signed
    size that [PRange] uses, not the size on disk) - so the range may start anywhere and reach
    past the end of the signed file: a consumer of its own, [sk_range], with its own soundness
    lemma ([sk_range_sound], from [sk_read_fixed]); bsdiff = lrufile (LRU cache of [entries]
    chunks, file size taken from Seek(0, End) on the file ON DISK, Seek checked against it) whose
    every cache miss is the chunk-read consumer [chunk_loop] for one chunk.
    [signed] = the file contents the signature describes, by old file index; [actual] = what is
    on disk now, [Some d] or [None] for a file that is not there.  [extended signed actual] =
    some file on disk is longer than signed. *)
From Wharf Require Import Bowl.Fresh Patch.Reinterp Patch.Stream Patch.Patcher
     Compose.SafekeeperApply Compose.SafekeeperApplyProofs.

(** For every block size that is a multiple of the read size, every LRU capacity, every
    injective strong hash, every signed old build and every state of it on disk (one state per
    signed file: bytes flipped, truncated, extended, emptied, missing), every whitelist and
    EVERY frame list (well-formed or not): applying the frames through the safekeeper is an
    error, or is exactly - tree, touched count, calls made - what applying them to the signed
    build gives, or (third case) applying them to the signed build is itself an error and some
    file on disk is longer than signed.  (A fuelled loop of the safekeeper model running dry
    would surface as [Panic]; the proof excludes it at every consumer.) *)
Theorem safekeeper_apply_sound :
  forall (H : Type) (bs c m : N) (entries : nat) (hash : list byte -> H) (heqb : H -> H -> bool)
         (signed : list (list byte)) (actual : list (option (list byte))) (whitelist : option (list Z)) (fs : list frame),
    0 < c -> 0 < m -> bs = c * m ->
    (forall a b, heqb (hash a) (hash b) = true -> a = b) ->
    length actual = length signed ->
    let rs := apply_patch_fresh_sk bs c entries hash heqb signed actual whitelist fs in
    let rp := apply_patch_fresh (Z.of_N bs) signed whitelist fs in
    rs = Err \/ rs = rp \/ (rp = Err /\ extended signed actual).
Proof. exact (@safekeeper_apply_sound_lemma). Qed.
Print Assumptions safekeeper_apply_sound.

(** The third case cannot be dropped: the two-case statement "an error, or the result on the
    signed build, for every frame list" is FALSE of the faithful model, and of the code (the
    witness scaled to 64 KiB was replayed on the real patcher + NewSafeKeeper: signed file of
    65536 bytes, 100 bytes appended on disk, bsdiff controls (add "", copy [7], seek 65540),
    (add "", copy [8]), eof: "invalid seek to 65540, must be in [0,65536]" on the signed build,
    no error and the output [7 8] through the safekeeper).  lrufile measures the file on disk
    and a control with an empty add string seeks without reading, so no block is checked.
    Only an ill-formed patch does that; see the next two theorems. *)
Theorem safekeeper_apply_two_cases_refuted :
  exists (signed : list (list byte)) (actual : list (option (list byte))) (fs : list frame) r,
    length actual = length signed /\
    apply_patch_fresh_sk 4 2 2 (fun b : list N => b) nlist_eqb signed actual None fs = Ok r /\
    apply_patch_fresh 4 signed None fs = Err.
Proof. exact safekeeper_apply_two_cases_refuted_lemma. Qed.
Print Assumptions safekeeper_apply_two_cases_refuted.

(** Whenever the frames apply to the signed build (i.e. for every patch that is valid for the
    build the signature describes): an error, or exactly that result. *)
Theorem safekeeper_apply_exact :
  forall (H : Type) (bs c m : N) (entries : nat) (hash : list byte -> H) (heqb : H -> H -> bool)
         (signed : list (list byte)) (actual : list (option (list byte))) (whitelist : option (list Z)) (fs : list frame),
    0 < c -> 0 < m -> bs = c * m ->
    (forall a b, heqb (hash a) (hash b) = true -> a = b) ->
    length actual = length signed ->
    apply_patch_fresh (Z.of_N bs) signed whitelist fs <> Err ->
    apply_patch_fresh_sk bs c entries hash heqb signed actual whitelist fs = Err \/
    apply_patch_fresh_sk bs c entries hash heqb signed actual whitelist fs = apply_patch_fresh (Z.of_N bs) signed whitelist fs.
Proof. exact (@safekeeper_apply_exact_lemma). Qed.
Print Assumptions safekeeper_apply_exact.

(** Whatever the frames, when no file on disk is longer than signed (flips, truncation, emptied
    and missing files): an error, or the result on the signed build. *)
Theorem safekeeper_apply_sound_no_extension :
  forall (H : Type) (bs c m : N) (entries : nat) (hash : list byte -> H) (heqb : H -> H -> bool)
         (signed : list (list byte)) (actual : list (option (list byte))) (whitelist : option (list Z)) (fs : list frame),
    0 < c -> 0 < m -> bs = c * m ->
    (forall a b, heqb (hash a) (hash b) = true -> a = b) ->
    length actual = length signed ->
    (forall i s a, nth_error signed i = Some s -> nth_error actual i = Some (Some a) -> (length a <= length s)%nat) ->
    apply_patch_fresh_sk bs c entries hash heqb signed actual whitelist fs = Err \/
    apply_patch_fresh_sk bs c entries hash heqb signed actual whitelist fs = apply_patch_fresh (Z.of_N bs) signed whitelist fs.
Proof. exact (@safekeeper_apply_no_extension_lemma). Qed.
Print Assumptions safekeeper_apply_sound_no_extension.

(** With C01's [diff_apply_fresh]: the patch WritePatch produces from (signed old build, new
    build) - any differ satisfying [diff_ok], which C11 proves of the real one -, applied
    through the safekeeper to whatever the old build has become on disk: an error, or every
    file touched and the output tree IS the new build. *)
Theorem safekeeper_apply_error_or_new_build :
  forall (H : Type) (bs c m : N) (entries : nat) (hash : list byte -> H) (heqb : H -> H -> bool)
         (differ : Z -> list byte -> list op) (old new : build) (algo quality : Z) (actual : list (option (list byte))),
    0 < c -> 0 < m -> bs = c * m ->
    (forall a b, heqb (hash a) (hash b) = true -> a = b) ->
    wf_build new -> fits63 old -> fits63 new -> diff_ok (Z.of_N bs) (contents_of old) differ ->
    length actual = length (contents_of old) ->
    let rs := apply_patch_fresh_sk bs c entries hash heqb (contents_of old) actual None (write_patch differ algo quality old new) in
    rs = Err \/
    exists t touched trace,
      rs = Ok (t, touched, trace) /\ touched = Z.of_nat (length (Fresh.files_of new)) /\
      forall p, tlookup t p = tlookup new p.
Proof. exact (@safekeeper_apply_new_build_lemma). Qed.
Print Assumptions safekeeper_apply_error_or_new_build.

(** An undamaged old build is never rejected, whatever the frames: the run through the
    safekeeper IS the plain run (never an extra error, never a different result). *)
Theorem safekeeper_apply_accepts_pristine :
  forall (H : Type) (bs c m : N) (entries : nat) (hash : list byte -> H) (heqb : H -> H -> bool)
         (signed : list (list byte)) (whitelist : option (list Z)) (fs : list frame),
    0 < c -> 0 < m -> bs = c * m ->
    (forall a b, heqb (hash a) (hash b) = true -> a = b) ->
    (forall a, heqb (hash a) (hash a) = true) ->
    apply_patch_fresh_sk bs c entries hash heqb signed (map Some signed) whitelist fs =
    apply_patch_fresh (Z.of_N bs) signed whitelist fs.
Proof. exact (@safekeeper_apply_accepts_pristine_lemma). Qed.
Print Assumptions safekeeper_apply_accepts_pristine.

(** the patcher's block-range consumer (any start that is a multiple of the read size, any
    size): what a completed copy delivered is the signed bytes of that range, up to the end of
    the signed file; from C09's block-level lemma *)
Theorem patcher_range_consumer_sound :
  forall (H : Type) (bs c m : N), 0 < c -> 0 < m -> bs = c * m ->
  forall (hash : list byte -> H) (heqb : H -> H -> bool),
    (forall a b, heqb (hash a) (hash b) = true -> a = b) ->
  forall (signed actual : list byte) (p : pool) (fi off size : N) (r' : rd) (ps : list (list byte)) (o : outcome),
    cache_ok bs signed actual (pcache p fi) -> off mod c = 0 ->
    sk_range bs c hash heqb (skfile_of bs hash signed actual) p fi off size = (r', ps, o) ->
    o <> OutOfFuel /\ cache_ok bs signed actual (rcache r') /\
    (o = Done -> concat ps = Safekeeper.slice signed off size).
Proof. exact (@sk_range_sound). Qed.
Print Assumptions patcher_range_consumer_sound.

(** executed at bs = 4, c = 2, hash = the block: the C01 example patch (a renamed file =>
    Transpose, a file made of an old block plus fresh bytes => ApplySingleFull) on the pristine
    old build gives the new build and is the plain result; truncated / extended / flipped /
    emptied / missing old file: an error; a damaged file the patch does not read: the new
    build; a bsdiff series with one and with two cache entries *)
Example safekeeper_apply_example :
  is_build (ex_run [Some [1;2;3;4;5;6]; Some [9]]) ex_new = true /\
  ex_run [Some [1;2;3;4;5;6]; Some [9]] = apply_patch_fresh 4 (contents_of ex_old) None ex_patch /\
  ex_run [Some [1;2;3;4;5]; Some [9]] = Err /\
  ex_run [Some [1;2;3;4;5;6;6]; Some [9]] = Err /\
  ex_run [Some [1;2;3;0;5;6]; Some [9]] = Err /\
  ex_run [Some []; Some [9]] = Err /\
  ex_run [None; Some [9]] = Err /\
  is_build (ex_run [Some [1;2;3;4;5;6]; Some [8;8]]) ex_new = true /\
  is_build (apply_patch_fresh_sk 4 2 1 ex_idh nlist_eqb [[1;2;3;4]] [Some [1;2;3;4]] None ex_bs_patch)
           [([1], File [2;3;4;7;2;3;4])] = true /\
  apply_patch_fresh_sk 4 2 2 ex_idh nlist_eqb [[1;2;3;4]] [Some [1;2;3;4]] None ex_bs_patch =
  apply_patch_fresh 4 [[1;2;3;4]] None ex_bs_patch /\
  apply_patch_fresh_sk 4 2 2 ex_idh nlist_eqb [[1;2;3;4]] [Some [1;2;3;5]] None ex_bs_patch = Err /\
  apply_patch_fresh_sk 4 2 2 ex_idh nlist_eqb [[1;2;3;4]] [Some [1;2;3]] None ex_bs_patch = Err.
Proof. exact safekeeper_apply_example_lemma. Qed.
