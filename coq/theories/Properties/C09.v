(** C09 - applying through the safekeeper never yields a silently wrong result, and an
    undamaged old build is never rejected.
    Only statements, [exact], and [Print Assumptions]; the model is Val/Safekeeper.v (with
    Val/VPool.v for ValidateAsError), the proofs are in Val/SafekeeperProofs.v.

    Vocabulary.  A pool holds the files [sa], each a pair (signed content, content the file has
    now); [files_of bs hash sa] is what the safekeeper knows about them (signed size, block
    hashes) plus what the inner pool serves.  A step (file index, pattern) is one consumer of
    the old-build pool: [PCopy] the fresh bowl's whole-file copy, [PRange b n] a block-range op
    of wsync.ApplySingleFull, [PChunks l] the bsdiff patcher's lrufile loading the chunks [l].
    [run_steps] runs consumers one after the other on the same pool (shared verdict cache,
    shared inner reader) and returns, per step, the pieces served and the outcome.
    [ideal_pieces bs c signed pat] is what that consumer is served on the signed file itself -
    i.e. what the patch was computed against, so that a patch whose every read completes
    with the ideal pieces produces the new build (C01/C12), and any other result is an error. *)
From Wharf Require Import Base.Prelude Val.Drip Val.VPool Val.Safekeeper Val.SafekeeperProofs.
Local Open Scope N_scope.

(** For every block size that is a multiple of the consumers' read size, every signed build,
    every state of the files now (any damage: flips, truncation, extension, emptied files),
    every sequence of consumers whose block ranges lie inside the signed files: no step runs
    out of fuel, what a step was served before it stopped is an initial part of what it would
    have been served on the signed file, and a step that completes without error was served
    exactly that.  Hence every file a patch writes is either reported as failed or identical
    to what the patch produces from the signed build. *)
Theorem safekeeper_sound :
  forall (A H : Type) (bs c m : N), 0 < c -> 0 < m -> bs = c * m ->
  forall (hash : list A -> H) (heqb : H -> H -> bool),
    (forall a b, heqb (hash a) (hash b) = true -> a = b) ->
  forall (sa : list (list A * list A)) (steps : list (N * pattern)),
    steps_ok bs sa steps ->
    Forall2 (step_sound bs c sa) steps
            (run_steps bs c hash heqb Fixed (files_of bs hash sa) pool_empty steps).
Proof. exact (@safekeeper_sound_lemma). Qed.
Print Assumptions safekeeper_sound.

(** the same in bytes: the bytes served are a prefix of the signed bytes asked for (the whole
    file / the block range / the chunks), and all of them when the step completes *)
Theorem safekeeper_sound_bytes :
  forall (A H : Type) (bs c m : N) (hash : list A -> H) (heqb : H -> H -> bool)
         (sa : list (list A * list A)) (steps : list (N * pattern)),
    0 < c -> 0 < m -> bs = c * m ->
    (forall a b, heqb (hash a) (hash b) = true -> a = b) ->
    steps_ok bs sa steps ->
    Forall2 (step_sound_bytes bs c sa) steps
            (run_steps bs c hash heqb Fixed (files_of bs hash sa) pool_empty steps).
Proof. exact (@safekeeper_sound_bytes_lemma). Qed.
Print Assumptions safekeeper_sound_bytes.

(** Hence "error, or the new build": if no consumer of a run reported an error, every one of
    them was served, byte for byte, what it reads on the signed (undamaged) old build - and
    the patcher's output is a function of what its reads return. *)
Theorem safekeeper_completed_run_is_exact :
  forall (A H : Type) (bs c m : N) (hash : list A -> H) (heqb : H -> H -> bool)
         (sa : list (list A * list A)) (steps : list (N * pattern)),
    0 < c -> 0 < m -> bs = c * m ->
    (forall a b, heqb (hash a) (hash b) = true -> a = b) ->
    steps_ok bs sa steps ->
    let results := run_steps bs c hash heqb Fixed (files_of bs hash sa) pool_empty steps in
    Forall (fun res => snd res = Done) results ->
    map (fun res => concat (fst res)) results = map (ideal_of bs c sa) steps.
Proof. exact (@safekeeper_completed_run_is_exact_lemma). Qed.
Print Assumptions safekeeper_completed_run_is_exact.

(** An undamaged old build is never rejected: every consumer completes (and, by the theorem
    above, with the signed bytes), including the whole-file copy that reads up to EOF and a
    second copy of the same file. *)
Theorem safekeeper_accepts_pristine :
  forall (A H : Type) (bs c m : N), 0 < c -> 0 < m -> bs = c * m ->
  forall (hash : list A -> H) (heqb : H -> H -> bool),
    (forall a b, heqb (hash a) (hash b) = true -> a = b) ->
    (forall a, heqb (hash a) (hash a) = true) ->
  forall (sa : list (list A * list A)),
    (forall s a, In (s, a) sa -> a = s) ->
  forall (steps : list (N * pattern)),
    steps_ok bs sa steps ->
    (forall fi pat, In (fi, pat) steps -> (N.to_nat fi < length sa)%nat) ->
    Forall (fun res => snd res = Done)
           (run_steps bs c hash heqb Fixed (files_of bs hash sa) pool_empty steps).
Proof. exact (@safekeeper_accepts_pristine_lemma). Qed.
Print Assumptions safekeeper_accepts_pristine.

(** the invariant behind both: a cached "valid" verdict means the block of the file equals the
    signed block in full, i.e. up to the next block boundary or the end of either file *)
Theorem validated_block_is_the_signed_block :
  forall (A H : Type) (bs c m : N), 0 < c -> 0 < m -> bs = c * m ->
  forall (hash : list A -> H) (heqb : H -> H -> bool),
    (forall a b, heqb (hash a) (hash b) = true -> a = b) ->
  forall (signed actual : list A) (ca : cache) (off : N) (ca' : cache) (r : vres) (moved : bool),
    cache_ok bs signed actual ca ->
    validate_block bs hash heqb Fixed (skfile_of bs hash signed actual) ca off = (ca', r, moved) ->
    cache_ok bs signed actual ca' /\ r <> REof /\
    (r = RValid -> slice actual (off / bs * bs) bs = slice signed (off / bs * bs) bs).
Proof. exact (@validate_fixed). Qed.
Print Assumptions validated_block_is_the_signed_block.

(** Both properties were false of the code before the two "fix:" commits (model version
    [Unfixed]); the witnesses, scaled to 64 KiB blocks, are the corpus cases of the harness. *)
Theorem safekeeper_sound_refuted_before_fix :
  exists (sa : list (list N * list N)) steps,
    steps_ok 4 sa steps /\
    ~ Forall2 (step_sound 4 2 sa) steps
        (run_steps 4 2 (fun b : list N => b) nlist_eqb Unfixed (files_of 4 (fun b : list N => b) sa) pool_empty steps).
Proof. exact safekeeper_sound_refuted_before_fix_lemma. Qed.
Print Assumptions safekeeper_sound_refuted_before_fix.

Theorem safekeeper_accepts_pristine_refuted_before_fix :
  exists (sa : list (list N * list N)) steps,
    (forall s a, In (s, a) sa -> a = s) /\ steps_ok 4 sa steps /\
    (forall fi pat, In (fi, pat) steps -> (N.to_nat fi < length sa)%nat) /\
    ~ Forall (fun res => snd res = Done)
        (run_steps 4 2 (fun b : list N => b) nlist_eqb Unfixed (files_of 4 (fun b : list N => b) sa) pool_empty steps).
Proof. exact safekeeper_accepts_pristine_refuted_before_fix_lemma. Qed.
Print Assumptions safekeeper_accepts_pristine_refuted_before_fix.

(** non-vacuity: the hypotheses are met by bs = 4, c = 2, the identity as hash; five files
    (pristine block multiple, extended, cut at a boundary, emptied, pristine), eight consumers:
    the damaged ones fail after an initial part of the signed bytes, the pristine ones complete,
    the second copy of the same file included *)
Example safekeeper_example :
  run_steps 4 2 (fun b : list N => b) nlist_eqb Fixed
    (files_of 4 (fun b : list N => b)
       [([1;2;3;4], [1;2;3;4]); ([1;2;3;4;5], [1;2;3;4;5;9]); ([1;2;3;4;5], [1;2;3;4]); ([7;8], []); ([1;2;3;4;5], [1;2;3;4;5])])
    pool_empty [(0, PCopy); (1, PCopy); (2, PCopy); (2, PRange 0 2); (2, PChunks [2]); (3, PCopy); (4, PCopy); (4, PCopy)]
  = [([[1;2];[3;4]], Done); ([[1;2];[3;4]], Failed); ([[1;2];[3;4]], Failed); ([[1;2];[3;4]], Failed); ([], Failed);
     ([], Failed); ([[1;2];[3;4];[5]], Done); ([[1;2];[3;4];[5]], Done)].
Proof. vm_compute. reflexivity. Qed.
