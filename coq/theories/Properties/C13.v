(** C13 - messages survive any compression setting; reader checkpoints resume exactly.
    Only statements, [exact], and [Print Assumptions]; the models are Wire/Uvarint.v,
    Wire/Frame.v, Wire/Reader.v, Wire/SourceEOF.v, the proofs Wire/*Proofs.v.

    External components are hypotheses of the statements: the protobuf codec
    ([unmarshal (marshal m) = Some m]), the compressor/decompressor pair
    ([decompress (compress s) = Some s]), and the checkpoint contract of sources
    ([beh_sound]: a source checkpoint describes an offset not beyond what the source has
    handed out, and a fresh source handed that checkpoint restarts at or before it).
    [fits_msg marshal m] = the marshalled body is shorter than 2^56 bytes (what the writer's
    8-byte varint buffer can announce; beyond it Go panics, [write_message_panics]). *)
From Wharf Require Import Base.Prelude Wire.Uvarint Wire.UvarintProofs Wire.Frame Wire.FrameProofs
  Wire.Reader Wire.ReaderProofs Wire.SourceEOF Wire.SourceEOFProofs Wire.Rewind Wire.RewindProofs.
Local Open Scope N_scope.

(** Go's PutUvarint / ReadUvarint round trip for every 64-bit value, whatever follows. *)
Theorem uvarint_roundtrip :
  forall n r, n < 2 ^ 64 -> uvarint_dec (uvarint_enc n ++ r) = Some (n, r).
Proof. exact uvarint_roundtrip_lemma. Qed.
Print Assumptions uvarint_roundtrip.

(** No encoding is a proper prefix of another one. *)
Theorem uvarint_prefix_free :
  forall a b r r', a < 2 ^ 64 -> b < 2 ^ 64 -> uvarint_enc a ++ r = uvarint_enc b ++ r' -> a = b /\ r = r'.
Proof. exact uvarint_enc_prefix_free. Qed.
Print Assumptions uvarint_prefix_free.

(** The writer's 8-byte varint buffer is enough exactly for bodies shorter than 2^56 bytes. *)
Theorem varint_buffer_suffices :
  forall n, n < 2 ^ 64 -> ((length (uvarint_enc n) <= 8)%nat <-> n < 2 ^ 56).
Proof. exact uvarint_enc_fits_8. Qed.
Print Assumptions varint_buffer_suffices.

(** Any sequence of messages written through the wire writer and any codec pair that is a
    round trip is read back as the same sequence followed by end of stream (for every
    initial capacity of the reusable buffer). *)
Theorem read_write_roundtrip :
  forall (M : Type) (marshal : M -> list byte) (unmarshal : list byte -> option M),
    (forall m, unmarshal (marshal m) = Some m) ->
  forall (compress : list byte -> list byte) (decompress : list byte -> option (list byte)),
    (forall s, decompress (compress s) = Some s) ->
  forall (msgs : list M) (cap : N), Forall (fits_msg marshal) msgs ->
    exists z, write_stream marshal compress msgs = WOk z /\
              read_stream unmarshal decompress cap z = (msgs, EEOF).
Proof. exact @read_write_roundtrip_lemma. Qed.
Print Assumptions read_write_roundtrip.

(** Prefix-freeness of the framing: a truncated stream yields a strict prefix of the written
    messages and then io.EOF or io.ErrUnexpectedEOF - never a wrong message, never all of them. *)
Theorem truncated_stream :
  forall (M : Type) (marshal : M -> list byte) (unmarshal : list byte -> option M),
    (forall m, unmarshal (marshal m) = Some m) ->
  forall (msgs : list M) (cap : N) (p q : list byte),
    Forall (fits_msg marshal) msgs -> stream marshal msgs = p ++ q -> q <> [] ->
    exists k e, read_msgs unmarshal cap p = (firstn k msgs, e) /\ (k < length msgs)%nat /\
                (e = EEOF \/ e = EUnexpectedEOF).
Proof. exact @truncated_stream_lemma. Qed.
Print Assumptions truncated_stream.

(** For every message list, every schedule of WantSave / PopCheckpoint / ReadMessage calls
    and every source behaviour within the contract: when the i-th operation pops a checkpoint,
    the messages read before it are the first k written ones, and that checkpoint handed to any
    reader over the same bytes (with any source behaviour within the contract) resumes so that
    exactly messages k+1... are read, then end of stream. *)
Theorem checkpoint_resumes_exactly :
  forall (M : Type) (marshal : M -> list byte) (unmarshal : list byte -> option M),
    (forall m, unmarshal (marshal m) = Some m) ->
  forall (msgs : list M) (beh : behaviour) (cap0 : N) (ops : list op),
    Forall (fits_msg marshal) msgs -> beh_sound beh ->
    let tr := run unmarshal beh (new_reader cap0 (stream marshal msgs)) ops in
    forall i c ri, nth_error tr i = Some (EvPop (Some c), ri) ->
      let k := length (msgs_of (firstn i tr)) in
      msgs_of (firstn i tr) = firstn k msgs /\
      forall (r0 : reader) (beh2 : behaviour),
        s_data (r_src r0) = stream marshal msgs -> beh_sound beh2 ->
        exists r', resume r0 (Some c) = Some r' /\
                   read_all unmarshal beh2 r' = (skipn k msgs, EEOF).
Proof. exact @checkpoint_resumes_exactly_lemma. Qed.
Print Assumptions checkpoint_resumes_exactly.

(** The same for a reader that is used again: a run may call [Resume] on the reader itself -
    with a checkpoint it popped earlier in the run (a rewind, or a jump forward after one) or
    with nil (start over) - at any point, in any save state: idle, a request pending, a
    source checkpoint held that nobody has popped.  [behs i] is the behaviour of the source
    during the i-th operation (a source may or may not keep an unanswered request across its
    own Resume, and answers a kept one during the read that discards the bytes up to the
    checkpoint's offset).  Every checkpoint popped - before or after such calls - was
    popped at a position [k = pos_at tr i] that the events alone determine (a read moves one
    message forward, a Resume goes to where its checkpoint was popped), and handed to any
    reader over the same bytes it resumes so that exactly the messages from [k] on are read,
    then end of stream. *)
Theorem used_reader_checkpoints_resume_exactly :
  forall (M : Type) (marshal : M -> list byte) (unmarshal : list byte -> option M),
    (forall m, unmarshal (marshal m) = Some m) ->
  forall (msgs : list M), Forall (fits_msg marshal) msgs ->
  forall (behs : nat -> behaviour), (forall i, beh_sound (behs i)) ->
  forall (cap0 : N) (ops : list xop),
    let tr := xrun unmarshal behs [] (new_reader cap0 (stream marshal msgs)) ops in
    forall i c ri, nth_error tr i = Some (XE (EvPop (Some c)), ri) ->
      let k := pos_at tr i in
      (k <= length msgs)%nat /\
      forall (r0 : reader) (beh2 : behaviour),
        s_data (r_src r0) = stream marshal msgs -> beh_sound beh2 ->
        exists r', resume r0 (Some c) = Some r' /\
                   read_all unmarshal beh2 r' = (skipn k msgs, EEOF).
Proof. exact @used_reader_checkpoints_lemma. Qed.
Print Assumptions used_reader_checkpoints_resume_exactly.

(** ... and every read of such a run returns the message at the reader's position, or end of
    stream exactly when the position is the end. *)
Theorem used_reader_reads_in_order :
  forall (M : Type) (marshal : M -> list byte) (unmarshal : list byte -> option M),
    (forall m, unmarshal (marshal m) = Some m) ->
  forall (msgs : list M), Forall (fits_msg marshal) msgs ->
  forall (behs : nat -> behaviour), (forall i, beh_sound (behs i)) ->
  forall (cap0 : N) (ops : list xop),
    let tr := xrun unmarshal behs [] (new_reader cap0 (stream marshal msgs)) ops in
    forall i res ri, nth_error tr i = Some (XE (EvRead res), ri) ->
      match res with
      | ReadOk m => nth_error msgs (pos_at tr i) = Some m
      | ReadErr e => pos_at tr i = length msgs /\ e = EEOF
      end.
Proof. exact @used_reader_reads_lemma. Qed.
Print Assumptions used_reader_reads_in_order.

(** Save protocol (1): PopCheckpoint returns a checkpoint only in the "has source checkpoint"
    state, goes back to idle, and the checkpoint carries the reader's current offset. *)
Theorem save_protocol_pop :
  forall r r' c, pop_checkpoint r = (r', Some c) ->
    r_save r = HasSrc /\ r_save r' = Idle /\ r_sc r' = None /\ mc_off c = r_off r /\ mc_src c = r_sc r.
Proof. exact pop_some_iff. Qed.
Print Assumptions save_protocol_pop.

(** Save protocol (2): at every point of every run, over any bytes and any source behaviour,
    no more checkpoints have been popped than WantSave calls were forwarded to the source. *)
Theorem save_protocol_once :
  forall (M : Type) (unmarshal : list byte -> option M) (beh : behaviour) (ops : list op) (cap0 : N) (data : list byte) (i : nat),
    (pops (firstn i (run unmarshal beh (new_reader cap0 data) ops)) <=
     wants (firstn i (run unmarshal beh (new_reader cap0 data) ops)))%nat.
Proof. exact @pops_le_wants. Qed.
Print Assumptions save_protocol_once.

(** Save protocol (3): the offset of a popped checkpoint is the message boundary after the
    messages read so far, and its source checkpoint does not lie beyond it. *)
Theorem save_protocol_boundary :
  forall (M : Type) (marshal : M -> list byte) (unmarshal : list byte -> option M),
    (forall m, unmarshal (marshal m) = Some m) ->
  forall (msgs : list M) (beh : behaviour) (cap0 : N) (ops : list op),
    Forall (fits_msg marshal) msgs -> beh_sound beh ->
    let tr := run unmarshal beh (new_reader cap0 (stream marshal msgs)) ops in
    forall i c ri, nth_error tr i = Some (EvPop (Some c), ri) ->
      mc_off c = N.of_nat (length (stream marshal (firstn (length (msgs_of (firstn i tr))) msgs))) /\
      exists sc, mc_src c = Some sc /\ sc_off sc <= mc_off c.
Proof. exact @popped_at_boundary. Qed.
Print Assumptions save_protocol_boundary.

(** The regrown buffer is at least as large as the message. *)
Theorem npo2_ge : forall v, v <= npo2 v.
Proof. exact npo2_ge_lemma. Qed.
Print Assumptions npo2_ge.

(** Magic numbers: the written int32 is accepted, any other expected value gives ErrFormat. *)
Theorem magic_roundtrip :
  forall m m' r, (- 2147483648 <= m < 2147483648)%Z ->
    expect_magic m' (magic_enc m ++ r) = if Z.eqb m m' then inl r else inr EFormat.
Proof. exact expect_magic_enc. Qed.
Print Assumptions magic_roundtrip.

(** The repaired byte reads and discard loop of wire/read_context.go compute the list
    semantics of the model whether or not the source reports io.EOF together with its last
    bytes (gzip does) ... *)
Theorem fixed_readbyte_is_list_semantics :
  forall eager l, uv_loop_with (read_byte_fixed eager) 10 l 0 0 0 = uvarint_read l.
Proof. exact uvarint_read_fixed. Qed.
Print Assumptions fixed_readbyte_is_list_semantics.

Theorem fixed_discard_is_skipn :
  forall eager chunk fuel delta rest,
    (0 < chunk)%nat -> (delta <= length rest)%nat -> (delta < fuel)%nat ->
    discard_fixed fuel eager chunk delta rest = Some (skipn delta rest).
Proof. exact discard_fixed_spec. Qed.
Print Assumptions fixed_discard_is_skipn.

(** ... while the code of the unchanged tree did not (the two defects found by this check):
    behind such a source a final empty message is lost, and a checkpoint made after the last
    message cannot be resumed. *)
Theorem unfixed_readbyte_refuted :
  uv_loop_with (read_byte_unfixed true) 10 [0] 0 0 0 = UvErr UvEOF 0 /\
  uv_loop_with (read_byte_fixed true) 10 [0] 0 0 0 = UvOk 0 1 [] /\
  uv_loop_with (read_byte_unfixed false) 10 [0] 0 0 0 = UvOk 0 1 [].
Proof. exact unfixed_loses_final_empty_message. Qed.
Print Assumptions unfixed_readbyte_refuted.

Theorem unfixed_discard_refuted :
  discard_unfixed 10 true 4096 3 [1; 2; 3] = None /\
  discard_fixed 10 true 4096 3 [1; 2; 3] = Some [] /\
  discard_unfixed 10 false 4096 3 [1; 2; 3] = Some [].
Proof. exact unfixed_cannot_discard_to_the_end. Qed.
Print Assumptions unfixed_discard_refuted.

(** Non-vacuity: the identity codec and the seek source satisfy the hypotheses, and a concrete
    run (three messages, saves requested at every boundary) pops checkpoints that resume. *)
Example hypotheses_inhabited :
  (forall b : list byte, (fun x => Some x) ((fun x : list byte => x) b) = Some b) /\
  beh_sound seek_beh /\
  Forall (fits_msg (fun x : list byte => x)) [[1; 2]; []; [3]].
Proof.
  split; [reflexivity |]. split; [exact seek_beh_sound |].
  repeat constructor.
Qed.

Example checkpoint_example :
  let msgs := [[1; 2]; []; [3]] in
  let tr := run (fun x => Some x) seek_beh (new_reader 32768 (stream (fun x => x) msgs))
                [OWant; OPop; ORead; OWant; OPop; ORead; OWant; OPop; ORead; OPop] in
  map fst tr =
    [EvWant true; EvPop None; EvRead (ReadOk [1; 2]);
     EvWant false; EvPop (Some (mk_mc 3 (Some (mk_sc 0 0)))); EvRead (ReadOk []);
     EvWant true; EvPop None; EvRead (ReadOk [3]);
     EvPop (Some (mk_mc 6 (Some (mk_sc 4 4))))] /\
  option_map (read_all (fun x => Some x) seek_beh)
             (resume (new_reader 32768 (stream (fun x => x) msgs)) (Some (mk_mc 3 (Some (mk_sc 0 0)))))
    = Some ([[]; [3]], EEOF).
Proof. vm_compute. split; reflexivity. Qed.

(** ** Added (Compose/ModelsAgree.v): the two models of encoding/binary's uvarint agree

    PutUvarint / ReadUvarint are modelled here ([uvarint_enc], [uvarint_read], Wire/Uvarint.v)
    and a second time by Overlay/Codec.v [uvarint] / [get_uvarint] (C14's executable overlay
    codec: length prefix and proto3 varint fields).  Stated in C13's file for the pair C13/C14.
    Hypotheses: the encoded value is a uint64; the decoded string consists of bytes.  The
    decoders agree on value and unread rest whenever Go's reader succeeds and on "no value" at
    the end of input; on errOverflow (more than ten bytes, or a tenth byte above 1) the C14
    decoder - which has no overflow check and only ever reads what its own writer produced -
    returns a number where Go and the C13 model return an error: the C13 model is the
    faithful one ([uvarint_decoders_differ_on_overflow]). *)
From Wharf Require Overlay.Codec Compose.ModelsAgreeVarintProofs.

Theorem uvarint_models_agree :
  (forall x : N, (x < 2 ^ 64)%N -> uvarint_enc x = Codec.uvarint x) /\
  (forall l : list byte, Forall (fun b => (b < 256)%N) l ->
     match uvarint_read l with
     | UvOk v _ r => Codec.get_uvarint l 0 0 = Some (v, r)
     | UvErr UvOverflow _ => True
     | UvErr _ _ => Codec.get_uvarint l 0 0 = None
     end).
Proof. exact ModelsAgreeVarintProofs.uvarint_models_agree_lemma. Qed.
Print Assumptions uvarint_models_agree.

Theorem uvarint_decoders_differ_on_overflow :
  (uvarint_read (repeat 128%N 10 ++ [0%N]) = UvErr UvOverflow 10 /\
   Codec.get_uvarint (repeat 128%N 10 ++ [0%N]) 0 0 = Some (0%N, [])) /\
  (uvarint_read (repeat 128%N 9 ++ [2%N]) = UvErr UvOverflow 10 /\
   Codec.get_uvarint (repeat 128%N 9 ++ [2%N]) 0 0 = Some ((2 ^ 64)%N, [])).
Proof. exact ModelsAgreeVarintProofs.uvarint_decoders_differ_on_overflow_lemma. Qed.
Print Assumptions uvarint_decoders_differ_on_overflow.
(** A reader resumed while in use: a save in flight (operation 5 leaves a source checkpoint
    for offset 4) is forgotten by the rewind to offset 3 (operation 6; the next pop gives
    nothing), and a request still pending at the second rewind (operation 10) is answered by
    the seek source while the 3 bytes before the checkpoint are discarded - the reader comes
    out of [Resume] holding a source checkpoint for offset 0, which pops as a good checkpoint. *)
Example used_reader_example :
  let msgs := [[1; 2]; []; [3]] in
  let tr := xrun (fun x => Some x) (fun _ => seek_beh) [] (new_reader 32768 (stream (fun x => x) msgs))
                 [XO OWant; XO ORead; XO OPop; XO ORead; XO OWant; XO ORead; XZ (Some 2%nat);
                  XO OPop; XO ORead; XO OWant; XZ (Some 2%nat); XO OPop; XO ORead] in
  map fst tr =
    [XE (EvWant true); XE (EvRead (ReadOk [1; 2])); XE (EvPop (Some (mk_mc 3 (Some (mk_sc 0 0)))));
     XE (EvRead (ReadOk [])); XE (EvWant true); XE (EvRead (ReadOk [3])); XRes (Some 2%nat) true;
     XE (EvPop None); XE (EvRead (ReadOk [])); XE (EvWant true); XRes (Some 2%nat) true;
     XE (EvPop (Some (mk_mc 3 (Some (mk_sc 0 0))))); XE (EvRead (ReadOk []))] /\
  map (fun x => r_save (snd x)) tr =
    [Waiting; HasSrc; Idle; Idle; Waiting; HasSrc; Idle; Idle; Idle; Waiting; HasSrc; Idle; Idle] /\
  snd (xpos tr) = [0; 0; 1; 1; 2; 2; 3; 1; 1; 2; 2; 1; 1]%nat.
Proof. vm_compute. repeat split; reflexivity. Qed.
