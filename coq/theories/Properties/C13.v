(** C13 - stub, filled in below *)
From Wharf Require Import Base.Prelude Wire.Uvarint Wire.Frame Wire.Reader.
