(** C05 — validation reports every deviation from the signed build and locates it.
    Statements only; proofs in Val/FileValProofs.v, model in Val/FileVal.v (+ Val/VPool.v, Val/Drip.v).
    [bs] = block size, [maxWound] = MaxWoundSize, [hash]/[heqb] = strong+weak hash of a block and
    its comparison; [hash_inj] states the one thing assumed of MD5: distinct blocks that are
    compared have distinct hashes.  The actual directory enters as one observation per signed
    entry ([obs]: missing / ENOTDIR / dir / symlink dest / regular file content / other error)
    together with [anc], the indices of its ancestor directories in the container: since the
    "fix:" commits of C06 a wounded directory hides everything below it (nothing below is looked
    at on disk, it is all wounded). *)
From Wharf Require Import Base.Prelude Val.Drip Val.VPool Val.FileVal Val.FileValProofs.
Local Open Scope Z_scope.

(** Every byte offset below the signed length at which a regular file differs from the signed
    file - or which lies beyond its end - is inside a reported FILE wound naming that file. *)
Theorem deviation_located :
  forall (H : Type) (bs : Z), 0 < bs -> forall (maxWound : Z) (hash : list N -> H) (heqb : H -> H -> bool),
    (forall a b, heqb (hash a) (hash b) = true -> a = b) ->
  forall ds ls fs ws (k : nat) (anc : list nat) (signed content : list N) (o : nat),
    validate bs maxWound hash heqb ds ls fs = Some ws ->
    nth_error fs k = Some (anc, signed, OFile content) ->
    (o < length signed)%nat -> nth_error content o <> nth_error signed o ->
    exists w, In w (reported ws) /\ in_wound (Z.of_nat k) (Z.of_nat o) w.
Proof. exact (@deviation_located_full). Qed.
Print Assumptions deviation_located.

(** A file that is shorter or longer than signed, missing, or not a regular file gets a wound. *)
Theorem file_mismatch_wounded :
  forall (H : Type) (bs : Z) (maxWound : Z) (hash : list N -> H) (heqb : H -> H -> bool),
  forall ds ls fs ws (k : nat) (anc : list nat) (signed : list N) (o : obs),
    validate bs maxWound hash heqb ds ls fs = Some ws ->
    nth_error fs k = Some (anc, signed, o) ->
    (forall c, o = OFile c -> length c <> length signed) ->
    exists w, In w (reported ws) /\ wk w = WFile /\ widx w = Z.of_nat k.
Proof. exact (@file_mismatch_wounded_full). Qed.
Print Assumptions file_mismatch_wounded.

(** A directory / symlink that is missing, of the wrong kind or (symlink) has the wrong
    destination gets a DIR / SYMLINK wound. *)
Theorem dir_mismatch_wounded :
  forall (H : Type) (bs : Z) (maxWound : Z) (hash : list N -> H) (heqb : H -> H -> bool),
  forall ds ls fs ws (k : nat) (anc : list nat) (o : obs),
    validate bs maxWound hash heqb ds ls fs = Some ws ->
    nth_error ds k = Some (anc, o) -> o <> ODir ->
    In (mkwound WDir (Z.of_nat k) 0 0) (reported ws).
Proof. exact (@dir_mismatch_wounded_full). Qed.
Print Assumptions dir_mismatch_wounded.

Theorem link_mismatch_wounded :
  forall (H : Type) (bs : Z) (maxWound : Z) (hash : list N -> H) (heqb : H -> H -> bool),
  forall ds ls fs ws (k : nat) (anc : list nat) (want : N) (o : obs),
    validate bs maxWound hash heqb ds ls fs = Some ws ->
    nth_error ls k = Some (anc, want, o) -> o <> OLink want ->
    In (mkwound WSymlink (Z.of_nat k) 0 0) (reported ws).
Proof. exact (@link_mismatch_wounded_full). Qed.
Print Assumptions link_mismatch_wounded.

(** Validation never declares a deviating directory valid: if nothing is reported, every
    signed directory is a directory, every symlink has the signed destination and every file
    is a regular file with exactly the signed content; fail-fast validation returns Ok only then. *)
Theorem never_false_valid :
  forall (H : Type) (bs : Z), 0 < bs -> forall (maxWound : Z) (hash : list N -> H) (heqb : H -> H -> bool),
    (forall a b, heqb (hash a) (hash b) = true -> a = b) ->
  forall ds ls fs ws,
    validate bs maxWound hash heqb ds ls fs = Some ws -> reported ws = [] ->
    Forall (fun p => snd p = ODir) ds /\
    Forall (fun x => let '(_, want, o) := x in o = OLink want) ls /\
    Forall (fun x => let '(_, signed, o) := x in o = OFile signed) fs.
Proof. exact (@never_false_valid_full). Qed.
Print Assumptions never_false_valid.

Theorem failfast_ok_only_if_matching :
  forall (H : Type) (bs : Z), 0 < bs -> forall (maxWound : Z) (hash : list N -> H) (heqb : H -> H -> bool),
    (forall a b, heqb (hash a) (hash b) = true -> a = b) ->
  forall ds ls fs,
    failfast bs maxWound hash heqb ds ls fs = ROk ->
    Forall (fun p => snd p = ODir) ds /\
    Forall (fun x => let '(_, want, o) := x in o = OLink want) ls /\
    Forall (fun x => let '(_, signed, o) := x in o = OFile signed) fs.
Proof. exact (@failfast_ok_matches_full). Qed.
Print Assumptions failfast_ok_only_if_matching.

(** Every reported wound names an existing entry of its kind and has 0 <= start <= end
    (false on the tree before the "fix:" commit recorded in known_findings.json: a file longer
    than signed produced [written, signed size) with start > end). *)
Theorem wounds_wellformed :
  forall (H : Type) (bs : Z), 0 < bs -> forall (maxWound : Z) (hash : list N -> H) (heqb : H -> H -> bool),
  forall ds ls fs ws w,
    validate bs maxWound hash heqb ds ls fs = Some ws -> In w ws ->
    wellformed w /\
    match wk w with
    | WDir => 0 <= widx w < Z.of_nat (length ds)
    | WSymlink => 0 <= widx w < Z.of_nat (length ls)
    | WFile | WClosed => 0 <= widx w < Z.of_nat (length fs)
    end.
Proof. exact (@wounds_wellformed_full). Qed.
Print Assumptions wounds_wellformed.

(** AggregateWounds keeps every wounded offset wounded and relays healthy markers untouched. *)
Theorem aggregate_preserves_cover :
  forall (maxSize i o : Z) (ws : list wound) (last : option wound),
    (forall w, In w ws -> widx w = i) ->
    (forall w, In w ws -> wk w = WFile -> wstart w <= wend w) ->
    (forall l, last = Some l -> wk l = WFile /\ widx l = i) ->
    ((exists l, last = Some l /\ in_wound i o l) \/ (exists w, In w ws /\ in_wound i o w)) ->
    exists w', In w' (aggregate maxSize last ws) /\ in_wound i o w'.
Proof. exact aggregate_cover. Qed.
Print Assumptions aggregate_preserves_cover.

Theorem aggregate_relays_healthy :
  forall (maxSize : Z) (ws : list wound) (last : option wound) (w : wound),
    In w ws -> wk w <> WFile -> In w (aggregate maxSize last ws).
Proof. exact aggregate_keeps_nonfile. Qed.
Print Assumptions aggregate_relays_healthy.

(** non-vacuity: bs = 4, signed "1234|56", actual "1294|5" (one flip, one byte short):
    the run succeeds and reports [0,4) and the size wound [5,6) *)
Example validate_example :
  option_map (@reported) (validate 4 100 (fun b : list N => b) nlist_eqb [([], ODir)] [([0%nat], 1%N, OLink 1%N)] [([0%nat], [1;2;3;4;5;6]%N, OFile [1;2;9;4;5]%N)])
  = Some [mkwound WFile 0 0 6; mkwound WFile 0 5 6].
Proof. vm_compute. reflexivity. Qed.

(** a wounded directory hides what is below it: dir 0 is a symlink on disk, so the file below
    it is wounded whole although its bytes (seen through the link) are the signed ones *)
Example hidden_subtree_example :
  option_map (@reported) (validate 4 100 (fun b : list N => b) nlist_eqb [([], OLink 7%N)] [] [([0%nat], [1;2;3]%N, OFile [1;2;3]%N)])
  = Some [mkwound WDir 0 0 0; mkwound WFile 0 0 3].
Proof. vm_compute. reflexivity. Qed.
