(** C19 — archive then extract gives the same tree for any concurrency and resume point.
    Statements, [exact], [Print Assumptions] only; proofs in Arch/ZipProofs.v. *)
From Wharf Require Import Base.Prelude Arch.Zip.
