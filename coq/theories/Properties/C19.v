(** C19 — archive then extract gives the same tree for any concurrency and resume point.
    Only statements, [exact] and [Print Assumptions]; the model is Arch/Zip.v (archiver/zip.go
    ExtractZip worker pool + resume file, the helpers of archiver/archiver.go over a private
    file-system model, the archive orders of CompressZip / CompressTar / containerarchiver),
    the proofs are in Arch/ZipFsLemmas.v and Arch/ZipProofs.v.

    Reading guide.  [run es chunk racy wmark sched s]: the pool over archive entries [es]
    scheduled by the list of worker ids [sched] (every interleaving of the workers' system
    calls is a schedule; a crash is the end of the schedule); [chunk]: how io.Copy slices a
    file into writes (any function whose pieces concatenate to the content); [racy]/[wmark]
    select the unchanged code ([true]/[false]) or the repaired one ([false]/[true]: counters
    under a mutex, resume file = contiguous watermark); [init f last w]: ExtractZip starting on
    directory [f] with the resume file holding [last], [w] workers; [finished]: it has returned
    nil; [spec_fs es]: the tree the archive describes.

    Not a theorem (runtime evidence only, see checks/props/C19.json): freedom from Go data
    races of the compiled program — the harness runs the pipelines under the race detector. *)
From Wharf Require Import Base.Prelude Arch.Zip Arch.ZipFsLemmas Arch.ZipProofs.

(** For every well-formed tree, every archive flavour, every worker count and every
    interleaving: no helper ever fails, when the extraction returns the directory is exactly
    the source tree (every file byte for byte, every directory incl. empty ones, every
    symlink, nothing else), and from every reachable state it can still return (no deadlock).
    Holds for the unchanged and for the repaired code. *)
Theorem extract_roundtrip :
  forall (fl : flavor) (tree : list entry) (chunk : list N -> list (list N)) (racy wmark : bool),
    wf_entries tree -> (forall d, concat (chunk d) = d) ->
    forall (workers : nat) (sched : list nat),
      let es := compress fl tree in
      let s := run es chunk racy wmark sched (init [] None workers) in
      serr s = false /\
      (finished es s = true -> forall q, lookup (sfs s) q = spec_fs tree q) /\
      (0 < workers -> exists more, finished es (run es chunk racy wmark more s) = true).
Proof. exact archive_extract_lemma. Qed.
Print Assumptions extract_roundtrip.

(** compressing only reorders the entries of the tree (walk order, or dirs / files / symlinks) *)
Theorem compress_keeps_tree :
  forall (fl : flavor) (tree : list entry),
    wf_entries tree -> wf_entries (compress fl tree) /\ forall q, spec_fs (compress fl tree) q = spec_fs tree q.
Proof. exact compress_lemma. Qed.
Print Assumptions compress_keeps_tree.

(** The reported counts equal the number of entries extracted, by kind: all of them for a
    fresh extraction ([last = None]), those above the resume index for a restarted one.
    Repaired code (synchronised counters), any worker count, any interleaving. *)
Theorem counts_exact :
  forall (es : list entry) (chunk : list N -> list (list N)) (wmark : bool)
         (f : fs) (last : option nat) (workers : nat) (sched : list nat),
    let s := run es chunk false wmark sched (init f last workers) in
    finished es s = true -> scounts s = kind_counts (entries_above last es).
Proof. exact counts_exact_lemma. Qed.
Print Assumptions counts_exact.

(** ... and the unchanged code loses updates with two workers (DESIGN section 7 #15). *)
Theorem counts_refuted :
  exists (es : list entry) (sched : list nat),
    wf_entries es /\
    let s := run es chunk_each true true sched (init [] None 2) in
    finished es s = true /\ scounts s <> kind_counts es.
Proof. exact counts_refuted_lemma. Qed.
Print Assumptions counts_refuted.

(** An extraction interrupted at ANY point (after any prefix [sched1] of any schedule, with
    [w1] workers) and restarted with the same resume file (any worker count, any schedule)
    still ends with the complete tree: repaired code for every [w1]; the unchanged resume
    file only with a single worker. *)
Theorem resume_complete :
  forall (es : list entry) (chunk : list N -> list (list N)) (racy wmark : bool),
    wf_entries es -> (forall d, concat (chunk d) = d) ->
    forall (w1 : nat), wmark = true \/ w1 <= 1 ->
    forall (sched1 : list nat) (w2 : nat) (sched2 : list nat),
      let s1 := run es chunk racy wmark sched1 (init [] None w1) in
      let s2 := run es chunk racy wmark sched2 (init (sfs s1) (sresume s1) w2) in
      serr s2 = false /\
      (finished es s2 = true -> forall q, lookup (sfs s2) q = spec_fs es q) /\
      (0 < w2 -> exists more, finished es (run es chunk racy wmark more s2) = true).
Proof. exact resume_complete_lemma. Qed.
Print Assumptions resume_complete.

(** The same for any number of successive interruptions: "can be restarted from" is an
    invariant of interrupted runs ... *)
Theorem interrupted_run_resumable :
  forall (es : list entry) (chunk : list N -> list (list N)) (racy wmark : bool),
    wf_entries es -> (forall d, concat (chunk d) = d) ->
    forall (f : fs) (last : option nat), resumable es f last ->
    forall (workers : nat), wmark = true \/ workers <= 1 ->
    forall (sched : list nat),
      let s := run es chunk racy wmark sched (init f last workers) in
      resumable es (sfs s) (sresume s).
Proof. exact interrupted_resumable_lemma. Qed.
Print Assumptions interrupted_run_resumable.

(** ... and a run started from such a state ends with the complete tree. *)
Theorem restart_completes :
  forall (es : list entry) (chunk : list N -> list (list N)) (racy wmark : bool),
    wf_entries es -> (forall d, concat (chunk d) = d) ->
    forall (f : fs) (last : option nat), resumable es f last ->
    forall (workers : nat) (sched : list nat),
      let s := run es chunk racy wmark sched (init f last workers) in
      serr s = false /\
      (finished es s = true -> forall q, lookup (sfs s) q = spec_fs es q) /\
      (0 < workers -> exists more, finished es (run es chunk racy wmark more s) = true).
Proof. exact restart_lemma. Qed.
Print Assumptions restart_completes.

(** The unchanged resume file (index finished last by ANY worker) with two workers: the
    restarted extraction returns with entry 0 truncated.  The witness is the schedule
    "worker 0 is writing entry 0 while worker 1 finishes entry 1"; replayed on Go by the
    corpus cases of the harness (one large early file, many small later ones). *)
Theorem resume_refuted :
  exists (es : list entry) (sched1 sched2 : list nat),
    wf_entries es /\
    let s1 := run es chunk_each false false sched1 (init [] None 2) in
    let s2 := run es chunk_each false false sched2 (init (sfs s1) (sresume s1) 1) in
    finished es s2 = true /\ lookup (sfs s2) [1%N] <> spec_fs es [1%N].
Proof. exact resume_refuted_lemma. Qed.
Print Assumptions resume_refuted.

(** non-vacuity: a well-formed tree (nested dir, empty dir, empty file, file, dangling
    symlink) extracted by three workers under a concrete schedule *)
Example extract_instance :
  let es := [EDir [1%N]; EFile [1%N; 2%N] [5%N; 6%N]; EDir [3%N]; EFile [4%N] []; ELink [1%N; 5%N] [9%N]] in
  wf_entries es /\
  let s := run es chunk_each false true (concat (repeat [2; 0; 1] 20)) (init [] None 3) in
  finished es s = true /\ scounts s = (2, 2, 1) /\ sresume s = Some 4.
Proof. exact extract_example. Qed.
