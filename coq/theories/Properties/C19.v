(** C19 — archive then extract gives the same tree for any concurrency and resume point.
    Only statements, [exact] and [Print Assumptions]; the model is Arch/Zip.v (archiver/zip.go
    ExtractZip worker pool + resume file, the helpers of archiver/archiver.go over a private
    file-system model, the archive orders of CompressZip / CompressTar / containerarchiver),
    the proofs are in Arch/ZipFsLemmas.v and Arch/ZipProofs.v.

    Reading guide.  [run es chunk racy wmark sched s]: the pool over archive entries [es]
    scheduled by the list of worker ids [sched] (every interleaving of the workers' system
    calls is a schedule; a crash is the end of the schedule); [chunk]: how io.Copy slices a
    file into writes (any function whose pieces concatenate to the content); [racy]/[wmark]
    select the unchanged code ([true]/[false]) or the repaired one ([false]/[true]: counters
    under a mutex, resume file = contiguous watermark); [init f last w]: ExtractZip starting on
    directory [f] with the resume file holding [last], [w] workers; [finished]: it has returned
    nil; [spec_fs es]: the tree the archive describes.

    Not a theorem (runtime evidence only, see checks/props/C19.json): freedom from Go data
    races of the compiled program — the harness runs the pipelines under the race detector. *)
From Wharf Require Import Base.Prelude Arch.Zip Arch.ZipFsLemmas Arch.ZipProofs.

(** For every well-formed tree, every archive flavour, every worker count and every
    interleaving: no helper ever fails, when the extraction returns the directory is exactly
    the source tree (every file byte for byte, every directory incl. empty ones, every
    symlink, nothing else), and from every reachable state it can still return (no deadlock).
    Holds for the unchanged and for the repaired code. *)
Theorem extract_roundtrip :
  forall (fl : flavor) (tree : list entry) (chunk : list N -> list (list N)) (racy wmark : bool),
    wf_entries tree -> (forall d, concat (chunk d) = d) ->
    forall (workers : nat) (sched : list nat),
      let es := compress fl tree in
      let s := run es chunk racy wmark sched (init [] None workers) in
      serr s = false /\
      (finished es s = true -> forall q, lookup (sfs s) q = spec_fs tree q) /\
      (0 < workers -> exists more, finished es (run es chunk racy wmark more s) = true).
Proof. exact archive_extract_lemma. Qed.
Print Assumptions extract_roundtrip.

(** compressing only reorders the entries of the tree (walk order, or dirs / files / symlinks) *)
Theorem compress_keeps_tree :
  forall (fl : flavor) (tree : list entry),
    wf_entries tree -> wf_entries (compress fl tree) /\ forall q, spec_fs (compress fl tree) q = spec_fs tree q.
Proof. exact compress_lemma. Qed.
Print Assumptions compress_keeps_tree.

(** The reported counts equal the number of entries extracted, by kind: all of them for a
    fresh extraction ([last = None]), those above the resume index for a restarted one.
    Repaired code (synchronised counters), any worker count, any interleaving. *)
Theorem counts_exact :
  forall (es : list entry) (chunk : list N -> list (list N)) (wmark : bool)
         (f : fs) (last : option nat) (workers : nat) (sched : list nat),
    let s := run es chunk false wmark sched (init f last workers) in
    finished es s = true -> scounts s = kind_counts (entries_above last es).
Proof. exact counts_exact_lemma. Qed.
Print Assumptions counts_exact.

(** ... and the unchanged code loses updates with two workers (DESIGN section 7 #15). *)
Theorem counts_refuted :
  exists (es : list entry) (sched : list nat),
    wf_entries es /\
    let s := run es chunk_each true true sched (init [] None 2) in
    finished es s = true /\ scounts s <> kind_counts es.
Proof. exact counts_refuted_lemma. Qed.
Print Assumptions counts_refuted.

(** An extraction interrupted at ANY point (after any prefix [sched1] of any schedule, with
    [w1] workers) and restarted with the same resume file (any worker count, any schedule)
    still ends with the complete tree: repaired code for every [w1]; the unchanged resume
    file only with a single worker. *)
Theorem resume_complete :
  forall (es : list entry) (chunk : list N -> list (list N)) (racy wmark : bool),
    wf_entries es -> (forall d, concat (chunk d) = d) ->
    forall (w1 : nat), wmark = true \/ w1 <= 1 ->
    forall (sched1 : list nat) (w2 : nat) (sched2 : list nat),
      let s1 := run es chunk racy wmark sched1 (init [] None w1) in
      let s2 := run es chunk racy wmark sched2 (init (sfs s1) (sresume s1) w2) in
      serr s2 = false /\
      (finished es s2 = true -> forall q, lookup (sfs s2) q = spec_fs es q) /\
      (0 < w2 -> exists more, finished es (run es chunk racy wmark more s2) = true).
Proof. exact resume_complete_lemma. Qed.
Print Assumptions resume_complete.

(** The same for any number of successive interruptions: "can be restarted from" is an
    invariant of interrupted runs ... *)
Theorem interrupted_run_resumable :
  forall (es : list entry) (chunk : list N -> list (list N)) (racy wmark : bool),
    wf_entries es -> (forall d, concat (chunk d) = d) ->
    forall (f : fs) (last : option nat), resumable es f last ->
    forall (workers : nat), wmark = true \/ workers <= 1 ->
    forall (sched : list nat),
      let s := run es chunk racy wmark sched (init f last workers) in
      resumable es (sfs s) (sresume s).
Proof. exact interrupted_resumable_lemma. Qed.
Print Assumptions interrupted_run_resumable.

(** ... and a run started from such a state ends with the complete tree. *)
Theorem restart_completes :
  forall (es : list entry) (chunk : list N -> list (list N)) (racy wmark : bool),
    wf_entries es -> (forall d, concat (chunk d) = d) ->
    forall (f : fs) (last : option nat), resumable es f last ->
    forall (workers : nat) (sched : list nat),
      let s := run es chunk racy wmark sched (init f last workers) in
      serr s = false /\
      (finished es s = true -> forall q, lookup (sfs s) q = spec_fs es q) /\
      (0 < workers -> exists more, finished es (run es chunk racy wmark more s) = true).
Proof. exact restart_lemma. Qed.
Print Assumptions restart_completes.

(** The unchanged resume file (index finished last by ANY worker) with two workers: the
    restarted extraction returns with entry 0 truncated.  The witness is the schedule
    "worker 0 is writing entry 0 while worker 1 finishes entry 1"; replayed on Go by the
    corpus cases of the harness (one large early file, many small later ones). *)
Theorem resume_refuted :
  exists (es : list entry) (sched1 sched2 : list nat),
    wf_entries es /\
    let s1 := run es chunk_each false false sched1 (init [] None 2) in
    let s2 := run es chunk_each false false sched2 (init (sfs s1) (sresume s1) 1) in
    finished es s2 = true /\ lookup (sfs s2) [1%N] <> spec_fs es [1%N].
Proof. exact resume_refuted_lemma. Qed.
Print Assumptions resume_refuted.

(** non-vacuity: a well-formed tree (nested dir, empty dir, empty file, file, dangling
    symlink) extracted by three workers under a concrete schedule *)
Example extract_instance :
  let es := [EDir [1%N]; EFile [1%N; 2%N] [5%N; 6%N]; EDir [3%N]; EFile [4%N] []; ELink [1%N; 5%N] [9%N]] in
  wf_entries es /\
  let s := run es chunk_each false true (concat (repeat [2; 0; 1] 20)) (init [] None 3) in
  finished es s = true /\ scounts s = (2, 2, 1) /\ sresume s = Some 4.
Proof. exact extract_example. Qed.

(* ------------------------------------------------------------------------------------------ *)
(** * C19's file-system model refines the general filesystem model of C06

    The association-list model inside [Arch/Zip.v] and the general model [FS/{Tree,Ops}.v] (C06)
    were written independently; [Compose/FSAgree.v] relates them inside Coq, so that only the
    general model need be trusted as a description of Linux for the inputs of this property.

    Vocabulary ([Compose/FSAgree.v]; [Zi] = Arch.Zip, [Gt] = FS.Tree, [Go] = FS.Ops):
    [zip_tree f]: the abstraction (names are numbers in both models; the directory extracted
    into is the root [[]] of the general model; a link destination [list N] becomes that list of
    names); [zip_sim f T]: [T] equals [zip_tree f] as a finite map; [zip_wf f]: [f] is a tree;
    [zip_link_above f p]: some proper prefix of [p] is a link (there Arch/Zip answers "error"
    where Linux follows the link - its documented limit, no entry of an archive made from a tree
    lies below a link); [zip_agree r g]: both fail, or both succeed with the same tree (Arch/Zip
    has no errno); helpers return (succeeded?, tree) resp. (errno of the failing call, tree) -
    the tree as the calls before the failing one left it - compared by [zip_agree_helper].
    [zip_mkdir] / [zip_symlink] / [zip_copyfile] are archiver.Mkdir / Symlink / CopyFile as one
    worker runs them ([zip_worker_runs_helper]); [gen_mkdir] / [gen_symlink] / [gen_copyfile]
    the same Go functions over the general model (CopyFile: open_trunc, then the Write calls
    through the descriptor at advancing offsets). *)
From Wharf Require Import Compose.FSAgree.
From Wharf Require Compose.FSAgreeZipProofs Compose.FSAgreeZipJobProofs Compose.FSAgreeDiffer.

(** archiver.Mkdir = Lstat; unless a directory: Remove (when something is there), MkdirAll *)
Theorem zip_mkdir_refines :
  forall (f : Zi.fs) (T : Gt.tree) (p : Zi.path),
    zip_wf f -> zip_sim f T -> p <> [] -> zip_link_above f p = false ->
    zip_agree_helper (zip_mkdir p f) (gen_mkdir p T) /\ zip_wf (snd (zip_mkdir p f)).
Proof. exact FSAgreeZipProofs.zip_mkdir_refines_lemma. Qed.
Print Assumptions zip_mkdir_refines.

(** archiver.Symlink = RemoveAll; MkdirAll(dir); Symlink *)
Theorem zip_symlink_refines :
  forall (f : Zi.fs) (T : Gt.tree) (p : Zi.path) (dest : list N),
    zip_wf f -> zip_sim f T -> p <> [] -> zip_link_above f p = false ->
    zip_agree_helper (zip_symlink p dest f) (gen_symlink p (map Gt.Nm dest) T) /\ zip_wf (snd (zip_symlink p dest f)).
Proof. exact FSAgreeZipProofs.zip_symlink_refines_lemma. Qed.
Print Assumptions zip_symlink_refines.

(** archiver.CopyFile = RemoveAll; MkdirAll(dir); OpenFile(O_CREATE|O_TRUNC|O_WRONLY); the
    Write calls of io.Copy, for any slicing [chunks] of the content *)
Theorem zip_copyfile_refines :
  forall (f : Zi.fs) (T : Gt.tree) (p : Zi.path) (chunks : list (list N)),
    zip_wf f -> zip_sim f T -> p <> [] -> zip_link_above f p = false ->
    zip_agree_helper (zip_copyfile p chunks f) (gen_copyfile p chunks T) /\ zip_wf (snd (zip_copyfile p chunks f)).
Proof. exact FSAgreeZipProofs.zip_copyfile_refines_lemma. Qed.
Print Assumptions zip_copyfile_refines.

(** The primitives.  RemoveAll needs one more hypothesis (no regular file strictly above the
    path): that is the input class on which the two models differ ([zip_remove_all_differs]). *)
Theorem zip_fs_remove_all_refines :
  forall (f : Zi.fs) (T : Gt.tree) (p : Zi.path),
    zip_wf f -> zip_sim f T -> p <> [] -> zip_link_above f p = false -> zip_file_above f p = false ->
    zip_agree (Zi.fs_remove_all p f) (Go.remove_all T p).
Proof. exact FSAgreeZipProofs.zip_fs_remove_all_refines_lemma. Qed.
Print Assumptions zip_fs_remove_all_refines.

(** MkdirAll: no link at or above the path (the last component is followed too); also for the
    empty path (the parent of a top-level entry) *)
Theorem zip_fs_mkdir_all_refines :
  forall (f : Zi.fs) (T : Gt.tree) (p : Zi.path),
    zip_wf f -> zip_sim f T -> (forall q, In q (inits p) -> zip_is_link f q = false) ->
    zip_agree (Zi.fs_mkdir_all p f) (Go.mkdir_all T p) /\
    (forall f', Zi.fs_mkdir_all p f = Some f' -> zip_wf f' /\ FSAgreeZipProofs.mkdir_spec f f' p).
Proof. exact FSAgreeZipProofs.zip_fs_mkdir_all_refines_lemma. Qed.
Print Assumptions zip_fs_mkdir_all_refines.

Theorem zip_fs_symlink_refines :
  forall (f : Zi.fs) (T : Gt.tree) (p : Zi.path) (dest : list N),
    zip_wf f -> zip_sim f T -> p <> [] -> zip_link_above f p = false ->
    zip_agree (Zi.fs_symlink p dest f) (Go.symlink T (map Gt.Nm dest) p) /\
    (forall f', Zi.fs_symlink p dest f = Some f' -> zip_wf f').
Proof. exact FSAgreeZipProofs.zip_fs_symlink_refines_lemma. Qed.
Print Assumptions zip_fs_symlink_refines.

(** open(O_CREATE|O_TRUNC|O_WRONLY) of a path that is not itself a link: the descriptor is the path *)
Theorem zip_fs_create_refines :
  forall (f : Zi.fs) (T : Gt.tree) (p : Zi.path),
    zip_wf f -> zip_sim f T -> p <> [] -> zip_link_above f p = false -> zip_is_link f p = false ->
    match Zi.fs_create p f, Go.open_trunc T p with
    | Some f', Go.Ok (T', q) => q = p /\ zip_sim f' T' /\ zip_wf f' /\ Zi.lookup f' p = Some (Zi.File [])
    | None, Go.Err _ => True
    | _, _ => False
    end.
Proof. exact FSAgreeZipProofs.zip_fs_create_refines_lemma. Qed.
Print Assumptions zip_fs_create_refines.

(** one Write call: Arch/Zip appends to the file found at the path, the general model writes
    at the descriptor's offset - the same when the descriptor is the path and the offset is
    the length written so far (as in CopyFile, where nothing else touches the file) *)
Theorem zip_fs_append_refines :
  forall (f : Zi.fs) (T : Gt.tree) (p : Zi.path) (c : list N), zip_sim f T -> p <> [] ->
    match Zi.fs_append p c f with
    | Some f' => exists d, Zi.lookup f p = Some (Zi.File d) /\ Zi.lookup f' p = Some (Zi.File (d ++ c)) /\
                           zip_sim f' (Go.write_at_fd T p (length d) c)
    | None => forall d, Gt.node_at T p <> Some (Gt.File d)
    end.
Proof. exact FSAgreeZipProofs.zip_fs_append_refines_lemma. Qed.
Print Assumptions zip_fs_append_refines.

(** os.Remove as archiver.Mkdir uses it: on something that is not a directory (or is absent);
    on an empty directory the models differ ([zip_remove_dir_differs]) *)
Theorem zip_fs_remove_refines :
  forall (f : Zi.fs) (T : Gt.tree) (p : Zi.path),
    zip_wf f -> zip_sim f T -> p <> [] -> zip_link_above f p = false -> Zi.lookup f p <> Some Zi.Dir ->
    zip_agree (Zi.fs_remove p f) (Go.remove T p) /\
    (forall f', Zi.fs_remove p f = Some f' -> f' = Zi.del f p /\ zip_wf f').
Proof. exact FSAgreeZipProofs.zip_fs_remove_refines_lemma. Qed.
Print Assumptions zip_fs_remove_refines.

(** os.Lstat as archiver.Mkdir uses it ([MLstat] = [lookup]): the node, or some error *)
Theorem zip_lstat_refines :
  forall (f : Zi.fs) (T : Gt.tree) (p : Zi.path),
    zip_wf f -> zip_sim f T -> p <> [] -> zip_link_above f p = false ->
    match Zi.lookup f p, Go.lstat T p with
    | Some n, Go.Ok n' => n' = zip_node n
    | None, Go.Err _ => True
    | _, _ => False
    end.
Proof. exact FSAgreeZipProofs.zip_lstat_refines_lemma. Qed.
Print Assumptions zip_lstat_refines.

(** Summary.  [zip_calls f cs]: the helper calls [cs] one after the other in Arch/Zip (per call:
    succeeded?), [gen_calls T cs]: the same in the general model (per call: errno of the failing
    system call or none); [zip_calls_ok f cs]: every call has a non-empty path with no link
    strictly above it in the state in which it runs.  Same success / failure for every call,
    same final tree (as finite maps), again well-formed - from any general state standing for
    [f], in particular [zip_tree f] ([zipfs_refines_fs_image]). *)
Theorem zipfs_refines_fs :
  forall (cs : list zip_call) (f : Zi.fs) (T : Gt.tree) (bs : list bool) (f' : Zi.fs),
    zip_wf f -> zip_sim f T -> zip_calls_ok f cs = true -> zip_calls f cs = (bs, f') ->
    exists es T', gen_calls T cs = (es, T') /\ bs = map errno_is_none es /\ zip_sim f' T' /\ zip_wf f'.
Proof. exact FSAgreeZipProofs.zipfs_refines_fs_lemma. Qed.
Print Assumptions zipfs_refines_fs.

Theorem zipfs_refines_fs_image :
  forall (f : Zi.fs) (cs : list zip_call) (bs : list bool) (f' : Zi.fs),
    zip_wf f -> zip_calls_ok f cs = true -> zip_calls f cs = (bs, f') ->
    exists es T', gen_calls (zip_tree f) cs = (es, T') /\ bs = map errno_is_none es /\
                  tree_equiv (zip_tree f') T' /\ zip_wf f'.
Proof. exact FSAgreeZipProofs.zipfs_refines_fs_image. Qed.
Print Assumptions zipfs_refines_fs_image.

(** The helper calls are what the pool of [Arch/Zip.v] does: a worker [t] holding the
    micro-steps [job i e] of entry [e] and scheduled [length (job i e)] times in a row (no other
    worker in between), in a state without failure, leaves the tree and the failure flag of
    the helper call for [e] (Mkdir for a directory, CopyFile over [chunk d] for a file, Symlink
    for a link) - for any entries, chunking, unchanged / repaired code.  Interleavings of several
    workers mix the system calls of different helpers; for those the primitives above apply
    step by step. *)
Theorem zip_worker_runs_helper :
  forall (entries : list entry) (chunk : list N -> list (list N)) (racy wmark : bool)
         (s : state) (t : nat) (w : worker) (i : nat) (e : entry),
    serr s = false -> nth_error (sworkers s) t = Some w -> wops w = job chunk racy i e ->
    let s' := run entries chunk racy wmark (repeat t (length (job chunk racy i e))) s in
    let r := zip_call_step (sfs s) (call_of_entry chunk e) in
    sfs s' = snd r /\ serr s' = negb (fst r).
Proof. exact FSAgreeZipJobProofs.zip_worker_runs_helper_lemma. Qed.
Print Assumptions zip_worker_runs_helper.

Theorem zip_wf_decidable : forall f, zip_wfb f = true -> zip_wf f.
Proof. exact FSAgreeZipProofs.zip_wfb_sound. Qed.
Print Assumptions zip_wf_decidable.

(** non-vacuity: nine helper calls (Mkdir over a file, CopyFile in three writes, Symlink over a
    directory, failing calls below a file) on a tree with files, a directory and links *)
Example zipfs_refines_fs_inhabited :
  zip_wfb FSAgreeDiffer.zip_demo_tree = true /\
  zip_calls_ok FSAgreeDiffer.zip_demo_tree FSAgreeDiffer.zip_demo_calls = true /\
  fst (zip_calls FSAgreeDiffer.zip_demo_tree FSAgreeDiffer.zip_demo_calls)
    = map errno_is_none (fst (gen_calls (zip_tree FSAgreeDiffer.zip_demo_tree) FSAgreeDiffer.zip_demo_calls)) /\
  Gt.tree_eqb (zip_tree (snd (zip_calls FSAgreeDiffer.zip_demo_tree FSAgreeDiffer.zip_demo_calls)))
              (snd (gen_calls (zip_tree FSAgreeDiffer.zip_demo_tree) FSAgreeDiffer.zip_demo_calls)) = true /\
  fst (zip_calls FSAgreeDiffer.zip_demo_tree FSAgreeDiffer.zip_demo_calls) = [true; true; true; true; false; true; true; false; false].
Proof. exact FSAgreeDiffer.zipfs_refines_fs_instance. Qed.

(** Where the models DIFFER on inputs both accept (well-formed state, no link involved).
    (1) os.RemoveAll of a path below a regular file: Arch/Zip succeeds, the general model says
    ENOTDIR.  Go/Linux (observed): ENOTDIR - Arch/Zip is wrong.  Harmless for the helpers: Symlink
    and CopyFile fail one call later (MkdirAll of the parent) with the same tree, which is why
    [zip_symlink_refines] / [zip_copyfile_refines] need no such hypothesis. *)
Theorem zip_remove_all_differs :
  let f := [([2%N], File [7%N])] in
  zip_wfb f = true /\ zip_link_above f [2%N; 1%N] = false /\ zip_file_above f [2%N; 1%N] = true /\
  fs_remove_all [2%N; 1%N] f = Some f /\
  Go.remove_all (zip_tree f) [2%N; 1%N] = Go.Err Go.ENOTDIR /\
  zip_symlink [2%N; 1%N] [9%N] f = (false, f) /\
  gen_symlink [2%N; 1%N] [Gt.Nm 9%N] (zip_tree f) = (Some Go.ENOTDIR, zip_tree f).
Proof.
  exact (conj (proj1 FSAgreeDiffer.zip_remove_all_differ)
        (conj (proj1 (proj2 FSAgreeDiffer.zip_remove_all_differ))
        (conj (proj1 (proj2 (proj2 FSAgreeDiffer.zip_remove_all_differ)))
        (conj (proj1 (proj2 (proj2 (proj2 FSAgreeDiffer.zip_remove_all_differ))))
        (conj (proj2 (proj2 (proj2 (proj2 FSAgreeDiffer.zip_remove_all_differ))))
              FSAgreeDiffer.zip_symlink_below_file_agree))))).
Qed.
Print Assumptions zip_remove_all_differs.

(** (2) os.Remove of an empty directory: Arch/Zip fails ("directory: error"), the general model
    and Go/Linux remove it.  Outside archiver.Mkdir's use of Remove (only after Lstat has seen a
    non-directory) Arch/Zip is wrong; with pairwise distinct entry paths no other helper turns
    that path into a directory between the Lstat and the Remove, so this looks unreachable from
    the pool (not proved). *)
Theorem zip_remove_dir_differs :
  let f := [([2%N], Dir)] in
  zip_wfb f = true /\ fs_remove [2%N] f = None /\ Go.remove (zip_tree f) [2%N] = Go.Ok [].
Proof. exact FSAgreeDiffer.zip_remove_dir_differ. Qed.
Print Assumptions zip_remove_dir_differs.

(** (3) by design: a link strictly above the path (Linux follows it: MkdirAll(2/3) creates 1/3
    when 2 -> 1), and the empty path (the directory extracted into). *)
Theorem zip_link_above_differs :
  let f := [([1%N], Dir); ([2%N], Link [1%N])] in
  zip_wfb f = true /\ zip_link_above f [2%N; 3%N] = true /\
  fs_mkdir_all [2%N; 3%N] f = None /\
  Go.mkdir_all (zip_tree f) [2%N; 3%N] = Go.Ok (([1%N; 3%N], Gt.Dir) :: zip_tree f).
Proof. exact FSAgreeDiffer.zip_link_above_differ. Qed.
Print Assumptions zip_link_above_differs.
