(** C15 — diffing is deterministic and free of data races. *)
From Wharf Require Import Base.Prelude Conc.Fanout Conc.FanoutProofs.
