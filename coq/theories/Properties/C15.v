(** C15 — diffing is deterministic and free of data races.
    Only statements, [exact] and [Print Assumptions].  Models: Conc/Fanout.v (the per-file
    structure of pwr/diff.go: multiread over two pipes + taskgroup), Conc/Collector.v (the
    dispatcher / workers / collector of bsdiff/diff.go with the hand-back tokens); proofs in
    Conc/FanoutProofs.v and Conc/CollectorProofs.v.

    What is NOT a theorem here, and cannot be one over these models: the absence of Go data
    races (unsynchronised conflicting memory accesses of the compiled program under the Go
    memory model).  The models have one global interleaving semantics with atomic steps; a
    data race is not expressible in them.  That half of the property is runtime evidence: the
    harness runs diff + sign, rediff and bsdiff in a `go build -race` binary on every check
    (checks/props/C15.json, "trusted_base").  The level of C15 is therefore *partial*. *)
From Wharf Require Import Base.Prelude Conc.Fanout Conc.FanoutProofs Conc.Collector Conc.CollectorProofs Conc.Pick Conc.PickProofs.

(** For every upstream chunking (the reads of the source pool, however short, empty reads
    included; [eofdata]: the last read returns its bytes together with io.EOF instead of
    being followed by a read that returns (0, io.EOF)), every pair of consumer buffer sizes and every interleaving of the producer,
    the two consumers and the task group ([sched]; the buffer size of a consumer read is part
    of the schedule): when the end marker is written both consumers have returned and each
    produced exactly what it produces from the whole content read sequentially — provided a
    consumer's output is a function of the bytes it receives, not of their slicing (C11 for
    the differ, C04 for the signer).  And the end marker can always still be reached. *)
Theorem fanout_deterministic :
  forall (O1 O2 : Type) (out1 : list (list N) -> O1) (spec1 : list N -> O1)
         (out2 : list (list N) -> O2) (spec2 : list N -> O2),
    (forall pieces, out1 pieces = spec1 (concat pieces)) ->
    (forall pieces, out2 pieces = spec2 (concat pieces)) ->
    forall (chunks : list (list N)) (eofdata : bool) (sched : list fthread),
      let s := frun sched (init_fanout_eof chunks eofdata) in
      (fmarker s = true -> out1 (fp1 s) = spec1 (concat chunks) /\ out2 (fp2 s) = spec2 (concat chunks)) /\
      (exists more, fmarker (frun more s) = true).
Proof. exact fanout_deterministic_lemma. Qed.
Print Assumptions fanout_deterministic.

(** the bytes themselves: each consumer that has returned received exactly the upstream
    bytes, the marker comes after both, no state is stuck *)
Theorem fanout_bytes :
  forall (chunks : list (list N)) (eofdata : bool) (sched : list fthread),
    let s := frun sched (init_fanout_eof chunks eofdata) in
    (fdone1 s = true -> concat (fp1 s) = concat chunks) /\
    (fdone2 s = true -> concat (fp2 s) = concat chunks) /\
    (fmarker s = true -> fdone1 s = true /\ fdone2 s = true) /\
    (exists more, fmarker (frun more s) = true).
Proof. exact fanout_pieces_lemma. Qed.
Print Assumptions fanout_bytes.

(** two runs over the same bytes, sliced differently upstream, ended differently (EOF with
    the last bytes or after them) and scheduled differently, give the same two outputs *)
Theorem fanout_chunking_independent :
  forall (O1 O2 : Type) (out1 : list (list N) -> O1) (spec1 : list N -> O1)
         (out2 : list (list N) -> O2) (spec2 : list N -> O2),
    (forall pieces, out1 pieces = spec1 (concat pieces)) ->
    (forall pieces, out2 pieces = spec2 (concat pieces)) ->
    forall (chunksA chunksB : list (list N)) (eofA eofB : bool) (schedA schedB : list fthread),
      concat chunksA = concat chunksB ->
      let sA := frun schedA (init_fanout_eof chunksA eofA) in
      let sB := frun schedB (init_fanout_eof chunksB eofB) in
      fmarker sA = true -> fmarker sB = true ->
      out1 (fp1 sA) = out1 (fp1 sB) /\ out2 (fp2 sA) = out2 (fp2 sB).
Proof. exact fanout_chunking_lemma. Qed.
Print Assumptions fanout_chunking_independent.

(** For every number of blocks, workers (>= 1), channel capacity (>= 1; 256 in Go), every
    assignment of matches to blocks and every interleaving of the dispatcher, the workers
    and the collector: when the collector closes its output it has forwarded the matches of
    block 0, then of block 1, ... (= [all_matches]), and it can always still get there: no
    reachable state is stuck (a worker's matches channel never holds more than one block's
    output, the hand-back token is never sent twice). *)
Theorem collector_ordered :
  forall (A : Type) (ms : nat -> list A) (nb nw cap : nat),
    0 < nw -> 0 < cap ->
    forall (sched : list cthread),
      let s := crun A ms nb nw cap sched (init_collector A nw) in
      (cclosed A s = true -> cout A s = all_matches A ms nb) /\
      (exists more, cclosed A (crun A ms nb nw cap more s) = true).
Proof. exact collector_ordered_lemma. Qed.
Print Assumptions collector_ordered.

(** non-vacuity *)
Example fanout_instance :
  let s := frun [TProducer; TCons1 2; TCons1 2; TCons2 5; TProducer; TCons1 1; TCons2 1; TProducer; TCons1 4; TCons2 4; TProducer; TCons2 1; TCons1 1; TGroup]
                (init_fanout [[1;2;3]; []]%N) in
  fmarker s = true /\ fp1 s = [[1;2]; [3]; []; []]%N /\ fp2 s = [[1;2;3]; []; []]%N.
Proof. exact fanout_example. Qed.

Example fanout_instance_eofdata :
  let s := frun [TProducer; TCons1 2; TCons1 2; TCons2 5; TProducer; TCons1 1; TCons2 1; TGroup]
                (init_fanout_eof [[1;2;3]]%N true) in
  fmarker s = true /\ fp1 s = [[1;2]; [3]]%N /\ fp2 s = [[1;2;3]]%N.
Proof. exact fanout_example_eofdata. Qed.

Example collector_instance :
  let ms := fun b => match b with 0 => [10; 11; 12] | 1 => [] | 2 => [20] | _ => [30; 31] end in
  let s := crun nat ms 4 2 2 (concat (repeat [CWorker 1; CDispatch; CWorker 0; CCollect] 40)) (init_collector nat 2) in
  cclosed nat s = true /\ cout nat s = [10; 11; 12; 20; 30; 31].
Proof. exact collector_example. Qed.

(** The optimizer's choice of the old file a new file is bsdiff'ed against (rediff.go,
    analyzePatch): the repaired loop visits the candidates by file index, so whatever order
    the Go map hands them out in ([Permutation]) the choice is the same ... *)
Theorem optimize_choice_deterministic :
  forall (l l' : list Pick.cand),
    NoDup (map Pick.cidx l) -> Permutation.Permutation l l' -> Pick.pick_sorted l = Pick.pick_sorted l'.
Proof. exact PickProofs.pick_sorted_deterministic. Qed.
Print Assumptions optimize_choice_deterministic.

(** ... while the unchanged loop, which follows the map's order, does not (two old files
    with equal claims on a new file of another name: the corpus case of the harness). *)
Theorem optimize_choice_refuted :
  exists (l l' : list Pick.cand),
    NoDup (map Pick.cidx l) /\ Permutation.Permutation l l' /\ Pick.pick_in_order l <> Pick.pick_in_order l'.
Proof. exact PickProofs.pick_in_order_refuted. Qed.
Print Assumptions optimize_choice_refuted.
