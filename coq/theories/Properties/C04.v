(** C04 - a build validates against its own signature, however that was produced.
    (statements are added as the proofs land; see Sig/*.v for the models) *)
From Wharf Require Import Base.Prelude Sig.Scan Sig.Weak Sig.Sign Sig.Fanout Sig.SigFile Sig.HashInfo Sig.Validate.
